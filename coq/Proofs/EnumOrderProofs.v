(* Proofs/EnumOrderProofs.v — property C17, second part: what filters and Sort do with an enum column.
     1. positions: with a duplicate-free value table the rank the factory stores (LAST position) and the rank
        the filter looks up for a constant (FIRST position) are both THE declared position;
     2. the bitset behind in / like / ilike: isSet (bitset_of values pred) r = pred (values[r]) for all ranks,
        and the null rank is never set;
     3. the comparison filters  <, <=, >, >=, =, !=  against a constant compare DECLARED POSITIONS, nulls never
        match except for != ; undeclared constant: error (strict) / no row, all rows for != (derived);
     4. the Compare of enum columns used by Sort orders by declared position, nulls first / last, Reverse inverts;
     5. the enum branch of ReadCSV's columnToData and ReadJSON (= New): undeclared value => failure, the empty
        cell is the value "" unless EmptyNull;
     6. null stays distinct: rank 255 is never a string, a rank below the table length is never null. *)
From QF Require Import Base.Prelude Base.KernelSyntax Gen.GenConsts Gen.GenTables Gen.GenKernels.
From QF Require Import Model.Frame Model.Bits Model.Kernel Model.Filter Model.FilterSpec Model.Ops.
From QF Require Import Proofs.BitsProofs Proofs.FilterProofs Proofs.FilterLeafProofs Proofs.EnumProofs.
Local Open Scope nat_scope.

(* ================================================================== 1. positions *)

(* the declared position of a string: its first occurrence in the value table *)
Fixpoint index_of (s : bytes) (l : list bytes) : option nat :=
  match l with
  | [] => None
  | v :: t => if bytes_eqb v s then Some 0 else option_map S (index_of s t)
  end.

Lemma index_of_some s : forall l p, index_of s l = Some p -> nth_error l p = Some s.
Proof.
  induction l as [|v t IH]; intros p H; cbn [index_of] in H; [discriminate|].
  destruct (bytes_eqb v s) eqn:E.
  - inversion H; subst. apply bytes_eqb_spec in E. subst. reflexivity.
  - destruct (index_of s t) as [q|] eqn:Eq; [|discriminate]. inversion H; subst. cbn. apply IH. reflexivity.
Qed.

Lemma index_of_none s : forall l, index_of s l = None -> ~ In s l.
Proof.
  induction l as [|v t IH]; intros H; cbn [index_of] in H; [tauto|].
  destruct (bytes_eqb v s) eqn:E; [discriminate|].
  destruct (index_of s t) as [q|] eqn:Eq; [discriminate|].
  intros [Hv|Hin]; [subst; rewrite bytes_eqb_refl in E; discriminate|]. exact (IH eq_refl Hin).
Qed.

Lemma nodup_nth_unique (l : list bytes) : NoDup l -> forall p q s,
  nth_error l p = Some s -> nth_error l q = Some s -> p = q.
Proof.
  intros Hnd p q s Hp Hq.
  assert (Hlp : p < length l) by (apply nth_error_Some; rewrite Hp; discriminate).
  rewrite NoDup_nth_error in Hnd. apply Hnd; [exact Hlp|]. rewrite Hp, Hq. reflexivity.
Qed.

(* with a duplicate-free table "the position of s" is unambiguous and index_of computes it *)
Theorem index_of_spec (l : list bytes) s p : NoDup l -> (index_of s l = Some p <-> nth_error l p = Some s).
Proof.
  intro Hnd. split; [apply index_of_some|].
  intro Hp. destruct (index_of s l) as [q|] eqn:E.
  - f_equal. apply (nodup_nth_unique l Hnd q p s); [apply index_of_some; exact E|exact Hp].
  - exfalso. apply (index_of_none s l E). eapply nth_error_In. exact Hp.
Qed.

(* the filter's lookup (first position) is index_of *)
Lemma find_value_index_of s : forall l i,
  find_value l s i = option_map (fun p => (i + N.of_nat p)%N) (index_of s l).
Proof.
  induction l as [|v t IH]; intros i; cbn [find_value index_of]; [reflexivity|].
  destruct (bytes_eqb v s); [cbn; f_equal; lia|].
  rewrite IH. destruct (index_of s t) as [q|]; cbn; [f_equal; lia|reflexivity].
Qed.

Lemma find_value_0 s l : find_value l s 0 = option_map N.of_nat (index_of s l).
Proof. rewrite find_value_index_of. destruct (index_of s l); cbn; [f_equal; lia|reflexivity]. Qed.

(* ================================================================== 2. the bitset *)

Lemma land_pow2_pos (x k : N) : (0 <? N.land x (2 ^ k))%N = N.testbit x k.
Proof.
  assert (H : N.land x (2 ^ k) = if N.testbit x k then (2 ^ k)%N else 0%N).
  { apply N.bits_inj. intro n. rewrite N.land_spec, N.pow2_bits_eqb.
    destruct (N.eqb_spec k n) as [->|Hne].
    - rewrite andb_true_r. destruct (N.testbit x n) eqn:E; [rewrite N.pow2_bits_eqb, N.eqb_refl; reflexivity|symmetry; apply N.bits_0].
    - rewrite andb_false_r. destruct (N.testbit x k); [rewrite N.pow2_bits_eqb; symmetry; apply N.eqb_neq; exact Hne|symmetry; apply N.bits_0]. }
  rewrite H. destruct (N.testbit x k).
  - apply N.ltb_lt. assert (2 ^ k <> 0)%N by (apply N.pow_nonzero; discriminate). lia.
  - reflexivity.
Qed.

Lemma bit_word (r : N) : u64 (N.shiftl 1 (N.land r 63)) = (2 ^ (r mod 64))%N.
Proof.
  change 63%N with (N.ones 6). rewrite N.land_ones. change (2 ^ 6)%N with 64%N.
  rewrite N.shiftl_1_l. unfold u64. apply N.mod_small.
  apply N.pow_lt_mono_r; [lia|]. apply N.mod_lt. discriminate.
Qed.

(* isSet reads bit (r mod 64) of word (r / 64) *)
Lemma isset_testbit (s : bitset) (r : N) :
  bitset_isset s r = N.testbit (nth (N.to_nat (r / 64)) s 0%N) (r mod 64).
Proof.
  unfold bitset_isset.
  change c_bitset_isset_shift with 6%N. change c_bitset_isset_one with 1%N.
  change c_bitset_isset_mask with 63%N. change c_bitset_isset_cmp with 0%N.
  rewrite bit_word, land_pow2_pos, N.shiftr_div_pow2. reflexivity.
Qed.

Lemma nth_set_nth_eq (l : list N) i v : i < length l -> nth i (set_nth l i v) 0%N = v.
Proof. intro H. apply nth_error_nth. apply nth_error_set_nth_eq. exact H. Qed.

Lemma nth_set_nth_neq (l : list N) i j v : i <> j -> nth j (set_nth l i v) 0%N = nth j l 0%N.
Proof.
  intro H. pose proof (nth_error_set_nth_neq l i j v H) as E.
  destruct (nth_error l j) as [x|] eqn:Ej.
  - rewrite (nth_error_nth _ _ _ E), (nth_error_nth _ _ _ Ej). reflexivity.
  - rewrite !nth_overflow; [reflexivity| |].
    + apply nth_error_None. exact Ej.
    + apply nth_error_None. exact E.
Qed.

(* set adds exactly one member (general: any four-word set, any uint8 value) *)
Lemma isset_set (s : bitset) (v r : N) : length s = 4 -> (v < 256)%N ->
  bitset_isset (bitset_set s v) r = (v =? r)%N || bitset_isset s r.
Proof.
  intros Hlen Hv. rewrite !isset_testbit. unfold bitset_set.
  change c_bitset_set_shift with 6%N. change c_bitset_set_one with 1%N. change c_bitset_set_mask with 63%N.
  rewrite bit_word, N.shiftr_div_pow2. change (2 ^ 6)%N with 64%N.
  pose proof (N.div_mod v 64 ltac:(discriminate)) as Dv.
  pose proof (N.div_mod r 64 ltac:(discriminate)) as Dr.
  pose proof (N.mod_lt v 64 ltac:(discriminate)) as Mv.
  pose proof (N.mod_lt r 64 ltac:(discriminate)) as Mr.
  assert (Hw : N.to_nat (v / 64) < length s).
  { rewrite Hlen. assert (v / 64 < 4)%N by (apply N.div_lt_upper_bound; lia). lia. }
  destruct (Nat.eq_dec (N.to_nat (v / 64)) (N.to_nat (r / 64))) as [E|E].
  - rewrite <- E, nth_set_nth_eq by exact Hw. rewrite N.lor_spec, N.pow2_bits_eqb.
    assert (Hq : (v / 64 = r / 64)%N) by lia.
    rewrite orb_comm. f_equal.
    destruct (N.eqb_spec (v mod 64) (r mod 64)) as [Em|Em]; destruct (N.eqb_spec v r) as [Ev|Ev];
      try reflexivity; exfalso; [apply Ev; lia|apply Em; subst; reflexivity].
  - rewrite nth_set_nth_neq by exact E.
    destruct (N.eqb_spec v r) as [Ev|Ev]; [subst; exfalso; apply E; reflexivity|reflexivity].
Qed.

Lemma bitset_set_length s v : length (bitset_set s v) = length s.
Proof. unfold bitset_set. apply set_nth_length. Qed.

Lemma isset_empty r : bitset_isset bitset_empty r = false.
Proof.
  rewrite isset_testbit. unfold bitset_empty.
  destruct (N.to_nat (r / 64)) as [|[|[|[|n]]]]; cbn [nth]; try apply N.bits_0.
  destruct n; apply N.bits_0.
Qed.

(* does one of the values at rank i, i+1, ... hit rank r *)
Fixpoint hit (pred : bytes -> bool) (values : list bytes) (i r : N) : bool :=
  match values with
  | [] => false
  | v :: t => ((i =? r)%N && pred v) || hit pred t (i + 1)%N r
  end.

Definition bitset_step (pred : bytes -> bool) : N * bitset -> bytes -> N * bitset :=
  fun '(i, s) v => ((i + 1)%N, if pred v then bitset_set s (i mod 256) else s).

Lemma bitset_fold pred : forall values i s,
  length s = 4 -> (i + N.of_nat (length values) <= 256)%N ->
  let r := fold_left (bitset_step pred) values (i, s) in
  length (snd r) = 4 /\ forall q, bitset_isset (snd r) q = bitset_isset s q || hit pred values i q.
Proof.
  induction values as [|v t IH]; intros i s Hlen Hi; cbn [fold_left hit].
  - split; [exact Hlen|]. intro q. rewrite orb_false_r. reflexivity.
  - cbn [length] in Hi. cbn [bitset_step].
    assert (Him : (i mod 256 = i)%N) by (apply N.mod_small; lia).
    destruct (pred v) eqn:Ep.
    + destruct (IH (i + 1)%N (bitset_set s (i mod 256))) as [H1 H2];
        [rewrite bitset_set_length; exact Hlen|lia|].
      split; [exact H1|]. intro q. rewrite H2, isset_set by (try exact Hlen; lia).
      rewrite Him, andb_true_r.
      destruct (i =? q)%N, (bitset_isset s q), (hit pred t (i + 1)%N q); reflexivity.
    + destruct (IH (i + 1)%N s) as [H1 H2]; [exact Hlen|lia|].
      split; [exact H1|]. intro q. rewrite H2, andb_false_r. reflexivity.
Qed.

Lemma hit_nth pred : forall values i r,
  hit pred values i r =
  (i <=? r)%N && match nth_error values (N.to_nat (r - i)) with Some v => pred v | None => false end.
Proof.
  induction values as [|v t IH]; intros i r; cbn [hit].
  - destruct (N.to_nat (r - i)); cbn; rewrite andb_false_r; reflexivity.
  - rewrite IH. destruct (N.eqb_spec i r) as [E|E].
    + subst. rewrite N.sub_diag. cbn [N.to_nat nth_error andb].
      assert (H1 : (r + 1 <=? r)%N = false) by (apply N.leb_gt; lia).
      assert (H2 : (r <=? r)%N = true) by (apply N.leb_le; lia).
      rewrite H1, H2. cbn. rewrite orb_false_r. reflexivity.
    + cbn [andb orb]. destruct (N.leb_spec (i + 1) r) as [L|L].
      * assert (H2 : (i <=? r)%N = true) by (apply N.leb_le; lia). rewrite H2. cbn [andb].
        replace (N.to_nat (r - i)) with (S (N.to_nat (r - (i + 1)))) by lia. reflexivity.
      * assert (H2 : (i <=? r)%N = false) by (apply N.leb_gt; lia). rewrite H2. reflexivity.
Qed.

Lemma bitset_of_fold values pred : bitset_of values pred = snd (fold_left (bitset_step pred) values (0%N, bitset_empty)).
Proof.
  reflexivity.
Qed.

(* C17 bitset: the set that in / like / ilike build over the value table answers, for EVERY uint8 rank r,
   exactly pred (values[r]) — in particular false for ranks beyond the table, hence for the null rank 255. *)
Theorem bitset_of_spec (values : list bytes) (pred : bytes -> bool) (r : N) :
  length values <= 256 ->
  bitset_isset (bitset_of values pred) r
  = match nth_error values (N.to_nat r) with Some v => pred v | None => false end.
Proof.
  intro Hl. rewrite bitset_of_fold.
  destruct (bitset_fold pred values 0%N bitset_empty eq_refl ltac:(lia)) as [_ H].
  rewrite H, isset_empty, hit_nth, N.sub_0_r. cbn [orb].
  assert (E : (0 <=? r)%N = true) by (apply N.leb_le; lia). rewrite E. reflexivity.
Qed.

Theorem bitset_of_null (values : list bytes) (pred : bytes -> bool) :
  length values <= 255 -> bitset_isset (bitset_of values pred) c_nullValue = false.
Proof.
  intro Hl. rewrite bitset_of_spec by lia. change (N.to_nat c_nullValue) with 255.
  destruct (nth_error values 255) eqn:E; [|reflexivity].
  assert (255 < length values) by (apply nth_error_Some; rewrite E; discriminate). lia.
Qed.

(* ================================================================== 6. null stays distinct *)

Theorem cell_at_null_distinct d vals strict k r :
  nth_error d k = Some r ->
  (r = 255%N -> cell_at (ECol d vals strict) k = Ok (CEnum None))
  /\ (r <> 255%N -> forall s, cell_at (ECol d vals strict) k = Ok (CEnum s) ->
        s = nth_error vals (N.to_nat r) /\ s <> None)
  /\ (N.to_nat r < length vals -> length vals <= 255 ->
        exists s, nth_error vals (N.to_nat r) = Some s /\ cell_at (ECol d vals strict) k = Ok (CEnum (Some s))).
Proof.
  intro Hr. unfold cell_at, idx. rewrite Hr. cbn [of_option obind]. unfold enum_string, enum_is_null, idx.
  change c_nullValue with 255%N.
  split; [|split].
  - intros ->. reflexivity.
  - intros Hne s. destruct (N.eqb_spec r 255) as [E|_]; [contradiction|].
    destruct (nth_error vals (N.to_nat r)) as [x|]; cbn; [|discriminate].
    intro H. inversion H. split; [reflexivity|discriminate].
  - intros Hlt Hl. destruct (N.eqb_spec r 255) as [E|_]; [lia|].
    destruct (nth_error vals (N.to_nat r)) as [x|] eqn:E; [exists x; split; reflexivity|].
    apply nth_error_None in E. lia.
Qed.

(* ================================================================== the factory keeps the table duplicate-free *)

Lemma find_value_last_none_iff vals s : find_value_last vals s = None <-> ~ In s vals.
Proof.
  split; [apply find_value_last_none|].
  intro Hn. destruct (find_value_last vals s) as [r|] eqn:E; [|reflexivity].
  exfalso. destruct (find_value_last_some _ _ _ E) as [j [_ [_ Hj]]]. apply Hn. eapply nth_error_In. exact Hj.
Qed.

Lemma enum_step_nodup strict st s st' :
  NoDup (fst st) -> enum_step strict st s = Ok st' -> NoDup (fst st').
Proof.
  destruct st as [vals acc]. intros Hnd H. unfold enum_step in H. destruct s as [b|].
  - destruct (find_value_last vals b) as [rk|] eqn:Ef.
    + inversion H; subst. exact Hnd.
    + destruct strict; [discriminate|].
      destruct (N.to_nat c_maxCardinality <=? length vals); [discriminate|].
      inversion H; subst. cbn [fst] in *.
      apply NoDup_rev in Hnd. rewrite <- (rev_involutive (vals ++ [b])). apply NoDup_rev.
      rewrite rev_app_distr. cbn. constructor; [|exact Hnd].
      rewrite <- in_rev. apply find_value_last_none. exact Ef.
  - inversion H; subst. exact Hnd.
Qed.

Lemma ofold_fail_stays {A B} (f : B -> A -> outcome B) : forall l, fold_left (fun acc x => do a <- acc; f a x) l Fail = Fail.
Proof. induction l as [|x l IH]; [reflexivity|exact IH]. Qed.
Lemma ofold_panic_stays {A B} (f : B -> A -> outcome B) : forall l, fold_left (fun acc x => do a <- acc; f a x) l Panic = Panic.
Proof. induction l as [|x l IH]; [reflexivity|exact IH]. Qed.

Lemma ofold_enum_nodup strict : forall data st st',
  NoDup (fst st) -> ofold (enum_step strict) data st = Ok st' -> NoDup (fst st').
Proof.
  induction data as [|s data IH]; intros st st' Hnd H; unfold ofold in H; cbn [fold_left] in H.
  - inversion H; subst. exact Hnd.
  - cbn [obind] in H. destruct (enum_step strict st s) as [st1| |] eqn:E1.
    + apply (IH st1 st'); [eapply enum_step_nodup; eassumption|exact H].
    + rewrite ofold_fail_stays in H. discriminate.
    + rewrite ofold_panic_stays in H. discriminate.
Qed.

(* the value table of a column the factory returned is duplicate-free (the declaration is: the factory rejects
   any other; what the data adds is new by construction) *)
Theorem enum_new_nodup data values d vals strict :
  enum_new data values = Ok (ECol d vals strict) -> NoDup vals.
Proof.
  intros H. pose proof (enum_new_ok_nodup _ _ _ H) as Hnd. rewrite enum_new_unfold in H.
  destruct (N.to_nat c_maxCardinality <? length values); [discriminate|].
  destruct (nodup_bytes values); [|discriminate]. cbv zeta in H. cbn [negb] in H.
  destruct (ofold (enum_step (negb (length values =? 0))) data (values, [])) as [[vs acc]| |] eqn:Ef; try discriminate.
  cbn in H. inversion H; subst.
  exact (ofold_enum_nodup _ data (values, []) (vals, d) Hnd Ef).
Qed.

(* ================================================================== 3. comparison filters against a constant *)

(* the six comparison operators by name (inverse of FilterSpec.cop_of) *)
Definition cop_name (op : cop) : bytes :=
  match op with
  | OLt => bs 1 0x3c | OLe => bs 2 0x3c3d | OGt => bs 1 0x3e | OGe => bs 2 0x3e3d | OEq => bs 1 0x3d | ONe => bs 2 0x213d
  end.

Lemma cop_of_name op : cop_of (cop_name op) = Some op.
Proof. destruct op; vm_compute; reflexivity. Qed.

Lemma cop_of_inv cmp op : cop_of cmp = Some op -> cmp = cop_name op.
Proof.
  unfold cop_of. intro H.
  repeat match type of H with
         | (if bytes_eqb ?a ?b then _ else _) = _ =>
             let E := fresh "E" in destruct (bytes_eqb a b) eqn:E;
             [apply bytes_eqb_spec in E; inversion H; subst; reflexivity|clear E]
         end.
  discriminate.
Qed.

(* what the kernels compute on ranks *)
Definition rank_sat (op : cop) (r rc : N) : bool :=
  if enum_is_null r then null_answer op else ord_sat op (N.compare r rc).

Lemma idx_nth_N (d : list N) p : p < length d -> idx d p = Ok (nth p d 0%N).
Proof.
  intro H. unfold idx. destruct (nth_error d p) eqn:E.
  - simpl. f_equal. symmetry. apply nth_error_nth. exact E.
  - apply nth_error_None in E. lia.
Qed.

Lemma enum_not_null_lt pc : pc < 255 -> enum_is_null (N.of_nat pc) = false.
Proof. intro H. unfold enum_is_null. change c_nullValue with 255%N. apply N.eqb_neq. lia. Qed.

Lemma index_of_lt s l p : index_of s l = Some p -> p < length l.
Proof. intro H. apply nth_error_Some. rewrite (index_of_some s l p H). discriminate. Qed.

Ltac enum_point d p Hin Hpc :=
  unfold body_point; cbn [keval base_env k_cell k_const raw_kval obind];
  rewrite (idx_nth_N d p Hin); cbn [obind kcompare cmp3 as_bool]; rewrite Hpc; unfold rank_sat;
  destruct (enum_is_null (nth p d 0%N)); cbn [negb obind as_bool null_answer is_ne_op orb].

(* the generated kernels k_e_lt ... k_e_neq, reached through the generated table t_e_filter1, on ANY enum
   column (well formed or not): rows already matched stay, every other row is decided by its rank *)
Lemma enum_filter_ranks mt op d vals st index b s pc :
  index_of s vals = Some pc -> length vals <= 255 -> length index = length b -> Forall (fun p => p < length d) index ->
  e_filter_builtin mt d vals st index (cop_name op) (RConst (AStr s)) b
  = Ok (mask_or b (map (fun p => rank_sat op (nth p d 0%N) (N.of_nat pc)) index)).
Proof.
  intros Hs Hl Hlen Hin.
  assert (Hpc : enum_is_null (N.of_nat pc) = false) by (apply enum_not_null_lt; apply index_of_lt in Hs; lia).
  unfold e_filter_builtin. cbn [norm_strs]. rewrite find_value_0, Hs. cbn [option_map].
  rewrite Forall_forall in Hin.
  destruct op; cbn [cop_name]; reduce_closed; unfold run; reduce_closed; unfold run_kernel;
  (rewrite guarded_loop_realised;
   [ f_equal; f_equal; apply map_ext_in; intros p Hp; specialize (Hin p Hp); enum_point d p Hin Hpc;
     try reflexivity; rewrite N2Z.inj_compare; destruct (N.compare (nth p d 0%N) (N.of_nat pc)); reflexivity
   | exact Hlen
   | intros p Hp; specialize (Hin p Hp); enum_point d p Hin Hpc; eexists; reflexivity ]).
Qed.

(* the statement of the property on one cell: compare DECLARED POSITIONS; null satisfies only != *)
Definition enum_row_sat (op : cop) (vals : list bytes) (pc : nat) (c : option bytes) : bool :=
  match c with
  | None => null_answer op
  | Some v => match index_of v vals with Some pv => ord_sat op (Nat.compare pv pc) | None => false end
  end.

(* the cells of a column built by the factory, seen from the ranks *)
Lemma enum_new_rank_cell data values d vals strict :
  enum_new data values = Ok (ECol d vals strict) ->
  forall p, p < length data ->
    match nth p data None with
    | None => nth p d 0%N = 255%N
    | Some v => nth p d 0%N <> 255%N /\ index_of v vals = Some (N.to_nat (nth p d 0%N))
    end.
Proof.
  intros H p Hp. pose proof (enum_new_ok_nodup _ _ _ H) as Hnd.
  pose proof (enum_new_nodup _ _ _ _ _ H) as Hndv.
  destruct (enum_new_decode _ _ _ _ _ H) as [_ [_ [_ [Hlen _]]]].
  assert (Hd : nth_error d p = Some (nth p d 0%N)) by (apply nth_error_nth'; lia).
  assert (Hdat : nth_error data p = Some (nth p data None)) by (apply nth_error_nth'; lia).
  pose proof (enum_rank_is_position _ _ _ _ _ H p _ Hd) as Hr. rewrite Hdat in Hr.
  destruct (nth p data None) as [v|]; [|exact Hr].
  destruct Hr as [Hn Hv]. split; [exact Hn|]. apply index_of_spec; assumption.
Qed.

(* C17 filter order *)
Theorem enum_filter_order mt data values d vals strict cmp op s pc index b :
  enum_new data values = Ok (ECol d vals strict) ->
  cop_of cmp = Some op -> nth_error vals pc = Some s ->
  length index = length b -> Forall (fun p => p < length data) index ->
  e_filter_builtin mt d vals strict index cmp (RConst (AStr s)) b
  = Ok (mask_or b (map (fun p => enum_row_sat op vals pc (nth p data None)) index)).
Proof.
  intros H Hcmp Hs Hlen Hin. pose proof (enum_new_ok_nodup _ _ _ H) as Hnd.
  pose proof (enum_new_nodup _ _ _ _ _ H) as Hndv.
  destruct (enum_new_decode _ _ _ _ _ H) as [Hl [_ [_ [Hld _]]]].
  apply cop_of_inv in Hcmp. subst cmp.
  assert (Hix : index_of s vals = Some pc) by (apply index_of_spec; assumption).
  rewrite (enum_filter_ranks mt op d vals strict index b s pc Hix Hl Hlen) by (rewrite Hld; exact Hin).
  f_equal. f_equal. apply map_ext_in. intros p Hp.
  rewrite Forall_forall in Hin. specialize (Hin p Hp).
  pose proof (enum_new_rank_cell _ _ _ _ _ H p Hin) as Hc.
  unfold rank_sat, enum_row_sat, enum_is_null. change c_nullValue with 255%N.
  destruct (nth p data None) as [v|].
  - destruct Hc as [Hn Hv]. rewrite Hv.
    destruct (N.eqb_spec (nth p d 0%N) 255) as [E|_]; [contradiction|].
    rewrite N2Nat.inj_compare, Nat2N.id. reflexivity.
  - rewrite Hc. reflexivity.
Qed.

(* C17 undeclared constant: strict => error for each of the six operators; derived => no row, every row for != *)
Theorem enum_filter_undeclared mt d vals strict cmp op s index b :
  cop_of cmp = Some op -> ~ In s vals ->
  e_filter_builtin mt d vals strict index cmp (RConst (AStr s)) b
  = if strict then Fail else Ok (if is_ne_op op then map (fun _ => true) b else b).
Proof.
  intros Hcmp Hs. apply cop_of_inv in Hcmp. subst cmp.
  assert (Hix : index_of s vals = None).
  { destruct (index_of s vals) as [q|] eqn:E; [|reflexivity].
    exfalso. apply Hs. eapply nth_error_In. apply index_of_some. exact E. }
  unfold e_filter_builtin. cbn [norm_strs]. rewrite find_value_0, Hix. cbn [option_map].
  destruct op; cbn [cop_name is_ne_op]; reduce_closed; reflexivity.
Qed.

(* ================================================================== in / like / ilike through the bitset *)

(* on one cell: null never matches, a value matches iff the predicate holds for its string *)
Definition enum_pred_sat (pred : bytes -> bool) (c : option bytes) : bool :=
  match c with None => false | Some v => pred v end.

Lemma enum_bitset_filter_ranks d vals st index b pred :
  length index = length b -> Forall (fun p => p < length d) index ->
  run L_e fname_filterWithBitset (with_bitset (base_env (ECol d vals st) None VBad) (bitset_of vals pred)) index b
  = Ok (mask_or b (map (fun p => bitset_isset (bitset_of vals pred) (nth p d 0%N)) index)).
Proof.
  intros Hlen Hin. rewrite Forall_forall in Hin.
  unfold run; reduce_closed; unfold run_kernel.
  rewrite guarded_loop_realised.
  - f_equal. f_equal. apply map_ext_in. intros p Hp. specialize (Hin p Hp).
    unfold body_point. cbn [keval with_bitset base_env k_cell k_bitset raw_kval obind].
    rewrite (idx_nth_N d p Hin). reflexivity.
  - exact Hlen.
  - intros p Hp. specialize (Hin p Hp).
    unfold body_point. cbn [keval with_bitset base_env k_cell k_bitset raw_kval obind].
    rewrite (idx_nth_N d p Hin). eexists. reflexivity.
Qed.

Lemma enum_bitset_filter data values d vals strict index b pred :
  enum_new data values = Ok (ECol d vals strict) ->
  length index = length b -> Forall (fun p => p < length data) index ->
  run L_e fname_filterWithBitset (with_bitset (base_env (ECol d vals strict) None VBad) (bitset_of vals pred)) index b
  = Ok (mask_or b (map (fun p => enum_pred_sat pred (nth p data None)) index)).
Proof.
  intros H Hlen Hin. pose proof (enum_new_ok_nodup _ _ _ H) as Hnd.
  destruct (enum_new_decode _ _ _ _ _ H) as [Hl [_ [_ [Hld _]]]].
  rewrite enum_bitset_filter_ranks by (try exact Hlen; rewrite Hld; exact Hin).
  f_equal. f_equal. apply map_ext_in. intros p Hp.
  rewrite Forall_forall in Hin. specialize (Hin p Hp).
  pose proof (enum_new_rank_cell _ _ _ _ _ H p Hin) as Hc.
  rewrite bitset_of_spec by lia. unfold enum_pred_sat.
  destruct (nth p data None) as [v|].
  - destruct Hc as [_ Hv]. rewrite (index_of_some _ _ _ Hv). reflexivity.
  - rewrite Hc. change (N.to_nat 255) with 255.
    destruct (nth_error vals 255) eqn:E; [|reflexivity].
    assert (255 < length vals) by (apply nth_error_Some; rewrite E; discriminate). lia.
Qed.

Definition name_like : bytes := bs 4 0x6c696b65.
Definition name_ilike : bytes := bs 5 0x696c696b65.

(* C17 "in": the rows whose value is one of the listed strings; listing undeclared strings is not an error *)
Theorem enum_filter_in mt data values d vals strict l index b :
  enum_new data values = Ok (ECol d vals strict) ->
  length index = length b -> Forall (fun p => p < length data) index ->
  e_filter_builtin mt d vals strict index name_in (RConst (AStrs l)) b
  = Ok (mask_or b (map (fun p => enum_pred_sat (fun v => existsb (bytes_eqb v) l) (nth p data None)) index)).
Proof.
  intros H Hlen Hin. pose proof (enum_new_ok_nodup _ _ _ H) as Hnd. unfold e_filter_builtin. cbn [norm_strs]. unfold name_in. reduce_closed.
  apply enum_bitset_filter with (values := values); assumption.
Qed.

(* C17 like / ilike: the rows whose value the compiled matcher accepts; a pattern that does not compile is an error *)
Theorem enum_filter_like mt data values d vals strict (cs : bool) pat index b :
  enum_new data values = Ok (ECol d vals strict) ->
  length index = length b -> Forall (fun p => p < length data) index ->
  e_filter_builtin mt d vals strict index (if cs then name_like else name_ilike) (RConst (AStr pat)) b
  = match find_matcher mt pat cs with
    | Some (Some m) => Ok (mask_or b (map (fun p => enum_pred_sat m (nth p data None)) index))
    | Some None => Fail
    | None => Panic
    end.
Proof.
  intros H Hlen Hin. pose proof (enum_new_ok_nodup _ _ _ H) as Hnd. unfold e_filter_builtin. cbn [norm_strs].
  destruct cs; unfold name_like, name_ilike; reduce_closed;
    (match goal with |- context[is_like ?c] => let r := eval vm_compute in (is_like c) in change (is_like c) with r end);
    cbv beta iota;
    (destruct (find_matcher mt pat _) as [[m|]|]; [|reflexivity|reflexivity]);
    apply enum_bitset_filter with (values := values); assumption.
Qed.

(* ================================================================== comparison filters against another enum column *)

Definition rank_sat2 (op : cop) (r1 r2 : N) : bool :=
  if enum_is_null r1 || enum_is_null r2 then null_answer op else ord_sat op (N.compare r1 r2).

Ltac enum_point2 d d2 p Hin Hin2 :=
  unfold body_point; cbn [keval base_env k_cell k_const raw_kval obind];
  rewrite (idx_nth_N d p Hin), (idx_nth_N d2 p Hin2); cbn [obind kcompare cmp3 as_bool]; unfold rank_sat2;
  destruct (enum_is_null (nth p d 0%N)); cbn [negb obind as_bool null_answer is_ne_op orb];
  destruct (enum_is_null (nth p d2 0%N)); cbn [negb obind as_bool null_answer is_ne_op orb].

Lemma equal_types_spec v1 n1 v2 n2 : equal_types v1 n1 v2 n2 = true <-> v1 = v2 /\ n1 = n2.
Proof.
  unfold equal_types. split.
  - intro H. apply andb_true_iff in H as [H H3]. apply andb_true_iff in H as [_ H2].
    apply (list_eqb_spec _ bytes_eqb_spec) in H3. apply Nat.eqb_eq in H2. auto.
  - intros [-> ->]. rewrite !Nat.eqb_refl. apply (list_eqb_spec _ bytes_eqb_spec). reflexivity.
Qed.

(* the kernels k_e_lt2 ... k_e_neq2 through the table t_e_filter2: both cells non-null and the ranks compare;
   != also when one of them is null; columns over different value tables or of different length: error *)
Lemma enum_filter2_ranks mt op d vals st d2 v2 st2 index b :
  length index = length b -> Forall (fun p => p < length d) index ->
  e_filter_builtin mt d vals st index (cop_name op) (RCol (ECol d2 v2 st2)) b
  = if equal_types vals (length d) v2 (length d2)
    then Ok (mask_or b (map (fun p => rank_sat2 op (nth p d 0%N) (nth p d2 0%N)) index))
    else Fail.
Proof.
  intros Hlen Hin. unfold e_filter_builtin.
  destruct (equal_types vals (length d) v2 (length d2)) eqn:Et; [|reflexivity].
  apply equal_types_spec in Et as [_ El].
  rewrite Forall_forall in Hin.
  unfold run_tbl.
  destruct op; cbn [cop_name]; reduce_closed; unfold run; reduce_closed; unfold run_kernel;
  (rewrite guarded_loop_realised;
   [ f_equal; f_equal; apply map_ext_in; intros p Hp; specialize (Hin p Hp);
     assert (Hin2 : p < length d2) by (rewrite <- El; exact Hin);
     enum_point2 d d2 p Hin Hin2;
     try reflexivity; rewrite N2Z.inj_compare; destruct (N.compare (nth p d 0%N) (nth p d2 0%N)); reflexivity
   | exact Hlen
   | intros p Hp; specialize (Hin p Hp);
     assert (Hin2 : p < length d2) by (rewrite <- El; exact Hin);
     enum_point2 d d2 p Hin Hin2; eexists; reflexivity ]).
Qed.

Lemma enum_filter2_types mt op d vals st d2 v2 st2 index b :
  length index = length b -> Forall (fun p => p < length d) index ->
  (vals <> v2 \/ length d <> length d2) ->
  e_filter_builtin mt d vals st index (cop_name op) (RCol (ECol d2 v2 st2)) b = Fail.
Proof.
  intros Hl Hi Hne. rewrite enum_filter2_ranks by assumption.
  destruct (equal_types vals (length d) v2 (length d2)) eqn:E; [|reflexivity].
  apply equal_types_spec in E as [E1 E2]. destruct Hne as [H|H]; contradiction.
Qed.

Definition enum_row_sat2 (op : cop) (vals : list bytes) (c1 c2 : option bytes) : bool :=
  match c1, c2 with
  | Some v, Some w =>
      match index_of v vals, index_of w vals with
      | Some pv, Some pw => ord_sat op (Nat.compare pv pw)
      | _, _ => false
      end
  | _, _ => null_answer op
  end.

(* C17 filter order, column against column: two enum columns of the same length over the same table *)
Theorem enum_filter2_order mt data values d vals strict data2 values2 d2 strict2 cmp op index b :
  enum_new data values = Ok (ECol d vals strict) ->
  enum_new data2 values2 = Ok (ECol d2 vals strict2) ->
  length data2 = length data -> cop_of cmp = Some op ->
  length index = length b -> Forall (fun p => p < length data) index ->
  e_filter_builtin mt d vals strict index cmp (RCol (ECol d2 vals strict2)) b
  = Ok (mask_or b (map (fun p => enum_row_sat2 op vals (nth p data None) (nth p data2 None)) index)).
Proof.
  intros H H2 Hl2 Hcmp Hlen Hin. pose proof (enum_new_ok_nodup _ _ _ H) as Hnd. pose proof (enum_new_ok_nodup _ _ _ H2) as Hnd2.
  destruct (enum_new_decode _ _ _ _ _ H) as [_ [_ [_ [Hld _]]]].
  destruct (enum_new_decode _ _ _ _ _ H2) as [_ [_ [_ [Hld2 _]]]].
  apply cop_of_inv in Hcmp. subst cmp.
  rewrite enum_filter2_ranks by (try exact Hlen; rewrite Hld; exact Hin).
  rewrite (proj2 (equal_types_spec vals (length d) vals (length d2))) by (split; [reflexivity|lia]).
  f_equal. f_equal. apply map_ext_in. intros p Hp.
  rewrite Forall_forall in Hin. specialize (Hin p Hp).
  pose proof (enum_new_rank_cell _ _ _ _ _ H p Hin) as Hc.
  pose proof (enum_new_rank_cell _ _ _ _ _ H2 p ltac:(lia)) as Hc2.
  unfold rank_sat2, enum_row_sat2, enum_is_null. change c_nullValue with 255%N.
  destruct (nth p data None) as [v|].
  - destruct Hc as [Hn Hv]. rewrite Hv.
    destruct (N.eqb_spec (nth p d 0%N) 255) as [E|_]; [contradiction|]. cbn [orb].
    destruct (nth p data2 None) as [w|].
    + destruct Hc2 as [Hn2 Hw]. rewrite Hw.
      destruct (N.eqb_spec (nth p d2 0%N) 255) as [E|_]; [contradiction|].
      rewrite N2Nat.inj_compare. reflexivity.
    + rewrite Hc2. reflexivity.
  - rewrite Hc. reflexivity.
Qed.

(* ================================================================== isnull / isnotnull *)

Lemma enum_filter_null_ranks mt (want_null : bool) d vals st index b :
  length index = length b -> Forall (fun p => p < length d) index ->
  e_filter_builtin mt d vals st index (if want_null then name_isnull else name_isnotnull) (RConst ANil) b
  = Ok (mask_or b (map (fun p => Bool.eqb (enum_is_null (nth p d 0%N)) want_null) index)).
Proof.
  intros Hlen Hin. rewrite Forall_forall in Hin.
  unfold e_filter_builtin. cbn [norm_strs]. unfold run_tbl, name_isnull, name_isnotnull.
  destruct want_null; reduce_closed; unfold run; reduce_closed; unfold run_kernel;
  (rewrite guarded_loop_realised;
   [ f_equal; f_equal; apply map_ext_in; intros p Hp; specialize (Hin p Hp);
     unfold body_point; cbn [keval base_env k_cell k_const raw_kval obind];
     rewrite (idx_nth_N d p Hin); cbn [obind as_bool];
     destruct (enum_is_null (nth p d 0%N)); reflexivity
   | exact Hlen
   | intros p Hp; specialize (Hin p Hp);
     unfold body_point; cbn [keval base_env k_cell k_const raw_kval obind];
     rewrite (idx_nth_N d p Hin); cbn [obind as_bool]; eexists; reflexivity ]).
Qed.

(* C17 null through filters: isnull keeps exactly the null cells, isnotnull exactly the others — a value is never
   taken for null by a filter, null never for a value *)
Theorem enum_filter_null mt (want_null : bool) data values d vals strict index b :
  enum_new data values = Ok (ECol d vals strict) ->
  length index = length b -> Forall (fun p => p < length data) index ->
  e_filter_builtin mt d vals strict index (if want_null then name_isnull else name_isnotnull) (RConst ANil) b
  = Ok (mask_or b (map (fun p => match nth p data None with None => want_null | Some _ => negb want_null end) index)).
Proof.
  intros H Hlen Hin. pose proof (enum_new_ok_nodup _ _ _ H) as Hnd.
  destruct (enum_new_decode _ _ _ _ _ H) as [_ [_ [_ [Hld _]]]].
  rewrite enum_filter_null_ranks by (try exact Hlen; rewrite Hld; exact Hin).
  f_equal. f_equal. apply map_ext_in. intros p Hp.
  rewrite Forall_forall in Hin. specialize (Hin p Hp).
  pose proof (enum_new_rank_cell _ _ _ _ _ H p Hin) as Hc.
  unfold enum_is_null. change c_nullValue with 255%N.
  destruct (nth p data None) as [v|].
  - destruct Hc as [Hn _]. destruct (N.eqb_spec (nth p d 0%N) 255) as [E|_]; [contradiction|].
    destruct want_null; reflexivity.
  - rewrite Hc. destruct want_null; reflexivity.
Qed.

(* ================================================================== NewConst (ConstString in an enum column) *)

Theorem enum_new_const_strict b n values :
  values <> [] -> ~ In b values -> enum_new_const (Some b) n values = Fail.
Proof.
  intros Hne Hn. unfold enum_new_const.
  destruct (N.to_nat c_maxCardinality <? length values); [reflexivity|].
  destruct (nodup_bytes values); [|reflexivity]. cbv zeta. cbn [negb].
  rewrite (proj2 (find_value_last_none_iff values b) Hn).
  destruct values; [congruence|reflexivity].
Qed.

Theorem enum_new_const_decode v n values d vals strict :
  enum_new_const v n values = Ok (ECol d vals strict) -> length values <= 255 ->
  length d = n /\ (exists ext, vals = values ++ ext) /\ (values <> [] -> vals = values)
  /\ forall k, k < n -> cell_at (ECol d vals strict) k = Ok (CEnum v).
Proof.
  unfold enum_new_const. destruct (N.to_nat c_maxCardinality <? length values); [discriminate|].
  destruct (nodup_bytes values); [|discriminate]. cbv zeta. cbn [negb].
  intros H Hl. destruct v as [b|].
  - destruct (find_value_last values b) as [r|] eqn:Ef.
    + inversion H; subst. split; [apply repeat_length|]. split; [exists []; rewrite app_nil_r; reflexivity|].
      split; [reflexivity|]. intros k Hk.
      destruct (find_value_last_some _ _ _ Ef) as [j [Hj [Hr Hjs]]]. subst r.
      unfold cell_at, idx. rewrite (nth_error_repeat _ Hk). cbn [of_option obind].
      unfold enum_string. rewrite enum_not_null_lt by lia. unfold idx. rewrite Nat2N.id, Hjs. reflexivity.
    + destruct (negb (length values =? 0)) eqn:Es; [discriminate|].
      change (N.to_nat c_maxCardinality) with 255 in H.
      destruct (255 <=? length values) eqn:Ec; [discriminate|]. apply Nat.leb_gt in Ec.
      inversion H; subst. split; [apply repeat_length|]. split; [exists [b]; reflexivity|].
      split; [intro Hne; destruct values; [congruence|discriminate]|]. intros k Hk.
      unfold cell_at, idx. rewrite (nth_error_repeat _ Hk). cbn [of_option obind].
      unfold enum_string. rewrite enum_not_null_lt by lia. unfold idx.
      rewrite Nat2N.id, nth_error_app2, Nat.sub_diag by lia. reflexivity.
  - inversion H; subst. split; [apply repeat_length|]. split; [exists []; rewrite app_nil_r; reflexivity|].
    split; [reflexivity|]. intros k Hk.
    unfold cell_at, idx. rewrite (nth_error_repeat _ Hk). reflexivity.
Qed.

(* ================================================================== the same at the level of QFrame.Filter *)

(* a leaf "enum column <built in comparator> constant" is realised by the per-leaf step of QFrame.filter as soon
   as the column dispatcher is, for every sub-index *)
Lemma enum_leaf_realised mt f col d vals strict cmp a (g : nat -> bool) (inb : nat -> Prop) :
  lookup_col f col = Some (ECol d vals strict) -> (forall n, a <> AColName n) ->
  (forall i b, length i = length b -> Forall inb i ->
     e_filter_builtin mt d vals strict i cmp (RConst a) b = Ok (mask_or b (map g i))) ->
  leaf_realised mt f (fun _ => g) inb (mkLeaf col (CmpName cmp) a false).
Proof.
  intros Hcol Ha Hrun i b Hlen Hin.
  unfold filter_leaf. cbn [lcol larg linv lcmp].
  assert (Hl : lookup_col (with_ix f i) col = Some (ECol d vals strict)) by exact Hcol.
  rewrite Hl.
  destruct a; try (exfalso; eapply Ha; reflexivity); cbn [obind col_filter ix with_ix]; apply Hrun; assumption.
Qed.

Lemma enum_frame_filter_ok mt f col d vals strict cmp a (g : nat -> bool) (inb : nat -> Prop) :
  ferr f = false -> lookup_col f col = Some (ECol d vals strict) -> (forall n, a <> AColName n) ->
  (forall i b, length i = length b -> Forall inb i ->
     e_filter_builtin mt d vals strict i cmp (RConst a) b = Ok (mask_or b (map g i))) ->
  Forall inb (ix f) ->
  frame_filter mt f (CLeaf (mkLeaf col (CmpName cmp) a false)) = Ok (with_ix f (filter g (ix f))).
Proof.
  intros Hok Hcol Ha Hrun Hin.
  pose proof (enum_leaf_realised mt f col d vals strict cmp a g inb Hcol Ha Hrun) as Hl.
  unfold frame_filter. rewrite Hok. cbn [clause_filter].
  pose proof (filter_leaves_or mt f Hok (fun _ => g) inb [mkLeaf col (CmpName cmp) a false] (ix f)
                (Forall_cons _ Hl (Forall_nil _)) Hin) as H.
  destruct f as [cs i e]. unfold with_ix in *. cbn [cols ix ferr] in *. subst e. rewrite H.
  f_equal. f_equal. apply filter_ext. intro p. cbn [existsb]. apply orb_false_r.
Qed.

Lemma enum_frame_filter_fail mt f col d vals strict cmp a :
  ferr f = false -> lookup_col f col = Some (ECol d vals strict) -> (forall n, a <> AColName n) ->
  e_filter_builtin mt d vals strict (ix f) cmp (RConst a) (map (fun _ => false) (ix f)) = Fail ->
  frame_filter mt f (CLeaf (mkLeaf col (CmpName cmp) a false)) = Ok (with_err f).
Proof.
  intros Hok Hcol Ha Hrun.
  unfold frame_filter. rewrite Hok. cbn [clause_filter]. unfold filter_leaves. rewrite Hok.
  unfold ofold. cbn [fold_left obind]. unfold filter_leaf. cbn [lcol larg linv lcmp]. rewrite Hcol.
  destruct a; try (exfalso; eapply Ha; reflexivity); cbn [obind col_filter]; rewrite Hrun; reflexivity.
Qed.

(* C17 filter order, as QFrame.Filter returns it: the rows of the index whose cell satisfies the comparison of
   declared positions, in index order *)
Theorem enum_frame_filter_order mt f col data values d vals strict cmp op s pc :
  ferr f = false -> lookup_col f col = Some (ECol d vals strict) ->
  enum_new data values = Ok (ECol d vals strict) ->
  cop_of cmp = Some op -> nth_error vals pc = Some s ->
  Forall (fun p => p < length data) (ix f) ->
  frame_filter mt f (CLeaf (mkLeaf col (CmpName cmp) (AStr s) false))
  = Ok (with_ix f (filter (fun p => enum_row_sat op vals pc (nth p data None)) (ix f))).
Proof.
  intros Hok Hcol H Hcmp Hs Hin. pose proof (enum_new_ok_nodup _ _ _ H) as Hnd.
  apply (enum_frame_filter_ok mt f col d vals strict cmp (AStr s) _ (fun p => p < length data)); try assumption.
  - discriminate.
  - intros i b Hlen Hi. apply (enum_filter_order mt data values); assumption.
Qed.

Theorem enum_frame_filter_undeclared mt f col d vals cmp op s :
  ferr f = false -> lookup_col f col = Some (ECol d vals true) ->
  cop_of cmp = Some op -> ~ In s vals ->
  frame_filter mt f (CLeaf (mkLeaf col (CmpName cmp) (AStr s) false)) = Ok (with_err f).
Proof.
  intros Hok Hcol Hcmp Hs.
  apply (enum_frame_filter_fail mt f col d vals true cmp (AStr s)); try assumption; [discriminate|].
  rewrite (enum_filter_undeclared mt d vals true cmp op s _ _ Hcmp Hs). reflexivity.
Qed.

Theorem enum_frame_filter_in mt f col data values d vals strict l :
  ferr f = false -> lookup_col f col = Some (ECol d vals strict) ->
  enum_new data values = Ok (ECol d vals strict) ->
  Forall (fun p => p < length data) (ix f) ->
  frame_filter mt f (CLeaf (mkLeaf col (CmpName name_in) (AStrs l) false))
  = Ok (with_ix f (filter (fun p => enum_pred_sat (fun v => existsb (bytes_eqb v) l) (nth p data None)) (ix f))).
Proof.
  intros Hok Hcol H Hin. pose proof (enum_new_ok_nodup _ _ _ H) as Hnd.
  apply (enum_frame_filter_ok mt f col d vals strict name_in (AStrs l) _ (fun p => p < length data)); try assumption.
  - discriminate.
  - intros i b Hlen Hi. apply (enum_filter_in mt data values); assumption.
Qed.

(* ================================================================== 4. Sort: the Compare of enum columns *)
From QF Require Import Model.Sort Proofs.SortProofs Corr.SortCorr Proofs.SortKeyProofs.

(* the sort key of an enum column as the sorter model (Corr/SortCorr.v, key_compare ... KEnum) receives it:
   the rank of every row, None for the null rank *)
Definition rank_opt (r : N) : option N := if enum_is_null r then None else Some r.
Definition enum_sort_key (d : list N) : keydata := KEnum (map rank_opt d).

(* the same key computed from the strings, as the sort engine does it (position in the declared values) *)
Definition enum_key_of (vals : list bytes) (data : list (option bytes)) : keydata :=
  KEnum (map (fun c => match c with None => None | Some s => find_value_last vals s end) data).

(* the order of the property text on two cells: declared position; null before every value (after, with NullLast);
   two nulls tie; Reverse inverts everything *)
Definition cell_pos (vals : list bytes) (c : option bytes) : option nat :=
  match c with None => None | Some v => index_of v vals end.
Definition pos_lt (nullLast : bool) (a b : option nat) : bool :=
  match a, b with
  | None, None => false
  | None, Some _ => negb nullLast
  | Some _, None => nullLast
  | Some x, Some y => x <? y
  end.
Definition enum_lt (vals : list bytes) (reverse nullLast : bool) (a b : option bytes) : bool :=
  if reverse then pos_lt nullLast (cell_pos vals b) (cell_pos vals a)
  else pos_lt nullLast (cell_pos vals a) (cell_pos vals b).

Lemma nthd_rank_opt d i : i < length d -> nthd (map rank_opt d) None i = rank_opt (nth i d 0%N).
Proof.
  intro H. unfold nthd. rewrite (nth_indep _ None (rank_opt 0%N)) by (rewrite map_length; exact H).
  apply map_nth.
Qed.

Lemma rank_opt_cell data values d vals strict :
  enum_new data values = Ok (ECol d vals strict) ->
  forall i, i < length data ->
    option_map N.to_nat (rank_opt (nth i d 0%N)) = cell_pos vals (nth i data None).
Proof.
  intros H i Hi. pose proof (enum_new_ok_nodup _ _ _ H) as Hnd. pose proof (enum_new_rank_cell _ _ _ _ _ H i Hi) as Hc.
  unfold rank_opt, enum_is_null, cell_pos. change c_nullValue with 255%N.
  destruct (nth i data None) as [v|].
  - destruct Hc as [Hn Hv]. destruct (N.eqb_spec (nth i d 0%N) 255) as [E|_]; [contradiction|].
    cbn. symmetry. exact Hv.
  - rewrite Hc. reflexivity.
Qed.

Lemma enum_key_spec data values d vals strict :
  enum_new data values = Ok (ECol d vals strict) ->
  forall rev nl i j, i < length data -> j < length data ->
    key_spec (enum_sort_key d, (rev, nl)) i j = enum_lt vals rev nl (nth i data None) (nth j data None).
Proof.
  intros H rev nl i j Hi Hj. pose proof (enum_new_ok_nodup _ _ _ H) as Hnd.
  destruct (enum_new_decode _ _ _ _ _ H) as [_ [_ [_ [Hld _]]]].
  pose proof (rank_opt_cell _ _ _ _ _ H i Hi) as Ci.
  pose proof (rank_opt_cell _ _ _ _ _ H j Hj) as Cj.
  unfold key_spec, enum_sort_key, key_lt_spec, key_lt_base, key_isnull, key_vlt, enum_lt.
  rewrite !nthd_rank_opt by lia. rewrite <- Ci, <- Cj.
  destruct (rank_opt (nth i d 0%N)) as [x|], (rank_opt (nth j d 0%N)) as [y|], rev; cbn [option_map pos_lt];
    try reflexivity; lia.
Qed.

(* C17 sort order: Compare on an enum column answers by declared position *)
Theorem enum_compare_order data values d vals strict :
  enum_new data values = Ok (ECol d vals strict) ->
  forall rev nl i j, i < length data -> j < length data ->
    let a := nth i data None in let b := nth j data None in
    SortProofs.cmp3 (key_compare (enum_sort_key d, (rev, nl)) i j)
    = (if enum_lt vals rev nl a b then Lt else if enum_lt vals rev nl b a then Gt else Eq)
    /\ model_lt [(enum_sort_key d, (rev, nl))] i j = enum_lt vals rev nl a b.
Proof.
  intros H rev nl i j Hi Hj a b. pose proof (enum_new_ok_nodup _ _ _ H) as Hnd. subst a b.
  pose proof (enum_key_spec _ _ _ _ _ H rev nl) as K.
  split.
  - rewrite key_compare_spec. unfold cmp_of_lt. rewrite (K i j Hi Hj), (K j i Hj Hi). reflexivity.
  - rewrite model_lt_spec. unfold spec_lt. cbn [map lex_lt_spec]. rewrite (K i j Hi Hj).
    rewrite andb_false_r, orb_false_r. reflexivity.
Qed.

(* the key the sort engine computes from the strings is the key of the factory's ranks *)
Theorem enum_key_of_ranks data values d vals strict :
  enum_new data values = Ok (ECol d vals strict) ->
  enum_key_of vals data = enum_sort_key d.
Proof.
  intros H. pose proof (enum_new_ok_nodup _ _ _ H) as Hnd. pose proof (enum_new_nodup _ _ _ _ _ H) as Hndv.
  destruct (enum_new_decode _ _ _ _ _ H) as [Hl [_ [_ [Hld _]]]].
  unfold enum_key_of, enum_sort_key. f_equal.
  apply nth_ext with (d := None) (d' := None); [rewrite !map_length; lia|].
  intros i Hi. rewrite map_length in Hi.
  change (nth i (map rank_opt d) None) with (nthd (map rank_opt d) None i). rewrite nthd_rank_opt by lia.
  set (f := fun c : option bytes => match c with None => None | Some s => find_value_last vals s end).
  change (nth i (map f data) None) with (nth i (map f data) (f None)). rewrite map_nth. subst f. cbv beta.
  pose proof (enum_new_rank_cell _ _ _ _ _ H i Hi) as Hc.
  unfold rank_opt, enum_is_null. change c_nullValue with 255%N.
  destruct (nth i data None) as [v|].
  - destruct Hc as [Hn Hv]. destruct (N.eqb_spec (nth i d 0%N) 255) as [E|_]; [contradiction|].
    destruct (find_value_last vals v) as [r|] eqn:Ef.
    + destruct (find_value_last_some _ _ _ Ef) as [q [_ [Hr Hq]]]. subst r. f_equal.
      apply index_of_some in Hv.
      rewrite (nodup_nth_unique vals Hndv q _ v Hq Hv). lia.
    + exfalso. apply (find_value_last_none _ _ Ef). eapply nth_error_In. apply index_of_some. exact Hv.
  - rewrite Hc. reflexivity.
Qed.

(* Sort() on one enum key (the whole sorter: Proofs/SortQuickSorted.v, sort_ids_by_keys): it answers, returns every
   row of the index once, and no row is followed by a row that comes earlier in the declared order *)
From QF Require Import Proofs.SortQuickSorted.

Theorem enum_sort_sorted data values d vals strict (rev nl : bool) ids :
  enum_new data values = Ok (ECol d vals strict) ->
  Forall (fun p => p < length data) ids ->
  exists out, sort_ids (model_lt [(enum_sort_key d, (rev, nl))]) ids = Ok out /\ Permutation out ids /\
    forall i j a b, i < j -> nth_error out i = Some a -> nth_error out j = Some b ->
      enum_lt vals rev nl (nth b data None) (nth a data None) = false.
Proof.
  intros H Hin. pose proof (enum_new_ok_nodup _ _ _ H) as Hnd.
  destruct (sort_ids_by_keys [(enum_sort_key d, (rev, nl))] ids) as [out [Hs [Hp Hsorted]]].
  exists out. split; [exact Hs|]. split; [exact Hp|].
  intros i j a b Hij Ha Hb.
  rewrite Forall_forall in Hin.
  assert (La : a < length data) by (apply Hin; eapply Permutation_in; [exact Hp|eapply nth_error_In; exact Ha]).
  assert (Lb : b < length data) by (apply Hin; eapply Permutation_in; [exact Hp|eapply nth_error_In; exact Hb]).
  destruct (enum_compare_order _ _ _ _ _ H rev nl b a Lb La) as [_ E]. cbv zeta in E.
  rewrite <- E, model_lt_spec. exact (Hsorted i j a b Hij Ha Hb).
Qed.

(* ================================================================== 5a. construction through New and ReadJSON *)

(* ReadJSON is UnmarshalJSON followed by New: string columns arrive as string pointers (JSON null = nil) and an
   enum column is built by the factory of part 1 *)
Lemma ofold_enum_strict_fail b : forall data st,
  In (Some b) data -> ~ In b (fst st) -> ofold (enum_step true) data st = Fail.
Proof.
  induction data as [|s data IH]; intros st Hin Hn; [destruct Hin|].
  unfold ofold. cbn [fold_left obind].
  destruct (enum_step true st s) as [st1| |] eqn:E1.
  - assert (Hst : fst st1 = fst st).
    { destruct st as [vals acc]. unfold enum_step in E1. destruct s as [x|].
      - destruct (find_value_last vals x); [inversion E1; reflexivity|discriminate].
      - inversion E1; reflexivity. }
    destruct Hin as [->|Hin].
    + exfalso. destruct st as [vals acc]. unfold enum_step in E1.
      destruct (find_value_last vals b) eqn:Ef; [|discriminate].
      destruct (find_value_last_some _ _ _ Ef) as [j [_ [_ Hj]]]. apply Hn. eapply nth_error_In. exact Hj.
    + apply (IH st1 Hin). rewrite Hst. exact Hn.
  - apply ofold_fail_stays.
  - exfalso. destruct st as [vals acc]. unfold enum_step in E1. destruct s as [x|]; [|discriminate].
    destruct (find_value_last vals x); discriminate.
Qed.

Theorem enum_new_strict_fail data values b :
  values <> [] -> In (Some b) data -> ~ In b values -> enum_new data values = Fail.
Proof.
  intros Hne Hin Hn. rewrite enum_new_unfold.
  destruct (N.to_nat c_maxCardinality <? length values); [reflexivity|].
  destruct (nodup_bytes values); [|reflexivity]. cbv zeta. cbn [negb].
  assert (Hs : negb (length values =? 0) = true) by (destruct values; [congruence|reflexivity]).
  rewrite Hs, (ofold_enum_strict_fail b data (values, []) Hin Hn). reflexivity.
Qed.

Theorem json_enum_strict x values b :
  values <> [] -> In (Some b) x -> ~ In b values ->
  create_column (DStrPtrs x) (Some values) = Fail.
Proof. intros Hne Hin Hn. cbn [create_column]. apply enum_new_strict_fail with (b := b); assumption. Qed.

(* ================================================================== New / ReadJSON at the level of the frame *)

(* the loop body of New (qframe.go) as new_frame has it *)
Definition new_step (data : list (bytes * newdata)) (enums : list (bytes * list bytes))
           (st : list (bytes * coldata) * nat * list bytes) (n : bytes)
  : outcome (list (bytes * coldata) * nat * list bytes) :=
  let '(acc, first, used) := st in
  match assocb n data with
  | None => Panic
  | Some d =>
      let en := if is_string_data d && negb (existsb (bytes_eqb n) used) then assocb n enums else None in
      do c <- create_column d en;
      let used' := match en with Some _ => n :: used | None => used end in
      let first' := match acc with [] => col_len c | _ => first end in
      if Nat.eqb first' (col_len c) then Ok (acc ++ [(n, c)], first', used') else Fail
  end.

Lemma new_frame_unfold data order enums :
  new_frame data order enums =
  let errf := mkFrame [] [] true in
  if negb (forallb (fun kv => check_name (fst kv)) data) then Ok errf
  else
    let order' := match order with [] => sort_names (map fst data) | _ => order end in
    if negb (Nat.eqb (length order') (length data)) then Ok errf
    else if negb (forallb (fun n => match assocb n data with Some _ => true | None => false end) order') then Ok errf
    else if negb (nodup_bytes order') then Ok errf
    else
      match ofold (new_step data enums) order' ([], 0, []) with
      | Ok (cs, len, used) =>
          if negb (forallb (fun kv => existsb (bytes_eqb (fst kv)) used) enums) then Ok errf
          else Ok (mkFrame cs (seq 0 len) false)
      | Fail => Ok errf
      | Panic => Panic
      end.
Proof. reflexivity. Qed.

Lemma existsb_bytes_false n l : existsb (bytes_eqb n) l = false <-> ~ In n l.
Proof.
  split.
  - intros H Hin. assert (existsb (bytes_eqb n) l = true) by (apply existsb_exists; exists n; split; [exact Hin|apply bytes_eqb_refl]).
    congruence.
  - intro Hn. destruct (existsb (bytes_eqb n) l) eqn:E; [|reflexivity].
    exfalso. apply existsb_exists in E as [x [Hx Ex]]. apply bytes_eqb_spec in Ex. subst. exact (Hn Hx).
Qed.

Lemma assocb_in {A} (n : bytes) (v : A) : forall t, assocb n t = Some v -> In (n, v) t.
Proof.
  induction t as [|[k w] t IH]; intro H; cbn [assocb] in H; [discriminate|].
  destruct (bytes_eqb k n) eqn:E; [apply bytes_eqb_spec in E; inversion H; subst; left; reflexivity|right; exact (IH H)].
Qed.

(* a column of string data listed in Enums whose enum factory refuses: New cannot return a frame without Err *)
Section NewEnumFail.
  Context (data : list (bytes * newdata)) (enums : list (bytes * list bytes)).
  Context (n : bytes) (dn : newdata) (values : list bytes).
  Context (Hdata : assocb n data = Some dn) (Hstr : is_string_data dn = true) (Henum : assocb n enums = Some values).
  Context (Hfail : create_column dn (Some values) = Fail).

  Lemma new_step_at_n acc first used : ~ In n used -> new_step data enums (acc, first, used) n = Fail.
  Proof.
    intro Hu. unfold new_step. rewrite Hdata, Hstr. cbn [andb].
    rewrite (proj2 (existsb_bytes_false n used) Hu). cbn [negb]. rewrite Henum.
    rewrite Hfail. reflexivity.
  Qed.

  Lemma new_step_used st m st' : m <> n -> ~ In n (snd st) -> new_step data enums st m = Ok st' -> ~ In n (snd st').
  Proof.
    destruct st as [[acc first] used]. intros Hm Hu H. unfold new_step in H.
    destruct (assocb m data) as [dd|]; [|discriminate].
    destruct (create_column dd _) as [c| |]; cbn [obind] in H; try discriminate.
    destruct (Nat.eqb _ (col_len c)); [|discriminate]. inversion H; subst. cbn [snd] in *.
    destruct (if is_string_data dd && negb (existsb (bytes_eqb m) used) then assocb m enums else None);
      [intros [E|E]; [exact (Hm E)|exact (Hu E)]|exact Hu].
  Qed.

  Lemma new_loop_strict : forall order st r,
    ~ In n (snd st) -> ofold (new_step data enums) order st = Ok r -> ~ In n order /\ ~ In n (snd r).
  Proof.
    induction order as [|m rest IH]; intros st r Hu H.
    - unfold ofold in H. cbn in H. inversion H; subst. split; [tauto|exact Hu].
    - rewrite ofold_ok_step in H.
      destruct (new_step data enums st m) as [st'| |] eqn:E; cbn [obind] in H; try discriminate.
      assert (Hm : m <> n).
      { intro; subst m. destruct st as [[acc first] used]. rewrite new_step_at_n in E by exact Hu. discriminate. }
      destruct (IH st' r (new_step_used st m st' Hm Hu E) H) as [A B].
      split; [intros [X|X]; [exact (Hm X)|exact (A X)]|exact B].
  Qed.

  Theorem new_frame_enum_fail order f : new_frame data order enums = Ok f -> ferr f = true.
  Proof.
    rewrite new_frame_unfold. cbv zeta.
    destruct (negb (forallb (fun kv => check_name (fst kv)) data)); [intro H; inversion H; reflexivity|].
    destruct (negb (Nat.eqb _ (length data))); [intro H; inversion H; reflexivity|].
    destruct (negb (forallb _ match order with [] => _ | _ => _ end)); [intro H; inversion H; reflexivity|].
    destruct (negb (nodup_bytes _)); [intro H; inversion H; reflexivity|].
    destruct (ofold (new_step data enums) _ ([], 0, [])) as [[[cs len] used]| |] eqn:E;
      [|intro H; inversion H; reflexivity|discriminate].
    destruct (new_loop_strict _ _ _ (fun X : In n (snd ([], 0, [])) => X) E) as [_ Hu]. cbn [snd] in Hu.
    assert (Hf : forallb (fun kv => existsb (bytes_eqb (fst kv)) used) enums = false).
    { destruct (forallb _ enums) eqn:Ef; [|reflexivity]. exfalso.
      rewrite forallb_forall in Ef. specialize (Ef _ (assocb_in n values enums Henum)). cbn [fst] in Ef.
      rewrite (proj2 (existsb_bytes_false n used) Hu) in Ef. discriminate. }
    rewrite Hf. cbn [negb]. intro H; inversion H; reflexivity.
  Qed.
End NewEnumFail.

(* C17 New/ReadJSON strict: whenever New returns a frame for data with an undeclared value in an enum column,
   the frame carries an error *)
Theorem new_frame_enum_strict data enums n x values b :
  assocb n data = Some (DStrPtrs x) -> assocb n enums = Some values ->
  values <> [] -> In (Some b) x -> ~ In b values ->
  forall order f, new_frame data order enums = Ok f -> ferr f = true.
Proof.
  intros Hdata Henum Hne Hin Hnin.
  apply (new_frame_enum_fail data enums n (DStrPtrs x) values Hdata eq_refl Henum).
  apply (json_enum_strict x values b Hne Hin Hnin).
Qed.

(* C17 duplicate declaration: createColumn on string data with a declaration that lists a value twice fails
   (slices of strings / string pointers through the factory, a constant string through NewConst) ... *)
Theorem create_column_duplicate_rejected d values :
  is_string_data d = true -> ~ NoDup values -> create_column d (Some values) = Fail.
Proof.
  intros Hs Hn. destruct d as [x|x|x|x|x|v c|v c|v c|v c|]; try discriminate Hs; cbn [create_column].
  - apply enum_new_duplicate_rejected. exact Hn.
  - apply enum_new_duplicate_rejected. exact Hn.
  - destruct (c <? 0)%Z; [reflexivity|]. apply enum_new_const_duplicate_rejected. exact Hn.
Qed.

(* ... and whatever else is supplied, every frame New returns then carries an error *)
Theorem new_frame_duplicate_rejected data enums n dn values :
  assocb n data = Some dn -> is_string_data dn = true -> assocb n enums = Some values -> ~ NoDup values ->
  forall order f, new_frame data order enums = Ok f -> ferr f = true.
Proof.
  intros Hdata Hstr Henum Hn.
  apply (new_frame_enum_fail data enums n dn values Hdata Hstr Henum).
  apply create_column_duplicate_rejected; assumption.
Qed.

(* ================================================================== 5. construction through ReadCSV and ReadJSON *)
From QF Require Import Model.CsvSpec Model.CsvRead.

Lemma csv_find_last_spec s vals : forall i found k,
  find_last s vals i found = Some k ->
  found = Some k \/ i <= k /\ nth_error vals (k - i) = Some s.
Proof.
  induction vals as [|v vals IH]; intros i found k H; [left; exact H|].
  cbn [find_last] in H. apply IH in H as [H|[H1 H2]].
  - destruct (bytes_eqb s v) eqn:E; [|left; exact H].
    inversion H; subst. right. split; [lia|]. rewrite Nat.sub_diag. apply bytes_eqb_spec in E. subst. reflexivity.
  - right. split; [lia|]. replace (k - i) with (S (k - S i)) by lia. exact H2.
Qed.

Lemma csv_find_last_nth s vals k : find_last s vals 0 None = Some k -> nth_error vals k = Some s.
Proof.
  intro H. apply csv_find_last_spec in H as [H|[_ H]]; [discriminate|]. rewrite Nat.sub_0_r in H. exact H.
Qed.

Lemma omap_app {A B} (f : A -> outcome B) : forall a b xs ys,
  omap f a = Ok xs -> omap f b = Ok ys -> omap f (a ++ b) = Ok (xs ++ ys).
Proof.
  induction a as [|x a IH]; intros b xs ys Ha Hb; cbn [omap app] in *.
  - inversion Ha; subst. exact Hb.
  - destruct (f x) as [y| |]; cbn [obind] in *; try discriminate.
    destruct (omap f a) as [zs| |] eqn:Ez; cbn [obind] in *; try discriminate.
    inversion Ha; subst. rewrite (IH b zs ys eq_refl Hb). reflexivity.
Qed.

Lemma omap_mono {A B} (f g : A -> outcome B) : (forall r x, f r = Ok x -> g r = Ok x) ->
  forall l xs, omap f l = Ok xs -> omap g l = Ok xs.
Proof.
  intros Hfg. induction l as [|r l IH]; intros xs H; cbn [omap] in *; [exact H|].
  destruct (f r) as [y| |] eqn:Er; cbn [obind] in *; try discriminate.
  destruct (omap f l) as [zs| |] eqn:Ez; cbn [obind] in *; try discriminate.
  rewrite (Hfg r y Er), (IH zs eq_refl). exact H.
Qed.

Lemma enum_cell_app vals c r x : enum_cell vals r = Ok x -> enum_cell (vals ++ [c]) r = Ok x.
Proof.
  unfold enum_cell. destruct (Nat.eqb r enum_max_cardinality); [auto|].
  unfold idx. destruct (nth_error vals r) as [v|] eqn:E; [|discriminate].
  rewrite nth_error_app1 by (apply nth_error_Some; rewrite E; discriminate). rewrite E. auto.
Qed.

Lemma enum_cell_value vals r c : nth_error vals r = Some c -> length vals <= 255 ->
  enum_cell vals r = Ok (Some c).
Proof.
  intros Hr Hl. unfold enum_cell, enum_max_cardinality.
  assert (r < length vals) by (apply nth_error_Some; rewrite Hr; discriminate).
  destruct (Nat.eqb_spec r 255) as [E|_]; [lia|]. unfold idx. rewrite Hr. reflexivity.
Qed.

(* the enum factory as ReadCSV drives it: whatever it accepts decodes to the cells that were read *)
Lemma enum_fill_inv strict e : forall cells vals ranks vals' ranks' cs0,
  length vals <= 255 ->
  omap (enum_cell vals) ranks = Ok cs0 ->
  enum_fill strict e vals cells ranks = Ok (vals', ranks') ->
  length vals' <= 255 /\ (exists ext, vals' = vals ++ ext) /\ (strict = true -> vals' = vals)
  /\ omap (enum_cell vals') ranks' = Ok (cs0 ++ map (string_cell e) cells).
Proof.
  induction cells as [|c cells IH]; intros vals ranks vals' ranks' cs0 Hl Hc H; cbn [enum_fill] in H.
  - inversion H; subst. split; [exact Hl|]. split; [exists []; rewrite app_nil_r; reflexivity|].
    split; [reflexivity|]. cbn [map]. rewrite app_nil_r. exact Hc.
  - cbn [map]. unfold string_cell at 1. destruct (is_nilb c && e) eqn:En.
    + assert (Hc' : omap (enum_cell vals) (ranks ++ [enum_max_cardinality]) = Ok (cs0 ++ [None])).
      { apply omap_app; [exact Hc|]. reflexivity. }
      destruct (IH _ _ _ _ _ Hl Hc' H) as [A [B [C D]]].
      split; [exact A|]. split; [exact B|]. split; [exact C|]. rewrite D, <- app_assoc. reflexivity.
    + destruct (find_last c vals 0 None) as [i|] eqn:F.
      * assert (Hc' : omap (enum_cell vals) (ranks ++ [i]) = Ok (cs0 ++ [Some c])).
        { apply omap_app; [exact Hc|]. cbn [omap].
          rewrite (enum_cell_value vals i c (csv_find_last_nth _ _ _ F) Hl). reflexivity. }
        destruct (IH _ _ _ _ _ Hl Hc' H) as [A [B [C D]]].
        split; [exact A|]. split; [exact B|]. split; [exact C|]. rewrite D, <- app_assoc. reflexivity.
      * destruct strict; [discriminate|].
        destruct (Nat.leb enum_max_cardinality (length vals)) eqn:Ecard; [discriminate|].
        apply Nat.leb_gt in Ecard. unfold enum_max_cardinality in Ecard.
        assert (Hl' : length (vals ++ [c]) <= 255) by (rewrite app_length; cbn; lia).
        assert (Hc' : omap (enum_cell (vals ++ [c])) (ranks ++ [length vals]) = Ok (cs0 ++ [Some c])).
        { apply omap_app.
          - apply (omap_mono (enum_cell vals)); [apply enum_cell_app|exact Hc].
          - cbn [omap]. rewrite (enum_cell_value (vals ++ [c]) (length vals) c); [reflexivity| |exact Hl'].
            rewrite nth_error_app2 by lia. rewrite Nat.sub_diag. reflexivity. }
        destruct (IH _ _ _ _ _ Hl' Hc' H) as [A [[ext B] [C D]]].
        split; [exact A|]. split; [exists ([c] ++ ext); rewrite B, <- app_assoc; reflexivity|].
        split; [discriminate|]. rewrite D, <- app_assoc. reflexivity.
Qed.

Lemma enum_fill_strict_fail e vals c : ~ In c vals -> is_nilb c && e = false ->
  forall cells ranks, In c cells -> enum_fill true e vals cells ranks = Fail.
Proof.
  intros Hn He. induction cells as [|c0 cells IH]; intros ranks Hin; [destruct Hin|].
  cbn [enum_fill]. destruct (is_nilb c0 && e) eqn:En.
  - destruct Hin as [->|Hin]; [congruence|]. apply IH. exact Hin.
  - destruct (find_last c0 vals 0 None) as [i|] eqn:F; [|reflexivity].
    destruct Hin as [->|Hin]; [|apply IH; exact Hin].
    exfalso. apply Hn. eapply nth_error_In. apply csv_find_last_nth. exact F.
Qed.

Definition declared (ev : option (list bytes)) : list bytes := match ev with Some v => v | None => [] end.

Lemma column_to_data_enum pi pf pb e ev cells :
  column_to_data pi pf pb e DEnum ev cells =
  if Nat.ltb enum_max_cardinality (length (declared ev)) then Fail
  else if negb (nodup_values (declared ev)) then Fail
  else do vr <- enum_fill (Nat.ltb 0 (length (declared ev))) e (declared ev) cells [];
       do cs <- omap (enum_cell (fst vr)) (snd vr);
       Ok (ColEnum (fst vr) cs).
Proof. unfold column_to_data. rewrite andb_false_r. reflexivity. Qed.

Lemma nodup_values_spec l : nodup_values l = true <-> NoDup l.
Proof.
  induction l as [|x l IH]; cbn [nodup_values].
  - split; [constructor|reflexivity].
  - rewrite andb_true_iff, negb_true_iff, IH. split.
    + intros [Hx Hn]. constructor; [|exact Hn]. apply existsb_bytes_false. exact Hx.
    + intro H. inversion H as [|? ? Hx Hn]; subst. split; [apply existsb_bytes_false; exact Hx|exact Hn].
Qed.

(* C17 csv: a declaration that lists a value twice is rejected by the enum branch of columnToData *)
Theorem csv_enum_duplicate_rejected pi pf pb e ev cells :
  ~ NoDup (declared ev) -> column_to_data pi pf pb e DEnum ev cells = Fail.
Proof.
  intro H. rewrite column_to_data_enum.
  destruct (Nat.ltb enum_max_cardinality (length (declared ev))); [reflexivity|].
  destruct (nodup_values (declared ev)) eqn:E; [|reflexivity]. exfalso. apply H. apply nodup_values_spec. exact E.
Qed.

(* ... hence an enum column that was read has a duplicate-free declaration and a duplicate-free value table *)
Theorem csv_enum_ok_nodup pi pf pb e ev cells c :
  column_to_data pi pf pb e DEnum ev cells = Ok c -> NoDup (declared ev).
Proof.
  intro H. destruct (nodup_values (declared ev)) eqn:E; [apply nodup_values_spec; exact E|].
  rewrite csv_enum_duplicate_rejected in H; [discriminate|]. intro Hn. apply nodup_values_spec in Hn. congruence.
Qed.

(* C17 csv decode: the enum branch of columnToData returns the cells that were read — every non-empty cell as
   itself, the empty cell as the VALUE "" unless EmptyNull (then null) —, never more than 255 values, and with
   declared values exactly the declared table *)
Theorem csv_enum_decode pi pf pb e ev cells c :
  column_to_data pi pf pb e DEnum ev cells = Ok c ->
  exists vals, c = ColEnum vals (map (string_cell e) cells)
    /\ length vals <= 255 /\ (exists ext, vals = declared ev ++ ext) /\ (declared ev <> [] -> vals = declared ev).
Proof.
  rewrite column_to_data_enum. unfold enum_max_cardinality.
  destruct (Nat.ltb 255 (length (declared ev))) eqn:El; [discriminate|]. apply Nat.ltb_ge in El.
  destruct (nodup_values (declared ev)); [|discriminate]. cbn [negb].
  destruct (enum_fill (Nat.ltb 0 (length (declared ev))) e (declared ev) cells []) as [[vals rs]| |] eqn:Ef;
    cbn [obind fst snd]; try discriminate.
  destruct (enum_fill_inv _ e cells (declared ev) [] vals rs [] El eq_refl Ef) as [A [B [C D]]].
  rewrite D. cbn [obind app]. intro H. inversion H; subst.
  exists vals. split; [reflexivity|]. split; [exact A|]. split; [exact B|].
  intro Hne. apply C. apply Nat.ltb_lt. destruct (declared ev); [congruence|cbn; lia].
Qed.

(* C17 csv strict: with declared values a cell outside them makes the read of the column fail
   (the empty cell counts as the value "" unless EmptyNull turns it into null) *)
Theorem csv_enum_strict pi pf pb e ev cells c :
  declared ev <> [] -> In c cells -> ~ In c (declared ev) -> is_nilb c && e = false ->
  column_to_data pi pf pb e DEnum ev cells = Fail.
Proof.
  intros Hne Hin Hn He. rewrite column_to_data_enum.
  destruct (Nat.ltb enum_max_cardinality (length (declared ev))); [reflexivity|].
  destruct (nodup_values (declared ev)); [|reflexivity]. cbn [negb].
  assert (Hs : Nat.ltb 0 (length (declared ev)) = true)
    by (apply Nat.ltb_lt; destruct (declared ev); [congruence|cbn; lia]).
  rewrite Hs, (enum_fill_strict_fail e (declared ev) c Hn He cells [] Hin). reflexivity.
Qed.

(* ================================================================== derived enums beyond the cardinality limit *)

Lemma enum_step_no_panic strict st s : enum_step strict st s <> Panic.
Proof.
  destruct st as [vals acc]. unfold enum_step. destruct s as [b|]; [|discriminate].
  destruct (find_value_last vals b); [discriminate|]. destruct strict; [discriminate|].
  destruct (N.to_nat c_maxCardinality <=? length vals); discriminate.
Qed.

Lemma ofold_enum_no_panic strict : forall data st, ofold (enum_step strict) data st <> Panic.
Proof.
  induction data as [|s data IH]; intros st; unfold ofold; cbn [fold_left obind]; [discriminate|].
  destruct (enum_step strict st s) as [st1| |] eqn:E.
  - apply IH.
  - rewrite ofold_fail_stays. discriminate.
  - exfalso. exact (enum_step_no_panic _ _ _ E).
Qed.

(* the factory never panics and returns an enum column or fails *)
Lemma enum_new_cases data values :
  enum_new data values = Fail \/ exists d vals strict, enum_new data values = Ok (ECol d vals strict).
Proof.
  rewrite enum_new_unfold. destruct (N.to_nat c_maxCardinality <? length values); [left; reflexivity|].
  destruct (nodup_bytes values); [|left; reflexivity]. cbv zeta. cbn [negb].
  destruct (ofold (enum_step (negb (length values =? 0))) data (values, [])) as [[vs acc]| |] eqn:E.
  - right. exists acc, vs, (negb (length values =? 0)). reflexivity.
  - left. reflexivity.
  - exfalso. exact (ofold_enum_no_panic _ _ _ E).
Qed.

(* every string of the data is in the table of the column the factory returns *)
Lemma enum_new_covers data values d vals strict s :
  enum_new data values = Ok (ECol d vals strict) -> In (Some s) data -> In s vals.
Proof.
  intros H Hin. destruct (In_nth_error _ _ Hin) as [k Hk].
  destruct (enum_new_decode _ _ _ _ _ H) as [_ [_ [_ [Hld _]]]].
  assert (Hk' : k < length d) by (rewrite Hld; apply nth_error_Some; rewrite Hk; discriminate).
  destruct (nth_error d k) as [r|] eqn:Er; [|apply nth_error_None in Er; lia].
  pose proof (enum_rank_is_position _ _ _ _ _ H k r Er) as Hr. rewrite Hk in Hr.
  destruct Hr as [_ Hr]. eapply nth_error_In. exact Hr.
Qed.

(* C17 cardinality: more than 255 distinct strings (declared ones included) => clean failure, for every data *)
Theorem enum_new_overflow data values (l : list bytes) :
  NoDup l -> 255 < length l -> (forall s, In s l -> In (Some s) data \/ In s values) ->
  enum_new data values = Fail.
Proof.
  intros Hnd Hlen Hin. destruct (enum_new_cases data values) as [H|[d [vals [strict H]]]]; [exact H|].
  exfalso.
  destruct (enum_new_decode _ _ _ _ _ H) as [Hl [[ext He] _]].
  assert (Hincl : incl l vals).
  { intros s Hs. destruct (Hin s Hs) as [Hd|Hv].
    - eapply enum_new_covers; eassumption.
    - rewrite He. apply in_or_app. left. exact Hv. }
  pose proof (NoDup_incl_length Hnd Hincl). lia.
Qed.

(* ================================================================== ReadCSV at the level of the conversion loop *)

Lemma assoc_del_other {B} (h h0 : bytes) : forall (m : list (bytes * B)), h <> h0 -> assoc h (assoc_del h0 m) = assoc h m.
Proof.
  intros m Hne. induction m as [|[k v] m IH]; [reflexivity|].
  unfold assoc_del in *. cbn [filter fst assoc].
  destruct (bytes_eqb h0 k) eqn:E0; cbn [negb].
  - apply bytes_eqb_spec in E0. subst k.
    destruct (bytes_eqb h h0) eqn:E; [apply bytes_eqb_spec in E; contradiction|]. exact IH.
  - cbn [assoc]. destruct (bytes_eqb h k); [reflexivity|exact IH].
Qed.

Section CsvFrame.
  Context (pi : bytes -> option Z) (pf : bytes -> option N) (pb : bytes -> option bool).

  Definition dt_of (conf : csv_conf) (h : bytes) : dtype :=
    match assoc h (cf_types conf) with Some s => dtype_of s | None => DNone end.

  Lemma convert_cols_fail_at conf : forall k headers cols ev acc h cells,
    nth_error headers k = Some h -> nth_error cols k = Some cells ->
    ~ In h (firstn k headers) ->
    column_to_data pi pf pb (cf_empty_null conf) (dt_of conf h) (assoc h ev) cells = Fail ->
    forall r, convert_cols pi pf pb conf headers cols ev acc <> Ok r.
  Proof.
    induction k as [|k IH]; intros headers cols ev acc h cells Hh Hc Hn Hf r;
      destruct headers as [|h0 hs]; destruct cols as [|c0 cs]; cbn [nth_error] in Hh, Hc; try discriminate.
    - inversion Hh; inversion Hc; subst. cbn [convert_cols]. fold (dt_of conf h). rewrite Hf. discriminate.
    - cbn [convert_cols]. fold (dt_of conf h0).
      destruct (column_to_data pi pf pb (cf_empty_null conf) (dt_of conf h0) (assoc h0 ev) c0) as [col| |];
        cbn [obind]; try discriminate.
      cbn [firstn] in Hn.
      assert (Hne : h <> h0) by (intro; subst; apply Hn; left; reflexivity).
      apply (IH hs cs _ _ h cells Hh Hc); [intro Hi; apply Hn; right; exact Hi|].
      destruct (dt_of conf h0); try exact Hf. rewrite assoc_del_other by exact Hne. exact Hf.
  Qed.

  (* C17 csv strict at the level of the frame: a column typed enum with declared values and a cell outside them
     makes the conversion loop of ReadCSV stop without a frame *)
  Theorem csv_convert_strict conf headers cols acc k h cells values c :
    nth_error headers k = Some h -> nth_error cols k = Some cells -> ~ In h (firstn k headers) ->
    dt_of conf h = DEnum -> assoc h (cf_enum_vals conf) = Some values ->
    values <> [] -> In c cells -> ~ In c values -> is_nilb c && cf_empty_null conf = false ->
    forall r, convert_cols pi pf pb conf headers cols (cf_enum_vals conf) acc <> Ok r.
  Proof.
    intros Hh Hc Hn Hdt Hev Hne Hin Hnin He.
    apply (convert_cols_fail_at conf k headers cols _ acc h cells Hh Hc Hn).
    rewrite Hdt, Hev. apply (csv_enum_strict pi pf pb _ (Some values) cells c); assumption.
  Qed.

  (* C17 duplicate declaration at the level of the frame: a column typed enum whose EnumVals entry lists a value
     twice makes the conversion loop of ReadCSV stop without a frame, whatever its cells *)
  Theorem csv_convert_duplicate_rejected conf headers cols acc k h cells values :
    nth_error headers k = Some h -> nth_error cols k = Some cells -> ~ In h (firstn k headers) ->
    dt_of conf h = DEnum -> assoc h (cf_enum_vals conf) = Some values -> ~ NoDup values ->
    forall r, convert_cols pi pf pb conf headers cols (cf_enum_vals conf) acc <> Ok r.
  Proof.
    intros Hh Hc Hn Hdt Hev Hdup.
    apply (convert_cols_fail_at conf k headers cols _ acc h cells Hh Hc Hn).
    rewrite Hdt, Hev. apply (csv_enum_duplicate_rejected pi pf pb _ (Some values) cells). exact Hdup.
  Qed.
End CsvFrame.

(* ================================================================== ReadCSV as a whole *)

Section CsvRows.
  Context (pi : bytes -> option Z) (pf : bytes -> option N) (pb : bytes -> option bool).

  (* every column of the frame the conversion loop returns was produced by columnToData from the cells of its
     position, with the EnumVals entry of its name as long as the name did not occur before *)
  Lemma convert_cols_inv conf : forall headers cols ev acc fr left,
    convert_cols pi pf pb conf headers cols ev acc = Ok (fr, left) ->
    forall h col, In (h, col) fr ->
      In (h, col) acc \/
      exists k cells evk, nth_error headers k = Some h /\ nth_error cols k = Some cells
        /\ column_to_data pi pf pb (cf_empty_null conf) (dt_of conf h) evk cells = Ok col
        /\ (~ In h (firstn k headers) -> evk = assoc h ev).
  Proof.
    induction headers as [|h0 hs IH]; intros cols ev acc fr left H h col Hin.
    - cbn [convert_cols] in H. inversion H; subst. left. exact Hin.
    - destruct cols as [|c0 cs]; cbn [convert_cols] in H; [inversion H; subst; left; exact Hin|].
      fold (dt_of conf h0) in H.
      destruct (column_to_data pi pf pb (cf_empty_null conf) (dt_of conf h0) (assoc h0 ev) c0) as [col0| |] eqn:E0;
        cbn [obind] in H; try discriminate.
      destruct (IH _ _ _ _ _ H h col Hin) as [Hacc|[k [cells [evk [A [B [C D]]]]]]].
      + apply in_app_or in Hacc as [Hacc|Hacc]; [left; exact Hacc|].
        destruct Hacc as [Hacc|[]]. inversion Hacc; subst. right.
        exists 0, c0, (assoc h ev). split; [reflexivity|]. split; [reflexivity|]. split; [exact E0|]. intros _. reflexivity.
      + right. exists (S k), cells, evk. cbn [nth_error firstn]. split; [exact A|]. split; [exact B|]. split; [exact C|].
        intro Hn. rewrite D by (intro Hi; apply Hn; right; exact Hi).
        assert (Hne : h <> h0) by (intro; subst; apply Hn; left; reflexivity).
        destruct (dt_of conf h0); try reflexivity. apply assoc_del_other. exact Hne.
  Qed.

  Lemma has_dup_false_nodup l : has_dup l = false -> NoDup l.
  Proof.
    induction l as [|x t IH]; intro H; [constructor|].
    cbn [has_dup] in H. apply orb_false_iff in H as [H1 H2]. constructor; [|apply IH; exact H2].
    intro Hin. assert (existsb (bytes_eqb x) t = true) by (apply existsb_exists; exists x; split; [exact Hin|apply bytes_eqb_refl]).
    congruence.
  Qed.

  Lemma nodup_firstn_notin (l : list bytes) : NoDup l -> forall k h, nth_error l k = Some h -> ~ In h (firstn k l).
  Proof.
    induction 1 as [|x t Hx Hnd IH]; intros k h Hk; destruct k as [|k]; cbn [nth_error firstn] in *; try discriminate; [tauto|].
    intros [E|Hin]; [subst; apply Hx; eapply nth_error_In; exact Hk|exact (IH k h Hk Hin)].
  Qed.

  Lemma read_rows_inv conf rows failed fr :
    read_rows pi pf pb conf rows failed = Ok fr ->
    exists headers cols left, convert_cols pi pf pb conf headers cols (cf_enum_vals conf) [] = Ok (fr, left)
                              /\ has_dup headers = false.
  Proof.
    unfold read_rows. destruct failed; [discriminate|]. intro H.
    destruct (if is_nilb (cf_headers conf) then match rows with [] => Fail | h :: body => Ok (h, body) end
              else Ok (cf_headers conf, rows)) as [[headers body]| |]; cbn [obind] in H; try discriminate.
    destruct (body_loop _ _ body _) as [cols| |]; cbn [obind] in H; try discriminate.
    destruct (if cf_rename_dup conf then _ else _) as [h2| |]; cbn [obind] in H; try discriminate.
    destruct (convert_cols pi pf pb conf h2 cols (cf_enum_vals conf) []) as [[fr' left]| |] eqn:Ec;
      cbn [obind] in H; try discriminate.
    destruct (negb (is_nilb left)); [discriminate|].
    destruct (has_dup h2) eqn:Ed; [discriminate|].
    destruct (negb (forallb check_name h2)); [discriminate|].
    inversion H; subst. exists h2, cols, left. split; [exact Ec|exact Ed].
  Qed.

  (* C17 csv strict, whole ReadCSV: a frame that ReadCSV returns never holds an undeclared value in a column typed
     enum with declared values: its table IS the declaration and every non-null cell is one of the declared
     strings.  (So a document with any other value in such a column is not read: Err is set.) *)
  Theorem csv_read_rows_enum_strict conf rows failed fr h col values :
    read_rows pi pf pb conf rows failed = Ok fr -> In (h, col) fr ->
    dt_of conf h = DEnum -> assoc h (cf_enum_vals conf) = Some values -> values <> [] ->
    exists cs, col = ColEnum values cs /\ forall s, In (Some s) cs -> In s values.
  Proof.
    intros H Hin Hdt Hev Hne.
    destruct (read_rows_inv conf rows failed fr H) as [headers [cols [left [Hc Hd]]]].
    destruct (convert_cols_inv conf _ _ _ _ _ _ Hc h col Hin) as [[]|[k [cells [evk [A [B [C D]]]]]]].
    rewrite D in C by (apply nodup_firstn_notin; [apply has_dup_false_nodup; exact Hd|exact A]).
    rewrite Hdt, Hev in C.
    destruct (csv_enum_decode _ _ _ _ _ _ _ C) as [vals [Ecol [_ [_ Hv]]]]. cbn [declared] in Hv.
    rewrite (Hv Hne) in Ecol. eexists. split; [exact Ecol|].
    intros s Hs. apply in_map_iff in Hs as [c [Hcs Hcin]]. unfold string_cell in Hcs.
    destruct (is_nilb c && cf_empty_null conf) eqn:En; [discriminate|]. inversion Hcs; subst c.
    destruct (in_dec (list_eq_dec N.eq_dec) s values) as [Y|Nn]; [exact Y|exfalso].
    rewrite (csv_enum_strict pi pf pb _ (Some values) cells s Hne Hcin Nn En) in C. discriminate.
  Qed.
End CsvRows.


(* ================================================================== the property in one statement *)

Lemma enum_new_strict_flag data values d vals strict :
  enum_new data values = Ok (ECol d vals strict) -> strict = negb (length values =? 0).
Proof.
  rewrite enum_new_unfold. destruct (N.to_nat c_maxCardinality <? length values); [discriminate|].
  destruct (nodup_bytes values); [|discriminate]. cbv zeta. cbn [negb].
  destruct (ofold _ data (values, [])) as [[vs acc]| |]; cbn [obind]; try discriminate.
  intro H. inversion H. reflexivity.
Qed.

Definition enum_full_statement : Prop :=
  forall (data : list (option bytes)) (values : list bytes),
  (* construction never panics; it fails on a declaration that lists a value twice, on an undeclared value and
     beyond 255 distinct strings *)
  (enum_new data values = Fail \/ exists d vals strict, enum_new data values = Ok (ECol d vals strict))
  /\ (~ NoDup values -> enum_new data values = Fail)
  /\ ((exists b, values <> [] /\ In (Some b) data /\ ~ In b values) -> enum_new data values = Fail)
  /\ ((exists l, NoDup l /\ 255 < length l /\ forall s, In s l -> In (Some s) data \/ In s values) ->
      enum_new data values = Fail)
  /\ forall d vals strict, enum_new data values = Ok (ECol d vals strict) ->
     (* the value table *)
     NoDup values /\ length vals <= 255 /\ NoDup vals /\ (exists ext, vals = values ++ ext)
     /\ (values <> [] -> vals = values /\ strict = true) /\ length d = length data
     (* every cell is read back as itself: no value as another string or as null, null as null *)
     /\ (forall k s, nth_error data k = Some s -> cell_at (ECol d vals strict) k = Ok (CEnum s))
     (* the six comparison filters against a constant *)
     /\ (forall mt cmp op s index b,
           cop_of cmp = Some op -> length index = length b -> Forall (fun p => p < length data) index ->
           e_filter_builtin mt d vals strict index cmp (RConst (AStr s)) b =
           match index_of s vals with
           | Some pc => Ok (mask_or b (map (fun p => enum_row_sat op vals pc (nth p data None)) index))
           | None => if strict then Fail else Ok (if is_ne_op op then map (fun _ => true) b else b)
           end)
     (* Sorter.Less with this column as the key *)
     /\ (forall rev nl i j, i < length data -> j < length data ->
           model_lt [(enum_sort_key d, (rev, nl))] i j = enum_lt vals rev nl (nth i data None) (nth j data None)).

Theorem enum_full : enum_full_statement.
Proof.
  intros data values.
  split; [apply enum_new_cases|].
  split; [apply enum_new_duplicate_rejected|].
  split; [intros [b [Hne [Hin Hn]]]; apply (enum_new_strict_fail data values b); assumption|].
  split; [intros [l [Hl [Hlen Hin]]]; apply (enum_new_overflow data values l); assumption|].
  intros d vals strict H.
  destruct (enum_new_decode _ _ _ _ _ H) as [Hlv [Hext [Hdecl [Hld Hcell]]]].
  pose proof (enum_new_nodup _ _ _ _ _ H) as Hndv.
  split; [exact (enum_new_ok_nodup _ _ _ H)|].
  split; [exact Hlv|]. split; [exact Hndv|]. split; [exact Hext|].
  split.
  { intro Hne. split; [exact (Hdecl Hne)|].
    rewrite (enum_new_strict_flag _ _ _ _ _ H). destruct values; [congruence|reflexivity]. }
  split; [exact Hld|]. split; [exact Hcell|].
  split.
  - intros mt cmp op s index b Hcmp Hlen Hin.
    destruct (index_of s vals) as [pc|] eqn:E.
    + apply (enum_filter_order mt data values); try assumption. apply index_of_some. exact E.
    + apply enum_filter_undeclared; [exact Hcmp|]. apply index_of_none. exact E.
  - intros rev nl i j Hi Hj.
    destruct (enum_compare_order _ _ _ _ _ H rev nl i j Hi Hj) as [_ E]. exact E.
Qed.

(* ================================================================== New with a duplicate declaration: the Err frame *)
From QF Require Proofs.NewProofs.

(* New is total (Proofs/NewProofs.v new_frame_spec: a frame without Err or the Err frame), so with an Enums entry
   that lists a value twice for a column of string data it returns exactly the Err frame, whatever else is supplied *)
Theorem new_frame_duplicate_err data enums n dn values order :
  assocb n data = Some dn -> is_string_data dn = true -> assocb n enums = Some values -> ~ NoDup values ->
  new_frame data order enums = Ok (mkFrame [] [] true).
Proof.
  intros Hdata Hstr Henum Hn. pose proof (NewProofs.new_frame_spec data order enums) as H.
  destruct (NewProofs.new_valid data order enums); [|exact H].
  destruct H as (f & Hf & He & _).
  rewrite (new_frame_duplicate_rejected data enums n dn values Hdata Hstr Henum Hn order f Hf) in He. discriminate.
Qed.
