(* Proofs/GenRyuTextProofs.v — tie T1 for the text assembly of the float64 'f' printer: every definition of
   Gen/GenRyuText.v (produced by tools/qf2coq/ryutext.go from the Go text of internal/ryu: sizeSlice,
   dec64.appendF, appendSpecialf, AppendFloat64f, FormatFloat64f) equals the hand-written model function of
   Model/Ryu.v — the functions the engine "ryu" executes and C16_AppendFloat64f_total / C16_text speak about —
   for ALL buffers (contents, spare capacity with its stale bytes), ALL allocator behaviours, ALL arguments, and
   all sufficient fuel.  After an edit of one of these Go functions the regenerated definition changes and the
   lemma of that function below stops compiling.

   Conventions: the generated code has its own buffer record grt_buf (same two fields as Ryu.buf; [to_g] is the
   field-by-field copy), integers on Z (the model: uint64 on N, int on Z); [o_g] maps the model's outcome through
   to_g.  Fuel: the generated loops are Fixpoints on a counter that answer Panic when it runs out, the model's
   loops are structural with the trip count computed beforehand; "sufficient" is stated per lemma
   (trip count < fuel) and for the whole functions as  |e| + 20 < fuel  (appendF) and  400 <= fuel
   (AppendFloat64f, FormatFloat64f: every decimal exponent a float64 produces is within -325 .. 362 by the
   exponent sweep below). *)
From QF Require Import Base.Prelude Gen.GenConsts Gen.GenRyu Gen.GenFuncs Gen.GenRyuText.
From QF Require Import Model.Ryu Proofs.GenFuncsProofs Proofs.RyuNoPanic Proofs.RyuHandoverText.
Local Open Scope Z_scope.

(* ------------------------------------------------------------------ buffers *)

Definition to_g (b : buf) : grt_buf := {| grt_data := bdata b; grt_spare := bspare b |}.
Definition of_g (b : grt_buf) : buf := {| bdata := grt_data b; bspare := grt_spare b |}.

Lemma to_of_g b : to_g (of_g b) = b.
Proof. destruct b; reflexivity. Qed.
Lemma of_to_g b : of_g (to_g b) = b.
Proof. destruct b; reflexivity. Qed.

Definition o_g (o : outcome buf) : outcome grt_buf :=
  match o with Ok b => Ok (to_g b) | Fail => Fail | Panic => Panic end.

Definition mk (d sp : bytes) : grt_buf := {| grt_data := d; grt_spare := sp |}.
Definition liftd (sp : bytes) (o : outcome bytes) : outcome grt_buf :=
  match o with Ok d => Ok (mk d sp) | Fail => Fail | Panic => Panic end.

Lemma to_g_mk b : to_g b = mk (bdata b) (bspare b).
Proof. reflexivity. Qed.

Lemma mk_with_data b d : mk d (bspare b) = to_g (with_data b d).
Proof. reflexivity. Qed.

(* append(b, xs...) *)
Lemma grt_append_eq (g : nat -> bytes) (b : buf) (xs : bytes) :
  grt_append g (to_g b) xs = to_g (go_append g b xs).
Proof.
  unfold grt_append, go_append, to_g. cbn [grt_data grt_spare].
  destruct (length xs <=? length (bspare b))%nat; reflexivity.
Qed.

(* ------------------------------------------------------------------ sizeSlice *)

Lemma firstn_app_le {A} (n : nat) (l1 l2 : list A) : (n <= length l1)%nat -> firstn n (l1 ++ l2) = firstn n l1.
Proof.
  intro H. rewrite firstn_app. replace (n - length l1)%nat with O by lia. cbn [firstn]. apply app_nil_r.
Qed.

Lemma skipn_app_le {A} (n : nat) (l1 l2 : list A) : (n <= length l1)%nat -> skipn n (l1 ++ l2) = skipn n l1 ++ l2.
Proof.
  intro H. rewrite skipn_app. replace (n - length l1)%nat with O by lia. reflexivity.
Qed.

Lemma firstn_app_plus {A} (k : nat) (l1 l2 : list A) : firstn (length l1 + k) (l1 ++ l2) = l1 ++ firstn k l2.
Proof. apply firstn_app_2. Qed.

Lemma skipn_app_plus {A} (k : nat) (l1 l2 : list A) : skipn (length l1 + k) (l1 ++ l2) = skipn k l2.
Proof.
  rewrite skipn_app. replace (length l1 + k - length l1)%nat with k by lia.
  rewrite skipn_all2 by lia. reflexivity.
Qed.

Lemma grt_sizeSlice_eq (g : nat -> bytes) (b : buf) (n : Z) :
  grt_sizeSlice g (to_g b) n = o_g (sizeSlice g b n).
Proof.
  unfold grt_sizeSlice, sizeSlice, grt_reslice, grt_make, grt_cap, grt_len.
  destruct b as [d sp]. cbn [to_g grt_data grt_spare bdata bspare].
  destruct (Z.ltb_spec n 0) as [Hneg|Hpos].
  - (* a negative bufLen: b[:len+bufLen] shrinks or panics *)
    destruct (Z.leb_spec n (Z.of_nat (length d + length sp) - Z.of_nat (length d))) as [_|C]; [|lia].
    destruct (Z.ltb_spec (Z.of_nat (length d) + n) 0) as [H1|H1]; cbn [orb obind o_g]; [reflexivity|].
    destruct (Z.ltb_spec (Z.of_nat (length d + length sp)) (Z.of_nat (length d) + n)) as [H2|H2]; [lia|].
    cbn [obind o_g to_g bdata bspare]. f_equal.
    rewrite firstn_app_le, skipn_app_le by lia. reflexivity.
  - destruct (Nat.leb_spec (Z.to_nat n) (length sp)) as [Hfit|Hbig].
    + destruct (Z.leb_spec n (Z.of_nat (length d + length sp) - Z.of_nat (length d))) as [_|C]; [|lia].
      destruct (Z.ltb_spec (Z.of_nat (length d) + n) 0) as [H1|H1]; [lia|].
      destruct (Z.ltb_spec (Z.of_nat (length d + length sp)) (Z.of_nat (length d) + n)) as [H2|H2]; [lia|].
      cbn [orb obind o_g to_g bdata bspare]. f_equal.
      replace (Z.to_nat (Z.of_nat (length d) + n)) with (length d + Z.to_nat n)%nat by lia.
      rewrite firstn_app_plus, skipn_app_plus. reflexivity.
    + destruct (Z.leb_spec n (Z.of_nat (length d + length sp) - Z.of_nat (length d))) as [C|_]; [lia|].
      destruct (Z.ltb_spec n 0) as [C|_]; [lia|].
      cbn [obind o_g]. f_equal.
      exact (grt_append_eq g {| bdata := d; bspare := sp |} (repeat 0%N (Z.to_nat n))).
Qed.

(* ------------------------------------------------------------------ appendSpecialf *)

Lemma grt_appendSpecialf_eq (g : nat -> bytes) (b : buf) (neg expZero mantZero : bool) :
  grt_appendSpecialf g (to_g b) neg expZero mantZero = to_g (appendSpecialf g b neg expZero mantZero).
Proof.
  unfold grt_appendSpecialf, appendSpecialf, s_NaN, s_mInf, s_pInf, ch_minus, ch_0.
  destruct mantZero, expZero, neg; cbn [negb]; rewrite ?grt_append_eq; reflexivity.
Qed.

(* ------------------------------------------------------------------ b[i] = v *)

Lemma set_nth_opt_spec (d : bytes) : forall (i : nat) (v : N),
  set_nth_opt d i v = if (i <? length d)%nat then Some (set_nth d i v) else None.
Proof.
  induction d as [|x xs IH]; intros i v; [destruct i; reflexivity|].
  destruct i as [|i]; [reflexivity|].
  cbn [set_nth_opt set_nth length]. rewrite IH.
  change (S i <? S (length xs))%nat with (i <? length xs)%nat.
  destruct (i <? length xs)%nat; reflexivity.
Qed.

Lemma grt_store_eq (d sp : bytes) (i v : Z) :
  grt_store (mk d sp) i v = liftd sp (bset d i (grt_byte v)).
Proof.
  unfold grt_store, bset, grt_len, mk. cbn [grt_data grt_spare].
  destruct (Z.ltb_spec i 0) as [H|H]; cbn [orb]; [reflexivity|].
  rewrite set_nth_opt_spec.
  destruct (Z.leb_spec (Z.of_nat (length d)) i) as [H1|H1];
    destruct (Nat.ltb_spec (Z.to_nat i) (length d)) as [H2|H2]; try lia; reflexivity.
Qed.

(* '0' + byte(out%10) *)
Lemma digit_byte_eq (out : N) :
  grt_byte (gu8 (48 + gu8 (Z.of_N out mod 10))) = u8 (ch_0 + u8 (out mod 10)).
Proof.
  unfold grt_byte, gu8, u8, ch_0.
  change 10 with (Z.of_N 10). rewrite <- N2Z.inj_mod.
  change 256 with (Z.of_N 256). rewrite <- N2Z.inj_mod.
  change 48 with (Z.of_N 48). rewrite <- N2Z.inj_add, <- N2Z.inj_mod.
  apply N2Z.id.
Qed.

Lemma of_N_div10 (out : N) : Z.of_N out / 10 = Z.of_N (out / 10).
Proof. change 10 with (Z.of_N 10). rewrite N2Z.inj_div. reflexivity. Qed.

(* ------------------------------------------------------------------ the loops of appendF *)

(* for i := n; i < dE+n; i++ { b[outLen+i] = '0' } *)
Lemma loop1_eq (sp : bytes) (outLen dE n : Z) : forall (k fuel : nat) (d : bytes) (i : Z),
  (k < fuel)%nat -> k = Z.to_nat (dE + n - i) ->
  grt_appendF_loop1 fuel (mk d sp) outLen dE n i = liftd sp (write_zeros d (outLen + i) k).
Proof.
  induction k as [|k IH]; intros fuel d i Hf Hk; (destruct fuel as [|fuel]; [lia|]);
    cbn [grt_appendF_loop1 write_zeros].
  - destruct (Z.ltb_spec i (dE + n)) as [C|_]; [lia|]. reflexivity.
  - destruct (Z.ltb_spec i (dE + n)) as [_|C]; [|lia].
    rewrite grt_store_eq. change (grt_byte 48) with ch_0.
    destruct (bset d (outLen + i) ch_0) as [d'| |]; cbn [liftd obind]; try reflexivity.
    change {| grt_data := d'; grt_spare := sp |} with (mk d' sp).
    rewrite IH by lia. replace (outLen + (i + 1)) with (outLen + i + 1) by lia. reflexivity.
Qed.

Definition liftw (sp : bytes) (o : outcome (bytes * N * Z)) : outcome (grt_buf * Z) :=
  match o with Ok (d, out, _) => Ok (mk d sp, Z.of_N out) | Fail => Fail | Panic => Panic end.

(* for i := ..; i >= n; i-- { b[i] = '0' + byte(out%10); out /= 10 } *)
Lemma loop2_eq (sp : bytes) (n : Z) : forall (k fuel : nat) (d : bytes) (out : N) (i : Z),
  (k < fuel)%nat -> k = Z.to_nat (i - n + 1) ->
  grt_appendF_loop2 fuel (mk d sp) (Z.of_N out) n i = liftw sp (write_digits d i out k).
Proof.
  induction k as [|k IH]; intros fuel d out i Hf Hk; (destruct fuel as [|fuel]; [lia|]);
    cbn [grt_appendF_loop2 write_digits].
  - destruct (Z.leb_spec n i) as [C|_]; [lia|]. reflexivity.
  - destruct (Z.leb_spec n i) as [_|C]; [|lia].
    rewrite grt_store_eq, digit_byte_eq.
    destruct (bset d i (u8 (ch_0 + u8 (out mod 10)))) as [d'| |]; cbn [liftd obind liftw]; try reflexivity.
    change {| grt_data := d'; grt_spare := sp |} with (mk d' sp).
    rewrite of_N_div10. apply IH; lia.
Qed.

Lemma loop3_eq (sp : bytes) (n : Z) : forall (k fuel : nat) (d : bytes) (out : N) (i : Z),
  (k < fuel)%nat -> k = Z.to_nat (i - n + 1) ->
  grt_appendF_loop3 fuel (mk d sp) (Z.of_N out) n i = liftw sp (write_digits d i out k).
Proof.
  induction k as [|k IH]; intros fuel d out i Hf Hk; (destruct fuel as [|fuel]; [lia|]);
    cbn [grt_appendF_loop3 write_digits].
  - destruct (Z.leb_spec n i) as [C|_]; [lia|]. reflexivity.
  - destruct (Z.leb_spec n i) as [_|C]; [|lia].
    rewrite grt_store_eq, digit_byte_eq.
    destruct (bset d i (u8 (ch_0 + u8 (out mod 10)))) as [d'| |]; cbn [liftd obind liftw]; try reflexivity.
    change {| grt_data := d'; grt_spare := sp |} with (mk d' sp).
    rewrite of_N_div10. apply IH; lia.
Qed.

(* for ; ePos > 0; i-- { b[i] = ..; out /= 10; ePos-- } *)
Definition liftw4 (sp : bytes) (ePos : Z) (o : outcome (bytes * N * Z)) : outcome (grt_buf * Z * Z * Z) :=
  match o with Ok (d, out, i) => Ok (mk d sp, Z.of_N out, Z.min ePos 0, i) | Fail => Fail | Panic => Panic end.

Lemma loop4_eq (sp : bytes) : forall (k fuel : nat) (d : bytes) (out : N) (ePos i : Z),
  (k < fuel)%nat -> k = Z.to_nat ePos ->
  grt_appendF_loop4 fuel (mk d sp) (Z.of_N out) ePos i = liftw4 sp ePos (write_digits d i out k).
Proof.
  induction k as [|k IH]; intros fuel d out ePos i Hf Hk; (destruct fuel as [|fuel]; [lia|]);
    cbn [grt_appendF_loop4 write_digits].
  - destruct (Z.ltb_spec 0 ePos) as [C|C]; [lia|]. cbn [liftw4]. rewrite Z.min_l by lia. reflexivity.
  - destruct (Z.ltb_spec 0 ePos) as [_|C]; [|lia].
    rewrite grt_store_eq, digit_byte_eq.
    destruct (bset d i (u8 (ch_0 + u8 (out mod 10)))) as [d'| |]; cbn [liftd obind liftw4]; try reflexivity.
    change {| grt_data := d'; grt_spare := sp |} with (mk d' sp).
    rewrite of_N_div10, IH by lia.
    destruct (write_digits d' (i - 1) (out / 10)%N k) as [[[d2 out2] i2]| |]; cbn [liftw4]; try reflexivity.
    rewrite !Z.min_r by lia. reflexivity.
Qed.

(* for ; i >= end; i-- { b[i] = ..; out /= 10 } *)
Definition liftw5 (sp : bytes) (o : outcome (bytes * N * Z)) : outcome (grt_buf * Z * Z) :=
  match o with Ok (d, out, i) => Ok (mk d sp, Z.of_N out, i) | Fail => Fail | Panic => Panic end.

Lemma loop5_eq (sp : bytes) (end_ : Z) : forall (k fuel : nat) (d : bytes) (out : N) (i : Z),
  (k < fuel)%nat -> k = Z.to_nat (i - end_ + 1) ->
  grt_appendF_loop5 fuel (mk d sp) (Z.of_N out) i end_ = liftw5 sp (write_digits d i out k).
Proof.
  induction k as [|k IH]; intros fuel d out i Hf Hk; (destruct fuel as [|fuel]; [lia|]);
    cbn [grt_appendF_loop5 write_digits].
  - destruct (Z.leb_spec end_ i) as [C|_]; [lia|]. reflexivity.
  - destruct (Z.leb_spec end_ i) as [_|C]; [|lia].
    rewrite grt_store_eq, digit_byte_eq.
    destruct (bset d i (u8 (ch_0 + u8 (out mod 10)))) as [d'| |]; cbn [liftd obind liftw5]; try reflexivity.
    change {| grt_data := d'; grt_spare := sp |} with (mk d' sp).
    rewrite of_N_div10. apply IH; lia.
Qed.

(* the index write_digits hands back *)
Lemma write_digits_index : forall (k : nat) (d : bytes) (i : Z) (out : N) d' out' i',
  write_digits d i out k = Ok (d', out', i') -> i' = i - Z.of_nat k.
Proof.
  induction k as [|k IH]; intros d i out d' out' i' H; cbn [write_digits] in H.
  - injection H as _ _ <-. lia.
  - destruct (bset d i (u8 (ch_0 + u8 (out mod 10)))) as [d1| |]; cbn [obind] in H; try discriminate.
    apply IH in H. lia.
Qed.

(* decimalLen64 answers at most 19 *)
Lemma decimalLen64_range (u : N) (l : Z) : decimalLen64 u = Ok l -> 0 <= l <= 19.
Proof.
  unfold decimalLen64. cbv zeta.
  set (t := Z.shiftr ((Z.of_N (N.size u) - 1 + 1) * c_declen_mul) c_declen_shift).
  unfold idxZ. destruct (Z.ltb_spec t 0) as [H0|H0]; [discriminate|].
  unfold idxN. change (N.of_nat (length g_powersOf10)) with 18%N.
  destruct (N.ltb_spec (Z.to_N t) 18) as [H1|H1]; [|discriminate].
  destruct (idx g_powersOf10 (N.to_nat (Z.to_N t))) as [p| |]; cbn [obind]; try discriminate.
  intro H. injection H as <-. unfold b2n. destruct (u <? p)%N; lia.
Qed.

(* ------------------------------------------------------------------ dec64.appendF *)

Lemma neg_append_eq (g : nat -> bytes) (b : buf) (neg : bool) :
  (if neg then let v_b := grt_append g (to_g b) [45%N] in v_b else to_g b)
  = to_g (if neg then go_append g b [ch_minus] else b).
Proof. destruct neg; [apply grt_append_eq|reflexivity]. Qed.

Theorem grt_appendF_eq (g : nat -> bytes) (fuel : nat) (b : buf) (m : N) (e : Z) (neg : bool) :
  (m < 2 ^ 64)%N -> Z.abs e + 20 < Z.of_nat fuel ->
  grt_appendF g fuel (Z.of_N m, e) (to_g b) neg = o_g (appendF g b m e neg).
Proof.
  intros Hm Hfuel. unfold grt_appendF, appendF. cbv zeta.
  rewrite neg_append_eq. set (b' := if neg then go_append g b [ch_minus] else b).
  rewrite gf_ryu_decimalLen64_eq, N2Z.id by (change (2 ^ 64)%N with 18446744073709551616%N in Hm; lia).
  pose proof (decimalLen64_no_fail m) as NF. pose proof (decimalLen64_range m) as RG.
  destruct (decimalLen64 m) as [outLen| |]; cbn [o2o grt_lift obind o_g]; [|congruence|reflexivity].
  specialize (RG outLen eq_refl). unfold idZ. clear NF.
  change (grt_len (to_g b')) with (Z.of_nat (length (bdata b'))).
  destruct (Z.leb_spec 0 e) as [Hpos|Hneg].
  - (* XYZ000 *)
    rewrite grt_sizeSlice_eq.
    destruct (sizeSlice g b' (e + outLen)) as [b1| |]; cbn [o_g obind]; try reflexivity.
    rewrite to_g_mk.
    rewrite (loop1_eq (bspare b1) outLen e _ (Z.to_nat e)) by lia.
    destruct (write_zeros (bdata b1) (outLen + Z.of_nat (length (bdata b'))) (Z.to_nat e)) as [d1| |];
      cbn [liftd obind]; try reflexivity.
    rewrite (loop2_eq (bspare b1) _ (Z.to_nat outLen)) by lia.
    destruct (write_digits d1 (Z.of_nat (length (bdata b')) + outLen - 1) m (Z.to_nat outLen)) as [[[d2 o2] i2]| |];
      cbn [liftw obind fst o_g]; reflexivity.
  - destruct (Z.leb_spec outLen (- e)) as [Hfrac|Hmix].
    + (* 0.000XYZ *)
      change [48%N; 46%N] with [ch_0; ch_dot]. rewrite grt_append_eq.
      set (b0 := go_append g b' [ch_0; ch_dot]).
      change (grt_len (to_g b0)) with (Z.of_nat (length (bdata b0))).
      rewrite grt_sizeSlice_eq.
      destruct (sizeSlice g b0 (- e)) as [b1| |]; cbn [o_g obind]; try reflexivity.
      rewrite to_g_mk.
      rewrite (loop3_eq (bspare b1) _ (Z.to_nat (- e))) by lia.
      destruct (write_digits (bdata b1) (Z.of_nat (length (bdata b0)) + - e - 1) m (Z.to_nat (- e))) as [[[d2 o2] i2]| |];
        cbn [liftw obind fst o_g]; reflexivity.
    + (* X.YZ *)
      rewrite grt_sizeSlice_eq.
      destruct (sizeSlice g b' (outLen + 1)) as [b1| |]; cbn [o_g obind]; try reflexivity.
      change (grt_len (to_g b1)) with (Z.of_nat (length (bdata b1))).
      rewrite to_g_mk.
      rewrite (loop4_eq (bspare b1) (Z.to_nat (- e))) by lia.
      pose proof (write_digits_index (Z.to_nat (- e)) (bdata b1) (Z.of_nat (length (bdata b1)) - 1) m) as WI.
      destruct (write_digits (bdata b1) (Z.of_nat (length (bdata b1)) - 1) m (Z.to_nat (- e))) as [[[d1 out1] i1]| |];
        cbn [liftw4 obind]; try reflexivity.
      specialize (WI d1 out1 i1 eq_refl).
      rewrite grt_store_eq. change (grt_byte 46) with ch_dot.
      destruct (bset d1 i1 ch_dot) as [d2| |]; cbn [liftd obind]; try reflexivity.
      rewrite (loop5_eq (bspare b1) _ (Z.to_nat (i1 - 1 - (Z.of_nat (length (bdata b1)) - 1 - outLen) + 1))) by lia.
      destruct (write_digits d2 (i1 - 1) out1 (Z.to_nat (i1 - 1 - (Z.of_nat (length (bdata b1)) - 1 - outLen) + 1)))
        as [[[d3 o3] i3]| |]; cbn [liftw5 obind fst o_g]; reflexivity.
Qed.

(* ------------------------------------------------------------------ the decimal exponents a float64 produces *)

Lemma i32_small (z : Z) : -2147483648 <= z < 2147483648 -> i32 z = z.
Proof. intro H. unfold i32. rewrite Z.mod_small by lia. lia. Qed.

Lemma strip10_bounds (fuel : nat) : forall (m : N) (e : Z) m' e',
  strip10 fuel m e = Ok (m', e') -> 0 <= e -> e + Z.of_nat fuel < 2147483648 ->
  (m' <= m)%N /\ e <= e' <= e + Z.of_nat fuel.
Proof.
  induction fuel as [|f IH]; intros m e m' e' H H0 H1; cbn [strip10] in H; [discriminate|].
  destruct (m mod 10 =? 0)%N.
  - rewrite i32_small in H by lia. apply IH in H; [|lia|lia]. destruct H as [Hm He]. split; [|lia].
    apply N.le_trans with (m / 10)%N; [exact Hm|]. apply N.div_le_upper_bound; lia.
  - injection H as <- <-. split; lia.
Qed.

Lemma exact_int_bounds (mant exp m : N) (e : Z) :
  (mant < 2 ^ 52)%N -> float64ToDecimalExactInt mant exp = Ok (Some (m, e)) -> (m < 2 ^ 64)%N /\ 0 <= e <= 20.
Proof.
  intros Hm. unfold float64ToDecimalExactInt. cbv zeta.
  destruct (c_mantBits64 <? sub64 exp c_bias64)%N; [discriminate|].
  set (mant' := N.lor mant (shl64 1 c_mantBits64)).
  set (shift := sub64 c_mantBits64 (sub64 exp c_bias64)).
  destruct (negb (shl64 (shr64 mant' shift) shift =? mant')%N); [discriminate|].
  destruct (strip10 20 (shr64 mant' shift) 0) as [[m1 e1]| |] eqn:S; cbn [obind]; try discriminate.
  intro H. injection H as <- <-.
  apply strip10_bounds in S; [|lia|lia]. destruct S as [S1 S2]. split; [|lia].
  apply N.le_lt_trans with (shr64 mant' shift); [exact S1|].
  apply N.le_lt_trans with mant'.
  - unfold shr64. destruct (shift <? 64)%N; [|lia]. rewrite N.shiftr_div_pow2.
    apply N.div_le_upper_bound; [apply N.pow_nonzero; discriminate|].
    assert (1 <= 2 ^ shift)%N by (apply N.lt_pred_le; apply N.neq_0_lt_0, N.pow_nonzero; discriminate). nia.
  - unfold mant'. change (shl64 1 c_mantBits64) with (2 ^ 52)%N.
    assert (L : (N.lor mant (2 ^ 52) < 2 ^ 53)%N).
    { destruct (N.eq_dec (N.lor mant (2 ^ 52)) 0) as [->|NZ]; [reflexivity|].
      apply N.log2_lt_pow2; [lia|]. rewrite N.log2_lor.
      destruct (N.eq_dec mant 0) as [->|MZ]; [reflexivity|].
      assert (N.log2 mant < 52)%N by (apply N.log2_lt_pow2; lia).
      change (N.log2 (2 ^ 52)) with 52%N. lia. }
    eapply N.lt_trans; [exact L|reflexivity].
Qed.

Lemma gen_loop1_removed (fuel : nat) : forall s s',
  gen_loop1 fuel s = Ok s' -> 0 <= g_removed s -> g_removed s + Z.of_nat fuel < 2147483648 ->
  g_removed s <= g_removed s' <= g_removed s + Z.of_nat fuel.
Proof.
  induction fuel as [|f IH]; intros s s' H H0 H1; cbn [gen_loop1] in H; [discriminate|].
  cbv zeta in H. destruct (g_vp s / 10 <=? g_vm s / 10)%N.
  - injection H as <-. lia.
  - assert (E : i32 (g_removed s + 1) = g_removed s + 1) by (apply i32_small; lia).
    apply IH in H; cbn [g_removed] in *; rewrite ?E in *; lia.
Qed.

Lemma gen_loop2_removed (fuel : nat) : forall s s',
  gen_loop2 fuel s = Ok s' -> 0 <= g_removed s -> g_removed s + Z.of_nat fuel < 2147483648 ->
  g_removed s <= g_removed s' <= g_removed s + Z.of_nat fuel.
Proof.
  induction fuel as [|f IH]; intros s s' H H0 H1; cbn [gen_loop2] in H; [discriminate|].
  destruct (negb (g_vm s mod 10 =? 0)%N).
  - injection H as <-. lia.
  - assert (E : i32 (g_removed s + 1) = g_removed s + 1) by (apply i32_small; lia).
    apply IH in H; cbn [g_removed] in *; rewrite ?E in *; lia.
Qed.

Lemma com_loop100_removed (fuel : nat) : forall s s',
  com_loop100 fuel s = Ok s' -> 0 <= c_removed s -> c_removed s + 2 * Z.of_nat fuel < 2147483648 ->
  c_removed s <= c_removed s' <= c_removed s + 2 * Z.of_nat fuel.
Proof.
  induction fuel as [|f IH]; intros s s' H H0 H1; cbn [com_loop100] in H; [discriminate|].
  destruct (c_vm s / 100 <? c_vp s / 100)%N.
  - assert (E : i32 (c_removed s + 2) = c_removed s + 2) by (apply i32_small; lia).
    apply IH in H; cbn [c_removed] in *; rewrite ?E in *; lia.
  - injection H as <-. lia.
Qed.

Lemma com_loop10_removed (fuel : nat) : forall s s',
  com_loop10 fuel s = Ok s' -> 0 <= c_removed s -> c_removed s + Z.of_nat fuel < 2147483648 ->
  c_removed s <= c_removed s' <= c_removed s + Z.of_nat fuel.
Proof.
  induction fuel as [|f IH]; intros s s' H H0 H1; cbn [com_loop10] in H; [discriminate|].
  destruct (c_vm s / 10 <? c_vp s / 10)%N.
  - assert (E : i32 (c_removed s + 1) = c_removed s + 1) by (apply i32_small; lia).
    apply IH in H; cbn [c_removed] in *; rewrite ?E in *; lia.
  - injection H as <-. lia.
Qed.

Lemma f2d_step4_exponent (st : step3) (ab : bool) (out : N) (e : Z) :
  f2d_step4 st ab = Ok (out, e) -> -1000 <= s_e10 st <= 1000 -> s_e10 st <= e <= s_e10 st + 72.
Proof.
  unfold f2d_step4. intros H He.
  assert (LF : Z.of_nat loop_fuel = 24) by reflexivity.
  revert H LF. generalize loop_fuel. intros fuel H LF.   (* the loops stay folded *)
  destruct (s_vmTZ st || s_vrTZ st).
  - destruct (gen_loop1 fuel _) as [s1| |] eqn:L1; cbn [obind] in H; try discriminate.
    apply gen_loop1_removed in L1; [cbn [g_removed] in L1|cbn [g_removed]; lia|cbn [g_removed]; lia].
    destruct (g_vmTZ s1).
    + destruct (gen_loop2 fuel s1) as [s2| |] eqn:L2; cbn [obind] in H; try discriminate.
      apply gen_loop2_removed in L2; [|lia|lia].
      injection H as _ <-. rewrite i32_small by lia. lia.
    + cbn [obind] in H. injection H as _ <-. rewrite i32_small by lia. lia.
  - destruct (com_loop100 fuel _) as [s1| |] eqn:L1; cbn [obind] in H; try discriminate.
    apply com_loop100_removed in L1; [cbn [c_removed] in L1|cbn [c_removed]; lia|cbn [c_removed]; lia].
    destruct (com_loop10 fuel s1) as [s2| |] eqn:L2; cbn [obind] in H; try discriminate.
    apply com_loop10_removed in L2; [|lia|lia].
    injection H as _ <-. rewrite i32_small by lia. lia.
Qed.

(* step 3 hands the exponent of the plan (which depends on the biased exponent only) to step 4 *)
Lemma ok_pair_fst {A B : Type} (a a' : A) (b b' : B) : Ok (a, b) = Ok (a', b') -> a = a'.
Proof. intro H. injection H as H1 _. exact H1. Qed.

Lemma step3_e10 (mant exp : N) (st : step3) (ab : bool) :
  f2d_step3 mant exp = Ok (st, ab) -> exists pl, plan_of exp = Ok pl /\ s_e10 st = p_e10 pl.
Proof.
  rewrite f2d_step3_split. destruct (plan_of exp) as [pl| |]; cbn [obind]; try discriminate.
  intro H. exists pl. split; [reflexivity|]. revert H. unfold step3_with. cbv zeta.
  destruct (mulShift64 _ _ _) as [vr| |]; cbn [obind]; try discriminate.
  destruct (mulShift64 _ _ _) as [vp| |]; cbn [obind]; try discriminate.
  destruct (mulShift64 _ _ _) as [vm| |]; cbn [obind]; try discriminate.
  destruct (p_pos pl).
  - destruct (p_q pl <=? c_q_pos_small)%N; [|intro H; apply ok_pair_fst in H; rewrite <- H; reflexivity].
    destruct (_ mod 5 =? 0)%N.
    + destruct (multipleOfPowerOfFive64 _ _) as [t| |]; cbn [obind]; try discriminate.
      intro H; apply ok_pair_fst in H; rewrite <- H; reflexivity.
    + destruct (N.land _ 1 =? 0)%N.
      * destruct (multipleOfPowerOfFive64 _ _) as [t| |]; cbn [obind]; try discriminate.
        intro H; apply ok_pair_fst in H; rewrite <- H; reflexivity.
      * destruct (multipleOfPowerOfFive64 _ _) as [t| |]; cbn [obind]; try discriminate.
        intro H; apply ok_pair_fst in H; rewrite <- H; reflexivity.
  - destruct (p_q pl <=? c_q_neg_small)%N.
    + destruct (N.land _ 1 =? 0)%N; intro H; apply ok_pair_fst in H; rewrite <- H; reflexivity.
    + destruct (p_q pl <? c_q_neg_max)%N; intro H; apply ok_pair_fst in H; rewrite <- H; reflexivity.
Qed.

(* the exponent-only sweep: for all 2047 biased exponents of finite floats -325 <= e10 <= 290 *)
Definition e10_ok (exp : N) : bool :=
  match plan_of exp with Ok pl => (-325 <=? p_e10 pl) && (p_e10 pl <=? 290) | _ => false end.

Lemma all_e10_ok : forallb e10_ok (map N.of_nat (seq 0 2047)) = true.
Proof. vm_compute. reflexivity. Qed.

Lemma float64ToDecimal_exponent (mant exp m : N) (e : Z) :
  (exp <= 2046)%N -> float64ToDecimal mant exp = Ok (m, e) -> -325 <= e <= 362.
Proof.
  intros He. unfold float64ToDecimal.
  destruct (f2d_step3 mant exp) as [[st ab]| |] eqn:E3; cbn [obind fst snd]; try discriminate.
  intro H4. destruct (step3_e10 mant exp st ab E3) as (pl & EP & Ee).
  pose proof all_e10_ok as S. rewrite forallb_forall in S.
  assert (IN : In exp (map N.of_nat (seq 0 2047))).
  { apply in_map_iff. exists (N.to_nat exp). split; [lia|]. apply in_seq. lia. }
  specialize (S exp IN). unfold e10_ok in S. rewrite EP in S.
  apply andb_true_iff in S as [S1 S2]. apply Z.leb_le in S1, S2.
  apply f2d_step4_exponent in H4; lia.
Qed.

(* ------------------------------------------------------------------ AppendFloat64f *)

Lemma land_ones_lt (a n : N) : (N.land a (N.ones n) < 2 ^ n)%N.
Proof. rewrite N.land_ones. apply N.mod_upper_bound. apply N.pow_nonzero. discriminate. Qed.

Theorem grt_AppendFloat64f_eq (g : nat -> bytes) (fuel : nat) (b : buf) (bits : N) :
  (400 <= fuel)%nat ->
  grt_AppendFloat64f g fuel (to_g b) (Z.of_N bits) = o_g (AppendFloat64f g b bits).
Proof.
  intro Hfuel. unfold grt_AppendFloat64f, AppendFloat64f. cbv zeta.
  change (sub64 (shl64 1 c_mantBits64) 1) with (N.ones 52).
  change (sub64 (shl64 1 c_expBits64) 1) with (N.ones 11).
  change (c_mantBits64 + c_expBits64)%N with 63%N. change c_mantBits64 with 52%N.
  set (mant := N.land bits (N.ones 52)).
  set (exp := N.land (shr64 bits 52) (N.ones 11)).
  assert (Hmant : (mant < 2 ^ 52)%N) by apply land_ones_lt.
  assert (Hexp : (exp < 2 ^ 11)%N) by apply land_ones_lt.
  assert (E1 : Z.shiftr (Z.of_N bits) 63 = Z.of_N (shr64 bits 63)).
  { change (shr64 bits 63) with (N.shiftr bits 63). rewrite of_N_shiftr. reflexivity. }
  assert (E2 : Z.land (Z.of_N bits) 4503599627370495 = Z.of_N mant).
  { unfold mant. rewrite of_N_land. reflexivity. }
  assert (E3 : Z.land (Z.shiftr (Z.of_N bits) 52) 2047 = Z.of_N exp).
  { unfold exp. change (shr64 bits 52) with (N.shiftr bits 52). rewrite of_N_land, of_N_shiftr. reflexivity. }
  rewrite E1, E2, E3.
  change 2047 with (Z.of_N (N.ones 11)). change 0 with (Z.of_N 0). rewrite !of_N_eqb.
  set (neg := negb (shr64 bits 63 =? 0)%N).
  destruct ((exp =? N.ones 11)%N || ((exp =? 0)%N && (mant =? 0)%N)) eqn:SP.
  - cbn [o_g]. f_equal. apply grt_appendSpecialf_eq.
  - apply orb_false_iff in SP as [S1 S2]. apply N.eqb_neq in S1. change (N.ones 11) with 2047%N in S1.
    change (2 ^ 11)%N with 2048%N in Hexp.
    assert (Hnz : ~ (exp = 0%N /\ mant = 0%N)).
    { intros [Z1 Z2]. rewrite Z1, Z2 in S2. discriminate. }
    pose proof (gf_ryu_float64ToDecimalExactInt_eq mant exp) as EI. unfold exact_int_rel in EI.
    destruct (float64ToDecimalExactInt mant exp) as [[[m e]|]| |] eqn:EX.
    + rewrite EI. cbn [grt_lift obind dec_of fst snd negb].
      destruct (exact_int_bounds mant exp m e Hmant EX) as [B1 B2].
      rewrite grt_appendF_eq by (try exact B1; lia).
      destruct (appendF g b m e neg) as [r| |]; reflexivity.
    + destruct EI as [[dm de] EI]. rewrite EI. cbn [grt_lift obind negb].
      rewrite gf_ryu_float64ToDecimal_eq.
      pose proof (float64ToDecimal_no_fail mant exp) as NF.
      destruct (float64ToDecimal_total mant exp Hmant ltac:(lia) Hnz) as (out & e & ED & O1 & O2).
      pose proof (float64ToDecimal_exponent mant exp out e ltac:(lia) ED) as RG.
      rewrite ED. cbn [o2o grt_lift obind dec_of fst snd].
      assert (B1 : (out < 2 ^ 64)%N).
      { eapply N.lt_trans; [exact O2|reflexivity]. }
      rewrite grt_appendF_eq by (try exact B1; lia).
      destruct (appendF g b out e neg) as [r| |]; reflexivity.
    + contradiction.
    + rewrite EI. reflexivity.
Qed.

(* ------------------------------------------------------------------ FormatFloat64f *)

Theorem grt_FormatFloat64f_eq (g : nat -> bytes) (fuel : nat) (bits : N) :
  (400 <= fuel)%nat -> (bits < 2 ^ 64)%N ->
  grt_FormatFloat64f g fuel (Z.of_N bits) = Ok (ryu_text bits).
Proof.
  intros Hfuel Hb. unfold grt_FormatFloat64f.
  change (grt_make3 0 24) with (Ok (to_g {| bdata := []; bspare := repeat 0%N 24 |})).
  cbn [obind]. rewrite grt_AppendFloat64f_eq by exact Hfuel.
  destruct (AppendFloat64f_total g {| bdata := []; bspare := repeat 0%N 24 |} bits Hb) as (sp & E).
  rewrite E. reflexivity.
Qed.

(* ------------------------------------------------------------------ C16 on the translated text *)

(* C16_AppendFloat64f_total for the translation: no panic, old contents kept, the text depends on the bits only *)
Theorem grt_AppendFloat64f_total (g : nat -> bytes) (fuel : nat) (b : buf) (bits : N) :
  (400 <= fuel)%nat -> (bits < 2 ^ 64)%N ->
  exists sp, grt_AppendFloat64f g fuel (to_g b) (Z.of_N bits)
             = Ok (to_g {| bdata := bdata b ++ ryu_text bits; bspare := sp |}).
Proof.
  intros Hfuel Hb. destruct (AppendFloat64f_total g b bits Hb) as (sp & E).
  exists sp. rewrite grt_AppendFloat64f_eq by exact Hfuel. rewrite E. reflexivity.
Qed.

(* C16_text for the translation *)
Theorem grt_AppendFloat64f_oracle (g : nat -> bytes) (fuel : nat) (b : buf) (bits : N) :
  (400 <= fuel)%nat -> (bits < 2 ^ 64)%N ->
  ~ (((bits / 2 ^ 52) mod 2048 = 2047 /\ bits mod 2 ^ 52 <> 0)%N) ->
  exists text sp,
    grt_AppendFloat64f g fuel (to_g b) (Z.of_N bits) = Ok (to_g {| bdata := bdata b ++ text; bspare := sp |}) /\
    oracle_f bits text = true.
Proof.
  intros Hfuel Hb Hnan. destruct (AppendFloat64f_oracle g b bits Hb Hnan) as (text & sp & E & O).
  exists text, sp. split; [|exact O]. rewrite grt_AppendFloat64f_eq by exact Hfuel. rewrite E. reflexivity.
Qed.

(* ------------------------------------------------------------------ C14 on the translated text *)
From QF Require Import Model.Json Model.Frame Model.JsonRead Proofs.JsonProofs Proofs.JsonDocProofs.

(* C14_float_token + C14_float_text_any_buffer for the translation: what the translated Go text appends for a
   finite float is an RFC 8259 number token that denotes exactly sign * m * 10^e of the decimal (m, e) *)
Theorem grt_json_float_token (g : nat -> bytes) (fuel : nat) (b : buf) (bits : N) :
  (400 <= fuel)%nat -> (bits < 2 ^ 64)%N -> f_isnan bits = false -> f_isinf bits = false ->
  exists text m e sp,
    grt_AppendFloat64f g fuel (to_g b) (Z.of_N bits) = Ok (to_g {| bdata := bdata b ++ text; bspare := sp |}) /\
    float_decimal bits = Ok (m, e) /\
    value_denotes text (JNum text) /\
    jnum_value text = Some (negb (bits / 2 ^ 63 =? 0)%N, (m * 10 ^ Z.to_N (e - Z.min e 0))%N, Z.min e 0).
Proof.
  intros Hfuel Hb Hn Hi.
  destruct (float_token bits Hb Hn Hi) as (text & m & e & ET & ED & VD & JV).
  destruct (float_text_any_buffer bits text Hb ET g b) as (sp & E).
  exists text, m, e, sp. split; [|split; [exact ED|split; [exact VD|exact JV]]].
  rewrite grt_AppendFloat64f_eq by exact Hfuel. rewrite E. reflexivity.
Qed.
