(* Proofs/FilterTypedCustom.v — C02, custom predicate functions (func(T) bool, func(T, T) bool) on all five
   column types: "custom predicate functions decide by their return value".  The user function is the table
   of Model/Filter.v (fn1_env / fn2_env); the loops are the GENERATED filterCustom1 / filterCustom2 kernels. *)
From QF Require Import Base.Prelude Base.KernelSyntax Gen.GenConsts Gen.GenTables Gen.GenKernels.
From QF Require Import Model.Frame Model.Bits Model.Kernel Model.Filter Model.FilterSpec.
From QF Require Import Proofs.FilterProofs Proofs.FilterLeafProofs Proofs.FilterTyped Proofs.FilterTypedEnum.
Local Open Scope nat_scope.

Lemma cell_at_ok c p : col_row_ok c p -> exists x, cell_at c p = Ok x.
Proof.
  intro H. destruct c as [d|d|d|d|d vs st].
  - destruct H as [Hp _]. cbn [col_len] in Hp. destruct (idx_lt d p Hp) as [v Hv]. cbn [cell_at]. rewrite Hv. eexists; reflexivity.
  - destruct H as [Hp _]. cbn [col_len] in Hp. destruct (idx_lt d p Hp) as [v Hv]. cbn [cell_at]. rewrite Hv. eexists; reflexivity.
  - destruct H as [Hp _]. cbn [col_len] in Hp. destruct (idx_lt d p Hp) as [v Hv]. cbn [cell_at]. rewrite Hv. eexists; reflexivity.
  - destruct H as [Hp _]. cbn [col_len] in Hp. destruct (idx_lt d p Hp) as [v Hv]. cbn [cell_at]. rewrite Hv. eexists; reflexivity.
  - destruct (enum_cell_cases d vs st p H) as [r [Hr [_ [[_ Hes]|[_ [x [Hes _]]]]]]];
      cbn [cell_at]; rewrite Hr; cbn [obind]; rewrite Hes; eexists; reflexivity.
Qed.

Lemma promoted_row_ok d p : col_row_ok (ICol d) p -> col_row_ok (FCol (float_slice d)) p.
Proof.
  intros [Hp _]. cbn [col_len] in *. unfold col_row_ok, float_slice. cbn [col_len col_wf]. rewrite map_length. auto.
Qed.

Ltac rc := repeat (progress reduce_closed1).

Lemma custom1_row mt c t tbl a p x e :
  cell_at c p = Ok x -> fn_type_ok c t = true ->
  find (fun e => cell_key_eqb (fst e) x) tbl = Some e ->
  col_filter mt c [p] (CmpFn1 t tbl) a [false] = Ok [snd e].
Proof.
  intros Hx Ht He. unfold col_filter. rewrite Ht. unfold cell_key_eqb in He.
  destruct c; cbn [letter_of];
    (unfold run; rc; rewrite run_kernel_direct; cbn [direct]; rewrite guarded_loop_single; unfold body_point;
     cbn [keval fn1_env k_cell k_fn obind]; unfold ptr_kval; rewrite Hx; cbn [obind]; rewrite He; reflexivity).
Qed.

Lemma custom2_row mt c c2 t tbl p x y e :
  cell_at c p = Ok x -> cell_at c2 p = Ok y -> fn_type_ok c t = true -> ctype_eqb (col_type c) (col_type c2) = true ->
  find (fun e => cell_key_eqb (fst (fst e)) x && cell_key_eqb (snd (fst e)) y) tbl = Some e ->
  col_filter mt c [p] (CmpFn2 t tbl) (RCol c2) [false] = Ok [snd e].
Proof.
  intros Hx Hy Ht Hty He. unfold col_filter. rewrite Ht, Hty. unfold cell_key_eqb in He.
  destruct c; cbn [letter_of];
    (unfold run; rc; rewrite run_kernel_direct; cbn [direct]; rewrite guarded_loop_single; unfold body_point;
     cbn [keval fn2_env k_cell k_fn obind]; unfold ptr_kval; rewrite Hx; cbn [obind]; rewrite Hy; cbn [obind];
     rewrite He; reflexivity).
Qed.

(* func(T) bool *)
Theorem colrow_fn1 mt f c t tbl arg p :
  col_row_ok c p -> arg_row_ok f arg p -> colrow_ok mt f c (CmpFn1 t tbl) arg p.
Proof.
  intros Hrow Harg. unfold colrow_ok, leaf_core, resolve.
  assert (Plain : forall a : rarg,
            match (if fn_type_ok c t
                   then do x <- cell_at c p;
                        Ok (match find (fun e => cell_key_eqb (fst e) x) tbl with Some e => det (snd e) | None => open_ end)
                   else Ok invalid) with
            | Ok (Some (Some v)) => col_filter mt c [p] (CmpFn1 t tbl) a [false] = Ok [v]
            | Ok None => forall i b, col_filter mt c i (CmpFn1 t tbl) a b = Fail
            | _ => True
            end).
  { intro a. destruct (fn_type_ok c t) eqn:Ht.
    - destruct (cell_at_ok c p Hrow) as [x Hx]. rewrite Hx. cbn [obind].
      destruct (find (fun e => cell_key_eqb (fst e) x) tbl) as [e|] eqn:He; spec_done; [|exact I].
      eapply custom1_row; eassumption.
    - spec_done. intros i b. unfold col_filter. rewrite Ht. reflexivity. }
  destruct arg as [z|fb ft|bb|str|zs|fs|ss|ifs|n| |]; try apply Plain.
  unfold arg_row_ok in Harg.
  destruct (lookup_col f n) as [c2|] eqn:Hl; [|exact I].
  destruct c as [d|d|d|d|d vs st]; destruct c2 as [d2|d2|d2|d2|d2 vs2 st2]; try apply Plain.
  (* int column, float argument column: the predicate sees the promoted column *)
  pose proof (promoted_row_ok d p Hrow) as Hrow'.
  destruct (fn_type_ok (FCol (float_slice d)) t) eqn:Ht.
  - destruct (cell_at_ok _ p Hrow') as [x Hx]. rewrite Hx. cbn [obind].
    destruct (find (fun e => cell_key_eqb (fst e) x) tbl) as [e|] eqn:He; spec_done; [|exact I].
    eapply custom1_row; eassumption.
  - spec_done. intros i b. unfold col_filter. rewrite Ht. reflexivity.
Qed.

(* func(T, T) bool : needs a column argument of the same type *)
Theorem colrow_fn2 mt f c t tbl arg p :
  col_row_ok c p -> arg_row_ok f arg p -> colrow_ok mt f c (CmpFn2 t tbl) arg p.
Proof.
  intros Hrow Harg. unfold colrow_ok, leaf_core, resolve.
  assert (NoCol : forall a : farg, forall i b, col_filter mt c i (CmpFn2 t tbl) (RConst a) b = Fail).
  { intros a i b. unfold col_filter. destruct (fn_type_ok c t); reflexivity. }
  destruct arg as [z|fb ft|bb|str|zs|fs|ss|ifs|n| |]; try (spec_done; apply NoCol).
  unfold arg_row_ok in Harg.
  destruct (lookup_col f n) as [c2|] eqn:Hl; [|exact I].
  assert (Pair : forall c' c2', col_row_ok c' p -> col_row_ok c2' p ->
            match (if fn_type_ok c' t && ctype_eqb (col_type c') (col_type c2')
                   then do x <- cell_at c' p; do y <- cell_at c2' p;
                        Ok (match find (fun e => cell_key_eqb (fst (fst e)) x && cell_key_eqb (snd (fst e)) y) tbl with
                            | Some e => det (snd e) | None => open_ end)
                   else Ok invalid) with
            | Ok (Some (Some v)) => col_filter mt c' [p] (CmpFn2 t tbl) (RCol c2') [false] = Ok [v]
            | Ok None => forall i b, col_filter mt c' i (CmpFn2 t tbl) (RCol c2') b = Fail
            | _ => True
            end).
  { intros c' c2' H1 H2.
    destruct (fn_type_ok c' t) eqn:Ht; cbn [andb].
    - destruct (ctype_eqb (col_type c') (col_type c2')) eqn:Hty.
      + destruct (cell_at_ok c' p H1) as [x Hx]. destruct (cell_at_ok c2' p H2) as [y Hy].
        rewrite Hx. cbn [obind]. rewrite Hy. cbn [obind].
        destruct (find _ tbl) as [e|] eqn:He; spec_done; [|exact I].
        eapply custom2_row; eassumption.
      + spec_done. intros i b. unfold col_filter. rewrite Ht, Hty. reflexivity.
    - spec_done. intros i b. unfold col_filter. rewrite Ht. reflexivity. }
  destruct c as [d|d|d|d|d vs st]; destruct c2 as [d2|d2|d2|d2|d2 vs2 st2];
    try (apply Pair; assumption).
  - apply Pair; [apply promoted_row_ok; exact Hrow|exact Harg].
  - apply Pair; [exact Hrow|apply promoted_row_ok; exact Harg].
Qed.

Theorem colrow_other mt f c arg p : colrow_ok mt f c CmpOther arg p.
Proof.
  unfold colrow_ok, leaf_core, resolve.
  destruct arg as [z|fb ft|bb|str|zs|fs|ss|ifs|n| |]; try (intros i b; reflexivity).
  destruct (lookup_col f n) as [c2|]; [|exact I].
  destruct c, c2; intros i b; reflexivity.
Qed.
