(* Proofs/SortSafe.v — lemmas about Model/Sort.v, part 2: for ANY comparison function [lt] (even an
   inconsistent one) every data[i] of the sorter is in range and the fuel of every loop suffices:
   sort_ids never answers Panic.  The range lemmas also show that the positions the model computes
   with truncated subtraction on nat are the ones Go computes on int (lo <= midlo, b >= lo+1 ...). *)
From QF Require Import Base.Prelude Model.Sort Proofs.SortProofs.

Ltac kunf :=
  cbv delta [k_ins_max k_depth_zero k_qs_one k_gap_a k_gap_b k_gap_c k_md_zero k_md_shift k_md_mul
             k_m_shift k_ninther_min k_ninther_div k_two_a k_one_a k_one_b k_one_c k_two_b k_one_d
             k_one_e k_one_f k_one_g k_one_h k_protect k_quarter k_dups0 k_one_i k_one_j k_one_k
             k_one_l k_dups_min k_one_m k_one_n k_one_o k_one_p k_is_one k_is_prev k_sd_two
             k_sd_one_a k_sd_one_b k_sd_one_c k_hs_lo k_hs_one_a k_hs_two k_hs_one_b] in *;
  change (2 ^ 1) with 2 in *.

(* ------------------------------------------------------------------ in-range accesses compute *)
Definition swapl (s : list nat) (i j : nat) : list nat :=
  set_nth (set_nth s i (nth j s 0)) j (nth i s 0).

Lemma swapl_length s i j : length (swapl s i j) = length s.
Proof. unfold swapl. rewrite !set_nth_length. reflexivity. Qed.

Lemma idx_nth (s : list nat) i : i < length s -> idx s i = Ok (nth i s 0).
Proof.
  intros H. unfold idx. rewrite (nth_error_nth' s 0 H). reflexivity.
Qed.

Section Safe.
  Variable lt : nat -> nat -> bool.

  Lemma less_eq s i j : i < length s -> j < length s ->
    less lt s i j = Ok (lt (nth i s 0) (nth j s 0)).
  Proof. intros Hi Hj. unfold less. rewrite (idx_nth s i Hi), (idx_nth s j Hj). reflexivity. Qed.

  Lemma swap_eq s i j : i < length s -> j < length s -> swap s i j = Ok (swapl s i j).
  Proof. intros Hi Hj. unfold swap. rewrite (idx_nth s i Hi), (idx_nth s j Hj). reflexivity. Qed.

  Ltac len := rewrite ?swapl_length in *; lia.

  (* ---------------------------------------------------------------- insertion sort *)
  Lemma ins_inner_safe a : forall j s, j < length s ->
    exists s', ins_inner lt a j s = Ok s' /\ length s' = length s.
  Proof.
    induction j as [|j IH]; intros s Hj; cbn [ins_inner]; [eauto|].
    destruct (a <? S j); [|eauto]. kunf.
    rewrite less_eq by lia. cbn [obind].
    destruct (lt _ _); [|eauto].
    rewrite swap_eq by lia. cbn [obind].
    replace (S j - 1) with j by lia.
    destruct (IH (swapl s (S j) j)) as (s' & E & L); [len|].
    exists s'. split; auto. len.
  Qed.

  Lemma ins_outer_safe a : forall k i s, (0 < k -> i + k <= length s) ->
    exists s', ins_outer lt k a i s = Ok s' /\ length s' = length s.
  Proof.
    induction k as [|k IH]; intros i s H; cbn [ins_outer]; [eauto|].
    destruct (ins_inner_safe a i s) as (s1 & E1 & L1); [lia|]. rewrite E1. cbn [obind].
    destruct (IH (S i) s1) as (s' & E & L); [lia|]. exists s'. split; auto. lia.
  Qed.

  Lemma insertion_sort_safe a b s : b <= length s ->
    exists s', insertion_sort lt a b s = Ok s' /\ length s' = length s.
  Proof. intros H. unfold insertion_sort. apply ins_outer_safe. kunf. lia. Qed.

  (* ---------------------------------------------------------------- heap sort *)
  Lemma sift_down_safe hi first : forall fuel root s,
    first + hi <= length s -> hi - root < fuel ->
    exists s', sift_down lt fuel root hi first s = Ok s' /\ length s' = length s.
  Proof.
    induction fuel as [|f IH]; intros root s Hr Hf; [lia|]. cbn [sift_down]. kunf.
    destruct (hi <=? 2 * root + 1) eqn:C; [eauto|]. apply Nat.leb_gt in C.
    assert (Tail : forall child, root < child < hi ->
              exists s', (do c2 <- less lt s (first + root) (first + child);
                          if negb c2 then Ok s
                          else do s' <- swap s (first + root) (first + child);
                               sift_down lt f child hi first s') = Ok s' /\ length s' = length s).
    { intros child Hc. rewrite less_eq by lia. cbn [obind].
      destruct (negb _); [eauto|].
      rewrite swap_eq by lia. cbn [obind].
      destruct (IH child (swapl s (first + root) (first + child))) as (s' & E & L); [len|lia|].
      exists s'. split; auto. len. }
    destruct (2 * root + 1 + 1 <? hi) eqn:C2.
    - apply Nat.ltb_lt in C2. rewrite less_eq by lia. cbn [obind].
      destruct (lt _ _); apply Tail; lia.
    - cbn [obind]. apply Tail; lia.
  Qed.

  Lemma heap_build_safe hi first : forall k s, first + hi <= length s ->
    exists s', heap_build lt k hi first s = Ok s' /\ length s' = length s.
  Proof.
    induction k as [|k IH]; intros s H; cbn [heap_build]; [eauto|].
    destruct (sift_down_safe hi first (S hi) k s) as (s1 & E1 & L1); [lia|lia|].
    rewrite E1. cbn [obind].
    destruct (IH s1) as (s' & E & L); [lia|]. exists s'. split; auto. lia.
  Qed.

  Lemma heap_pop_safe first : forall k s, first + k <= length s ->
    exists s', heap_pop lt k 0 first s = Ok s' /\ length s' = length s.
  Proof.
    induction k as [|k IH]; intros s H; cbn [heap_pop]; [eauto|].
    rewrite swap_eq by lia. cbn [obind].
    destruct (sift_down_safe k first (S k) 0 (swapl s first (first + k))) as (s1 & E1 & L1);
      [len|lia|].
    rewrite E1. cbn [obind].
    destruct (IH s1) as (s' & E & L); [len|]. exists s'. split; auto. len.
  Qed.

  Lemma heap_sort_safe a b s : a <= b -> b <= length s ->
    exists s', heap_sort lt a b s = Ok s' /\ length s' = length s.
  Proof.
    intros Hab Hb. unfold heap_sort. kunf.
    destruct (heap_build_safe (b - a) a (S ((b - a - 1) / 2)) s) as (s1 & E1 & L1); [lia|].
    rewrite E1. cbn [obind].
    replace (if 1 <=? b - a then S (b - a - 1) else 0) with (b - a)
      by (destruct (1 <=? b - a) eqn:C; [apply Nat.leb_le in C|apply Nat.leb_gt in C]; lia).
    destruct (heap_pop_safe a (b - a) s1) as (s' & E & L); [lia|].
    exists s'. split; auto. lia.
  Qed.

  (* ---------------------------------------------------------------- doPivot *)
  Lemma median_of_three_safe m1 m0 m2 s :
    m1 < length s -> m0 < length s -> m2 < length s ->
    exists s', median_of_three lt m1 m0 m2 s = Ok s' /\ length s' = length s.
  Proof.
    intros H1 H0 H2. unfold median_of_three.
    rewrite less_eq by lia. cbn [obind].
    assert (E1 : exists s1, (if lt (nth m1 s 0) (nth m0 s 0) then swap s m1 m0 else Ok s) = Ok s1
                            /\ length s1 = length s).
    { destruct (lt _ _); [rewrite swap_eq by lia; eexists; split; eauto; len|eauto]. }
    destruct E1 as (s1 & -> & L1). cbn [obind].
    rewrite less_eq by lia. cbn [obind].
    destruct (lt _ _); [|eauto].
    rewrite swap_eq by lia. cbn [obind].
    rewrite less_eq by len. cbn [obind].
    destruct (lt _ _).
    - rewrite swap_eq by len. eexists; split; eauto. len.
    - eexists; split; eauto. len.
  Qed.

  (* for ; i < bound && test(i); i++ {} *)
  Lemma scan_up_safe (test : nat -> outcome bool) bound : forall fuel i,
    bound - i < fuel ->
    (forall p, i <= p < bound -> exists r, test p = Ok r) ->
    exists r, scan_up fuel test i bound = Ok r /\ i <= r <= Nat.max i bound /\
              (forall p, i <= p < r -> test p = Ok true) /\
              (r < bound -> test r = Ok false).
  Proof.
    induction fuel as [|f IH]; intros i Hf Ht; [lia|]. cbn [scan_up].
    destruct (i <? bound) eqn:C.
    - apply Nat.ltb_lt in C. destruct (Ht i) as (r0 & E0); [lia|]. rewrite E0. cbn [obind].
      destruct r0.
      + destruct (IH (S i)) as (r & E & R1 & R2 & R3); [lia|intros; apply Ht; lia|].
        exists r. repeat split; auto; try lia.
        intros p Hp. destruct (Nat.eq_dec p i) as [->|]; auto. apply R2. lia.
      + exists i. repeat split; auto; try lia; try (intros; lia).
    - apply Nat.ltb_ge in C. exists i. repeat split; auto; try lia; try (intros; lia).
  Qed.

  (* for ; bound < i && test(i); i-- {} *)
  Lemma scan_down_safe (test : nat -> outcome bool) bound : forall i,
    (forall p, bound < p <= i -> exists r, test p = Ok r) ->
    exists r, scan_down test i bound = Ok r /\ Nat.min i bound <= r <= i /\
              (forall p, r < p <= i -> test p = Ok true) /\
              (bound < r -> test r = Ok false).
  Proof.
    induction i as [|i IH]; intros Ht; cbn [scan_down].
    - exists 0. repeat split; auto; try lia; try (intros; lia).
    - destruct (bound <? S i) eqn:C.
      + apply Nat.ltb_lt in C. destruct (Ht (S i)) as (r0 & E0); [lia|]. rewrite E0. cbn [obind].
        destruct r0.
        * destruct IH as (r & E & R1 & R2 & R3); [intros; apply Ht; lia|].
          exists r. repeat split; auto; try lia.
          intros p Hp. destruct (Nat.eq_dec p (S i)) as [->|]; auto. apply R2. lia.
        * exists (S i). repeat split; auto; try lia; try (intros; lia).
      + apply Nat.ltb_ge in C. exists (S i). repeat split; auto; try lia; try (intros; lia).
  Qed.

  Lemma dp_main_safe pivot : forall fuel b c s,
    pivot < length s -> c <= length s -> c - b < fuel ->
    exists b' c' s', dp_main lt fuel pivot b c s = Ok (b', c', s') /\ length s' = length s /\
      b <= b' <= Nat.max b c /\ Nat.min b c <= c' <= c /\ c' <= b'.
  Proof.
    induction fuel as [|f IH]; intros b c s Hp Hc Hf; [lia|]. cbn [dp_main]. kunf.
    destruct (scan_up_safe (fun b0 => do r <- less lt s pivot b0; Ok (negb r)) c (S c) b)
      as (b1 & E1 & R1 & _); [lia| |].
    { intros p Hp'. rewrite less_eq by lia. cbn [obind]. eauto. }
    rewrite E1. cbn [obind].
    destruct (scan_down_safe (fun c0 => less lt s pivot (c0 - 1)) b1 c) as (c1 & E2 & R2 & _).
    { intros p Hp'. rewrite less_eq by lia. eauto. }
    rewrite E2. cbn [obind].
    destruct (c1 <=? b1) eqn:C.
    - apply Nat.leb_le in C. exists b1, c1, s. repeat split; auto; lia.
    - apply Nat.leb_gt in C. rewrite swap_eq by lia. cbn [obind].
      destruct (IH (S b1) (c1 - 1) (swapl s b1 (c1 - 1))) as (b' & c' & s' & E & L & Rb & Rc & Rbc);
        [len|len|lia|].
      exists b', c', s'. repeat split; auto; try len.
  Qed.

  Lemma dp_protect_safe pivot : forall fuel a b s,
    pivot < length s -> b <= length s -> b - a < fuel ->
    exists a' b' s', dp_protect lt fuel pivot a b s = Ok (a', b', s') /\ length s' = length s /\
      a <= a' /\ Nat.min a b <= b' <= b.
  Proof.
    induction fuel as [|f IH]; intros a b s Hp Hb Hf; [lia|]. cbn [dp_protect]. kunf.
    destruct (scan_down_safe (fun b0 => do r <- less lt s (b0 - 1) pivot; Ok (negb r)) a b)
      as (b1 & E1 & R1 & _).
    { intros p Hp'. rewrite less_eq by lia. cbn [obind]. eauto. }
    rewrite E1. cbn [obind].
    destruct (scan_up_safe (fun a0 => less lt s a0 pivot) b1 (S b1) a) as (a1 & E2 & R2 & _); [lia| |].
    { intros p Hp'. rewrite less_eq by lia. eauto. }
    rewrite E2. cbn [obind].
    destruct (b1 <=? a1) eqn:C.
    - apply Nat.leb_le in C. exists a1, b1, s. repeat split; auto; lia.
    - apply Nat.leb_gt in C. rewrite swap_eq by lia. cbn [obind].
      destruct (IH (S a1) (b1 - 1) (swapl s a1 (b1 - 1))) as (a' & b' & s' & E & L & Ra & Rb);
        [len|len|lia|].
      exists a', b', s'. repeat split; auto; try len.
  Qed.

  Lemma dp_choose_pivot_safe lo hi s :
    2 <= hi - lo -> hi <= length s ->
    exists s', dp_choose_pivot lt lo hi ((lo + hi) / 2) s = Ok s' /\ length s' = length s.
  Proof.
    intros Hn Hh. unfold dp_choose_pivot. kunf.
    assert (Tail : forall s0, length s0 = length s ->
              exists s', median_of_three lt lo ((lo + hi) / 2) (hi - 1) s0 = Ok s'
                         /\ length s' = length s).
    { intros s0 L0.
      destruct (median_of_three_safe lo ((lo + hi) / 2) (hi - 1) s0) as (s1 & E1 & L1);
        [lia|lia|lia|].
      exists s1. split; auto. lia. }
    destruct (40 <? hi - lo) eqn:C; cbv zeta; cbn [obind]; [|apply Tail; reflexivity].
    apply Nat.ltb_lt in C.
    destruct (median_of_three_safe lo (lo + (hi - lo) / 8) (lo + 2 * ((hi - lo) / 8)) s)
      as (s1 & E1 & L1); [lia|lia|lia|]. rewrite E1. cbn [obind].
    destruct (median_of_three_safe ((lo + hi) / 2) ((lo + hi) / 2 - (hi - lo) / 8)
                ((lo + hi) / 2 + (hi - lo) / 8) s1) as (s2 & E2 & L2); [lia|lia|lia|].
    rewrite E2. cbn [obind].
    destruct (median_of_three_safe (hi - 1) (hi - 1 - (hi - lo) / 8)
                (hi - 1 - 2 * ((hi - lo) / 8)) s2) as (s3 & E3 & L3); [lia|lia|lia|].
    rewrite E3. cbn [obind]. apply Tail. lia.
  Qed.

  (* the block is entered with hi-c >= 5, hi-c < (hi-lo)/4 and c <= b: b-1 and b-2 stay far above lo *)
  Lemma dp_dups_safe lo hi m b c s :
    lo < hi -> hi <= length s -> lo <= m < hi -> lo + 3 <= b -> b <= hi -> c < hi ->
    exists p b' c' s', dp_dups lt lo hi m b c s = Ok (p, b', c', s') /\ length s' = length s /\
      b - 2 <= b' <= b /\ c <= c' <= S c.
  Proof.
    intros Hlh Hh Hm Hb Hb' Hc. unfold dp_dups. kunf.
    rewrite less_eq by lia. cbn [obind].
    assert (E1 : exists c1 d1 s1,
      (if negb (lt (nth lo s 0) (nth (hi - 1) s 0))
       then do s' <- swap s c (hi - 1); Ok (S c, 1, s') else Ok (c, 0, s)) = Ok (c1, d1, s1)
      /\ length s1 = length s /\ c <= c1 <= S c).
    { destruct (negb _).
      - rewrite swap_eq by lia. cbn [obind]. do 3 eexists. split; [reflexivity|]. split; [len|lia].
      - do 3 eexists. split; [reflexivity|]. split; lia. }
    destruct E1 as (c1 & d1 & s1 & -> & L1 & Rc). cbn [obind].
    rewrite less_eq by lia. cbn [obind].
    set (bd := if negb (lt (nth (b - 1) s1 0) (nth lo s1 0)) then (b - 1, S d1) else (b, d1)).
    assert (Hbd : b - 1 <= fst bd <= b) by (subst bd; destruct (negb _); cbn; lia).
    destruct bd as [b1 d2]. cbn [fst] in Hbd.
    rewrite less_eq by lia. cbn [obind].
    destruct (negb _).
    - rewrite swap_eq by lia. cbn [obind]. do 4 eexists. split; [reflexivity|]. split; [len|lia].
    - do 4 eexists. split; [reflexivity|]. split; lia.
  Qed.

  Lemma do_pivot_safe lo hi s :
    12 < hi - lo -> hi <= length s ->
    exists mlo mhi s', do_pivot lt lo hi s = Ok (mlo, mhi, s') /\ length s' = length s /\
      lo <= mlo < hi /\ lo < mhi <= hi.
  Proof.
    intros Hn Hh. unfold do_pivot. kunf.
    destruct (dp_choose_pivot_safe lo hi s) as (s0 & E0 & L0); [lia|lia|]. rewrite E0. cbn [obind].
    destruct (scan_up_safe (fun a => less lt s0 a lo) (hi - 1) (S (hi - 1)) (lo + 1))
      as (a1 & E1 & R1 & _); [lia| |].
    { intros p Hp. rewrite less_eq by lia. eauto. }
    rewrite E1. cbn [obind].
    destruct (dp_main_safe lo (S hi) a1 (hi - 1) s0) as (b1 & c1 & s1 & E2 & L2 & Rb & Rc & Rbc);
      [lia|lia|lia|].
    rewrite E2. cbn [obind].
    (* lo+1 <= a1 <= b1 <= hi-1, a1 <= c1 <= hi-1, c1 <= b1 *)
    assert (E3 : exists p b2 c2 s2,
      (if negb (hi - c1 <? 5) && (hi - c1 <? (hi - lo) / 4)
       then dp_dups lt lo hi ((lo + hi) / 2) b1 c1 s1
       else Ok (hi - c1 <? 5, b1, c1, s1)) = Ok (p, b2, c2, s2)
      /\ length s2 = length s1 /\ lo + 1 <= b2 <= b1 /\ c1 <= c2 <= hi).
    { destruct (negb (hi - c1 <? 5) && (hi - c1 <? (hi - lo) / 4)) eqn:C.
      - apply andb_true_iff in C as [C1 C2]. apply negb_true_iff, Nat.ltb_ge in C1.
        apply Nat.ltb_lt in C2.
        destruct (dp_dups_safe lo hi ((lo + hi) / 2) b1 c1 s1) as (p & b2 & c2 & s2 & E & L & Rb2 & Rc2);
          [lia|lia|lia|lia|lia|lia|].
        exists p, b2, c2, s2. repeat split; auto; lia.
      - do 4 eexists. split; [reflexivity|]. repeat split; lia. }
    destruct E3 as (p & b2 & c2 & s2 & -> & L3 & Rb2 & Rc2). cbn [obind].
    assert (E4 : exists a3 b3 s3,
      (if p then dp_protect lt (S hi) lo a1 b2 s2 else Ok (a1, b2, s2)) = Ok (a3, b3, s3)
      /\ length s3 = length s2 /\ lo + 1 <= b3 <= b2).
    { destruct p.
      - destruct (dp_protect_safe lo (S hi) a1 b2 s2) as (a3 & b3 & s3 & E & L & Ra & Rb3);
          [lia|lia|lia|].
        exists a3, b3, s3. repeat split; auto; lia.
      - do 3 eexists. split; [reflexivity|]. repeat split; lia. }
    destruct E4 as (a3 & b3 & s3 & -> & L4 & Rb3). cbn [obind].
    rewrite swap_eq by lia. cbn [obind].
    do 3 eexists. split; [reflexivity|]. split; [len|lia].
  Qed.

  (* ---------------------------------------------------------------- quickSort *)
  Lemma shell_pass_safe : forall k i s, (0 < k -> i + k <= length s) ->
    exists s', shell_pass lt k i s = Ok s' /\ length s' = length s.
  Proof.
    induction k as [|k IH]; intros i s H; cbn [shell_pass]; [eauto|]. kunf.
    rewrite less_eq by lia. cbn [obind].
    assert (E1 : exists s1, (if lt (nth i s 0) (nth (i - 6) s 0) then swap s i (i - 6) else Ok s)
                            = Ok s1 /\ length s1 = length s).
    { destruct (lt _ _); [rewrite swap_eq by lia; eexists; split; eauto; len|eauto]. }
    destruct E1 as (s1 & -> & L1). cbn [obind].
    destruct (IH (S i) s1) as (s' & E & L); [lia|]. exists s'. split; auto. lia.
  Qed.

  Lemma quick_sort_safe : forall fuel a b d s,
    a <= b -> b <= length s -> b - a < fuel ->
    exists s', quick_sort lt fuel a b d s = Ok s' /\ length s' = length s.
  Proof.
    induction fuel as [|f IH]; intros a b d s Hab Hb Hf; [lia|]. cbn [quick_sort].
    destruct (k_ins_max <? b - a) eqn:C.
    - unfold k_ins_max in C. apply Nat.ltb_lt in C.
      destruct (d =? k_depth_zero); [apply heap_sort_safe; lia|].
      destruct (do_pivot_safe a b s) as (mlo & mhi & s1 & E1 & L1 & Rlo & Rhi); [lia|lia|].
      rewrite E1. cbn [obind].
      destruct (mlo - a <? b - mhi).
      + destruct (IH a mlo (d - 1) s1) as (s2 & E2 & L2); [lia|lia|lia|]. rewrite E2. cbn [obind].
        destruct (IH mhi b (d - 1) s2) as (s3 & E3 & L3); [lia|lia|lia|].
        exists s3. split; auto. lia.
      + destruct (IH mhi b (d - 1) s1) as (s2 & E2 & L2); [lia|lia|lia|]. rewrite E2. cbn [obind].
        destruct (IH a mlo (d - 1) s2) as (s3 & E3 & L3); [lia|lia|lia|].
        exists s3. split; auto. lia.
    - destruct (k_qs_one <? b - a); [|eauto].
      destruct (shell_pass_safe (b - (a + k_gap_a)) (a + k_gap_a) s) as (s1 & E1 & L1); [kunf; lia|].
      rewrite E1. cbn [obind].
      destruct (insertion_sort_safe a b s1) as (s2 & E2 & L2); [lia|].
      exists s2. split; auto. lia.
  Qed.

  Lemma max_depth_loop_safe : forall fuel i depth, i < fuel ->
    exists d, max_depth_loop fuel i depth = Ok d.
  Proof.
    induction fuel as [|f IH]; intros i depth H; [lia|]. cbn [max_depth_loop]. kunf.
    destruct (0 <? i) eqn:C; [|eauto]. apply Nat.ltb_lt in C. apply IH. lia.
  Qed.

  Theorem sort_ids_safe ids : exists out, sort_ids lt ids = Ok out /\ length out = length ids.
  Proof.
    unfold sort_ids, max_depth.
    destruct (max_depth_loop_safe (S (length ids)) (length ids) 0) as (d & ->); [lia|]. cbn [obind].
    apply quick_sort_safe; lia.
  Qed.

  Corollary sort_ids_no_panic ids : sort_ids lt ids <> Panic /\ sort_ids lt ids <> Fail.
  Proof. destruct (sort_ids_safe ids) as (out & -> & _). split; discriminate. Qed.
End Safe.
