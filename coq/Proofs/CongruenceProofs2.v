(* Proofs/CongruenceProofs2.v — property C09, "yields Equal results under every operation", for the operations
   Proofs/CongruenceProofs.v leaves open: Sort (Model/SortFrame.v sort_frame), Distinct, GroupBy, Aggregate and
   QFrames (Model/Aggregate.v distinct / group_by / aggregate / qframes).

   Method.  The sorter (Model/Sort.v) and the hash table (Model/Grouper.v) never look inside a row id: the sorter
   only asks Less for the ids found in two SLOTS of the index and swaps slots, the table only asks equals / hash
   for ids and stores them.  Both are therefore parametric in the ids: run on two id lists whose slots are paired
   by a relation R, with Less / equals / hash answering alike on paired ids, they make the same decisions and
   return id lists (groups) paired slot by slot.  For two frames with the same logical table the slots of the two
   row indexes are paired (R = "sits in the same slot", the list combine (ix f) (ix g) of CongruenceProofs.v), and
   paired rows hold the same cells: so the results have the same logical table again - exactly, ties included. *)
From QF Require Import Base.Prelude Gen.GenConsts Model.Frame Model.Filter Model.Ops Model.TableSpec.
From QF Require Import Model.Sort Model.SortFrame.
From QF Require Import Proofs.OpsProofs Proofs.OpsProofs2 Proofs.NoPanicProofs Proofs.CongruenceProofs.
Local Open Scope nat_scope.

(* ------------------------------------------------------------------ two outcomes related by S *)

Definition osim {A B} (S : A -> B -> Prop) (o1 : outcome A) (o2 : outcome B) : Prop :=
  match o1, o2 with
  | Ok a, Ok b => S a b
  | Fail, Fail => True
  | Panic, Panic => True
  | _, _ => False
  end.

Lemma osim_bind {A B C D} (S : A -> B -> Prop) (T : C -> D -> Prop) o1 o2 k1 k2 :
  osim S o1 o2 -> (forall a b, S a b -> osim T (k1 a) (k2 b)) -> osim T (obind o1 k1) (obind o2 k2).
Proof. intros H K. destruct o1, o2; cbn [osim obind] in *; try contradiction; auto. Qed.

Lemma osim_ok {A B} (S : A -> B -> Prop) a b : S a b -> osim S (Ok a) (Ok b).
Proof. intro H. exact H. Qed.

Lemma osim_eq {A} (o1 o2 : outcome A) : osim eq o1 o2 -> o1 = o2.
Proof. destruct o1, o2; cbn [osim]; intro H; try contradiction; congruence. Qed.

Lemma osim_refl_eq {A} (o : outcome A) : osim eq o o.
Proof. destruct o; cbn [osim]; auto. Qed.

Lemma osim_impl {A B} (S T : A -> B -> Prop) o1 o2 : (forall a b, S a b -> T a b) -> osim S o1 o2 -> osim T o1 o2.
Proof. intros H. destruct o1, o2; cbn [osim]; auto. Qed.

Lemma F2_len {A B} (R : A -> B -> Prop) l1 l2 : Forall2 R l1 l2 -> length l1 = length l2.
Proof. induction 1; simpl; congruence. Qed.

(* ------------------------------------------------------------------ the sorter is parametric in the row ids *)

Section SorterSim.
  Variable R : nat -> nat -> Prop.
  Variables lt1 lt2 : nat -> nat -> bool.
  Hypothesis Hlt : forall p q p' q', R p q -> R p' q' -> lt1 p p' = lt2 q q'.

  Notation LR := (Forall2 R).
  Definition T3 (x y : nat * nat * list nat) : Prop :=
    fst (fst x) = fst (fst y) /\ snd (fst x) = snd (fst y) /\ LR (snd x) (snd y).
  Definition T4 (x y : bool * nat * nat * list nat) : Prop :=
    fst x = fst y /\ LR (snd x) (snd y).

  Lemma idx_sim s1 s2 i : LR s1 s2 -> osim R (idx s1 i) (idx s2 i).
  Proof.
    intro H. revert i. induction H as [|p q s1 s2 Hpq _ IH]; intros [|i]; cbn [idx nth_error of_option osim]; auto.
    apply IH.
  Qed.

  Lemma set_nth_sim s1 s2 i p q : LR s1 s2 -> R p q -> LR (set_nth s1 i p) (set_nth s2 i q).
  Proof.
    intros H Hpq. revert i. induction H as [|a b s1 s2 Hab Hs IH]; intros [|i]; cbn [set_nth]; constructor; auto.
  Qed.

  Lemma less_sim s1 s2 i j : LR s1 s2 -> osim eq (less lt1 s1 i j) (less lt2 s2 i j).
  Proof.
    intro H. unfold less. eapply osim_bind; [apply idx_sim; exact H|]. intros a b Hab.
    eapply osim_bind; [apply idx_sim; exact H|]. intros a' b' Hab'. cbn [osim]. apply Hlt; assumption.
  Qed.

  Lemma swap_sim s1 s2 i j : LR s1 s2 -> osim LR (swap s1 i j) (swap s2 i j).
  Proof.
    intro H. unfold swap. eapply osim_bind; [apply idx_sim; exact H|]. intros a b Hab.
    eapply osim_bind; [apply idx_sim; exact H|]. intros a' b' Hab'. cbn [osim].
    apply set_nth_sim; [apply set_nth_sim|]; assumption.
  Qed.

  (* one step of a simulation proof: a bind of two related computations, a test both sides make alike *)
  Ltac sim_bind L := eapply osim_bind; [first [apply L | eapply L]; eauto|].

  Lemma ins_inner_sim a : forall j s1 s2, LR s1 s2 -> osim LR (ins_inner lt1 a j s1) (ins_inner lt2 a j s2).
  Proof.
    induction j as [|j IH]; intros s1 s2 H; cbn [ins_inner]; [exact H|].
    destruct (a <? S j); [|exact H].
    sim_bind less_sim. intros c c' <-. destruct c; [|exact H].
    sim_bind swap_sim. intros t1 t2 Ht. apply IH. exact Ht.
  Qed.

  Lemma ins_outer_sim a : forall k i s1 s2, LR s1 s2 -> osim LR (ins_outer lt1 k a i s1) (ins_outer lt2 k a i s2).
  Proof.
    induction k as [|k IH]; intros i s1 s2 H; cbn [ins_outer]; [exact H|].
    sim_bind ins_inner_sim. intros t1 t2 Ht. apply IH. exact Ht.
  Qed.

  Lemma insertion_sort_sim a b s1 s2 : LR s1 s2 -> osim LR (insertion_sort lt1 a b s1) (insertion_sort lt2 a b s2).
  Proof. intro H. unfold insertion_sort. apply ins_outer_sim. exact H. Qed.

  Lemma sift_down_sim hi first : forall fuel root s1 s2, LR s1 s2 ->
    osim LR (sift_down lt1 fuel root hi first s1) (sift_down lt2 fuel root hi first s2).
  Proof.
    induction fuel as [|fuel IH]; intros root s1 s2 H; cbn [sift_down]; [exact I|].
    destruct (hi <=? k_sd_two * root + k_sd_one_a); [exact H|].
    eapply osim_bind with (S := eq).
    { destruct (k_sd_two * root + k_sd_one_a + k_sd_one_b <? hi); [apply less_sim; exact H|reflexivity]. }
    intros c1 c1' <-.
    sim_bind less_sim. intros c2 c2' <-. destruct (negb c2); [exact H|].
    sim_bind swap_sim. intros t1 t2 Ht. apply IH. exact Ht.
  Qed.

  Lemma heap_build_sim hi first : forall k s1 s2, LR s1 s2 ->
    osim LR (heap_build lt1 k hi first s1) (heap_build lt2 k hi first s2).
  Proof.
    induction k as [|k IH]; intros s1 s2 H; cbn [heap_build]; [exact H|].
    sim_bind sift_down_sim. intros t1 t2 Ht. apply IH. exact Ht.
  Qed.

  Lemma heap_pop_sim lo first : forall k s1 s2, LR s1 s2 ->
    osim LR (heap_pop lt1 k lo first s1) (heap_pop lt2 k lo first s2).
  Proof.
    induction k as [|k IH]; intros s1 s2 H; cbn [heap_pop]; [exact H|].
    sim_bind swap_sim. intros t1 t2 Ht.
    sim_bind sift_down_sim. intros u1 u2 Hu. apply IH. exact Hu.
  Qed.

  Lemma heap_sort_sim a b s1 s2 : LR s1 s2 -> osim LR (heap_sort lt1 a b s1) (heap_sort lt2 a b s2).
  Proof.
    intro H. unfold heap_sort. sim_bind heap_build_sim. intros t1 t2 Ht. apply heap_pop_sim. exact Ht.
  Qed.

  Lemma median_of_three_sim m1 m0 m2 s1 s2 : LR s1 s2 ->
    osim LR (median_of_three lt1 m1 m0 m2 s1) (median_of_three lt2 m1 m0 m2 s2).
  Proof.
    intro H. unfold median_of_three. sim_bind less_sim. intros c1 c1' <-.
    eapply osim_bind with (S := LR). { destruct c1; [apply swap_sim; exact H|exact H]. }
    intros t1 t2 Ht. sim_bind less_sim. intros c2 c2' <-. destruct c2; [|exact Ht].
    sim_bind swap_sim. intros u1 u2 Hu. sim_bind less_sim. intros c3 c3' <-.
    destruct c3; [apply swap_sim; exact Hu|exact Hu].
  Qed.

  Lemma scan_up_sim (test1 test2 : nat -> outcome bool) bound :
    (forall i, osim eq (test1 i) (test2 i)) ->
    forall fuel i, osim eq (scan_up fuel test1 i bound) (scan_up fuel test2 i bound).
  Proof.
    intro Ht. induction fuel as [|fuel IH]; intro i; cbn [scan_up]; [exact I|].
    destruct (i <? bound); [|reflexivity].
    eapply osim_bind; [apply Ht|]. intros r r' <-. destruct r; [apply IH|reflexivity].
  Qed.

  Lemma scan_down_sim (test1 test2 : nat -> outcome bool) bound :
    (forall i, osim eq (test1 i) (test2 i)) ->
    forall i, osim eq (scan_down test1 i bound) (scan_down test2 i bound).
  Proof.
    intro Ht. induction i as [|i IH]; cbn [scan_down]; [reflexivity|].
    destruct (bound <? S i); [|reflexivity].
    eapply osim_bind; [apply Ht|]. intros r r' <-. destruct r; [apply IH|reflexivity].
  Qed.

  Lemma neg_less_sim s1 s2 i j : LR s1 s2 ->
    osim eq (do r <- less lt1 s1 i j; Ok (negb r)) (do r <- less lt2 s2 i j; Ok (negb r)).
  Proof. intro H. sim_bind less_sim. intros r r' <-. reflexivity. Qed.

  Lemma dp_main_sim pivot : forall fuel b c s1 s2, LR s1 s2 ->
    osim T3 (dp_main lt1 fuel pivot b c s1) (dp_main lt2 fuel pivot b c s2).
  Proof.
    induction fuel as [|fuel IH]; intros b c s1 s2 H; cbn [dp_main]; [exact I|].
    eapply osim_bind with (S := eq).
    { apply scan_up_sim. intro i. apply neg_less_sim. exact H. }
    intros b1 b1' <-.
    eapply osim_bind with (S := eq).
    { apply scan_down_sim. intro i. apply less_sim. exact H. }
    intros c1 c1' <-.
    destruct (c1 <=? b1); [split; [reflexivity|split; [reflexivity|exact H]]|].
    sim_bind swap_sim. intros t1 t2 Ht. apply IH. exact Ht.
  Qed.

  Lemma dp_protect_sim pivot : forall fuel a b s1 s2, LR s1 s2 ->
    osim T3 (dp_protect lt1 fuel pivot a b s1) (dp_protect lt2 fuel pivot a b s2).
  Proof.
    induction fuel as [|fuel IH]; intros a b s1 s2 H; cbn [dp_protect]; [exact I|].
    eapply osim_bind with (S := eq).
    { apply scan_down_sim. intro i. apply neg_less_sim. exact H. }
    intros b1 b1' <-.
    eapply osim_bind with (S := eq).
    { apply scan_up_sim. intro i. apply less_sim. exact H. }
    intros a1 a1' <-.
    destruct (b1 <=? a1); [split; [reflexivity|split; [reflexivity|exact H]]|].
    sim_bind swap_sim. intros t1 t2 Ht. apply IH. exact Ht.
  Qed.

  Lemma dp_choose_pivot_sim lo hi m s1 s2 : LR s1 s2 ->
    osim LR (dp_choose_pivot lt1 lo hi m s1) (dp_choose_pivot lt2 lo hi m s2).
  Proof.
    intro H. unfold dp_choose_pivot.
    eapply osim_bind with (S := LR); [|intros t1 t2 Ht; apply median_of_three_sim; exact Ht].
    destruct (k_ninther_min <? hi - lo); [|exact H].
    sim_bind median_of_three_sim. intros t1 t2 Ht.
    sim_bind median_of_three_sim. intros u1 u2 Hu.
    apply median_of_three_sim. exact Hu.
  Qed.

  Lemma dp_dups_sim lo hi m b c s1 s2 : LR s1 s2 ->
    osim T4 (dp_dups lt1 lo hi m b c s1) (dp_dups lt2 lo hi m b c s2).
  Proof.
    intro H. unfold dp_dups. sim_bind less_sim. intros r1 r1' <-.
    eapply osim_bind with (S := T3).
    { destruct (negb r1).
      - sim_bind swap_sim. intros t1 t2 Ht. split; [reflexivity|split; [reflexivity|exact Ht]].
      - split; [reflexivity|split; [reflexivity|exact H]]. }
    intros [[c1 d1] t1] [[c2 d2] t2] [E1 [E2 Ht]]. cbn [fst snd] in E1, E2, Ht. subst c2 d2.
    sim_bind less_sim. intros r2 r2' <-.
    destruct (if negb r2 then (b - 1, S d1) else (b, d1)) as [b2 d2].
    sim_bind less_sim. intros r3 r3' <-.
    eapply osim_bind with (S := T3).
    { destruct (negb r3).
      - sim_bind swap_sim. intros u1 u2 Hu. split; [reflexivity|split; [reflexivity|exact Hu]].
      - split; [reflexivity|split; [reflexivity|exact Ht]]. }
    intros [[b3 d3] u1] [[b4 d4] u2] [E1 [E2 Hu]]. cbn [fst snd] in E1, E2, Hu. subst b4 d4.
    split; [reflexivity|exact Hu].
  Qed.

  Lemma do_pivot_sim lo hi s1 s2 : LR s1 s2 -> osim T3 (do_pivot lt1 lo hi s1) (do_pivot lt2 lo hi s2).
  Proof.
    intro H. unfold do_pivot. sim_bind dp_choose_pivot_sim. intros t1 t2 Ht.
    eapply osim_bind with (S := eq).
    { apply scan_up_sim. intro i. apply less_sim. exact Ht. }
    intros a a' <-.
    sim_bind dp_main_sim. intros [[b c] u1] [[b' c'] u2] [E1 [E2 Hu]]. cbn [fst snd] in E1, E2, Hu. subst b' c'.
    eapply osim_bind with (S := T4).
    { destruct (negb (hi - c <? k_protect) && (hi - c <? (hi - lo) / k_quarter)).
      - apply dp_dups_sim. exact Hu.
      - split; [reflexivity|exact Hu]. }
    intros [[[pr b1] c1] v1] [[[pr' b1'] c1'] v2] [E Hv]. cbn [fst snd] in E, Hv. inversion E; subst pr' b1' c1'.
    eapply osim_bind with (S := T3).
    { destruct pr; [apply dp_protect_sim; exact Hv|split; [reflexivity|split; [reflexivity|exact Hv]]]. }
    intros [[a2 b2] w1] [[a2' b2'] w2] [E1 [E2 Hw]]. cbn [fst snd] in E1, E2, Hw. subst a2' b2'.
    sim_bind swap_sim. intros x1 x2 Hx. split; [reflexivity|split; [reflexivity|exact Hx]].
  Qed.

  Lemma shell_pass_sim : forall k i s1 s2, LR s1 s2 -> osim LR (shell_pass lt1 k i s1) (shell_pass lt2 k i s2).
  Proof.
    induction k as [|k IH]; intros i s1 s2 H; cbn [shell_pass]; [exact H|].
    sim_bind less_sim. intros c c' <-.
    eapply osim_bind with (S := LR). { destruct c; [apply swap_sim; exact H|exact H]. }
    intros t1 t2 Ht. apply IH. exact Ht.
  Qed.

  Lemma quick_sort_sim : forall fuel a b d s1 s2, LR s1 s2 ->
    osim LR (quick_sort lt1 fuel a b d s1) (quick_sort lt2 fuel a b d s2).
  Proof.
    induction fuel as [|fuel IH]; intros a b d s1 s2 H; cbn [quick_sort]; [exact I|].
    destruct (k_ins_max <? b - a).
    - destruct (d =? k_depth_zero); [apply heap_sort_sim; exact H|].
      sim_bind do_pivot_sim. intros [[mlo mhi] t1] [[mlo' mhi'] t2] [E1 [E2 Ht]]. cbn [fst snd] in E1, E2, Ht. subst mlo' mhi'.
      destruct (mlo - a <? b - mhi).
      + eapply osim_bind; [apply IH; exact Ht|]. intros u1 u2 Hu. apply IH. exact Hu.
      + eapply osim_bind; [apply IH; exact Ht|]. intros u1 u2 Hu. apply IH. exact Hu.
    - destruct (k_qs_one <? b - a); [|exact H].
      sim_bind shell_pass_sim. intros t1 t2 Ht. apply insertion_sort_sim. exact Ht.
  Qed.

  (* Sorter.Sort(): the two runs make the same decisions, the results are paired slot by slot *)
  Theorem sort_ids_sim s1 s2 : LR s1 s2 -> osim LR (sort_ids lt1 s1) (sort_ids lt2 s2).
  Proof.
    intro H. unfold sort_ids. rewrite (F2_len _ _ _ H).
    eapply osim_bind with (S := eq); [apply osim_refl_eq|]. intros d d' <-.
    apply quick_sort_sim. exact H.
  Qed.
End SorterSim.

(* ------------------------------------------------------------------ the columns as the comparators see them *)

From QF Require Import Model.FilterSpec Proofs.FilterTypedFrame.
From QF Require Proofs.SortFrameProofs.

(* what the same table gives for every column name once the enum value lists agree (CongruenceProofs.v fcol_sim):
   the same type and, at paired positions, the same physical value - for enum columns the same RANK *)
Lemma lookup_fcol_sim f g t :
  abs f = Ok t -> abs g = Ok t -> ferr f = ferr g -> wf_frame f = true -> wf_frame g = true ->
  enum_metas f = enum_metas g -> enum_nodup_b f = true ->
  forall name,
    match lookup_col f name, lookup_col g name with
    | None, None => True
    | Some c1, Some c2 => fcol_sim (combine (ix f) (ix g)) (phys_len f) (phys_len g) c1 c2
    | _, _ => False
    end.
Proof.
  intros Hf Hg He Hw1 Hw2 Hm Hnd name.
  destruct (rel_of_abs f g t Hf Hg He Hw1 Hw2) as [HR Hl]. set (L := combine (ix f) (ix g)) in *.
  assert (H3 : Forall (fun nc : bytes * coldata => enum_nodup_col (snd nc)) (cols f)).
  { apply Forall_forall. intros [m c0] Hin. unfold enum_nodup_b in Hnd. rewrite forallb_forall in Hnd.
    specialize (Hnd _ Hin). cbn [snd] in *. destruct c0; try exact I.
    apply (FilterTypedFrame.nodupb_ok bytes_eqb bytes_eqb_spec). exact Hnd. }
  pose proof (cols_fsim L (phys_len f) (phys_len g) (cols f) (cols g) (r_cols _ _ _ HR) Hm
                (proj1 (r_wf1 _ _ _ HR)) (proj1 (r_wf2 _ _ _ HR)) H3) as HF.
  pose proof (lookup_from_rel (fcol_sim L (phys_len f) (phys_len g)) name (cols f) (cols g) 0 None None HF I) as Hl0.
  unfold lookup_col, lookup, optrel in *.
  destruct (lookup_from name (cols f) 0 None) as [[k1 c1]|], (lookup_from name (cols g) 0 None) as [[k2 c2]|];
    cbn [option_map snd]; exact Hl0.
Qed.

Definition raw_same (c1 c2 : coldata) (p q : nat) : Prop :=
  exists v, raw_kval c1 p = Ok v /\ raw_kval c2 q = Ok v.

Lemma raw_same_int d1 d2 p q : raw_same (ICol d1) (ICol d2) p q -> nth p d1 0%Z = nth q d2 0%Z.
Proof.
  intros [v [H1 H2]]. cbn [raw_kval] in *.
  destruct (idx d1 p) as [a| |] eqn:E1; cbn [obind] in H1; try discriminate.
  destruct (idx d2 q) as [b| |] eqn:E2; cbn [obind] in H2; try discriminate.
  rewrite (SortFrameProofs.idx_nth _ _ _ 0%Z E1), (SortFrameProofs.idx_nth _ _ _ 0%Z E2). congruence.
Qed.
Lemma raw_same_float d1 d2 p q : raw_same (FCol d1) (FCol d2) p q -> nth p d1 0%N = nth q d2 0%N.
Proof.
  intros [v [H1 H2]]. cbn [raw_kval] in *.
  destruct (idx d1 p) as [a| |] eqn:E1; cbn [obind] in H1; try discriminate.
  destruct (idx d2 q) as [b| |] eqn:E2; cbn [obind] in H2; try discriminate.
  rewrite (SortFrameProofs.idx_nth _ _ _ 0%N E1), (SortFrameProofs.idx_nth _ _ _ 0%N E2). congruence.
Qed.
Lemma raw_same_bool d1 d2 p q : raw_same (BCol d1) (BCol d2) p q -> nth p d1 false = nth q d2 false.
Proof.
  intros [v [H1 H2]]. cbn [raw_kval] in *.
  destruct (idx d1 p) as [a| |] eqn:E1; cbn [obind] in H1; try discriminate.
  destruct (idx d2 q) as [b| |] eqn:E2; cbn [obind] in H2; try discriminate.
  rewrite (SortFrameProofs.idx_nth _ _ _ false E1), (SortFrameProofs.idx_nth _ _ _ false E2). congruence.
Qed.
Lemma raw_same_str d1 d2 p q : raw_same (SCol d1) (SCol d2) p q -> nth p d1 None = nth q d2 None.
Proof.
  intros [v [H1 H2]]. cbn [raw_kval] in *.
  destruct (idx d1 p) as [a| |] eqn:E1; cbn [obind] in H1; try discriminate.
  destruct (idx d2 q) as [b| |] eqn:E2; cbn [obind] in H2; try discriminate.
  rewrite (SortFrameProofs.idx_nth _ _ _ None E1), (SortFrameProofs.idx_nth _ _ _ None E2). congruence.
Qed.
Lemma raw_same_enum d1 v1 s1 d2 v2 s2 p q :
  raw_same (ECol d1 v1 s1) (ECol d2 v2 s2) p q -> nth p d1 c_nullValue = nth q d2 c_nullValue.
Proof.
  intros [v [H1 H2]]. cbn [raw_kval] in *.
  destruct (idx d1 p) as [a| |] eqn:E1; cbn [obind] in H1; try discriminate.
  destruct (idx d2 q) as [b| |] eqn:E2; cbn [obind] in H2; try discriminate.
  rewrite (SortFrameProofs.idx_nth _ _ _ c_nullValue E1), (SortFrameProofs.idx_nth _ _ _ c_nullValue E2). congruence.
Qed.

(* Compare of two columns that hold the same physical values at the compared rows *)
Lemma col_comparable_sim c1 c2 rev nl p q p' q' :
  col_type c1 = col_type c2 -> raw_same c1 c2 p q -> raw_same c1 c2 p' q' ->
  col_comparable c1 rev nl p p' = col_comparable c2 rev nl q q'.
Proof.
  intros Ht H H'.
  destruct c1 as [d1|d1|d1|d1|d1 v1 s1], c2 as [d2|d2|d2|d2|d2 v2 s2]; try discriminate Ht; cbn [col_comparable].
  - unfold compare_rows_int. rewrite (raw_same_int _ _ _ _ H), (raw_same_int _ _ _ _ H'). reflexivity.
  - unfold compare_rows_float. rewrite (raw_same_float _ _ _ _ H), (raw_same_float _ _ _ _ H'). reflexivity.
  - unfold compare_rows_bool. rewrite (raw_same_bool _ _ _ _ H), (raw_same_bool _ _ _ _ H'). reflexivity.
  - unfold compare_rows. rewrite (raw_same_str _ _ _ _ H), (raw_same_str _ _ _ _ H'). reflexivity.
  - unfold compare_rows. rewrite (raw_same_enum _ _ _ _ _ _ _ _ H), (raw_same_enum _ _ _ _ _ _ _ _ H'). reflexivity.
Qed.

(* ------------------------------------------------------------------ Sort *)

Section SortCongr.
  Variables f g : frame.
  Variable L : pairs.
  Hypothesis Hcols : forall name,
    match lookup_col f name, lookup_col g name with
    | None, None => True
    | Some c1, Some c2 => fcol_sim L (phys_len f) (phys_len g) c1 c2
    | _, _ => False
    end.

  Definition keys_agree (k1 k2 : nat -> nat -> cmpres) : Prop :=
    forall p q p' q', In (p, q) L -> In (p', q') L -> k1 p p' = k2 q q'.

  Lemma comparables_sim : forall orders,
    match comparables f orders, comparables g orders with
    | None, None => True
    | Some cs1, Some cs2 => Forall2 keys_agree (map snd cs1) (map snd cs2)
    | _, _ => False
    end.
  Proof.
    induction orders as [|o orders IH]; cbn [comparables]; [constructor|].
    pose proof (Hcols (o_column o)) as Hc.
    destruct (lookup_col f (o_column o)) as [c1|], (lookup_col g (o_column o)) as [c2|]; try contradiction; [|exact I].
    destruct (comparables f orders) as [cs1|], (comparables g orders) as [cs2|]; try contradiction; [|exact I].
    cbn [map snd]. constructor; [|exact IH].
    destruct Hc as [Ht [_ [_ [_ Hv]]]]. intros p q p' q' Hpq Hpq'.
    apply col_comparable_sim; [exact Ht|apply (Hv p q Hpq)|apply (Hv p' q' Hpq')].
  Qed.

  Lemma less_keys_sim ks1 ks2 : Forall2 keys_agree ks1 ks2 ->
    forall p q p' q', In (p, q) L -> In (p', q') L -> less_keys ks1 p p' = less_keys ks2 q q'.
  Proof.
    induction 1 as [|k1 k2 ks1 ks2 Hk _ IH]; intros p q p' q' Hpq Hpq'; cbn [less_keys]; [reflexivity|].
    rewrite (Hk p q p' q' Hpq Hpq'). destruct (k2 q q'); try reflexivity; apply IH; assumption.
  Qed.
End SortCongr.

Lemma comparables_cols f : forall orders cs, comparables f orders = Some cs ->
  Forall (fun c => exists name, lookup_col f name = Some c) (map fst cs).
Proof.
  induction orders as [|o orders IH]; intros cs H; cbn [comparables] in H.
  - inversion H; subst. constructor.
  - destruct (lookup_col f (o_column o)) as [c|] eqn:E; [|discriminate].
    destruct (comparables f orders) as [cs'|]; [|discriminate]. inversion H; subst.
    cbn [map fst]. constructor; [exists (o_column o); exact E|apply IH; reflexivity].
Qed.

(* the two results: the same Err; the columns are those of the receivers; the sorted indexes are paired slot by
   slot - the two runs of the sorter made the same decisions, ties included *)
Definition sorted_alike (L : pairs) (f g : frame) (o1 o2 : outcome frame) : Prop :=
  osim (fun f' g' => ferr f' = ferr g' /\ cols f' = cols f /\ cols g' = cols g /\ paired L (ix f') (ix g')) o1 o2.

Lemma paired_range L f g i1 i2 : Rel L f g -> paired L i1 i2 ->
  Forall (fun p => p < phys_len f) i1 /\ Forall (fun q => q < phys_len g) i2.
Proof.
  intros HR. induction 1 as [|p q i1 i2 Hpq _ [IH1 IH2]]; [split; constructor|].
  destruct (r_rng _ _ _ HR p q Hpq). split; constructor; assumption.
Qed.

Lemma paired_same_table L f g i1 i2 : Rel L f g -> paired L i1 i2 -> abs (with_ix f i1) = abs (with_ix g i2).
Proof.
  intros HR Hp. destruct (paired_range L f g i1 i2 HR Hp) as [F1 F2].
  apply (abs_of_rel L); [apply Rel_with_ix; assumption|apply (paired_length L); exact Hp|apply paired_incl; exact Hp].
Qed.

Theorem sort_congr_paired f g t orders :
  abs f = Ok t -> abs g = Ok t -> ferr f = ferr g -> wf_frame f = true -> wf_frame g = true ->
  enum_metas f = enum_metas g -> enum_nodup_b f = true ->
  sorted_alike (combine (ix f) (ix g)) f g (sort_frame f orders) (sort_frame g orders).
Proof.
  intros Hf Hg He Hw1 Hw2 Hm Hnd.
  destruct (rel_of_abs f g t Hf Hg He Hw1 Hw2) as [HR Hl]. set (L := combine (ix f) (ix g)) in *.
  pose proof (lookup_fcol_sim f g t Hf Hg He Hw1 Hw2 Hm Hnd) as Hcols. fold L in Hcols.
  assert (Hself : paired L (ix f) (ix g)) by (apply paired_combine; exact Hl).
  unfold sorted_alike, sort_frame. rewrite <- He. destruct (ferr f) eqn:Ef.
  { cbn [osim]. repeat split; auto. congruence. }
  destruct orders as [|o orders]; [cbn [osim]; repeat split; auto; congruence|].
  pose proof (comparables_sim f g L Hcols (o :: orders)) as Hc.
  destruct (comparables f (o :: orders)) as [cs1|] eqn:C1, (comparables g (o :: orders)) as [cs2|] eqn:C2;
    try contradiction; [|cbn [osim with_err ferr cols ix]; repeat split; auto].
  rewrite (SortFrameProofs.wf_rows_in_range f _ Hw1 (comparables_cols f _ _ C1)), (SortFrameProofs.wf_rows_in_range g _ Hw2 (comparables_cols g _ _ C2)).
  eapply osim_bind.
  - apply (sort_ids_sim (fun p q => In (p, q) L)); [|exact Hself].
    intros p q p' q' Hpq Hpq'. apply (less_keys_sim L _ _ Hc); assumption.
  - intros s1 s2 Hs. cbn [osim with_ix ferr cols ix]. repeat split; auto. congruence.
Qed.

(* C09 for Sort: the same logical table (and the same enum value lists, pairwise different - the order of an
   enum column is the order of the RANKS) gives the same outcome and EXACTLY the same logical table: also the
   rows that are equal on all sort keys come out in the same order, whatever the two physical layouts are.
   No premise about the indexes (repeats allowed), none about the orders (unknown columns: both results carry
   the error). *)
Theorem sort_congr f g t orders :
  abs f = Ok t -> abs g = Ok t -> ferr f = ferr g -> wf_frame f = true -> wf_frame g = true ->
  enum_metas f = enum_metas g -> enum_nodup_b f = true ->
  same_result (sort_frame f orders) (sort_frame g orders).
Proof.
  intros Hf Hg He Hw1 Hw2 Hm Hnd.
  pose proof (sort_congr_paired f g t orders Hf Hg He Hw1 Hw2 Hm Hnd) as H.
  destruct (rel_of_abs f g t Hf Hg He Hw1 Hw2) as [HR Hl].
  destruct (SortFrameProofs.frame_sort_no_panic f orders Hw1) as [f' [S1 _]].
  destruct (SortFrameProofs.frame_sort_no_panic g orders Hw2) as [g' [S2 _]].
  rewrite S1, S2 in *. unfold sorted_alike, osim, same_result in *.
  destruct H as [E [C1 [C2 Hp]]]. split; [exact E|].
  pose proof (paired_same_table _ f g _ _ HR Hp) as Ht.
  unfold abs in *. unfold row_at, col_names in *. cbn [with_ix cols ix] in Ht. rewrite C1, C2. exact Ht.
Qed.

(* ================================================================== the hash table is parametric in the row ids *)

From QF Require Model.Grouper.

Lemma idx_sim_gen {A B} (S : A -> B -> Prop) l1 l2 i : Forall2 S l1 l2 -> osim S (idx l1 i) (idx l2 i).
Proof.
  intro H. revert i. induction H as [|p q s1 s2 Hpq _ IH]; intros [|i]; cbn [idx nth_error of_option osim]; auto.
  apply IH.
Qed.

Lemma set_nth_sim_gen {A B} (S : A -> B -> Prop) l1 l2 i a b :
  Forall2 S l1 l2 -> S a b -> Forall2 S (set_nth l1 i a) (set_nth l2 i b).
Proof.
  intros H Hab. revert i. induction H as [|x y s1 s2 Hxy Hs IH]; intros [|i]; cbn [set_nth]; constructor; auto.
Qed.

Lemma Forall2_repeat {A B} (S : A -> B -> Prop) a b n : S a b -> Forall2 S (repeat a n) (repeat b n).
Proof. intro H. induction n; cbn [repeat]; constructor; auto. Qed.

Lemma Forall2_app_one {A B} (S : A -> B -> Prop) l1 l2 a b : Forall2 S l1 l2 -> S a b -> Forall2 S (l1 ++ [a]) (l2 ++ [b]).
Proof. intros H Hab. apply Forall2_app; [exact H|constructor; [exact Hab|constructor]]. Qed.

Section GrouperSim.
  Import Grouper.
  Context {A B : Type}.
  Variable R : A -> B -> Prop.
  Variable eqb1 : A -> A -> bool.
  Variable eqb2 : B -> B -> bool.
  Variable hash1 : A -> N.
  Variable hash2 : B -> N.
  Hypothesis Heqb : forall a b a' b', R a b -> R a' b' -> eqb1 a a' = eqb2 b b'.
  Hypothesis Hhash : forall a b, R a b -> hash1 a = hash2 b.

  Definition ER (e1 : entry A) (e2 : entry B) : Prop :=
    ehash e1 = ehash e2 /\ R (first e1) (first e2) /\ Forall2 R (ix e1) (ix e2).
  Definition SR (s1 : option (entry A)) (s2 : option (entry B)) : Prop :=
    match s1, s2 with
    | None, None => True
    | Some e1, Some e2 => ER e1 e2
    | _, _ => False
    end.
  Definition TR (t1 : table A) (t2 : table B) : Prop :=
    Forall2 SR (entries t1) (entries t2) /\ lf_num t1 = lf_num t2 /\ lf_den t1 = lf_den t2
    /\ group_count t1 = group_count t2 /\ reloc_count t1 = reloc_count t2 /\ reloc_coll t1 = reloc_coll t2
    /\ insert_coll t1 = insert_coll t2.
  Definition PR (x : list (option (entry A)) * N) (y : list (option (entry B)) * N) : Prop :=
    Forall2 SR (fst x) (fst y) /\ snd x = snd y.

  Lemma probe_sim (stop1 : entry A -> bool) (stop2 : entry B -> bool) mask :
    (forall e1 e2, ER e1 e2 -> stop1 e1 = stop2 e2) ->
    forall fuel es1 es2 pos coll, Forall2 SR es1 es2 ->
      osim eq (probe stop1 fuel es1 mask pos coll) (probe stop2 fuel es2 mask pos coll).
  Proof.
    intro Hs. induction fuel as [|fuel IH]; intros es1 es2 pos coll H; cbn [probe]; [exact I|].
    eapply osim_bind; [apply (idx_sim_gen SR); exact H|]. intros [e1|] [e2|] Hs12; cbn [SR] in Hs12; try contradiction.
    - rewrite (Hs e1 e2 Hs12). destruct (stop2 e2); [reflexivity|]. apply IH. exact H.
    - reflexivity.
  Qed.

  Lemma slot_hash_sim s1 s2 : SR s1 s2 -> slot_hash s1 = slot_hash s2.
  Proof. destruct s1 as [e1|], s2 as [e2|]; cbn [SR slot_hash]; try contradiction; [intros [H _]; exact H|reflexivity]. Qed.

  Lemma grow_step_sim fuel mask st1 st2 s1 s2 : osim PR st1 st2 -> SR s1 s2 ->
    osim PR (grow_step fuel mask st1 s1) (grow_step fuel mask st2 s2).
  Proof.
    intros Hst Hs. unfold grow_step. eapply osim_bind; [exact Hst|]. intros [es1 c1] [es2 c2] [Hes Hc].
    cbn [fst snd] in *. subst c2. rewrite (slot_hash_sim _ _ Hs).
    eapply osim_bind; [apply probe_sim; [reflexivity|exact Hes]|]. intros pc pc' <-.
    split; cbn [fst snd]; [apply set_nth_sim_gen; assumption|reflexivity].
  Qed.

  Lemma grow_fold_sim fuel mask : forall es1 es2, Forall2 SR es1 es2 -> forall st1 st2, osim PR st1 st2 ->
    osim PR (fold_left (grow_step fuel mask) es1 st1) (fold_left (grow_step fuel mask) es2 st2).
  Proof.
    induction 1 as [|s1 s2 es1 es2 Hs _ IH]; intros st1 st2 Hst; cbn [fold_left]; [exact Hst|].
    apply IH. apply grow_step_sim; assumption.
  Qed.

  Lemma grow_sim t1 t2 : TR t1 t2 -> osim TR (grow t1) (grow t2).
  Proof.
    intros (He & H1 & H2 & H3 & H4 & H5 & H6). unfold grow.
    rewrite (F2_len _ _ _ He), H5.
    eapply osim_bind.
    - apply grow_fold_sim; [exact He|]. split; cbn [fst snd]; [apply Forall2_repeat; exact I|reflexivity].
    - intros [es1 c1] [es2 c2] [Hes Hc]. cbn [fst snd] in *. subst c2.
      unfold TR; cbn [osim entries lf_num lf_den group_count reloc_count reloc_coll insert_coll].
      repeat split; auto; congruence.
  Qed.

  Lemma insert_entry_sim collect t1 t2 i1 i2 : TR t1 t2 -> R i1 i2 ->
    osim TR (insert_entry eqb1 hash1 collect t1 i1) (insert_entry eqb2 hash2 collect t2 i2).
  Proof.
    intros HT Hi. unfold insert_entry.
    eapply osim_bind with (S := TR).
    { destruct HT as (He & H1 & H2 & H3 & H4 & H5 & H6). rewrite H1, H2.
      destruct (c_maxLoadFactor_num * lf_den t2 <? lf_num t2 * c_maxLoadFactor_den)%N;
        [apply grow_sim|]; repeat split; assumption. }
    clear t1 t2 HT. intros t1 t2 (He & H1 & H2 & H3 & H4 & H5 & H6).
    rewrite (F2_len _ _ _ He), (Hhash _ _ Hi), H6.
    eapply osim_bind with (S := eq).
    { apply probe_sim; [|exact He]. intros e1 e2 (Eh & Ef & _). rewrite Eh.
      destruct (ehash e2 =? u32 (hash2 i2))%N; [apply Heqb; assumption|reflexivity]. }
    intros pc pc' <-.
    eapply osim_bind; [apply (idx_sim_gen SR); exact He|].
    intros [e1|] [e2|] Hs; cbn [SR] in Hs; try contradiction.
    - destruct Hs as (Eh & Ef & Ei). destruct collect.
      + unfold TR; cbn [osim entries lf_num lf_den group_count reloc_count reloc_coll insert_coll].
        repeat split; auto. apply set_nth_sim_gen; [exact He|]. cbn [SR]. split; [exact Eh|]. split; [exact Ef|].
        cbn [ehash first ix]. destruct Ei as [|x y l1 l2 Hxy Hl].
        * constructor; [exact Ef|constructor; [exact Hi|constructor]].
        * apply (Forall2_app_one R (x :: l1) (y :: l2)); [constructor; assumption|exact Hi].
      + unfold TR; cbn [osim entries lf_num lf_den group_count reloc_count reloc_coll insert_coll]. repeat split; auto.
    - unfold TR; cbn [osim entries lf_num lf_den group_count reloc_count reloc_coll insert_coll].
      rewrite H3. repeat split; auto. apply set_nth_sim_gen; [exact He|]. cbn [SR]. split; [reflexivity|].
      split; [exact Hi|constructor].
  Qed.

  Lemma insert_all_sim collect : forall ids1 ids2, Forall2 R ids1 ids2 -> forall t1 t2, TR t1 t2 ->
    osim TR (insert_all eqb1 hash1 collect t1 ids1) (insert_all eqb2 hash2 collect t2 ids2).
  Proof.
    induction 1 as [|i1 i2 ids1 ids2 Hi _ IH]; intros t1 t2 HT; cbn [insert_all]; [exact HT|].
    eapply osim_bind; [apply insert_entry_sim; assumption|]. intros u1 u2 Hu. apply IH. exact Hu.
  Qed.

  Lemma group_index_sim collect ids1 ids2 : Forall2 R ids1 ids2 ->
    osim TR (group_index eqb1 hash1 collect ids1) (group_index eqb2 hash2 collect ids2).
  Proof.
    intro H. unfold group_index. rewrite (F2_len _ _ _ H). apply insert_all_sim; [exact H|].
    unfold new_table, TR; cbn [entries lf_num lf_den group_count reloc_count reloc_coll insert_coll].
    repeat split; auto. apply Forall2_repeat. exact I.
  Qed.

  Lemma occ_sim es1 es2 : Forall2 SR es1 es2 -> Forall2 ER (occ es1) (occ es2).
  Proof.
    induction 1 as [|s1 s2 es1 es2 Hs _ IH]; [constructor|].
    unfold occ in *. cbn [flat_map]. destruct s1 as [e1|], s2 as [e2|]; cbn [SR] in Hs; try contradiction; cbn [app].
    - constructor; assumption.
    - exact IH.
  Qed.

  Lemma members_sim e1 e2 : ER e1 e2 -> Forall2 R (members e1) (members e2).
  Proof.
    intros (_ & Ef & Ei). unfold members. destruct Ei as [|x y l1 l2 Hxy Hl]; [constructor; [exact Ef|constructor]|].
    constructor; assumption.
  Qed.

  Lemma Forall2_map2 {C D E F} (S : C -> D -> Prop) (T : E -> F -> Prop) (h1 : C -> E) (h2 : D -> F) l1 l2 :
    (forall c d, S c d -> T (h1 c) (h2 d)) -> Forall2 S l1 l2 -> Forall2 T (map h1 l1) (map h2 l2).
  Proof. intros H. induction 1; cbn [map]; constructor; auto. Qed.

  (* grouper.GroupBy: the groups correspond slot by slot, members in the same order *)
  Theorem group_ids_gen_sim ids1 ids2 : Forall2 R ids1 ids2 ->
    osim (Forall2 (Forall2 R)) (group_ids_gen eqb1 hash1 ids1) (group_ids_gen eqb2 hash2 ids2).
  Proof.
    intro H. unfold group_ids_gen. eapply osim_bind; [apply group_index_sim; exact H|].
    intros t1 t2 HT. cbn [osim]. apply (Forall2_map2 ER); [exact members_sim|]. apply occ_sim. apply HT.
  Qed.

  (* grouper.Distinct *)
  Theorem distinct_ids_gen_sim ids1 ids2 : Forall2 R ids1 ids2 ->
    osim (Forall2 R) (distinct_ids_gen eqb1 hash1 ids1) (distinct_ids_gen eqb2 hash2 ids2).
  Proof.
    intro H. unfold distinct_ids_gen. eapply osim_bind; [apply group_index_sim; exact H|].
    intros t1 t2 HT. cbn [osim]. apply (Forall2_map2 ER); [intros e1 e2 He; apply He|]. apply occ_sim. apply HT.
  Qed.

  (* the GroupStats agree as well *)
  Theorem group_stats_gen_sim collect ids1 ids2 : Forall2 R ids1 ids2 ->
    group_stats_gen eqb1 hash1 collect ids1 = group_stats_gen eqb2 hash2 collect ids2.
  Proof.
    intro H. apply osim_eq. unfold group_stats_gen. eapply osim_bind; [apply group_index_sim; exact H|].
    intros t1 t2 (He & H1 & H2 & H3 & H4 & H5 & H6). cbn [osim]. congruence.
  Qed.
End GrouperSim.

(* ================================================================== the enum premise, restricted to key columns *)

From QF Require Import Model.Aggregate.

(* Sort, Distinct and GroupBy read the stored RANK of an enum cell, which the logical table does not show - but only
   in the columns they are asked to order / group by, and of these only the value lists matter (not the
   strictness): decidable premise enum_key_okb per column name.  It cannot be dropped (Properties/C09.v:
   C09_sort_needs_same_values, C09_sort_needs_distinct_values, C09_distinct_needs_same_values, C09_distinct_needs_distinct_values). *)
Definition enum_values_of (c : coldata) : list bytes := match c with ECol _ vs _ => vs | _ => [] end.

Definition enum_key_okb (f g : frame) (name : bytes) : bool :=
  match lookup_col f name, lookup_col g name with
  | Some c1, Some c2 =>
      list_eqb bytes_eqb (enum_values_of c1) (enum_values_of c2) && nodupb bytes_eqb (enum_values_of c1)
  | _, _ => true
  end.

Definition enum_keys_okb (f g : frame) (names : list bytes) : bool := forallb (enum_key_okb f g) names.

Definition sort_keys_okb (f g : frame) (orders : list order) : bool :=
  forallb (fun o => enum_key_okb f g (o_column o)) orders.

Lemma key_raw_same L c1 c2 :
  col_sim L c1 c2 -> enum_values_of c1 = enum_values_of c2 -> NoDup (enum_values_of c1) ->
  forall p q, In (p, q) L -> raw_same c1 c2 p q.
Proof.
  intros [Ht Hc] Hm Hnd p q Hpq. destruct (Hc p q Hpq) as [x [X1 X2]]. unfold raw_same.
  destruct c1 as [d1|d1|d1|d1|d1 v1 s1], c2 as [d2|d2|d2|d2|d2 v2 s2]; try discriminate Ht; cbn [raw_kval cell_at] in *.
  - destruct (idx d1 p) as [z1| |]; cbn [obind] in X1; try discriminate.
    destruct (idx d2 q) as [z2| |]; cbn [obind] in X2; try discriminate.
    exists (Kernel.VZ z1). split; [reflexivity|]. cbn [obind]. congruence.
  - destruct (idx d1 p) as [z1| |]; cbn [obind] in X1; try discriminate.
    destruct (idx d2 q) as [z2| |]; cbn [obind] in X2; try discriminate.
    exists (Kernel.VF z1). split; [reflexivity|]. cbn [obind]. congruence.
  - destruct (idx d1 p) as [z1| |]; cbn [obind] in X1; try discriminate.
    destruct (idx d2 q) as [z2| |]; cbn [obind] in X2; try discriminate.
    exists (Kernel.VB z1). split; [reflexivity|]. cbn [obind]. congruence.
  - destruct (idx d1 p) as [z1| |]; cbn [obind] in X1; try discriminate.
    destruct (idx d2 q) as [z2| |]; cbn [obind] in X2; try discriminate.
    exists (Kernel.VS z1). split; [reflexivity|]. cbn [obind]. congruence.
  - cbn [enum_values_of] in Hm, Hnd. subst v2.
    destruct (idx d1 p) as [r1| |]; cbn [obind] in X1; try discriminate.
    destruct (idx d2 q) as [r2| |]; cbn [obind] in X2; try discriminate.
    exists (Kernel.VE r1). split; [reflexivity|]. cbn [obind]. f_equal. f_equal.
    unfold enum_string in X1, X2.
    destruct (enum_is_null r1) eqn:N1, (enum_is_null r2) eqn:N2; cbn [obind] in X1, X2.
    + unfold enum_is_null in N1, N2. apply N.eqb_eq in N1, N2. congruence.
    + unfold idx in X2. destruct (nth_error v1 (N.to_nat r2)); cbn [of_option obind] in X2; [|discriminate]. congruence.
    + unfold idx in X1. destruct (nth_error v1 (N.to_nat r1)); cbn [of_option obind] in X1; [|discriminate]. congruence.
    + unfold idx in X1, X2.
      destruct (nth_error v1 (N.to_nat r1)) as [a1|] eqn:E1; cbn [of_option obind] in X1; [|discriminate].
      destruct (nth_error v1 (N.to_nat r2)) as [a2|] eqn:E2; cbn [of_option obind] in X2; [|discriminate].
      assert (a1 = a2) by congruence. subst a2.
      rewrite NoDup_nth_error in Hnd. symmetry. apply N2Nat.inj. symmetry. apply Hnd; [apply nth_error_Some; congruence|congruence].
Qed.

(* two key columns: same type, same value list, the same physical value (rank) at paired rows *)
Definition kcol_sim (L : pairs) (c1 c2 : coldata) : Prop :=
  col_type c1 = col_type c2 /\ enum_values_of c1 = enum_values_of c2 /\ forall p q, In (p, q) L -> raw_same c1 c2 p q.

Definition lookup_kalike (L : pairs) (x y : option coldata) : Prop :=
  match x, y with
  | None, None => True
  | Some c1, Some c2 => kcol_sim L c1 c2
  | _, _ => False
  end.

Lemma key_kcol_sim L f g name : cols_sim L (cols f) (cols g) -> enum_key_okb f g name = true ->
  lookup_kalike L (lookup_col f name) (lookup_col g name).
Proof.
  intros Hs Hk. pose proof (lookup_col_sim L f g name Hs) as Hc. unfold enum_key_okb, lookup_kalike in *.
  destruct (lookup_col f name) as [c1|], (lookup_col g name) as [c2|]; try contradiction; [|exact I].
  apply andb_true_iff in Hk as [Hv Hn]. apply (list_eqb_spec bytes_eqb bytes_eqb_spec) in Hv.
  apply (FilterTypedFrame.nodupb_ok bytes_eqb bytes_eqb_spec) in Hn.
  split; [apply Hc|]. split; [exact Hv|]. apply (key_raw_same L c1 c2 Hc Hv Hn).
Qed.

(* the premises of Filter's congruence theorem (same value lists and strictness in ALL enum columns, no repeated
   value) imply the key premise for every list of names *)
Lemma metas_key f g name :
  enum_metas f = enum_metas g -> enum_nodup_b f = true -> map fst (cols f) = map fst (cols g) ->
  enum_key_okb f g name = true.
Proof.
  intros Hm Hnd Hn. unfold enum_key_okb.
  assert (HF : Forall2 (fun a b : bytes * coldata => fst a = fst b /\
               (list_eqb bytes_eqb (enum_values_of (snd a)) (enum_values_of (snd b)) && nodupb bytes_eqb (enum_values_of (snd a)) = true))
               (cols f) (cols g)).
  { unfold enum_metas, enum_nodup_b in *. revert Hm Hnd Hn. generalize (cols g) as cs2. generalize (cols f) as cs1.
    induction cs1 as [|[m1 c1] cs1 IH]; intros [|[m2 c2] cs2] Hm Hnd Hn; try discriminate; constructor.
    - cbn [map fst snd forallb] in *. injection Hm as Hm1 Hm2. injection Hn as Hn1 Hn2.
      apply andb_true_iff in Hnd as [Hnd1 Hnd2]. split; [exact Hn1|].
      destruct c1, c2; try discriminate Hm1; cbn [enum_values_of enum_meta] in *; try reflexivity.
      injection Hm1 as Hv Hs. subst. rewrite Hnd1, andb_true_r. apply (list_eqb_spec bytes_eqb bytes_eqb_spec). reflexivity.
    - cbn [map fst snd forallb] in *. injection Hm as Hm1 Hm2. injection Hn as Hn1 Hn2. apply andb_true_iff in Hnd as [_ Hnd2].
      apply IH; assumption. }
  pose proof (lookup_from_rel (fun c1 c2 => list_eqb bytes_eqb (enum_values_of c1) (enum_values_of c2) && nodupb bytes_eqb (enum_values_of c1) = true)
                name (cols f) (cols g) 0 None None HF I) as Hl0.
  unfold lookup_col, lookup, optrel in *.
  destruct (lookup_from name (cols f) 0 None) as [[k1 c1]|], (lookup_from name (cols g) 0 None) as [[k2 c2]|];
    cbn [option_map snd]; try reflexivity. exact Hl0.
Qed.

Lemma metas_keys f g names :
  enum_metas f = enum_metas g -> enum_nodup_b f = true -> map fst (cols f) = map fst (cols g) ->
  enum_keys_okb f g names = true.
Proof. intros Hm Hnd Hn. apply forallb_forall. intros n _. apply metas_key; assumption. Qed.

Lemma metas_sort_keys f g orders :
  enum_metas f = enum_metas g -> enum_nodup_b f = true -> map fst (cols f) = map fst (cols g) ->
  sort_keys_okb f g orders = true.
Proof. intros Hm Hnd Hn. apply forallb_forall. intros o _. apply metas_key; assumption. Qed.

(* ---- what two results have in common *)

(* both runs end alike: both panic, both return the error value, or both return frames with the same Err state
   and the same logical table (same_result of CongruenceProofs.v, which has no case for an error return) *)
Definition same_outcome (o1 o2 : outcome frame) : Prop :=
  osim (fun f' g' => ferr f' = ferr g' /\ abs f' = abs g') o1 o2.

Lemma same_outcome_result o1 o2 : same_outcome o1 o2 -> o1 <> Fail -> same_result o1 o2.
Proof. unfold same_outcome, osim, same_result. destruct o1, o2; try tauto. Qed.

Lemma same_result_outcome o1 o2 : same_result o1 o2 -> same_outcome o1 o2.
Proof. unfold same_outcome, osim, same_result. destruct o1, o2; tauto. Qed.

Lemma sorted_alike_outcome L f g o1 o2 : Rel L f g -> sorted_alike L f g o1 o2 -> same_outcome o1 o2.
Proof.
  intros HR H. unfold sorted_alike, same_outcome, osim in *. destruct o1 as [f'| |], o2 as [g'| |]; auto.
  destruct H as [E [C1 [C2 Hp]]]. split; [exact E|].
  pose proof (paired_same_table _ f g _ _ HR Hp) as Ht.
  unfold abs in *. unfold row_at, col_names in *. cbn [with_ix cols ix] in Ht. rewrite C1, C2. exact Ht.
Qed.

(* ---- Sort under the key premise *)

Lemma comparables_sim_keys f g L : cols_sim L (cols f) (cols g) -> forall orders,
  sort_keys_okb f g orders = true ->
  match comparables f orders, comparables g orders with
  | None, None => True
  | Some cs1, Some cs2 => Forall2 (keys_agree L) (map snd cs1) (map snd cs2)
  | _, _ => False
  end.
Proof.
  intros Hs. induction orders as [|o orders IH]; intro Hk; cbn [comparables]; [constructor|].
  cbn [sort_keys_okb forallb] in Hk. apply andb_true_iff in Hk as [Hk1 Hk2]. specialize (IH Hk2).
  pose proof (key_kcol_sim L f g (o_column o) Hs Hk1) as Hc. unfold lookup_kalike in Hc.
  destruct (lookup_col f (o_column o)) as [c1|], (lookup_col g (o_column o)) as [c2|]; try contradiction; [|exact I].
  destruct (comparables f orders) as [cs1|], (comparables g orders) as [cs2|]; try contradiction; [|exact I].
  cbn [map snd]. constructor; [|exact IH]. destruct Hc as (Ht & _ & Hraw).
  intros p q p' q' Hpq Hpq'. apply col_comparable_sim; [exact Ht|apply Hraw; exact Hpq|apply Hraw; exact Hpq'].
Qed.

Theorem sort_congr_keys_paired f g t orders :
  abs f = Ok t -> abs g = Ok t -> ferr f = ferr g -> wf_frame f = true -> wf_frame g = true ->
  sort_keys_okb f g orders = true ->
  sorted_alike (combine (ix f) (ix g)) f g (sort_frame f orders) (sort_frame g orders).
Proof.
  intros Hf Hg He Hw1 Hw2 Hk.
  destruct (rel_of_abs f g t Hf Hg He Hw1 Hw2) as [HR Hl]. set (L := combine (ix f) (ix g)) in *.
  assert (Hself : paired L (ix f) (ix g)) by (apply paired_combine; exact Hl).
  unfold sorted_alike, sort_frame. rewrite <- He. destruct (ferr f) eqn:Ef.
  { cbn [osim]. repeat split; auto. congruence. }
  destruct orders as [|o orders]; [cbn [osim]; repeat split; auto; congruence|].
  pose proof (comparables_sim_keys f g L (r_cols _ _ _ HR) (o :: orders) Hk) as Hc.
  destruct (comparables f (o :: orders)) as [cs1|] eqn:C1, (comparables g (o :: orders)) as [cs2|] eqn:C2;
    try contradiction; [|cbn [osim with_err ferr cols ix]; repeat split; auto].
  rewrite (SortFrameProofs.wf_rows_in_range f _ Hw1 (comparables_cols f _ _ C1)), (SortFrameProofs.wf_rows_in_range g _ Hw2 (comparables_cols g _ _ C2)).
  eapply osim_bind.
  - apply (sort_ids_sim (fun p q => In (p, q) L)); [|exact Hself].
    intros p q p' q' Hpq Hpq'. apply (less_keys_sim L _ _ Hc); assumption.
  - intros s1 s2 Hs. cbn [osim with_ix ferr cols ix]. repeat split; auto. congruence.
Qed.

(* C09 for Sort: the same logical table gives the same outcome and EXACTLY the same logical table - also the rows
   equal on all sort keys come out in the same order, whatever the two physical layouts are.  No premise about the
   indexes (repeats allowed), none about the orders (unknown column: both results carry the error). *)
Theorem sort_congr_keys f g t orders :
  abs f = Ok t -> abs g = Ok t -> ferr f = ferr g -> wf_frame f = true -> wf_frame g = true ->
  sort_keys_okb f g orders = true ->
  same_result (sort_frame f orders) (sort_frame g orders).
Proof.
  intros Hf Hg He Hw1 Hw2 Hk.
  pose proof (sort_congr_keys_paired f g t orders Hf Hg He Hw1 Hw2 Hk) as H.
  destruct (rel_of_abs f g t Hf Hg He Hw1 Hw2) as [HR Hl].
  pose proof (sorted_alike_outcome _ f g _ _ HR H) as Ho.
  apply same_outcome_result; [exact Ho|].
  destruct (SortFrameProofs.frame_sort_no_panic f orders Hw1) as [f' [S1 _]]. rewrite S1. discriminate.
Qed.

(* ================================================================== Distinct, GroupBy, Aggregate, QFrames *)

(* ---- the key cells (Compare / Hash read the physical value: the rank for an enum column) *)

Lemma key_cell_at_sim L c1 c2 p q : kcol_sim L c1 c2 -> In (p, q) L -> key_cell_at c1 p = key_cell_at c2 q.
Proof.
  intros (Ht & _ & Hv) Hpq. destruct (Hv p q Hpq) as [v [H1 H2]].
  destruct c1 as [d1|d1|d1|d1|d1 v1 s1], c2 as [d2|d2|d2|d2|d2 v2 s2]; try discriminate Ht;
    cbn [raw_kval key_cell_at] in *;
    destruct (idx d1 p) as [a| |]; cbn [obind] in H1; try discriminate;
    destruct (idx d2 q) as [b| |]; cbn [obind] in H2; try discriminate; cbn [obind]; congruence.
Qed.

Definition kcols_sim (L : pairs) (k1 k2 : list coldata) : Prop := Forall2 (kcol_sim L) k1 k2.

Lemma key_row_sim L k1 k2 p q : kcols_sim L k1 k2 -> In (p, q) L -> key_row k1 p = key_row k2 q.
Proof.
  intros H Hpq. unfold key_row. induction H as [|c1 c2 k1 k2 Hc _ IH]; [reflexivity|].
  cbn [omap]. rewrite (key_cell_at_sim L c1 c2 p q Hc Hpq), IH. reflexivity.
Qed.

Lemma key_cells_sim L k1 k2 p q : kcols_sim L k1 k2 -> In (p, q) L -> key_cells k1 p = key_cells k2 q.
Proof. intros H Hpq. unfold key_cells. rewrite (key_row_sim L k1 k2 p q H Hpq). reflexivity. Qed.

Lemma key_rows_sim L k1 k2 i1 i2 : kcols_sim L k1 k2 -> paired L i1 i2 ->
  omap (key_row k1) i1 = omap (key_row k2) i2.
Proof.
  intros H. induction 1 as [|p q i1 i2 Hpq _ IH]; [reflexivity|].
  cbn [omap]. rewrite (key_row_sim L k1 k2 p q H Hpq), IH. reflexivity.
Qed.

(* ---- the random source: rand.Uint64() is drawn when a null key cell is hashed under Null(false); the model
   indexes the draws by the row being hashed.  "The same random stream" for two layouts = the same draws for
   the rows in the same slot.  Under Null(true) no draw is ever made. *)
Definition rnd_agree (nulleq : bool) (L : pairs) (rnd1 rnd2 : nat -> nat -> N) : Prop :=
  nulleq = true \/ forall p q, In (p, q) L -> forall col, rnd1 p col = rnd2 q col.

Lemma hash_input_nulleq_true c : Grouper.hash_input true c <> None.
Proof.
  destruct c as [z|b|b|[s|]|r]; cbn [Grouper.hash_input]; try discriminate.
  destruct (Grouper.f_isnan b); [discriminate|]. destruct (Grouper.f_key b =? 0)%Z; discriminate.
Qed.

Lemma key_hash_from_sim mh nulleq r1 r2 : (nulleq = true \/ forall col, r1 col = r2 col) ->
  forall cs col seed, Grouper.key_hash_from mh nulleq r1 col seed cs = Grouper.key_hash_from mh nulleq r2 col seed cs.
Proof.
  intros H. induction cs as [|c cs IH]; intros col seed; cbn [Grouper.key_hash_from]; [reflexivity|].
  destruct (Grouper.hash_input nulleq c) as [b|] eqn:E; [apply IH|].
  destruct H as [->|H]; [exfalso; exact (hash_input_nulleq_true c E)|]. rewrite (H col). apply IH.
Qed.

Lemma key_hash_sim mh nulleq L rnd1 rnd2 k1 k2 p q :
  rnd_agree nulleq L rnd1 rnd2 -> kcols_sim L k1 k2 -> In (p, q) L ->
  key_hash mh rnd1 nulleq k1 p = key_hash mh rnd2 nulleq k2 q.
Proof.
  intros Hr Hk Hpq. unfold key_hash, Grouper.key_hash. rewrite (key_cells_sim L k1 k2 p q Hk Hpq).
  apply key_hash_from_sim. destruct Hr as [Hr|Hr]; [left; exact Hr|right; intro col; apply Hr; exact Hpq].
Qed.

Lemma key_eqb_sim nulleq L k1 k2 p q p' q' :
  kcols_sim L k1 k2 -> In (p, q) L -> In (p', q') L -> key_eqb nulleq k1 p p' = key_eqb nulleq k2 q q'.
Proof.
  intros Hk H H'. unfold key_eqb.
  rewrite (key_cells_sim L k1 k2 p q Hk H), (key_cells_sim L k1 k2 p' q' Hk H'). reflexivity.
Qed.

Lemma table_group_sim mh nulleq L rnd1 rnd2 k1 k2 i1 i2 :
  rnd_agree nulleq L rnd1 rnd2 -> kcols_sim L k1 k2 -> paired L i1 i2 ->
  osim (Forall2 (paired L)) (table_group mh rnd1 nulleq k1 i1) (table_group mh rnd2 nulleq k2 i2).
Proof.
  intros Hr Hk Hp. unfold table_group. rewrite (key_rows_sim L k1 k2 i1 i2 Hk Hp).
  destruct (omap (key_row k2) i2) as [rows| |]; cbn [obind osim]; auto.
  unfold Grouper.group_ids. apply (group_ids_gen_sim (fun p q => In (p, q) L)); [| |exact Hp].
  - intros a b a' b' H H'. apply (key_eqb_sim nulleq L); assumption.
  - intros a b H. apply (key_hash_sim mh nulleq L); assumption.
Qed.

Lemma table_distinct_sim mh nulleq L rnd1 rnd2 k1 k2 i1 i2 :
  rnd_agree nulleq L rnd1 rnd2 -> kcols_sim L k1 k2 -> paired L i1 i2 ->
  osim (paired L) (table_distinct mh rnd1 nulleq k1 i1) (table_distinct mh rnd2 nulleq k2 i2).
Proof.
  intros Hr Hk Hp. unfold table_distinct. rewrite (key_rows_sim L k1 k2 i1 i2 Hk Hp).
  destruct (omap (key_row k2) i2) as [rows| |]; cbn [obind osim]; auto.
  unfold Grouper.distinct_ids. apply (distinct_ids_gen_sim (fun p q => In (p, q) L)); [| |exact Hp].
  - intros a b a' b' H H'. apply (key_eqb_sim nulleq L); assumption.
  - intros a b H. apply (key_hash_sim mh nulleq L); assumption.
Qed.

Lemma named_cols_sim L f g : cols_sim L (cols f) (cols g) -> forall names, enum_keys_okb f g names = true ->
  osim (kcols_sim L) (named_cols f names) (named_cols g names).
Proof.
  intros H. unfold named_cols. induction names as [|n names IH]; intro Hk; cbn [omap]; [constructor|].
  cbn [enum_keys_okb forallb] in Hk. apply andb_true_iff in Hk as [Hk1 Hk2].
  pose proof (key_kcol_sim L f g n H Hk1) as Hn. unfold lookup_kalike in Hn.
  destruct (lookup_col f n) as [c1|], (lookup_col g n) as [c2|]; try contradiction; cbn [of_option obind osim]; auto.
  eapply osim_bind; [exact (IH Hk2)|]. intros k1 k2 Hk. cbn [osim]. constructor; assumption.
Qed.

Lemma ix_cases (f g : frame) : length (ix f) = length (ix g) ->
  (ix f = [] /\ ix g = []) \/ (exists p i1 q i2, ix f = p :: i1 /\ ix g = q :: i2).
Proof.
  intro H. destruct (ix f) as [|p i1], (ix g) as [|q i2]; try discriminate H; [left; split; reflexivity|].
  right. exists p, i1, q, i2. split; reflexivity.
Qed.

(* columnsOrAll *)
Definition distinct_keys (f : frame) (columns : list bytes) : list bytes :=
  match columns with [] => col_names f | _ :: _ => columns end.

Lemma gframe_lookup_col cs i e n : lookup_col (mkFrame cs i e) n = lookup_col (mkFrame cs [] false) n.
Proof. reflexivity. Qed.

Lemma enum_key_okb_cols f g f' g' n : cols f' = cols f -> cols g' = cols g -> enum_key_okb f' g' n = enum_key_okb f g n.
Proof. intros H1 H2. unfold enum_key_okb, lookup_col, lookup. rewrite H1, H2. reflexivity. Qed.

Section FrameSim.
  Variables f g : frame.
  Variable L : pairs.
  Hypothesis Herr : ferr f = ferr g.
  Hypothesis Hself : paired L (ix f) (ix g).
  Hypothesis HS : cols_sim L (cols f) (cols g).

  Lemma Hlen : length (ix f) = length (ix g).
  Proof. apply (paired_length L). exact Hself. Qed.

  Lemma frame_names_eq : col_names f = col_names g.
  Proof. unfold col_names. apply (cols_sim_names L). exact HS. Qed.

  (* ---- Distinct *)
  Theorem distinct_sim mh nulleq rnd1 rnd2 columns :
    enum_keys_okb f g (distinct_keys f columns) = true -> rnd_agree nulleq L rnd1 rnd2 ->
    sorted_alike L f g (distinct mh rnd1 nulleq f columns) (distinct mh rnd2 nulleq g columns).
  Proof.
    intros Hk Hr. pose proof Hlen as Hlen.
    unfold sorted_alike, distinct, distinct_with. rewrite <- Herr. destruct (ferr f) eqn:Ef.
    { cbn [osim]. repeat split; auto. congruence. }
    destruct (ix_cases f g Hlen) as [[I1 I2]|(p & i1 & q & i2 & I1 & I2)]; rewrite I1, I2.
    { cbn [osim]. rewrite I1, I2. repeat split; auto; try congruence; try constructor. }
    rewrite <- (contains_all_sim L f g columns HS).
    destruct (negb (forallb (contains f) columns)).
    { cbn [osim with_err ferr cols ix]. rewrite I1, I2, <- I1, <- I2. repeat split; auto. }
    rewrite <- frame_names_eq. fold (distinct_keys f columns).
    eapply osim_bind; [apply (named_cols_sim L f g HS _ Hk)|]. intros k1 k2 Hk12.
    eapply osim_bind; [apply (table_distinct_sim mh nulleq L rnd1 rnd2); [exact Hr|exact Hk12|rewrite <- I1, <- I2; exact Hself]|].
    intros d1 d2 Hd. cbn [osim with_ix ferr cols ix]. repeat split; auto. congruence.
  Qed.

  (* ---- GroupBy: the two Groupers *)

  Record GRel (a b : grouper) : Prop := mkGRel {
    g_err : gerr a = gerr b;
    g_keys : gkeys a = gkeys b;
    g_cols : cols_sim L (gcols a) (gcols b);
    g_kcols : enum_keys_okb (gframe a) (gframe b) (gkeys a) = true;
    g_ind : Forall2 (paired L) (gindices a) (gindices b)
  }.

  Lemma GRel_err : GRel err_grouper err_grouper.
  Proof. split; try reflexivity; constructor. Qed.

  Lemma gframe_keys_okb columns i1 i2 :
    enum_keys_okb f g columns = true ->
    enum_keys_okb (gframe (mkGrouper (cols f) columns i1 false)) (gframe (mkGrouper (cols g) columns i2 false)) columns = true.
  Proof.
    intro H. unfold enum_keys_okb in *. rewrite forallb_forall in *. intros n Hn.
    exact (H n Hn).
  Qed.

  Theorem group_by_sim mh nulleq rnd1 rnd2 columns :
    enum_keys_okb f g columns = true -> rnd_agree nulleq L rnd1 rnd2 ->
    osim GRel (group_by mh rnd1 nulleq f columns) (group_by mh rnd2 nulleq g columns).
  Proof.
    intros Hk Hr. pose proof Hlen as Hlen.
    unfold group_by, group_by_with. rewrite <- Herr. destruct (ferr f); [exact GRel_err|].
    rewrite <- (contains_all_sim L f g columns HS).
    destruct (negb (forallb (contains f) columns)); [exact GRel_err|].
    destruct (ix_cases f g Hlen) as [[I1 I2]|(p & i1 & q & i2 & I1 & I2)]; rewrite I1, I2.
    { cbn [osim]. split; cbn [gerr gkeys gcols gindices]; auto; try (apply gframe_keys_okb; exact Hk). }
    destruct columns as [|c columns].
    { cbn [osim]. split; cbn [gerr gkeys gcols gindices]; auto. constructor; [|constructor].
      rewrite <- I1, <- I2. exact Hself. }
    eapply osim_bind; [apply (named_cols_sim L f g HS _ Hk)|]. intros k1 k2 Hk12.
    eapply osim_bind; [apply (table_group_sim mh nulleq L rnd1 rnd2); [exact Hr|exact Hk12|rewrite <- I1, <- I2; exact Hself]|].
    intros gs1 gs2 Hgs. cbn [osim]. split; cbn [gerr gkeys gcols gindices]; auto; try (apply gframe_keys_okb; exact Hk).
  Qed.

  (* ---- Aggregate on two such Groupers: the SAME frame, physically *)

  Lemma idx_raw_sim {T} (d1 d2 : list T) (wrap : T -> Kernel.kval) :
    (forall x y, wrap x = wrap y -> x = y) ->
    (forall p q, In (p, q) L -> exists v, (do x <- idx d1 p; Ok (wrap x)) = Ok v /\ (do x <- idx d2 q; Ok (wrap x)) = Ok v) ->
    forall i1 i2, paired L i1 i2 -> omap (idx d1) i1 = omap (idx d2) i2.
  Proof.
    intros Hinj Hv. induction 1 as [|p q i1 i2 Hpq _ IH]; [reflexivity|]. cbn [omap].
    destruct (Hv p q Hpq) as [v [H1 H2]].
    destruct (idx d1 p) as [a| |]; cbn [obind] in H1; try discriminate.
    destruct (idx d2 q) as [b| |]; cbn [obind] in H2; try discriminate.
    assert (a = b) by (apply Hinj; congruence). subst b. cbn [obind]. rewrite IH. reflexivity.
  Qed.

  (* Column.Subset of a key column (the enum subset keeps the value list and drops the strict flag) *)
  Lemma col_subset_sim c1 c2 i1 i2 : kcol_sim L c1 c2 -> paired L i1 i2 -> col_subset c1 i1 = col_subset c2 i2.
  Proof.
    intros (Ht & Hm & Hraw) Hp. unfold raw_same in Hraw.
    destruct c1 as [d1|d1|d1|d1|d1 v1 s1], c2 as [d2|d2|d2|d2|d2 v2 s2]; try discriminate Ht; cbn [col_subset raw_kval] in *.
    - assert (E : omap (idx d1) i1 = omap (idx d2) i2) by (apply (idx_raw_sim d1 d2 Kernel.VZ); [intros x y E; congruence|exact Hraw|exact Hp]); rewrite E; reflexivity.
    - assert (E : omap (idx d1) i1 = omap (idx d2) i2) by (apply (idx_raw_sim d1 d2 Kernel.VF); [intros x y E; congruence|exact Hraw|exact Hp]); rewrite E; reflexivity.
    - assert (E : omap (idx d1) i1 = omap (idx d2) i2) by (apply (idx_raw_sim d1 d2 Kernel.VB); [intros x y E; congruence|exact Hraw|exact Hp]); rewrite E; reflexivity.
    - assert (E : omap (idx d1) i1 = omap (idx d2) i2) by (apply (idx_raw_sim d1 d2 Kernel.VS); [intros x y E; congruence|exact Hraw|exact Hp]); rewrite E; reflexivity.
    - cbn [enum_values_of] in Hm. subst v2.
      assert (E : omap (idx d1) i1 = omap (idx d2) i2) by (apply (idx_raw_sim d1 d2 Kernel.VE); [intros x y E; congruence|exact Hraw|exact Hp]); rewrite E; reflexivity.
  Qed.

  (* an aggregated column is seen through its cells only (an enum cell as the string) *)
  Lemma agg_vals_sim c1 c2 i1 i2 : col_sim L c1 c2 -> paired L i1 i2 -> agg_vals c1 i1 = agg_vals c2 i2.
  Proof.
    intros (_ & Hv). unfold agg_vals. induction 1 as [|p q i1 i2 Hpq _ IH]; [reflexivity|]. cbn [omap].
    destruct (Hv p q Hpq) as [x [H1 H2]]. unfold agg_cell_at at 1 3. rewrite H1, H2, IH. reflexivity.
  Qed.

  Lemma resolve_fn_sim ft c1 c2 fn : col_type c1 = col_type c2 -> resolve_fn ft c1 fn = resolve_fn ft c2 fn.
  Proof. intro Ht. unfold resolve_fn, col_ftype. rewrite Ht. reflexivity. Qed.

  Lemma agg_column_sim ft c1 c2 ind1 ind2 fn : col_sim L c1 c2 -> Forall2 (paired L) ind1 ind2 ->
    agg_column ft c1 ind1 fn = agg_column ft c2 ind2 fn.
  Proof.
    intros Hc Hi. unfold agg_column. destruct (is_count fn).
    - f_equal. f_equal. induction Hi as [|a b ind1 ind2 Hab _ IH]; [reflexivity|]. cbn [map].
      rewrite (paired_length L _ _ Hab), IH. reflexivity.
    - unfold col_aggregate. rewrite (resolve_fn_sim ft c1 c2 fn (proj1 Hc)).
      destruct (resolve_fn ft c2 fn) as [fnc| |]; cbn [obind]; try reflexivity.
      assert (E : omap (fun g0 => do vals <- agg_vals c1 g0; fnc vals) ind1
                  = omap (fun g0 => do vals <- agg_vals c2 g0; fnc vals) ind2).
      { induction Hi as [|a b ind1 ind2 Hab _ IH]; [reflexivity|]. cbn [omap].
        rewrite (agg_vals_sim c1 c2 a b Hc Hab), IH. reflexivity. }
      rewrite E. unfold col_ftype. rewrite (proj1 Hc). reflexivity.
  Qed.

  Lemma ofold_ext {X Y} (f1 f2 : Y -> X -> outcome Y) l :
    (forall acc x, f1 acc x = f2 acc x) -> forall init, ofold f1 l init = ofold f2 l init.
  Proof.
    intros H init. unfold ofold. generalize (Ok init) as o. induction l as [|x l IH]; intro o; cbn [fold_left]; [reflexivity|].
    assert (E : (do a <- o; f1 a x) = (do a <- o; f2 a x)) by (destruct o; cbn [obind]; auto).
    rewrite E. apply IH.
  Qed.

  Theorem aggregate_sim ft a b aggs : GRel a b -> aggregate ft a aggs = aggregate ft b aggs.
  Proof.
    intros [He Hk Hc Hkc Hi]. unfold aggregate. rewrite <- He. destruct (gerr a); [reflexivity|].
    assert (Hfirsts : osim (paired L) (omap (fun ix0 => idx ix0 0) (gindices a)) (omap (fun ix0 => idx ix0 0) (gindices b))).
    { induction Hi as [|x y ind1 ind2 Hxy _ IH]; cbn [omap]; [constructor|].
      eapply osim_bind; [apply (idx_sim_gen _ _ _ 0 Hxy)|]. intros p q Hpq.
      eapply osim_bind; [exact IH|]. intros r1 r2 Hr. cbn [osim]. constructor; assumption. }
    destruct (omap (fun ix0 => idx ix0 0) (gindices a)) as [fs1| |], (omap (fun ix0 => idx ix0 0) (gindices b)) as [fs2| |];
      cbn [osim] in Hfirsts; try contradiction; cbn [obind]; try reflexivity.
    rewrite <- Hk.
    assert (Hcs : cols_sim L (cols (gframe a)) (cols (gframe b))) by exact Hc.
    assert (Hkeys : omap (fun n => do c <- of_option (lookup_col (gframe a) n); do s <- col_subset c fs1; Ok (n, s)) (gkeys a)
                  = omap (fun n => do c <- of_option (lookup_col (gframe b) n); do s <- col_subset c fs2; Ok (n, s)) (gkeys a)).
    { clear Hk. revert Hkc. generalize (gkeys a) as keys. induction keys as [|n ks IH]; intro Hkc; [reflexivity|]. cbn [omap].
      cbn [enum_keys_okb forallb] in Hkc. apply andb_true_iff in Hkc as [Hk1 Hk2]. rewrite (IH Hk2).
      pose proof (key_kcol_sim L (gframe a) (gframe b) n Hcs Hk1) as Hn. unfold lookup_kalike in Hn.
      destruct (lookup_col (gframe a) n) as [c1|], (lookup_col (gframe b) n) as [c2|];
        try contradiction; cbn [of_option obind]; [|reflexivity].
      rewrite (col_subset_sim c1 c2 fs1 fs2 Hn Hfirsts). reflexivity. }
    rewrite Hkeys.
    destruct (omap (fun n => do c <- of_option (lookup_col (gframe b) n); do s <- col_subset c fs2; Ok (n, s)) (gkeys a))
      as [keycols| |]; cbn [obind]; try reflexivity.
    assert (Hstep : forall acc x, agg_step ft a acc x = agg_step ft b acc x).
    { intros acc x. unfold agg_step.
      pose proof (lookup_col_sim L (gframe a) (gframe b) (acol x) Hcs) as Hn.
      destruct (lookup_col (gframe a) (acol x)) as [c1|], (lookup_col (gframe b) (acol x)) as [c2|];
        try contradiction; [|reflexivity].
      rewrite (agg_column_sim ft c1 c2 (gindices a) (gindices b) (agfn x) Hn Hi). reflexivity. }
    rewrite (ofold_ext _ _ aggs Hstep keycols), (F2_len _ _ _ Hi). reflexivity.
  Qed.

  (* ---- QFrames: one frame per group, pairwise the same logical table *)

  Lemma cols_same_table cs1 cs2 i1 i2 e : cols_sim L cs1 cs2 -> paired L i1 i2 ->
    abs (mkFrame cs1 i1 e) = abs (mkFrame cs2 i2 e).
  Proof.
    intros Hs Hp. unfold abs. cbn [cols ix].
    assert (Hrows : omap (row_at (mkFrame cs1 i1 e)) i1 = omap (row_at (mkFrame cs2 i2 e)) i2).
    { apply omap_sim; [apply (paired_length L); exact Hp|]. intros p q Hpq. unfold row_at. cbn [cols].
      apply (cols_sim_row L); [exact Hs|]. apply (paired_incl L _ _ Hp). exact Hpq. }
    rewrite Hrows. unfold col_names. cbn [cols]. rewrite (cols_sim_names L _ _ Hs), (cols_sim_types L _ _ Hs). reflexivity.
  Qed.

  Theorem qframes_sim a b : GRel a b ->
    osim (Forall2 (fun f' g' => ferr f' = ferr g' /\ abs f' = abs g')) (qframes a) (qframes b).
  Proof.
    intros [He Hk Hc Hkc Hi]. unfold qframes. rewrite <- He. destruct (gerr a); [exact I|]. cbn [osim].
    induction Hi as [|x y ind1 ind2 Hxy _ IH]; cbn [map]; constructor; [|exact IH].
    split; [reflexivity|]. apply cols_same_table; assumption.
  Qed.
End FrameSim.

(* ================================================================== from "the same logical table" *)

Section FromTable.
  Variables f g : frame.
  Variable t : table.
  Hypothesis Hf : abs f = Ok t.
  Hypothesis Hg : abs g = Ok t.
  Hypothesis He : ferr f = ferr g.
  Hypothesis Hw1 : wf_frame f = true.
  Hypothesis Hw2 : wf_frame g = true.

  Lemma table_paired : paired (combine (ix f) (ix g)) (ix f) (ix g).
  Proof. apply paired_combine. apply (rel_of_abs f g t Hf Hg He Hw1 Hw2). Qed.

  Lemma table_cols_sim : cols_sim (combine (ix f) (ix g)) (cols f) (cols g).
  Proof. apply (r_cols _ _ _ (proj1 (rel_of_abs f g t Hf Hg He Hw1 Hw2))). Qed.

  Lemma table_names : map fst (cols f) = map fst (cols g).
  Proof. apply (cols_sim_names _ _ _ table_cols_sim). Qed.

  (* C09 for Distinct: the same Err and the same logical table - the SAME representative of every key, in the
     same order - for every memhash and every random source that draws alike for the rows in the same slot *)
  Theorem distinct_congr mh nulleq rnd1 rnd2 columns :
    enum_keys_okb f g (distinct_keys f columns) = true ->
    rnd_agree nulleq (combine (ix f) (ix g)) rnd1 rnd2 ->
    same_outcome (distinct mh rnd1 nulleq f columns) (distinct mh rnd2 nulleq g columns).
  Proof.
    intros Hk Hr. apply (sorted_alike_outcome (combine (ix f) (ix g)) f g); [apply (rel_of_abs f g t Hf Hg He Hw1 Hw2)|].
    apply (distinct_sim f g _ He table_paired table_cols_sim); assumption.
  Qed.

  (* the two Groupers: same Err, same grouping columns, the groups correspond slot by slot with their members
     in the same order *)
  Theorem group_by_congr mh nulleq rnd1 rnd2 columns :
    enum_keys_okb f g columns = true ->
    rnd_agree nulleq (combine (ix f) (ix g)) rnd1 rnd2 ->
    osim (GRel (combine (ix f) (ix g))) (group_by mh rnd1 nulleq f columns) (group_by mh rnd2 nulleq g columns).
  Proof. intros Hk Hr. apply (group_by_sim f g _ He table_paired table_cols_sim); assumption. Qed.

  (* C09 for GroupBy + Aggregate: the two results are the same frame, physically (same columns in the same
     order with the same data, identity index, same Err) - hence the same table; or both runs panic *)
  Theorem groupby_aggregate_congr mh nulleq rnd1 rnd2 ft columns aggs :
    enum_keys_okb f g columns = true ->
    rnd_agree nulleq (combine (ix f) (ix g)) rnd1 rnd2 ->
    (do gr <- group_by mh rnd1 nulleq f columns; aggregate ft gr aggs)
    = (do gr <- group_by mh rnd2 nulleq g columns; aggregate ft gr aggs).
  Proof.
    intros Hk Hr. pose proof (group_by_congr mh nulleq rnd1 rnd2 columns Hk Hr) as H. unfold osim in H.
    destruct (group_by mh rnd1 nulleq f columns) as [a| |], (group_by mh rnd2 nulleq g columns) as [b| |];
      try contradiction; cbn [obind]; try reflexivity.
    apply (aggregate_sim (combine (ix f) (ix g))). exact H.
  Qed.

  (* C09 for GroupBy + QFrames: the same number of frames, pairwise with the same logical table *)
  Theorem groupby_qframes_congr mh nulleq rnd1 rnd2 columns :
    enum_keys_okb f g columns = true ->
    rnd_agree nulleq (combine (ix f) (ix g)) rnd1 rnd2 ->
    osim (Forall2 (fun f' g' => ferr f' = ferr g' /\ abs f' = abs g'))
         (do gr <- group_by mh rnd1 nulleq f columns; qframes gr)
         (do gr <- group_by mh rnd2 nulleq g columns; qframes gr).
  Proof.
    intros Hk Hr. eapply osim_bind; [apply (group_by_congr mh nulleq rnd1 rnd2 columns Hk Hr)|].
    intros a b Hab. apply (qframes_sim (combine (ix f) (ix g))). exact Hab.
  Qed.
End FromTable.

(* ================================================================== Distinct never returns the error value *)

(* (the model of Distinct answers Ok or Panic: same_outcome and same_result coincide on it) *)
Lemma obind_not_fail {X Y} (x : outcome X) (k : X -> outcome Y) :
  x <> Fail -> (forall a, k a <> Fail) -> obind x k <> Fail.
Proof. intros Hx Hk. destruct x; cbn [obind]; [apply Hk|exfalso; apply Hx; reflexivity|discriminate]. Qed.

Lemma idx_nf {X} (l : list X) i : idx l i <> Fail.
Proof. unfold idx. destruct (nth_error l i); discriminate. Qed.

Lemma omap_nf {X Y} (h : X -> outcome Y) l : (forall x, h x <> Fail) -> omap h l <> Fail.
Proof.
  intro H. induction l as [|x l IH]; cbn [omap]; [discriminate|].
  apply obind_not_fail; [apply H|]. intro a. apply obind_not_fail; [exact IH|]. discriminate.
Qed.

Section GrouperNoFail.
  Import Grouper.
  Context {A : Type}.
  Variable eqb : A -> A -> bool.
  Variable hash : A -> N.

  Lemma probe_nf stop : forall fuel (es : list (option (entry A))) mask pos coll, probe stop fuel es mask pos coll <> Fail.
  Proof.
    induction fuel as [|fuel IH]; intros es mask pos coll; cbn [probe]; [discriminate|].
    apply obind_not_fail; [apply idx_nf|]. intros [e|]; [|discriminate]. destruct (stop e); [discriminate|apply IH].
  Qed.

  Lemma grow_fold_nf fuel mask : forall (es : list (option (entry A))) st, st <> Fail ->
    fold_left (grow_step fuel mask) es st <> Fail.
  Proof.
    induction es as [|s es IH]; intros st Hst; cbn [fold_left]; [exact Hst|]. apply IH.
    unfold grow_step. apply obind_not_fail; [exact Hst|]. intro nc. apply obind_not_fail; [apply probe_nf|]. discriminate.
  Qed.

  Lemma grow_nf (t : table A) : grow t <> Fail.
  Proof. unfold grow. apply obind_not_fail; [apply grow_fold_nf; discriminate|]. discriminate. Qed.

  Lemma insert_entry_nf collect (t : table A) i : insert_entry eqb hash collect t i <> Fail.
  Proof.
    unfold insert_entry. apply obind_not_fail.
    - destruct (c_maxLoadFactor_num * lf_den t <? lf_num t * c_maxLoadFactor_den)%N; [apply grow_nf|discriminate].
    - intro t'. apply obind_not_fail; [apply probe_nf|]. intro pc. apply obind_not_fail; [apply idx_nf|].
      intros [e|]; [destruct collect|]; discriminate.
  Qed.

  Lemma insert_all_nf collect : forall ids (t : table A), insert_all eqb hash collect t ids <> Fail.
  Proof.
    induction ids as [|i ids IH]; intro t; cbn [insert_all]; [discriminate|].
    apply obind_not_fail; [apply insert_entry_nf|]. intro t'. apply IH.
  Qed.

  Lemma distinct_ids_gen_nf ids : distinct_ids_gen eqb hash ids <> Fail.
  Proof. unfold distinct_ids_gen, group_index. apply obind_not_fail; [apply insert_all_nf|]. discriminate. Qed.
End GrouperNoFail.

Lemma key_cell_at_nf c p : key_cell_at c p <> Fail.
Proof. destruct c; cbn [key_cell_at]; (apply obind_not_fail; [apply idx_nf|discriminate]). Qed.

Theorem distinct_not_fail mh rnd nulleq f columns : distinct mh rnd nulleq f columns <> Fail.
Proof.
  unfold distinct, distinct_with. destruct (ferr f); [discriminate|]. destruct (ix f) as [|p i]; [discriminate|].
  destruct (negb (forallb (contains f) columns)); [discriminate|].
  apply obind_not_fail.
  - unfold named_cols. apply omap_nf. intro n. destruct (lookup_col f n); discriminate.
  - intro kcols. apply obind_not_fail; [|discriminate]. unfold table_distinct. apply obind_not_fail.
    + apply omap_nf. intro q. unfold key_row. apply omap_nf. intro c. apply key_cell_at_nf.
    + intros _. unfold Grouper.distinct_ids. apply distinct_ids_gen_nf.
Qed.

(* C09 for Distinct in the form of the other operations *)
Theorem distinct_congr_result f g t mh nulleq rnd1 rnd2 columns :
  abs f = Ok t -> abs g = Ok t -> ferr f = ferr g -> wf_frame f = true -> wf_frame g = true ->
  enum_keys_okb f g (distinct_keys f columns) = true ->
  rnd_agree nulleq (combine (ix f) (ix g)) rnd1 rnd2 ->
  same_result (distinct mh rnd1 nulleq f columns) (distinct mh rnd2 nulleq g columns).
Proof.
  intros Hf Hg He Hw1 Hw2 Hk Hr. apply same_outcome_result; [|apply distinct_not_fail].
  apply (distinct_congr f g t); assumption.
Qed.

(* ================================================================== the summary statement *)

(* congruence_statement2 of CongruenceProofs.v extended by Sort, Distinct, GroupBy + Aggregate, GroupBy + QFrames.
   The additional premises of the new operations: the implementation compares, hashes and orders enum cells by
   RANK, so the enum columns named as sort / grouping keys must have the same value lists without repeated values
   (sort_keys_okb, enum_keys_okb; implied by Filter's premises enum_metas / enum_nodup_b: metas_keys); and, for the
   hash table under Null(false), the same random draws slot by slot (rnd_agree). *)
Definition congruence_statement3 : Prop :=
  forall f g t,
    wf_frame f = true -> wf_frame g = true -> NoDup (ix f) -> NoDup (ix g) ->
    abs f = Ok t -> abs g = Ok t -> ferr f = ferr g ->
    (forall ut is, forallb (fun i => afn_wf (ifn i)) is = true ->
                   upper_prog_okb ut f is = true -> upper_prog_okb ut g is = true ->
                   same_result (apply ut f is) (apply ut g is))
    /\ (forall name, same_result (with_row_nums f name) (with_row_nums g name))
    /\ (forall mt c, enum_metas f = enum_metas g -> enum_nodup_b f = true ->
                     same_result (frame_filter mt f c) (frame_filter mt g c))
    /\ (forall mt ut c is,
          enum_metas f = enum_metas g -> enum_nodup_b f = true -> forallb (fun i => afn_wf (ifn i)) is = true ->
          (forall ff, frame_filter mt f c = Ok ff -> upper_prog_okb ut (with_ix f (ix ff)) is = true) ->
          (forall gg, frame_filter mt g c = Ok gg -> upper_prog_okb ut (with_ix g (ix gg)) is = true) ->
          same_visible (filtered_apply mt ut f c is) (filtered_apply mt ut g c is))
    /\ (forall ut cx dst e, ctx_fn_ok cx = true ->
          same_result (Eval.eval ut cx f dst e) (Eval.eval ut cx g dst e))
    /\ (forall orders, sort_keys_okb f g orders = true ->
          same_result (sort_frame f orders) (sort_frame g orders))
    /\ (forall mh nulleq rnd1 rnd2 columns,
          enum_keys_okb f g (distinct_keys f columns) = true ->
          rnd_agree nulleq (combine (ix f) (ix g)) rnd1 rnd2 ->
          same_result (distinct mh rnd1 nulleq f columns) (distinct mh rnd2 nulleq g columns))
    /\ (forall mh nulleq rnd1 rnd2 ft columns aggs,
          enum_keys_okb f g columns = true ->
          rnd_agree nulleq (combine (ix f) (ix g)) rnd1 rnd2 ->
          (do gr <- group_by mh rnd1 nulleq f columns; aggregate ft gr aggs)
          = (do gr <- group_by mh rnd2 nulleq g columns; aggregate ft gr aggs))
    /\ (forall mh nulleq rnd1 rnd2 columns,
          enum_keys_okb f g columns = true ->
          rnd_agree nulleq (combine (ix f) (ix g)) rnd1 rnd2 ->
          osim (Forall2 (fun f' g' => ferr f' = ferr g' /\ abs f' = abs g'))
               (do gr <- group_by mh rnd1 nulleq f columns; qframes gr)
               (do gr <- group_by mh rnd2 nulleq g columns; qframes gr)).

Theorem congruence3 : congruence_statement3.
Proof.
  intros f g t Hw1 Hw2 Hn1 Hn2 Hf Hg He.
  destruct (congruence2 f g t Hw1 Hw2 Hn1 Hn2 Hf Hg He) as (C1 & C2 & C3 & C4 & C5).
  repeat split; try assumption.
  - intros orders Hk. apply (sort_congr_keys f g t orders); assumption.
  - intros mh nulleq rnd1 rnd2 columns Hk Hr. apply (distinct_congr_result f g t); assumption.
  - intros mh nulleq rnd1 rnd2 ft columns aggs Hk Hr. apply (groupby_aggregate_congr f g t); assumption.
  - intros mh nulleq rnd1 rnd2 columns Hk Hr. apply (groupby_qframes_congr f g t); assumption.
Qed.
