(* Proofs/SqlProofs2.v — ReadSQL with coercions and Precision > 0 (property C19, second wave).
   Everything here is about the executed model functions of Model/Sql.v (col_scan, read_sql, to_sql);
   the auxiliary formulations (dispatch, gen_scan, scan_gen) are proved equal to them; the
   specification-level definitions (fix_val, prep_val, prep, co_of, coerce_fn, g_co, g_of, spec_read_gen,
   spec_read_must_fail) live in Model/SqlSpec.v, which is also what the oracle of engine "sql" runs.

   float.Fixed and strconv.ParseFloat are NOT modelled: they stay arbitrary functions
   [fixed : N -> Z -> N] and [pf : bytes -> option N] (section variables), so every statement below
   holds whatever they compute. *)
From Coq Require Import String.
From QF Require Import Base.Prelude Model.Sql Model.IOFault Corr.IOCorr Proofs.SqlProofs.
Local Open Scope N_scope.

(* ------------------------------------------------------------------ small helpers *)

Definition out_map {A B} (f : A -> B) (o : outcome A) : outcome B :=
  match o with Ok a => Ok (f a) | Fail => Fail | Panic => Panic end.

(* a column with its coercion and precision removed *)
Definition strip (c : column) : column :=
  mkCol (c_kind c) (c_nulls c) (c_ptr c) (c_ints c) (c_floats c) (c_bools c) (c_strs c) None 0.

(* c' carries the same data as c, and has neither coercion nor precision *)
Definition same_data (c c' : column) : Prop :=
  c_kind c' = c_kind c /\ c_nulls c' = c_nulls c /\ c_ptr c' = c_ptr c /\ c_ints c' = c_ints c /\
  c_floats c' = c_floats c /\ c_bools c' = c_bools c /\ c_strs c' = c_strs c /\
  c_coerce c' = None /\ c_prec c' = 0%Z.

Lemma same_data_strip c c' : same_data c c' <-> c' = strip c.
Proof.
  split.
  - intros (H1 & H2 & H3 & H4 & H5 & H6 & H7 & H8 & H9).
    destruct c' as [k n p i f b s co pr]. simpl in *. subst. reflexivity.
  - intros ->. unfold same_data, strip. simpl. repeat split; reflexivity.
Qed.

(* Inf or NaN: exponent field all ones *)
Definition exp_all_ones (b : N) : bool := N.land (N.shiftr b 52) 0x7FF =? 0x7FF.

Section Read2.
  Variable fixed : N -> Z -> N.
  Variable pf : bytes -> option N.

  Notation col_scan := (col_scan fixed pf).
  Notation scan_col := (scan_col fixed pf).
  Notation scan_row := (scan_row fixed pf).
  Notation run_rows := (run_rows fixed pf).
  Notation read_row := (read_row fixed pf).
  Notation read_rows := (read_rows fixed pf).
  Notation read_sql := (read_sql fixed pf).
  Notation coerce_fn := (coerce_fn pf).
  Notation g_co := (g_co pf).
  Notation g_of := (g_of pf).
  Notation spec_read_gen := (spec_read_gen fixed pf).

  (* ================================================================ (a) the scanner *)

  (* the kind dispatch of Column.Scan (the switch), not looking at c.coerce *)
  Definition dispatch (c : column) (t : dval) : outcome column :=
    match t with
    | DBool v => Ok (col_bool c v)
    | DStr s => Ok (col_string c s)
    | DInt v => Ok (col_int c v)
    | DBytes s => Ok (col_string c s)
    | DFloat v => Ok (col_float fixed c v)
    | DNull => col_null c
    | DOther => Fail
    end.

  Section Generic.
    (* the coercion as an arbitrary Gallina function *)
    Variable g : dval -> option dval.

    Definition gen_scan (c : column) (t : dval) : outcome column :=
      match t with
      | DNull => col_null c
      | _ => match g t with Some t' => dispatch c t' | None => Fail end
      end.

    Fixpoint scan_gen (c : column) (vals : list dval) : outcome column :=
      match vals with
      | [] => Ok c
      | v :: vs => do c' <- gen_scan c v; scan_gen c' vs
      end.
  End Generic.

  Lemma gen_scan_id c t : gen_scan Some c t = dispatch c t.
  Proof. destruct t; reflexivity. Qed.

  Lemma col_scan_none c t : c_coerce c = None -> col_scan c t = dispatch c t.
  Proof. intros H. unfold Sql.col_scan. rewrite H. destruct t; reflexivity. Qed.

  Lemma col_scan_coerced c k t : c_coerce c = Some k -> col_scan c t = gen_scan (coerce_fn k) c t.
  Proof.
    intros H. unfold Sql.col_scan. rewrite H. unfold coerce_scan, gen_scan, coerce_fn.
    destruct k, t; try reflexivity. destruct (pf s); reflexivity.
  Qed.

  Lemma col_scan_gen c t : col_scan c t = gen_scan (g_co (c_coerce c)) c t.
  Proof.
    destruct (c_coerce c) as [k|] eqn:E; simpl.
    - now apply col_scan_coerced.
    - rewrite gen_scan_id. now apply col_scan_none.
  Qed.

  (* C19_scan_coerced *)
  Lemma scan_coerced c t :
    (c_coerce c = None -> col_scan c t = dispatch c t) /\
    (forall k, c_coerce c = Some k ->
       col_scan c t = match t with
                      | DNull => col_null c
                      | _ => match coerce_fn k t with Some t' => dispatch c t' | None => Fail end
                      end).
  Proof. split; [apply col_scan_none|intros k; apply col_scan_coerced]. Qed.

  (* ================================================================ (b) one column *)

  Lemma col_null_strip c : col_null (strip c) = out_map strip (col_null c).
  Proof. destruct c as [k n p i f b s co pr]. destruct k; reflexivity. Qed.

  Lemma dispatch_strip c w :
    dispatch (strip c) (fix_val fixed (c_prec c) w) = out_map strip (dispatch c w).
  Proof.
    destruct c as [k n p i f b s co pr]. destruct w; cbn [fix_val c_prec dispatch out_map].
    - unfold col_int, strip. simpl. destruct p; reflexivity.
    - unfold col_float, strip. simpl. destruct p; simpl; try reflexivity.
      destruct (Nat.ltb 0 n); reflexivity.
    - unfold col_bool, strip. simpl. destruct p; reflexivity.
    - unfold col_string, strip. simpl. destruct p; simpl; try reflexivity.
      destruct (Nat.ltb 0 n); reflexivity.
    - unfold col_string, strip. simpl. destruct p; simpl; try reflexivity.
      destruct (Nat.ltb 0 n); reflexivity.
    - apply col_null_strip.
    - reflexivity.
  Qed.

  (* one value: the scanner with coercion g and the column's precision, against the plain scanner
     (no coercion, precision 0) fed with the prepared value *)
  Lemma gen_scan_step g c c' v v' :
    same_data c c' ->
    (v = DNull /\ v' = DNull) \/ (v <> DNull /\ exists w, g v = Some w /\ v' = fix_val fixed (c_prec c) w) ->
    match gen_scan g c v with
    | Ok c1 => exists c1', col_scan c' v' = Ok c1' /\ same_data c1 c1'
    | Fail => col_scan c' v' = Fail
    | Panic => False
    end.
  Proof.
    intros Hs Hv. apply same_data_strip in Hs. subst c'.
    assert (Hcs : col_scan (strip c) v' = dispatch (strip c) v') by (apply col_scan_none; reflexivity).
    rewrite Hcs.
    assert (Hgen : dispatch (strip c) v' = out_map strip (gen_scan g c v)).
    { destruct Hv as [[-> ->]|(Hnn & w & Hg & ->)].
      - simpl. apply col_null_strip.
      - rewrite dispatch_strip. f_equal. unfold gen_scan. rewrite Hg. destruct v; try reflexivity. congruence. }
    rewrite Hgen. destruct (gen_scan g c v) as [c1| |] eqn:E; simpl; auto.
    - exists (strip c1). split; auto. now apply same_data_strip.
    - (* no Panic in the scanner *)
      unfold gen_scan in E. destruct v; try (destruct (g _) as [w|]; [|discriminate]);
        try (destruct w; try discriminate; unfold dispatch, col_null in E; destruct (c_kind c); discriminate).
      unfold col_null in E. destruct (c_kind c); discriminate.
  Qed.

  Lemma col_null_prec c c1 : col_null c = Ok c1 -> c_prec c1 = c_prec c.
  Proof. unfold col_null. destruct (c_kind c); intros H; inversion H; reflexivity. Qed.

  Lemma dispatch_prec c w c1 : dispatch c w = Ok c1 -> c_prec c1 = c_prec c.
  Proof.
    destruct w; simpl; try discriminate; try apply col_null_prec; intros H; inversion H; subst; clear H.
    - unfold col_int. destruct (is_pnil (c_ptr c)); reflexivity.
    - unfold col_float. destruct (is_pnil (c_ptr c)); simpl; [destruct (Nat.ltb 0 (c_nulls c))|]; reflexivity.
    - unfold col_bool. destruct (is_pnil (c_ptr c)); reflexivity.
    - unfold col_string. destruct (is_pnil (c_ptr c)); simpl; [destruct (Nat.ltb 0 (c_nulls c))|]; reflexivity.
    - unfold col_string. destruct (is_pnil (c_ptr c)); simpl; [destruct (Nat.ltb 0 (c_nulls c))|]; reflexivity.
  Qed.

  Lemma gen_scan_prec g c v c1 : gen_scan g c v = Ok c1 -> c_prec c1 = c_prec c.
  Proof.
    unfold gen_scan. destruct v; try apply col_null_prec;
      (destruct (g _) as [w|]; [apply dispatch_prec|discriminate]).
  Qed.

  Lemma gen_scan_no_panic g c v : gen_scan g c v <> Panic.
  Proof.
    assert (Hn : col_null c <> Panic) by (unfold col_null; destruct (c_kind c); discriminate).
    unfold gen_scan. destruct v; try exact Hn;
      (destruct (g _) as [w|]; [|discriminate]; destruct w; simpl; try discriminate; exact Hn).
  Qed.

  Lemma gen_scan_strip g c v w :
    prep_val g fixed (c_prec c) v = Some w ->
    col_scan (strip c) w = out_map strip (gen_scan g c v).
  Proof.
    intros H. rewrite col_scan_none by reflexivity.
    destruct v; simpl in H;
      try (destruct (g _) as [u|] eqn:Eg; simpl in H; [|discriminate]; inversion H; subst; clear H;
           rewrite dispatch_strip; unfold gen_scan; rewrite Eg; reflexivity).
    inversion H; subst. simpl. apply col_null_strip.
  Qed.

  (* a whole column *)
  Lemma scan_gen_strip g : forall vals vals' c,
    prep g fixed (c_prec c) vals = Some vals' ->
    scan_col (strip c) vals' = out_map strip (scan_gen g c vals).
  Proof.
    induction vals as [|v vs IH]; intros vals' c H.
    - inversion H; subst. reflexivity.
    - unfold prep in H. simpl in H. apply opt_all_cons_inv in H as (w & ws & Hw & Hws & ->).
      cbn [SqlProofs.scan_col scan_gen]. rewrite (gen_scan_strip g c v w Hw).
      destruct (gen_scan g c v) as [c1| |] eqn:E; simpl; auto.
      apply IH. rewrite (gen_scan_prec _ _ _ _ E). exact Hws.
  Qed.

  (* a coercion error (or any other scan error) on the way: the scan reports an error *)
  Lemma scan_gen_error g : forall vals c,
    prep g fixed (c_prec c) vals = None -> scan_gen g c vals = Fail.
  Proof.
    induction vals as [|v vs IH]; intros c H; [discriminate|].
    unfold prep in H. simpl in H. cbn [scan_gen].
    destruct (gen_scan g c v) as [c1| |] eqn:E; simpl; auto.
    - apply IH. rewrite (gen_scan_prec _ _ _ _ E).
      destruct (prep_val g fixed (c_prec c) v) as [w|] eqn:Ew.
      + unfold prep. destruct (opt_all (map (prep_val g fixed (c_prec c)) vs)); [discriminate|reflexivity].
      + exfalso. unfold gen_scan in E. destruct v; simpl in Ew; try discriminate;
          destruct (g _); discriminate.
    - exfalso. eapply gen_scan_no_panic; eauto.
  Qed.

  (* the model's column loop is the generic one with the column's own coercion *)
  Lemma scan_col_gen : forall vals c, scan_col c vals = scan_gen (g_co (c_coerce c)) c vals.
  Proof.
    induction vals as [|v vs IH]; intros c; [reflexivity|].
    cbn [SqlProofs.scan_col scan_gen]. rewrite col_scan_gen.
    destruct (gen_scan (g_co (c_coerce c)) c v) as [c1| |] eqn:E; simpl; auto.
    rewrite IH. rewrite <- col_scan_gen in E. now rewrite (col_scan_coerce fixed pf _ _ _ E).
  Qed.

  Lemma col_data_strip c : col_data (strip c) = col_data c.
  Proof. reflexivity. Qed.

  (* C19_read_coerced at column level: the prepared values form a column of one SQL type ->
     Data() of the scanned column is that column *)
  Lemma scan_col_prep_spec vals vals' d prec co :
    prep (g_co co) fixed prec vals = Some vals' -> spec_column vals' = Some d ->
    exists c, scan_col (new_column prec co) vals = Ok c /\ col_data c = Some d
              /\ coldata_len d = length vals.
  Proof.
    intros Hp Hs.
    destruct (scan_col_spec fixed pf vals' d 0 ltac:(lia) Hs) as (c0 & Hc0 & Hd & Hl).
    pose proof (scan_gen_strip (g_co co) vals vals' (new_column prec co) Hp) as H.
    change (strip (new_column prec co)) with (new_column 0 None) in H. rewrite Hc0 in H.
    rewrite scan_col_gen. cbn [c_coerce new_column].
    destruct (scan_gen (g_co co) (new_column prec co) vals) as [c| |]; simpl in H; try discriminate.
    inversion H; subst c0. exists c. split; [reflexivity|]. split; [exact Hd|].
    rewrite Hl. unfold prep in Hp. apply opt_all_length in Hp. now rewrite map_length in Hp.
  Qed.

  Lemma scan_col_prep_error vals prec co :
    prep (g_co co) fixed prec vals = None -> scan_col (new_column prec co) vals = Fail.
  Proof. intros H. rewrite scan_col_gen. now apply scan_gen_error. Qed.

  (* in particular: a non-NULL value on which the coercion reports an error *)
  Lemma prep_error_at g prec vals v :
    In v vals -> v <> DNull -> g v = None -> prep g fixed prec vals = None.
  Proof.
    intros Hin Hnn Hg. unfold prep. induction vals as [|x xs IH]; [contradiction|].
    simpl. destruct Hin as [->|Hin].
    - replace (prep_val g fixed prec v) with (@None dval); [reflexivity|].
      destruct v; simpl; try (now rewrite Hg). congruence.
    - destruct (prep_val g fixed prec x); [|reflexivity]. now rewrite IH.
  Qed.

  (* ================================================================ (c) the whole result set *)

  (* the "ensure any column in the coercion map exists" block runs with colNames = nil: it never reports *)
  Lemma coerce_check_nil m : coerce_check m [] = true.
  Proof. unfold coerce_check. induction m as [|p m IH]; simpl; auto. Qed.

  Lemma read_row_first conf names row :
    read_row conf names ([], []) row
    = if coerce_nil_hit conf names then Fail
      else do cols' <- scan_row (alloc_plain names conf) row; Ok (cols', names).
  Proof.
    unfold Sql.read_row. rewrite alloc_columns_eq.
    destruct (coerce_nil_hit conf names); [reflexivity|]. cbn [obind].
    replace (match q_coerce conf with Some m => coerce_check m [] | None => true end) with true
      by (destruct (q_coerce conf); [now rewrite coerce_check_nil|reflexivity]).
    reflexivity.
  Qed.

  Lemma read_row_steady conf names cols row :
    length cols = length names ->
    read_row conf names (cols, names) row = do cols' <- scan_row cols row; Ok (cols', names).
  Proof.
    intros Hlen. destruct cols as [|c cs]; [|reflexivity].
    destruct names; [|discriminate]. rewrite read_row_first. reflexivity.
  Qed.

  Lemma read_rows_run2 conf names : forall rs k cols,
    length cols = length names ->
    read_rows conf names None k (cols, names) rs = do cs <- run_rows cols rs; Ok (cs, names).
  Proof.
    induction rs as [|r rs IH]; intros k cols Hlen; [reflexivity|].
    rewrite read_rows_cons. rewrite read_row_steady by exact Hlen. cbn [SqlProofs.run_rows].
    destruct (scan_row cols r) as [cols'| |] eqn:E; simpl; auto.
    apply IH. rewrite (scan_row_length fixed pf _ _ _ E). exact Hlen.
  Qed.

  Lemma read_rows_first2 conf names r rs :
    read_rows conf names None 0 ([], []) (r :: rs)
    = if coerce_nil_hit conf names then Fail
      else do cs <- run_rows (alloc_plain names conf) (r :: rs); Ok (cs, names).
  Proof.
    rewrite read_rows_cons. rewrite read_row_first.
    destruct (coerce_nil_hit conf names); [reflexivity|]. cbn [SqlProofs.run_rows].
    destruct (scan_row (alloc_plain names conf) r) as [cols'| |] eqn:E; simpl; auto.
    apply read_rows_run2. rewrite (scan_row_length fixed pf _ _ _ E). unfold alloc_plain. now rewrite map_length.
  Qed.

  Lemma alloc_nth conf names j dc :
    (j < length names)%nat ->
    nth j (alloc_plain names conf) dc = new_column (q_precision conf) (co_of conf (nth j names [])).
  Proof.
    intros Hj. unfold alloc_plain.
    rewrite nth_indep with (d' := new_column (q_precision conf) (co_of conf []))
      by (now rewrite map_length).
    unfold co_of.
    exact (map_nth (fun name => new_column (q_precision conf)
                                  (match q_coerce conf with Some m => coerce_lookup m name | None => None end))
                   names [] j).
  Qed.

  (* from the final columns to the frame: the result map and qframe.New (any configuration) *)
  Lemma read_sql_from_run conf names r rs finals ds dc :
    NoDup names -> forallb check_name names = true -> coerce_nil_hit conf names = false ->
    run_rows (alloc_plain names conf) (r :: rs) = Ok finals ->
    length finals = length names -> length ds = length names ->
    (forall j, (j < length names)%nat ->
       col_data (nth j finals dc) = Some (nth j ds (CInt []))
       /\ coldata_len (nth j ds (CInt [])) = length (r :: rs)) ->
    read_sql conf (mkRS names (r :: rs)) no_faults = Ok (combine names ds).
  Proof.
    intros Hnd Hnames Hnil Hrun Hfinlen Hdslen Hfin.
    unfold Sql.read_sql. cbn [sf_prepare sf_query sf_row no_faults]. unfold Sql.io_read_sql.
    cbn [rs_names rs_rows].
    rewrite read_rows_first2. rewrite Hnil. rewrite Hrun. cbn [obind].
    pose proof (result_map_spec pf finals names [] [] Hfinlen Hnd eq_refl) as Hrm. simpl in Hrm.
    rewrite Hrm. cbn [obind].
    assert (Hmap : map col_data finals = map Some ds).
    { apply nth_ext with (d := col_data dc) (d' := Some (CInt [])).
      - now rewrite !map_length, Hfinlen.
      - intros j Hj. rewrite map_length, Hfinlen in Hj. rewrite !map_nth. now apply Hfin. }
    rewrite Hmap.
    unfold qframe_new.
    set (data := combine names (map Some ds)).
    assert (Hfst : map fst data = names) by (unfold data; apply fst_combine; now rewrite map_length).
    assert (Hchk : forallb (fun p : bytes * option coldata => check_name (fst p)) data = true).
    { apply forallb_forall. intros p Hpin. rewrite forallb_forall in Hnames. apply Hnames.
      rewrite <- Hfst. now apply in_map. }
    rewrite Hchk. cbn [negb].
    assert (Hdlen : length data = length names).
    { unfold data. rewrite combine_length, map_length, Hdslen. lia. }
    rewrite Hdlen, Nat.eqb_refl. cbn [negb].
    assert (Hget : forall n d, In (n, d) (combine names ds) -> map_get data n = Some (Some d)).
    { intros n d Hin. apply map_get_in; [now rewrite Hfst|].
      unfold data. now apply in_combine_map_some. }
    assert (Hall : forallb (fun n => match map_get data n with Some _ => true | None => false end) names = true).
    { apply forallb_forall. intros n Hn.
      destruct (In_nth names n [] Hn) as (j & Hj & Hnth).
      assert (Hin : In (n, nth j ds (CInt [])) (combine names ds)).
      { rewrite <- Hnth. rewrite <- (combine_nth names ds j [] (CInt [])) by auto.
        apply nth_In. rewrite combine_length, Hdslen. lia. }
      now rewrite (Hget _ _ Hin). }
    rewrite Hall. cbn [negb].
    apply new_columns_spec with (L := length (r :: rs)); auto.
    intros n d Hin. split; [now apply Hget|].
    destruct (In_nth _ _ ([], CInt []) Hin) as (j & Hj & Hnth).
    rewrite combine_length, Hdslen, Nat.min_id in Hj.
    rewrite combine_nth in Hnth by auto. injection Hnth as Hn Hd. rewrite <- Hd.
    now apply Hfin.
  Qed.

  (* C19_read_coerced: for EVERY configuration (any coercion map, any precision) *)
  Lemma read_sql_gen_spec conf names rows cols :
    spec_read_gen conf names rows = Some cols ->
    read_sql conf (mkRS names rows) no_faults = Ok cols.
  Proof.
    unfold spec_read_gen.
    destruct (negb (forallb (fun r => Nat.eqb (length r) (length names)) rows)) eqn:C1; [discriminate|].
    destruct (negb (nodupb names && forallb check_name names)) eqn:C2; [discriminate|].
    destruct (Nat.eqb (length rows) 0) eqn:C3; [discriminate|].
    destruct (coerce_nil_hit conf names) eqn:C5; [discriminate|].
    set (colspec := fun j =>
           match prep (g_of conf (nth j names [])) fixed (q_precision conf) (column_vals rows j) with
           | Some vals' => spec_column vals'
           | None => None
           end).
    destruct (opt_all (map colspec (seq 0 (length names)))) as [ds|] eqn:C4; [|discriminate].
    simpl. intros H; inversion H; subst cols; clear H.
    apply negb_false_iff in C1. apply negb_false_iff in C2. apply andb_true_iff in C2 as [Hnd Hnames].
    apply nodupb_NoDup in Hnd. apply Nat.eqb_neq in C3.
    rewrite forallb_forall in C1.
    assert (Hdslen : length ds = length names).
    { apply opt_all_length in C4. now rewrite map_length, seq_length in C4. }
    set (dc := new_column 0 None).
    set (colj := fun j => new_column (q_precision conf) (co_of conf (nth j names []))).
    set (fin := fun j => match scan_col (colj j) (column_vals rows j) with Ok c => c | _ => dc end).
    set (finals := map fin (seq 0 (length names))).
    assert (Hfin : forall j, (j < length names)%nat ->
              scan_col (colj j) (column_vals rows j) = Ok (nth j finals dc)
              /\ col_data (nth j finals dc) = Some (nth j ds (CInt []))
              /\ coldata_len (nth j ds (CInt [])) = length rows).
    { intros j Hj.
      pose proof (opt_all_nth colspec 0%nat (CInt []) _ _ C4 j) as Hs.
      rewrite seq_length in Hs. specialize (Hs Hj). rewrite seq_nth in Hs by lia. simpl in Hs.
      unfold colspec in Hs.
      destruct (prep (g_of conf (nth j names [])) fixed (q_precision conf) (column_vals rows j)) as [vals'|] eqn:Ep;
        [|discriminate].
      destruct (scan_col_prep_spec _ _ _ _ _ Ep Hs) as (c & Hc & Hd & Hl).
      assert (Hn : nth j finals dc = c).
      { subst finals. rewrite nth_map_seq by exact Hj. unfold fin, colj. now rewrite Hc. }
      rewrite Hn. repeat split; auto.
      rewrite Hl. unfold column_vals. now rewrite map_length. }
    assert (Hfinlen : length finals = length names) by (subst finals; now rewrite map_length, seq_length).
    assert (Halen : length (alloc_plain names conf) = length names)
      by (unfold alloc_plain; now rewrite map_length).
    assert (Hrun : run_rows (alloc_plain names conf) rows = Ok finals).
    { apply run_rows_cols with (dc := dc).
      - intros r Hr. rewrite Halen. apply Nat.eqb_eq. now apply C1.
      - now rewrite Halen.
      - rewrite Halen. intros j Hj. rewrite alloc_nth by exact Hj. now apply Hfin. }
    destruct rows as [|r rs]; [simpl in C3; lia|].
    apply read_sql_from_run with (finals := finals) (dc := dc); auto.
    intros j Hj. destruct (Hfin j Hj) as (_ & H1 & H2). auto.
  Qed.

  (* ---------------------------------------------------------------- spec_read_gen generalises spec_read *)

  Lemma prep_id g prec vals :
    (forall v, In v vals -> v = DNull \/ (g v = Some v /\ fix_val fixed prec v = v)) ->
    prep g fixed prec vals = Some vals.
  Proof.
    unfold prep. induction vals as [|v vs IH]; intros H; [reflexivity|].
    simpl. rewrite IH by (intros x Hx; apply H; now right).
    destruct (H v (or_introl eq_refl)) as [->|[Hg Hf]]; [reflexivity|].
    unfold prep_val. rewrite Hg. simpl. rewrite Hf. destruct v; reflexivity.
  Qed.

  Lemma fix_val_nonpos prec v : (prec <= 0)%Z -> fix_val fixed prec v = v.
  Proof.
    intros Hp. destruct v; simpl; auto.
    replace (0 <? prec)%Z with false by (symmetry; apply Z.ltb_ge; exact Hp). reflexivity.
  Qed.

  Lemma spec_read_gen_same conf names rows :
    coerce_nil_hit conf names = false ->
    (forall j, (j < length names)%nat ->
       prep (g_of conf (nth j names [])) fixed (q_precision conf) (column_vals rows j) = Some (column_vals rows j)) ->
    spec_read_gen conf names rows = spec_read names rows.
  Proof.
    intros Hnil H. unfold spec_read_gen, spec_read.
    destruct (negb (forallb _ rows)); [reflexivity|].
    destruct (negb (nodupb names && forallb check_name names)); [reflexivity|].
    destruct (Nat.eqb (length rows) 0); [reflexivity|]. rewrite Hnil.
    f_equal. f_equal. apply map_ext_in. intros j Hj. apply in_seq in Hj. destruct Hj as [_ Hj]. simpl in Hj.
    match goal with |- match ?p with _ => _ end = _ =>
      replace p with (Some (column_vals rows j)) by (symmetry; exact (H j Hj)) end.
    reflexivity.
  Qed.

  (* without coercion map and precision the new specification is the old one: C19_read is an instance *)
  Lemma spec_read_gen_plain conf names rows :
    q_coerce conf = None -> (q_precision conf <= 0)%Z ->
    spec_read_gen conf names rows = spec_read names rows.
  Proof.
    intros Hco Hp. apply spec_read_gen_same; [now apply coerce_nil_hit_none|].
    intros j Hj. apply prep_id. intros v Hv. right.
    split; [|now apply fix_val_nonpos]. unfold g_of, co_of. rewrite Hco. reflexivity.
  Qed.

  (* ---------------------------------------------------------------- a coercion error anywhere -> no frame *)

  Lemma scan_row_coerce : forall cols row cols',
    scan_row cols row = Ok cols' -> map c_coerce cols' = map c_coerce cols.
  Proof.
    induction cols as [|c cs IH]; intros row cols'; destruct row as [|v vs]; simpl; try discriminate.
    - intros H; inversion H; reflexivity.
    - destruct (col_scan c v) as [c1| |] eqn:E1; simpl; try discriminate.
      destruct (scan_row cs vs) as [cs1| |] eqn:E2; simpl; try discriminate.
      intros H; inversion H; subst. simpl. f_equal; [exact (col_scan_coerce fixed pf _ _ _ E1)|eauto].
  Qed.

  Lemma scan_row_each : forall cols row cols' j c v,
    scan_row cols row = Ok cols' -> nth_error cols j = Some c -> nth_error row j = Some v ->
    exists c', col_scan c v = Ok c'.
  Proof.
    induction cols as [|c0 cs IH]; intros row cols' j c v; destruct row as [|v0 vs]; simpl; try discriminate.
    - intros _ H. destruct j; discriminate.
    - destruct (col_scan c0 v0) as [c1| |] eqn:E1; simpl; try discriminate.
      destruct (scan_row cs vs) as [cs1| |] eqn:E2; simpl; try discriminate.
      intros _ Hc Hv. destruct j as [|j]; simpl in *.
      + inversion Hc; inversion Hv; subst. eauto.
      + eapply IH; eauto.
  Qed.

  Lemma alloc_coerce conf names : map c_coerce (alloc_plain names conf) = map (co_of conf) names.
  Proof. unfold alloc_plain. rewrite map_map. reflexivity. Qed.

  Definition st_inv (conf : sql_config) (names : list bytes) (st : list column * list bytes) : Prop :=
    fst st = [] \/ map c_coerce (fst st) = map (co_of conf) names.

  Definition row_coercible (conf : sql_config) (names : list bytes) (row : list dval) : Prop :=
    forall j n v, nth_error names j = Some n -> nth_error row j = Some v -> v <> DNull ->
                  g_of conf n v <> None.

  Lemma read_row_coercible conf names st row st' :
    st_inv conf names st -> read_row conf names st row = Ok st' ->
    st_inv conf names st' /\ row_coercible conf names row.
  Proof.
    intros Hinv H. destruct st as [columns colNames].
    assert (Hex : exists cols1 cols', map c_coerce cols1 = map (co_of conf) names
                                      /\ scan_row cols1 row = Ok cols' /\ fst st' = cols').
    { unfold Sql.read_row in H. destruct columns as [|c0 cs].
      - rewrite alloc_columns_eq in H. destruct (coerce_nil_hit conf names); [discriminate|]. cbn [obind] in H.
        destruct (match q_coerce conf with Some m => coerce_check m colNames | None => true end); [|discriminate].
        cbn [obind] in H.
        destruct (scan_row (alloc_plain names conf) row) as [cols'| |] eqn:E; simpl in H; try discriminate.
        inversion H; subst. exists (alloc_plain names conf), cols'. split; [apply alloc_coerce|auto].
      - cbn [obind] in H.
        destruct (scan_row (c0 :: cs) row) as [cols'| |] eqn:E; simpl in H; try discriminate.
        inversion H; subst. exists (c0 :: cs), cols'. split; auto.
        destruct Hinv as [Hnil|Hco]; [discriminate|exact Hco]. }
    destruct Hex as (cols1 & cols' & Hco & Hscan & Hst). split.
    - right. rewrite Hst. now rewrite (scan_row_coerce _ _ _ Hscan).
    - intros j n v Hn Hv Hnn Hg.
      assert (Hcj : nth_error (map c_coerce cols1) j = Some (co_of conf n))
        by (rewrite Hco; now rewrite nth_error_map, Hn).
      rewrite nth_error_map in Hcj. destruct (nth_error cols1 j) as [c|] eqn:Ec; [|discriminate].
      simpl in Hcj. inversion Hcj as [Hck].
      destruct (scan_row_each _ _ _ _ _ _ Hscan Ec Hv) as [c' Hc'].
      rewrite col_scan_gen in Hc'. rewrite Hck in Hc'. unfold g_of in Hg. unfold gen_scan in Hc'.
      rewrite Hg in Hc'. destruct v; try discriminate. congruence.
  Qed.

  Lemma read_rows_coercible conf names : forall rows k st res,
    st_inv conf names st -> read_rows conf names None k st rows = Ok res ->
    forall row, In row rows -> row_coercible conf names row.
  Proof.
    induction rows as [|row rest IH]; intros k st res Hinv H r Hr; [contradiction|].
    rewrite read_rows_cons in H.
    destruct (read_row conf names st row) as [st'| |] eqn:E; simpl in H; try discriminate.
    destruct (read_row_coercible _ _ _ _ _ Hinv E) as [Hinv' Hrow].
    destruct Hr as [<-|Hr]; [exact Hrow|]. eapply IH; eauto.
  Qed.

  (* C19_coercion_error: a non-NULL value on which the coercion configured for its column reports an
     error, anywhere in the result set: ReadSQL does not return a frame *)
  Lemma read_sql_coercion_error conf rs row j n v res :
    In row (rs_rows rs) -> nth_error (rs_names rs) j = Some n -> nth_error row j = Some v ->
    v <> DNull -> g_of conf n v = None ->
    read_sql conf rs no_faults <> Ok res.
  Proof.
    intros Hrow Hn Hv Hnn Hg. unfold Sql.read_sql. simpl. unfold Sql.io_read_sql.
    destruct (Sql.read_rows fixed pf conf (rs_names rs) None 0 ([], []) (rs_rows rs)) as [st| |] eqn:E;
      simpl; try discriminate.
    exfalso.
    assert (Hinv : st_inv conf (rs_names rs) ([], [])) by (left; reflexivity).
    exact (read_rows_coercible conf (rs_names rs) (rs_rows rs) 0%nat ([], []) st Hinv E row Hrow j n v Hn Hv Hnn Hg).
  Qed.

  (* the errors of the two shipped coercions *)
  Lemma coerce_fn_int64_to_bool_error v : (forall z, v <> DInt z) -> coerce_fn CoInt64ToBool v = None.
  Proof. intros H. destruct v; try reflexivity. exfalso. eapply H; eauto. Qed.

  Lemma coerce_fn_string_to_float_error v :
    (forall s, v = DStr s -> pf s = None) -> coerce_fn CoStringToFloat v = None.
  Proof. intros H. destruct v; try reflexivity. simpl. now rewrite (H s eq_refl). Qed.

  (* ================================================================ (5) Precision > 0, made explicit *)

  (* the float cell a driver value becomes in a float column read with precision p > 0 *)
  Definition fix_cell (p : Z) (v : dval) : N :=
    match v with DFloat x => fixed x p | _ => nan_bits end.

  Lemma prep_some prec vals : prep Some fixed prec vals = Some (map (fix_val fixed prec) vals).
  Proof.
    unfold prep. induction vals as [|v vs IH]; [reflexivity|].
    simpl. rewrite IH. destruct v; reflexivity.
  Qed.

  Lemma find_map_fix prec vals :
    find (fun v => negb (spec_is_null v)) (map (fix_val fixed prec) vals)
    = option_map (fix_val fixed prec) (find (fun v => negb (spec_is_null v)) vals).
  Proof.
    induction vals as [|v vs IH]; [reflexivity|]. simpl. rewrite IH. destruct v; reflexivity.
  Qed.

  Lemma to_float_fix p : (0 < p)%Z -> forall vals xs,
    opt_all (map to_float vals) = Some xs ->
    opt_all (map to_float (map (fix_val fixed p) vals)) = Some (map (fix_cell p) vals).
  Proof.
    intros Hp. induction vals as [|v vs IH]; intros xs H; [reflexivity|].
    simpl in H. apply opt_all_cons_inv in H as (a & r & Ha & Hr & ->).
    simpl. rewrite (IH r Hr).
    destruct v; try discriminate; simpl; [|reflexivity].
    replace (0 <? p)%Z with true by (symmetry; apply Z.ltb_lt; exact Hp). reflexivity.
  Qed.

  Lemma spec_column_float_fix p vals xs :
    (0 < p)%Z -> spec_column vals = Some (CFloat xs) ->
    spec_column (map (fix_val fixed p) vals) = Some (CFloat (map (fix_cell p) vals)).
  Proof.
    intros Hp. unfold spec_column. rewrite find_map_fix.
    destruct (find (fun v => negb (spec_is_null v)) vals) as [v0|]; [|discriminate].
    destruct v0; simpl; try discriminate;
      try (destruct (opt_all _); simpl; discriminate).
    fold to_float. destruct (opt_all (map to_float vals)) as [ys|] eqn:E; [|discriminate].
    intros _. rewrite (to_float_fix p Hp vals ys E). reflexivity.
  Qed.

  Lemma opt_all_in {A B} (g : A -> option B) l r v :
    opt_all (map g l) = Some r -> In v l -> g v <> None.
  Proof.
    revert r. induction l as [|a l IH]; intros r H Hin; [contradiction|].
    simpl in H. apply opt_all_cons_inv in H as (b & r' & Hb & Hr & ->).
    destruct Hin as [->|Hin]; [congruence|eauto].
  Qed.

  Lemma spec_column_nofloat vals d :
    spec_column vals = Some d -> (forall xs, d <> CFloat xs) -> forall x, ~ In (DFloat x) vals.
  Proof.
    unfold spec_column. intros H Hd x Hin.
    destruct (find (fun v => negb (spec_is_null v)) vals) as [v0|]; [|discriminate].
    destruct v0; try discriminate;
      (destruct (opt_all _) as [r|] eqn:E; [|discriminate]; simpl in H; inversion H; subst;
       try (eapply Hd; reflexivity);
       exact (opt_all_in _ _ _ _ E Hin eq_refl)).
  Qed.

  Lemma map_fix_id p vals :
    (forall x, In (DFloat x) vals -> (p <= 0)%Z \/ fixed x p = x) -> map (fix_val fixed p) vals = vals.
  Proof.
    induction vals as [|v vs IH]; intros H; [reflexivity|].
    simpl. rewrite IH by (intros x Hx; apply H; now right). f_equal.
    destruct v; try reflexivity. destruct (H b (or_introl eq_refl)) as [Hp|Hf].
    - now apply fix_val_nonpos.
    - simpl. rewrite Hf. now destruct (0 <? p)%Z.
  Qed.

  (* a float column read with precision p > 0: every value goes through float.Fixed, every NULL
     (leading ones included, back-filled) is math.NaN() and does NOT go through float.Fixed *)
  Lemma scan_precision_float p vals xs :
    (0 < p)%Z -> spec_column vals = Some (CFloat xs) ->
    exists c, scan_col (new_column p None) vals = Ok c
              /\ col_data c = Some (CFloat (map (fix_cell p) vals)).
  Proof.
    intros Hp Hs.
    destruct (scan_col_prep_spec vals _ _ p None (prep_some p vals) (spec_column_float_fix p vals xs Hp Hs))
      as (c & Hc & Hd & _).
    eauto.
  Qed.

  (* a column whose float values float.Fixed leaves alone (in particular a column without floats):
     the precision has no effect *)
  Lemma scan_precision_fixpoint p vals d :
    spec_column vals = Some d -> (forall x, In (DFloat x) vals -> (p <= 0)%Z \/ fixed x p = x) ->
    exists c, scan_col (new_column p None) vals = Ok c /\ col_data c = Some d.
  Proof.
    intros Hs Hf.
    assert (Hp : prep (g_co None) fixed p vals = Some vals) by (simpl; rewrite prep_some; now rewrite map_fix_id).
    destruct (scan_col_prep_spec vals vals d p None Hp Hs) as (c & Hc & Hd & _). eauto.
  Qed.

  (* int, bool and string columns are returned unchanged whatever the precision *)
  Lemma scan_precision_other p vals d :
    spec_column vals = Some d -> (forall xs, d <> CFloat xs) ->
    exists c, scan_col (new_column p None) vals = Ok c /\ col_data c = Some d.
  Proof.
    intros Hs Hd. apply scan_precision_fixpoint; auto.
    intros x Hx. exfalso. exact (spec_column_nofloat vals d Hs Hd x Hx).
  Qed.

  (* if float.Fixed returns NaN and the infinities unchanged (the guard of Fixed: IsNaN(scaled) ||
     Abs(scaled) >= 1<<53 -> return num), a column of such values is untouched by the precision *)
  Lemma scan_precision_special p vals d :
    (forall x, exp_all_ones x = true -> fixed x p = x) ->
    (forall x, In (DFloat x) vals -> exp_all_ones x = true) ->
    spec_column vals = Some d ->
    exists c, scan_col (new_column p None) vals = Ok c /\ col_data c = Some d.
  Proof.
    intros Hfix Hvals Hs. apply scan_precision_fixpoint; auto.
  Qed.

  Lemma is_nan_exp_all_ones x : is_nan x = true -> exp_all_ones x = true.
  Proof. unfold is_nan, exp_all_ones. intros H. now apply andb_true_iff in H as [H _]. Qed.

  (* ================================================================ (6) the round trip with options *)

  Lemma coerce_entry_co_of conf n : coerce_entry conf n = None -> co_of conf n = None.
  Proof. unfold coerce_entry, co_of, coerce_lookup. destruct (q_coerce conf); [|reflexivity]. now intros ->. Qed.

  Lemma coerce_nil_hit_unbound conf names :
    (forall n, In n names -> coerce_entry conf n = None) -> coerce_nil_hit conf names = false.
  Proof.
    intros H. unfold coerce_nil_hit. destruct (existsb _ names) eqn:E; [|reflexivity].
    apply existsb_exists in E as (n & Hn & Hx). rewrite (H n Hn) in Hx. discriminate.
  Qed.

  Lemma roundtrip_options f conf cols :
    (forall n, In n (map fst (fcols f)) -> coerce_entry conf n = None) ->
    ((q_precision conf <= 0)%Z \/
     forall rows row x, spec_rows f = Some rows -> In row rows -> In (DFloat x) row ->
                        fixed x (q_precision conf) = x) ->
    spec_frame f = Some cols ->
    exists log,
      to_sql f conf (fun _ => true) = (log, SOk) /\
      length log = length (findex f) /\
      read_sql conf (store_of (map fst (fcols f)) log) no_faults = Ok cols.
  Proof.
    intros Hco Hp Hs. unfold spec_frame in Hs. destruct (spec_rows f) as [rows|] eqn:Er; [|discriminate].
    exists (map (mk_stmt f conf) rows). split; [now apply to_sql_statements|]. split.
    - rewrite map_length. now apply spec_rows_length.
    - unfold store_of. rewrite map_map. unfold mk_stmt. simpl. rewrite map_id.
      apply read_sql_gen_spec. rewrite spec_read_gen_same; [exact Hs|now apply coerce_nil_hit_unbound|].
      intros j Hj. apply prep_id. intros v Hv.
      unfold column_vals in Hv. apply in_map_iff in Hv as (r & Hv & Hr).
      destruct (nth_in_or_default j r DNull) as [Hin|Hd]; [|left; congruence].
      right. split.
      + unfold g_of. rewrite (coerce_entry_co_of _ _ (Hco _ (nth_In _ _ Hj))). reflexivity.
      + destruct v; try reflexivity. destruct Hp as [Hp|Hp]; [now apply fix_val_nonpos|].
        simpl. rewrite Hv in Hin. rewrite (Hp rows r b eq_refl Hr Hin). now destruct (0 <? q_precision conf)%Z.
  Qed.

  (* ================================================================ one-column result sets *)

  Definition one_col (vals : list dval) : list (list dval) := map (fun v => [v]) vals.

  Lemma column_vals_one_col vals : column_vals (one_col vals) 0 = vals.
  Proof.
    unfold column_vals, one_col. rewrite map_map. simpl. apply map_id.
  Qed.

  Lemma spec_column_nonempty vals d : spec_column vals = Some d -> vals <> [].
  Proof. intros H ->. discriminate. Qed.

  (* the column-level statement as a statement about ReadSQL on a result set with one column *)
  Lemma read_sql_single conf n vals vals' d :
    check_name n = true -> coerce_nil_hit conf [n] = false ->
    prep (g_of conf n) fixed (q_precision conf) vals = Some vals' -> spec_column vals' = Some d ->
    read_sql conf (mkRS [n] (one_col vals)) no_faults = Ok [(n, d)].
  Proof.
    intros Hn Hnil Hp Hs. apply read_sql_gen_spec. unfold spec_read_gen.
    assert (H1 : forallb (fun r : list dval => Nat.eqb (length r) (length [n])) (one_col vals) = true).
    { apply forallb_forall. intros r Hr. unfold one_col in Hr. apply in_map_iff in Hr as (v & <- & _). reflexivity. }
    rewrite H1. cbn [negb nodupb existsb forallb andb]. rewrite Hn. cbn [negb andb].
    assert (H3 : Nat.eqb (length (one_col vals)) 0 = false).
    { apply Nat.eqb_neq. unfold one_col. rewrite map_length.
      assert (Hl : length vals' = length vals)
        by (unfold prep in Hp; apply opt_all_length in Hp; now rewrite map_length in Hp).
      pose proof (spec_column_nonempty _ _ Hs). destruct vals'; [congruence|]. simpl in Hl. lia. }
    rewrite H3. rewrite Hnil. cbn [length seq map nth]. rewrite column_vals_one_col.
    match goal with |- context [match ?p with Some _ => _ | None => _ end] =>
      replace p with (Some vals') by (symmetry; exact Hp) end.
    rewrite Hs. reflexivity.
  Qed.

  Lemma read_sql_precision_float conf n vals xs :
    check_name n = true -> coerce_entry conf n = None -> (0 < q_precision conf)%Z ->
    spec_column vals = Some (CFloat xs) ->
    read_sql conf (mkRS [n] (one_col vals)) no_faults
    = Ok [(n, CFloat (map (fix_cell (q_precision conf)) vals))].
  Proof.
    intros Hn Hco Hp Hs. apply read_sql_single with (vals' := map (fix_val fixed (q_precision conf)) vals); auto.
    - apply coerce_nil_hit_unbound. intros m [<-|[]]. exact Hco.
    - unfold g_of. rewrite (coerce_entry_co_of _ _ Hco). apply prep_some.
    - eapply spec_column_float_fix; eauto.
  Qed.

  (* column level: an erroring coercion on any non-NULL value of the column *)
  Lemma scan_col_coercion_error vals prec co v :
    In v vals -> v <> DNull -> g_co co v = None -> scan_col (new_column prec co) vals = Fail.
  Proof.
    intros Hin Hnn Hg. apply scan_col_prep_error. eapply prep_error_at; eauto.
  Qed.

  (* ================================================================ ReadSQL never panics, any configuration *)

  Lemma col_scan_no_panic2 c v : col_scan c v <> Panic.
  Proof. rewrite col_scan_gen. apply gen_scan_no_panic. Qed.

  Lemma scan_row_no_panic2 : forall cols vals, scan_row cols vals <> Panic.
  Proof.
    induction cols as [|c cs IH]; intros vals; destruct vals as [|v vs]; simpl; try discriminate.
    destruct (col_scan c v) as [c1| |] eqn:E1; simpl; try discriminate.
    - destruct (scan_row cs vs) as [cs1| |] eqn:E2; simpl; try discriminate.
      exfalso. eapply IH; eauto.
    - exfalso. eapply col_scan_no_panic2; eauto.
  Qed.

  Definition st_len (st : list column * list bytes) : Prop := (length (fst st) <= length (snd st))%nat.

  Lemma read_row_st_len conf names st row :
    st_len st ->
    match read_row conf names st row with
    | Ok st' => st_len st'
    | Fail => True
    | Panic => False
    end.
  Proof.
    intros Hlen. destruct st as [columns colNames]. unfold Sql.read_row.
    assert (Hgen : forall cols1 cn1, (length cols1 <= length cn1)%nat ->
              match (do cols' <- scan_row cols1 row; Ok (cols', cn1)) with
              | Ok st' => st_len st' | Fail => True | Panic => False end).
    { intros cols1 cn1 Hl. destruct (scan_row cols1 row) as [cols'| |] eqn:E; simpl; auto.
      - unfold st_len. simpl. rewrite (scan_row_length fixed pf _ _ _ E). exact Hl.
      - eapply scan_row_no_panic2; eauto. }
    destruct columns as [|c0 cs].
    - rewrite alloc_columns_eq. destruct (coerce_nil_hit conf names); [exact I|]. cbn [obind].
      destruct (match q_coerce conf with Some m => coerce_check m colNames | None => true end); [|exact I].
      cbn [obind]. apply Hgen. unfold alloc_plain. now rewrite map_length.
    - cbn [obind]. apply Hgen. exact Hlen.
  Qed.

  Lemma read_rows_st_len conf names fail_at : forall rows k st,
    st_len st ->
    match read_rows conf names fail_at k st rows with
    | Ok st' => st_len st'
    | Fail => True
    | Panic => False
    end.
  Proof.
    induction rows as [|row rest IH]; intros k st Hst; simpl.
    - destruct (match fail_at with Some j => Nat.eqb j k | None => false end); auto.
    - destruct (match fail_at with Some j => Nat.eqb j k | None => false end); auto.
      pose proof (read_row_st_len conf names st row Hst) as Hr.
      destruct (Sql.read_row fixed pf conf names st row) as [st'| |]; simpl;
        [apply IH; exact Hr|exact I|exact Hr].
  Qed.

  Lemma read_sql_no_panic2 conf rs flt : read_sql conf rs flt <> Panic.
  Proof.
    unfold Sql.read_sql. destruct (sf_prepare flt); [discriminate|].
    destruct (sf_query flt); [discriminate|]. unfold Sql.io_read_sql.
    assert (H0 : st_len ([], [])) by (unfold st_len; simpl; lia).
    pose proof (read_rows_st_len conf (rs_names rs) (sf_row flt) (rs_rows rs) 0%nat ([], []) H0) as Hr.
    destruct (Sql.read_rows fixed pf conf (rs_names rs) (sf_row flt) 0 ([], []) (rs_rows rs)) as [[cols cn]| |];
      simpl; try discriminate; [|contradiction].
    unfold st_len in Hr. simpl in Hr.
    destruct (result_map cols cn 0 []) as [m| |] eqn:Em; simpl; try discriminate.
    - apply qframe_new_no_panic.
    - exfalso. apply (result_map_no_panic pf cols cn 0%nat [] ltac:(simpl; lia) Em).
  Qed.

  Lemma read_sql_coercion_error_fails conf rs row j n v :
    In row (rs_rows rs) -> nth_error (rs_names rs) j = Some n -> nth_error row j = Some v ->
    v <> DNull -> g_of conf n v = None ->
    read_sql conf rs no_faults = Fail.
  Proof.
    intros Hrow Hn Hv Hnn Hg. apply outcome_fail.
    - intros res. eapply read_sql_coercion_error; eauto.
    - apply read_sql_no_panic2.
  Qed.

  (* the same for the two shipped coercions, spelled out: Int64ToBool accepts int64 only, StringToFloat
     accepts a string (not []byte) that strconv.ParseFloat accepts *)
  Definition coercion_rejects (k : coerce_kind) (v : dval) : Prop :=
    match k, v with
    | _, DNull => False
    | CoInt64ToBool, DInt _ => False
    | CoStringToFloat, DStr s => pf s = None
    | _, _ => True
    end.

  Lemma read_sql_shipped_coercion_error conf rs row j n v k :
    In row (rs_rows rs) -> nth_error (rs_names rs) j = Some n -> nth_error row j = Some v ->
    co_of conf n = Some k -> coercion_rejects k v ->
    read_sql conf rs no_faults = Fail.
  Proof.
    intros Hrow Hn Hv Hk Hrej.
    apply read_sql_coercion_error_fails with (row := row) (j := j) (n := n) (v := v); auto.
    - intros ->. destruct k; exact Hrej.
    - unfold g_of. rewrite Hk. simpl. destruct k, v; simpl in *; try reflexivity; try contradiction.
      now rewrite Hrej.
  Qed.

  (* ================================================================ reads that must fail (the oracle's
     spec_read_must_fail of Model/SqlSpec.v) *)

  (* the column has not seen a value yet / holds int or bool values *)
  Definition col_fresh (c : column) : Prop :=
    c_ptr c = PNil /\ c_kind c = KInvalid /\ c_coerce c = None.
  Definition col_int_or_bool (c : column) : Prop :=
    (c_kind c = KInt \/ c_kind c = KBool) /\ is_pnil (c_ptr c) = false /\ c_coerce c = None.

  Lemma col_int_or_bool_step c v c' :
    col_int_or_bool c -> col_scan c v = Ok c' -> col_int_or_bool c'.
  Proof.
    intros (Hk & Hp & Hco) H. rewrite col_scan_none in H by exact Hco.
    destruct v; simpl in H; try discriminate.
    - inversion H; subst; clear H. unfold col_int. rewrite Hp. repeat split; auto.
    - inversion H; subst; clear H. unfold col_float. rewrite Hp. repeat split; auto.
    - inversion H; subst; clear H. unfold col_bool. rewrite Hp. repeat split; auto.
    - inversion H; subst; clear H. unfold col_string. rewrite Hp. repeat split; auto.
    - inversion H; subst; clear H. unfold col_string. rewrite Hp. repeat split; auto.
    - unfold col_null in H. destruct Hk as [Hk|Hk]; rewrite Hk in H; discriminate.
  Qed.

  Lemma scan_col_null_in_int_or_bool : forall vals c c',
    col_int_or_bool c -> existsb spec_is_null vals = true -> scan_col c vals <> Ok c'.
  Proof.
    induction vals as [|v vs IH]; intros c c' Hc Hex; [discriminate|].
    cbn [SqlProofs.scan_col]. destruct (col_scan c v) as [c1| |] eqn:E; simpl; try discriminate.
    simpl in Hex. destruct v; simpl in Hex;
      try (apply IH; [exact (col_int_or_bool_step _ _ _ Hc E)|exact Hex]).
    destruct Hc as (Hk & _ & Hco).
    rewrite (null_in_int_or_bool_rejected fixed pf c Hco Hk) in E. discriminate.
  Qed.

  Lemma scan_col_null_after_int_or_bool : forall vals c c',
    col_fresh c -> null_after_int_or_bool vals = true -> scan_col c vals <> Ok c'.
  Proof.
    induction vals as [|v vs IH]; intros c c' Hc Hn; [discriminate|].
    destruct Hc as (Hp & Hk & Hco).
    cbn [SqlProofs.scan_col]. rewrite col_scan_none by exact Hco.
    destruct v; simpl in Hn; try discriminate; cbn [dispatch obind].
    - apply scan_col_null_in_int_or_bool; [|exact Hn].
      unfold col_int. rewrite Hp. simpl. repeat split; auto.
    - apply scan_col_null_in_int_or_bool; [|exact Hn].
      unfold col_bool. rewrite Hp. simpl. repeat split; auto.
    - unfold col_null. rewrite Hk. cbn [obind]. apply IH; [|exact Hn].
      unfold col_fresh. simpl. auto.
  Qed.

  (* column level: a column that makes the read fail is never scanned to the end *)
  Lemma scan_col_must_fail conf name vals c' :
    col_must_fail fixed pf conf name vals = true ->
    scan_col (new_column (q_precision conf) (co_of conf name)) vals <> Ok c'.
  Proof.
    unfold col_must_fail. intros H.
    destruct (prep (g_of conf name) fixed (q_precision conf) vals) as [vals'|] eqn:Ep.
    - pose proof (scan_gen_strip (g_co (co_of conf name)) vals vals'
                                 (new_column (q_precision conf) (co_of conf name)) Ep) as Hs.
      change (strip (new_column (q_precision conf) (co_of conf name))) with (new_column 0 None) in Hs.
      rewrite scan_col_gen. cbn [c_coerce new_column].
      intros E. rewrite E in Hs. simpl in Hs.
      revert Hs. apply scan_col_null_after_int_or_bool; [|exact H].
      unfold col_fresh. simpl. auto.
    - rewrite (scan_col_prep_error vals (q_precision conf) (co_of conf name) Ep). discriminate.
  Qed.

  (* the row loop scans column j value after value *)
  Lemma scan_row_nth : forall cols row cols' j c,
    scan_row cols row = Ok cols' -> nth_error cols j = Some c ->
    exists c', col_scan c (nth j row DNull) = Ok c' /\ nth_error cols' j = Some c'.
  Proof.
    induction cols as [|c0 cs IH]; intros row cols' j c; destruct row as [|v0 vs]; simpl; try discriminate.
    - intros _ H. destruct j; discriminate.
    - destruct (col_scan c0 v0) as [c1| |] eqn:E1; simpl; try discriminate.
      destruct (scan_row cs vs) as [cs1| |] eqn:E2; simpl; try discriminate.
      intros H Hc. inversion H; subst; clear H. destruct j as [|j]; simpl in *.
      + inversion Hc; subst. eauto.
      + eapply IH; eauto.
  Qed.

  Lemma run_rows_nth : forall rows cols finals j c,
    run_rows cols rows = Ok finals -> nth_error cols j = Some c ->
    exists c', scan_col c (column_vals rows j) = Ok c' /\ nth_error finals j = Some c'.
  Proof.
    induction rows as [|r rs IH]; intros cols finals j c H Hc.
    - simpl in H. inversion H; subst. exists c. split; [reflexivity|exact Hc].
    - cbn [SqlProofs.run_rows] in H.
      destruct (scan_row cols r) as [cols1| |] eqn:E; simpl in H; try discriminate.
      destruct (scan_row_nth _ _ _ _ _ E Hc) as (c1 & Hs & Hn).
      destruct (IH _ _ _ _ H Hn) as (c' & Hs' & Hn').
      exists c'. split; [|exact Hn'].
      unfold column_vals. cbn [map SqlProofs.scan_col]. rewrite Hs. exact Hs'.
  Qed.

  (* C19_read_must_fail: where the specification says the read must fail, ReadSQL returns Err *)
  Lemma read_sql_must_fail conf names rows :
    spec_read_must_fail fixed pf conf names rows = true ->
    read_sql conf (mkRS names rows) no_faults = Fail.
  Proof.
    unfold spec_read_must_fail. intros H.
    apply outcome_fail; [|apply read_sql_no_panic2].
    intros res. unfold Sql.read_sql. cbn [sf_prepare sf_query sf_row no_faults]. unfold Sql.io_read_sql.
    cbn [rs_names rs_rows].
    apply orb_true_iff in H as [H|H].
    { (* a column of the result set is bound to an entry without function *)
      apply andb_true_iff in H as [Hr Hnil]. destruct rows as [|r rs]; [discriminate|].
      rewrite read_rows_first2, Hnil. discriminate. }
    apply andb_true_iff in H as [_ H].
    apply existsb_exists in H as (j & Hj & Hcol). apply in_seq in Hj. destruct Hj as [_ Hj]. simpl in Hj.
    destruct rows as [|r rs].
    { exfalso. unfold col_must_fail in Hcol. simpl in Hcol. discriminate. }
    rewrite read_rows_first2. destruct (coerce_nil_hit conf names); [discriminate|].
    destruct (run_rows (alloc_plain names conf) (r :: rs)) as [finals| |] eqn:Erun; simpl; try discriminate.
    exfalso.
    assert (Hc : nth_error (alloc_plain names conf) j
                 = Some (new_column (q_precision conf) (co_of conf (nth j names [])))).
    { rewrite <- (alloc_nth conf names j (new_column 0 None) Hj). apply nth_error_nth'.
      unfold alloc_plain. now rewrite map_length. }
    destruct (run_rows_nth _ _ _ _ _ Erun Hc) as (c' & Hs & _).
    exact (scan_col_must_fail conf (nth j names []) (column_vals (r :: rs) j) c' Hcol Hs).
  Qed.

  (* the specification is consistent: it never both defines a frame and demands an error *)
  Lemma spec_read_gen_not_must_fail conf names rows cols :
    spec_read_gen conf names rows = Some cols -> spec_read_must_fail fixed pf conf names rows = false.
  Proof.
    intros Hs. destruct (spec_read_must_fail fixed pf conf names rows) eqn:E; [|reflexivity].
    apply read_sql_gen_spec in Hs. rewrite (read_sql_must_fail _ _ _ E) in Hs. discriminate.
  Qed.
  (* C19_coerce_without_function_is_error: a coercion map entry WITHOUT function (config/sql.Coerce with a
     CoercePair whose Type is none of the constants stores the Go value nil) for a column of the result set:
     as soon as there is a row, ReadSQL reports an error — whatever the driver does, and never a panic *)
  Lemma coerce_nil_hit_in conf names n :
    In n names -> coerce_entry conf n = Some None -> coerce_nil_hit conf names = true.
  Proof.
    intros Hin He. unfold coerce_nil_hit. apply existsb_exists. exists n. split; [exact Hin|]. now rewrite He.
  Qed.

  Lemma read_sql_coerce_without_function conf rs flt n :
    rs_rows rs <> [] -> In n (rs_names rs) -> coerce_entry conf n = Some None ->
    read_sql conf rs flt = Fail.
  Proof.
    intros Hrows Hin He. unfold Sql.read_sql.
    destruct (sf_prepare flt); [reflexivity|]. destruct (sf_query flt); [reflexivity|].
    unfold Sql.io_read_sql. destruct (rs_rows rs) as [|r rest]; [congruence|].
    cbn [Sql.read_rows].
    destruct (match sf_row flt with Some j => Nat.eqb j 0 | None => false end); [reflexivity|].
    rewrite read_row_first. rewrite (coerce_nil_hit_in conf (rs_names rs) n Hin He). reflexivity.
  Qed.

  (* the specification demands exactly this error *)
  Lemma spec_coerce_without_function conf names rows n :
    rows <> [] -> In n names -> coerce_entry conf n = Some None ->
    spec_read_must_fail fixed pf conf names rows = true /\ spec_read_gen conf names rows = None.
  Proof.
    intros Hrows Hin He. pose proof (coerce_nil_hit_in conf names n Hin He) as Hnil. split.
    - unfold spec_read_must_fail. rewrite Hnil. destruct rows; [congruence|reflexivity].
    - unfold spec_read_gen. rewrite Hnil.
      destruct (negb (forallb _ rows)); [reflexivity|]. destruct (negb (nodupb names && _)); [reflexivity|].
      destruct (Nat.eqb (length rows) 0); reflexivity.
  Qed.
End Read2.
