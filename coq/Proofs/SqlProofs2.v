(* Proofs/SqlProofs2.v — ReadSQL with coercions and Precision > 0 (property C19, second wave).
   Everything here is about the executed model functions of Model/Sql.v (col_scan, read_sql, to_sql);
   the auxiliary formulations (dispatch, gen_scan, scan_gen, prep, spec_read_gen) are proved equal to /
   are specifications of them.

   float.Fixed and strconv.ParseFloat are NOT modelled: they stay arbitrary functions
   [fixed : N -> Z -> N] and [pf : bytes -> option N] (section variables), so every statement below
   holds whatever they compute. *)
From Coq Require Import String.
From QF Require Import Base.Prelude Model.Sql Model.IOFault Corr.IOCorr Proofs.SqlProofs.
Local Open Scope N_scope.

(* ------------------------------------------------------------------ small helpers *)

Definition out_map {A B} (f : A -> B) (o : outcome A) : outcome B :=
  match o with Ok a => Ok (f a) | Fail => Fail | Panic => Panic end.

(* float.Fixed applied to a driver value when Precision > 0 *)
Definition fix_val (fixed : N -> Z -> N) (prec : Z) (v : dval) : dval :=
  match v with
  | DFloat x => DFloat (if (0 <? prec)%Z then fixed x prec else x)
  | _ => v
  end.

(* the values of one column after coercion [g] (None = the coercion reports an error) and rounding;
   a NULL never reaches the coercion *)
Definition prep_val (g : dval -> option dval) (fixed : N -> Z -> N) (prec : Z) (v : dval) : option dval :=
  match v with
  | DNull => Some DNull
  | _ => option_map (fix_val fixed prec) (g v)
  end.
Definition prep (g : dval -> option dval) (fixed : N -> Z -> N) (prec : Z) (vals : list dval)
  : option (list dval) :=
  opt_all (map (prep_val g fixed prec) vals).

(* the coercion entry of the configuration for a column name *)
Definition co_of (conf : sql_config) (name : bytes) : option coerce_kind :=
  match q_coerce conf with Some m => coerce_lookup m name | None => None end.

(* a column with its coercion and precision removed *)
Definition strip (c : column) : column :=
  mkCol (c_kind c) (c_nulls c) (c_ptr c) (c_ints c) (c_floats c) (c_bools c) (c_strs c) None 0.

(* c' carries the same data as c, and has neither coercion nor precision *)
Definition same_data (c c' : column) : Prop :=
  c_kind c' = c_kind c /\ c_nulls c' = c_nulls c /\ c_ptr c' = c_ptr c /\ c_ints c' = c_ints c /\
  c_floats c' = c_floats c /\ c_bools c' = c_bools c /\ c_strs c' = c_strs c /\
  c_coerce c' = None /\ c_prec c' = 0%Z.

Lemma same_data_strip c c' : same_data c c' <-> c' = strip c.
Proof.
  split.
  - intros (H1 & H2 & H3 & H4 & H5 & H6 & H7 & H8 & H9).
    destruct c' as [k n p i f b s co pr]. simpl in *. subst. reflexivity.
  - intros ->. unfold same_data, strip. simpl. repeat split; reflexivity.
Qed.

(* Inf or NaN: exponent field all ones *)
Definition exp_all_ones (b : N) : bool := N.land (N.shiftr b 52) 0x7FF =? 0x7FF.

Section Read2.
  Variable fixed : N -> Z -> N.
  Variable pf : bytes -> option N.

  Notation col_scan := (col_scan fixed pf).
  Notation scan_col := (scan_col fixed pf).
  Notation scan_row := (scan_row fixed pf).
  Notation run_rows := (run_rows fixed pf).
  Notation read_row := (read_row fixed pf).
  Notation read_rows := (read_rows fixed pf).
  Notation read_sql := (read_sql fixed pf).

  (* ================================================================ (a) the scanner *)

  (* the kind dispatch of Column.Scan (the switch), not looking at c.coerce *)
  Definition dispatch (c : column) (t : dval) : outcome column :=
    match t with
    | DBool v => Ok (col_bool c v)
    | DStr s => Ok (col_string c s)
    | DInt v => Ok (col_int c v)
    | DBytes s => Ok (col_string c s)
    | DFloat v => Ok (col_float fixed c v)
    | DNull => col_null c
    | DOther => Fail
    end.

  (* the two shipped coercions as functions on driver values *)
  Definition coerce_fn (k : coerce_kind) (v : dval) : option dval :=
    match k, v with
    | CoInt64ToBool, DInt z => Some (DBool (negb (z =? 0)%Z))
    | CoStringToFloat, DStr s => option_map DFloat (pf s)
    | _, _ => None
    end.

  Definition g_co (co : option coerce_kind) : dval -> option dval :=
    match co with Some k => coerce_fn k | None => Some end.

  Definition g_of (conf : sql_config) (name : bytes) : dval -> option dval := g_co (co_of conf name).

  Section Generic.
    (* the coercion as an arbitrary Gallina function *)
    Variable g : dval -> option dval.

    Definition gen_scan (c : column) (t : dval) : outcome column :=
      match t with
      | DNull => col_null c
      | _ => match g t with Some t' => dispatch c t' | None => Fail end
      end.

    Fixpoint scan_gen (c : column) (vals : list dval) : outcome column :=
      match vals with
      | [] => Ok c
      | v :: vs => do c' <- gen_scan c v; scan_gen c' vs
      end.
  End Generic.

  Lemma gen_scan_id c t : gen_scan Some c t = dispatch c t.
  Proof. destruct t; reflexivity. Qed.

  Lemma col_scan_none c t : c_coerce c = None -> col_scan c t = dispatch c t.
  Proof. intros H. unfold Sql.col_scan. rewrite H. destruct t; reflexivity. Qed.

  Lemma col_scan_coerced c k t : c_coerce c = Some k -> col_scan c t = gen_scan (coerce_fn k) c t.
  Proof.
    intros H. unfold Sql.col_scan. rewrite H. unfold coerce_scan, gen_scan, coerce_fn.
    destruct k, t; try reflexivity. destruct (pf s); reflexivity.
  Qed.

  Lemma col_scan_gen c t : col_scan c t = gen_scan (g_co (c_coerce c)) c t.
  Proof.
    destruct (c_coerce c) as [k|] eqn:E; simpl.
    - now apply col_scan_coerced.
    - rewrite gen_scan_id. now apply col_scan_none.
  Qed.

  (* C19_scan_coerced *)
  Lemma scan_coerced c t :
    (c_coerce c = None -> col_scan c t = dispatch c t) /\
    (forall k, c_coerce c = Some k ->
       col_scan c t = match t with
                      | DNull => col_null c
                      | _ => match coerce_fn k t with Some t' => dispatch c t' | None => Fail end
                      end).
  Proof. split; [apply col_scan_none|intros k; apply col_scan_coerced]. Qed.

  (* ================================================================ (b) one column *)

  Lemma col_null_strip c : col_null (strip c) = out_map strip (col_null c).
  Proof. destruct c as [k n p i f b s co pr]. destruct k; reflexivity. Qed.

  Lemma dispatch_strip c w :
    dispatch (strip c) (fix_val fixed (c_prec c) w) = out_map strip (dispatch c w)
    \/ False.
  Proof. Abort.
End Read2.
