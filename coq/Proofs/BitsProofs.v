From QF Require Import Base.Prelude Gen.GenConsts Model.Bits.
Local Open Scope N_scope.

Lemma testbit_small (a n k : N) : a < 2^n -> n <= k -> N.testbit a k = false.
Proof.
  intros Ha Hk. destruct (N.eq_dec a 0) as [->|Hz]; [apply N.bits_0|].
  apply N.bits_above_log2. apply N.log2_lt_pow2 in Ha; lia.
Qed.

Lemma ones_testbit (n k : N) : N.testbit (N.ones n) k = (k <? n).
Proof.
  destruct (N.ltb_spec k n) as [H|H]; [apply N.ones_spec_low | apply N.ones_spec_high]; assumption.
Qed.

Lemma packed_lt (o l : N) : o < 2^35 -> l < 2^28 -> N.lor (N.shiftl o 28) l < 2^63.
Proof.
  intros Ho Hl.
  destruct (N.eq_dec (N.lor (N.shiftl o 28) l) 0) as [->|Hz]; [reflexivity|].
  apply N.log2_lt_pow2; [lia|].
  rewrite N.log2_lor.
  apply N.max_lub_lt.
  - destruct (N.eq_dec o 0) as [->|Hoz]; [rewrite N.shiftl_0_l; reflexivity|].
    rewrite N.log2_shiftl by assumption. apply N.log2_lt_pow2 in Ho; lia.
  - destruct (N.eq_dec l 0) as [->|Hlz]; [reflexivity|].
    apply N.log2_lt_pow2 in Hl; lia.
Qed.

(* The three accessors read back exactly what NewPointer packed, for every offset below 2^35 and
   every length below 2^28 (the limits documented in pointer.go). *)
Theorem pointer_roundtrip (o l : N) (isnull : bool) :
  o < 2^35 -> l < 2^28 ->
  ptr_offset (new_pointer o l isnull) = o /\
  ptr_len (new_pointer o l isnull) = l /\
  ptr_isnull (new_pointer o l isnull) = isnull.
Proof.
  intros Ho Hl.
  unfold new_pointer, ptr_offset, ptr_len, ptr_isnull, u64.
  change c_ptr_new_shift with 28. change c_ptr_off_shift with 28.
  change c_ptr_off_mask with (N.ones 35). change c_ptr_len_mask with (N.ones 28).
  change c_ptr_null_cmp with 0. change c_nullBit with (2^63).
  pose proof (packed_lt o l Ho Hl) as Hp.
  rewrite (N.mod_small (N.lor (N.shiftl o 28) l) (2^64)) by lia.
  set (p := N.lor (N.shiftl o 28) l) in *.
  assert (Hoff : N.land (N.shiftr p 28) (N.ones 35) = o).
  { apply N.bits_inj; intro k. rewrite N.land_spec, N.shiftr_spec', ones_testbit.
    unfold p. rewrite N.lor_spec, N.shiftl_spec_high' by lia.
    replace (k + 28 - 28) with k by lia.
    rewrite (testbit_small l 28 (k + 28)) by (assumption || lia). rewrite orb_false_r.
    destruct (N.ltb_spec k 35) as [Hk|Hk]; [apply andb_true_r|].
    rewrite andb_false_r. symmetry. apply (testbit_small o 35); assumption. }
  assert (Hlen : N.land p (N.ones 28) = l).
  { apply N.bits_inj; intro k. rewrite N.land_spec, ones_testbit.
    unfold p. rewrite N.lor_spec.
    destruct (N.ltb_spec k 28) as [Hk|Hk].
    - rewrite N.shiftl_spec_low by assumption. rewrite andb_true_r. reflexivity.
    - rewrite andb_false_r. symmetry. apply (testbit_small l 28); assumption. }
  assert (Hnull : N.land p (2^63) = 0).
  { apply N.bits_inj; intro k. rewrite N.land_spec, N.bits_0.
    rewrite (N.pow2_bits_eqb 63 k).
    destruct (N.eqb_spec 63 k) as [<-|Hk]; [|apply andb_false_r].
    rewrite (testbit_small p 63 63) by (assumption || lia). reflexivity. }
  destruct isnull.
  - assert (Hoff' : N.land (N.shiftr (N.lor p (2^63)) 28) (N.ones 35) = o).
    { transitivity (N.land (N.shiftr p 28) (N.ones 35)); [|exact Hoff]. apply N.bits_inj; intro k.
      rewrite !N.land_spec, !N.shiftr_spec', N.lor_spec, ones_testbit.
      destruct (N.ltb_spec k 35) as [Hk|Hk]; [|rewrite !andb_false_r; reflexivity].
      rewrite (N.pow2_bits_eqb 63 (k + 28)).
      destruct (N.eqb_spec 63 (k + 28)) as [E|E]; [lia|]. rewrite orb_false_r. reflexivity. }
    assert (Hlen' : N.land (N.lor p (2^63)) (N.ones 28) = l).
    { transitivity (N.land p (N.ones 28)); [|exact Hlen]. apply N.bits_inj; intro k.
      rewrite !N.land_spec, N.lor_spec, ones_testbit.
      destruct (N.ltb_spec k 28) as [Hk|Hk]; [|rewrite !andb_false_r; reflexivity].
      rewrite (N.pow2_bits_eqb 63 k).
      destruct (N.eqb_spec 63 k) as [E|E]; [lia|]. rewrite orb_false_r. reflexivity. }
    repeat split; try assumption.
    rewrite N.land_lor_distr_l, Hnull, N.lor_0_l, N.land_diag. reflexivity.
  - repeat split; try assumption. rewrite Hnull. reflexivity.
Qed.

(* A length that does not fit in 28 bits is NOT read back: the limit in the statement is sharp. *)
Example pointer_len_limit_sharp : ptr_len (new_pointer 0 (2^28) false) <> 2^28.
Proof. vm_compute. discriminate. Qed.

(* bitset: finite sweep over all 256 x 256 (value set, value queried) pairs, lifted. *)
Definition all_bytes : list N := map N.of_nat (seq 0 256).

Definition bitset_pair_ok (v w : N) : bool :=
  Bool.eqb (bitset_isset (bitset_set bitset_empty v) w) (N.eqb v w).

Lemma bitset_sweep :
  forallb (fun v => forallb (bitset_pair_ok v) all_bytes) all_bytes = true.
Proof. vm_compute. reflexivity. Qed.

Lemma in_all_bytes v : v < 256 -> In v all_bytes.
Proof.
  intro H. unfold all_bytes. apply in_map_iff. exists (N.to_nat v). split; [lia|].
  apply in_seq. lia.
Qed.

(* set then isSet on an empty bitset answers exactly "same value", for all uint8 values. *)
Theorem bitset_single_ok (v w : N) : v < 256 -> w < 256 ->
  bitset_isset (bitset_set bitset_empty v) w = N.eqb v w.
Proof.
  intros Hv Hw. pose proof bitset_sweep as H.
  rewrite forallb_forall in H. specialize (H v (in_all_bytes v Hv)).
  rewrite forallb_forall in H. specialize (H w (in_all_bytes w Hw)).
  unfold bitset_pair_ok in H. apply Bool.eqb_prop in H. exact H.
Qed.
