(* Proofs/RyuInterval.v — the interval search of float64ToDecimal, assembled.
   1. [step4_certified]: step 4 (the model function f2d_step4, all loops) run on step-3 values that satisfy
      the hand-over conditions [handover] returns a decimal accepted by the certificate checker body [cert]
      (Proofs/RyuIntervalFinal.v) at the scale A / B of the exponent.
   2. (below) the connection of [cert] at that scale with shortest_b, and what is proved about step 3. *)
From QF Require Import Base.Prelude Gen.GenConsts Gen.GenRyu Model.Ryu.
From QF Require Import Proofs.RyuTables Proofs.RyuArith Proofs.RyuAppendF Proofs.RyuExactInt Proofs.RyuNoPanic
                       Proofs.RyuShortest Proofs.RyuIntervalFrac Proofs.RyuIntervalMul
                       Proofs.RyuIntervalFinal Proofs.RyuIntervalLoops.
Local Open Scope N_scope.

(* What step 4 needs from step 3, for the float unit A, the decimal unit B (exact scaled values x A / B),
   mv = 4 m2, mp = mv + 2, mm = mv - 1 or mv - 2, ab = acceptBounds:
   vr, vm are the exact floors; vp/10 is the exact floor of the (possibly excluded) upper bound one level up;
   vmIsTrailingZeros, when set, means the lower bound is exact and admissible, and it is exact one level
   up; vrIsTrailingZeros, when set, means the value is exact — or (the Go code tests one bit too few for
   negative exponents) that its next digit is neither 0 nor 5 and it is no multiple of 5 —, and when not set
   the value is not an exact multiple of 5 (so no exact half can appear later). *)
Definition handover (ab : bool) (mv mm mp A B : N) (st : step3) : Prop :=
  let a := mm * A in let r := mv * A in let p := mp * A in
  s_vr st = r / B /\ s_vm st = a / B /\
  s_vp st / 10 = (p - (if ab then 0 else 1)) / (10 * B) /\
  (s_vmTZ st = true -> ab = true /\ a mod B = 0) /\
  s_vmTZ st && (s_vm st mod 10 =? 0) = ab && (a mod (10 * B) =? 0) /\
  (s_vrTZ st = true ->
     r mod B = 0 \/ ((r / B) mod 10 <> 0 /\ (r / B) mod 10 <> 5 /\ r mod (5 * B) <> 0)) /\
  (s_vrTZ st = false -> r mod (5 * B) <> 0).

Definition handover_b (ab : bool) (mv mm mp A B : N) (st : step3) : bool :=
  let a := mm * A in let r := mv * A in let p := mp * A in
  (s_vr st =? r / B) && (s_vm st =? a / B) &&
  (s_vp st / 10 =? (p - (if ab then 0 else 1)) / (10 * B)) &&
  (negb (s_vmTZ st) || (ab && (a mod B =? 0))) &&
  Bool.eqb (s_vmTZ st && (s_vm st mod 10 =? 0)) (ab && (a mod (10 * B) =? 0)) &&
  (if s_vrTZ st
   then (r mod B =? 0)
        || (negb ((r / B) mod 10 =? 0) && negb ((r / B) mod 10 =? 5) && negb (r mod (5 * B) =? 0))
   else negb (r mod (5 * B) =? 0)).

Lemma handover_b_sound ab mv mm mp A B st :
  handover_b ab mv mm mp A B st = true -> handover ab mv mm mp A B st.
Proof.
  unfold handover_b, handover. cbv zeta. intro H.
  repeat (apply andb_true_iff in H as [H ?]).
  apply N.eqb_eq in H.
  repeat match goal with K : (_ =? _) = true |- _ => apply N.eqb_eq in K end.
  match goal with K : Bool.eqb _ _ = true |- _ => apply Bool.eqb_prop in K; rename K into K5 end.
  match goal with K : negb _ || _ = true |- _ => rename K into K4 end.
  match goal with K : (if _ then _ else _) = true |- _ => rename K into K6 end.
  refine (conj H (conj _ (conj _ (conj _ (conj K5 (conj _ _)))))); try assumption.
  - intro T. rewrite T in K4. cbn [negb orb] in K4. apply andb_true_iff in K4 as [-> K4].
    apply N.eqb_eq in K4. auto.
  - intro T. rewrite T in K6. apply orb_true_iff in K6 as [K6|K6].
    + left. apply N.eqb_eq in K6. exact K6.
    + right. apply andb_true_iff in K6 as [K6 K8]. apply andb_true_iff in K6 as [K6 K7].
      apply negb_true_iff, N.eqb_neq in K6, K7, K8. auto.
  - intro T. rewrite T in K6. apply negb_true_iff, N.eqb_neq in K6. exact K6.
Qed.

(* Stage 3, packaged: all of step 4 *)
Theorem step4_certified (ab : bool) (mv mm mp A B : N) (st : step3) :
  0 < A -> 0 < B -> 0 < mm -> (mv = mm + 1 \/ mv = mm + 2) -> mp = mv + 2 ->
  handover ab mv mm mp A B st ->
  (B = 1 \/ 10 * B <= A) ->
  s_vp st < 2 ^ 64 -> s_vr st < 2 ^ 63 -> (-1000 <= s_e10 st <= 1000)%Z ->
  (forall out e, f2d_step4 st ab = Ok (out, e) -> 0 < out) ->
  exists (n : nat) (out : N),
    (n < 100)%nat /\ f2d_step4 st ab = Ok (out, (s_e10 st + Z.of_nat n)%Z) /\
    cert ab (mm * A) (mv * A) (mp * A) (B * 10 ^ N.of_nat n) out = true.
Proof.
  intros HA HB Hmm Hmv Hmp (H1 & H2 & H3 & H4 & H5 & H6 & H7) HAB Hvp Hvr He10 Hpos.
  set (g := mv - mm).
  assert (Hg : g = 1 \/ g = 2) by (unfold g; clear - Hmv; lia).
  assert (Hr : mv * A = mm * A + g * A) by (unfold g; clear - Hmv; destruct Hmv as [-> | ->]; lia).
  assert (Hp : mp * A = mv * A + 2 * A) by (rewrite Hmp; clear; lia).
  assert (Ha : 0 < mm * A) by (clear - Hmm HA; nia).
  destruct st as [vr0 vp0 vm0 e10 vmTZ0 vrTZ0]. cbn [s_vr s_vp s_vm s_e10 s_vmTZ s_vrTZ] in *.
  destruct (vmTZ0 || vrTZ0) eqn:FL.
  - exact (step4_general ab (mm * A) (mv * A) (mp * A) A g B HA HB Hg Hr Hp vr0 vp0 vm0 vmTZ0 vrTZ0
             H1 H2 H3 H4 H5 H6 H7 HAB Hvp Ha Hvr e10 FL He10 Hpos).
  - apply orb_false_iff in FL as [F1 F2].
    exact (step4_common ab (mm * A) (mv * A) (mp * A) A g B HA HB Hg Hr Hp vr0 vp0 vm0 vmTZ0 vrTZ0
             H1 H2 H3 H4 H5 H6 H7 HAB Hvp Ha Hvr e10 F1 F2 He10 Hpos).
Qed.

(* ------------------------------------------------------------------ cert is invariant under scaling *)

Lemma leb_scale x y c : 0 < c -> (x * c <=? y * c) = (x <=? y).
Proof.
  intro H. destruct (N.leb_spec x y) as [L|L].
  - apply N.leb_le. apply N.mul_le_mono_r. exact L.
  - apply N.leb_gt. apply N.mul_lt_mono_pos_r; assumption.
Qed.
Lemma ltb_scale x y c : 0 < c -> (x * c <? y * c) = (x <? y).
Proof.
  intro H. destruct (N.ltb_spec x y) as [L|L].
  - apply N.ltb_lt. apply N.mul_lt_mono_pos_r; assumption.
  - apply N.ltb_ge. apply N.mul_le_mono_r. exact L.
Qed.
Lemma eqb_scale x y c : 0 < c -> (x * c =? y * c) = (x =? y).
Proof.
  intro H. destruct (N.eqb_spec x y) as [E|E].
  - apply N.eqb_eq. rewrite E. reflexivity.
  - apply N.eqb_neq. intro K. apply E. apply (N.mul_cancel_r x y c); [lia|exact K].
Qed.
Lemma in_interval_scale e lo hi x c : 0 < c ->
  in_interval e (lo * c) (hi * c) (x * c) = in_interval e lo hi x.
Proof. intro H. unfold in_interval. destruct e; rewrite ?leb_scale, ?ltb_scale by exact H; reflexivity. Qed.
Lemma ndist_scale x v c : 0 < c -> ndist (x * c) (v * c) = ndist x v * c.
Proof.
  intro H. unfold ndist. rewrite ltb_scale by exact H.
  destruct (x <? v); rewrite N.mul_sub_distr_r; reflexivity.
Qed.

Lemma cert_scale e lo v hi ud m c : 0 < c ->
  cert e (lo * c) (v * c) (hi * c) (ud * c) m = cert e lo v hi ud m.
Proof.
  intro H. unfold cert.
  replace (m * (ud * c)) with (m * ud * c) by lia.
  replace (m * ud * c - m mod 10 * (ud * c)) with ((m * ud - m mod 10 * ud) * c)
    by (rewrite N.mul_sub_distr_r; lia).
  replace ((m * ud - m mod 10 * ud) * c + 10 * (ud * c)) with ((m * ud - m mod 10 * ud + 10 * ud) * c) by lia.
  replace (m * ud * c - ud * c) with ((m * ud - ud) * c) by (rewrite N.mul_sub_distr_r; reflexivity).
  replace (m * ud * c + ud * c) with ((m * ud + ud) * c) by lia.
  rewrite !in_interval_scale, !ndist_scale by exact H.
  rewrite !ltb_scale, !eqb_scale by exact H. reflexivity.
Qed.

(* ------------------------------------------------------------------ shortest_b is cert at the checker's scale *)

Lemma scale_flt_pos k e2 : 0 < scale_flt k e2 1.
Proof.
  unfold scale_flt. rewrite N.shiftl_mul_pow2, pow5N_spec.
  assert (5 ^ Z.to_N (- k) <> 0) by (apply N.pow_nonzero; lia).
  assert (2 ^ Z.to_N (e2 - k) <> 0) by (apply N.pow_nonzero; lia). nia.
Qed.

Lemma shortest_b_cert (bits m : N) (k : Z) (f : fdec) (A Dd : N) :
  decode_float bits = Some f -> f_lowgap f <= 4 * f_m2 f -> 0 < A ->
  scale_dec k (f_e2 f) 1 * A = Dd * scale_flt k (f_e2 f) 1 ->
  shortest_b bits m k
  = cert (N.even (f_m2 f)) ((4 * f_m2 f - f_lowgap f) * A) (4 * f_m2 f * A) ((4 * f_m2 f + 2) * A) Dd m.
Proof.
  intros Hd Hgap HA Hrel. unfold shortest_b. rewrite Hd.
  set (e2 := f_e2 f) in *. set (ud := scale_dec k e2 1) in *. set (uf := scale_flt k e2 1) in *.
  assert (Huf : 0 < uf) by apply scale_flt_pos.
  rewrite (scale_dec_lin k e2 m). fold ud.
  rewrite (scale_flt_lin k e2 (4 * f_m2 f)). fold uf.
  set (mv := 4 * f_m2 f) in *. set (g := f_lowgap f) in *.
  change (cert (N.even (f_m2 f)) (mv * uf - g * uf) (mv * uf) (mv * uf + 2 * uf) ud m
          = cert (N.even (f_m2 f)) ((mv - g) * A) (mv * A) ((mv + 2) * A) Dd m).
  rewrite <- (cert_scale _ ((mv - g) * A) (mv * A) ((mv + 2) * A) Dd m uf Huf).
  rewrite <- (cert_scale _ (mv * uf - g * uf) (mv * uf) (mv * uf + 2 * uf) ud m A HA).
  rewrite Hrel. f_equal.
  - rewrite <- N.mul_sub_distr_r. lia.
  - lia.
  - lia.
Qed.

(* ------------------------------------------------------------------ the scale of an exponent *)

(* exponent-only side conditions, checked for all 2047 exponents *)
Definition exp_side_ok (exp : N) : bool :=
  match plan_of exp with
  | Ok pl =>
      let e2 := e2_of exp in let q := Z.of_N (p_q pl) in
      let '(A, B) := ratio_c pl e2 in
      (if p_pos pl then (0 <=? e2)%Z && (q <=? e2)%Z && (p_e10 pl =? q)%Z
       else (e2 <? 0)%Z && (q <=? - e2)%Z && (p_e10 pl =? q + e2)%Z)
      && ((B =? 1) || (10 * B <=? A)) && (F pl mp_max <? 2 ^ 63)
      && (-1000 <=? p_e10 pl)%Z && (p_e10 pl <=? 1000)%Z
  | _ => false
  end.

Lemma all_exp_side_ok : forallb exp_side_ok (map N.of_nat (seq 0 2047)) = true.
Proof. vm_cast_no_check (eq_refl true). Qed.

Lemma pow10_split n : 10 ^ n = 2 ^ n * 5 ^ n.
Proof. change 10 with (2 * 5). apply N.pow_mul_l. Qed.

Lemma scale_rel (pl : plan) (e2 : Z) (n : nat) :
  let q := Z.of_N (p_q pl) in
  (if p_pos pl then (0 <= e2)%Z /\ (q <= e2)%Z /\ p_e10 pl = q
   else (e2 < 0)%Z /\ (q <= - e2)%Z /\ p_e10 pl = (q + e2)%Z) ->
  let k := (p_e10 pl + Z.of_nat n)%Z in
  scale_dec k e2 1 * fst (ratio pl e2)
  = snd (ratio pl e2) * 10 ^ N.of_nat n * scale_flt k e2 1.
Proof.
  intros q H k. unfold scale_dec, scale_flt, ratio. rewrite !N.shiftl_mul_pow2, !pow5N_spec, !N.mul_1_l.
  rewrite pow10_split.
  destruct (p_pos pl); cbn [fst snd]; destruct H as (H1 & H2 & H3).
  - (* e2 >= 0: k = q + n >= 0 *)
    assert (Ek : Z.to_N k = p_q pl + N.of_nat n) by (unfold k, q in *; lia).
    assert (Enk : Z.to_N (- k) = 0) by (unfold k, q in *; lia).
    rewrite Ek, Enk, N.pow_0_r, N.mul_1_l.
    destruct (Z.le_gt_cases e2 k) as [C|C].
    + replace (Z.to_N (e2 - k)) with 0 by lia. rewrite N.pow_0_r, N.mul_1_r.
      replace (N.of_nat n) with (Z.to_N (k - e2) + (Z.to_N e2 - p_q pl)) at 2 by (unfold k, q in *; lia).
      rewrite !N.pow_add_r. lia.
    + replace (Z.to_N (k - e2)) with 0 by lia. rewrite N.pow_0_r, N.mul_1_r.
      replace (Z.to_N e2 - p_q pl) with (N.of_nat n + Z.to_N (e2 - k)) by (unfold k, q in *; lia).
      rewrite !N.pow_add_r. lia.
  - (* e2 < 0: k - e2 = q + n >= 0 *)
    assert (Ek2 : Z.to_N (k - e2) = p_q pl + N.of_nat n) by (unfold k, q in *; lia).
    assert (Enk2 : Z.to_N (e2 - k) = 0) by (unfold k, q in *; lia).
    rewrite Ek2, Enk2, N.pow_0_r, N.mul_1_r.
    destruct (Z.le_gt_cases 0 k) as [C|C].
    + replace (Z.to_N (- k)) with 0 by lia. rewrite N.pow_0_r, N.mul_1_r.
      replace (N.of_nat n) with (Z.to_N k + (Z.to_N (- e2) - p_q pl)) at 3 by (unfold k, q in *; lia).
      rewrite !N.pow_add_r. lia.
    + replace (Z.to_N k) with 0 by lia. rewrite N.pow_0_r, N.mul_1_l.
      replace (Z.to_N (- e2) - p_q pl) with (N.of_nat n + Z.to_N (- k)) by (unfold k, q in *; lia).
      rewrite !N.pow_add_r. lia.
Qed.

(* ------------------------------------------------------------------ float64ToDecimal from the hand-over *)

Definition fdec_of (mant exp : N) : fdec :=
  {| f_m2 := if exp =? 0 then mant else 4503599627370496 + mant;
     f_e2 := (Z.of_N (if (exp =? 0)%N then 1%N else exp) - 1023 - 52 - 2)%Z;
     f_lowgap := if (mant =? 0) && (1 <? exp) then 1 else 2 |}.

Lemma decode_bits (mant exp : N) :
  mant < 2 ^ 52 -> exp <= 2046 -> ~ (exp = 0 /\ mant = 0) ->
  decode_float (exp * 2 ^ 52 + mant) = Some (fdec_of mant exp).
Proof.
  intros Hm He Hnz. unfold decode_float, fdec_of. change 4503599627370496 with (2 ^ 52).
  assert (E1 : (exp * 2 ^ 52 + mant) mod 2 ^ 52 = mant).
  { rewrite N.add_comm, N.mod_add by lia. apply N.mod_small. exact Hm. }
  assert (E2 : ((exp * 2 ^ 52 + mant) / 2 ^ 52) mod 2048 = exp).
  { rewrite N.div_add_l by lia. rewrite (N.div_small mant) by exact Hm. rewrite N.add_0_r.
    apply N.mod_small. lia. }
  rewrite E1, E2.
  destruct ((exp =? 2047) || ((exp =? 0) && (mant =? 0))) eqn:C; [exfalso|reflexivity].
  apply orb_true_iff in C as [C|C].
  - apply N.eqb_eq in C. lia.
  - apply andb_true_iff in C as [C1 C2]. apply N.eqb_eq in C1, C2. auto.
Qed.

(* From the hand-over conditions on the output of step 3 to the full statement about float64ToDecimal.
   PARTIAL: the premise (that f2d_step3's record satisfies [handover] at the scale of the exponent, that
   acceptBounds is the parity of the mantissa and that s_e10 is the planned exponent) is not proved here for
   all inputs; it is evaluated on samples (see the report) and fails only for the two floats of
   Proofs/RyuIntervalMul.v, where vr is off by one. *)
Theorem f2d_shortest_from_handover (mant exp : N) :
  mant < 2 ^ 52 -> exp <= 2046 -> ~ (exp = 0 /\ mant = 0) ->
  let m2 := if exp =? 0 then mant else 2 ^ 52 + mant in
  let mv := 4 * m2 in
  let mm := mv - (if (mant =? 0) && (1 <? exp) then 1 else 2) in
  (forall pl st ab, plan_of exp = Ok pl -> f2d_step3 mant exp = Ok (st, ab) ->
     ab = N.even m2 /\ s_e10 st = p_e10 pl /\
     handover ab mv mm (mv + 2) (fst (ratio pl (e2_of exp))) (snd (ratio pl (e2_of exp))) st) ->
  exists m e, float64ToDecimal mant exp = Ok (m, e) /\ shortest_b (exp * 2 ^ 52 + mant) m e = true.
Proof.
  intros Hm He Hnz m2 mv mm HO.
  destruct (ryu_indices_ok exp He) as (pl & EP & G & _).
  destruct (step3_with_ok pl mant exp G Hm He Hnz) as (st & ab & E3 & P3).
  assert (E3' : f2d_step3 mant exp = Ok (st, ab)) by (rewrite f2d_step3_split, EP; exact E3).
  destruct (HO pl st ab EP E3') as (Eab & Ee10 & HH). clear HO.
  (* exponent-only facts *)
  pose proof all_exp_side_ok as S. rewrite forallb_forall in S.
  assert (IN : In exp (map N.of_nat (seq 0 2047))).
  { apply in_map_iff. exists (N.to_nat exp). split; [lia|]. apply in_seq. lia. }
  specialize (S exp IN). unfold exp_side_ok in S. rewrite EP in S. rewrite ratio_c_eq in S.
  destruct (ratio pl (e2_of exp)) as [A B] eqn:ER. cbn [fst snd] in HH.
  repeat (apply andb_true_iff in S as [S ?]).
  match goal with K : (p_e10 pl <=? 1000)%Z = true |- _ => apply Z.leb_le in K; rename K into S5 end.
  match goal with K : (-1000 <=? p_e10 pl)%Z = true |- _ => apply Z.leb_le in K; rename K into S4 end.
  match goal with K : (F pl mp_max <? 2 ^ 63) = true |- _ => apply N.ltb_lt in K; rename K into S3 end.
  match goal with K : (B =? 1) || (10 * B <=? A) = true |- _ => rename K into S2 end.
  assert (S2' : B = 1 \/ 10 * B <= A).
  { apply orb_true_iff in S2 as [K|K]; [left; apply N.eqb_eq in K; exact K|right; apply N.leb_le in K; exact K]. }
  assert (S1 : let q := Z.of_N (p_q pl) in
               if p_pos pl then (0 <= e2_of exp)%Z /\ (q <= e2_of exp)%Z /\ p_e10 pl = q
               else (e2_of exp < 0)%Z /\ (q <= - e2_of exp)%Z /\ p_e10 pl = (q + e2_of exp)%Z).
  { cbv zeta. destruct (p_pos pl); repeat (apply andb_true_iff in S as [S ?]).
    - apply Z.leb_le in S. repeat match goal with K : (_ <=? _)%Z = true |- _ => apply Z.leb_le in K
                                             | K : (_ =? _)%Z = true |- _ => apply Z.eqb_eq in K end. auto.
    - apply Z.ltb_lt in S. repeat match goal with K : (_ <=? _)%Z = true |- _ => apply Z.leb_le in K
                                             | K : (_ =? _)%Z = true |- _ => apply Z.eqb_eq in K end. auto. }
  pose proof (ratio_pos pl (e2_of exp)) as [PA PB]. rewrite ER in PA, PB. cbn [fst snd] in PA, PB.
  (* the mantissa *)
  assert (Hm2 : 1 <= m2 < 2 ^ 53).
  { unfold m2. assert (2 ^ 53 = 2 ^ 52 + 2 ^ 52) by reflexivity.
    destruct (N.eqb_spec exp 0); lia. }
  assert (Hmm : 0 < mm /\ (mv = mm + 1 \/ mv = mm + 2)).
  { unfold mm, mv. destruct ((mant =? 0) && (1 <? exp)); lia. }
  destruct Hmm as [Hmm0 Hmv].
  pose proof P3 as (Q1 & Q2 & Q3 & Q4 & _).
  destruct (f2d_step4_ok pl st ab G P3) as (out0 & e0 & E4 & O1 & _).
  assert (Hpos : forall out e, f2d_step4 st ab = Ok (out, e) -> 0 < out).
  { intros out e K. rewrite E4 in K. inversion K; subst. exact O1. }
  assert (Hvr : s_vr st < 2 ^ 63) by (clear - Q3 S3; lia).
  assert (He10 : (-1000 <= s_e10 st <= 1000)%Z) by (rewrite Ee10; clear - S4 S5; lia).
  destruct (step4_certified ab mv mm (mv + 2) A B st PA PB Hmm0 Hmv eq_refl HH S2' Q4 Hvr He10 Hpos)
    as (n & out & Hn & E4' & C).
  exists out, (s_e10 st + Z.of_nat n)%Z. split.
  - unfold float64ToDecimal. rewrite E3'. cbn [obind fst snd]. exact E4'.
  - rewrite Ee10.
    pose proof (decode_bits mant exp Hm He Hnz) as DB.
    assert (Hgap : f_lowgap (fdec_of mant exp) <= 4 * f_m2 (fdec_of mant exp)).
    { unfold fdec_of. cbn [f_lowgap f_m2]. change 4503599627370496 with (2 ^ 52). fold m2.
      destruct ((mant =? 0) && (1 <? exp)); clear - Hm2; lia. }
    assert (Ee2 : f_e2 (fdec_of mant exp) = e2_of exp).
    { unfold fdec_of, e2_of. cbn [f_e2]. lia. }
    pose proof (scale_rel pl (e2_of exp) n S1) as REL. cbv zeta in REL. rewrite ER in REL. cbn [fst snd] in REL.
    rewrite (shortest_b_cert _ out _ (fdec_of mant exp) A (B * 10 ^ N.of_nat n) DB Hgap PA)
      by (rewrite Ee2; exact REL).
    unfold fdec_of. cbn [f_lowgap f_m2]. change 4503599627370496 with (2 ^ 52). fold m2. fold mv.
    rewrite <- Eab. exact C.
Qed.

(* the two floats whose vr is off by one (Proofs/RyuIntervalMul.v) still get a certified shortest decimal *)
Definition f2d_certified_b (mant exp : N) : bool :=
  match float64ToDecimal mant exp with
  | Ok (m, e) => shortest_b (exp * 2 ^ 52 + mant) m e
  | _ => false
  end.

Lemma exception_floats_ok :
  f2d_certified_b (7233432835334966 - 2 ^ 52) 472 = true /\
  f2d_certified_b (8385515147034757 - 2 ^ 52) 1797 = true.
Proof. vm_compute. split; reflexivity. Qed.
