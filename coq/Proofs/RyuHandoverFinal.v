(* Proofs/RyuHandoverFinal.v — the shortest-decimal property of AppendFloat64f, assembled:
   1. float64ToDecimal returns a checker-accepted pair for EVERY finite non-zero float (stage 2 + stages 1, 3
      of the previous files; the two floats with an off-by-one vr by evaluation);
   2. the exact-integer path returns a checker-accepted pair;
   3. hence the text appended by AppendFloat64f is render_f of a pair accepted by shortest_b, for every bit
      pattern of a finite non-zero float, every buffer and every allocator behaviour. *)
From QF Require Import Base.Prelude Gen.GenConsts Gen.GenRyu Model.Ryu.
From QF Require Import Proofs.RyuTables Proofs.RyuArith Proofs.RyuAppendF Proofs.RyuExactInt Proofs.RyuNoPanic
                       Proofs.RyuShortest Proofs.RyuIntervalFrac Proofs.RyuIntervalMul
                       Proofs.RyuIntervalFinal Proofs.RyuIntervalLoops Proofs.RyuInterval
                       Proofs.RyuHandover Proofs.RyuHandoverStep3.
Local Open Scope N_scope.

(* ------------------------------------------------------------------ 1. the interval search *)

Theorem float64ToDecimal_shortest (mant exp : N) :
  mant < 2 ^ 52 -> exp <= 2046 -> ~ (exp = 0 /\ mant = 0) ->
  exists m e, float64ToDecimal mant exp = Ok (m, e) /\ shortest_b (exp * 2 ^ 52 + mant) m e = true.
Proof.
  intros Hm He Hnz.
  assert (B52 : 2 ^ 52 = 4503599627370496) by reflexivity.
  destruct (mul_exception exp (4 * (if exp =? 0 then mant else 2 ^ 52 + mant))) eqn:EX.
  - unfold mul_exception in EX.
    apply orb_true_iff in EX as [EX|EX]; apply andb_true_iff in EX as [E1 E2]; apply N.eqb_eq in E1, E2.
    + subst exp. change (472 =? 0) with false in E2. cbv iota in E2.
      assert (EM : mant = 7233432835334966 - 2 ^ 52) by (rewrite B52 in *; unfold exc_x1 in E2; lia).
      subst mant. pose proof exception_floats_ok as [X _]. unfold f2d_certified_b in X.
      destruct (float64ToDecimal (7233432835334966 - 2 ^ 52) 472) as [[m e]| |]; try discriminate X.
      exists m, e. split; [reflexivity|exact X].
    + subst exp. change (1797 =? 0) with false in E2. cbv iota in E2.
      assert (EM : mant = 8385515147034757 - 2 ^ 52) by (rewrite B52 in *; unfold exc_x2 in E2; lia).
      subst mant. pose proof exception_floats_ok as [_ X]. unfold f2d_certified_b in X.
      destruct (float64ToDecimal (8385515147034757 - 2 ^ 52) 1797) as [[m e]| |]; try discriminate X.
      exists m, e. split; [reflexivity|exact X].
  - apply f2d_shortest_from_handover; try assumption.
    intros pl st ab EP E3. apply step3_handover; assumption.
Qed.

(* ------------------------------------------------------------------ 2. the exact-integer path *)

Lemma scale_flt_id (k e2 : Z) (x : N) : (0 <= k)%Z -> (e2 <= k)%Z -> scale_flt k e2 x = x.
Proof.
  intros Hk He. unfold scale_flt.
  replace (Z.to_N (- k)) with 0 by lia. replace (Z.to_N (e2 - k)) with 0 by lia.
  rewrite pow5N_spec, N.pow_0_r, N.mul_1_r. apply N.shiftl_0_r.
Qed.

(* the value is m 10^e exactly: it is inside the interval, its neighbours on the grid and the two nearest
   multiples of 10 are at least one grid step = at least 4 quarter-ulps away, outside the interval *)
Theorem exact_int_shortest (mant exp m : N) (e : Z) :
  mant < 2 ^ 52 -> exp < 2048 ->
  float64ToDecimalExactInt mant exp = Ok (Some (m, e)) ->
  shortest_b (exp * 2 ^ 52 + mant) m e = true.
Proof.
  intros Hm He EE.
  pose proof (exact_int_ok mant exp Hm He) as EI. cbv zeta in EI. rewrite EE in EI.
  destruct EI as (Hexp & He0 & EV & Hm10 & Hmpos).
  assert (B52 : 2 ^ 52 = 4503599627370496) by reflexivity.
  assert (Hnz : ~ (exp = 0 /\ mant = 0)) by lia.
  pose proof (decode_bits mant exp Hm ltac:(lia) Hnz) as DB.
  set (M := 2 ^ 52 + mant) in *.
  set (f := fdec_of mant exp) in *.
  assert (Ef2 : f_m2 f = M).
  { unfold f, fdec_of. cbn [f_m2]. destruct (N.eqb_spec exp 0); [lia|]. rewrite <- B52. reflexivity. }
  assert (Ee2 : f_e2 f = (Z.of_N exp - 1077)%Z).
  { unfold f, fdec_of. cbn [f_e2]. destruct (N.eqb_spec exp 0); lia. }
  assert (Hgap : 1 <= f_lowgap f <= 2).
  { unfold f, fdec_of. cbn [f_lowgap]. destruct ((mant =? 0) && (1 <? exp)); lia. }
  assert (HM : 1 <= M) by (unfold M; lia).
  set (K := Z.to_N e).
  set (X := 5 ^ K * 2 ^ (K + (1075 - exp))).
  assert (HX : 1 <= X).
  { unfold X. pose proof (pow_pos_N 5 K ltac:(discriminate)). pose proof (pow_pos_N 2 (K + (1075 - exp)) ltac:(discriminate)). nia. }
  assert (EmX : m * X = M).
  { rewrite <- EV. unfold X. fold K. rewrite pow10_split, N.pow_add_r. lia. }
  assert (Eud : scale_dec e (f_e2 f) 1 = X * 4).
  { unfold scale_dec. rewrite N.shiftl_mul_pow2, pow5N_spec, N.mul_1_l. fold K. unfold X.
    rewrite Ee2. replace (Z.to_N (e - (Z.of_N exp - 1077))) with (K + (1075 - exp) + 2) by (unfold K; lia).
    rewrite (N.pow_add_r 2 (K + (1075 - exp)) 2). change (2 ^ 2) with 4. lia. }
  assert (Euf : scale_flt e (f_e2 f) 1 = 1) by (apply scale_flt_id; [exact He0|rewrite Ee2; lia]).
  rewrite (shortest_b_cert _ m e f 1 (X * 4) DB ltac:(rewrite Ef2; lia) ltac:(lia))
    by (rewrite Eud, Euf; lia).
  rewrite Ef2, !N.mul_1_r.
  set (g := f_lowgap f) in *. set (ev := N.even M). clearbody g ev.
  (* decimal digits of m *)
  pose proof (N.div_mod m 10 ltac:(discriminate)) as DM.
  pose proof (N.mod_upper_bound m 10 ltac:(discriminate)) as MU.
  assert (EP : m / 10 * (10 * (X * 4)) + m mod 10 * (X * 4) = 4 * M).
  { rewrite <- EmX. rewrite DM at 3. lia. }
  assert (EQ1 : (m / 10 + 1) * (10 * (X * 4)) = m / 10 * (10 * (X * 4)) + 10 * (X * 4)) by lia.
  assert (Q1 : X * 4 <= m mod 10 * (X * 4)) by (clear - Hm10; nia).
  assert (Q2 : m mod 10 * (X * 4) <= 9 * (X * 4)) by (clear - MU; nia).
  assert (Emd : m * (X * 4) = 4 * M) by (rewrite <- EmX; lia).
  apply cert_intro.
  - exact Hmpos.
  - rewrite Emd. apply in_interval_true. destruct ev; [left|right]; split; try reflexivity; lia.
  - set (P := m / 10 * (10 * (X * 4))) in *. set (Q := m mod 10 * (X * 4)) in *.
    clearbody P Q. clear DM EmX EV Eud DB Emd.
    destruct (in_interval ev (4 * M - g) (4 * M + 2) P) eqn:I; [|reflexivity]. exfalso.
    apply in_interval_true in I. lia.
  - rewrite EQ1. set (P := m / 10 * (10 * (X * 4))) in *. set (Q := m mod 10 * (X * 4)) in *.
    clearbody P Q. clear DM EmX EV Eud DB Emd EQ1.
    destruct (in_interval ev (4 * M - g) (4 * M + 2) (P + 10 * (X * 4))) eqn:I; [|reflexivity].
    exfalso. apply in_interval_true in I. lia.
  - rewrite Emd. intro I. exfalso. apply in_interval_true in I. lia.
  - rewrite Emd. intro I. exfalso. apply in_interval_true in I. lia.
Qed.

(* both paths together: the pair AppendFloat64f formats *)
Definition ryu_pair (mant exp : N) : outcome (N * Z) :=
  do r <- float64ToDecimalExactInt mant exp;
  match r with Some d => Ok d | None => float64ToDecimal mant exp end.

Theorem ryu_pair_shortest (mant exp : N) :
  mant < 2 ^ 52 -> exp <= 2046 -> ~ (exp = 0 /\ mant = 0) ->
  exists m e, ryu_pair mant exp = Ok (m, e) /\ 0 < m /\ m < 2 ^ 59 /\
              shortest_b (exp * 2 ^ 52 + mant) m e = true.
Proof.
  intros Hm He Hnz. unfold ryu_pair.
  pose proof (exact_int_ok mant exp Hm ltac:(lia)) as EI. cbv zeta in EI.
  destruct (float64ToDecimalExactInt mant exp) as [[[m e]|]| |] eqn:EE; try contradiction.
  - cbn [obind]. exists m, e. split; [reflexivity|].
    destruct EI as (_ & _ & EV & _ & Hpos). split; [exact Hpos|]. split.
    + assert (2 ^ 52 + mant < 2 ^ 59).
      { assert (2 ^ 52 + 2 ^ 52 < 2 ^ 59) by (vm_compute; reflexivity). lia. }
      assert (1 <= 10 ^ Z.to_N e * 2 ^ (1075 - exp)).
      { pose proof (pow_pos_N 10 (Z.to_N e) ltac:(discriminate)).
        pose proof (pow_pos_N 2 (1075 - exp) ltac:(discriminate)). nia. }
      nia.
    + apply exact_int_shortest; [exact Hm|lia|exact EE].
  - cbn [obind].
    destruct (float64ToDecimal_total mant exp Hm He Hnz) as (out & e & ED & O1 & O2).
    destruct (float64ToDecimal_shortest mant exp Hm He Hnz) as (m' & e' & ED' & SB).
    rewrite ED in ED'. inversion ED'; subst m' e'.
    exists out, e. repeat split; assumption.
Qed.

(* ------------------------------------------------------------------ 3. AppendFloat64f *)

Lemma decode_float_fields (bits : N) :
  let exp := (bits / 2 ^ 52) mod 2048 in let mant := bits mod 2 ^ 52 in
  decode_float bits = decode_float (exp * 2 ^ 52 + mant).
Proof.
  intros exp mant. unfold decode_float. change 4503599627370496 with (2 ^ 52).
  assert (Hm : mant < 2 ^ 52) by (apply N.mod_upper_bound; discriminate).
  assert (E1 : (exp * 2 ^ 52 + mant) mod 2 ^ 52 = mant).
  { rewrite N.add_comm, N.mod_add by discriminate. apply N.mod_small. exact Hm. }
  assert (E2 : ((exp * 2 ^ 52 + mant) / 2 ^ 52) mod 2048 = exp).
  { rewrite N.div_add_l by discriminate. rewrite (N.div_small mant) by exact Hm. rewrite N.add_0_r.
    apply N.mod_small. apply N.mod_upper_bound. discriminate. }
  rewrite E1, E2. reflexivity.
Qed.

Lemma shortest_b_fields (bits m : N) (k : Z) :
  shortest_b bits m k = shortest_b ((bits / 2 ^ 52) mod 2048 * 2 ^ 52 + bits mod 2 ^ 52) m k.
Proof. unfold shortest_b. rewrite (decode_float_fields bits). reflexivity. Qed.

Lemma sign_bit63 (b : N) : negb (b / 2 ^ 63 =? 0) = (2 ^ 63 <=? b).
Proof.
  destruct (N.leb_spec (2 ^ 63) b) as [H|H].
  - assert (1 <= b / 2 ^ 63) by (apply N.div_le_lower_bound; [discriminate|lia]).
    destruct (N.eqb_spec (b / 2 ^ 63) 0); [lia|reflexivity].
  - rewrite (N.div_small b (2 ^ 63) H). reflexivity.
Qed.

(* AppendFloat64f on a finite non-zero float is appendF of ryu_pair *)
Lemma AppendFloat64f_finite (g : nat -> bytes) (b : buf) (bits : N) :
  bits < 2 ^ 64 ->
  let exp := (bits / 2 ^ 52) mod 2048 in let mant := bits mod 2 ^ 52 in
  exp <> 2047 -> ~ (exp = 0 /\ mant = 0) ->
  AppendFloat64f g b bits
  = do d <- ryu_pair mant exp; appendF g b (fst d) (snd d) (2 ^ 63 <=? bits).
Proof.
  intros Hb exp mant H1 H2. unfold AppendFloat64f.
  replace (sub64 (shl64 1 c_mantBits64) 1) with (N.ones 52) by (vm_compute; reflexivity).
  replace (sub64 (shl64 1 c_expBits64) 1) with (N.ones 11) by (vm_compute; reflexivity).
  change c_mantBits64 with 52. change c_expBits64 with 11.
  rewrite !N.land_ones. rewrite (shr64_spec bits 52) by lia. rewrite (shr64_spec bits (52 + 11)) by lia.
  change (52 + 11) with 63. rewrite sign_bit63.
  change (2 ^ 11) with 2048. fold exp mant.
  replace (N.ones 11) with 2047 by (vm_compute; reflexivity).
  destruct ((exp =? 2047) || ((exp =? 0) && (mant =? 0))) eqn:SP.
  - exfalso. apply orb_true_iff in SP as [S|S].
    + apply N.eqb_eq in S. contradiction.
    + apply andb_true_iff in S as [S1 S2]. apply N.eqb_eq in S1, S2. auto.
  - unfold ryu_pair. destruct (float64ToDecimalExactInt mant exp) as [[d|]| |]; cbn [obind]; reflexivity.
Qed.

(* THE property: for every bit pattern of a finite non-zero float, every buffer and allocator behaviour, the
   appended text is the positional rendering of a pair (m, e) that the certificate checker accepts: m 10^e
   lies in the rounding interval of the float, no shorter decimal does, and it is the closest such. *)
Theorem AppendFloat64f_shortest (g : nat -> bytes) (b : buf) (bits : N) :
  bits < 2 ^ 64 ->
  let exp := (bits / 2 ^ 52) mod 2048 in
  let mant := bits mod 2 ^ 52 in
  exp <> 2047 -> ~ (exp = 0 /\ mant = 0) ->
  exists m e sp,
    AppendFloat64f g b bits
    = Ok {| bdata := bdata b ++ render_f (2 ^ 63 <=? bits) m e; bspare := sp |} /\
    shortest_b bits m e = true.
Proof.
  intros Hb exp mant H1 H2.
  assert (Hm : mant < 2 ^ 52) by (apply N.mod_upper_bound; discriminate).
  assert (He : exp <= 2046).
  { pose proof (N.mod_upper_bound (bits / 2 ^ 52) 2048 ltac:(discriminate)). fold exp in H. lia. }
  destruct (ryu_pair_shortest mant exp Hm He H2) as (m & e & EP & P1 & P2 & SB).
  destruct (appendF_ok59 g b m e (2 ^ 63 <=? bits) P1 P2) as (sp & EA).
  exists m, e, sp. split.
  - rewrite (AppendFloat64f_finite g b bits Hb H1 H2). fold exp mant. rewrite EP. cbn [obind fst snd]. exact EA.
  - rewrite shortest_b_fields. exact SB.
Qed.
