(* Proofs/NewProofs.v — property C08, New: the constructor accepts exactly the valid inputs and then returns a
   well-formed frame over the identity index whose columns, in the requested order, hold exactly the supplied
   values; Drop; Select and Drop on the logical table. *)
From QF Require Import Base.Prelude Gen.GenConsts Model.Frame Model.Filter Model.Ops Model.TableSpec.
From QF Require Import Proofs.OpsProofs Proofs.OpsProofs2 Proofs.EnumProofs.
From Coq Require Import Sorted.
Local Open Scope nat_scope.

(* ------------------------------------------------------------------ what one column must hold *)

(* the cells a data slice / constant denotes (the same table as newdata_cells of the frameops engine's oracle) *)
Definition data_cells (d : newdata) (is_enum : bool) : option (ctype * list cell) :=
  let s c := if is_enum then CEnum c else CStr c in
  let ty := if is_enum then TEnum else TString in
  match d with
  | DInts x => Some (TInt, map CInt x)
  | DFloats x => Some (TFloat, map CFloat x)
  | DBools x => Some (TBool, map CBool x)
  | DStrPtrs x => Some (ty, map s x)
  | DStrings x => Some (ty, map (fun b => s (Some b)) x)
  | DConstInt v c => Some (TInt, repeat (CInt v) (Z.to_nat c))
  | DConstFloat v c => Some (TFloat, repeat (CFloat v) (Z.to_nat c))
  | DConstBool v c => Some (TBool, repeat (CBool v) (Z.to_nat c))
  | DConstStr v c => Some (ty, repeat (s v) (Z.to_nat c))
  | DOther => None
  end.

Definition is_ecol (c : coldata) : bool := match c with ECol _ _ _ => true | _ => false end.

(* supported type and non-negative count *)
Definition data_ok (d : newdata) : bool :=
  match d with
  | DConstInt _ c | DConstFloat _ c | DConstBool _ c | DConstStr _ c => (0 <=? c)%Z
  | DOther => false
  | _ => true
  end.

(* c holds exactly the cells: same length, and position k reads the k-th cell *)
Definition holds (c : coldata) (cells : list cell) : Prop :=
  col_len c = length cells /\ forall k x, nth_error cells k = Some x -> cell_at c k = Ok x.

Lemma nth_error_repeat_inv {A} (x y : A) n k : nth_error (repeat x n) k = Some y -> y = x /\ k < n.
Proof.
  revert k. induction n as [|n IH]; intros k H; [destruct k; discriminate|].
  destruct k as [|k]; simpl in H; [inversion H; split; [reflexivity|lia]|].
  destruct (IH k H). split; [assumption|lia].
Qed.

Lemma holds_map {A} (g : A -> cell) (mk : list A -> coldata) (x : list A) :
  col_len (mk x) = length x -> (forall q, cell_at (mk x) q = (do z <- idx x q; Ok (g z))) ->
  holds (mk x) (map g x).
Proof.
  intros Hl Hc. split; [rewrite map_length; exact Hl|].
  intros k y Hk. rewrite Hc, nth_error_map_of_option, Hk. reflexivity.
Qed.

Lemma holds_repeat {A} (g : A -> cell) (mk : list A -> coldata) (v : A) n :
  col_len (mk (repeat v n)) = n -> (forall q, cell_at (mk (repeat v n)) q = (do z <- idx (repeat v n) q; Ok (g z))) ->
  holds (mk (repeat v n)) (repeat (g v) n).
Proof.
  intros Hl Hc. split; [rewrite repeat_length; exact Hl|].
  intros k y Hk. apply nth_error_repeat_inv in Hk as [-> Hk]. rewrite Hc, idx_repeat by exact Hk. reflexivity.
Qed.

(* ---- the enum constructors *)

Lemma enum_new_is_ecol data values c : enum_new data values = Ok c -> exists d vals st, c = ECol d vals st.
Proof.
  rewrite enum_new_unfold. destruct (N.to_nat c_maxCardinality <? length values); [discriminate|].
  destruct (nodup_bytes values); [|discriminate]. cbv zeta. cbn [negb].
  destruct (ofold _ data (values, [])) as [r| |]; simpl; try discriminate.
  intro H. inversion H. eexists _, _, _. reflexivity.
Qed.

Lemma enum_new_holds data values c :
  enum_new data values = Ok c -> is_ecol c = true /\ col_wf c = true /\ holds c (map CEnum data).
Proof.
  intro H. destruct (enum_new_is_ecol data values c H) as [d [vals [st ->]]].
  destruct (enum_new_decode data values d vals st H) as [Hl [_ [_ [Hlen Hcell]]]].
  split; [reflexivity|]. split.
  - simpl. apply andb_true_iff. split; [|change (N.to_nat c_maxCardinality) with 255; apply Nat.leb_le; exact Hl].
    apply forallb_forall. intros r Hr. destruct (In_nth_error _ _ Hr) as [k Hk].
    pose proof (enum_rank_is_position data values d vals st H k r Hk) as Hp.
    unfold enum_rank_ok, enum_is_null. change c_nullValue with 255%N.
    destruct (nth_error data k) as [[s|]|]; [|subst r; reflexivity|contradiction].
    destruct Hp as [_ Hn]. apply orb_true_iff. right. apply Nat.ltb_lt. apply nth_error_Some. rewrite Hn. discriminate.
  - split; [simpl; rewrite map_length; exact Hlen|].
    intros k x Hk. rewrite nth_error_map in Hk. destruct (nth_error data k) as [s|] eqn:E; [|discriminate].
    inversion Hk; subst. apply Hcell. exact E.
Qed.

Lemma enum_const_cell vals r v n :
  (if enum_is_null r then v = None else exists b, v = Some b /\ nth_error vals (N.to_nat r) = Some b) ->
  forall st, holds (ECol (repeat r n) vals st) (repeat (CEnum v) n).
Proof.
  intros Hr st. split; [simpl; rewrite !repeat_length; reflexivity|].
  intros k x Hk. apply nth_error_repeat_inv in Hk as [-> Hk]. simpl. rewrite idx_repeat by exact Hk. simpl.
  unfold enum_string. destruct (enum_is_null r); [subst v; reflexivity|].
  destruct Hr as [b [-> Hn]]. unfold idx. rewrite Hn. reflexivity.
Qed.

Lemma forallb_repeat {A} (P : A -> bool) x n : P x = true -> forallb P (repeat x n) = true.
Proof. intro H. induction n; simpl; [reflexivity|]. rewrite H. exact IHn. Qed.

Lemma enum_new_const_holds v n values c :
  enum_new_const v n values = Ok c -> is_ecol c = true /\ col_wf c = true /\ holds c (repeat (CEnum v) n).
Proof.
  unfold enum_new_const. destruct (N.to_nat c_maxCardinality <? length values) eqn:Ec; [discriminate|].
  destruct (nodup_bytes values); [|discriminate]. cbn [negb].
  apply Nat.ltb_ge in Ec. change (N.to_nat c_maxCardinality) with 255 in *. cbv zeta.
  destruct v as [b|].
  - destruct (find_value_last values b) as [r|] eqn:Ef.
    + intro H. inversion H; subst c. clear H.
      destruct (find_value_last_some values b r Ef) as [j [Hj [Hr Hn]]].
      assert (Hnull : enum_is_null r = false).
      { unfold enum_is_null. change c_nullValue with 255%N. apply N.eqb_neq. lia. }
      split; [reflexivity|]. split.
      * simpl. apply andb_true_iff. split; [|apply Nat.leb_le; exact Ec].
        apply forallb_repeat. unfold enum_rank_ok. rewrite Hnull. simpl. apply Nat.ltb_lt. lia.
      * apply enum_const_cell. rewrite Hnull. exists b. split; [reflexivity|]. subst r. rewrite Nat2N.id. exact Hn.
    + destruct (negb (length values =? 0)); [discriminate|].
      destruct (255 <=? length values) eqn:E2; [discriminate|]. apply Nat.leb_gt in E2.
      intro H. inversion H; subst c. clear H.
      assert (Hnull : enum_is_null (N.of_nat (length values)) = false).
      { unfold enum_is_null. change c_nullValue with 255%N. apply N.eqb_neq. lia. }
      split; [reflexivity|]. split.
      * simpl. apply andb_true_iff. split; [|apply Nat.leb_le; rewrite app_length; simpl; lia].
        apply forallb_repeat. unfold enum_rank_ok. rewrite Hnull. simpl. apply Nat.ltb_lt.
        rewrite Nat2N.id, app_length. simpl. lia.
      * apply enum_const_cell. rewrite Hnull. exists b. split; [reflexivity|].
        rewrite Nat2N.id, nth_error_app2 by lia. rewrite Nat.sub_diag. reflexivity.
  - intro H. inversion H; subst c. clear H. split; [reflexivity|]. split.
    + simpl. apply andb_true_iff. split; [|apply Nat.leb_le; exact Ec].
      apply forallb_repeat. reflexivity.
    + apply enum_const_cell. reflexivity.
Qed.

(* ---- createColumn: whatever it returns holds exactly the supplied values; without an enum declaration it
        succeeds exactly for the supported types with a non-negative count *)

Theorem create_column_holds d en c :
  create_column d en = Ok c ->
  data_ok d = true /\ col_wf c = true
  /\ (is_ecol c = true -> is_string_data d = true /\ en <> None)
  /\ exists cells, data_cells d (is_ecol c) = Some (col_type c, cells) /\ holds c cells.
Proof.
  destruct d as [x|x|x|x|x|v n|v n|v n|v n|]; simpl.
  - intro H; inversion H; subst c. repeat split; try discriminate. eexists. split; [reflexivity|].
    apply (holds_map CInt ICol x); reflexivity.
  - intro H; inversion H; subst c. repeat split; try discriminate. eexists. split; [reflexivity|].
    apply (holds_map CFloat FCol x); reflexivity.
  - intro H; inversion H; subst c. repeat split; try discriminate. eexists. split; [reflexivity|].
    apply (holds_map CBool BCol x); reflexivity.
  - destruct en as [vals|].
    + intro H. destruct (enum_new_holds x vals c H) as [He [Hw Hh]]. destruct c; try discriminate.
      repeat split; try assumption; try discriminate. eexists. split; [reflexivity|exact Hh].
    + intro H; inversion H; subst c. repeat split; try discriminate. eexists. split; [reflexivity|].
      apply (holds_map CStr SCol x); reflexivity.
  - destruct en as [vals|].
    + intro H. destruct (enum_new_holds (map Some x) vals c H) as [He [Hw Hh]]. destruct c; try discriminate.
      repeat split; try assumption; try discriminate. eexists. split; [reflexivity|]. rewrite map_map in Hh. exact Hh.
    + intro H; inversion H; subst c. repeat split; try discriminate. eexists. split; [reflexivity|].
      simpl. rewrite <- (map_map Some CStr). apply (holds_map CStr SCol (map Some x)); [simpl; reflexivity|reflexivity].
  - destruct (n <? 0)%Z eqn:En; [discriminate|]. intro H; inversion H; subst c.
    repeat split; try discriminate; [lia|]. eexists. split; [reflexivity|].
    apply (holds_repeat CInt ICol v); [simpl; apply repeat_length|reflexivity].
  - destruct (n <? 0)%Z eqn:En; [discriminate|]. intro H; inversion H; subst c.
    repeat split; try discriminate; [lia|]. eexists. split; [reflexivity|].
    apply (holds_repeat CFloat FCol v); [simpl; apply repeat_length|reflexivity].
  - destruct (n <? 0)%Z eqn:En; [discriminate|]. intro H; inversion H; subst c.
    repeat split; try discriminate; [lia|]. eexists. split; [reflexivity|].
    apply (holds_repeat CBool BCol v); [simpl; apply repeat_length|reflexivity].
  - destruct (n <? 0)%Z eqn:En; [discriminate|]. destruct en as [vals|].
    + intro H. destruct (enum_new_const_holds v (Z.to_nat n) vals c H) as [He [Hw Hh]]. destruct c; try discriminate.
      repeat split; try assumption; try discriminate; [lia|]. eexists. split; [reflexivity|exact Hh].
    + intro H; inversion H; subst c. repeat split; try discriminate; [lia|]. eexists. split; [reflexivity|].
      apply (holds_repeat CStr SCol v); [simpl; apply repeat_length|reflexivity].
  - discriminate.
Qed.

Theorem create_column_plain d : exists r, create_column d None = r /\ (data_ok d = true <-> exists c, r = Ok c) /\ r <> Panic.
Proof.
  eexists. split; [reflexivity|].
  destruct d as [x|x|x|x|x|v n|v n|v n|v n|]; simpl;
    try (split; [split; [intros _; eexists; reflexivity|reflexivity]|discriminate]);
    try (destruct (n <? 0)%Z eqn:En; (split; [split; [intro H; try lia; eexists; reflexivity|intros [c Hc]; try discriminate; lia]|discriminate])).
  split; [split; [discriminate|intros [c Hc]; discriminate]|discriminate].
Qed.

Lemma ofold_cons {A B} (g : B -> A -> outcome B) x l b :
  ofold g (x :: l) b = match g b x with Ok b' => ofold g l b' | Fail => Fail | Panic => Panic end.
Proof.
  unfold ofold. simpl. destruct (g b x) as [b'| |]; [reflexivity| |].
  - induction l as [|y l IH]; simpl; [reflexivity|exact IH].
  - induction l as [|y l IH]; simpl; [reflexivity|exact IH].
Qed.

Lemma enum_fold_no_panic strict : forall data st, ofold (enum_step strict) data st <> Panic.
Proof.
  induction data as [|s data IH]; intros st; [discriminate|]. rewrite ofold_cons.
  destruct (enum_step strict st s) as [st'| |] eqn:E; [apply IH|discriminate|].
  exfalso. destruct st as [vals acc]. unfold enum_step in E. destruct s as [b|]; [|discriminate].
  destruct (find_value_last vals b); [discriminate|]. destruct strict; [discriminate|].
  destruct (N.to_nat c_maxCardinality <=? length vals); discriminate.
Qed.

Lemma create_column_no_panic d en : create_column d en <> Panic.
Proof.
  assert (He : forall x vals, enum_new x vals <> Panic).
  { intros x vals. rewrite enum_new_unfold. destruct (N.to_nat c_maxCardinality <? length vals); [discriminate|].
    destruct (nodup_bytes vals); [|discriminate]. cbv zeta. cbn [negb].
    pose proof (enum_fold_no_panic (negb (length vals =? 0)) x (vals, [])) as Hp.
    destruct (ofold _ x (vals, [])); simpl; [discriminate|discriminate|congruence]. }
  destruct d as [x|x|x|x|x|v n|v n|v n|v n|]; simpl; try discriminate;
    try (destruct en; [apply He|discriminate]);
    try (destruct (n <? 0)%Z; discriminate).
  destruct (n <? 0)%Z; [discriminate|]. destruct en as [vals|]; [|discriminate].
  unfold enum_new_const. destruct (N.to_nat c_maxCardinality <? length vals); [discriminate|].
  destruct (nodup_bytes vals); [|discriminate]. cbv zeta. cbn [negb].
  destruct v as [b|]; [|discriminate]. destruct (find_value_last vals b); [discriminate|].
  destruct (negb (length vals =? 0)); [discriminate|]. destruct (N.to_nat c_maxCardinality <=? length vals); discriminate.
Qed.

(* ------------------------------------------------------------------ New: the loop over the column order *)

Definition new_state := (list (bytes * coldata) * nat * list bytes)%type.

(* the body of New's loop (the local function of new_frame) *)
Definition new_step (data : list (bytes * newdata)) (enums : list (bytes * list bytes)) (st : new_state) (n : bytes)
  : outcome new_state :=
  let '(acc, first, used) := st in
  match assocb n data with
  | None => Panic
  | Some d =>
      let en := if is_string_data d && negb (existsb (bytes_eqb n) used) then assocb n enums else None in
      do c <- create_column d en;
      let used' := match en with Some _ => n :: used | None => used end in
      let first' := match acc with [] => col_len c | _ => first end in
      if Nat.eqb first' (col_len c) then Ok (acc ++ [(n, c)], first', used') else Fail
  end.

Definition new_order (data : list (bytes * newdata)) (order : list bytes) : list bytes :=
  match order with [] => sort_names (map fst data) | _ => order end.

Lemma new_frame_unfold data order enums :
  new_frame data order enums =
  let errf := mkFrame [] [] true in
  if negb (forallb (fun kv => check_name (fst kv)) data) then Ok errf
  else if negb (Nat.eqb (length (new_order data order)) (length data)) then Ok errf
  else if negb (forallb (fun n => match assocb n data with Some _ => true | None => false end) (new_order data order)) then Ok errf
  else if negb (nodup_bytes (new_order data order)) then Ok errf
  else match ofold (new_step data enums) (new_order data order) ([], 0, []) with
       | Ok (cs, len, used) =>
           if negb (forallb (fun kv => existsb (bytes_eqb (fst kv)) used) enums) then Ok errf
           else Ok (mkFrame cs (seq 0 len) false)
       | Fail => Ok errf
       | Panic => Panic
       end.
Proof. reflexivity. Qed.

(* the column New builds for a name: createColumn on its data, as enum iff it is string data declared in Enums *)
Definition col_for (data : list (bytes * newdata)) (enums : list (bytes * list bytes)) (n : bytes) : outcome coldata :=
  match assocb n data with
  | Some d => create_column d (if is_string_data d then assocb n enums else None)
  | None => Panic
  end.

Definition has_enum (data : list (bytes * newdata)) (enums : list (bytes * list bytes)) (m : bytes) : bool :=
  match assocb m data with
  | Some d => is_string_data d && match assocb m enums with Some _ => true | None => false end
  | None => false
  end.

Definition col_fits data enums (L : nat) (n : bytes) : bool :=
  match col_for data enums n with Ok c => Nat.eqb L (col_len c) | _ => false end.

Lemma new_step_eval data enums acc first used n d :
  assocb n data = Some d -> existsb (bytes_eqb n) used = false ->
  new_step data enums (acc, first, used) n =
  match col_for data enums n with
  | Ok c => let first' := match acc with [] => col_len c | _ => first end in
            if Nat.eqb first' (col_len c)
            then Ok (acc ++ [(n, c)], first', if has_enum data enums n then n :: used else used)
            else Fail
  | Fail => Fail
  | Panic => Panic
  end.
Proof.
  intros Hd Hu. unfold new_step, col_for, has_enum. rewrite Hd, Hu. simpl negb. rewrite andb_true_r.
  destruct (create_column d (if is_string_data d then assocb n enums else None)) as [c| |]; simpl; try reflexivity.
  destruct (is_string_data d); simpl; [destruct (assocb n enums); reflexivity|reflexivity].
Qed.

Lemma col_for_no_panic data enums n : assocb n data <> None -> col_for data enums n <> Panic.
Proof. unfold col_for. destruct (assocb n data); [intros _; apply create_column_no_panic|congruence]. Qed.

Lemma existsb_cons_other (m n : bytes) used : bytes_eqb m n = false -> existsb (bytes_eqb m) (n :: used) = existsb (bytes_eqb m) used.
Proof. intro H. simpl. rewrite H. reflexivity. Qed.

Definition new_col_ok data enums (L : nat) (n : bytes) (nc : bytes * coldata) : Prop :=
  fst nc = n /\ col_for data enums n = Ok (snd nc) /\ col_len (snd nc) = L.

Lemma new_loop data enums L : forall names acc used,
  acc <> [] -> NoDup names ->
  (forall n, In n names -> existsb (bytes_eqb n) used = false) ->
  (forall n, In n names -> assocb n data <> None) ->
  if forallb (col_fits data enums L) names
  then exists cs used', ofold (new_step data enums) names (acc, L, used) = Ok (acc ++ cs, L, used')
         /\ Forall2 (new_col_ok data enums L) names cs
         /\ (forall m, existsb (bytes_eqb m) used' = existsb (bytes_eqb m) used || (existsb (bytes_eqb m) names && has_enum data enums m))
  else ofold (new_step data enums) names (acc, L, used) = Fail.
Proof.
  induction names as [|n names IH]; intros acc used Hacc Hnd Hun Hkn.
  - simpl. exists [], used. rewrite app_nil_r. split; [reflexivity|]. split; [constructor|].
    intro m. rewrite orb_false_r. reflexivity.
  - inversion Hnd as [|? ? Hnotin Hnd']; subst.
    destruct (assocb n data) as [d|] eqn:Hd; [|exfalso; apply (Hkn n (or_introl eq_refl)); exact Hd].
    rewrite ofold_cons, (new_step_eval data enums acc L used n d Hd (Hun n (or_introl eq_refl))).
    simpl forallb. unfold col_fits at 1.
    pose proof (col_for_no_panic data enums n ltac:(rewrite Hd; discriminate)) as Hnp.
    destruct (col_for data enums n) as [c| |] eqn:Hc; [|reflexivity|congruence].
    replace (match acc with [] => col_len c | _ :: _ => L end) with L by (destruct acc; [congruence|reflexivity]).
    cbv zeta. destruct (L =? col_len c) eqn:El; [|reflexivity]. simpl andb.
    set (used1 := if has_enum data enums n then n :: used else used).
    assert (Hused1 : forall m, bytes_eqb m n = false -> existsb (bytes_eqb m) used1 = existsb (bytes_eqb m) used).
    { intros m Hm. unfold used1. destruct (has_enum data enums n); [apply existsb_cons_other; exact Hm|reflexivity]. }
    assert (Hne : forall m, In m names -> bytes_eqb m n = false).
    { intros m Hm. destruct (bytes_eqb m n) eqn:E; [|reflexivity]. apply bytes_eqb_spec in E. subst. contradiction. }
    specialize (IH (acc ++ [(n, c)]) used1 ltac:(destruct acc; discriminate) Hnd'
                   ltac:(intros m Hm; rewrite (Hused1 m (Hne m Hm)); apply Hun; right; exact Hm)
                   ltac:(intros m Hm; apply Hkn; right; exact Hm)).
    destruct (forallb (col_fits data enums L) names); [|exact IH].
    destruct IH as [cs [used' [Hf [Hcs Hu']]]].
    exists ((n, c) :: cs), used'. split; [rewrite Hf, <- app_assoc; reflexivity|].
    split; [constructor; [split; [reflexivity|split; [exact Hc|apply Nat.eqb_eq in El; auto]]|exact Hcs]|].
    intro m. rewrite Hu'. simpl existsb. destruct (bytes_eqb m n) eqn:Em.
    + apply bytes_eqb_spec in Em. subst m. unfold used1. destruct (has_enum data enums n) eqn:Eh.
      * simpl. rewrite bytes_eqb_refl. simpl. rewrite orb_true_r. reflexivity.
      * rewrite !andb_false_r, !orb_false_r. reflexivity.
    + rewrite (Hused1 m Em). reflexivity.
Qed.

(* ------------------------------------------------------------------ New: accepted exactly when valid *)

Definition new_valid (data : list (bytes * newdata)) (order : list bytes) (enums : list (bytes * list bytes)) : bool :=
  let order' := new_order data order in
  forallb (fun kv => check_name (fst kv)) data
  && Nat.eqb (length order') (length data)
  && forallb (fun n => match assocb n data with Some _ => true | None => false end) order'
  && nodup_bytes order'
  && match order' with
     | [] => true
     | n0 :: _ => match col_for data enums n0 with
                  | Ok c0 => forallb (col_fits data enums (col_len c0)) order'
                  | _ => false
                  end
     end
  && forallb (fun kv => existsb (bytes_eqb (fst kv)) order' && has_enum data enums (fst kv)) enums.

(* the number of rows: the length of the FIRST column in order *)
Definition new_len (data : list (bytes * newdata)) (order : list bytes) (enums : list (bytes * list bytes)) : nat :=
  match new_order data order with
  | [] => 0
  | n0 :: _ => match col_for data enums n0 with Ok c0 => col_len c0 | _ => 0 end
  end.

Lemma forallb_ext_in {A} (P Q : A -> bool) l : (forall x, In x l -> P x = Q x) -> forallb P l = forallb Q l.
Proof.
  induction l as [|x l IH]; intro H; [reflexivity|]. simpl. rewrite (H x (or_introl eq_refl)), IH; [reflexivity|].
  intros y Hy. apply H. right. exact Hy.
Qed.

(* a valid input has no name twice in the column order *)
Lemma new_valid_nodup data order enums : new_valid data order enums = true -> NoDup (new_order data order).
Proof.
  unfold new_valid. cbv zeta. intro H. apply andb_true_iff in H as [H _]. apply andb_true_iff in H as [H _].
  apply andb_true_iff in H as [_ H]. apply nodup_bytes_spec. exact H.
Qed.

Theorem new_frame_spec data order enums :
  if new_valid data order enums
  then exists f, new_frame data order enums = Ok f /\ ferr f = false
         /\ ix f = seq 0 (new_len data order enums)
         /\ Forall2 (new_col_ok data enums (new_len data order enums)) (new_order data order) (cols f)
  else new_frame data order enums = Ok (mkFrame [] [] true).
Proof.
  rewrite new_frame_unfold. unfold new_valid, new_len. cbv zeta.
  destruct (forallb (fun kv => check_name (fst kv)) data); [|reflexivity]. simpl negb. cbv iota. simpl andb.
  destruct (length (new_order data order) =? length data); [|reflexivity]. simpl negb. cbv iota. simpl andb.
  destruct (forallb (fun n => match assocb n data with Some _ => true | None => false end) (new_order data order)) eqn:Hknown;
    [|reflexivity]. simpl negb. cbv iota. simpl andb.
  assert (Hkn : forall n, In n (new_order data order) -> assocb n data <> None).
  { intros n Hn. rewrite forallb_forall in Hknown. specialize (Hknown n Hn). destruct (assocb n data); [discriminate|discriminate]. }
  destruct (nodup_bytes (new_order data order)) eqn:Hndb; [|reflexivity]. simpl negb. cbv iota. simpl andb.
  assert (Hnd : NoDup (new_order data order)) by (apply nodup_bytes_spec; exact Hndb).
  destruct (new_order data order) as [|n0 rest] eqn:Eo.
  - (* no columns *)
    simpl.
    destruct (forallb _ enums); [|reflexivity]. simpl. eexists. split; [reflexivity|]. repeat split. constructor.
  - inversion Hnd as [|? ? Hnotin Hnd']; subst.
    destruct (assocb n0 data) as [d0|] eqn:Hd0; [|exfalso; apply (Hkn n0 (or_introl eq_refl)); exact Hd0].
    rewrite ofold_cons, (new_step_eval data enums [] 0 [] n0 d0 Hd0 eq_refl).
    pose proof (col_for_no_panic data enums n0 ltac:(rewrite Hd0; discriminate)) as Hnp.
    destruct (col_for data enums n0) as [c0| |] eqn:Hc0; [|reflexivity|congruence].
    cbv zeta. rewrite Nat.eqb_refl. cbn [app].
    set (L := col_len c0). set (used1 := if has_enum data enums n0 then [n0] else []).
    assert (Hne : forall m, In m rest -> bytes_eqb m n0 = false).
    { intros m Hm. destruct (bytes_eqb m n0) eqn:E; [|reflexivity]. apply bytes_eqb_spec in E. subst. contradiction. }
    assert (Hused1 : forall m, existsb (bytes_eqb m) used1 = bytes_eqb m n0 && has_enum data enums n0).
    { intro m. unfold used1. destruct (has_enum data enums n0); simpl; [rewrite orb_false_r, andb_true_r|rewrite andb_false_r]; reflexivity. }
    pose proof (new_loop data enums L rest [(n0, c0)] used1 ltac:(discriminate) Hnd'
                  ltac:(intros m Hm; rewrite Hused1, (Hne m Hm); reflexivity)
                  ltac:(intros m Hm; apply Hkn; right; exact Hm)) as Hloop.
    simpl forallb. unfold col_fits at 1. rewrite Hc0. fold L. rewrite Nat.eqb_refl. simpl andb.
    destruct (forallb (col_fits data enums L) rest); [|rewrite Hloop; reflexivity].
    destruct Hloop as [cs [used' [Hf [Hcs Hu']]]]. rewrite Hf.
    rewrite (forallb_ext_in (fun kv => existsb (bytes_eqb (fst kv)) used')
                            (fun kv => existsb (bytes_eqb (fst kv)) (n0 :: rest) && has_enum data enums (fst kv)) enums).
    2:{ intros kv _. rewrite Hu', Hused1. simpl existsb.
        destruct (bytes_eqb (fst kv) n0) eqn:E; simpl; [|reflexivity].
        apply bytes_eqb_spec in E. rewrite E.
        destruct (has_enum data enums n0); simpl; [reflexivity|]. rewrite andb_false_r. reflexivity. }
    destruct (forallb _ enums); [|reflexivity]. simpl negb. cbv iota.
    eexists. split; [reflexivity|]. cbn [ferr ix cols]. split; [reflexivity|]. split; [reflexivity|].
    simpl app. constructor; [|exact Hcs]. split; [reflexivity|]. split; [exact Hc0|reflexivity].
Qed.

(* ------------------------------------------------------------------ New: the table of the supplied values *)

Lemma lookup_from_in name : forall cs pos acc, In name (map fst cs) -> lookup_from name cs pos acc <> None.
Proof.
  assert (Hs : forall cs pos x, lookup_from name cs pos (Some x) <> None).
  { induction cs as [|[n c] cs IH]; intros pos x; simpl; [discriminate|]. destruct (bytes_eqb n name); apply IH. }
  induction cs as [|[n c] cs IH]; intros pos acc Hin; simpl in *; [contradiction|].
  destruct Hin as [->|Hin].
  - rewrite bytes_eqb_refl. apply Hs.
  - apply IH. exact Hin.
Qed.

Lemma lookup_unique f k n c : NoDup (col_names f) -> nth_error (cols f) k = Some (n, c) -> lookup f n = Some (k, c).
Proof.
  intros Hnd Hk.
  assert (Hin : In n (map fst (cols f))).
  { apply in_map_iff. exists (n, c). split; [reflexivity|]. eapply nth_error_In. exact Hk. }
  destruct (lookup f n) as [[k' c']|] eqn:El; [|exfalso; apply (lookup_from_in n (cols f) 0 None Hin); exact El].
  pose proof (lookup_some_nth f n k' c' El) as Hk'.
  assert (Hkk : k' = k).
  { unfold col_names in Hnd. rewrite NoDup_nth_error in Hnd. apply Hnd.
    - rewrite map_length. apply nth_error_Some. rewrite Hk'. discriminate.
    - rewrite !nth_error_map, Hk, Hk'. reflexivity. }
  subst k'. rewrite Hk in Hk'. inversion Hk'; subst. reflexivity.
Qed.

Lemma omap_seq_nth {B} (g : nat -> outcome B) : forall (cells : list B) s,
  (forall k x, nth_error cells k = Some x -> g (s + k) = Ok x) -> omap g (seq s (length cells)) = Ok cells.
Proof.
  induction cells as [|x cells IH]; intros s H; [reflexivity|].
  simpl. rewrite <- (Nat.add_0_r s) at 1. rewrite (H 0 x eq_refl). simpl.
  rewrite (IH (S s)); [reflexivity|]. intros k y Hk. replace (S s + k) with (s + S k) by lia. apply H. exact Hk.
Qed.

Lemma holds_omap c cells : holds c cells -> omap (cell_at c) (seq 0 (col_len c)) = Ok cells.
Proof. intros [Hl Hc]. rewrite Hl. apply omap_seq_nth. exact Hc. Qed.

Lemma create_column_enum d vals c : is_string_data d = true -> create_column d (Some vals) = Ok c -> is_ecol c = true.
Proof.
  destruct d as [x|x|x|x|x|v n|v n|v n|v n|]; try discriminate; intros _; simpl.
  - intro H. apply (enum_new_holds x vals c H).
  - intro H. apply (enum_new_holds (map Some x) vals c H).
  - destruct (n <? 0)%Z; [discriminate|]. intro H. apply (enum_new_const_holds v (Z.to_nat n) vals c H).
Qed.

Lemma Forall2_nth {A B} (R : A -> B -> Prop) : forall l1 l2 k b,
  Forall2 R l1 l2 -> nth_error l2 k = Some b -> exists a, nth_error l1 k = Some a /\ R a b.
Proof.
  induction l1 as [|a l1 IH]; intros l2 k b H Hk; inversion H; subst; [destruct k; discriminate|].
  destruct k as [|k]; simpl in Hk; [inversion Hk; subst; exists a; auto|]. apply (IH _ k b H4 Hk).
Qed.

Lemma Forall2_in_l {A B} (R : A -> B -> Prop) : forall l1 l2 a,
  Forall2 R l1 l2 -> In a l1 -> exists k b, nth_error l2 k = Some b /\ R a b.
Proof.
  induction l1 as [|a0 l1 IH]; intros l2 a H Ha; [contradiction|]. inversion H; subst.
  destruct Ha as [->|Ha]; [exists 0, y; auto|]. destruct (IH _ a H4 Ha) as [k [b Hb]]. exists (S k), b. exact Hb.
Qed.

(* a valid input gives a well-formed frame over the identity index that denotes the table of the supplied values:
   the columns are named and ordered as requested, column n holds exactly the cells of data[n] (null pointers
   as null, constants repeated), as enum iff n is string data declared in Enums *)
Theorem new_frame_table data order enums :
  new_valid data order enums = true ->
  exists f t, new_frame data order enums = Ok f /\ ferr f = false /\ wf_frame f = true
    /\ ix f = seq 0 (new_len data order enums) /\ abs f = Ok t
    /\ tnames t = new_order data order /\ length (trows t) = new_len data order enums
    /\ forall n, In n (new_order data order) ->
         exists d tc, assocb n data = Some d /\ data_ok d = true
           /\ data_cells d (has_enum data enums n) = Some tc /\ tcolumn t n = Some tc
           /\ length (snd tc) = new_len data order enums.
Proof.
  intros Hv. pose proof (new_frame_spec data order enums) as H. rewrite Hv in H.
  assert (Hnd : NoDup (new_order data order)) by (apply (new_valid_nodup data order enums Hv)).
  destruct H as [f [Hf [Herr [Hix Hcols]]]].
  set (L := new_len data order enums) in *.
  assert (Hnames : col_names f = new_order data order).
  { unfold col_names. clear - Hcols. induction Hcols as [|n nc ns cs [Hn _] _ IH]; simpl; [reflexivity|]. rewrite Hn, IH. reflexivity. }
  assert (Hcol : forall k n c, nth_error (cols f) k = Some (n, c) ->
            col_for data enums n = Ok c /\ col_len c = L /\ In n (new_order data order)).
  { intros k n c Hk. destruct (Forall2_nth _ _ _ k (n, c) Hcols Hk) as [n' [Hn' [Hfst [Hc Hl]]]]. simpl in *. subst n'.
    repeat split; try assumption. apply (nth_error_In _ _ Hn'). }
  assert (Hholds : forall n c, col_for data enums n = Ok c ->
            exists d cells, assocb n data = Some d /\ data_ok d = true /\ col_wf c = true
              /\ data_cells d (has_enum data enums n) = Some (col_type c, cells) /\ holds c cells).
  { intros n c Hc. unfold col_for in Hc. destruct (assocb n data) as [d|] eqn:Hd; [|discriminate].
    destruct (create_column_holds d _ c Hc) as [Hok [Hwf [Hen [cells [Hcells Hh]]]]].
    exists d, cells. split; [reflexivity|]. split; [exact Hok|]. split; [exact Hwf|]. split; [|exact Hh].
    replace (has_enum data enums n) with (is_ecol c); [exact Hcells|].
    unfold has_enum. rewrite Hd. destruct (is_ecol c) eqn:Ee.
    - destruct (Hen eq_refl) as [Hs Hne]. rewrite Hs in *. destruct (assocb n enums); [reflexivity|congruence].
    - destruct (is_string_data d) eqn:Es; [|reflexivity]. destruct (assocb n enums) as [vals|] eqn:Ea; [|reflexivity].
      rewrite (create_column_enum d vals c Es Hc) in Ee. discriminate. }
  assert (Hphys : phys_len f = L \/ cols f = []).
  { unfold phys_len. destruct f as [cs0 i0 e0]. cbn [cols] in *. destruct cs0 as [|[n0 c0] cs]; [right; reflexivity|left].
    apply (Hcol 0 n0 c0). reflexivity. }
  assert (Hwf : wf_frame f = true).
  { apply wf_frame_iff. split.
    - apply Forall_forall. intros [n c] Hin. destruct (In_nth_error _ _ Hin) as [k Hk].
      destruct (Hcol k n c Hk) as [Hc [Hl _]]. destruct (Hholds n c Hc) as [d [cells [_ [_ [Hw _]]]]].
      split; [|exact Hw]. simpl. destruct Hphys as [Hp|Hp]; [congruence|rewrite Hp in Hin; contradiction].
    - rewrite Hix. apply Forall_forall. intros p Hp. apply in_seq in Hp.
      destruct Hphys as [Hp'|Hp']; [lia|].
      exfalso. unfold L, new_len in Hp. inversion Hcols as [Ho Hc|? ? ? ? ? ? Ho Hc].
      + rewrite <- Ho in Hp. simpl in Hp. lia.
      + rewrite Hp' in Hc. discriminate. }
  destruct (abs_total f Hwf) as [t Ht]. destruct (abs_rows f t Ht) as [Hrows [Htn _]].
  exists f, t. repeat split; try assumption.
  - rewrite Htn. exact Hnames.
  - rewrite (abs_length f t Ht), Hix, seq_length. reflexivity.
  - intros n Hn. destruct (Forall2_in_l _ _ _ n Hcols Hn) as [k [[n' c] [Hk [Hfst [Hc Hl]]]]]. simpl in *. subst n'.
    destruct (Hholds n c Hc) as [d [cells [Hd [Hok [_ [Hcells Hh]]]]]].
    exists d, (col_type c, cells). split; [exact Hd|]. split; [exact Hok|]. split; [exact Hcells|].
    pose proof (lookup_unique f k n c ltac:(rewrite Hnames; exact Hnd) Hk) as Hlk.
    destruct (abs_tcolumn_some f t n k c Ht Hlk) as [cells' [Htc Hcells']].
    rewrite Hix in Hcells'. pose proof (holds_omap c cells Hh) as Ho. rewrite Hl in Ho. fold L in Hcells'.
    rewrite Ho in Hcells'. inversion Hcells'; subst cells'. split; [exact Htc|].
    simpl. destruct Hh as [Hlen _]. congruence.
Qed.

(* every other input is rejected through Err *)
Theorem new_frame_rejects data order enums :
  new_valid data order enums = false ->
  new_frame data order enums = Ok (mkFrame [] [] true).
Proof. intros Hv. pose proof (new_frame_spec data order enums) as H. rewrite Hv in H. exact H. Qed.

(* in particular a ColumnOrder that names a column twice is rejected, whatever else is supplied *)
Theorem new_frame_repeated_order_rejected data order enums :
  ~ NoDup (new_order data order) -> new_frame data order enums = Ok (mkFrame [] [] true).
Proof.
  intro H. apply new_frame_rejects. destruct (new_valid data order enums) eqn:Hv; [|reflexivity].
  exfalso. apply H. apply (new_valid_nodup data order enums Hv).
Qed.

(* ------------------------------------------------------------------ the default column order: sorted names *)

Lemma insert_sorted_perm s : forall l, Permutation (insert_sorted s l) (s :: l).
Proof.
  induction l as [|x l IH]; simpl; [apply Permutation_refl|].
  destruct (bytes_cmp s x); try apply Permutation_refl.
  eapply Permutation_trans; [apply perm_skip; exact IH|apply perm_swap].
Qed.

Lemma sort_names_perm : forall l, Permutation (sort_names l) l.
Proof.
  induction l as [|x l IH]; simpl; [constructor|].
  eapply Permutation_trans; [apply insert_sorted_perm|apply perm_skip; exact IH].
Qed.

Lemma bytes_cmp_gt_lt : forall a b, bytes_cmp a b = Gt -> bytes_cmp b a = Lt.
Proof.
  induction a as [|x a IH]; intros [|y b] H; simpl in *; try discriminate; try reflexivity.
  rewrite (N.compare_antisym x y). destruct (x ?= y)%N eqn:E; simpl; try discriminate; [apply IH; exact H|reflexivity].
Qed.

Definition names_le (a b : bytes) : Prop := bytes_cmp a b <> Gt.

Lemma insert_sorted_sorted s : forall l, Sorted names_le l -> Sorted names_le (insert_sorted s l).
Proof.
  induction l as [|x l IH]; intro Hs; simpl; [repeat constructor|].
  destruct (bytes_cmp s x) eqn:E.
  - constructor; [exact Hs|constructor; unfold names_le; rewrite E; discriminate].
  - constructor; [exact Hs|constructor; unfold names_le; rewrite E; discriminate].
  - inversion Hs as [|? ? Hs' Hhd]; subst. constructor; [apply IH; exact Hs'|].
    destruct l as [|y l]; simpl.
    + constructor. unfold names_le. rewrite (bytes_cmp_gt_lt s x E). discriminate.
    + destruct (bytes_cmp s y); constructor; try (unfold names_le; rewrite (bytes_cmp_gt_lt s x E); discriminate);
        inversion Hhd; assumption.
Qed.

(* without ColumnOrder the columns come in byte-wise alphabetical order, each key once *)
Theorem sort_names_sorted l : Sorted names_le (sort_names l) /\ Permutation (sort_names l) l.
Proof.
  split; [|apply sort_names_perm]. induction l as [|x l IH]; simpl; [constructor|]. apply insert_sorted_sorted. exact IH.
Qed.

Lemma assocb_in {A} n (data : list (bytes * A)) : assocb n data <> None -> In n (map fst data).
Proof.
  induction data as [|[k v] data IH]; simpl; [congruence|].
  destruct (bytes_eqb k n) eqn:E; [intros _; left; apply bytes_eqb_spec; exact E|intro H; right; apply IH; exact H].
Qed.

(* the two checks New makes on a ColumnOrder without repetitions say: it is a permutation of the keys *)
Theorem new_order_permutation (data : list (bytes * newdata)) order :
  NoDup (new_order data order) ->
  length (new_order data order) = length data ->
  forallb (fun n => match assocb n data with Some _ => true | None => false end) (new_order data order) = true ->
  Permutation (new_order data order) (map fst data).
Proof.
  intros Hnd Hlen Hk. apply NoDup_Permutation_bis; [exact Hnd|rewrite map_length; lia|].
  intros n Hn. rewrite forallb_forall in Hk. specialize (Hk n Hn). apply assocb_in.
  destruct (assocb n data); [discriminate|discriminate].
Qed.

(* ... hence a valid input's order is a permutation of the keys *)
Theorem new_valid_order_permutation data order enums :
  new_valid data order enums = true -> Permutation (new_order data order) (map fst data).
Proof.
  intro Hv. pose proof (new_valid_nodup data order enums Hv) as Hnd.
  unfold new_valid in Hv. cbv zeta in Hv. apply andb_true_iff in Hv as [Hv _]. apply andb_true_iff in Hv as [Hv _].
  apply andb_true_iff in Hv as [Hv _]. apply andb_true_iff in Hv as [Hv Hk]. apply andb_true_iff in Hv as [_ Hl].
  apply Nat.eqb_eq in Hl. apply new_order_permutation; assumption.
Qed.

(* New returns a frame without Err exactly for the valid inputs *)
Theorem new_frame_iff data order enums :
  new_valid data order enums = true <-> exists f, new_frame data order enums = Ok f /\ ferr f = false.
Proof.
  split.
  - intro Hv. destruct (new_frame_table data order enums Hv) as [f [t [H1 [H2 _]]]]. exists f. auto.
  - intros [f [Hf He]]. destruct (new_valid data order enums) eqn:Hv; [reflexivity|].
    rewrite (new_frame_rejects data order enums Hv) in Hf. inversion Hf; subst. discriminate.
Qed.

Lemma new_order_default_nodup (data : list (bytes * newdata)) : NoDup (map fst data) -> NoDup (new_order data []).
Proof. intro H. simpl. apply (Permutation_NoDup (Permutation_sym (sort_names_perm _)) H). Qed.

(* ------------------------------------------------------------------ Drop *)

Lemma filter_map_fst {A B} (P : A -> bool) : forall (l : list (A * B)),
  filter P (map fst l) = map fst (filter (fun nc => P (fst nc)) l).
Proof. induction l as [|[a b] l IH]; simpl; [reflexivity|]. destruct (P a); simpl; rewrite IH; reflexivity. Qed.

Lemma select_cols_filter f (P : bytes -> bool) : forall l,
  (forall n c, In (n, c) l -> lookup_col f n = Some c) ->
  flat_map (fun n => match lookup_col f n with Some c => [(n, c)] | None => [] end) (filter P (map fst l))
  = filter (fun nc => P (fst nc)) l.
Proof.
  induction l as [|[n c] l IH]; intro H; [reflexivity|]. simpl.
  destruct (P n); simpl; [rewrite (H n c (or_introl eq_refl)); simpl; f_equal|];
    apply IH; intros n' c' Hin; apply H; right; exact Hin.
Qed.

Lemma contains_in f n : In n (col_names f) -> contains f n = true.
Proof.
  intro H. unfold contains. pose proof (lookup_from_in n (cols f) 0 None H) as Hl. unfold lookup.
  destruct (lookup_from n (cols f) 0 None); [reflexivity|congruence].
Qed.

(* Drop never fails: names that are not columns are ignored (as in the implementation) *)
Theorem drop_no_err f names : ferr f = false -> ferr (drop f names) = false.
Proof.
  intro Hf. unfold drop. rewrite Hf. destruct names as [|n0 ns]; [exact Hf|].
  set (rem := filter _ (col_names f)). unfold select. rewrite Hf.
  assert (Hc : forallb (contains f) rem = true).
  { apply forallb_forall. intros n Hn. apply filter_In in Hn as [Hn _]. apply contains_in. exact Hn. }
  rewrite Hc. simpl. destruct rem; reflexivity.
Qed.

(* Drop(names) on a frame with distinct column names: exactly the physical columns whose name is not listed, in
   their original order, over the unchanged index; nothing left = the frame without columns and rows;
   Drop() = the frame itself *)
Theorem drop_spec f names :
  ferr f = false -> NoDup (col_names f) ->
  let rest := filter (fun nc => negb (existsb (bytes_eqb (fst nc)) names)) (cols f) in
  drop f names = match names, rest with
                 | [], _ => f
                 | _, [] => mkFrame [] [] false
                 | _, _ => mkFrame rest (ix f) false
                 end.
Proof.
  intros Hf Hnd rest. unfold drop. rewrite Hf. destruct names as [|n0 ns]; [reflexivity|].
  set (P := fun n => negb (existsb (bytes_eqb n) (n0 :: ns))).
  assert (Hrem : filter P (col_names f) = map fst rest) by (unfold col_names, rest; apply (filter_map_fst P (cols f))).
  unfold select. rewrite Hf.
  assert (Hc : forallb (contains f) (filter P (col_names f)) = true).
  { apply forallb_forall. intros n Hn. apply filter_In in Hn as [Hn _]. apply contains_in. exact Hn. }
  rewrite Hc. simpl negb. cbv iota.
  assert (Hcols : flat_map (fun n => match lookup_col f n with Some c => [(n, c)] | None => [] end) (filter P (col_names f)) = rest).
  { unfold col_names, rest. apply (select_cols_filter f P (cols f)).
    intros n c Hin. destruct (In_nth_error _ _ Hin) as [k Hk]. unfold lookup_col. rewrite (lookup_unique f k n c Hnd Hk). reflexivity. }
  rewrite Hcols. rewrite Hrem. destruct rest as [|[n1 c1] rest']; reflexivity.
Qed.
