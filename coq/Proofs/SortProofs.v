(* Proofs/SortProofs.v — lemmas about Model/Sort.v, part 1:
     * the sorter only permutes (any lt, any thresholds)              -> C03_perm
     * the Comparable tables / Less are the order of the property text -> compare_order, less_lex_swo
     * the boolean checker sorted_perm_b                               -> sorted_perm_b_correct *)
From Coq Require Import Sorting.Mergesort Sorting.Sorted.
From QF Require Import Base.Prelude Model.Sort.

(* ------------------------------------------------------------------ monad inversion *)
Ltac mon1 :=
  match goal with
  | H : Ok _ = Ok _ |- _ => inversion H; subst; clear H
  | H : Panic = Ok _ |- _ => discriminate H
  | H : Fail = Ok _ |- _ => discriminate H
  | H : obind ?e _ = Ok _ |- _ =>
      let E := fresh "E" in destruct e eqn:E; cbn [obind] in H; try discriminate H
  | H : match ?p with pair _ _ => _ end = Ok _ |- _ => destruct p
  | H : (if ?c then _ else _) = Ok _ |- _ => let C := fresh "C" in destruct c eqn:C
  end.
Ltac mon := repeat mon1.

(* ------------------------------------------------------------------ swap is a transposition *)
Lemma set_nth_perm_aux (s : list nat) : forall j x y,
  nth_error s j = Some y -> Permutation (y :: set_nth s j x) (x :: s).
Proof.
  induction s as [|a s IH]; intros [|j] x y H; simpl in *; try discriminate.
  - inversion H; subst. apply perm_swap.
  - eapply perm_trans; [apply perm_swap|].
    eapply perm_trans; [apply perm_skip, IH, H|]. apply perm_swap.
Qed.

Lemma swap_set_perm (s : list nat) : forall i j di dj,
  nth_error s i = Some di -> nth_error s j = Some dj ->
  Permutation (set_nth (set_nth s i dj) j di) s.
Proof.
  induction s as [|a s IH]; intros [|i] [|j] di dj Hi Hj; simpl in *; try discriminate.
  - inversion Hi; inversion Hj; subst. subst. apply Permutation_refl.
  - inversion Hi; subst. apply set_nth_perm_aux, Hj.
  - inversion Hj; subst. apply set_nth_perm_aux, Hi.
  - apply perm_skip. eapply IH; eassumption.
Qed.

Lemma idx_some {A} (s : list A) i x : idx s i = Ok x -> nth_error s i = Some x.
Proof. unfold idx, of_option. destruct (nth_error s i); intros H; inversion H; reflexivity. Qed.

Section Perm.
  Variable lt : nat -> nat -> bool.

  Lemma swap_perm s i j s' : swap s i j = Ok s' -> Permutation s' s.
  Proof.
    unfold swap. intros H. mon. apply idx_some in E, E0. eapply swap_set_perm; eassumption.
  Qed.

  Ltac pstep :=
    match goal with
    | H : swap _ _ _ = Ok _ |- _ => apply swap_perm in H
    end.
  Ltac pchain :=
    solve [ apply Permutation_refl
          | match goal with
            | H : Permutation ?a ?b |- Permutation ?a ?c => apply (perm_trans H); clear H; pchain
            end ].
  Ltac pclose := repeat pstep; pchain.

  Lemma ins_inner_perm a : forall j s s', ins_inner lt a j s = Ok s' -> Permutation s' s.
  Proof.
    induction j as [|j IH]; intros s s' H; cbn [ins_inner] in H; mon; try apply Permutation_refl.
    apply IH in H. pclose.
  Qed.

  Lemma ins_outer_perm a : forall k i s s', ins_outer lt k a i s = Ok s' -> Permutation s' s.
  Proof.
    induction k as [|k IH]; intros i s s' H; cbn [ins_outer] in H; mon; try apply Permutation_refl.
    apply IH in H. apply ins_inner_perm in E. pclose.
  Qed.

  Lemma insertion_sort_perm a b s s' : insertion_sort lt a b s = Ok s' -> Permutation s' s.
  Proof. apply ins_outer_perm. Qed.

  Lemma sift_down_perm hi first : forall fuel root s s',
    sift_down lt fuel root hi first s = Ok s' -> Permutation s' s.
  Proof.
    induction fuel as [|f IH]; intros root s s' H; cbn [sift_down] in H; mon;
      try apply Permutation_refl; apply IH in H; pclose.
  Qed.

  Lemma heap_build_perm hi first : forall k s s',
    heap_build lt k hi first s = Ok s' -> Permutation s' s.
  Proof.
    induction k as [|k IH]; intros s s' H; cbn [heap_build] in H; mon; try apply Permutation_refl.
    apply IH in H. apply sift_down_perm in E. pclose.
  Qed.

  Lemma heap_pop_perm lo first : forall k s s',
    heap_pop lt k lo first s = Ok s' -> Permutation s' s.
  Proof.
    induction k as [|k IH]; intros s s' H; cbn [heap_pop] in H; mon; try apply Permutation_refl.
    apply IH in H. apply sift_down_perm in E0. pclose.
  Qed.

  Lemma heap_sort_perm a b s s' : heap_sort lt a b s = Ok s' -> Permutation s' s.
  Proof.
    unfold heap_sort. intros H. mon. apply heap_build_perm in E. apply heap_pop_perm in H. pclose.
  Qed.

  Lemma median_of_three_perm m1 m0 m2 s s' :
    median_of_three lt m1 m0 m2 s = Ok s' -> Permutation s' s.
  Proof. unfold median_of_three. intros H. mon; pclose. Qed.

  Lemma dp_main_perm pivot : forall fuel b c s b' c' s',
    dp_main lt fuel pivot b c s = Ok (b', c', s') -> Permutation s' s.
  Proof.
    induction fuel as [|f IH]; intros b c s b' c' s' H; cbn [dp_main] in H; mon;
      try apply Permutation_refl. apply IH in H. pclose.
  Qed.

  Lemma dp_protect_perm pivot : forall fuel a b s a' b' s',
    dp_protect lt fuel pivot a b s = Ok (a', b', s') -> Permutation s' s.
  Proof.
    induction fuel as [|f IH]; intros a b s a' b' s' H; cbn [dp_protect] in H; mon;
      try apply Permutation_refl. apply IH in H. pclose.
  Qed.

  Lemma dp_choose_pivot_perm lo hi m s s' :
    dp_choose_pivot lt lo hi m s = Ok s' -> Permutation s' s.
  Proof.
    unfold dp_choose_pivot. intros H. mon;
      repeat match goal with
             | H : median_of_three _ _ _ _ _ = Ok _ |- _ => apply median_of_three_perm in H
             end; pclose.
  Qed.

  Lemma dp_dups_perm lo hi m b c s p b' c' s' :
    dp_dups lt lo hi m b c s = Ok (p, b', c', s') -> Permutation s' s.
  Proof. unfold dp_dups. intros H. mon; pclose. Qed.

  Lemma do_pivot_perm lo hi s mlo mhi s' :
    do_pivot lt lo hi s = Ok (mlo, mhi, s') -> Permutation s' s.
  Proof.
    unfold do_pivot. intros H. mon;
      repeat match goal with
             | H : dp_choose_pivot _ _ _ _ _ = Ok _ |- _ => apply dp_choose_pivot_perm in H
             | H : dp_dups _ _ _ _ _ _ _ = Ok _ |- _ => apply dp_dups_perm in H
             | H : dp_main _ _ _ _ _ _ = Ok _ |- _ => apply dp_main_perm in H
             | H : dp_protect _ _ _ _ _ _ = Ok _ |- _ => apply dp_protect_perm in H
             end; pclose.
  Qed.

  Lemma shell_pass_perm : forall k i s s', shell_pass lt k i s = Ok s' -> Permutation s' s.
  Proof.
    induction k as [|k IH]; intros i s s' H; cbn [shell_pass] in H; mon;
      try apply Permutation_refl; apply IH in H; pclose.
  Qed.

  Lemma quick_sort_perm : forall fuel a b d s s',
    quick_sort lt fuel a b d s = Ok s' -> Permutation s' s.
  Proof.
    induction fuel as [|f IH]; intros a b d s s' H; cbn [quick_sort] in H; mon;
      try apply Permutation_refl.
    - eapply heap_sort_perm; eassumption.
    - apply do_pivot_perm in E. apply IH in E0. apply IH in H. pclose.
    - apply do_pivot_perm in E. apply IH in E0. apply IH in H. pclose.
    - apply shell_pass_perm in E. apply insertion_sort_perm in H. pclose.
  Qed.

  Theorem sort_ids_perm ids out : sort_ids lt ids = Ok out -> Permutation out ids.
  Proof. unfold sort_ids. intros H. mon. eapply quick_sort_perm; eassumption. Qed.
End Perm.

(* ------------------------------------------------------------------ strict weak orders *)
(* [R a b = true] reads "a is strictly smaller than b"; restricted to the rows satisfying [P]. *)
Record strict_weak_order_on (P : nat -> bool) (R : nat -> nat -> bool) : Prop := {
  swo_irrefl : forall a, P a = true -> R a a = false;
  swo_trans : forall a b c, P a = true -> P b = true -> P c = true ->
      R a b = true -> R b c = true -> R a c = true;
  swo_incomp_trans : forall a b c, P a = true -> P b = true -> P c = true ->
      R a b = false -> R b a = false -> R b c = false -> R c b = false ->
      R a c = false /\ R c a = false }.

Definition strict_weak_order := strict_weak_order_on (fun _ => true).

(* the equivalent working form: asymmetric and negatively transitive *)
Definition asym_on (P : nat -> bool) (R : nat -> nat -> bool) : Prop :=
  forall a b, P a = true -> P b = true -> R a b = true -> R b a = false.
Definition negtrans_on (P : nat -> bool) (R : nat -> nat -> bool) : Prop :=
  forall a b c, P a = true -> P b = true -> P c = true ->
    R a b = false -> R b c = false -> R a c = false.

Lemma swo_asym P R : strict_weak_order_on P R -> asym_on P R.
Proof.
  intros [I T _] a b Pa Pb H. destruct (R b a) eqn:E; auto.
  rewrite <- (I a Pa). symmetry. eapply T; eauto.
Qed.

Lemma swo_negtrans P R : strict_weak_order_on P R -> negtrans_on P R.
Proof.
  intros W a b c Pa Pb Pc Hab Hbc. destruct W as [I T C].
  destruct (R a c) eqn:Hac; auto.
  destruct (R b a) eqn:Hba.
  { rewrite (T b a c Pb Pa Pc Hba Hac) in Hbc. discriminate. }
  destruct (R c b) eqn:Hcb.
  { rewrite (T a c b Pa Pc Pb Hac Hcb) in Hab. discriminate. }
  destruct (C a b c Pa Pb Pc Hab Hba Hbc Hcb) as [H _]. congruence.
Qed.

Lemma swo_of_asym_negtrans P R : asym_on P R -> negtrans_on P R -> strict_weak_order_on P R.
Proof.
  intros A N. split.
  - intros a Pa. destruct (R a a) eqn:E; auto. rewrite (A a a Pa Pa E) in E. discriminate.
  - intros a b c Pa Pb Pc Hab Hbc. destruct (R a c) eqn:Hac; auto.
    (* a<b, not a<c  ==> not c<b ... use negtrans on (a,c),(c,b) *)
    destruct (R c b) eqn:Hcb.
    + rewrite (A b c Pb Pc Hbc) in Hcb. discriminate.
    + rewrite (N a c b Pa Pc Pb Hac Hcb) in Hab. discriminate.
  - intros a b c Pa Pb Pc Hab Hba Hbc Hcb. split; eapply N; eauto.
Qed.

(* ------------------------------------------------------------------ the Comparable tables *)
Definition cmp3 (r : cmpres) : comparison :=
  match r with LessThan => Lt | GreaterThan => Gt | Equal | NotEqual => Eq end.

Definition cmp_of_lt (R : nat -> nat -> bool) (a b : nat) : comparison :=
  if R a b then Lt else if R b a then Gt else Eq.

Definition nonnull (isnull : nat -> bool) : nat -> bool := fun i => negb (isnull i).

(* compare_order: whatever Reverse / NullLast, Compare answers LessThan / GreaterThan / a tie exactly
   as the order of the property text says. *)
Lemma compare_rows_spec rev nl isnull vlt a b :
  asym_on (nonnull isnull) vlt ->
  cmp3 (compare_rows (mk_cmpcfg rev false nl) isnull vlt a b)
  = cmp_of_lt (key_lt_spec rev nl isnull vlt) a b.
Proof.
  intros A. unfold compare_rows, cmp_of_lt, key_lt_spec, key_lt_base, nonnull in *.
  destruct (isnull a) eqn:Na, (isnull b) eqn:Nb; cbn [orb negb].
  - destruct rev, nl; reflexivity.
  - destruct rev, nl; reflexivity.
  - destruct rev, nl; reflexivity.
  - assert (Pa : negb (isnull a) = true) by (rewrite Na; reflexivity).
    assert (Pb : negb (isnull b) = true) by (rewrite Nb; reflexivity).
    destruct (vlt a b) eqn:Hab.
    + rewrite (A a b Pa Pb Hab). destruct rev, nl; reflexivity.
    + destruct (vlt b a) eqn:Hba; destruct rev, nl; reflexivity.
Qed.

(* null against null is a tie (NotEqual with equalNull = false, Equal with equalNull = true) *)
Lemma compare_rows_null_null rev en nl isnull vlt a b :
  isnull a = true -> isnull b = true ->
  compare_rows (mk_cmpcfg rev en nl) isnull vlt a b = if en then Equal else NotEqual.
Proof.
  intros Ha Hb. unfold compare_rows. rewrite Ha, Hb. destruct rev, en, nl; reflexivity.
Qed.

(* the per-type Compare methods are instances of compare_rows *)
Lemma compare_rows_float_eq cfg isnan vlt a b :
  (forall x y, isnan x = true \/ isnan y = true -> vlt x y = false) ->
  compare_rows_float cfg isnan vlt a b = compare_rows cfg isnan vlt a b.
Proof.
  intros H. unfold compare_rows_float, compare_rows.
  destruct (isnan a) eqn:Na.
  - rewrite (H a b), (H b a) by auto. reflexivity.
  - destruct (isnan b) eqn:Nb.
    + rewrite (H a b), (H b a) by auto. reflexivity.
    + cbn [orb]. reflexivity.
Qed.

Lemma compare_rows_int_eq cfg vlt a b :
  compare_rows_int cfg vlt a b = compare_rows cfg (fun _ => false) vlt a b.
Proof. reflexivity. Qed.

Lemma compare_rows_bool_eq cfg v a b :
  compare_rows_bool cfg v a b
  = compare_rows cfg (fun _ => false) (fun i j => negb (v i) && v j) a b.
Proof.
  unfold compare_rows_bool, compare_rows. cbn [orb]. destruct (v a), (v b); reflexivity.
Qed.

(* Sorter.Less over the Compare results is the lexicographic order of the property text *)
Lemma less_keys_lex (cs : list (nat -> nat -> cmpres)) (rs : list (nat -> nat -> bool)) a b :
  Forall2 (fun c r => forall x y, cmp3 (c x y) = cmp_of_lt r x y) cs rs ->
  less_keys cs a b = lex_lt_spec rs a b.
Proof.
  induction 1 as [|c r cs rs Hcr _ IH]; cbn [less_keys lex_lt_spec]; auto.
  pose proof (Hcr a b) as H1. unfold cmp_of_lt in H1.
  destruct (r a b) eqn:Rab; cbn [orb].
  - destruct (c a b); try discriminate; reflexivity.
  - destruct (r b a) eqn:Rba; cbn [negb andb].
    + destruct (c a b); try discriminate; reflexivity.
    + destruct (c a b); try discriminate; apply IH.
Qed.

(* a sort key as QFrame.Sort builds it: column (isnull, vlt), Reverse, NullLast *)
Record keydesc := { kd_isnull : nat -> bool; kd_vlt : nat -> nat -> bool; kd_rev : bool; kd_nl : bool }.
Definition kd_compare (k : keydesc) : nat -> nat -> cmpres :=
  compare_rows (mk_cmpcfg (kd_rev k) false (kd_nl k)) (kd_isnull k) (kd_vlt k).
Definition kd_spec (k : keydesc) : nat -> nat -> bool :=
  key_lt_spec (kd_rev k) (kd_nl k) (kd_isnull k) (kd_vlt k).

Lemma less_keys_spec (ks : list keydesc) a b :
  Forall (fun k => asym_on (nonnull (kd_isnull k)) (kd_vlt k)) ks ->
  less_keys (map kd_compare ks) a b = lex_lt_spec (map kd_spec ks) a b.
Proof.
  intros H. apply less_keys_lex. induction H as [|k ks Hk _ IH]; cbn [map]; constructor; auto.
  intros x y. apply compare_rows_spec, Hk.
Qed.

(* ---- the order of one key is a strict weak order *)
Lemma key_lt_base_swo nl isnull vlt :
  strict_weak_order_on (nonnull isnull) vlt ->
  strict_weak_order (key_lt_base nl isnull vlt).
Proof.
  intros W. pose proof (swo_asym _ _ W) as A. pose proof (swo_negtrans _ _ W) as N.
  apply swo_of_asym_negtrans; unfold key_lt_base, nonnull in *.
  - intros a b _ _. destruct (isnull a) eqn:Na, (isnull b) eqn:Nb; destruct nl; cbn; try congruence.
    all: intros H; apply A; auto; rewrite ?Na, ?Nb; reflexivity.
  - intros a b c _ _ _.
    destruct (isnull a) eqn:Na, (isnull b) eqn:Nb, (isnull c) eqn:Nc; destruct nl; cbn;
      try congruence.
    all: intros H1 H2; eapply N; eauto; rewrite ?Na, ?Nb, ?Nc; reflexivity.
Qed.

Lemma flip_swo R : strict_weak_order R -> strict_weak_order (fun a b => R b a).
Proof.
  intros W. pose proof (swo_asym _ _ W) as A. pose proof (swo_negtrans _ _ W) as N.
  apply swo_of_asym_negtrans.
  - intros a b _ _ H. apply A; auto.
  - intros a b c _ _ _ H1 H2. eapply N; eauto.
Qed.

Lemma key_lt_spec_swo rev nl isnull vlt :
  strict_weak_order_on (nonnull isnull) vlt ->
  strict_weak_order (key_lt_spec rev nl isnull vlt).
Proof.
  intros W. unfold key_lt_spec. destruct rev.
  - apply (flip_swo _ (key_lt_base_swo nl isnull vlt W)).
  - exact (key_lt_base_swo nl isnull vlt W).
Qed.

(* Reverse inverts the complete order of the key, null placement included *)
Lemma key_lt_spec_reverse nl isnull vlt a b :
  key_lt_spec true nl isnull vlt a b = key_lt_spec false nl isnull vlt b a.
Proof. reflexivity. Qed.

(* null placement: smaller than every value, larger with NullLast; null-null is a tie *)
Lemma key_lt_spec_null nl isnull vlt a b :
  isnull a = true -> isnull b = false ->
  key_lt_spec false nl isnull vlt a b = negb nl /\ key_lt_spec false nl isnull vlt b a = nl.
Proof. intros Ha Hb. unfold key_lt_spec, key_lt_base. rewrite Ha, Hb. auto. Qed.

Lemma key_lt_spec_null_null rev nl isnull vlt a b :
  isnull a = true -> isnull b = true -> key_lt_spec rev nl isnull vlt a b = false.
Proof. intros Ha Hb. unfold key_lt_spec, key_lt_base. rewrite Ha, Hb. destruct rev; auto. Qed.

Lemma key_lt_spec_values nl isnull vlt a b :
  isnull a = false -> isnull b = false -> key_lt_spec false nl isnull vlt a b = vlt a b.
Proof. intros Ha Hb. unfold key_lt_spec, key_lt_base. rewrite Ha, Hb. auto. Qed.

(* ---- the lexicographic combination of strict weak orders is a strict weak order *)
Lemma lex_lt_spec_swo (rs : list (nat -> nat -> bool)) :
  Forall strict_weak_order rs -> strict_weak_order (lex_lt_spec rs).
Proof.
  induction 1 as [|r rs Wr _ IH]; cbn [lex_lt_spec].
  - apply swo_of_asym_negtrans; intros a b; intros; reflexivity || discriminate.
  - pose proof (swo_asym _ _ Wr) as A. pose proof (swo_negtrans _ _ Wr) as N.
    pose proof (swo_asym _ _ IH) as A'. pose proof (swo_negtrans _ _ IH) as N'.
    apply swo_of_asym_negtrans.
    + intros a b _ _ H. destruct (r a b) eqn:Rab; cbn [orb] in H.
      * rewrite (A a b eq_refl eq_refl Rab). reflexivity.
      * destruct (r b a) eqn:Rba; cbn [negb andb] in H; try discriminate.
        cbn. apply A'; auto.
    + intros a b c _ _ _ H1 H2.
      apply orb_false_iff in H1 as [Rab H1]. apply orb_false_iff in H2 as [Rbc H2].
      rewrite (N a b c eq_refl eq_refl eq_refl Rab Rbc). cbn [orb].
      destruct (r c a) eqn:Rca; cbn [negb andb]; auto.
      destruct (r b a) eqn:Rba.
      { (* b<a, not b<c  ==> c<a *)
        destruct (r b c) eqn:E; try discriminate.
        pose proof (N b c a eq_refl eq_refl eq_refl E Rca). congruence. }
      destruct (r c b) eqn:Rcb.
      { pose proof (N c a b eq_refl eq_refl eq_refl Rca Rab). congruence. }
      cbn [negb andb] in H1, H2. eapply N'; eauto.
Qed.

(* less_lex_swo: Sorter.Less over keys built by Comparable(reverse, false, nullLast) is a strict
   weak order on row ids as soon as every column's value order is one on its non-null rows. *)
Theorem less_keys_swo (ks : list keydesc) :
  Forall (fun k => strict_weak_order_on (nonnull (kd_isnull k)) (kd_vlt k)) ks ->
  strict_weak_order (less_keys (map kd_compare ks)).
Proof.
  intros H.
  assert (E : forall a b, less_keys (map kd_compare ks) a b = lex_lt_spec (map kd_spec ks) a b).
  { intros a b. apply less_keys_spec. eapply Forall_impl; [|exact H].
    intros k W. eapply swo_asym; eauto. }
  assert (W : strict_weak_order (lex_lt_spec (map kd_spec ks))).
  { apply lex_lt_spec_swo. clear E. induction H as [|k ks Hk _ IH]; cbn [map]; constructor; auto.
    apply key_lt_spec_swo, Hk. }
  destruct W as [I T C]. split.
  - intros a Pa. rewrite E. auto.
  - intros a b c Pa Pb Pc. rewrite !E. eauto.
  - intros a b c Pa Pb Pc. rewrite !E. eauto.
Qed.

(* ------------------------------------------------------------------ the checker *)
Lemma natorder_leb_le x y : NatOrder.leb x y = true <-> x <= y.
Proof.
  revert y; induction x as [|x IH]; intros [|y]; cbn; split; intros H; try lia; try discriminate.
  - apply IH in H. lia.
  - apply IH. lia.
Qed.

Lemma natsort_strongly_sorted l : StronglySorted le (NatSort.sort l).
Proof.
  assert (H : StronglySorted (fun x y => is_true (NatOrder.leb x y)) (NatSort.sort l)).
  { apply NatSort.StronglySorted_sort. intros x y z Hxy Hyz. unfold is_true in *.
    apply natorder_leb_le in Hxy, Hyz. apply natorder_leb_le. lia. }
  induction H as [|a l' Hs IH Ha]; constructor; auto.
  eapply Forall_impl; [|exact Ha]. intros b Hb. apply natorder_leb_le, Hb.
Qed.

Lemma strongly_sorted_perm_eq : forall l1 l2 : list nat,
  StronglySorted le l1 -> StronglySorted le l2 -> Permutation l1 l2 -> l1 = l2.
Proof.
  induction l1 as [|a l1 IH]; intros l2 S1 S2 P.
  - apply Permutation_nil in P. auto.
  - destruct l2 as [|b l2]; [apply Permutation_sym, Permutation_nil in P; discriminate|].
    inversion S1 as [|? ? S1' F1]; inversion S2 as [|? ? S2' F2]; subst.
    assert (a = b).
    { assert (Ia : In a (b :: l2)) by (eapply Permutation_in; [exact P|left; auto]).
      assert (Ib : In b (a :: l1)) by (eapply Permutation_in; [apply Permutation_sym, P|left; auto]).
      rewrite Forall_forall in F1, F2.
      destruct Ia as [->|Ia]; auto. destruct Ib as [->|Ib]; auto.
      apply F2 in Ia. apply F1 in Ib. lia. }
    subst b. f_equal. apply IH; auto. eapply Permutation_cons_inv; eauto.
Qed.

Lemma nat_list_eqb_eq (a b : list nat) : list_eqb Nat.eqb a b = true <-> a = b.
Proof. apply list_eqb_spec. intros x y. apply Nat.eqb_eq. Qed.

Lemma perm_b_correct a b : perm_b a b = true <-> Permutation a b.
Proof.
  unfold perm_b. rewrite nat_list_eqb_eq. split; intros H.
  - eapply perm_trans; [apply NatSort.Permuted_sort|]. rewrite H.
    apply Permutation_sym, NatSort.Permuted_sort.
  - apply strongly_sorted_perm_eq; try apply natsort_strongly_sorted.
    eapply perm_trans; [apply Permutation_sym, NatSort.Permuted_sort|].
    eapply perm_trans; [exact H|]. apply NatSort.Permuted_sort.
Qed.

(* "every adjacent pair (a, b) of the list has lt b a = false" *)
Definition no_adjacent_inversion (lt : nat -> nat -> bool) (l : list nat) : Prop :=
  forall i a b, nth_error l i = Some a -> nth_error l (S i) = Some b -> lt b a = false.

Lemma adjacent_ok_correct lt l : adjacent_ok lt l = true <-> no_adjacent_inversion lt l.
Proof.
  unfold no_adjacent_inversion. induction l as [|x l IH].
  - cbn. split; auto. intros _ [|i] a b H; discriminate.
  - cbn [adjacent_ok]. destruct l as [|y l].
    + split; auto. intros _ i a b H1 H2. destruct i as [|i]; cbn in H2; discriminate.
    + rewrite andb_true_iff, negb_true_iff, IH. split.
      * intros [H0 H] [|i] a b Ha Hb.
        -- cbn in Ha, Hb. inversion Ha; inversion Hb; subst. exact H0.
        -- apply (H i a b); auto.
      * intros H. split.
        -- apply (H 0 x y); reflexivity.
        -- intros i a b Ha Hb. apply (H (S i) a b); auto.
Qed.

Theorem sorted_perm_b_correct' lt input output :
  sorted_perm_b lt input output = true <->
  Permutation output input /\ no_adjacent_inversion lt output.
Proof.
  unfold sorted_perm_b. rewrite andb_true_iff, perm_b_correct, adjacent_ok_correct. tauto.
Qed.

(* for a strict weak order "no adjacent inversion" is the same as "no inversion at all" *)
Definition no_inversion (lt : nat -> nat -> bool) (l : list nat) : Prop :=
  forall i j a b, i < j -> nth_error l i = Some a -> nth_error l j = Some b -> lt b a = false.

Lemma no_adjacent_inversion_all lt l :
  strict_weak_order lt -> no_adjacent_inversion lt l -> no_inversion lt l.
Proof.
  intros W H. pose proof (swo_negtrans _ _ W) as N. destruct W as [I _ _].
  intros i j. revert i. induction j as [|j IH]; intros i a b Hij Ha Hb; [lia|].
  destruct (nth_error l j) as [c|] eqn:Hc.
  2:{ apply nth_error_None in Hc. assert (S j < length l) by (apply nth_error_Some; congruence). lia. }
  pose proof (H j c b Hc Hb) as Hbc.
  destruct (Nat.eq_dec i j) as [->|Hne].
  - rewrite Ha in Hc. inversion Hc; subst. exact Hbc.
  - assert (Hca : lt c a = false) by (apply (IH i a c); auto; lia).
    eapply N; eauto.
Qed.

(* ------------------------------------------------------------------ examples of the premises *)
(* any order induced by a rank function is a strict weak order *)
Lemma swo_of_rank (P : nat -> bool) (f : nat -> N) :
  strict_weak_order_on P (fun a b => N.ltb (f a) (f b)).
Proof. split; intros; lia. Qed.
