(* Proofs/RyuHandoverJson.v — the form of the C16 result that the JSON read-back (C14) needs: the decimal that
   Model/JsonRead.float_decimal computes for a bit pattern lies in the rounding interval of the float.  The
   statement is literally the body of [ryu_in_interval] of Proofs/JsonDocProofs.v. *)
From QF Require Import Base.Prelude Gen.GenConsts Gen.GenRyu Model.Ryu Model.JsonRead.
From QF Require Import Proofs.RyuShortest Proofs.RyuHandoverFinal.
Local Open Scope N_scope.

Theorem ryu_in_interval_holds :
  forall bits m e fd, bits < 2 ^ 64 -> decode_float bits = Some fd -> float_decimal bits = Ok (m, e) ->
    RyuShortest.sc_in fd e m = true.
Proof.
  intros bits m e fd Hb Hd Hf.
  set (exp := (bits / 2 ^ 52) mod 2048). set (mant := bits mod 2 ^ 52).
  assert (Hm : mant < 2 ^ 52) by (apply N.mod_upper_bound; discriminate).
  assert (Hx : exp < 2048) by (apply N.mod_upper_bound; discriminate).
  (* decode_float succeeded: finite and non-zero *)
  assert (FIN : exp <> 2047 /\ ~ (exp = 0 /\ mant = 0)).
  { unfold decode_float in Hd. change 4503599627370496 with (2 ^ 52) in Hd. fold exp mant in Hd.
    destruct ((exp =? 2047) || ((exp =? 0) && (mant =? 0))) eqn:C; [discriminate Hd|].
    apply orb_false_iff in C as [C1 C2]. apply N.eqb_neq in C1. split; [exact C1|].
    intros [Z1 Z2]. rewrite Z1, Z2 in C2. discriminate C2. }
  destruct FIN as [F1 F2].
  unfold float_decimal, float_fields in Hf. fold exp mant in Hf.
  destruct ((exp =? 0) && (mant =? 0)) eqn:Z.
  { exfalso. apply andb_true_iff in Z as [Z1 Z2]. apply N.eqb_eq in Z1, Z2. auto. }
  destruct (ryu_pair_shortest mant exp Hm ltac:(lia) F2) as (m' & e' & EP & _ & _ & SB).
  unfold ryu_pair in EP. rewrite EP in Hf. inversion Hf; subst m' e'.
  assert (SB' : shortest_b bits m e = true) by (rewrite shortest_b_fields; exact SB). clear SB. rename SB' into SB.
  destruct (shortest_b_sound_scaled bits m e SB) as (f & Df & _ & IN & _).
  rewrite Hd in Df. inversion Df; subst f. exact IN.
Qed.
