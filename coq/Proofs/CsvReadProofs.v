(* Proofs/CsvReadProofs.v — the ReadCSV glue: what it does on the rows a document denotes (C12_readcsv)
   and that it reads back what ToCSV wrote (C13_roundtrip). *)
From QF Require Import Base.Prelude Model.FastCsv Model.CsvSpec Model.CsvWrite Model.CsvRead
  Proofs.CsvSpecProofs Proofs.CsvWriteProofs.
Local Open Scope N_scope.

(* ================================================================ C12_readcsv *)

Section Glue.
Variable parse_int : bytes -> option Z.
Variable parse_float : bytes -> option N.
Variable parse_bool : bytes -> option bool.

Notation column_to_data := (column_to_data parse_int parse_float parse_bool).
Notation read_rows := (read_rows parse_int parse_float parse_bool).
Notation read_csv_spec := (read_csv_spec parse_int parse_float parse_bool).

(* ReadCSV of a well-formed document is the glue applied to the rows the document was rendered from *)
Theorem read_csv_spec_render conf rows st :
  wf_doc (cf_delim conf) rows st = true ->
  read_csv_spec conf (render (cf_delim conf) rows st) = read_rows conf rows false.
Proof. intros H. unfold read_csv_spec. rewrite stream_scan_render by exact H. reflexivity. Qed.

(* a failing reader always gives Err *)
Lemma read_rows_failed conf rows : read_rows conf rows true = Fail.
Proof. reflexivity. Qed.

(* an empty document without configured headers gives Err *)
Lemma read_rows_no_header conf : cf_headers conf = [] -> read_rows conf [] false = Fail.
Proof. intros H. unfold CsvRead.read_rows. rewrite H. reflexivity. Qed.

(* ---------------------------------------------------------------- type detection and typed conversion *)

Definition all_int (cells : list bytes) := all_some (map parse_int cells).
Definition all_float (cells : list bytes) := all_some (map (float_cell parse_float) cells).
Definition all_bool (cells : list bytes) := all_some (map parse_bool cells).

(* untyped, at least one row: int, else float (empty = NaN), else bool, else string *)
Theorem detect_untyped e ev cells :
  cells <> [] ->
  column_to_data e DNone ev cells =
  Ok (match all_int cells with
      | Some l => ColInt l
      | None =>
          match all_float cells with
          | Some l => ColFloat l
          | None =>
              match all_bool cells with
              | Some l => ColBool l
              | None => ColString (map (string_cell e) cells)
              end
          end
      end).
Proof.
  intros H. unfold CsvRead.column_to_data, all_int, all_float, all_bool.
  destruct cells as [|c cells]; [congruence|]. cbn [is_nilb andb].
  destruct (all_some (map parse_int (c :: cells))); [reflexivity|].
  destruct (all_some (map (float_cell parse_float) (c :: cells))); [reflexivity|].
  destruct (all_some (map parse_bool (c :: cells))); reflexivity.
Qed.

Theorem detect_untyped_empty e ev : column_to_data e DNone ev [] = Ok ColNone.
Proof. reflexivity. Qed.

Theorem typed_int e ev cells :
  column_to_data e DInt ev cells = match all_int cells with Some l => Ok (ColInt l) | None => Fail end.
Proof.
  unfold CsvRead.column_to_data, all_int. rewrite andb_false_r.
  destruct (all_some (map parse_int cells)); reflexivity.
Qed.

Theorem typed_float e ev cells :
  column_to_data e DFloat ev cells = match all_float cells with Some l => Ok (ColFloat l) | None => Fail end.
Proof.
  unfold CsvRead.column_to_data, all_float. rewrite andb_false_r.
  destruct (all_some (map (float_cell parse_float) cells)); reflexivity.
Qed.

Theorem typed_bool e ev cells :
  column_to_data e DBool ev cells = match all_bool cells with Some l => Ok (ColBool l) | None => Fail end.
Proof.
  unfold CsvRead.column_to_data, all_bool. rewrite andb_false_r.
  destruct (all_some (map parse_bool cells)); reflexivity.
Qed.

(* EmptyNull: the empty field is null, every other field is itself *)
Theorem typed_string e ev cells :
  column_to_data e DString ev cells = Ok (ColString (map (string_cell e) cells)).
Proof. unfold CsvRead.column_to_data. rewrite andb_false_r. reflexivity. Qed.

Theorem typed_unknown e ev cells : column_to_data e DUnknown ev cells = Fail.
Proof. unfold CsvRead.column_to_data. rewrite andb_false_r. reflexivity. Qed.

(* ---------------------------------------------------------------- the row loop *)

(* rows kept by IgnoreEmptyLines *)
Definition kept (ignore_empty : bool) (rows : list (list bytes)) : list (list bytes) :=
  filter (fun r => negb (is_empty_line r && ignore_empty)) rows.

(* the loop fails exactly when a kept row has the wrong number of fields; otherwise it is the loop over
   the kept rows *)
Lemma body_loop_kept ie n rows : forall cols,
  body_loop ie n rows cols =
  if forallb (fun r => Nat.eqb (length r) n) (kept ie rows)
  then body_loop false n (kept ie rows) cols else Fail.
Proof.
  induction rows as [|r rows IH]; intros cols; [reflexivity|].
  cbn [body_loop kept filter].
  destruct (is_empty_line r && ie) eqn:E; cbn [negb].
  - fold (kept ie rows). destruct (Nat.eqb (length r) n); cbn [negb]; apply IH.
  - fold (kept ie rows). cbn [forallb body_loop].
    destruct (Nat.eqb (length r) n) eqn:El; cbn [negb andb].
    + rewrite andb_false_r. apply IH.
    + reflexivity.
Qed.

Theorem wrong_column_count ie n rows cols :
  forallb (fun r => Nat.eqb (length r) n) (kept ie rows) = false ->
  body_loop ie n rows cols = Fail.
Proof. intros H. rewrite body_loop_kept, H. reflexivity. Qed.


(* ---------------------------------------------------------------- names of a successful result *)

Lemma append_row_length (cols : list (list bytes)) : forall fields,
  length fields = length cols -> length (append_row cols fields) = length cols.
Proof.
  induction cols as [|c cols IH]; intros [|f fields] H; simpl in *; try lia. rewrite IH; lia.
Qed.

Lemma body_loop_length ie n rows : forall cols cols',
  length cols = n -> body_loop ie n rows cols = Ok cols' -> length cols' = n.
Proof.
  induction rows as [|r rows IH]; intros cols cols' Hl H.
  - cbn in H. inversion H; subst. reflexivity.
  - cbn [body_loop] in H. destruct (Nat.eqb (length r) n) eqn:E; cbn [negb] in H.
    + destruct (is_empty_line r && ie); [eapply IH; eassumption|].
      eapply IH; [|exact H]. apply Nat.eqb_eq in E. rewrite append_row_length; lia.
    + destruct (is_empty_line r && ie); [eapply IH; eassumption | discriminate].
Qed.

Lemma convert_cols_names conf : forall hs cs ev acc fr ev',
  length hs = length cs ->
  convert_cols parse_int parse_float parse_bool conf hs cs ev acc = Ok (fr, ev') ->
  map fst fr = map fst acc ++ hs.
Proof.
  induction hs as [|h hs IH]; intros [|c cs] ev acc fr ev' Hl H; simpl in Hl; try lia.
  - cbn in H. inversion H; subst. rewrite app_nil_r. reflexivity.
  - cbn [convert_cols] in H.
    destruct (CsvRead.column_to_data parse_int parse_float parse_bool (cf_empty_null conf)
               match assoc h (cf_types conf) with Some s0 => dtype_of s0 | None => DNone end
               (assoc h ev) c) as [col| |]; cbn [obind] in H; try discriminate.
    apply IH in H; [|lia]. rewrite H, map_app. cbn [map fst]. rewrite <- app_assoc. reflexivity.
Qed.

Lemma rename_loop_length : forall hs i m done r,
  rename_loop hs i m done = Ok r -> length r = (length done + length hs)%nat.
Proof.
  induction hs as [|h hs IH]; intros i m done r H.
  - cbn in H. inversion H; subst. rewrite rev_length. simpl. lia.
  - cbn [rename_loop] in H. destruct (assoc h m) as [index|].
    + destruct (negb (Nat.eqb i index)).
      * destruct (rename_candidate (S (length m)) h 0 m) as [cand| |]; cbn [obind] in H; try discriminate.
        apply IH in H. cbn [length] in *. lia.
      * apply IH in H. cbn [length] in *. lia.
    + apply IH in H. cbn [length] in *. lia.
Qed.

(* the header after MissingColumnNameAlias *)
Definition aliased (conf : csv_conf) (headers : list bytes) : list bytes :=
  if is_nilb (cf_alias conf) then headers else add_alias (cf_alias conf) headers.

(* the header row ReadCSV uses: configured, or the first row *)
Definition header_of (conf : csv_conf) (rows : list (list bytes)) : list bytes :=
  if is_nilb (cf_headers conf) then match rows with h :: _ => h | [] => [] end else cf_headers conf.

(* a successful ReadCSV has distinct column names that qframe.New accepts; without RenameDuplicateColumns they
   are the header with empty names replaced by the alias, in the same order *)
Theorem read_rows_names conf rows fr :
  read_rows conf rows false = Ok fr ->
  has_dup (map fst fr) = false /\ forallb check_name (map fst fr) = true /\
  length fr = length (header_of conf rows) /\
  (cf_rename_dup conf = false -> map fst fr = aliased conf (header_of conf rows)).
Proof.
  unfold CsvRead.read_rows, header_of, aliased. intros H.
  destruct (if is_nilb (cf_headers conf)
            then match rows with [] => Fail | h :: body => Ok (h, body) end
            else Ok (cf_headers conf, rows)) as [[headers body]| |] eqn:Ehb; cbn [obind] in H; try discriminate.
  assert (headers = (if is_nilb (cf_headers conf) then match rows with h :: _ => h | [] => [] end
                     else cf_headers conf)) as Hh.
  { destruct (is_nilb (cf_headers conf)); [destruct rows; [discriminate|] |]; inversion Ehb; reflexivity. }
  rewrite <- Hh. clear Ehb Hh.
  destruct (body_loop (cf_ignore_empty conf) (length headers) body (map (fun _ => []) headers))
    as [cols| |] eqn:Eb; cbn [obind] in H; try discriminate.
  apply body_loop_length in Eb; [|apply map_length].
  set (h1 := if is_nilb (cf_alias conf) then headers else add_alias (cf_alias conf) headers) in *.
  assert (length h1 = length headers) as Hl1.
  { unfold h1, add_alias. destruct (is_nilb (cf_alias conf)); [reflexivity | apply map_length]. }
  destruct (if cf_rename_dup conf then rename_duplicates h1 else Ok h1) as [h2| |] eqn:Er;
    cbn [obind] in H; try discriminate.
  assert (length h2 = length h1) as Hl2.
  { destruct (cf_rename_dup conf); [|inversion Er; reflexivity].
    unfold rename_duplicates in Er. apply rename_loop_length in Er. cbn in Er. exact Er. }
  destruct (convert_cols parse_int parse_float parse_bool conf h2 cols (cf_enum_vals conf) [])
    as [[fr' left]| |] eqn:Ec; cbn [obind] in H; try discriminate.
  apply convert_cols_names in Ec; [|lia]. cbn [map app] in Ec.
  destruct (negb (is_nilb left)); [discriminate|].
  destruct (has_dup h2) eqn:Ed; [discriminate|].
  destruct (forallb check_name h2) eqn:En; cbn [negb] in H; [|discriminate].
  inversion H; subst fr'. rewrite Ec. repeat split; try assumption.
  - rewrite <- (map_length fst), Ec. lia.
  - intros Hr. rewrite Hr in Er. inversion Er. reflexivity.
Qed.

End Glue.

(* ================================================================ C13 *)

Lemma no_cr_ends s : no_cr s = true -> ends_cr s = false.
Proof.
  unfold no_cr, ends_cr. intros H. destruct (rev s) as [|c t] eqn:E; [reflexivity|].
  destruct (c =? c_cr) eqn:Hc; [|reflexivity]. exfalso.
  assert (In c s) as Hin by (apply in_rev; rewrite E; left; reflexivity).
  assert (existsb (N.eqb c_cr) s = true) as Hex.
  { apply existsb_exists. exists c. split; [exact Hin|]. rewrite N.eqb_sym. exact Hc. }
  rewrite Hex in H. discriminate.
Qed.

Lemma itoa_no_cr z : no_cr (itoa z) = true.
Proof.
  unfold no_cr. destruct (existsb (N.eqb c_cr) (itoa z)) eqn:E; [|reflexivity]. exfalso.
  apply existsb_exists in E as (c & Hin & Hc). apply N.eqb_eq in Hc. subst c.
  apply itoa_chars in Hin as [H|H]; [discriminate | discriminate].
Qed.

Lemma format_bool_no_cr b : no_cr (format_bool b) = true.
Proof. destruct b; reflexivity. Qed.

Lemma all_some_map {A B} (f : A -> option B) (g : A -> B) l :
  (forall x, In x l -> f x = Some (g x)) -> all_some (map f l) = Some (map g l).
Proof.
  induction l as [|x l IH]; intros H; [reflexivity|].
  simpl. rewrite (H x (or_introl eq_refl)), IH; [reflexivity|]. intros y Hy. apply H. right. exact Hy.
Qed.

Section RoundTrip.
Variable format_float : N -> bytes.
Variable parse_float : bytes -> option N.

(* the strconv hypotheses: FormatFloat(x,'f',-1,64) of a non-NaN value is a non-empty string without CR
   that ParseFloat(.,64) maps back to the same bits *)
Hypothesis float_roundtrip : forall x,
  is_nan_bits x = false ->
  format_float x <> [] /\ no_cr (format_float x) = true /\ parse_float (format_float x) = Some x.

Notation column_to_data := (column_to_data atoi parse_float atob).
Notation col_strings := (col_strings format_float).

(* ---------------------------------------------------------------- one column *)

Lemma find_last_spec s vals : forall i found k,
  find_last s vals i found = Some k ->
  found = Some k \/ (i <= k)%nat /\ nth_error vals (k - i) = Some s.
Proof.
  induction vals as [|v vals IH]; intros i found k H; [left; exact H|].
  cbn [find_last] in H. apply IH in H as [H|[H1 H2]].
  - destruct (bytes_eqb s v) eqn:E; [|left; exact H].
    inversion H; subst. right. split; [lia|]. rewrite Nat.sub_diag. apply bytes_eqb_spec in E. subst. reflexivity.
  - right. split; [lia|]. replace (k - i)%nat with (S (k - S i)) by lia. exact H2.
Qed.

Lemma find_last_in s vals : forall i found,
  In s vals -> find_last s vals i found <> None.
Proof.
  induction vals as [|v vals IH]; intros i found H; [destruct H|].
  cbn [find_last]. destruct H as [->|H].
  - rewrite bytes_eqb_refl. clear IH. generalize (S i). generalize i as k.
    induction vals as [|w vals IH2]; intros k j; [discriminate|].
    cbn [find_last]. destruct (bytes_eqb s w); apply IH2.
  - apply IH. exact H.
Qed.

(* cells of a strict enum column: every cell is null-by-EmptyNull or a declared value *)
Lemma enum_fill_strict e vals : forall cells ranks,
  Forall (fun c => (is_nilb c && e = true) \/ In c vals) cells ->
  exists rs, enum_fill true e vals cells ranks = Ok (vals, ranks ++ rs) /\
             Forall2 (fun c r => if is_nilb c && e then r = enum_max_cardinality
                                 else nth_error vals r = Some c) cells rs.
Proof.
  induction cells as [|c cells IH]; intros ranks H.
  - exists []. rewrite app_nil_r. split; [reflexivity | constructor].
  - inversion H as [|? ? Hc Hcs]; subst. cbn [enum_fill].
    destruct (is_nilb c && e) eqn:E.
    + destruct (IH (ranks ++ [enum_max_cardinality]) Hcs) as (rs & H1 & H2).
      exists (enum_max_cardinality :: rs). rewrite H1, <- app_assoc. split; [reflexivity|].
      constructor; [rewrite E; reflexivity | exact H2].
    + destruct Hc as [Hc|Hc]; [discriminate|].
      destruct (find_last c vals 0 None) as [i|] eqn:F; [|exfalso; exact (find_last_in c vals 0%nat None Hc F)].
      destruct (IH (ranks ++ [i]) Hcs) as (rs & H1 & H2).
      exists (i :: rs). rewrite H1, <- app_assoc. split; [reflexivity|].
      constructor; [|exact H2]. rewrite E.
      apply find_last_spec in F as [F|[_ F]]; [discriminate|]. rewrite Nat.sub_0_r in F. exact F.
Qed.

Lemma omap_enum_cell e vals : forall cells rs,
  (length vals <= enum_max_cardinality)%nat ->
  Forall2 (fun c r => if is_nilb c && e then r = enum_max_cardinality
                      else nth_error vals r = Some c) cells rs ->
  omap (enum_cell vals) rs = Ok (map (string_cell e) cells).
Proof.
  intros cells rs Hlen H. induction H as [|c r cells rs Hcr _ IH]; [reflexivity|].
  cbn [omap map]. unfold string_cell at 1. destruct (is_nilb c && e).
  - subst r. unfold enum_cell at 1. rewrite Nat.eqb_refl. cbn [obind]. rewrite IH. reflexivity.
  - unfold enum_cell at 1.
    assert (r < length vals)%nat as Hr by (apply nth_error_Some; rewrite Hcr; discriminate).
    destruct (Nat.eqb r enum_max_cardinality) eqn:E; [apply Nat.eqb_eq in E; lia|].
    unfold idx. unfold bytes in *. rewrite Hcr. cbn [of_option obind]. rewrite IH. reflexivity.
Qed.

Lemma string_cell_norm e o : string_cell e (opt_str o) = norm_cell e o.
Proof. destruct o as [[|c s]|]; destruct e; reflexivity. Qed.

Lemma dtype_of_type_name c :
  c <> ColNone ->
  dtype_of (type_name c) =
  match c with
  | ColInt _ => DInt | ColFloat _ => DFloat | ColBool _ => DBool
  | ColString _ => DString | ColEnum _ _ => DEnum | ColNone => DNone
  end.
Proof. destruct c; intros H; reflexivity. Qed.

(* the declared values of a strict enum column *)
Definition strict_enum (c : column) : bool :=
  match c with ColEnum vals _ => negb (is_nilb vals) | _ => true end.

Definition ev_of (c : column) : option (list bytes) :=
  match c with ColEnum vals _ => Some vals | _ => None end.

(* the declared values of an enum column are pairwise different (what NewFactory asks of a declaration; every
   enum column built by the repaired factory has this) *)
Definition enum_decl_nodup (c : column) : bool :=
  match c with ColEnum vals _ => nodup_values vals | _ => true end.

Lemma nodup_values_spec l : nodup_values l = true <-> NoDup l.
Proof.
  induction l as [|x l IH]; cbn [nodup_values].
  - split; [constructor|reflexivity].
  - rewrite andb_true_iff, negb_true_iff, IH. split.
    + intros [Hx Hn]. constructor; [|exact Hn]. intro Hin.
      assert (existsb (bytes_eqb x) l = true) by (apply existsb_exists; exists x; split; [exact Hin|apply bytes_eqb_refl]).
      congruence.
    + intro H. inversion H as [|? ? Hx Hn]; subst. split; [|exact Hn].
      destruct (existsb (bytes_eqb x) l) eqn:E; [|reflexivity].
      apply existsb_exists in E as (y & Hy & Heq). apply bytes_eqb_spec in Heq. subst. tauto.
Qed.

(* the enum branch of columnToData rejects a declaration that lists a value twice (cells that are not all
   ints/floats/bools: with dt = DEnum those readers are not tried at all) *)
Lemma column_to_data_enum_duplicate_rejected e vals cells :
  ~ NoDup vals -> column_to_data e DEnum (Some vals) cells = Fail.
Proof.
  intro H. assert (nodup_values vals = false) as Hn.
  { destruct (nodup_values vals) eqn:E; [|reflexivity]. exfalso. apply H. apply nodup_values_spec. exact E. }
  unfold CsvRead.column_to_data. rewrite andb_false_r. cbn iota. rewrite Hn. cbn [negb].
  destruct (Nat.ltb enum_max_cardinality (length vals)); reflexivity.
Qed.

(* ... hence an enum column read successfully has a duplicate-free declaration *)
Lemma column_to_data_enum_ok_nodup e vals cells c :
  column_to_data e DEnum (Some vals) cells = Ok c -> NoDup vals.
Proof.
  intro H. destruct (nodup_values vals) eqn:E; [apply nodup_values_spec; exact E|].
  rewrite column_to_data_enum_duplicate_rejected in H; [discriminate|].
  intro Hn. apply nodup_values_spec in Hn. congruence.
Qed.

(* reading back one column *)
Lemma column_roundtrip e c ev :
  col_in_int64 c = true ->
  enum_side_ok e c = true ->
  strict_enum c = true ->
  enum_decl_nodup c = true ->
  (forall vals l, c = ColEnum vals l -> ev = Some vals) ->
  column_to_data e (dtype_of (type_name c)) ev (col_strings c) = Ok (norm_col e c).
Proof.
  intros Hint Henum Hstrict Hndv Hev.
  destruct c as [l|l|l|l|vals l|]; [| | | | |discriminate].
  - (* int *)
    cbn [type_name]. change (dtype_of ty_int) with DInt. rewrite typed_int. unfold all_int. cbn [col_strings].
    rewrite map_map. rewrite (all_some_map _ (fun z => z)); [rewrite map_id; reflexivity|].
    intros z Hz. apply atoi_itoa. cbn [col_in_int64] in Hint.
    rewrite forallb_forall in Hint. apply Hint. exact Hz.
  - (* float *)
    cbn [type_name]. change (dtype_of ty_float) with DFloat. rewrite typed_float. unfold all_float. cbn [col_strings].
    rewrite map_map. rewrite (all_some_map _ canon_float); [reflexivity|].
    intros x _. unfold float_cell, canon_float. destruct (is_nan_bits x) eqn:E; [reflexivity|].
    destruct (float_roundtrip x E) as (Hne & _ & Hp).
    destruct (format_float x); [congruence|]. exact Hp.
  - (* bool *)
    cbn [type_name]. change (dtype_of ty_bool) with DBool. rewrite typed_bool. unfold all_bool. cbn [col_strings].
    rewrite map_map. rewrite (all_some_map _ (fun b => b)); [rewrite map_id; reflexivity|].
    intros b _. apply atob_format_bool.
  - (* string *)
    cbn [type_name]. change (dtype_of ty_string) with DString. rewrite typed_string. cbn [col_strings norm_col].
    rewrite map_map. f_equal. f_equal. apply map_ext. intros o. apply string_cell_norm.
  - (* strict enum *)
    cbn [type_name]. change (dtype_of ty_enum) with DEnum.
    rewrite (Hev vals l eq_refl). cbn [strict_enum] in Hstrict. cbn [enum_side_ok] in Henum.
    apply andb_true_iff in Henum as [Hcells Hlen]. apply Nat.leb_le in Hlen.
    unfold CsvRead.column_to_data. rewrite andb_false_r. cbn iota.
    destruct (Nat.ltb enum_max_cardinality (length vals)) eqn:E; [apply Nat.ltb_lt in E; lia|].
    cbn [enum_decl_nodup] in Hndv. rewrite Hndv. cbn [negb].
    assert (Nat.ltb 0 (length vals) = true) as Hst.
    { destruct vals; [discriminate | reflexivity]. }
    rewrite Hst. cbn [col_strings].
    assert (Forall (fun c => (is_nilb c && e = true) \/ In c vals) (map opt_str l)) as HF.
    { apply Forall_forall. intros c Hc. apply in_map_iff in Hc as (o & <- & Ho).
      rewrite forallb_forall in Hcells. specialize (Hcells o Ho).
      destruct vals as [|v0 vals']; [discriminate|]. cbn [is_nilb orb] in Hcells.
      destruct o as [s|]; cbn [opt_str].
      - apply orb_true_iff in Hcells as [H|H]; [right | left; exact H].
        apply existsb_exists in H as (v & Hv & Heq). apply bytes_eqb_spec in Heq. subst. exact Hv.
      - destruct e; [left; reflexivity|]. cbn [orb] in Hcells. right.
        apply existsb_exists in Hcells as (v & Hv & Heq). apply bytes_eqb_spec in Heq. subst. exact Hv. }
    destruct (enum_fill_strict e vals (map opt_str l) [] HF) as (rs & H1 & H2).
    rewrite H1. cbn [obind fst snd app].
    rewrite (omap_enum_cell e vals (map opt_str l) rs Hlen H2). cbn [obind norm_col].
    rewrite map_map. f_equal. f_equal. apply map_ext. intros o. apply string_cell_norm.
Qed.


(* ---------------------------------------------------------------- records <-> columns *)

Definition row_at (strs : list (list bytes)) (i : nat) : list bytes := map (fun s => nth i s []) strs.

Lemma record_at_ok strs i :
  Forall (fun s : list bytes => (i < length s)%nat) strs -> record_at strs i = Ok (row_at strs i).
Proof.
  unfold record_at, row_at. induction strs as [|s strs IH]; intros H; [reflexivity|].
  inversion H as [|? ? Hs Hrest]; subst. cbn [omap map]. rewrite IH by exact Hrest.
  unfold idx. rewrite (nth_error_nth' s [] Hs). reflexivity.
Qed.

Lemma records_ok strs m : forall a,
  Forall (fun s : list bytes => (a + m <= length s)%nat) strs ->
  omap (record_at strs) (seq a m) = Ok (map (row_at strs) (seq a m)).
Proof.
  induction m as [|m IH]; intros a H; [reflexivity|].
  cbn [seq omap map]. rewrite record_at_ok.
  - cbn [obind]. rewrite IH; [reflexivity|]. eapply Forall_impl; [|exact H]. cbn. intros; lia.
  - eapply Forall_impl; [|exact H]. cbn. intros; lia.
Qed.

Lemma firstn_S_nth {A} (l : list A) i d : (i < length l)%nat -> firstn (S i) l = firstn i l ++ [nth i l d].
Proof.
  revert i. induction l as [|x l IH]; intros i H; [simpl in H; lia|].
  destruct i as [|i]; [reflexivity|]. cbn [firstn nth app]. rewrite <- IH by (simpl in H; lia). reflexivity.
Qed.

Lemma append_row_step strs i :
  Forall (fun s : list bytes => (i < length s)%nat) strs ->
  append_row (map (firstn i) strs) (row_at strs i) = map (firstn (S i)) strs.
Proof.
  unfold row_at. induction strs as [|s strs IH]; intros H; [reflexivity|].
  inversion H as [|? ? Hs Hrest]; subst. cbn [map append_row]. rewrite IH by exact Hrest.
  rewrite (firstn_S_nth s i [] Hs). reflexivity.
Qed.

Lemma body_loop_rows strs m : forall a,
  Forall (fun s : list bytes => (a + m <= length s)%nat) strs ->
  body_loop false (length strs) (map (row_at strs) (seq a m)) (map (firstn a) strs)
  = Ok (map (firstn (a + m)) strs).
Proof.
  induction m as [|m IH]; intros a H.
  - rewrite Nat.add_0_r. reflexivity.
  - cbn [seq map body_loop]. unfold row_at at 1. rewrite map_length, Nat.eqb_refl. cbn [negb].
    rewrite andb_false_r. fold (row_at strs a). rewrite append_row_step.
    + rewrite IH; [f_equal; f_equal; f_equal; lia|]. eapply Forall_impl; [|exact H]. cbn. intros; lia.
    + eapply Forall_impl; [|exact H]. cbn. intros; lia.
Qed.

Lemma col_strings_length c : length (col_strings c) = col_len c.
Proof. destruct c; cbn [col_strings col_len]; rewrite ?map_length; reflexivity. Qed.

Lemma col_strings_no_cr c s : col_no_cr c = true -> In s (col_strings c) -> no_cr s = true.
Proof.
  intros Hc Hin. destruct c as [l|l|l|l|vals l|]; cbn [col_strings] in Hin.
  - apply in_map_iff in Hin as (z & <- & _). apply itoa_no_cr.
  - apply in_map_iff in Hin as (x & <- & _). destruct (is_nan_bits x) eqn:E; [reflexivity|].
    apply (float_roundtrip x E).
  - apply in_map_iff in Hin as (b & <- & _). apply format_bool_no_cr.
  - apply in_map_iff in Hin as (o & <- & Ho). cbn [col_no_cr] in Hc. rewrite forallb_forall in Hc.
    specialize (Hc o Ho). destruct o; [exact Hc | reflexivity].
  - apply in_map_iff in Hin as (o & <- & Ho). cbn [col_no_cr] in Hc. rewrite forallb_forall in Hc.
    specialize (Hc o Ho). destruct o; [exact Hc | reflexivity].
  - destruct Hin.
Qed.

Lemma rec_ok_no_cr (fields : list bytes) :
  fields <> [] -> (forall s, In s fields -> no_cr s = true) -> rec_ok fields = true.
Proof.
  intros Hne H. unfold rec_ok. destruct fields as [|f0 fs]; [congruence|]. cbn [is_nilb negb andb].
  rewrite no_cr_ends; [reflexivity|]. apply H. apply (@exists_last _ (f0 :: fs)) in Hne as (l' & a & ->).
  rewrite last_last. apply in_or_app. right. left. reflexivity.
Qed.

(* ---------------------------------------------------------------- the column loop *)

Definition ev_entries (wf : frame) : list (bytes * list bytes) :=
  flat_map (fun nc => match snd nc with ColEnum vals _ => [(fst nc, vals)] | _ => [] end) wf.

Definition ty_entries (wf : frame) : list (bytes * bytes) :=
  map (fun nc => (fst nc, type_name (snd nc))) wf.

Lemma assoc_in {B} k (v : B) (m : list (bytes * B)) :
  NoDup (map fst m) -> In (k, v) m -> assoc k m = Some v.
Proof.
  induction m as [|[k' v'] m IH]; intros Hnd Hin; [destruct Hin|].
  cbn [assoc]. inversion Hnd as [|? ? Hnot Hnd']; subst. destruct Hin as [Heq|Hin].
  - inversion Heq; subst. rewrite bytes_eqb_refl. reflexivity.
  - destruct (bytes_eqb k k') eqn:E.
    + apply bytes_eqb_spec in E. subst. exfalso. apply Hnot. apply in_map_iff. exists (k', v). auto.
    + apply IH; assumption.
Qed.

Lemma assoc_del_notin {B} k (m : list (bytes * B)) :
  ~ In k (map fst m) -> assoc_del k m = m.
Proof.
  induction m as [|[k' v'] m IH]; intros H; [reflexivity|].
  unfold assoc_del in *. cbn [filter fst]. destruct (bytes_eqb k k') eqn:E.
  - apply bytes_eqb_spec in E. subst. exfalso. apply H. left. reflexivity.
  - cbn [negb]. rewrite IH; [reflexivity|]. intros Hin. apply H. right. exact Hin.
Qed.

Lemma ev_entries_keys wf k : In k (map fst (ev_entries wf)) -> In k (map fst wf).
Proof.
  induction wf as [|[n c] wf IH]; intros H; [destruct H|].
  unfold ev_entries in H. cbn [flat_map fst snd] in H. rewrite map_app in H. apply in_app_or in H as [H|H].
  - destruct c; cbn in H; try (exfalso; exact H). destruct H as [H|[]]. left. exact H.
  - right. apply IH. exact H.
Qed.

Definition col_ok (e : bool) (nc : bytes * column) : bool :=
  col_in_int64 (snd nc) && enum_side_ok e (snd nc) && strict_enum (snd nc) && enum_decl_nodup (snd nc).

Lemma convert_cols_rt conf e all :
  cf_types conf = ty_entries all -> cf_empty_null conf = e -> NoDup (map fst all) ->
  forall rest acc,
  (forall nc, In nc rest -> In nc all) -> NoDup (map fst rest) ->
  forallb (col_ok e) rest = true ->
  convert_cols atoi parse_float atob conf (map fst rest) (map (fun nc => col_strings (snd nc)) rest)
               (ev_entries rest) acc
  = Ok (acc ++ map (fun nc => (fst nc, norm_col e (snd nc))) rest, []).
Proof.
  intros Hty He Hnd. induction rest as [|[name col] rest IH]; intros acc Hsub Hnd2 Hok.
  - cbn. rewrite app_nil_r. reflexivity.
  - cbn [map fst snd convert_cols]. cbn [forallb] in Hok. apply andb_true_iff in Hok as [Hc Hrest].
    unfold col_ok in Hc. cbn [snd] in Hc. apply andb_true_iff in Hc as [Hc Hndv]. apply andb_true_iff in Hc as [Hc Hstrict].
    apply andb_true_iff in Hc as [Hint Henum].
    assert (assoc name (cf_types conf) = Some (type_name col)) as Ht.
    { rewrite Hty. apply assoc_in.
      - unfold ty_entries. rewrite map_map. cbn [fst]. exact Hnd.
      - unfold ty_entries. apply in_map_iff. exists (name, col). split; [reflexivity|]. apply Hsub. left. reflexivity. }
    rewrite Ht, He.
    cbn [map fst] in Hnd2. apply NoDup_cons_iff in Hnd2 as [Hnot Hnd2'].
    rewrite (column_roundtrip e col); [| exact Hint | exact Henum | exact Hstrict | exact Hndv |].
    + cbn [obind].
      assert ((if match dtype_of (type_name col) with DEnum => true | _ => false end
               then assoc_del name (ev_entries ((name, col) :: rest))
               else ev_entries ((name, col) :: rest)) = ev_entries rest) as Hev.
      { destruct col; try reflexivity.
        change (dtype_of (type_name (ColEnum vals l))) with DEnum. cbn iota.
        unfold ev_entries at 1. cbn [flat_map fst snd app]. fold (ev_entries rest).
        unfold assoc_del. cbn [filter fst]. rewrite bytes_eqb_refl. cbn [negb].
        apply assoc_del_notin. intros Hin. apply Hnot. apply ev_entries_keys. exact Hin. }
      rewrite Hev. rewrite IH; [| intros nc Hin; apply Hsub; right; exact Hin | exact Hnd2' | exact Hrest].
      rewrite <- app_assoc. reflexivity.
    + intros vals l ->. unfold ev_entries. cbn [flat_map fst snd app assoc]. rewrite bytes_eqb_refl. reflexivity.
Qed.

Lemma has_dup_nodup l : has_dup l = false -> NoDup l.
Proof.
  induction l as [|x l IH]; intros H; [constructor|].
  cbn [has_dup] in H. apply orb_false_iff in H as [H1 H2]. constructor; [|apply IH; exact H2].
  intros Hin. assert (existsb (bytes_eqb x) l = true) as Hex.
  { apply existsb_exists. exists x. split; [exact Hin | apply bytes_eqb_refl]. }
  congruence.
Qed.

(* ---------------------------------------------------------------- the frame *)

Lemma prem_parts e n (nc : bytes * column) :
  check_name (fst nc) && no_cr (fst nc) && col_no_cr (snd nc) && col_in_int64 (snd nc)
  && enum_side_ok e (snd nc) && Nat.eqb (col_len (snd nc)) n = true ->
  check_name (fst nc) = true /\ no_cr (fst nc) = true /\ col_no_cr (snd nc) = true /\
  col_in_int64 (snd nc) = true /\ enum_side_ok e (snd nc) = true /\ col_len (snd nc) = n.
Proof.
  intros H. apply andb_true_iff in H as [H H6]. apply andb_true_iff in H as [H H5].
  apply andb_true_iff in H as [H H4]. apply andb_true_iff in H as [H H3]. apply andb_true_iff in H as [H1 H2].
  apply Nat.eqb_eq in H6. repeat split; assumption.
Qed.

Theorem roundtrip f tc wf doc e :
  iter_cols f tc = Ok wf ->
  to_csv format_float f tc = Ok doc ->
  rt_premises e (frame_len f) wf = true ->
  forallb (fun nc => strict_enum (snd nc)) wf = true ->
  forallb (fun nc => enum_decl_nodup (snd nc)) wf = true ->
  read_csv_spec atoi parse_float atob (read_conf_for e (tc_header tc) wf) doc
  = Ok (map (fun nc => (fst nc, norm_col e (snd nc))) wf).
Proof.
  intros Hiter Hcsv Hprem Hstrict Hndv.
  unfold rt_premises in Hprem. apply andb_true_iff in Hprem as [Hprem Hdup].
  apply andb_true_iff in Hprem as [Hne Hcols]. rewrite forallb_forall in Hcols.
  assert (wf <> []) as Hwf by (destruct wf; [discriminate | discriminate]).
  set (n := frame_len f) in *.
  set (strs := map (fun nc : bytes * column => col_strings (snd nc)) wf).
  set (names := map fst wf).
  assert (Forall (fun s : list bytes => length s = n) strs) as Hlen.
  { apply Forall_forall. intros s Hs. apply in_map_iff in Hs as (nc & <- & Hnc).
    rewrite col_strings_length. apply (prem_parts e n nc (Hcols nc Hnc)). }
  (* the records written *)
  unfold to_csv, to_csv_records in Hcsv. rewrite Hiter in Hcsv. cbn [obind] in Hcsv.
  fold strs names n in Hcsv.
  rewrite (records_ok strs n 0) in Hcsv
    by (eapply Forall_impl; [|exact Hlen]; cbn; intros; lia).
  cbn [obind] in Hcsv. inversion Hcsv as [Hdoc]. clear Hcsv.
  set (body := map (row_at strs) (seq 0 n)) in *.
  set (recs := if tc_header tc then names :: body else body) in *.
  (* every field is free of CR *)
  assert (forall s, In s names -> no_cr s = true) as Hnames.
  { intros s Hs. apply in_map_iff in Hs as (nc & <- & Hnc). apply (prem_parts e n nc (Hcols nc Hnc)). }
  assert (names <> []) as Hnn by (unfold names; destruct wf; [congruence | discriminate]).
  assert (forallb rec_ok body = true) as Hbody.
  { apply forallb_forall. intros r Hr. apply in_map_iff in Hr as (i & <- & Hi). apply in_seq in Hi.
    apply rec_ok_no_cr.
    - unfold row_at, strs. destruct wf; [congruence | discriminate].
    - intros s Hs. unfold row_at in Hs. apply in_map_iff in Hs as (col & <- & Hcol).
      assert (length col = n) as Hl by (rewrite Forall_forall in Hlen; apply Hlen; exact Hcol).
      unfold strs in Hcol. apply in_map_iff in Hcol as (nc & <- & Hnc).
      apply (col_strings_no_cr (snd nc)).
      + apply (prem_parts e n nc (Hcols nc Hnc)).
      + apply nth_In. rewrite Hl. lia. }
  assert (forallb rec_ok recs = true) as Hrecs.
  { unfold recs. destruct (tc_header tc); [|exact Hbody]. cbn [forallb]. rewrite Hbody, andb_true_r.
    apply rec_ok_no_cr; assumption. }
  (* scanning gives the records back *)
  unfold read_csv_spec. cbn [read_conf_for cf_delim].
  rewrite scan_writer_output by (reflexivity || exact Hrecs).
  (* the glue *)
  unfold read_rows. cbn [read_conf_for cf_headers cf_ignore_empty cf_alias cf_rename_dup cf_enum_vals].
  assert ((if is_nilb (if tc_header tc then [] else names)
           then match recs with [] => Fail | h :: b => Ok (h, b) end
           else Ok (if tc_header tc then [] else names, recs)) = Ok (names, body)) as Hhb.
  { unfold recs. destruct (tc_header tc); [reflexivity|]. destruct names; [congruence | reflexivity]. }
  fold names. rewrite Hhb. cbn [obind].
  assert (length names = length strs) as Hln by (unfold names, strs; rewrite !map_length; reflexivity).
  assert (map (fun _ : bytes => @nil bytes) names = map (firstn 0) strs) as Hinit.
  { unfold names, strs. rewrite !map_map. reflexivity. }
  rewrite Hln, Hinit. unfold body. rewrite body_loop_rows
    by (eapply Forall_impl; [|exact Hlen]; cbn; intros; lia).
  cbn [obind is_nilb].
  assert (map (firstn (0 + n)) strs = strs) as Hall.
  { rewrite <- (map_id strs) at 2. apply map_ext_in. intros s Hs. rewrite Forall_forall in Hlen.
    rewrite <- (Hlen s Hs). apply firstn_all. }
  rewrite Hall.
  assert (has_dup names = false) as Hdf.
  { unfold names. destruct (has_dup (map fst wf)); [discriminate Hdup | reflexivity]. }
  assert (NoDup names) as Hnd by (apply has_dup_nodup; exact Hdf).
  unfold names, strs.
  fold (ev_entries wf).
  rewrite (convert_cols_rt _ e wf); try reflexivity; try assumption.
  - cbn [obind app is_nilb negb]. fold names.
    rewrite Hdf. cbn [negb].
    assert (forallb check_name names = true) as Hcn.
    { apply forallb_forall. intros s Hs. apply in_map_iff in Hs as (nc & <- & Hnc).
      apply (prem_parts e n nc (Hcols nc Hnc)). }
    rewrite Hcn. reflexivity.
  - auto.
  - apply forallb_forall. intros nc Hnc. unfold col_ok.
    rewrite forallb_forall in Hstrict, Hndv. rewrite (Hstrict nc Hnc), (Hndv nc Hnc), !andb_true_r.
    destruct (prem_parts e n nc (Hcols nc Hnc)) as (_ & _ & _ & P4 & P5 & _). rewrite P4, P5. reflexivity.
Qed.

End RoundTrip.
