(* Proofs/RyuIntervalFrac.v — a verified checker for "no fraction with a small denominator lies in a given
   interval", the tool behind the exactness of Ryu's fixed-point multiplications (Proofs/RyuIntervalMul.v).

   floor(x * n1 / d1) = floor(x * n2 / d2) for every 1 <= x <= X  holds exactly when no fraction y / x with
   1 <= x <= X lies in the half-open interval (n1/d1, n2/d2].  [nofrac] decides a sufficient condition by the
   Euclidean descent "subtract the integer part, invert" (the bound on the denominators is carried along
   conservatively); only its soundness is needed and proved. *)
From QF Require Import Base.Prelude.
Local Open Scope N_scope.

(* right = true : no y/x, 1 <= x <= X, in (n1/d1, n2/d2]
   right = false: no y/x, 1 <= x <= X, in [n1/d1, n2/d2) *)
Fixpoint nofrac (fuel : nat) (right : bool) (n1 d1 n2 d2 X : N) : bool :=
  match fuel with
  | O => false
  | S f =>
      if X =? 0 then true else
      if (d1 =? 0) || (d2 =? 0) then false else
      if n2 * d1 <=? n1 * d2 then true else
      if right then
        let k := n1 / d1 in
        if (k + 1) * d2 <=? n2 then false else
        let n2' := n2 - k * d2 in
        nofrac f false d2 n2' d1 (n1 - k * d1) (n2' * X / d2)
      else
        let k := (n1 + d1 - 1) / d1 in
        if k * d2 <? n2 then false else
        let k' := k - 1 in
        let n2' := n2 - k' * d2 in
        nofrac f true d2 n2' d1 (n1 - k' * d1) (n2' * X / d2)
  end.

Definition NFR (n1 d1 n2 d2 X : N) : Prop :=
  forall x y, 1 <= x <= X -> n1 * x < d1 * y -> d2 * y <= n2 * x -> False.
Definition NFL (n1 d1 n2 d2 X : N) : Prop :=
  forall x y, 1 <= x <= X -> n1 * x <= d1 * y -> d2 * y < n2 * x -> False.

(* the step of the descent, right-closed interval *)
Lemma nfr_step (n1 d1 n2 d2 X k : N) :
  0 < d1 -> 0 < d2 -> n1 * d2 < n2 * d1 -> k * d1 <= n1 -> n2 < (k + 1) * d2 ->
  NFL d2 (n2 - k * d2) d1 (n1 - k * d1) ((n2 - k * d2) * X / d2) ->
  NFR n1 d1 n2 d2 X.
Proof.
  intros H1 H2 Hlt Hk Hk1 IH x y Hx A B.
  assert (K2 : k * d2 <= n2).
  { assert (k * d1 * d2 <= n1 * d2) by (apply N.mul_le_mono_r; exact Hk).
    assert (k * d2 * d1 < n2 * d1) by lia.
    apply N.lt_le_incl. apply (N.mul_lt_mono_pos_r d1); assumption. }
  assert (Ky : k * x < y).
  { assert (k * d1 * x <= n1 * x) by (apply N.mul_le_mono_r; exact Hk).
    assert (d1 * (k * x) < d1 * y) by lia.
    apply (N.mul_lt_mono_pos_l d1); assumption. }
  set (y' := y - k * x). set (n1' := n1 - k * d1) in *. set (n2' := n2 - k * d2) in *.
  assert (Ey : y = y' + k * x) by (unfold y'; lia).
  assert (E1 : n1 = n1' + k * d1) by (unfold n1'; lia).
  assert (E2 : n2 = n2' + k * d2) by (unfold n2'; lia).
  assert (A' : n1' * x < d1 * y').
  { rewrite Ey, E1 in A. clearbody y' n1' n2'. nia. }
  assert (B' : d2 * y' <= n2' * x).
  { rewrite Ey, E2 in B. clearbody y' n1' n2'. nia. }
  assert (Y1 : 1 <= y') by (unfold y'; lia).
  assert (Y2 : y' <= n2' * X / d2).
  { apply N.div_le_lower_bound; [lia|].
    assert (n2' * x <= n2' * X) by (apply N.mul_le_mono_l; lia). lia. }
  apply (IH y' x); [lia| |]; lia.
Qed.

(* the step of the descent, left-closed interval; k' = ceil(n1/d1) - 1 *)
Lemma nfl_step (n1 d1 n2 d2 X k' : N) :
  0 < d1 -> 0 < d2 -> n1 * d2 < n2 * d1 -> k' * d1 < n1 -> n2 <= (k' + 1) * d2 ->
  NFR d2 (n2 - k' * d2) d1 (n1 - k' * d1) ((n2 - k' * d2) * X / d2) ->
  NFL n1 d1 n2 d2 X.
Proof.
  intros H1 H2 Hlt Hk Hk1 IH x y Hx A B.
  assert (K2 : k' * d2 <= n2).
  { assert (k' * d1 * d2 <= n1 * d2) by (apply N.mul_le_mono_r; lia).
    assert (k' * d2 * d1 < n2 * d1) by lia.
    apply N.lt_le_incl. apply (N.mul_lt_mono_pos_r d1); assumption. }
  assert (Ky : k' * x < y).
  { assert (k' * d1 * x < n1 * x) by (apply N.mul_lt_mono_pos_r; lia).
    assert (d1 * (k' * x) < d1 * y) by lia.
    apply (N.mul_lt_mono_pos_l d1); assumption. }
  set (y' := y - k' * x). set (n1' := n1 - k' * d1) in *. set (n2' := n2 - k' * d2) in *.
  assert (Ey : y = y' + k' * x) by (unfold y'; lia).
  assert (E1 : n1 = n1' + k' * d1) by (unfold n1'; lia).
  assert (E2 : n2 = n2' + k' * d2) by (unfold n2'; lia).
  assert (A' : n1' * x <= d1 * y').
  { rewrite Ey, E1 in A. clearbody y' n1' n2'. nia. }
  assert (B' : d2 * y' < n2' * x).
  { rewrite Ey, E2 in B. clearbody y' n1' n2'. nia. }
  assert (Y1 : 1 <= y') by (unfold y'; lia).
  assert (Y2 : y' <= n2' * X / d2).
  { apply N.div_le_lower_bound; [lia|].
    assert (n2' * x <= n2' * X) by (apply N.mul_le_mono_l; lia). lia. }
  apply (IH y' x); [lia| |]; lia.
Qed.

Theorem nofrac_sound : forall fuel right n1 d1 n2 d2 X,
  nofrac fuel right n1 d1 n2 d2 X = true ->
  if right then NFR n1 d1 n2 d2 X else NFL n1 d1 n2 d2 X.
Proof.
  induction fuel as [|f IH]; intros right n1 d1 n2 d2 X H; [discriminate|].
  cbn [nofrac] in H.
  destruct (X =? 0) eqn:EX.
  { apply N.eqb_eq in EX. subst X. destruct right; intros x y Hx; lia. }
  destruct ((d1 =? 0) || (d2 =? 0)) eqn:ED; [discriminate|].
  apply orb_false_iff in ED as [D1 D2]. apply N.eqb_neq in D1, D2.
  destruct (n2 * d1 <=? n1 * d2) eqn:EE.
  { apply N.leb_le in EE. destruct right; intros x y Hx A B.
    - assert (n1 * x * d2 < d1 * y * d2) by (apply N.mul_lt_mono_pos_r; lia).
      assert (d2 * y * d1 <= n2 * x * d1) by (apply N.mul_le_mono_r; lia).
      assert (n2 * d1 * x <= n1 * d2 * x) by (apply N.mul_le_mono_r; lia). lia.
    - assert (n1 * x * d2 <= d1 * y * d2) by (apply N.mul_le_mono_r; lia).
      assert (d2 * y * d1 < n2 * x * d1) by (apply N.mul_lt_mono_pos_r; lia).
      assert (n2 * d1 * x <= n1 * d2 * x) by (apply N.mul_le_mono_r; lia). lia. }
  apply N.leb_gt in EE.
  destruct right.
  - destruct ((n1 / d1 + 1) * d2 <=? n2) eqn:EK; [discriminate|]. apply N.leb_gt in EK.
    apply IH in H. cbv beta iota in H.
    assert (KD : n1 / d1 * d1 <= n1) by (rewrite N.mul_comm; apply N.mul_div_le; exact D1).
    apply (nfr_step n1 d1 n2 d2 X (n1 / d1)); [lia|lia|lia|exact KD|lia|exact H].
  - set (k := (n1 + d1 - 1) / d1) in *.
    destruct (k * d2 <? n2) eqn:EK; [discriminate|]. apply N.ltb_ge in EK.
    apply IH in H. cbv beta iota in H.
    assert (K1 : n1 <= k * d1 /\ (k = 0 \/ (k - 1) * d1 < n1)).
    { unfold k. pose proof (N.div_mod (n1 + d1 - 1) d1 D1) as DM.
      pose proof (N.mod_upper_bound (n1 + d1 - 1) d1 D1) as MU.
      set (kk := (n1 + d1 - 1) / d1) in *. set (rr := (n1 + d1 - 1) mod d1) in *. clearbody kk rr.
      split; [nia|]. destruct (N.eq_dec kk 0) as [->|NZ]; [left; reflexivity|right].
      replace kk with ((kk - 1) + 1) in DM by lia. nia. }
    destruct K1 as [K1 [K0|K1']].
    + (* k = 0: then n1 = 0 and the test k * d2 < n2 would have fired *)
      rewrite K0 in *. nia.
    + assert (KK : n2 <= (k - 1 + 1) * d2).
      { destruct (N.eq_dec k 0) as [K0|K0]; [rewrite K0 in *; nia|].
        replace (k - 1 + 1) with k by lia. exact EK. }
      apply (nfl_step n1 d1 n2 d2 X (k - 1)); [lia|lia|lia|exact K1'|exact KK|exact H].
Qed.

(* ------------------------------------------------------------------ what the absence of fractions gives *)

Lemma floor_eq (n1 d1 n2 d2 X : N) :
  0 < d1 -> 0 < d2 -> n1 * d2 <= n2 * d1 -> NFR n1 d1 n2 d2 X ->
  forall x, 1 <= x <= X -> x * n1 / d1 = x * n2 / d2.
Proof.
  intros H1 H2 Hle NF x Hx.
  set (y := x * n2 / d2).
  assert (B : d2 * y <= n2 * x).
  { unfold y. rewrite (N.mul_comm n2 x). apply N.mul_div_le. lia. }
  assert (A : d1 * y <= n1 * x).
  { destruct (N.le_gt_cases (d1 * y) (n1 * x)) as [L|L]; [exact L|]. exfalso. exact (NF x y Hx L B). }
  apply N.le_antisymm.
  - (* x n1 / d1 <= x n2 / d2 by monotonicity *)
    apply N.div_le_lower_bound; [lia|].
    pose proof (N.mul_div_le (x * n1) d1 ltac:(lia)) as M.
    set (z := x * n1 / d1) in *.
    assert (d1 * z * d2 <= x * n1 * d2) by (apply N.mul_le_mono_r; exact M).
    assert (x * (n1 * d2) <= x * (n2 * d1)) by (apply N.mul_le_mono_l; exact Hle).
    assert (d2 * z * d1 <= x * n2 * d1) by lia.
    apply (N.mul_le_mono_pos_r _ _ d1); [lia|]. lia.
  - apply N.div_le_lower_bound; [lia|]. fold y. lia.
Qed.

(* one fraction ys/xs (in lowest terms, 2 xs > X) is allowed inside the interval: then only x = xs is affected *)
Lemma floor_eq_except (n1 d1 n2 d2 X xs ys : N) :
  0 < d1 -> 0 < d2 -> n1 * d2 <= n2 * d1 ->
  NFL n1 d1 ys xs X -> NFR ys xs n2 d2 X -> N.gcd xs ys = 1 -> X < 2 * xs ->
  forall x, 1 <= x <= X -> x <> xs -> x * n1 / d1 = x * n2 / d2.
Proof.
  intros H1 H2 Hle NL NR G HX x Hx Hne.
  set (y := x * n2 / d2).
  assert (B : d2 * y <= n2 * x).
  { unfold y. rewrite (N.mul_comm n2 x). apply N.mul_div_le. lia. }
  assert (A : d1 * y <= n1 * x).
  { destruct (N.le_gt_cases (d1 * y) (n1 * x)) as [L|L]; [exact L|]. exfalso.
    destruct (N.lt_trichotomy (ys * x) (xs * y)) as [C|[C|C]].
    - exact (NR x y Hx C B).
    - (* y / x = ys / xs: x is a multiple of xs *)
      assert (DV : (xs | ys * x)) by (exists y; lia).
      apply N.gauss in DV; [|exact G]. destruct DV as [c Hc].
      assert (c = 0 \/ c = 1 \/ 2 <= c) as [->|[->|C2]] by lia; [lia|lia|].
      assert (2 * xs <= c * xs) by (apply N.mul_le_mono_r; exact C2). lia.
    - apply (NL x y Hx); lia. }
  apply N.le_antisymm.
  - apply N.div_le_lower_bound; [lia|].
    pose proof (N.mul_div_le (x * n1) d1 ltac:(lia)) as M.
    set (z := x * n1 / d1) in *.
    assert (d1 * z * d2 <= x * n1 * d2) by (apply N.mul_le_mono_r; exact M).
    assert (x * (n1 * d2) <= x * (n2 * d1)) by (apply N.mul_le_mono_l; exact Hle).
    assert (d2 * z * d1 <= x * n2 * d1) by lia.
    apply (N.mul_le_mono_pos_r _ _ d1); [lia|]. lia.
  - apply N.div_le_lower_bound; [lia|]. fold y. lia.
Qed.

(* ------------------------------------------------------------------ widening (to keep the numbers small) *)

Lemma NFR_mono (n1 d1 n2 d2 n1' d1' n2' d2' X : N) :
  0 < d1 -> 0 < d2 -> 0 < d1' -> n1' * d1 <= n1 * d1' -> n2 * d2' <= n2' * d2 ->
  NFR n1' d1' n2' d2' X -> NFR n1 d1 n2 d2 X.
Proof.
  intros H1 H2 H1' L1 L2 NF x y Hx A B. apply (NF x y Hx).
  - assert (n1' * d1 * x <= n1 * d1' * x) by (apply N.mul_le_mono_r; exact L1).
    assert (n1 * x * d1' < d1 * y * d1') by (apply N.mul_lt_mono_pos_r; lia).
    apply (N.mul_lt_mono_pos_r d1); [lia|]. lia.
  - assert (d2 * y * d2' <= n2 * x * d2') by (apply N.mul_le_mono_r; exact B).
    assert (n2 * d2' * x <= n2' * d2 * x) by (apply N.mul_le_mono_r; exact L2).
    apply (N.mul_le_mono_pos_r _ _ d2); [lia|]. lia.
Qed.

Lemma NFL_mono (n1 d1 n2 d2 n1' d1' n2' d2' X : N) :
  0 < d1 -> 0 < d2 -> 0 < d2' -> n1' * d1 <= n1 * d1' -> n2 * d2' <= n2' * d2 ->
  NFL n1' d1' n2' d2' X -> NFL n1 d1 n2 d2 X.
Proof.
  intros H1 H2 H2' L1 L2 NF x y Hx A B. apply (NF x y Hx).
  - assert (n1' * d1 * x <= n1 * d1' * x) by (apply N.mul_le_mono_r; exact L1).
    assert (n1 * x * d1' <= d1 * y * d1') by (apply N.mul_le_mono_r; lia).
    apply (N.mul_le_mono_pos_r _ _ d1); [lia|]. lia.
  - assert (d2 * y * d2' < n2 * x * d2') by (apply N.mul_lt_mono_pos_r; lia).
    assert (n2 * d2' * x <= n2' * d2 * x) by (apply N.mul_le_mono_r; exact L2).
    apply (N.mul_lt_mono_pos_r d2); [lia|]. lia.
Qed.

(* a fraction with a long denominator is replaced by a binary fraction with [wbits] bits just below / above *)
Definition wbits : N := 160.
Definition widen_lo (p : N * N) : N * N :=
  if N.size (snd p) <=? wbits then p else (N.shiftl (fst p) wbits / snd p, N.shiftl 1 wbits).
Definition widen_hi (p : N * N) : N * N :=
  if N.size (snd p) <=? wbits then p else (N.shiftl (fst p) wbits / snd p + 1, N.shiftl 1 wbits).

Lemma widen_lo_spec n d : 0 < d ->
  0 < snd (widen_lo (n, d)) /\ fst (widen_lo (n, d)) * d <= n * snd (widen_lo (n, d)).
Proof.
  intro H. unfold widen_lo. cbn [fst snd]. destruct (N.size d <=? wbits); cbn [fst snd]; [lia|].
  rewrite N.shiftl_1_l, N.shiftl_mul_pow2.
  pose proof (N.pow_nonzero 2 wbits ltac:(lia)). split; [lia|].
  rewrite (N.mul_comm _ d). apply N.mul_div_le. lia.
Qed.

Lemma widen_hi_spec n d : 0 < d ->
  0 < snd (widen_hi (n, d)) /\ n * snd (widen_hi (n, d)) <= fst (widen_hi (n, d)) * d.
Proof.
  intro H. unfold widen_hi. cbn [fst snd]. destruct (N.size d <=? wbits); cbn [fst snd]; [lia|].
  rewrite N.shiftl_1_l, N.shiftl_mul_pow2.
  pose proof (N.pow_nonzero 2 wbits ltac:(lia)). split; [lia|].
  pose proof (N.div_mod (n * 2 ^ wbits) d ltac:(lia)) as DM.
  pose proof (N.mod_upper_bound (n * 2 ^ wbits) d ltac:(lia)) as MU. nia.
Qed.

Example nofrac_example :
  nofrac 20 true 314 100 315 100 6 = true /\ nofrac 20 true 314 100 315 100 7 = false.   (* 22/7 = 3.1428.. *)
Proof. vm_compute. split; reflexivity. Qed.
