(* Proofs/SqlProofs.v — lemmas about Model/Sql.v (property C19 and the SQL part of C15). *)
From Coq Require Import String.
From QF Require Import Base.Prelude Gen.GenConsts Model.Sql Model.IOFault Corr.IOCorr.
Local Open Scope N_scope.

(* ------------------------------------------------------------------ statement text *)

Lemma insert_names_join names char : forall i len,
  len = (i + length names)%nat ->
  insert_names names char i len = join lit_comma (map (fun n => escape n char) names).
Proof.
  induction names as [|x rest IH]; intros i len Hlen; simpl; auto.
  destruct rest as [|y rest'].
  - simpl in *. replace (Nat.ltb (i + 1) len) with false
      by (symmetry; apply Nat.ltb_ge; lia).
    now rewrite !app_nil_r.
  - replace (Nat.ltb (i + 1) len) with true
      by (symmetry; apply Nat.ltb_lt; simpl in Hlen; lia).
    rewrite (IH (S i) len) by (simpl in *; lia). reflexivity.
Qed.

Definition mark (incr : bool) (i : nat) : bytes :=
  if incr then lit_dollar ++ itoa (N.of_nat i) else lit_qmark.

Lemma insert_marks_join {A} (names : list A) incr : forall i len,
  len = (i + length names)%nat ->
  insert_marks names incr i len = join lit_comma (map (mark incr) (seq (S i) (length names))).
Proof.
  induction names as [|x rest IH]; intros i len Hlen; simpl; auto.
  replace (i + 1)%nat with (S i) by lia.
  destruct rest as [|y rest'].
  - simpl in *. replace (Nat.ltb (S i) len) with false
      by (symmetry; apply Nat.ltb_ge; lia).
    unfold mark. now rewrite !app_nil_r.
  - replace (Nat.ltb (S i) len) with true
      by (symmetry; apply Nat.ltb_lt; simpl in Hlen; lia).
    rewrite (IH (S i) len) by (simpl in *; lia). reflexivity.
Qed.

(* the statement text is the one the property describes (spec_insert is also the oracle of the engine) *)
Lemma insert_text_spec names conf :
  insert_text names conf = spec_insert names (q_table conf) (q_escape conf) (q_incr conf).
Proof.
  unfold insert_text, spec_insert.
  rewrite (insert_names_join names (q_escape conf) 0 (length names)) by lia.
  rewrite (insert_marks_join names (q_incr conf) 0 (length names)) by lia.
  reflexivity.
Qed.

(* ------------------------------------------------------------------ arguments of a row *)

Lemma cell_at_spec c p v : spec_cell c p = Some v -> cell_at c p = Ok v.
Proof.
  destruct c as [l|l|l|l|r vs]; simpl; unfold idx, of_option.
  - destruct (nth_error l p); simpl; congruence.
  - destruct (nth_error l p); simpl; congruence.
  - destruct (nth_error l p); simpl; congruence.
  - destruct (nth_error l p) as [[s|]|]; simpl; congruence.
  - destruct (nth_error r p) as [rk|]; simpl; [|congruence].
    change c_nullValue with 255. destruct (rk =? 255); [congruence|].
    destruct (nth_error vs (N.to_nat rk)); simpl; congruence.
Qed.

Lemma opt_all_cons_inv {A} (x : option A) l r :
  opt_all (x :: l) = Some r -> exists a r', x = Some a /\ opt_all l = Some r' /\ r = a :: r'.
Proof.
  simpl. destruct x as [a|]; [|discriminate].
  destruct (opt_all l) as [r'|]; simpl; [|discriminate].
  intros H; inversion H; eauto.
Qed.

Lemma row_args_spec cols ix i p r :
  nth_error ix i = Some p ->
  opt_all (map (fun c : bytes * coldata => spec_cell (snd c) p) cols) = Some r ->
  omap (fun c : bytes * coldata => arg_builder (snd c) ix i) cols = Ok r.
Proof.
  intros Hp. revert r. induction cols as [|c cols IH]; intros r H; simpl in *.
  - inversion H; reflexivity.
  - apply opt_all_cons_inv in H as (a & r' & Ha & Hr & ->).
    unfold arg_builder at 1. unfold idx, of_option. rewrite Hp. simpl.
    rewrite (cell_at_spec _ _ _ Ha). simpl. rewrite (IH r' Hr). reflexivity.
Qed.

Lemma spec_rows_forall2_aux cols pre : forall suf rows,
  opt_all (map (fun p => opt_all (map (fun c : bytes * coldata => spec_cell (snd c) p) cols)) suf) = Some rows ->
  Forall2 (fun i r => row_args (mkFrame cols (pre ++ suf)) i = Ok r) (seq (length pre) (length suf)) rows.
Proof.
  intros suf; revert pre. induction suf as [|p suf IH]; intros pre rows H; simpl in *.
  - inversion H. constructor.
  - apply opt_all_cons_inv in H as (r & rows' & Hr & Hrest & ->).
    constructor.
    + unfold row_args. simpl. apply row_args_spec with (p := p); auto.
      rewrite nth_error_app2 by lia. now rewrite Nat.sub_diag.
    + specialize (IH (pre ++ [p]) rows' Hrest).
      rewrite <- app_assoc in IH. simpl in IH. rewrite app_length in IH. simpl in IH.
      replace (length pre + 1)%nat with (S (length pre)) in IH by lia. exact IH.
Qed.

Lemma spec_rows_forall2 f rows :
  spec_rows f = Some rows ->
  Forall2 (fun i r => row_args f i = Ok r) (seq 0 (length (findex f))) rows.
Proof.
  destruct f as [cols ix]. unfold spec_rows. simpl. intros H.
  exact (spec_rows_forall2_aux cols [] ix rows H).
Qed.

(* ------------------------------------------------------------------ the ToSQL loop *)

Definition mk_stmt (f : frame) (conf : sql_config) (r : list dval) : stmt :=
  (insert_text (map fst (fcols f)) conf, r).

Lemma to_sql_loop_ok f conf exec_ok is rs :
  Forall2 (fun i r => row_args f i = Ok r) is rs ->
  (forall i, In i is -> exec_ok i = true) ->
  to_sql_loop f conf exec_ok is = (map (mk_stmt f conf) rs, SOk).
Proof.
  induction 1 as [|i r is' rs' Hir Hrest IH]; intros Hok; simpl; auto.
  rewrite Hir. rewrite (Hok i) by (left; reflexivity).
  rewrite IH by (intros j Hj; apply Hok; right; exact Hj). reflexivity.
Qed.

Lemma to_sql_loop_fail f conf exec_ok is rs :
  Forall2 (fun i r => row_args f i = Ok r) is rs ->
  forall pre i post,
    is = pre ++ i :: post ->
    (forall j, In j pre -> exec_ok j = true) -> exec_ok i = false ->
    to_sql_loop f conf exec_ok is = (firstn (S (length pre)) (map (mk_stmt f conf) rs), SErr).
Proof.
  induction 1 as [|i0 r is' rs' Hir Hrest IH]; intros pre i post Heq Hpre Hi.
  - destruct pre; discriminate.
  - destruct pre as [|j pre'].
    + simpl in Heq. inversion Heq; subst. simpl. rewrite Hir, Hi. reflexivity.
    + simpl in Heq. inversion Heq; subst. simpl. rewrite Hir.
      rewrite (Hpre j) by (left; reflexivity).
      rewrite (IH pre' i post eq_refl) by (auto; intros k Hk; apply Hpre; right; exact Hk).
      reflexivity.
Qed.

(* C19_statements: one INSERT per row of the frame, in frame order, with that row's values *)
Lemma to_sql_statements f conf rows :
  spec_rows f = Some rows ->
  to_sql f conf (fun _ => true) = (map (mk_stmt f conf) rows, SOk).
Proof.
  intros H. unfold to_sql. apply to_sql_loop_ok; auto. now apply spec_rows_forall2.
Qed.

Lemma forall2_length {A B} (P : A -> B -> Prop) l1 l2 : Forall2 P l1 l2 -> length l1 = length l2.
Proof. induction 1; simpl; auto. Qed.

(* C15_sql_write: Exec number k refused -> error; statements 0..k reached the driver, none after *)
Lemma to_sql_exec_fault f conf rows k :
  spec_rows f = Some rows -> (k < length (findex f))%nat ->
  to_sql f conf (fun i => negb (Nat.eqb i k)) = (firstn (S k) (map (mk_stmt f conf) rows), SErr).
Proof.
  intros H Hk. unfold to_sql.
  pose proof (spec_rows_forall2 f rows H) as HF.
  set (n := length (findex f)) in *.
  assert (Hsplit : seq 0 n = seq 0 k ++ k :: seq (S k) (n - S k)).
  { replace n with (k + S (n - S k))%nat at 1 by lia. rewrite seq_app. simpl. reflexivity. }
  rewrite (to_sql_loop_fail f conf _ _ _ HF (seq 0 k) k (seq (S k) (n - S k)) Hsplit).
  - now rewrite seq_length.
  - intros j Hj. apply in_seq in Hj. apply negb_true_iff. apply Nat.eqb_neq. lia.
  - now rewrite Nat.eqb_refl.
Qed.

(* a frame as the library builds it: the index points into every column, enum ranks into the value table *)
Definition col_ok (n : nat) (c : coldata) : Prop :=
  match c with
  | CInt l => length l = n | CFloat l => length l = n | CBool l => length l = n | CStr l => length l = n
  | CEnum r v => length r = n /\ Forall (fun rk => rk = 255 \/ (N.to_nat rk < length v)%nat) r
  end.
Definition frame_ok (f : frame) : Prop :=
  exists n, Forall (fun c => col_ok n (snd c)) (fcols f) /\ Forall (fun p => (p < n)%nat) (findex f).

Lemma nth_error_some_lt {A} (l : list A) p : (p < length l)%nat -> exists x, nth_error l p = Some x.
Proof.
  intros H. destruct (nth_error l p) eqn:E; eauto. apply nth_error_None in E. lia.
Qed.

Lemma spec_cell_total n c p : col_ok n c -> (p < n)%nat -> exists v, spec_cell c p = Some v.
Proof.
  destruct c as [l|l|l|l|r vs]; simpl; intros Hc Hp.
  1-4: destruct (nth_error_some_lt l p ltac:(lia)) as [x ->]; simpl; eauto.
  destruct Hc as [Hl Hr].
  destruct (nth_error_some_lt r p ltac:(lia)) as [rk Hrk]. rewrite Hrk.
  destruct (rk =? 255) eqn:E; eauto.
  rewrite Forall_forall in Hr. destruct (Hr rk (nth_error_In _ _ Hrk)) as [->|Hlt].
  - rewrite N.eqb_refl in E. discriminate.
  - destruct (nth_error_some_lt vs _ Hlt) as [s ->]. simpl. eauto.
Qed.

Lemma opt_all_total {A B} (g : A -> option B) l :
  (forall x, In x l -> exists y, g x = Some y) -> exists r, opt_all (map g l) = Some r.
Proof.
  induction l as [|x l IH]; intros H; simpl; eauto.
  destruct (H x (or_introl eq_refl)) as [y ->].
  destruct IH as [r ->]; [intros z Hz; apply H; right; exact Hz|]. simpl. eauto.
Qed.

Lemma frame_ok_rows f : frame_ok f -> exists rows, spec_rows f = Some rows.
Proof.
  intros (n & Hc & Hi). unfold spec_rows. apply opt_all_total. intros p Hp.
  rewrite Forall_forall in Hi. specialize (Hi p Hp).
  apply opt_all_total. intros c Hcin. rewrite Forall_forall in Hc.
  eapply spec_cell_total; eauto.
Qed.

Lemma spec_rows_length f rows : spec_rows f = Some rows -> length rows = length (findex f).
Proof.
  intros H. apply spec_rows_forall2 in H. apply forall2_length in H. rewrite seq_length in H. auto.
Qed.

(* ================================================================== ReadSQL *)

Section ReadProofs.
  Variable fixed : N -> Z -> N.
  Variable pf : bytes -> option N.

  Notation col_scan := (col_scan fixed pf).
  Notation scan_row := (scan_row fixed pf).
  Notation read_row := (read_row fixed pf).
  Notation read_rows := (read_rows fixed pf).
  Notation read_sql := (read_sql fixed pf).
  Notation io_read_sql := (io_read_sql fixed pf).

  (* ---------------------------------------------------------------- driver faults (C15) *)

  Lemma read_sql_prepare_fault conf rs q r : read_sql conf rs (mkFaults true q r) = Fail.
  Proof. reflexivity. Qed.

  Lemma read_sql_query_fault conf rs p r : read_sql conf rs (mkFaults p true r) = Fail.
  Proof. unfold Sql.read_sql. simpl. destruct p; reflexivity. Qed.

  Lemma read_rows_fault conf names j : forall rows k st res,
    (k <= j <= k + length rows)%nat -> read_rows conf names (Some j) k st rows <> Ok res.
  Proof.
    induction rows as [|row rest IH]; intros k st res Hk; simpl.
    - replace (Nat.eqb j k) with true by (symmetry; apply Nat.eqb_eq; simpl in Hk; lia). discriminate.
    - destruct (Nat.eqb j k) eqn:E; [discriminate|]. apply Nat.eqb_neq in E.
      destruct (read_row conf names st row) as [st'| |]; simpl; try discriminate.
      apply IH. simpl in Hk. lia.
  Qed.

  (* Rows.Next fails at row j (j = number of rows: instead of reporting the end) -> Err, never a frame *)
  Lemma read_sql_row_fault conf rs p q j res :
    (j <= length (rs_rows rs))%nat -> read_sql conf rs (mkFaults p q (Some j)) <> Ok res.
  Proof.
    intros Hj. unfold Sql.read_sql. simpl. destruct p; [discriminate|]. destruct q; [discriminate|].
    unfold Sql.io_read_sql.
    destruct (read_rows conf (rs_names rs) (Some j) 0 ([], []) (rs_rows rs)) as [st| |] eqn:E; simpl; try discriminate.
    exfalso. eapply read_rows_fault; [|exact E]. lia.
  Qed.

  (* a value Scan rejects *)
  Definition no_co (cols : list column) : Prop := Forall (fun c => c_coerce c = None) cols.

  Lemma col_scan_coerce c v c' : col_scan c v = Ok c' -> c_coerce c' = c_coerce c.
  Proof.
    unfold Sql.col_scan. destruct (c_coerce c) as [k|] eqn:Ec.
    - unfold coerce_scan. destruct k, v; try discriminate;
        try (intros H; unfold col_null in H; destruct (c_kind c); inversion H; subst; simpl; auto; fail).
      + intros H; inversion H; subst. unfold col_bool.
        destruct (is_pnil (c_ptr c)); simpl; auto.
      + destruct (pf s); [|discriminate]. intros H; inversion H; subst. unfold col_float.
        destruct (is_pnil (c_ptr c)); simpl; [destruct (Nat.ltb 0 (c_nulls c)); simpl|];
          destruct (0 <? c_prec c)%Z; simpl; auto.
    - destruct v; try discriminate; intros H; inversion H; subst; clear H.
      + unfold col_int. destruct (is_pnil (c_ptr c)); simpl; auto.
      + unfold col_float.
        destruct (is_pnil (c_ptr c)); simpl; [destruct (Nat.ltb 0 (c_nulls c)); simpl|];
          destruct (0 <? c_prec c)%Z; simpl; auto.
      + unfold col_bool. destruct (is_pnil (c_ptr c)); simpl; auto.
      + unfold col_string.
        destruct (is_pnil (c_ptr c)); simpl; [destruct (Nat.ltb 0 (c_nulls c)); simpl|]; auto.
      + unfold col_string.
        destruct (is_pnil (c_ptr c)); simpl; [destruct (Nat.ltb 0 (c_nulls c)); simpl|]; auto.
      + unfold col_null in H1. destruct (c_kind c); inversion H1; subst; simpl; auto.
  Qed.

  Lemma scan_row_other : forall cols vals cols',
    no_co cols -> scan_row cols vals = Ok cols' -> no_co cols' /\ ~ In DOther vals.
  Proof.
    induction cols as [|c cs IH]; intros vals cols' Hno; destruct vals as [|v vs]; simpl; try discriminate.
    - intros H; inversion H; subst. split; [constructor|auto].
    - inversion Hno as [|? ? Hc Hcs]; subst.
      destruct (col_scan c v) as [c1| |] eqn:E1; simpl; try discriminate.
      destruct (scan_row cs vs) as [cs1| |] eqn:E2; simpl; try discriminate.
      intros H; inversion H; subst. destruct (IH vs cs1 Hcs E2) as [H1 H2].
      split.
      + constructor; auto. rewrite (col_scan_coerce _ _ _ E1). exact Hc.
      + intros [Hv|Hv]; [|auto]. subst v. unfold Sql.col_scan in E1. rewrite Hc in E1. discriminate.
  Qed.

  (* the allocation loop: it fails exactly when a column of the result set is bound to an entry without
     function; otherwise it builds alloc_plain *)
  Lemma alloc_columns_eq names conf :
    alloc_columns names conf = if coerce_nil_hit conf names then Fail else Ok (alloc_plain names conf).
  Proof.
    induction names as [|n names IH]; [reflexivity|].
    cbn [alloc_columns coerce_nil_hit existsb alloc_plain map]. fold (coerce_nil_hit conf names).
    fold (alloc_plain names conf). rewrite IH.
    unfold coerce_entry, coerce_lookup. destruct (q_coerce conf) as [m|].
    - destruct (coerce_find m n) as [[k|]|]; cbn [orb]; try reflexivity;
        destruct (coerce_nil_hit conf names); reflexivity.
    - cbn [orb]. destruct (coerce_nil_hit conf names); reflexivity.
  Qed.

  Lemma coerce_nil_hit_none names conf : q_coerce conf = None -> coerce_nil_hit conf names = false.
  Proof.
    intros H. unfold coerce_nil_hit, coerce_entry. rewrite H. induction names as [|n names IH]; [reflexivity|exact IH].
  Qed.

  Lemma alloc_columns_none names conf : q_coerce conf = None -> alloc_columns names conf = Ok (alloc_plain names conf).
  Proof. intros H. rewrite alloc_columns_eq, coerce_nil_hit_none by exact H. reflexivity. Qed.

  Lemma alloc_no_co names conf : q_coerce conf = None -> no_co (alloc_plain names conf).
  Proof.
    intros H. unfold alloc_plain, no_co. rewrite H. apply Forall_forall. intros c Hc.
    apply in_map_iff in Hc as (n & <- & _). reflexivity.
  Qed.

  Lemma read_row_eq conf names columns colNames row :
    q_coerce conf = None ->
    read_row conf names (columns, colNames) row =
    do cols' <- scan_row (match columns with [] => alloc_plain names conf | _ => columns end) row;
    Ok (cols', match columns with [] => names | _ => colNames end).
  Proof.
    intros Hco. unfold Sql.read_row. destruct columns; [|reflexivity].
    rewrite alloc_columns_none by exact Hco. rewrite Hco. reflexivity.
  Qed.

  Lemma read_row_other conf names st row st' :
    q_coerce conf = None -> no_co (fst st) -> read_row conf names st row = Ok st' ->
    no_co (fst st') /\ ~ In DOther row.
  Proof.
    intros Hco Hno. destruct st as [columns colNames]. rewrite read_row_eq by exact Hco.
    set (cols0 := match columns with [] => alloc_plain names conf | _ => columns end).
    assert (Hno0 : no_co cols0).
    { subst cols0. destruct columns; [now apply alloc_no_co|exact Hno]. }
    destruct (scan_row cols0 row) as [cols'| |] eqn:E; simpl; try discriminate.
    intros H; inversion H; subst. simpl. exact (scan_row_other cols0 row cols' Hno0 E).
  Qed.

  Lemma read_rows_other conf names : forall rows k st res,
    q_coerce conf = None -> no_co (fst st) -> read_rows conf names None k st rows = Ok res ->
    forall row, In row rows -> ~ In DOther row.
  Proof.
    induction rows as [|row rest IH]; intros k st res Hco Hno; simpl.
    - intros _ r [].
    - destruct (read_row conf names st row) as [st'| |] eqn:E; simpl; try discriminate.
      destruct (read_row_other _ _ _ _ _ Hco Hno E) as [Hno' Hrow].
      intros H r [<-|Hr]; auto. eapply IH; eauto.
  Qed.

  (* a value of a type Column.Scan does not accept, anywhere in the result set -> Err *)
  Lemma read_sql_scan_fault conf rs row res :
    q_coerce conf = None -> In row (rs_rows rs) -> In DOther row ->
    read_sql conf rs no_faults <> Ok res.
  Proof.
    intros Hco Hrow Hv. unfold Sql.read_sql. simpl. unfold Sql.io_read_sql.
    destruct (read_rows conf (rs_names rs) None 0 ([], []) (rs_rows rs)) as [st| |] eqn:E; simpl; try discriminate.
    exfalso. eapply read_rows_other; eauto. constructor.
  Qed.

  (* ---------------------------------------------------------------- one column (C19_read) *)

  Fixpoint scan_col (c : column) (vals : list dval) : outcome column :=
    match vals with
    | [] => Ok c
    | v :: vs => do c' <- col_scan c v; scan_col c' vs
    end.

  Definition to_int (v : dval) := match v with DInt z => Some z | _ => None end.
  Definition to_bool (v : dval) := match v with DBool z => Some z | _ => None end.
  Definition to_float (v : dval) := match v with DFloat z => Some z | DNull => Some nan_bits | _ => None end.
  Definition to_str (v : dval) :=
    match v with DStr z => Some (Some z) | DBytes z => Some (Some z) | DNull => Some None | _ => None end.

  Lemma steady_ints : forall vals zs n ints floats bools strs prec,
    opt_all (map to_int vals) = Some zs ->
    scan_col (mkCol KInt n PInts ints floats bools strs None prec) vals
    = Ok (mkCol KInt n PInts (ints ++ zs) floats bools strs None prec).
  Proof.
    induction vals as [|v vs IH]; intros zs n ints floats bools strs prec H.
    - inversion H. now rewrite app_nil_r.
    - apply opt_all_cons_inv in H as (z & zs' & Hv & Hrest & ->).
      destruct v; try discriminate. inversion Hv; subst. simpl.
      unfold col_int, with_ints. simpl. rewrite (IH zs'); auto. now rewrite <- app_assoc.
  Qed.

  Lemma steady_bools : forall vals zs n ints floats bools strs prec,
    opt_all (map to_bool vals) = Some zs ->
    scan_col (mkCol KBool n PBools ints floats bools strs None prec) vals
    = Ok (mkCol KBool n PBools ints floats (bools ++ zs) strs None prec).
  Proof.
    induction vals as [|v vs IH]; intros zs n ints floats bools strs prec H.
    - inversion H. now rewrite app_nil_r.
    - apply opt_all_cons_inv in H as (z & zs' & Hv & Hrest & ->).
      destruct v; try discriminate. inversion Hv; subst. simpl.
      unfold col_bool, with_bools. simpl. rewrite (IH zs'); auto. now rewrite <- app_assoc.
  Qed.

  Lemma steady_floats : forall vals zs n ints floats bools strs prec,
    (prec <= 0)%Z ->
    opt_all (map to_float vals) = Some zs ->
    scan_col (mkCol KFloat n PFloats ints floats bools strs None prec) vals
    = Ok (mkCol KFloat n PFloats ints (floats ++ zs) bools strs None prec).
  Proof.
    induction vals as [|v vs IH]; intros zs n ints floats bools strs prec Hp H.
    - inversion H. now rewrite app_nil_r.
    - apply opt_all_cons_inv in H as (z & zs' & Hv & Hrest & ->).
      destruct v; try discriminate; inversion Hv; subst; simpl.
      + unfold col_float, with_floats. simpl.
        replace (0 <? prec)%Z with false by (symmetry; apply Z.ltb_ge; exact Hp).
        rewrite (IH zs'); auto. now rewrite <- app_assoc.
      + unfold col_null, with_floats. simpl. rewrite (IH zs'); auto. now rewrite <- app_assoc.
  Qed.

  Lemma steady_strs : forall vals zs n ints floats bools strs prec,
    opt_all (map to_str vals) = Some zs ->
    scan_col (mkCol KString n PStrings ints floats bools strs None prec) vals
    = Ok (mkCol KString n PStrings ints floats bools (strs ++ zs) None prec).
  Proof.
    induction vals as [|v vs IH]; intros zs n ints floats bools strs prec H.
    - inversion H. now rewrite app_nil_r.
    - apply opt_all_cons_inv in H as (z & zs' & Hv & Hrest & ->).
      destruct v; try discriminate; inversion Hv; subst; simpl.
      + unfold col_string, with_strs. simpl. rewrite (IH zs'); auto. now rewrite <- app_assoc.
      + unfold col_string, with_strs. simpl. rewrite (IH zs'); auto. now rewrite <- app_assoc.
      + unfold col_null, with_strs. simpl. rewrite (IH zs'); auto. now rewrite <- app_assoc.
  Qed.

  Definition nulls_col (k : nat) (prec : Z) : column := mkCol KInvalid k PNil [] [] [] [] None prec.

  Lemma leading_nulls prec tl : forall k j,
    scan_col (nulls_col j prec) (repeat DNull k ++ tl) = scan_col (nulls_col (j + k) prec) tl.
  Proof.
    induction k as [|k IH]; intros j; simpl.
    - now rewrite Nat.add_0_r.
    - unfold col_null. simpl. unfold with_kind. simpl. fold (nulls_col (S j) prec).
      rewrite IH. f_equal. f_equal. lia.
  Qed.

  Lemma find_nonnull_split : forall vals v0,
    find (fun v => negb (spec_is_null v)) vals = Some v0 ->
    exists k rest, vals = repeat DNull k ++ v0 :: rest /\ spec_is_null v0 = false.
  Proof.
    induction vals as [|v vs IH]; intros v0; simpl; [discriminate|].
    destruct (spec_is_null v) eqn:E; simpl.
    - intros H. destruct (IH v0 H) as (k & rest & -> & Hv). exists (S k), rest.
      destruct v; try discriminate. auto.
    - intros H; inversion H; subst. exists 0%nat, vs. auto.
  Qed.

  Lemma opt_all_app {A} (l1 l2 : list (option A)) r :
    opt_all (l1 ++ l2) = Some r ->
    exists r1 r2, opt_all l1 = Some r1 /\ opt_all l2 = Some r2 /\ r = r1 ++ r2.
  Proof.
    revert r. induction l1 as [|x l1 IH]; intros r H; simpl in *.
    - exists [], r. auto.
    - destruct x as [a|]; [|discriminate].
      destruct (opt_all (l1 ++ l2)) as [r'|] eqn:E; simpl in H; [|discriminate].
      inversion H; subst. destruct (IH r' eq_refl) as (r1 & r2 & -> & -> & ->).
      exists (a :: r1), r2. auto.
  Qed.

  Lemma opt_all_repeat_null_none {A} (g : dval -> option A) k l :
    g DNull = None -> (0 < k)%nat -> opt_all (map g (repeat DNull k ++ l)) = None.
  Proof. intros Hg Hk. destruct k; [lia|]. simpl. now rewrite Hg. Qed.

  Lemma opt_all_map_repeat {A} (g : dval -> option A) a k :
    g DNull = Some a -> opt_all (map g (repeat DNull k)) = Some (repeat a k).
  Proof. intros Hg. induction k as [|k IH]; simpl; auto. rewrite Hg, IH. reflexivity. Qed.

  Lemma opt_all_length {A} (l : list (option A)) r : opt_all l = Some r -> length r = length l.
  Proof.
    revert r. induction l as [|x l IH]; intros r H; simpl in *.
    - inversion H; auto.
    - destruct x; [|discriminate]. destruct (opt_all l) eqn:E; simpl in H; [|discriminate].
      inversion H; subst. simpl. f_equal. auto.
  Qed.

  (* A column of one SQL type (NULLs only in float / text columns, at least one value), scanned by a
     fresh Column without coercion and precision: Data() is the column the property describes. *)
  Lemma scan_col_spec vals d prec :
    (prec <= 0)%Z -> spec_column vals = Some d ->
    exists c, scan_col (new_column prec None) vals = Ok c /\ col_data c = Some d
              /\ coldata_len d = length vals.
  Proof.
    intros Hp. unfold spec_column.
    destruct (find (fun v => negb (spec_is_null v)) vals) as [v0|] eqn:Ef; [|discriminate].
    destruct (find_nonnull_split _ _ Ef) as (k & rest & -> & Hv0).
    change (new_column prec None) with (nulls_col 0 prec). rewrite leading_nulls. simpl.
    destruct v0; try discriminate; clear Hv0.
    - (* int: no leading NULL possible *)
      fold to_int. intros H. destruct (opt_all (map to_int (repeat DNull k ++ DInt z :: rest))) as [zs|] eqn:E; [|discriminate].
      inversion H; subst; clear H.
      destruct k; [|simpl in E; discriminate]. simpl in E.
      destruct (opt_all (map to_int rest)) as [zs'|] eqn:E'; simpl in E; [|discriminate]. inversion E; subst.
      simpl. unfold col_int, with_kind, with_ints. simpl.
      rewrite (steady_ints rest zs'); auto. simpl.
      eexists; split; [reflexivity|]. split; simpl; auto.
      f_equal. now apply opt_all_length in E'; rewrite map_length in E'.
    - (* float *)
      fold to_float. intros H.
      destruct (opt_all (map to_float (repeat DNull k ++ DFloat b :: rest))) as [zs|] eqn:E; [|discriminate].
      inversion H; subst; clear H.
      rewrite map_app in E. apply opt_all_app in E as (r1 & r2 & E1 & E2 & ->).
      rewrite (opt_all_map_repeat to_float nan_bits k eq_refl) in E1. inversion E1; subst; clear E1.
      simpl in E2. destruct (opt_all (map to_float rest)) as [zs'|] eqn:E'; simpl in E2; [|discriminate].
      inversion E2; subst; clear E2.
      assert (Hlt : (0 <? prec)%Z = false) by (apply Z.ltb_ge; exact Hp).
      simpl. unfold col_float. simpl.
      destruct k as [|k].
      + simpl. unfold with_kind, with_floats. simpl. rewrite ?Hlt. rewrite (steady_floats rest zs'); auto.
        eexists; split; [reflexivity|]. split; simpl; auto.
        f_equal. now apply opt_all_length in E'; rewrite map_length in E'.
      + simpl. unfold with_kind, with_floats. simpl. rewrite ?Hlt. rewrite (steady_floats rest zs'); auto.
        eexists; split; [reflexivity|]. split; simpl.
        * rewrite <- app_assoc. reflexivity.
        * apply opt_all_length in E'. rewrite map_length in E'.
          rewrite !app_length, !repeat_length. simpl. rewrite E'. lia.
    - (* bool *)
      fold to_bool. intros H. destruct (opt_all (map to_bool (repeat DNull k ++ DBool b :: rest))) as [zs|] eqn:E; [|discriminate].
      inversion H; subst; clear H.
      destruct k; [|simpl in E; discriminate]. simpl in E.
      destruct (opt_all (map to_bool rest)) as [zs'|] eqn:E'; simpl in E; [|discriminate]. inversion E; subst.
      simpl. unfold col_bool, with_kind, with_bools. simpl.
      rewrite (steady_bools rest zs'); auto. simpl.
      eexists; split; [reflexivity|]. split; simpl; auto.
      f_equal. now apply opt_all_length in E'; rewrite map_length in E'.
    - (* string *)
      fold to_str. intros H.
      destruct (opt_all (map to_str (repeat DNull k ++ DStr s :: rest))) as [zs|] eqn:E; [|discriminate].
      inversion H; subst; clear H.
      rewrite map_app in E. apply opt_all_app in E as (r1 & r2 & E1 & E2 & ->).
      rewrite (opt_all_map_repeat to_str None k eq_refl) in E1. inversion E1; subst; clear E1.
      simpl in E2. destruct (opt_all (map to_str rest)) as [zs'|] eqn:E'; simpl in E2; [|discriminate].
      inversion E2; subst; clear E2.
      simpl. unfold col_string. simpl.
      destruct k as [|k].
      + simpl. unfold with_kind, with_strs. simpl. rewrite (steady_strs rest zs'); auto.
        eexists; split; [reflexivity|]. split; simpl; auto.
        f_equal. now apply opt_all_length in E'; rewrite map_length in E'.
      + simpl. unfold with_kind, with_strs. simpl. rewrite (steady_strs rest zs'); auto.
        eexists; split; [reflexivity|]. split; simpl.
        * rewrite <- app_assoc. reflexivity.
        * apply opt_all_length in E'. rewrite map_length in E'.
          rewrite !app_length, !repeat_length. simpl. rewrite E'. lia.
    - (* []byte *)
      fold to_str. intros H.
      destruct (opt_all (map to_str (repeat DNull k ++ DBytes s :: rest))) as [zs|] eqn:E; [|discriminate].
      inversion H; subst; clear H.
      rewrite map_app in E. apply opt_all_app in E as (r1 & r2 & E1 & E2 & ->).
      rewrite (opt_all_map_repeat to_str None k eq_refl) in E1. inversion E1; subst; clear E1.
      simpl in E2. destruct (opt_all (map to_str rest)) as [zs'|] eqn:E'; simpl in E2; [|discriminate].
      inversion E2; subst; clear E2.
      simpl. unfold col_string. simpl.
      destruct k as [|k].
      + simpl. unfold with_kind, with_strs. simpl. rewrite (steady_strs rest zs'); auto.
        eexists; split; [reflexivity|]. split; simpl; auto.
        f_equal. now apply opt_all_length in E'; rewrite map_length in E'.
      + simpl. unfold with_kind, with_strs. simpl. rewrite (steady_strs rest zs'); auto.
        eexists; split; [reflexivity|]. split; simpl.
        * rewrite <- app_assoc. reflexivity.
        * apply opt_all_length in E'. rewrite map_length in E'.
          rewrite !app_length, !repeat_length. simpl. rewrite E'. lia.
  Qed.

  (* ---------------------------------------------------------------- rows versus columns *)

  Fixpoint run_rows (cols : list column) (rows : list (list dval)) : outcome (list column) :=
    match rows with
    | [] => Ok cols
    | r :: rs => do cs <- scan_row cols r; run_rows cs rs
    end.

  Lemma nth_map_seq {A} (f : nat -> A) n j d : (j < n)%nat -> nth j (map f (seq 0 n)) d = f j.
  Proof.
    intros Hj. rewrite nth_indep with (d' := f 0%nat) by (now rewrite map_length, seq_length).
    rewrite map_nth. now rewrite seq_nth by lia.
  Qed.

  Lemma nth_map_const {A B} (l : list A) (c : B) j d : (j < length l)%nat -> nth j (map (fun _ => c) l) d = c.
  Proof.
    revert j. induction l as [|x l IH]; intros j Hj; simpl in *; [lia|]. destruct j; auto. apply IH. lia.
  Qed.

  Lemma scan_row_length : forall cols r cols', scan_row cols r = Ok cols' -> length cols' = length cols.
  Proof.
    induction cols as [|c cs IH]; intros r cols'; destruct r as [|v vs]; simpl; try discriminate.
    - intros H; inversion H; auto.
    - destruct (col_scan c v) as [c1| |]; simpl; try discriminate.
      destruct (scan_row cs vs) as [cs1| |] eqn:E; simpl; try discriminate.
      intros H; inversion H; subst. simpl. f_equal. eauto.
  Qed.

  Lemma scan_row_zip dc : forall cols r c1s,
    length r = length cols -> length c1s = length cols ->
    (forall j, (j < length cols)%nat -> col_scan (nth j cols dc) (nth j r DNull) = Ok (nth j c1s dc)) ->
    scan_row cols r = Ok c1s.
  Proof.
    induction cols as [|c cs IH]; intros r c1s Hr Hc H; destruct r as [|v vs]; destruct c1s as [|c1 c1s'];
      simpl in *; try discriminate; auto.
    rewrite (H 0%nat) by lia. simpl.
    rewrite (IH vs c1s'); auto; try lia.
    intros j Hj. apply (H (S j)). lia.
  Qed.

  Lemma run_rows_cols dc : forall rows cols finals,
    (forall r, In r rows -> length r = length cols) -> length finals = length cols ->
    (forall j, (j < length cols)%nat -> scan_col (nth j cols dc) (column_vals rows j) = Ok (nth j finals dc)) ->
    run_rows cols rows = Ok finals.
  Proof.
    induction rows as [|r rs IH]; intros cols finals Hlen Hf H; simpl.
    - f_equal. apply nth_ext with (d := dc) (d' := dc); [auto|].
      intros j Hj. specialize (H j Hj). simpl in H. now inversion H.
    - set (c1s := map (fun j => match col_scan (nth j cols dc) (nth j r DNull) with Ok c => c | _ => dc end)
                      (seq 0 (length cols))).
      assert (Hc1len : length c1s = length cols) by (subst c1s; now rewrite map_length, seq_length).
      assert (Hc1 : forall j, (j < length cols)%nat ->
                col_scan (nth j cols dc) (nth j r DNull) = Ok (nth j c1s dc)
                /\ scan_col (nth j c1s dc) (column_vals rs j) = Ok (nth j finals dc)).
      { intros j Hj. specialize (H j Hj). unfold column_vals in H. simpl in H.
        assert (Hn : nth j c1s dc = match col_scan (nth j cols dc) (nth j r DNull) with Ok c => c | _ => dc end).
        { subst c1s. now rewrite nth_map_seq by exact Hj. }
        rewrite Hn. destruct (col_scan (nth j cols dc) (nth j r DNull)) as [c1| |]; simpl in H; try discriminate.
        auto. }
      rewrite (scan_row_zip dc cols r c1s); auto.
      + simpl. apply IH; auto.
        * intros r' Hr'. rewrite Hc1len. apply Hlen. now right.
        * lia.
        * intros j Hj. rewrite Hc1len in Hj. now apply Hc1.
      + apply Hlen. now left.
      + intros j Hj. now apply Hc1.
  Qed.

  Lemma read_rows_cons conf names k st row rest :
    read_rows conf names None k st (row :: rest)
    = do st' <- read_row conf names st row; read_rows conf names None (S k) st' rest.
  Proof. reflexivity. Qed.

  Lemma read_rows_run conf names : q_coerce conf = None -> forall rs k cols,
    length cols = length names ->
    read_rows conf names None k (cols, names) rs = do cs <- run_rows cols rs; Ok (cs, names).
  Proof.
    intros Hco. induction rs as [|r rs IH]; intros k cols Hlen; [reflexivity|].
    rewrite read_rows_cons. rewrite read_row_eq by exact Hco. cbn [run_rows].
    assert (Hc0 : match cols with [] => alloc_plain names conf | _ => cols end = cols).
    { destruct cols; auto. destruct names; [reflexivity|discriminate]. }
    assert (Hn0 : match cols with [] => names | _ => names end = names) by (destruct cols; auto).
    rewrite Hc0, Hn0.
    destruct (scan_row cols r) as [cols'| |] eqn:E; simpl; auto.
    apply IH. rewrite (scan_row_length _ _ _ E). exact Hlen.
  Qed.

  Lemma read_rows_first conf names r rs :
    q_coerce conf = None ->
    read_rows conf names None 0 ([], []) (r :: rs)
    = do cs <- run_rows (alloc_plain names conf) (r :: rs); Ok (cs, names).
  Proof.
    intros Hco. rewrite read_rows_cons. rewrite read_row_eq by exact Hco. cbn [run_rows].
    destruct (scan_row (alloc_plain names conf) r) as [cols'| |] eqn:E; simpl; auto.
    apply read_rows_run; auto. rewrite (scan_row_length _ _ _ E). unfold alloc_plain. now rewrite map_length.
  Qed.

  (* ---------------------------------------------------------------- the result map and qframe.New *)

  Lemma nodupb_NoDup l : nodupb l = true -> NoDup l.
  Proof.
    induction l as [|x r IH]; simpl; intros H; constructor.
    - apply andb_true_iff in H as [H _]. apply negb_true_iff in H.
      intros Hin. assert (existsb (bytes_eqb x) r = true); [|congruence].
      apply existsb_exists. exists x. split; auto. apply bytes_eqb_refl.
    - apply andb_true_iff in H as [_ H]. auto.
  Qed.

  Lemma bytes_eqb_neq a b : a <> b -> bytes_eqb a b = false.
  Proof. intros H. destruct (bytes_eqb a b) eqn:E; auto. apply bytes_eqb_spec in E. contradiction. Qed.

  Lemma map_set_fresh {V} (m : list (bytes * V)) k v :
    ~ In k (map fst m) -> map_set m k v = m ++ [(k, v)].
  Proof.
    induction m as [|[k' v'] m IH]; simpl; intros H; auto.
    rewrite bytes_eqb_neq by (intros ->; apply H; now left).
    rewrite IH; auto.
  Qed.

  Lemma result_map_spec : forall cs ns pre acc,
    length cs = length ns -> NoDup (pre ++ ns) -> map fst acc = pre ->
    result_map cs (pre ++ ns) (length pre) acc = Ok (acc ++ combine ns (map col_data cs)).
  Proof.
    induction cs as [|c cs IH]; intros ns pre acc Hlen Hnd Hacc; destruct ns as [|n ns]; simpl in *; try discriminate.
    - now rewrite app_nil_r.
    - unfold idx, of_option. rewrite nth_error_app2 by lia. rewrite Nat.sub_diag. simpl.
      rewrite map_set_fresh.
      2:{ rewrite Hacc. apply NoDup_remove_2 in Hnd. intros Hin. apply Hnd. apply in_or_app. now left. }
      specialize (IH ns (pre ++ [n]) (acc ++ [(n, col_data c)])).
      rewrite <- app_assoc in IH. simpl in IH. rewrite app_length in IH. simpl in IH.
      replace (length pre + 1)%nat with (S (length pre)) in IH by lia.
      rewrite IH; auto.
      + now rewrite <- app_assoc.
      + rewrite map_app. simpl. now rewrite Hacc.
  Qed.

  Lemma map_get_in {V} (l : list (bytes * V)) n v :
    NoDup (map fst l) -> In (n, v) l -> map_get l n = Some v.
  Proof.
    induction l as [|[k' v'] l IH]; simpl; intros Hnd Hin; [contradiction|].
    inversion Hnd as [|? ? Hnot Hnd']; subst.
    destruct Hin as [Heq|Hin].
    - inversion Heq; subst. now rewrite bytes_eqb_refl.
    - rewrite bytes_eqb_neq.
      + auto.
      + intros ->. apply Hnot. apply in_map_iff. exists (k', v). auto.
  Qed.

  Lemma new_columns_spec data L : forall ns ds i first,
    length ns = length ds ->
    (forall n d, In (n, d) (combine ns ds) -> map_get data n = Some (Some d) /\ coldata_len d = L) ->
    (i = 0%nat \/ first = L) ->
    new_columns ns data i first = Ok (combine ns ds).
  Proof.
    induction ns as [|n ns IH]; intros ds i first Hlen H Hi; destruct ds as [|d ds]; simpl in *; try discriminate; auto.
    destruct (H n d (or_introl eq_refl)) as [Hget HL]. rewrite Hget.
    assert (Hfirst : (if Nat.eqb i 0 then coldata_len d else first) = L).
    { destruct Hi as [-> | ->]; simpl; auto. destruct (Nat.eqb i 0); auto. }
    rewrite Hfirst, HL, Nat.eqb_refl. simpl.
    rewrite (IH ds (S i) L); auto.
  Qed.

  Lemma opt_all_nth {A B} (g : A -> option B) d0 d1 : forall l r,
    opt_all (map g l) = Some r ->
    forall j, (j < length l)%nat -> g (nth j l d0) = Some (nth j r d1).
  Proof.
    induction l as [|x l IH]; intros r H j Hj; simpl in *; [lia|].
    apply opt_all_cons_inv in H as (a & r' & Ha & Hr & ->).
    destruct j; simpl; auto. apply IH; auto. lia.
  Qed.

  Lemma fst_combine {A B} (l1 : list A) (l2 : list B) :
    length l1 = length l2 -> map fst (combine l1 l2) = l1.
  Proof.
    revert l2. induction l1 as [|x l1 IH]; intros [|y l2]; simpl; intros H; try discriminate; auto.
    f_equal. apply IH. lia.
  Qed.

  Lemma in_combine_map_some {A B} (l1 : list A) : forall (l2 : list B) n d,
    In (n, d) (combine l1 l2) -> In (n, Some d) (combine l1 (map Some l2)).
  Proof.
    induction l1 as [|x l1 IH]; intros [|y l2] n d Hin; simpl in *; try contradiction.
    destruct Hin as [Heq|Hin]; [left; inversion Heq; reflexivity|right; apply IH; auto].
  Qed.

  (* C19_read: inside the quantifier of the property (spec_read defined), without coercion and
     precision, ReadSQL returns exactly the frame the property describes *)
  Lemma read_sql_spec conf names rows cols :
    q_coerce conf = None -> (q_precision conf <= 0)%Z ->
    spec_read names rows = Some cols ->
    read_sql conf (mkRS names rows) no_faults = Ok cols.
  Proof.
    intros Hco Hp. unfold spec_read.
    destruct (negb (forallb (fun r => Nat.eqb (length r) (length names)) rows)) eqn:C1; [discriminate|].
    destruct (negb (nodupb names && forallb check_name names)) eqn:C2; [discriminate|].
    destruct (Nat.eqb (length rows) 0) eqn:C3; [discriminate|].
    destruct (opt_all (map (fun j => spec_column (column_vals rows j)) (seq 0 (length names)))) as [ds|] eqn:C4;
      [|discriminate].
    simpl. intros H; inversion H; subst cols; clear H.
    apply negb_false_iff in C1. apply negb_false_iff in C2. apply andb_true_iff in C2 as [Hnd Hnames].
    apply nodupb_NoDup in Hnd. apply Nat.eqb_neq in C3.
    rewrite forallb_forall in C1.
    assert (Hdslen : length ds = length names).
    { apply opt_all_length in C4. now rewrite map_length, seq_length in C4. }
    set (dc := new_column (q_precision conf) None).
    assert (Halloc : alloc_plain names conf = map (fun _ => dc) names).
    { unfold alloc_plain. now rewrite Hco. }
    (* the final state of every column *)
    set (fin := fun j => match scan_col dc (column_vals rows j) with Ok c => c | _ => dc end).
    set (finals := map fin (seq 0 (length names))).
    assert (Hfin : forall j, (j < length names)%nat ->
              scan_col dc (column_vals rows j) = Ok (nth j finals dc)
              /\ col_data (nth j finals dc) = Some (nth j ds (CInt []))
              /\ coldata_len (nth j ds (CInt [])) = length rows).
    { intros j Hj.
      pose proof (opt_all_nth (fun j => spec_column (column_vals rows j)) 0%nat (CInt []) _ _ C4 j) as Hs.
      rewrite seq_length in Hs. specialize (Hs Hj). rewrite seq_nth in Hs by lia. simpl in Hs.
      destruct (scan_col_spec _ _ _ Hp Hs) as (c & Hc & Hd & Hl).
      assert (Hn : nth j finals dc = c).
      { subst finals. rewrite nth_map_seq by exact Hj. unfold fin. fold dc in Hc. now rewrite Hc. }
      rewrite Hn. fold dc in Hc. repeat split; auto.
      rewrite Hl. unfold column_vals. now rewrite map_length. }
    assert (Hfinlen : length finals = length names) by (subst finals; now rewrite map_length, seq_length).
    assert (Hrun : run_rows (alloc_plain names conf) rows = Ok finals).
    { apply run_rows_cols with (dc := dc).
      - intros r Hr. rewrite Halloc, map_length. apply Nat.eqb_eq. now apply C1.
      - now rewrite Halloc, map_length.
      - rewrite Halloc, map_length. intros j Hj.
        rewrite nth_map_const by exact Hj. now apply Hfin. }
    unfold Sql.read_sql. simpl. unfold Sql.io_read_sql. simpl.
    destruct rows as [|r rs]; [simpl in C3; lia|].
    rewrite read_rows_first by exact Hco. rewrite Hrun. simpl.
    pose proof (result_map_spec finals names [] [] Hfinlen Hnd eq_refl) as Hrm. simpl in Hrm.
    rewrite Hrm. simpl.
    assert (Hmap : map col_data finals = map Some ds).
    { apply nth_ext with (d := col_data dc) (d' := Some (CInt [])).
      - now rewrite !map_length, Hfinlen.
      - intros j Hj. rewrite map_length, Hfinlen in Hj. rewrite !map_nth. now apply Hfin. }
    rewrite Hmap.
    (* qframe.New *)
    unfold qframe_new.
    set (data := combine names (map Some ds)).
    assert (Hfst : map fst data = names) by (unfold data; apply fst_combine; now rewrite map_length).
    assert (Hchk : forallb (fun p : bytes * option coldata => check_name (fst p)) data = true).
    { apply forallb_forall. intros p Hpin. rewrite forallb_forall in Hnames. apply Hnames.
      rewrite <- Hfst. now apply in_map. }
    rewrite Hchk. simpl.
    assert (Hdlen : length data = length names).
    { unfold data. rewrite combine_length, map_length, Hdslen. lia. }
    rewrite Hdlen, Nat.eqb_refl. simpl.
    assert (Hget : forall n d, In (n, d) (combine names ds) -> map_get data n = Some (Some d)).
    { intros n d Hin. apply map_get_in; [now rewrite Hfst|].
      unfold data. now apply in_combine_map_some. }
    assert (Hall : forallb (fun n => match map_get data n with Some _ => true | None => false end) names = true).
    { apply forallb_forall. intros n Hn.
      destruct (In_nth names n [] Hn) as (j & Hj & Hnth).
      assert (Hin : In (n, nth j ds (CInt [])) (combine names ds)).
      { rewrite <- Hnth. rewrite <- (combine_nth names ds j [] (CInt [])) by auto.
        apply nth_In. rewrite combine_length, Hdslen. lia. }
      now rewrite (Hget _ _ Hin). }
    rewrite Hall. simpl.
    apply new_columns_spec with (L := length (r :: rs)); auto.
    intros n d Hin. split; [now apply Hget|].
    destruct (In_nth _ _ ([], CInt []) Hin) as (j & Hj & Hnth).
    rewrite combine_length, Hdslen, Nat.min_id in Hj.
    rewrite combine_nth in Hnth by auto. injection Hnth as Hn Hd. rewrite <- Hd.
    now apply Hfin.
  Qed.
End ReadProofs.

(* ================================================================== round trip *)

Lemma opt_all_nth_error {A B} (g : A -> option B) : forall l r i x,
  opt_all (map g l) = Some r -> nth_error l i = Some x ->
  exists y, g x = Some y /\ nth_error r i = Some y.
Proof.
  induction l as [|a l IH]; intros r i x H Hx; [destruct i; discriminate|].
  simpl in H. apply opt_all_cons_inv in H as (b & r' & Hb & Hr & ->).
  destruct i; simpl in *.
  - inversion Hx; subst. eauto.
  - eauto.
Qed.

Lemma opt_all_id_nth_error {A} : forall (l : list (option A)) r i x,
  opt_all l = Some r -> nth_error l i = Some x -> exists y, x = Some y /\ nth_error r i = Some y.
Proof.
  intros l r i x H Hx. rewrite <- (map_id l) in H.
  destruct (opt_all_nth_error (fun o => o) l r i x H Hx) as (y & Hy & Hn). eauto.
Qed.

(* column j of the rows of a frame: the cells of column j along the index *)
Lemma column_vals_spec cols j c : nth_error cols j = Some c -> forall ix rows,
  opt_all (map (fun p => opt_all (map (fun c : bytes * coldata => spec_cell (snd c) p) cols)) ix) = Some rows ->
  Forall2 (fun p v => spec_cell (snd c) p = Some v) ix (column_vals rows j).
Proof.
  intros Hj. induction ix as [|p ix IH]; intros rows H; simpl in H.
  - inversion H. constructor.
  - apply opt_all_cons_inv in H as (r & rows' & Hr & Hrest & ->).
    simpl. constructor; auto.
    destruct (opt_all_nth_error _ _ _ _ _ Hr Hj) as (v & Hv & Hn).
    rewrite Hv. f_equal. symmetry. now apply nth_error_nth.
Qed.

(* the driver values a frame column can produce *)
Definition cell_kind_ok (c : coldata) (v : dval) : Prop :=
  match c, v with
  | CInt _, DInt _ | CFloat _, DFloat _ | CBool _, DBool _ => True
  | CStr _, DStr _ | CStr _, DNull | CEnum _ _, DStr _ | CEnum _ _, DNull => True
  | _, _ => False
  end.

Lemma spec_cell_kind c p v : spec_cell c p = Some v -> cell_kind_ok c v.
Proof.
  destruct c as [l|l|l|l|r vs]; simpl.
  - destruct (nth_error l p); simpl; intros H; inversion H; exact I.
  - destruct (nth_error l p); simpl; intros H; inversion H; exact I.
  - destruct (nth_error l p); simpl; intros H; inversion H; exact I.
  - destruct (nth_error l p) as [[s|]|]; simpl; intros H; inversion H; exact I.
  - destruct (nth_error r p) as [rk|]; [|discriminate]. destruct (N.eqb rk 255).
    + intros H; inversion H; exact I.
    + destruct (nth_error vs (N.to_nat rk)); simpl; intros H; inversion H; exact I.
Qed.

(* the values a result column holds unchanged *)
Definition canonical (d : coldata) (v : dval) : Prop :=
  match d, v with
  | CInt _, DInt _ | CFloat _, DFloat _ | CBool _, DBool _ | CStr _, DStr _ | CStr _, DNull => True
  | _, _ => False
  end.

Lemma find_some_in {A} (g : A -> bool) l x : find g l = Some x -> In x l /\ g x = true.
Proof. apply find_some. Qed.

Lemma spec_column_canonical c vals d :
  Forall (cell_kind_ok c) vals -> spec_column vals = Some d -> Forall (canonical d) vals.
Proof.
  intros Hk. unfold spec_column.
  destruct (find (fun v => negb (spec_is_null v)) vals) as [v0|] eqn:Ef; [|discriminate].
  apply find_some in Ef as [Hin Hnn]. rewrite Forall_forall in Hk. pose proof (Hk v0 Hin) as Hk0.
  intros H. apply Forall_forall. intros v Hv. specialize (Hk v Hv).
  destruct v0; try discriminate; simpl in Hnn.
  - destruct (opt_all _) in H; [|discriminate]. inversion H; subst.
    destruct c; try contradiction; destruct v; try contradiction; exact I.
  - destruct (opt_all _) in H; [|discriminate]. inversion H; subst.
    destruct c; try contradiction; destruct v; try contradiction; exact I.
  - destruct (opt_all _) in H; [|discriminate]. inversion H; subst.
    destruct c; try contradiction; destruct v; try contradiction; exact I.
  - destruct (opt_all _) in H; [|discriminate]. inversion H; subst.
    destruct c; try contradiction; destruct v; try contradiction; exact I.
  - destruct c; contradiction.
Qed.

Lemma spec_column_cell vals d i v :
  spec_column vals = Some d -> nth_error vals i = Some v -> canonical d v -> spec_cell d i = Some v.
Proof.
  unfold spec_column.
  destruct (find (fun v => negb (spec_is_null v)) vals) as [v0|]; [|discriminate].
  destruct v0; try discriminate.
  - destruct (opt_all _) as [zs|] eqn:E; [|discriminate]. intros H Hv Hc; inversion H; subst; clear H.
    destruct (opt_all_nth_error _ _ _ _ _ E Hv) as (zz & Hz & Hn).
    destruct v; try contradiction. simpl in *. inversion Hz; subst. now rewrite Hn.
  - destruct (opt_all _) as [zs|] eqn:E; [|discriminate]. intros H Hv Hc; inversion H; subst; clear H.
    destruct (opt_all_nth_error _ _ _ _ _ E Hv) as (zz & Hz & Hn).
    destruct v; try contradiction. simpl in *. inversion Hz; subst. now rewrite Hn.
  - destruct (opt_all _) as [zs|] eqn:E; [|discriminate]. intros H Hv Hc; inversion H; subst; clear H.
    destruct (opt_all_nth_error _ _ _ _ _ E Hv) as (zz & Hz & Hn).
    destruct v; try contradiction. simpl in *. inversion Hz; subst. now rewrite Hn.
  - destruct (opt_all _) as [zs|] eqn:E; [|discriminate]. intros H Hv Hc; inversion H; subst; clear H.
    destruct (opt_all_nth_error _ _ _ _ _ E Hv) as (zz & Hz & Hn).
    destruct v; try contradiction; simpl in *; inversion Hz; subst; now rewrite Hn.
  - destruct (opt_all _) as [zs|] eqn:E; [|discriminate]. intros H Hv Hc; inversion H; subst; clear H.
    destruct (opt_all_nth_error _ _ _ _ _ E Hv) as (zz & Hz & Hn).
    destruct v; try contradiction; simpl in *; inversion Hz; subst; now rewrite Hn.
Qed.

Lemma forall2_nth_error {A B} (P : A -> B -> Prop) l1 l2 i x :
  Forall2 P l1 l2 -> nth_error l1 i = Some x -> exists y, nth_error l2 i = Some y /\ P x y.
Proof.
  intros H. revert i. induction H as [|a b l1 l2 Hab H IH]; intros i Hx; destruct i; simpl in *; try discriminate.
  - inversion Hx; subst. eauto.
  - eauto.
Qed.

(* cell (i, j) of the frame the property demands after the round trip = cell of f at index[i] *)
Lemma spec_frame_cells f cols :
  spec_frame f = Some cols ->
  map fst cols = map fst (fcols f) /\
  forall j nd c i p,
    nth_error cols j = Some nd -> nth_error (fcols f) j = Some c -> nth_error (findex f) i = Some p ->
    spec_cell (snd nd) i = spec_cell (snd c) p.
Proof.
  unfold spec_frame. destruct (spec_rows f) as [rows|] eqn:Er; [|discriminate].
  unfold spec_read.
  destruct (negb (forallb _ rows)); [discriminate|].
  destruct (negb (nodupb _ && forallb check_name _)); [discriminate|].
  destruct (Nat.eqb (length rows) 0); [discriminate|].
  destruct (opt_all (map (fun j => spec_column (column_vals rows j)) (seq 0 (length (map fst (fcols f))))))
    as [ds|] eqn:C4; [|discriminate].
  simpl. intros H; inversion H; subst cols; clear H.
  assert (Hdslen : length ds = length (map fst (fcols f))).
  { apply opt_all_length in C4. now rewrite map_length, seq_length in C4. }
  split; [apply fst_combine; auto|].
  intros j nd c i p Hnd Hc Hp.
  assert (Hj : (j < length (map fst (fcols f)))%nat).
  { rewrite map_length. apply nth_error_Some. congruence. }
  (* the j-th result column *)
  assert (Hsj : nth_error (seq 0 (length (map fst (fcols f)))) j = Some j).
  { rewrite nth_error_nth' with (d := 0%nat) by (now rewrite seq_length). now rewrite seq_nth. }
  destruct (opt_all_nth_error _ _ _ _ _ C4 Hsj) as (d & Hd & Hdn).
  assert (Hndd : snd nd = d).
  { assert (Hx : nth_error (map snd (combine (map fst (fcols f)) ds)) j = Some (snd nd))
      by (now rewrite nth_error_map, Hnd).
    assert (Hsnd : map snd (combine (map fst (fcols f)) ds) = ds).
    { clear - Hdslen. revert ds Hdslen. induction (map fst (fcols f)) as [|x l IH]; intros [|y ds] H; simpl in *;
        try discriminate; auto. f_equal. apply IH. lia. }
    rewrite Hsnd in Hx. congruence. }
  rewrite Hndd.
  destruct f as [fc ix]. unfold spec_rows in Er. simpl in *.
  pose proof (column_vals_spec fc j c Hc ix rows Er) as HF.
  destruct (forall2_nth_error _ _ _ _ _ HF Hp) as (v & Hv & Hcell).
  rewrite Hcell.
  apply spec_column_cell with (vals := column_vals rows j); auto.
  assert (Hkind : Forall (cell_kind_ok (snd c)) (column_vals rows j)).
  { clear - HF. induction HF as [|p0 v0 l1 l2 H0 HF IH]; constructor; auto. eapply spec_cell_kind; eauto. }
  pose proof (spec_column_canonical _ _ _ Hkind Hd) as Hcan.
  rewrite Forall_forall in Hcan. apply Hcan. eapply nth_error_In; eauto.
Qed.

(* C19_roundtrip *)
Lemma roundtrip fixed pf f conf cols :
  q_coerce conf = None -> (q_precision conf <= 0)%Z ->
  spec_frame f = Some cols ->
  exists log,
    to_sql f conf (fun _ => true) = (log, SOk) /\
    length log = length (findex f) /\
    read_sql fixed pf conf (store_of (map fst (fcols f)) log) no_faults = Ok cols.
Proof.
  intros Hco Hp Hs. unfold spec_frame in Hs. destruct (spec_rows f) as [rows|] eqn:Er; [|discriminate].
  exists (map (mk_stmt f conf) rows). split; [now apply to_sql_statements|]. split.
  - rewrite map_length. now apply spec_rows_length.
  - unfold store_of. rewrite map_map. unfold mk_stmt. simpl. rewrite map_id.
    now apply read_sql_spec.
Qed.

(* ------------------------------------------------------------------ when is the round trip defined *)

(* a string / enum column needs a non-null cell among the rows of the frame *)
Definition has_value (c : coldata) (ix : list nat) : Prop :=
  match c with
  | CStr _ | CEnum _ _ => exists p s, In p ix /\ spec_cell c p = Some (DStr s)
  | _ => True
  end.

Lemma spec_column_defined c ix vals :
  Forall2 (fun p v => spec_cell c p = Some v) ix vals -> ix <> [] -> has_value c ix ->
  exists d, spec_column vals = Some d.
Proof.
  intros HF Hne Hv.
  assert (Hkind : Forall (cell_kind_ok c) vals).
  { clear - HF. induction HF as [|p0 v0 l1 l2 H0 HF IH]; constructor; auto. eapply spec_cell_kind; eauto. }
  assert (Hfind : exists v0, find (fun v => negb (spec_is_null v)) vals = Some v0).
  { destruct (find (fun v => negb (spec_is_null v)) vals) as [v0|] eqn:Ef; eauto.
    exfalso. pose proof (find_none _ _ Ef) as Hnone.
    destruct c as [l|l|l|l|r vs].
    1-3: destruct HF as [|p0 v0 l1 l2 H0 HF]; [congruence|];
         specialize (Hnone v0 (or_introl eq_refl)); apply spec_cell_kind in H0;
         destruct v0; simpl in *; try contradiction; discriminate.
    all: destruct Hv as (p & s & Hin & Hs);
         destruct (In_nth_error _ _ Hin) as [i Hi];
         destruct (forall2_nth_error _ _ _ _ _ HF Hi) as (v & Hvn & Hcell);
         rewrite Hs in Hcell; inversion Hcell; subst v;
         specialize (Hnone _ (nth_error_In _ _ Hvn)); simpl in Hnone; discriminate. }
  destruct Hfind as [v0 Ef]. unfold spec_column. rewrite Ef.
  apply find_some in Ef as [Hin Hnn]. rewrite Forall_forall in Hkind.
  pose proof (Hkind v0 Hin) as Hk0.
  destruct v0; simpl in Hnn; try discriminate.
  - destruct (opt_all_total to_int vals) as [r Hr]; [|unfold to_int in Hr; rewrite Hr; simpl; eauto].
    intros v Hvin. specialize (Hkind v Hvin). destruct c; try contradiction; destruct v; try contradiction; simpl; eauto.
  - destruct (opt_all_total to_float vals) as [r Hr]; [|unfold to_float in Hr; rewrite Hr; simpl; eauto].
    intros v Hvin. specialize (Hkind v Hvin). destruct c; try contradiction; destruct v; try contradiction; simpl; eauto.
  - destruct (opt_all_total to_bool vals) as [r Hr]; [|unfold to_bool in Hr; rewrite Hr; simpl; eauto].
    intros v Hvin. specialize (Hkind v Hvin). destruct c; try contradiction; destruct v; try contradiction; simpl; eauto.
  - destruct (opt_all_total to_str vals) as [r Hr]; [|unfold to_str in Hr; rewrite Hr; simpl; eauto].
    intros v Hvin. specialize (Hkind v Hvin). destruct c; try contradiction; destruct v; try contradiction; simpl; eauto.
  - destruct c; contradiction.
  - destruct c; contradiction.
Qed.

Lemma opt_all_row_length {A B} (g : A -> option B) l r : opt_all (map g l) = Some r -> length r = length l.
Proof. intros H. apply opt_all_length in H. now rewrite map_length in H. Qed.

(* the side conditions of the round trip, spelled out *)
Lemma spec_frame_defined f :
  frame_ok f -> findex f <> [] ->
  nodupb (map fst (fcols f)) = true -> forallb check_name (map fst (fcols f)) = true ->
  (forall c, In c (fcols f) -> has_value (snd c) (findex f)) ->
  exists cols, spec_frame f = Some cols.
Proof.
  intros Hok Hne Hnd Hnames Hval.
  destruct (frame_ok_rows f Hok) as [rows Er]. unfold spec_frame. rewrite Er. unfold spec_read.
  assert (Hrl : forall r, In r rows -> length r = length (fcols f)).
  { destruct f as [fc ix]. unfold spec_rows in Er. simpl in *. intros r Hr.
    destruct (In_nth_error _ _ Hr) as [i Hi].
    assert (Hlen : length rows = length ix) by (apply opt_all_row_length in Er; exact Er).
    destruct (nth_error ix i) as [p|] eqn:Ep.
    - destruct (opt_all_nth_error _ _ _ _ _ Er Ep) as (r' & Hr' & Hn). rewrite Hi in Hn. inversion Hn; subst.
      now apply opt_all_row_length in Hr'.
    - apply nth_error_None in Ep. assert (i < length rows)%nat by (apply nth_error_Some; congruence). lia. }
  replace (forallb (fun r => Nat.eqb (length r) (length (map fst (fcols f)))) rows) with true.
  2:{ symmetry. apply forallb_forall. intros r Hr. rewrite map_length. apply Nat.eqb_eq. auto. }
  rewrite Hnd, Hnames. simpl.
  assert (Hrows : length rows = length (findex f)) by (now apply spec_rows_length).
  replace (Nat.eqb (length rows) 0) with false.
  2:{ symmetry. apply Nat.eqb_neq. rewrite Hrows. destruct (findex f); simpl; congruence. }
  destruct (opt_all_total (fun j => spec_column (column_vals rows j)) (seq 0 (length (map fst (fcols f))))) as [ds Hds].
  - intros j Hj. apply in_seq in Hj. rewrite map_length in Hj.
    destruct (nth_error (fcols f) j) as [c|] eqn:Ec; [|apply nth_error_None in Ec; lia].
    destruct f as [fc ix]. unfold spec_rows in Er. simpl in *.
    eapply spec_column_defined with (c := snd c) (ix := ix); auto.
    + eapply column_vals_spec; eauto.
    + apply Hval. eapply nth_error_In; eauto.
  - rewrite Hds. simpl. eauto.
Qed.

(* ================================================================== decimal numbering of $i *)

Local Open Scope N_scope.

(* the number a string of ASCII digits denotes, continuing from a *)
Definition dec_value (a : N) (l : bytes) : N := fold_left (fun a d => 10 * a + (d - 48)) l a.

Lemma dec_value_app a l1 l2 : dec_value a (l1 ++ l2) = dec_value (dec_value a l1) l2.
Proof. unfold dec_value. apply fold_left_app. Qed.

Definition is_digit (d : N) : Prop := 48 <= d <= 57.

Lemma itoa_aux_spec : forall fuel n acc,
  n < 2 ^ N.of_nat fuel ->
  exists ds, itoa_aux fuel n acc = ds ++ acc
             /\ (forall a, dec_value a ds = a * 10 ^ N.of_nat (length ds) + n)
             /\ Forall is_digit ds.
Proof.
  induction fuel as [|fuel IH]; intros n acc Hn.
  - change (2 ^ N.of_nat 0) with 1 in Hn. assert (n = 0) by lia. subst. exists []. split; [reflexivity|].
    split; [intros a; unfold dec_value; cbn [fold_left length]; change (10 ^ N.of_nat 0) with 1; lia|constructor].
  - cbn [itoa_aux].
    assert (Hmod : n mod 10 < 10) by (apply N.mod_lt; lia).
    destruct (n <? 10) eqn:E.
    + apply N.ltb_lt in E. exists [48 + n mod 10]. split; [reflexivity|]. split.
      * intros a. unfold dec_value. cbn [fold_left length]. change (N.of_nat 1) with 1.
        rewrite N.pow_1_r. rewrite N.mod_small by lia. lia.
      * constructor; [unfold is_digit; lia|constructor].
    + apply N.ltb_ge in E.
      destruct (IH (n / 10) ((48 + n mod 10) :: acc)) as (ds & Hds & Hval & Hdig).
      { apply N.div_lt_upper_bound; [lia|].
        rewrite Nat2N.inj_succ, N.pow_succ_r' in Hn. lia. }
      exists (ds ++ [48 + n mod 10]). split; [rewrite Hds; now rewrite <- app_assoc|]. split.
      * intros a. rewrite dec_value_app, Hval. unfold dec_value. cbn [fold_left].
        rewrite app_length. cbn [length]. rewrite Nat.add_1_r, Nat2N.inj_succ, N.pow_succ_r'.
        pose proof (N.div_mod n 10 ltac:(lia)). nia.
      * apply Forall_app. split; auto. constructor; [unfold is_digit; lia|constructor].
Qed.

(* fmt.Sprintf("%d", n) in the model: ASCII digits that denote n *)
Lemma itoa_spec n : dec_value 0 (itoa n) = n /\ Forall is_digit (itoa n) /\ itoa n <> [].
Proof.
  unfold itoa.
  destruct (itoa_aux_spec (S (N.to_nat (N.log2 n))) n []) as (ds & Hds & Hval & Hdig).
  { rewrite Nat2N.inj_succ, N2Nat.id. destruct n as [|p]; [simpl; lia|].
    apply N.log2_spec. lia. }
  rewrite Hds, app_nil_r. split; [rewrite Hval; lia|]. split; auto.
  intros ->. specialize (Hval 0). unfold dec_value in Hval. cbn [fold_left length] in Hval.
  assert (n = 0) by lia. subst n. vm_compute in Hds. discriminate.
Qed.

(* ================================================================== ReadSQL never panics without coercion *)

Section ReadNoPanic.
  Variable fixed : N -> Z -> N.
  Variable pf : bytes -> option N.

  Lemma col_scan_no_panic c v : c_coerce c = None -> col_scan fixed pf c v <> Panic.
  Proof.
    intros Hco. unfold col_scan. rewrite Hco. destruct v; try discriminate.
    unfold col_null. destruct (c_kind c); discriminate.
  Qed.

  Lemma scan_row_no_panic : forall cols vals, no_co cols -> scan_row fixed pf cols vals <> Panic.
  Proof.
    induction cols as [|c cs IH]; intros vals Hno; destruct vals as [|v vs]; simpl; try discriminate.
    inversion Hno as [|? ? Hc Hcs]; subst.
    destruct (col_scan fixed pf c v) as [c1| |] eqn:E1; simpl; try discriminate.
    - destruct (scan_row fixed pf cs vs) as [cs1| |] eqn:E2; simpl; try discriminate.
      exfalso. eapply IH; eauto.
    - exfalso. eapply col_scan_no_panic; eauto.
  Qed.

  Definition st_ok (st : list column * list bytes) : Prop :=
    no_co (fst st) /\ (length (fst st) <= length (snd st))%nat.

  Lemma read_row_st_ok conf names st row :
    q_coerce conf = None -> st_ok st ->
    match read_row fixed pf conf names st row with
    | Ok st' => st_ok st'
    | Fail => True
    | Panic => False
    end.
  Proof.
    intros Hco [Hno Hlen]. destruct st as [columns colNames]. rewrite read_row_eq by exact Hco.
    set (cols0 := match columns with [] => alloc_plain names conf | _ => columns end).
    set (cn0 := match columns with [] => names | _ => colNames end).
    assert (Hno0 : no_co cols0) by (subst cols0; destruct columns; [now apply alloc_no_co|exact Hno]).
    assert (Hlen0 : (length cols0 <= length cn0)%nat).
    { subst cols0 cn0. destruct columns; [unfold alloc_plain; now rewrite map_length|exact Hlen]. }
    destruct (scan_row fixed pf cols0 row) as [cols'| |] eqn:E; simpl; auto.
    - split; simpl.
      + eapply scan_row_other; eauto.
      + rewrite (scan_row_length _ _ _ _ _ E). exact Hlen0.
    - eapply scan_row_no_panic; eauto.
  Qed.

  Lemma read_rows_st_ok conf names fail_at : q_coerce conf = None -> forall rows k st,
    st_ok st ->
    match read_rows fixed pf conf names fail_at k st rows with
    | Ok st' => st_ok st'
    | Fail => True
    | Panic => False
    end.
  Proof.
    intros Hco. induction rows as [|row rest IH]; intros k st Hst; simpl.
    - destruct (match fail_at with Some j => Nat.eqb j k | None => false end); auto.
    - destruct (match fail_at with Some j => Nat.eqb j k | None => false end); auto.
      pose proof (read_row_st_ok conf names st row Hco Hst) as Hr.
      destruct (read_row fixed pf conf names st row) as [st'| |]; simpl;
        [apply IH; exact Hr|exact I|exact Hr].
  Qed.

  Lemma result_map_no_panic : forall cs names i acc,
    (i + length cs <= length names)%nat -> result_map cs names i acc <> Panic.
  Proof.
    induction cs as [|c cs IH]; intros names i acc H; simpl; [discriminate|].
    simpl in H. unfold idx, of_option.
    destruct (nth_error names i) as [n|] eqn:E; simpl.
    - apply IH. lia.
    - apply nth_error_None in E. lia.
  Qed.

  Lemma new_columns_no_panic data : forall order i first, new_columns order data i first <> Panic.
  Proof.
    induction order as [|n rest IH]; intros i first; simpl; [discriminate|].
    destruct (map_get data n) as [[d|]|]; try discriminate.
    destruct (negb _); [discriminate|].
    destruct (new_columns rest data (S i) _) eqn:E; simpl; try discriminate.
    exfalso. eapply IH; eauto.
  Qed.

  Lemma qframe_new_no_panic data order : qframe_new data order <> Panic.
  Proof.
    unfold qframe_new.
    destruct (negb (forallb (fun p : bytes * option coldata => check_name (fst p)) data)); [discriminate|].
    destruct (negb (Nat.eqb (length order) (length data))); [discriminate|].
    destruct (negb (forallb _ order)); [discriminate|].
    apply new_columns_no_panic.
  Qed.

  (* without coercions ReadSQL never panics, with or without driver faults *)
  Lemma read_sql_no_panic conf rs flt :
    q_coerce conf = None -> read_sql fixed pf conf rs flt <> Panic.
  Proof.
    intros Hco. unfold read_sql. destruct (sf_prepare flt); [discriminate|].
    destruct (sf_query flt); [discriminate|]. unfold io_read_sql.
    pose proof (read_rows_st_ok conf (rs_names rs) (sf_row flt) Hco (rs_rows rs) 0%nat ([], [])) as Hr.
    destruct (read_rows fixed pf conf (rs_names rs) (sf_row flt) 0 ([], []) (rs_rows rs)) as [[cols cn]| |];
      simpl; try discriminate.
    - destruct Hr as [Hno Hlen]; [split; [constructor|simpl; lia]|]. simpl in *.
      destruct (result_map cols cn 0 []) as [m| |] eqn:Em; simpl; try discriminate.
      + apply qframe_new_no_panic.
      + exfalso. apply (result_map_no_panic cols cn 0%nat [] ltac:(simpl; lia) Em).
    - exfalso. apply Hr. split; [constructor|simpl; lia].
  Qed.
End ReadNoPanic.

Lemma outcome_fail {A} (o : outcome A) : (forall a, o <> Ok a) -> o <> Panic -> o = Fail.
Proof. destruct o; intros H1 H2; auto; [exfalso; eapply H1; eauto|congruence]. Qed.

Lemma read_sql_row_fault_fails fixed pf conf rs p q j :
  q_coerce conf = None -> (j <= length (rs_rows rs))%nat ->
  read_sql fixed pf conf rs (mkFaults p q (Some j)) = Fail.
Proof.
  intros Hco Hj. apply outcome_fail.
  - intros res. now apply read_sql_row_fault.
  - now apply read_sql_no_panic.
Qed.

Lemma read_sql_scan_fault_fails fixed pf conf rs row :
  q_coerce conf = None -> In row (rs_rows rs) -> In DOther row ->
  read_sql fixed pf conf rs no_faults = Fail.
Proof.
  intros Hco Hr Hv. apply outcome_fail.
  - intros res. eapply read_sql_scan_fault; eauto.
  - now apply read_sql_no_panic.
Qed.

Lemma frame_ok_rows_length (f : frame) :
  frame_ok f -> exists rows, spec_rows f = Some rows /\ length rows = length (findex f).
Proof.
  intros H. destruct (frame_ok_rows f H) as [rows Hr]. exists rows. split; [exact Hr|].
  exact (spec_rows_length f rows Hr).
Qed.

Lemma null_in_int_or_bool_rejected fixed pf (c : column) :
  c_coerce c = None -> c_kind c = KInt \/ c_kind c = KBool -> col_scan fixed pf c DNull = Fail.
Proof.
  intros Hco Hk. unfold col_scan. rewrite Hco. unfold col_null. destruct Hk as [-> | ->]; reflexivity.
Qed.
