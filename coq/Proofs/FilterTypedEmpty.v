(* Proofs/FilterTypedEmpty.v — C02 on frames without rows: whatever the clause, QFrame.Filter returns the
   frame itself or the frame with Err set (the row-wise specification has no row to judge the clause on).
   A model Panic is possible only through the case oracles (a like-matcher the case did not record). *)
From QF Require Import Base.Prelude Base.KernelSyntax Gen.GenConsts Gen.GenTables Gen.GenKernels.
From QF Require Import Model.Frame Model.Bits Model.Kernel Model.Filter Model.FilterSpec.
From QF Require Import Proofs.FilterProofs Proofs.FilterLeafProofs Proofs.FilterTyped Proofs.FilterTypedLeaf
                       Proofs.FilterTypedFrame.
Local Open Scope nat_scope.

Definition mask_result (r : outcome (list bool)) : Prop := r = Ok [] \/ r = Fail \/ r = Panic.

Lemma direct_empty env k : direct env [] [] k = Ok [] \/ direct env [] [] k = Panic.
Proof. destruct k; cbn [direct guarded_loop map]; auto. Qed.

Lemma run_empty letter fname env : mask_result (run letter fname env [] []).
Proof.
  unfold mask_result, run. destruct (kernel_named g_kernels (kname letter fname)) as [k|]; [|auto].
  rewrite run_kernel_direct.
  destruct k as [|v|pre e|pre c e|fn fl];
    try (match goal with |- context[direct ?e [] [] ?k] => destruct (direct_empty e k) as [E|E]; rewrite E; auto end).
  destruct (delegates letter fn) as [k'|]; [|auto].
  destruct (direct_empty env k') as [E|E]; rewrite E; auto.
Qed.

Lemma run_tbl_empty t letter cmp env : mask_result (run_tbl t letter cmp env [] []).
Proof. unfold run_tbl. destruct (assocb cmp t); [apply run_empty|unfold mask_result; auto]. Qed.

Ltac split_dispatch_goal :=
  repeat match goal with
         | |- context[match ?x with _ => _ end] =>
             lazymatch x with
             | run_tbl _ _ _ _ _ _ => fail
             | run _ _ _ _ _ => fail
             | _ => destruct x eqn:?
             end
         end.

Lemma col_filter_empty mt c cmp a : mask_result (col_filter mt c [] cmp a []).
Proof.
  unfold col_filter, i_filter_builtin, f_filter_builtin, b_filter_builtin, s_filter_builtin, e_filter_builtin.
  split_dispatch_goal;
    first [ apply run_tbl_empty | apply run_empty | unfold mask_result; cbn [map]; auto ].
Qed.

Lemma leaf_step_empty mt s' a cmp inv : mask_result (leaf_step mt [] s' a cmp inv []).
Proof.
  unfold leaf_step.
  assert (Hfb : mask_result (do inv0 <- col_filter mt s' [] cmp a (map (fun _ : bool => false) []);
                             Ok (map (fun xy : bool * bool => if fst xy then true else negb (snd xy)) (combine (@nil bool) inv0)))).
  { cbn [map]. destruct (col_filter_empty mt s' cmp a) as [E|[E|E]]; rewrite E; unfold mask_result; cbn [obind combine map]; auto. }
  destruct inv; [|apply col_filter_empty].
  destruct cmp as [sc|t tbl|t tbl|]; try exact Hfb.
  destruct (is_order_comparator sc); [exact Hfb|].
  destruct (assocb sc t_filter_inverse) as [sci|]; [|exact Hfb].
  destruct (col_filter_empty mt s' (CmpName sci) a) as [E|[E|E]]; rewrite E; [unfold mask_result; auto|exact Hfb|unfold mask_result; auto].
Qed.

Lemma filter_leaf_empty mt f l : ix f = [] -> mask_result (filter_leaf mt f l []).
Proof.
  intro Hix. rewrite filter_leaf_unfold, Hix.
  destruct (lookup_col f (lcol l)); [|unfold mask_result; auto].
  destruct (resolve f c (larg l)) as [[s' a]| |]; cbn [obind fst snd]; [apply leaf_step_empty|unfold mask_result; auto..].
Qed.

Lemma with_ix_nil f : ix f = [] -> with_ix f [] = f.
Proof. destruct f; simpl; intros ->; reflexivity. Qed.

Definition trivial_result (f : frame) (r : outcome frame) : Prop :=
  r = Ok f \/ r = Ok (with_err f) \/ r = Panic.

Section Empty.
  Variable mt : matcher_table.
  Variable f : frame.
  Hypothesis Hnoerr : ferr f = false.
  Hypothesis Hix : ix f = [].

  Lemma ofold_empty : forall ls, mask_result (ofold (fun b l => filter_leaf mt f l b) ls []).
  Proof.
    induction ls as [|l ls IH]; [left; reflexivity|].
    rewrite ofold_ok_step.
    destruct (filter_leaf_empty mt f l Hix) as [E|[E|E]]; rewrite E; cbn [obind]; [exact IH|right; left; reflexivity|right; right; reflexivity].
  Qed.

  Lemma filter_leaves_empty ls : trivial_result f (filter_leaves mt f ls).
  Proof.
    unfold filter_leaves. rewrite Hnoerr, Hix. cbn [map].
    destruct (ofold_empty ls) as [E|[E|E]]; rewrite E; unfold trivial_result.
    - cbn [index_filter obind]. rewrite (with_ix_nil f Hix). auto.
    - auto.
    - auto.
  Qed.

  Definition triv_frame (g : frame) : Prop := g = f \/ g = with_err f.

  Lemma sticky g : g = with_err f -> forall c, clause_filter mt c g = Ok g.
  Proof. intros -> c. apply err_sticky. reflexivity. Qed.

  Lemma triv_bind (r : outcome frame) (k : frame -> outcome frame) :
    trivial_result f r -> (forall g, triv_frame g -> trivial_result f (k g)) -> trivial_result f (do g <- r; k g).
  Proof.
    intros [ -> | [ -> | -> ] ] Hk; cbn [obind]; [apply Hk; left; reflexivity|apply Hk; right; reflexivity|right; right; reflexivity].
  Qed.

  Definition triv_clause (c : clause) : Prop := forall g, triv_frame g -> trivial_result f (clause_filter mt c g).

  Lemma and_loop_empty cs : Forall triv_clause cs ->
    forall g, triv_frame g -> trivial_result f (and_loop (fun c' g => clause_filter mt c' g) cs g).
  Proof.
    induction 1 as [|c cs Hc _ IH]; intros g Hg; cbn [and_loop].
    - destruct Hg as [ -> | -> ]; unfold trivial_result; auto.
    - apply triv_bind; [apply Hc; exact Hg|exact IH].
  Qed.

  Definition triv_acc (acc : option frame) : Prop := match acc with None => True | Some a => triv_frame a end.

  Lemma or_frames_triv acc nf : triv_acc acc -> triv_frame nf -> triv_frame (or_frames f acc nf).
  Proof.
    unfold or_frames. destruct acc as [a|]; intros Ha Hn; [|exact Hn].
    cbn [triv_acc] in Ha.
    destruct Ha as [ -> | -> ]; [|right; reflexivity].
    rewrite Hnoerr. destruct Hn as [ -> | -> ]; [|right; reflexivity].
    rewrite Hnoerr, Hix. cbn [or_merge]. left. apply with_ix_nil. exact Hix.
  Qed.

  Lemma flush_empty pending acc : triv_acc acc ->
    (match pending with
     | [] => Ok acc
     | _ => do nf <- filter_leaves mt f (rev pending); Ok (Some (or_frames f acc nf))
     end) = Panic
    \/ exists acc', (match pending with
                     | [] => Ok acc
                     | _ => do nf <- filter_leaves mt f (rev pending); Ok (Some (or_frames f acc nf))
                     end) = Ok acc' /\ triv_acc acc'.
  Proof.
    intro Ha. destruct pending as [|l0 pending']; [right; exists acc; split; [reflexivity|exact Ha]|].
    destruct (filter_leaves_empty (rev (l0 :: pending'))) as [E|[E|E]]; rewrite E; cbn [obind].
    - right. eexists. split; [reflexivity|]. cbn [triv_acc]. apply or_frames_triv; [exact Ha|left; reflexivity].
    - right. eexists. split; [reflexivity|]. cbn [triv_acc]. apply or_frames_triv; [exact Ha|right; reflexivity].
    - left. reflexivity.
  Qed.

  Lemma or_loop_empty : forall cs pending acc, Forall triv_clause cs -> triv_acc acc ->
    trivial_result f (or_loop mt (fun c' g => clause_filter mt c' g) f cs pending acc).
  Proof.
    induction cs as [|c cs IH]; intros pending acc Hcs Ha.
    - cbn [or_loop]. destruct (flush_empty pending acc Ha) as [E|[acc' [E Ha']]]; rewrite E; cbn [obind].
      + right; right; reflexivity.
      + destruct acc' as [a|]; [|right; right; reflexivity]. cbn [triv_acc] in Ha'.
        destruct Ha' as [ -> | -> ]; unfold trivial_result; auto.
    - inversion Hcs as [|? ? Hc Hcs']; subst.
      assert (NonLeaf :
        trivial_result f
          (do acc' <- (match pending with
                       | [] => Ok acc
                       | _ => do nf <- filter_leaves mt f (rev pending); Ok (Some (or_frames f acc nf))
                       end);
           do nf <- clause_filter mt c f;
           or_loop mt (fun c' g => clause_filter mt c' g) f cs [] (Some (or_frames f acc' nf)))).
      { destruct (flush_empty pending acc Ha) as [E|[acc' [E Ha']]]; rewrite E; cbn [obind]; [right; right; reflexivity|].
        apply triv_bind; [apply Hc; left; reflexivity|].
        intros nf Hnf. apply IH; [exact Hcs'|]. cbn [triv_acc]. apply or_frames_triv; assumption. }
      destruct c as [l|cs'|cs'|c'|]; cbn [or_loop]; try exact NonLeaf.
      apply IH; assumption.
  Qed.

  Theorem clause_filter_empty c : triv_clause c.
  Proof.
    induction c as [l| |c IH|cs IH|cs IH] using clause_ind2; intros g Hg.
    - destruct Hg as [->|Hg]; [cbn [clause_filter]; apply filter_leaves_empty|].
      rewrite (sticky g Hg). subst g. unfold trivial_result; auto.
    - cbn [clause_filter]. destruct Hg as [ -> | -> ]; unfold trivial_result; auto.
    - destruct Hg as [->|Hg]; [|rewrite (sticky g Hg); subst g; unfold trivial_result; auto].
      cbn [clause_filter]. rewrite Hnoerr.
      destruct (clause_err (CNot c)); [unfold trivial_result; auto|].
      assert (Gen : trivial_result f (do nf <- clause_filter mt c f;
                                      if ferr nf then Ok nf else Ok (with_ix f (not_merge (ix f) (ix nf))))).
      { apply triv_bind; [apply IH; left; reflexivity|].
        intros nf [ -> | -> ].
        - rewrite Hnoerr, Hix. cbn [not_merge]. rewrite (with_ix_nil f Hix). unfold trivial_result; auto.
        - cbn [ferr with_err]. unfold trivial_result; auto. }
      destruct c as [l|cs'|cs'|c'|]; try exact Gen. apply filter_leaves_empty.
    - destruct Hg as [->|Hg]; [|rewrite (sticky g Hg); subst g; unfold trivial_result; auto].
      cbn [clause_filter]. rewrite Hnoerr.
      destruct (clause_err (CAnd cs)); [unfold trivial_result; auto|].
      apply and_loop_empty; [exact IH|left; reflexivity].
    - destruct Hg as [->|Hg]; [|rewrite (sticky g Hg); subst g; unfold trivial_result; auto].
      cbn [clause_filter]. rewrite Hnoerr.
      destruct (clause_err (COr cs)); [unfold trivial_result; auto|].
      apply or_loop_empty; [exact IH|exact I].
  Qed.

  (* QFrame.Filter on a frame without rows: the frame itself, or the frame with Err set *)
  Theorem filter_empty c : trivial_result f (frame_filter mt f c).
  Proof. unfold frame_filter. rewrite Hnoerr. apply clause_filter_empty. left. reflexivity. Qed.
End Empty.
