(* Proofs/RyuAppendF.v — dec64.appendF writes exactly the positional rendering, whatever the buffer state;
   decimalLen64 is the number of decimal digits; the rendering denotes m * 10^e. *)
From QF Require Import Base.Prelude Gen.GenConsts Gen.GenRyu Model.Ryu Proofs.RyuTables.
Local Open Scope N_scope.

(* ------------------------------------------------------------------ number of digits *)

Lemma pow10_succ (n : N) : 1 <= n -> 10 ^ n = 10 * 10 ^ (n - 1).
Proof.
  intro H. replace n with (N.succ (n - 1)) at 1 by lia. apply N.pow_succ_r'.
Qed.

Lemma ndig_aux_spec : forall fuel m,
  0 < m -> m < 2 ^ N.of_nat fuel ->
  (1 <= ndig_aux fuel m)%nat /\
  10 ^ (N.of_nat (ndig_aux fuel m) - 1) <= m /\ m < 10 ^ N.of_nat (ndig_aux fuel m).
Proof.
  induction fuel as [|f IH]; intros m Hm Hf.
  - cbn in Hf. lia.
  - cbn [ndig_aux]. destruct (m <? 10) eqn:E.
    + apply N.ltb_lt in E. cbn. lia.
    + apply N.ltb_ge in E.
      assert (Hd : 0 < m / 10) by (apply N.div_str_pos; lia).
      assert (Hf' : m / 10 < 2 ^ N.of_nat f).
      { apply N.div_lt_upper_bound; [lia|].
        rewrite Nat2N.inj_succ, N.pow_succ_r' in Hf. lia. }
      destruct (IH (m / 10) Hd Hf') as (H1 & H2 & H3).
      set (n := ndig_aux f (m / 10)) in *.
      split; [lia|].
      pose proof (N.div_mod m 10 ltac:(lia)) as DM.
      pose proof (N.mod_upper_bound m 10 ltac:(lia)) as MU.
      replace (N.of_nat (S n) - 1) with (N.of_nat n) by lia.
      rewrite (pow10_succ (N.of_nat (S n))) by lia.
      replace (N.of_nat (S n) - 1) with (N.of_nat n) by lia.
      rewrite (pow10_succ (N.of_nat n)) by lia.
      rewrite (pow10_succ (N.of_nat n)) in H3 by lia.
      split; lia.
Qed.

Lemma ndig_spec (m : N) : 0 < m ->
  (1 <= ndig m)%nat /\ 10 ^ (N.of_nat (ndig m) - 1) <= m /\ m < 10 ^ N.of_nat (ndig m).
Proof.
  intro H. unfold ndig. apply ndig_aux_spec; [exact H|].
  rewrite N2Nat.id. apply N.size_gt.
Qed.

Lemma ndig_unique (m : N) (n : nat) :
  0 < m -> (1 <= n)%nat -> 10 ^ (N.of_nat n - 1) <= m -> m < 10 ^ N.of_nat n -> ndig m = n.
Proof.
  intros Hm Hn H1 H2. destruct (ndig_spec m Hm) as (A0 & A1 & A2).
  destruct (lt_eq_lt_dec (ndig m) n) as [[L|E]|L]; [|exact E|]; exfalso.
  - assert (10 ^ N.of_nat (ndig m) <= 10 ^ (N.of_nat n - 1)) by (apply N.pow_le_mono_r; lia). lia.
  - assert (10 ^ N.of_nat n <= 10 ^ (N.of_nat (ndig m) - 1)) by (apply N.pow_le_mono_r; lia). lia.
Qed.

(* ------------------------------------------------------------------ decimalLen64 *)

(* per bit length s: t = s*1233 >> 12 indexes the table at 10^t, 2^s <= 10^(t+1) and 10^(t-1) <= 2^(s-1) *)
Definition declen_check (s : N) : bool :=
  let t := Z.shiftr (Z.of_N s * c_declen_mul) c_declen_shift in
  match idxZ g_powersOf10 t with
  | Ok p => (0 <=? t)%Z && (p =? 10 ^ Z.to_N t) && (2 ^ s <=? 10 * p) && (p <=? 10 * 2 ^ (s - 1))
  | _ => false
  end.

Lemma declen_sweep : forallb declen_check (map N.of_nat (seq 1 59)) = true.
Proof. vm_compute. reflexivity. Qed.

(* decimalLen64 u is the number of decimal digits of u for every u with at most 59 bits (the powersOf10
   table has 18 entries, which is what bit lengths up to 59 index); in particular for all u < 10^17. *)
Theorem decimalLen64_ok59 (u : N) :
  0 < u -> u < 2 ^ 59 -> decimalLen64 u = Ok (Z.of_nat (ndig u)).
Proof.
  intros H0 H1.
  set (s := N.size u).
  assert (Hs1 : 1 <= s). { unfold s. destruct u; [lia|]. cbn. lia. }
  assert (Hs2 : s <= 59).
  { unfold s. pose proof (N.size_le u) as L. rewrite N.succ_double_spec in L.
    destruct (N.le_gt_cases (N.size u) 59) as [?|G]; [assumption|].
    exfalso. assert (2 ^ 60 <= 2 ^ N.size u) by (apply N.pow_le_mono_r; lia).
    change (2 ^ 60) with (2 * 2 ^ 59) in H. lia. }
  assert (Hlo : 2 ^ (s - 1) <= u).
  { pose proof (N.size_le u) as L. rewrite N.succ_double_spec in L. unfold s.
    replace (N.size u) with (N.succ (N.size u - 1)) in L by (fold s; lia).
    rewrite N.pow_succ_r' in L. lia. }
  assert (Hhi : u < 2 ^ s) by apply N.size_gt.
  pose proof declen_sweep as SW. rewrite forallb_forall in SW.
  assert (IN : In s (map N.of_nat (seq 1 59))).
  { apply in_map_iff. exists (N.to_nat s). split; [lia|]. apply in_seq. lia. }
  specialize (SW s IN). unfold declen_check in SW.
  unfold decimalLen64. fold s.
  replace (Z.of_N s - 1 + 1)%Z with (Z.of_N s) by lia.
  set (t := Z.shiftr (Z.of_N s * c_declen_mul) c_declen_shift) in *.
  destruct (idxZ g_powersOf10 t) as [p| |]; try discriminate.
  apply andb_true_iff in SW as [SW S4]. apply andb_true_iff in SW as [SW S3].
  apply andb_true_iff in SW as [S1 S2].
  apply Z.leb_le in S1. apply N.eqb_eq in S2. apply N.leb_le in S3, S4.
  cbn [obind]. f_equal.
  destruct (u <? p) eqn:E.
  - apply N.ltb_lt in E. cbn [b2n].
    assert (T1 : (1 <= t)%Z).
    { destruct (Z.eq_dec t 0) as [Z0|]; [|lia]. rewrite Z0 in S2. cbn in S2. lia. }
    assert (EN : ndig u = Z.to_nat t).
    { apply ndig_unique; [lia|lia| |].
      - replace (N.of_nat (Z.to_nat t)) with (Z.to_N t) by lia.
        rewrite (pow10_succ (Z.to_N t)) in S2 by lia. lia.
      - replace (N.of_nat (Z.to_nat t)) with (Z.to_N t) by lia. lia. }
    rewrite EN. lia.
  - apply N.ltb_ge in E. cbn [b2n].
    assert (EN : ndig u = S (Z.to_nat t)).
    { apply ndig_unique; [lia|lia| |].
      - replace (N.of_nat (S (Z.to_nat t)) - 1) with (Z.to_N t) by lia. lia.
      - replace (N.of_nat (S (Z.to_nat t))) with (N.succ (Z.to_N t)) by lia.
        rewrite N.pow_succ_r'. lia. }
    rewrite EN. lia.
Qed.

Theorem decimalLen64_ok (u : N) :
  0 < u -> u < 10 ^ 17 -> decimalLen64 u = Ok (Z.of_nat (ndig u)).
Proof.
  intros H0 H1. apply decimalLen64_ok59; [exact H0|].
  assert (10 ^ 17 < 2 ^ 59) by (vm_compute; reflexivity). lia.
Qed.

(* ------------------------------------------------------------------ digit strings *)

Lemma lowdigits_length n m : length (lowdigits n m) = n.
Proof.
  revert m; induction n as [|n IH]; intro m; [reflexivity|].
  cbn [lowdigits]. rewrite app_length, IH. cbn. lia.
Qed.

Lemma lowdigits_zero n : lowdigits n 0 = repeat 48 n.
Proof.
  induction n as [|n IH]; [reflexivity|].
  cbn [lowdigits]. change (0 / 10) with 0. change (48 + 0 mod 10) with 48. rewrite IH.
  clear IH. induction n as [|n IH]; [reflexivity|]. cbn [repeat app]. rewrite IH. reflexivity.
Qed.

(* lowdigits (a + b) m = lowdigits a (m / 10^b) ++ lowdigits b m *)
Lemma lowdigits_split : forall b a m,
  lowdigits (a + b) m = lowdigits a (m / 10 ^ N.of_nat b) ++ lowdigits b m.
Proof.
  induction b as [|b IH]; intros a m.
  - rewrite Nat.add_0_r. cbn [lowdigits]. change (10 ^ N.of_nat 0) with 1. rewrite N.div_1_r, app_nil_r. reflexivity.
  - replace (a + S b)%nat with (S (a + b)) by lia. cbn [lowdigits].
    rewrite IH, app_assoc. f_equal. f_equal.
    rewrite Nat2N.inj_succ, N.pow_succ_r', N.div_div by (try apply N.pow_nonzero; lia). reflexivity.
Qed.

Lemma lowdigits_pad (j L : nat) (m : N) :
  m < 10 ^ N.of_nat L -> lowdigits (j + L) m = repeat 48 j ++ lowdigits L m.
Proof.
  intro H. rewrite lowdigits_split, N.div_small by exact H. rewrite lowdigits_zero. reflexivity.
Qed.

Lemma digits_length m : length (digits m) = ndig m.
Proof. apply lowdigits_length. Qed.

(* ------------------------------------------------------------------ buffer primitives *)

Lemma set_nth_opt_app (P : bytes) x C v : set_nth_opt (P ++ x :: C) (length P) v = Some (P ++ v :: C).
Proof. induction P as [|y P IH]; cbn; [reflexivity|]. rewrite IH. reflexivity. Qed.

Lemma bset_app (P : bytes) x C v : bset (P ++ x :: C) (Z.of_nat (length P)) v = Ok (P ++ v :: C).
Proof.
  unfold bset. destruct (Z.of_nat (length P) <? 0)%Z eqn:E; [lia|].
  rewrite Nat2Z.id, set_nth_opt_app. reflexivity.
Qed.

Lemma digit_byte out : u8 (ch_0 + u8 (out mod 10)) = 48 + out mod 10.
Proof.
  unfold u8, ch_0. pose proof (N.mod_upper_bound out 10 ltac:(lia)).
  rewrite (N.mod_small (out mod 10) 256) by lia. apply N.mod_small. lia.
Qed.

Lemma write_zeros_app : forall k A M C, length M = k ->
  write_zeros (A ++ M ++ C) (Z.of_nat (length A)) k = Ok (A ++ repeat ch_0 k ++ C).
Proof.
  induction k as [|k IH]; intros A M C HM.
  - destruct M; [reflexivity|discriminate].
  - destruct M as [|x M]; [discriminate|]. cbn [write_zeros].
    change ((x :: M) ++ C) with (x :: (M ++ C)). rewrite bset_app. cbn [obind].
    replace (A ++ ch_0 :: M ++ C) with ((A ++ [ch_0]) ++ M ++ C) by (rewrite <- app_assoc; reflexivity).
    replace (Z.of_nat (length A) + 1)%Z with (Z.of_nat (length (A ++ [ch_0])))
      by (rewrite app_length; cbn; lia).
    rewrite IH by (cbn in HM; lia). rewrite <- app_assoc. reflexivity.
Qed.

Lemma split_last (k : nat) (M : bytes) :
  length M = S k -> exists M' x, M = M' ++ [x] /\ length M' = k.
Proof.
  intro H. destruct (@exists_last _ M) as (M' & x & E).
  - intro Z0; subst; discriminate.
  - exists M', x. split; [exact E|]. subst M. rewrite app_length in H. cbn in H. lia.
Qed.

Lemma write_digits_app : forall k A M C out, length M = k ->
  write_digits (A ++ M ++ C) (Z.of_nat (length A + k) - 1) out k
  = Ok (A ++ lowdigits k out ++ C, out / 10 ^ N.of_nat k, (Z.of_nat (length A) - 1)%Z).
Proof.
  induction k as [|k IH]; intros A M C out HM.
  - destruct M; [|discriminate]. cbn [write_digits lowdigits app].
    change (10 ^ N.of_nat 0) with 1. rewrite N.div_1_r. do 2 f_equal. lia.
  - destruct (split_last k M HM) as (M' & x & -> & HM').
    cbn [write_digits].
    replace (A ++ (M' ++ [x]) ++ C) with ((A ++ M') ++ x :: C)
      by (rewrite <- !app_assoc; reflexivity).
    replace (Z.of_nat (length A + S k) - 1)%Z with (Z.of_nat (length (A ++ M')))
      by (rewrite app_length; lia).
    rewrite bset_app. cbn [obind].
    replace (Z.of_nat (length (A ++ M')) - 1)%Z with (Z.of_nat (length A + k) - 1)%Z
      by (rewrite app_length; lia).
    rewrite <- app_assoc. rewrite (IH A M' _ (out / 10) HM').
    rewrite digit_byte. cbn [lowdigits]. rewrite <- !app_assoc. cbn [app].
    rewrite Nat2N.inj_succ, N.pow_succ_r', N.div_div by (try apply N.pow_nonzero; lia). reflexivity.
Qed.

Lemma go_append_data g b xs : bdata (go_append g b xs) = bdata b ++ xs.
Proof. unfold go_append. destruct (_ <=? _)%nat; reflexivity. Qed.

Lemma sizeSlice_ok g b n : (0 <= n)%Z ->
  exists X sp, sizeSlice g b n = Ok {| bdata := bdata b ++ X; bspare := sp |} /\ length X = Z.to_nat n.
Proof.
  intro H. unfold sizeSlice. destruct (n <? 0)%Z eqn:E; [lia|].
  destruct (Z.to_nat n <=? length (bspare b))%nat eqn:L.
  - apply Nat.leb_le in L. eexists _, _. split; [reflexivity|]. apply firstn_length_le. exact L.
  - unfold go_append. rewrite repeat_length, L. eexists _, _. split; [reflexivity|]. apply repeat_length.
Qed.

Lemma split_length (X : bytes) (a b : nat) :
  length X = (a + b)%nat -> exists X1 X2, X = X1 ++ X2 /\ length X1 = a /\ length X2 = b.
Proof.
  intro H. exists (firstn a X), (skipn a X). split; [symmetry; apply firstn_skipn|].
  split; [apply firstn_length_le; lia|]. rewrite skipn_length. lia.
Qed.

(* ------------------------------------------------------------------ appendF *)

(* the layout after the optional sign *)
Lemma appendF_pos g (b : buf) (m : N) (e : Z) :
  0 < m -> m < 2 ^ 59 ->
  exists sp, appendF g b m e false = Ok {| bdata := bdata b ++ positional m e; bspare := sp |}.
Proof.
  intros H0 H1. unfold appendF. rewrite decimalLen64_ok59 by assumption. cbn [obind].
  destruct (ndig_spec m H0) as (L1 & L2 & L3).
  set (L := ndig m) in *.
  unfold positional. rewrite digits_length. fold L. unfold digits. fold L.
  destruct (0 <=? e)%Z eqn:E0.
  - (* XYZ000 *)
    apply Z.leb_le in E0.
    destruct (sizeSlice_ok g b (e + Z.of_nat L) ltac:(lia)) as (X & sp & -> & HX). cbn [obind bdata].
    destruct (split_length X L (Z.to_nat e) ltac:(lia)) as (X1 & X2 & -> & HX1 & HX2).
    replace (bdata b ++ X1 ++ X2) with ((bdata b ++ X1) ++ X2 ++ []) by (rewrite app_nil_r, app_assoc; reflexivity).
    replace (Z.of_nat L + Z.of_nat (length (bdata b)))%Z with (Z.of_nat (length (bdata b ++ X1)))
      by (rewrite app_length; lia).
    rewrite write_zeros_app by exact HX2. cbn [obind]. rewrite app_nil_r, <- app_assoc.
    replace (Z.of_nat (length (bdata b)) + Z.of_nat L - 1)%Z with (Z.of_nat (length (bdata b) + L) - 1)%Z by lia.
    rewrite Nat2Z.id.
    rewrite (write_digits_app L (bdata b) X1 _ m HX1). cbn [obind fst with_data bdata bspare].
    eexists. reflexivity.
  - apply Z.leb_gt in E0.
    destruct (Z.of_nat L <=? - e)%Z eqn:E1.
    + (* 0.000XYZ *)
      apply Z.leb_le in E1.
      set (b0 := go_append g b [ch_0; ch_dot]).
      destruct (sizeSlice_ok g b0 (- e) ltac:(lia)) as (X & sp & -> & HX). cbn [obind bdata].
      unfold b0 at 1 2. rewrite !go_append_data.
      replace ((bdata b ++ [ch_0; ch_dot]) ++ X) with ((bdata b ++ [ch_0; ch_dot]) ++ X ++ [])
        by (rewrite app_nil_r; reflexivity).
      replace (Z.of_nat (length (bdata b ++ [ch_0; ch_dot])) + - e - 1)%Z
        with (Z.of_nat (length (bdata b ++ [ch_0; ch_dot]) + Z.to_nat (- e)) - 1)%Z by lia.
      rewrite (write_digits_app (Z.to_nat (- e)) _ X [] m HX). cbn [obind fst with_data bdata bspare].
      rewrite app_nil_r.
      replace (Z.to_nat (- e)) with (Z.to_nat (- e - Z.of_nat L) + L)%nat by lia.
      rewrite lowdigits_pad by exact L3.
      rewrite <- app_assoc. eexists. reflexivity.
    + (* X.YZ *)
      apply Z.leb_gt in E1.
      destruct (sizeSlice_ok g b (Z.of_nat L + 1) ltac:(lia)) as (X & sp & -> & HX). cbn [obind bdata].
      set (p := Z.to_nat (- e)). set (a := Z.to_nat (Z.of_nat L + e)).
      assert (HL : L = (a + p)%nat) by (unfold a, p; lia).
      destruct (split_length X (a + 1) p ltac:(lia)) as (X1 & X2 & -> & HX1 & HX2).
      destruct (split_last a X1 ltac:(lia)) as (X1' & y & -> & HX1').
      replace (bdata b ++ (X1' ++ [y]) ++ X2) with ((bdata b ++ X1' ++ [y]) ++ X2 ++ [])
        by (rewrite app_nil_r, <- !app_assoc; reflexivity).
      replace (Z.of_nat (length ((bdata b ++ X1' ++ [y]) ++ X2 ++ [])) - 1)%Z
        with (Z.of_nat (length (bdata b ++ X1' ++ [y]) + p) - 1)%Z
        by (rewrite !app_length; cbn [length]; lia).
      rewrite (write_digits_app p _ X2 [] m HX2). cbn [obind].
      rewrite app_nil_r.
      replace ((bdata b ++ X1' ++ [y]) ++ lowdigits p m) with ((bdata b ++ X1') ++ y :: lowdigits p m)
        by (rewrite <- !app_assoc; reflexivity).
      replace (Z.of_nat (length (bdata b ++ X1' ++ [y])) - 1)%Z with (Z.of_nat (length (bdata b ++ X1')))
        by (rewrite !app_length; cbn [length]; lia).
      rewrite bset_app. cbn [obind].
      replace ((bdata b ++ X1') ++ ch_dot :: lowdigits p m) with (bdata b ++ X1' ++ (ch_dot :: lowdigits p m))
        by (rewrite <- app_assoc; reflexivity).
      replace (Z.of_nat (length (bdata b ++ X1')) - 1)%Z with (Z.of_nat (length (bdata b) + a) - 1)%Z
        by (rewrite app_length; lia).
      match goal with |- context [write_digits _ _ _ (Z.to_nat ?c)] =>
        replace (Z.to_nat c) with a by (rewrite ?app_length; cbn [length]; lia) end.
      rewrite (write_digits_app a (bdata b) X1' _ _ HX1'). cbn [obind fst with_data bdata bspare].
      fold a. rewrite HL, lowdigits_split.
      rewrite firstn_app, lowdigits_length, Nat.sub_diag, firstn_O, app_nil_r.
      rewrite firstn_all2 by (rewrite lowdigits_length; lia).
      rewrite skipn_app, lowdigits_length, Nat.sub_diag, skipn_O.
      rewrite skipn_all2 by (rewrite lowdigits_length; lia). cbn [app].
      rewrite app_nil_r. unfold with_data. cbn [bdata bspare]. eexists. reflexivity.
Qed.

(* appendF appends render_f neg m e and nothing else: for every growth behaviour g of the runtime and every
   buffer b — i.e. whatever the length, the capacity and the stale bytes of the spare capacity are. *)
Theorem appendF_ok59 g (b : buf) (m : N) (e : Z) (neg : bool) :
  0 < m -> m < 2 ^ 59 ->
  exists sp, appendF g b m e neg = Ok {| bdata := bdata b ++ render_f neg m e; bspare := sp |}.
Proof.
  intros H0 H1. destruct neg.
  - destruct (appendF_pos g (go_append g b [ch_minus]) m e H0 H1) as (sp & E).
    exists sp. unfold render_f. rewrite go_append_data, <- app_assoc in E. exact E.
  - destruct (appendF_pos g b m e H0 H1) as (sp & E). exists sp. exact E.
Qed.

Theorem appendF_ok g (b : buf) (m : N) (e : Z) (neg : bool) :
  0 < m -> m < 10 ^ 17 ->
  exists sp, appendF g b m e neg = Ok {| bdata := bdata b ++ render_f neg m e; bspare := sp |}.
Proof.
  intros H0 H1. apply appendF_ok59; [exact H0|].
  assert (10 ^ 17 < 2 ^ 59) by (vm_compute; reflexivity). lia.
Qed.

(* independence of the stale bytes, stated directly: two buffers with the same contents give the same contents *)
Corollary appendF_garbage_independent g g' (d sp sp' : bytes) (m : N) (e : Z) (neg : bool) :
  0 < m -> m < 10 ^ 17 ->
  exists r r', appendF g {| bdata := d; bspare := sp |} m e neg = Ok r /\
               appendF g' {| bdata := d; bspare := sp' |} m e neg = Ok r' /\ bdata r = bdata r'.
Proof.
  intros H0 H1.
  destruct (appendF_ok g {| bdata := d; bspare := sp |} m e neg H0 H1) as (s1 & E1).
  destruct (appendF_ok g' {| bdata := d; bspare := sp' |} m e neg H0 H1) as (s2 & E2).
  eexists _, _. split; [exact E1|]. split; [exact E2|]. reflexivity.
Qed.

(* ------------------------------------------------------------------ what the rendering denotes *)

Lemma parse_digits_low : forall n m rest acc cnt,
  parse_digits (lowdigits n m ++ rest) acc cnt
  = parse_digits rest (acc * 10 ^ N.of_nat n + m mod 10 ^ N.of_nat n) (cnt + Z.of_nat n)%Z.
Proof.
  induction n as [|n IH]; intros m rest acc cnt.
  - cbn [lowdigits app]. change (10 ^ N.of_nat 0) with 1. rewrite N.mod_1_r.
    f_equal; lia.
  - cbn [lowdigits]. rewrite <- app_assoc. rewrite IH. cbn [app parse_digits].
    pose proof (N.mod_upper_bound m 10 ltac:(lia)) as MU.
    replace ((48 <=? 48 + m mod 10) && (48 + m mod 10 <=? 57)) with true
      by (symmetry; apply andb_true_iff; split; apply N.leb_le; lia).
    f_equal; [|lia].
    rewrite Nat2N.inj_succ, N.pow_succ_r'.
    rewrite (N.mod_mul_r m 10 (10 ^ N.of_nat n)) by (try apply N.pow_nonzero; lia).
    lia.
Qed.

Lemma parse_digits_zeros k rest acc cnt :
  parse_digits (repeat 48 k ++ rest) acc cnt = parse_digits rest (acc * 10 ^ N.of_nat k) (cnt + Z.of_nat k)%Z.
Proof.
  rewrite <- lowdigits_zero, parse_digits_low. rewrite N.mod_0_l by (apply N.pow_nonzero; lia).
  f_equal. lia.
Qed.

(* The text denotes exactly m * 10^e: read back as (all digits as one number, digits after the point) it is
   (m * 10^e, 0) for e >= 0 and (m, -e) for e < 0 — in the second case the value is m / 10^(-e). *)
Theorem positional_value (m : N) (e : Z) :
  0 < m ->
  dec_parse (positional m e) = Some (if (0 <=? e)%Z then (m * 10 ^ Z.to_N e, 0%Z) else (m, (- e)%Z)).
Proof.
  intro H0. destruct (ndig_spec m H0) as (L1 & L2 & L3).
  unfold positional. rewrite digits_length. unfold digits. set (L := ndig m) in *.
  unfold dec_parse.
  destruct (0 <=? e)%Z eqn:E0.
  - apply Z.leb_le in E0.
    rewrite parse_digits_low.
    rewrite <- (app_nil_r (repeat 48 (Z.to_nat e))), parse_digits_zeros. cbn [parse_digits].
    rewrite N.mod_small by exact L3. rewrite N.mul_0_l, N.add_0_l.
    destruct (0 + Z.of_nat L + Z.of_nat (Z.to_nat e) =? 0)%Z eqn:Z0; [lia|].
    replace (N.of_nat (Z.to_nat e)) with (Z.to_N e) by lia. reflexivity.
  - apply Z.leb_gt in E0.
    destruct (Z.of_nat L <=? - e)%Z eqn:E1.
    + apply Z.leb_le in E1. cbn [app parse_digits].
      change ((48 <=? 48) && (48 <=? 57)) with true. cbv iota.
      change ((48 <=? 46) && (46 <=? 57)) with false. cbv iota.
      change (0 + 1 =? 0)%Z with false. cbv iota. change (46 =? 46) with true. cbv iota.
      rewrite parse_digits_zeros.
      rewrite <- (app_nil_r (lowdigits L m)), parse_digits_low. cbn [parse_digits].
      rewrite N.mod_small by exact L3.
      match goal with |- context [(?c =? 0)%Z] => destruct (c =? 0)%Z eqn:Z0; [lia|] end.
      f_equal. f_equal; lia.
    + apply Z.leb_gt in E1.
      set (p := Z.to_nat (- e)). set (a := Z.to_nat (Z.of_nat L + e)).
      assert (HL : L = (a + p)%nat) by (unfold a, p; lia).
      rewrite HL, lowdigits_split.
      rewrite firstn_app, lowdigits_length, Nat.sub_diag, firstn_O, app_nil_r.
      rewrite firstn_all2 by (rewrite lowdigits_length; lia).
      rewrite skipn_app, lowdigits_length, Nat.sub_diag, skipn_O.
      rewrite skipn_all2 by (rewrite lowdigits_length; lia). cbn [app].
      rewrite parse_digits_low. cbn [parse_digits].
      change ((48 <=? 46) && (46 <=? 57)) with false. cbv iota.
      destruct (0 + Z.of_nat a =? 0)%Z eqn:Z0; [lia|].
      change (46 =? 46) with true. cbv iota.
      rewrite <- (app_nil_r (lowdigits p m)), parse_digits_low. cbn [parse_digits].
      destruct (0 + Z.of_nat p =? 0)%Z eqn:Z1; [lia|].
      f_equal. f_equal; [|lia].
      assert (P : 10 ^ N.of_nat p <> 0) by (apply N.pow_nonzero; lia).
      assert (m / 10 ^ N.of_nat p < 10 ^ N.of_nat a).
      { apply N.div_lt_upper_bound; [exact P|]. rewrite <- N.pow_add_r.
        replace (N.of_nat p + N.of_nat a) with (N.of_nat L) by lia. exact L3. }
      rewrite (N.mod_small (m / 10 ^ N.of_nat p)) by assumption.
      pose proof (N.div_mod m (10 ^ N.of_nat p) P). lia.
Qed.

(* no superfluous characters: the digit string of m starts with a non-zero digit, and ends with one when m
   has no trailing zero; positional adds only the zeros the position of the point requires *)
Lemma digits_head (m : N) : 0 < m -> exists d r, digits m = d :: r /\ 49 <= d <= 57.
Proof.
  intro H0. destruct (ndig_spec m H0) as (L1 & L2 & L3). unfold digits.
  set (L := ndig m) in *.
  replace L with (1 + (L - 1))%nat by lia. rewrite lowdigits_split. cbn [lowdigits app].
  eexists _, _. split; [reflexivity|].
  set (P := 10 ^ N.of_nat (L - 1)).
  assert (P0 : P <> 0) by (apply N.pow_nonzero; lia).
  assert (1 <= m / P).
  { apply N.div_le_lower_bound; [exact P0|]. unfold P.
    replace (N.of_nat (L - 1)) with (N.of_nat L - 1) by lia. lia. }
  assert (m / P < 10).
  { apply N.div_lt_upper_bound; [exact P0|]. unfold P.
    rewrite (pow10_succ (N.of_nat L)) in L3 by lia.
    replace (N.of_nat (L - 1)) with (N.of_nat L - 1) by lia. lia. }
  rewrite (N.mod_small (m / P) 10) by assumption. lia.
Qed.

Lemma digits_last (m : N) : 0 < m -> m mod 10 <> 0 -> exists r d, digits m = r ++ [d] /\ 49 <= d <= 57.
Proof.
  intros H0 H1. destruct (ndig_spec m H0) as (L1 & _). unfold digits.
  destruct (ndig m) as [|n]; [lia|]. cbn [lowdigits]. eexists _, _. split; [reflexivity|].
  pose proof (N.mod_upper_bound m 10 ltac:(lia)). lia.
Qed.
