(* Proofs/Utf8Proofs.v — lemmas about Model/Utf8.v: arithmetic reading of the bit manipulation of
   DecodeRune / EncodeRune, shape of well-formed sequences, EncodeRune inverts DecodeRune, equations of
   the range loop. *)
From QF Require Import Base.Prelude Model.Utf8.
Local Open Scope N_scope.
Ltac Zify.zify_post_hook ::= Z.to_euclidean_division_equations.

(* ------------------------------------------------------------------ bit operations as arithmetic *)

Lemma land_zero_mul_pow2 q n y : y < 2^n -> N.land (q * 2^n) y = 0.
Proof.
  intro H. apply N.bits_inj_0. intro k. rewrite N.land_spec.
  destruct (N.ltb_spec k n) as [Hk|Hk].
  - rewrite N.mul_pow2_bits_low by assumption. reflexivity.
  - assert (N.testbit y k = false) as ->; [|apply andb_false_r].
    destruct (N.eq_dec y 0) as [->|Hy]; [apply N.bits_0|].
    apply N.bits_above_log2. apply N.log2_lt_pow2; [lia|].
    eapply N.lt_le_trans; [exact H|]. apply N.pow_le_mono_r; lia.
Qed.

Lemma lor_mul_add q n y : y < 2^n -> N.lor (q * 2^n) y = q * 2^n + y.
Proof.
  intro H. pose proof (land_zero_mul_pow2 q n y H) as L.
  rewrite (N.add_nocarry_lxor _ _ L). symmetry. apply N.lxor_lor. exact L.
Qed.

Lemma land_1F a : N.land a 0x1F = a mod 32. Proof. change 0x1F with (N.ones 5). apply N.land_ones. Qed.
Lemma land_3F a : N.land a 0x3F = a mod 64. Proof. change 0x3F with (N.ones 6). apply N.land_ones. Qed.
Lemma land_0F a : N.land a 0x0F = a mod 16. Proof. change 0x0F with (N.ones 4). apply N.land_ones. Qed.
Lemma land_07 a : N.land a 0x07 = a mod 8. Proof. change 0x07 with (N.ones 3). apply N.land_ones. Qed.
Lemma land_FF a : N.land a 0xFF = a mod 256. Proof. change 0xFF with (N.ones 8). apply N.land_ones. Qed.

Lemma lor64 q y : y < 64 -> N.lor (q * 64) y = q * 64 + y.
Proof. intro H. apply (lor_mul_add q 6 y). exact H. Qed.

Lemma dec2_val a b :
  N.lor (N.shiftl (N.land a 0x1F) 6) (N.land b 0x3F) = (a mod 32) * 64 + b mod 64.
Proof.
  rewrite land_1F, land_3F, N.shiftl_mul_pow2. change (2^6) with 64.
  apply lor64. lia.
Qed.

Lemma lor4096 q y : y < 4096 -> N.lor (q * 4096) y = q * 4096 + y.
Proof. intro H. apply (lor_mul_add q 12 y). exact H. Qed.
Lemma lor262144 q y : y < 262144 -> N.lor (q * 262144) y = q * 262144 + y.
Proof. intro H. apply (lor_mul_add q 18 y). exact H. Qed.

Lemma dec3_val a b c :
  N.lor (N.lor (N.shiftl (N.land a 0x0F) 12) (N.shiftl (N.land b 0x3F) 6)) (N.land c 0x3F)
  = (a mod 16) * 4096 + (b mod 64) * 64 + c mod 64.
Proof.
  rewrite land_0F, !land_3F, !N.shiftl_mul_pow2. change (2^6) with 64. change (2^12) with 4096.
  rewrite lor4096 by lia.
  replace (a mod 16 * 4096 + b mod 64 * 64) with ((a mod 16 * 64 + b mod 64) * 64) by lia.
  rewrite lor64 by lia. lia.
Qed.

Lemma dec4_val a b c d :
  N.lor (N.lor (N.lor (N.shiftl (N.land a 0x07) 18) (N.shiftl (N.land b 0x3F) 12))
               (N.shiftl (N.land c 0x3F) 6)) (N.land d 0x3F)
  = (a mod 8) * 262144 + (b mod 64) * 4096 + (c mod 64) * 64 + d mod 64.
Proof.
  rewrite land_07, !land_3F, !N.shiftl_mul_pow2.
  change (2^6) with 64. change (2^12) with 4096. change (2^18) with 262144.
  rewrite lor262144 by lia.
  replace (a mod 8 * 262144 + b mod 64 * 4096) with ((a mod 8 * 64 + b mod 64) * 4096) by lia.
  rewrite lor4096 by lia.
  replace ((a mod 8 * 64 + b mod 64) * 4096 + c mod 64 * 64)
    with (((a mod 8 * 64 + b mod 64) * 64 + c mod 64) * 64) by lia.
  rewrite lor64 by lia. lia.
Qed.

Lemma lorC0 y : y < 32 -> N.lor 0xC0 y = 0xC0 + y.
Proof. intro H. change 0xC0 with (6 * 2^5). apply lor_mul_add. exact H. Qed.
Lemma lor80 y : y < 64 -> N.lor 0x80 y = 0x80 + y.
Proof. intro H. change 0x80 with (2 * 2^6). apply lor_mul_add. exact H. Qed.
Lemma lorE0 y : y < 16 -> N.lor 0xE0 y = 0xE0 + y.
Proof. intro H. change 0xE0 with (14 * 2^4). apply lor_mul_add. exact H. Qed.
Lemma lorF0 y : y < 8 -> N.lor 0xF0 y = 0xF0 + y.
Proof. intro H. change 0xF0 with (30 * 2^3). apply lor_mul_add. exact H. Qed.

(* ------------------------------------------------------------------ EncodeRune, arithmetically *)
Lemma u32_of_N r : r < 4294967296 -> Z.to_N (Z.of_N r mod 4294967296) = r.
Proof. intro H. lia. Qed.

Ltac enc_start r :=
  unfold encode_rune; rewrite (u32_of_N r) by lia; cbv zeta;
  unfold max_rune, surrogate_min, surrogate_max, rune_error, to_byte;
  rewrite ?land_FF, ?land_3F, ?N.shiftr_div_pow2;
  change (2^6) with 64; change (2^12) with 4096; change (2^18) with 262144.

Lemma enc1 r : r <= 0x7F -> encode_rune (Z.of_N r) = [r].
Proof.
  intro H. enc_start r.
  destruct (N.leb_spec r 0x7F) as [_|?]; [|lia]. f_equal. lia.
Qed.

Lemma enc2 r : 0x80 <= r <= 0x7FF ->
  encode_rune (Z.of_N r) = [0xC0 + r / 64; 0x80 + r mod 64].
Proof.
  intro H. enc_start r.
  destruct (N.leb_spec r 0x7F) as [?|_]; [lia|].
  destruct (N.leb_spec r 0x7FF) as [_|?]; [|lia].
  rewrite lorC0 by lia. rewrite lor80 by lia. f_equal; [lia|]. f_equal. lia.
Qed.

Lemma enc3 r : 0x800 <= r <= 0xFFFF -> ~ (0xD800 <= r <= 0xDFFF) ->
  encode_rune (Z.of_N r) = [0xE0 + r / 4096; 0x80 + (r / 64) mod 64; 0x80 + r mod 64].
Proof.
  intros H Hs. enc_start r.
  destruct (N.leb_spec r 0x7F) as [?|_]; [lia|].
  destruct (N.leb_spec r 0x7FF) as [?|_]; [lia|].
  destruct (N.ltb_spec 0x10FFFF r) as [?|_]; [lia|].
  assert ((0xD800 <=? r) && (r <=? 0xDFFF) = false) as -> by lia.
  destruct (N.leb_spec r 0xFFFF) as [_|?]; [|lia].
  cbn [orb].
  rewrite lorE0 by lia. rewrite !lor80 by lia.
  f_equal; [lia|]. f_equal; [lia|]. f_equal. lia.
Qed.

Lemma enc4 r : 0x10000 <= r <= 0x10FFFF ->
  encode_rune (Z.of_N r)
  = [0xF0 + r / 262144; 0x80 + (r / 4096) mod 64; 0x80 + (r / 64) mod 64; 0x80 + r mod 64].
Proof.
  intros H. enc_start r.
  destruct (N.leb_spec r 0x7F) as [?|_]; [lia|].
  destruct (N.leb_spec r 0x7FF) as [?|_]; [lia|].
  destruct (N.ltb_spec 0x10FFFF r) as [?|_]; [lia|].
  assert ((0xD800 <=? r) && (r <=? 0xDFFF) = false) as -> by lia.
  destruct (N.leb_spec r 0xFFFF) as [?|_]; [lia|].
  cbn [orb].
  rewrite lorF0 by lia. rewrite !lor80 by lia.
  f_equal; [lia|]. f_equal; [lia|]. f_equal; [lia|]. f_equal. lia.
Qed.

(* ------------------------------------------------------------------ shape of a decoded sequence *)
Definition valid_rune (c : N) : Prop := c <= 0x10FFFF /\ ~ (0xD800 <= c <= 0xDFFF).

Inductive seq_shape (s : bytes) (r : N) (w : nat) : Prop :=
| shape1 a t : s = a :: t -> a < 0x80 -> r = a -> w = 1%nat -> seq_shape s r w
| shape2 a b t : s = a :: b :: t -> 0xC2 <= a <= 0xDF -> 0x80 <= b <= 0xBF ->
    r = (a - 0xC0) * 64 + (b - 0x80) -> w = 2%nat -> seq_shape s r w
| shape3 a b c t : s = a :: b :: c :: t -> 0xE0 <= a <= 0xEF -> 0x80 <= b <= 0xBF ->
    (a = 0xE0 -> 0xA0 <= b) -> (a = 0xED -> b <= 0x9F) -> 0x80 <= c <= 0xBF ->
    r = (a - 0xE0) * 4096 + (b - 0x80) * 64 + (c - 0x80) -> w = 3%nat -> seq_shape s r w
| shape4 a b c d t : s = a :: b :: c :: d :: t -> 0xF0 <= a <= 0xF4 -> 0x80 <= b <= 0xBF ->
    (a = 0xF0 -> 0x90 <= b) -> (a = 0xF4 -> b <= 0x8F) -> 0x80 <= c <= 0xBF -> 0x80 <= d <= 0xBF ->
    r = (a - 0xF0) * 262144 + (b - 0x80) * 4096 + (c - 0x80) * 64 + (d - 0x80) -> w = 4%nat ->
    seq_shape s r w.

Lemma first_info_cases a :
  match first_info a with
  | FAscii => a < 0x80
  | FInvalid => True
  | FMulti sz lo hi =>
      (sz = 2%nat /\ 0xC2 <= a <= 0xDF /\ lo = 0x80 /\ hi = 0xBF) \/
      (sz = 3%nat /\ 0xE0 <= a <= 0xEF /\ 0x80 <= lo /\ hi <= 0xBF /\
         (a = 0xE0 -> lo = 0xA0) /\ (a = 0xED -> hi = 0x9F)) \/
      (sz = 4%nat /\ 0xF0 <= a <= 0xF4 /\ 0x80 <= lo /\ hi <= 0xBF /\
         (a = 0xF0 -> lo = 0x90) /\ (a = 0xF4 -> hi = 0x8F))
  end.
Proof.
  unfold first_info.
  repeat match goal with
         | |- context [if ?c then _ else _] => destruct c eqn:?
         end; try exact I; lia.
Qed.

Lemma is_invalid_err : is_invalid (rune_error, 1%nat) = true.
Proof. reflexivity. Qed.

Lemma in_range_true lo hi b : in_range lo hi b = true -> lo <= b <= hi.
Proof. unfold in_range. lia. Qed.

Lemma decode_shape s :
  s <> [] -> is_invalid (decode_rune s) = false ->
  seq_shape s (fst (decode_rune s)) (snd (decode_rune s)).
Proof.
  intros Hne Hv. destruct s as [|a t]; [congruence|]. clear Hne.
  unfold decode_rune in *.
  pose proof (first_info_cases a) as C.
  destruct (first_info a) as [| |sz lo hi].
  - eapply shape1; eauto.
  - rewrite is_invalid_err in Hv. discriminate.
  - destruct t as [|b t]; [rewrite is_invalid_err in Hv; discriminate|].
    destruct (in_range lo hi b) eqn:Rb; cbn [negb] in *;
      [|rewrite is_invalid_err in Hv; discriminate].
    apply in_range_true in Rb.
    destruct C as [(-> & Ha & -> & ->)|[(-> & Ha & Hlo & Hhi & HE0 & HED)|(-> & Ha & Hlo & Hhi & HF0 & HF4)]].
    + cbn [Nat.leb fst snd]. eapply shape2; eauto. rewrite dec2_val. lia.
    + cbn [Nat.leb] in *.
      destruct t as [|c t]; [rewrite is_invalid_err in Hv; discriminate|].
      unfold is_cont in *.
      destruct (in_range 0x80 0xBF c) eqn:Rc; cbn [negb] in *;
        [|rewrite is_invalid_err in Hv; discriminate].
      apply in_range_true in Rc.
      cbn [fst snd]. eapply (shape3 _ _ _ a b c t); eauto; try lia.
      rewrite dec3_val. lia.
    + cbn [Nat.leb] in *.
      destruct t as [|c t]; [rewrite is_invalid_err in Hv; discriminate|].
      unfold is_cont in *.
      destruct (in_range 0x80 0xBF c) eqn:Rc; cbn [negb] in *;
        [|rewrite is_invalid_err in Hv; discriminate].
      apply in_range_true in Rc.
      destruct t as [|d t]; [rewrite is_invalid_err in Hv; discriminate|].
      destruct (in_range 0x80 0xBF d) eqn:Rd; cbn [negb] in *;
        [|rewrite is_invalid_err in Hv; discriminate].
      apply in_range_true in Rd.
      cbn [fst snd]. eapply (shape4 _ _ _ a b c d t); eauto; try lia.
      rewrite dec4_val. lia.
Qed.

(* consequences of the shape: scalar value, width, EncodeRune gives the bytes back, RuneLen *)
Lemma shape_valid_rune s r w : seq_shape s r w -> valid_rune r.
Proof. unfold valid_rune. intros [a t -> Ha -> ->|a b t -> Ha Hb -> ->|a b c t -> Ha Hb H1 H2 Hc -> ->
                                 |a b c d t -> Ha Hb H1 H2 Hc Hd -> ->]; lia. Qed.

Lemma shape_width s r w : seq_shape s r w -> (1 <= w <= 4)%nat /\ (w <= length s)%nat.
Proof. intros [a t -> Ha -> ->|a b t -> Ha Hb -> ->|a b c t -> Ha Hb H1 H2 Hc -> ->
              |a b c d t -> Ha Hb H1 H2 Hc Hd -> ->]; cbn [length]; lia. Qed.

Lemma shape_encode s r w : seq_shape s r w ->
  encode_rune (Z.of_N r) = firstn w s /\ length (encode_rune (Z.of_N r)) = w.
Proof.
  intros [a t -> Ha -> ->|a b t -> Ha Hb -> ->|a b c t -> Ha Hb H1 H2 Hc -> ->
         |a b c d t -> Ha Hb H1 H2 Hc Hd -> ->].
  - rewrite enc1 by lia. split; reflexivity.
  - rewrite enc2 by lia. cbn [firstn length]. split; [|reflexivity].
    f_equal; [lia|]. f_equal. lia.
  - rewrite enc3 by lia. cbn [firstn length]. split; [|reflexivity].
    f_equal; [lia|]. f_equal; [lia|]. f_equal. lia.
  - rewrite enc4 by lia. cbn [firstn length]. split; [|reflexivity].
    f_equal; [lia|]. f_equal; [lia|]. f_equal; [lia|]. f_equal. lia.
Qed.

Lemma shape_rune_len s r w : seq_shape s r w -> rune_len (Z.of_N r) = Z.of_nat w.
Proof.
  intros [a t -> Ha -> ->|a b t -> Ha Hb -> ->|a b c t -> Ha Hb H1 H2 Hc -> ->
         |a b c d t -> Ha Hb H1 H2 Hc Hd -> ->]; unfold rune_len.
  - destruct (Z.ltb_spec (Z.of_N a) 0); [lia|].
    destruct (Z.leb_spec (Z.of_N a) 0x7F); [reflexivity|lia].
  - set (r := (a - 192) * 64 + (b - 128)). assert (0x80 <= r <= 0x7FF) by (subst r; lia).
    destruct (Z.ltb_spec (Z.of_N r) 0); [lia|].
    destruct (Z.leb_spec (Z.of_N r) 0x7F); [lia|].
    destruct (Z.leb_spec (Z.of_N r) 0x7FF); [reflexivity|lia].
  - set (r := (a - 224) * 4096 + (b - 128) * 64 + (c - 128)).
    assert (0x800 <= r <= 0xFFFF /\ ~ (0xD800 <= r <= 0xDFFF)) by (subst r; lia).
    destruct (Z.ltb_spec (Z.of_N r) 0); [lia|].
    destruct (Z.leb_spec (Z.of_N r) 0x7F); [lia|].
    destruct (Z.leb_spec (Z.of_N r) 0x7FF); [lia|].
    assert ((0xD800 <=? Z.of_N r)%Z && (Z.of_N r <=? 0xDFFF)%Z = false) as -> by lia.
    destruct (Z.leb_spec (Z.of_N r) 0xFFFF); [reflexivity|lia].
  - set (r := (a - 240) * 262144 + (b - 128) * 4096 + (c - 128) * 64 + (d - 128)).
    assert (0x10000 <= r <= 0x10FFFF) by (subst r; lia).
    destruct (Z.ltb_spec (Z.of_N r) 0); [lia|].
    destruct (Z.leb_spec (Z.of_N r) 0x7F); [lia|].
    destruct (Z.leb_spec (Z.of_N r) 0x7FF); [lia|].
    assert ((0xD800 <=? Z.of_N r)%Z && (Z.of_N r <=? 0xDFFF)%Z = false) as -> by lia.
    destruct (Z.leb_spec (Z.of_N r) 0xFFFF); [lia|].
    destruct (Z.leb_spec (Z.of_N r) 0x10FFFF); [reflexivity|lia].
Qed.

(* ------------------------------------------------------------------ width of any decoding step *)
Lemma decode_invalid_eq s : is_invalid (decode_rune s) = true -> decode_rune s = (rune_error, 1%nat).
Proof.
  unfold is_invalid. destruct (decode_rune s) as [r w]. cbn [fst snd]. intro H.
  apply andb_true_iff in H as [H1 H2]. apply N.eqb_eq in H1. apply Nat.eqb_eq in H2. congruence.
Qed.

Lemma decode_width s : s <> [] ->
  (1 <= snd (decode_rune s))%nat /\ (snd (decode_rune s) <= length s)%nat.
Proof.
  intro Hne. destruct (is_invalid (decode_rune s)) eqn:E.
  - rewrite (decode_invalid_eq s E). cbn [snd]. destruct s; [congruence|cbn [length]; lia].
  - pose proof (shape_width _ _ _ (decode_shape s Hne E)). lia.
Qed.

(* ------------------------------------------------------------------ the range loop *)
Lemma range_aux_skip s : forall i k, (k <= length s)%nat ->
  range_aux s i k = range_aux (skipn k s) (i + k) 0.
Proof.
  induction s as [|a t IH]; intros i k Hk.
  - destruct k; reflexivity.
  - destruct k as [|k].
    + cbn [skipn]. rewrite Nat.add_0_r. reflexivity.
    + cbn [range_aux skipn]. cbn [length] in Hk. rewrite IH by lia. f_equal. lia.
Qed.

Definition shift (n : nat) (p : nat * N) : nat * N := ((fst p + n)%nat, snd p).

Lemma range_aux_shift s : forall i k, range_aux s i k = map (shift i) (range_aux s 0 k).
Proof.
  induction s as [|a t IH]; intros i k; [reflexivity|].
  cbn [range_aux]. destruct k as [|k].
  - cbn [map]. unfold shift at 1. cbn [fst snd]. f_equal.
    rewrite (IH (S i)), (IH 1%nat), map_map. apply map_ext. intros [j c].
    unfold shift. cbn [fst snd]. f_equal. lia.
  - rewrite (IH (S i)), (IH 1%nat), map_map. apply map_ext. intros [j c].
    unfold shift. cbn [fst snd]. f_equal. lia.
Qed.

Lemma range_string_step s : s <> [] ->
  range_string s =
  (0%nat, fst (decode_rune s))
    :: map (shift (snd (decode_rune s))) (range_string (skipn (snd (decode_rune s)) s)).
Proof.
  intro Hne. pose proof (decode_width s Hne) as [W1 W2].
  destruct s as [|a t]; [congruence|].
  unfold range_string. cbn [range_aux]. f_equal.
  set (w := snd (decode_rune (a :: t))) in *. cbn [length] in W2.
  rewrite range_aux_skip by lia.
  replace (skipn w (a :: t)) with (skipn (w - 1) t)
    by (destruct w as [|w']; [lia|cbn [skipn]; f_equal; lia]).
  rewrite range_aux_shift. replace (1 + (w - 1))%nat with w by lia. reflexivity.
Qed.

Lemma sanitize_nil : utf8_sanitize [] = [].
Proof. reflexivity. Qed.

Lemma sanitize_step s : s <> [] ->
  utf8_sanitize s = fst (decode_rune s) :: utf8_sanitize (skipn (snd (decode_rune s)) s).
Proof.
  intro Hne. unfold utf8_sanitize. rewrite (range_string_step s Hne). cbn [map fst snd]. f_equal.
  rewrite map_map. apply map_ext. intros [j c]. reflexivity.
Qed.

Lemma valid_aux_skip s : forall k, (k <= length s)%nat -> valid_aux s k = valid_aux (skipn k s) 0.
Proof.
  induction s as [|a t IH]; intros k Hk.
  - destruct k; reflexivity.
  - destruct k as [|k]; [reflexivity|]. cbn [valid_aux skipn]. cbn [length] in Hk. apply IH. lia.
Qed.

Lemma valid_step s : s <> [] ->
  utf8_valid s = negb (is_invalid (decode_rune s)) && utf8_valid (skipn (snd (decode_rune s)) s).
Proof.
  intro Hne. pose proof (decode_width s Hne) as [W1 W2].
  destruct s as [|a t]; [congruence|].
  unfold utf8_valid. cbn [valid_aux]. f_equal.
  set (w := snd (decode_rune (a :: t))) in *. cbn [length] in W2.
  rewrite valid_aux_skip by lia.
  destruct w as [|w']; [lia|]. cbn [skipn]. repeat f_equal. lia.
Qed.

(* ------------------------------------------------------------------ well-formed strings, inductively *)
Inductive wf_utf8 : bytes -> list N -> Prop :=
| wf_nil : wf_utf8 [] []
| wf_cons s c w cs :
    seq_shape s c w -> decode_rune s = (c, w) -> wf_utf8 (skipn w s) cs -> wf_utf8 s (c :: cs).

Lemma valid_wf_len n : forall s, (length s <= n)%nat -> utf8_valid s = true -> wf_utf8 s (utf8_decode s).
Proof.
  induction n as [|n IH]; intros s Hl Hv.
  - destruct s; [apply wf_nil|cbn [length] in Hl; lia].
  - destruct s as [|a t]; [apply wf_nil|].
    assert (Hne : a :: t <> []) by congruence.
    rewrite (valid_step _ Hne) in Hv. apply andb_true_iff in Hv as [Hv1 Hv2].
    apply negb_true_iff in Hv1.
    pose proof (decode_shape _ Hne Hv1) as Sh.
    pose proof (decode_width _ Hne) as [W1 W2].
    unfold utf8_decode. rewrite (sanitize_step _ Hne).
    eapply wf_cons; [exact Sh|apply surjective_pairing|].
    apply IH; [|exact Hv2]. rewrite skipn_length. lia.
Qed.

Lemma valid_wf s : utf8_valid s = true -> wf_utf8 s (utf8_decode s).
Proof. apply (valid_wf_len (length s)). lia. Qed.

Lemma wf_decode s cs : wf_utf8 s cs -> utf8_decode s = cs.
Proof.
  induction 1 as [|s c w cs Sh D W IH]; [reflexivity|].
  assert (Hne : s <> []) by (destruct Sh; subst; congruence).
  unfold utf8_decode in *. rewrite (sanitize_step s Hne), D. cbn [fst snd]. congruence.
Qed.

Lemma wf_head s c w : seq_shape s c w -> s = encode_rune (Z.of_N c) ++ skipn w s.
Proof. intro Sh. destruct (shape_encode _ _ _ Sh) as [-> _]. symmetry. apply firstn_skipn. Qed.

Lemma wf_encode s cs : wf_utf8 s cs -> utf8_encode (map Z.of_N cs) = s.
Proof.
  induction 1 as [|s c w cs Sh D W IH]; [reflexivity|].
  unfold utf8_encode in *. cbn [map flat_map]. rewrite IH. symmetry. apply (wf_head _ _ _ Sh).
Qed.

Lemma wf_valid s cs : wf_utf8 s cs -> utf8_valid s = true.
Proof.
  induction 1 as [|s c w cs Sh D W IH]; [reflexivity|].
  assert (Hne : s <> []) by (destruct Sh; subst; congruence).
  rewrite (valid_step s Hne), D. cbn [snd]. rewrite IH, andb_true_r.
  apply negb_true_iff. unfold is_invalid. cbn [fst snd].
  destruct (N.eqb_spec c rune_error) as [->|]; [|reflexivity].
  destruct Sh as [a t -> Ha E ->|a b t -> Ha Hb E ->|a b c' t -> Ha Hb H1 H2 Hc E ->
                  |a b c' d t -> Ha Hb H1 H2 Hc Hd E ->]; try reflexivity.
  unfold rune_error in E. lia.
Qed.

(* every valid string is the encoding of its decoding: utf8_encode (utf8_decode s) = s *)
Theorem encode_decode_id s : utf8_valid s = true -> utf8_encode (map Z.of_N (utf8_decode s)) = s.
Proof. intro H. apply wf_encode. apply valid_wf. exact H. Qed.
