(* Proofs/FilterLeafProofs.v — obligations about the GENERATED kernels and tables (re-checked against the
   current Go source on every run) and the realisation of leaves by QFrame.filter's per-leaf step. *)
From QF Require Import Base.Prelude Base.KernelSyntax Gen.GenConsts Gen.GenTables Gen.GenKernels.
From QF Require Import Model.Frame Model.Bits Model.Kernel Model.Filter Model.FilterSpec Proofs.FilterProofs.
Local Open Scope nat_scope.

(* ------------------------------------------------------------------ generated obligations *)

(* 1. no kernel of the current source clears bits of the shared mask *)
Lemma kernels_never_clear : forallb (fun nk => negb (kernel_clears (snd nk))) g_kernels = true.
Proof. vm_compute. reflexivity. Qed.

(* 2. the translator recognised every kernel (no KBad anywhere) *)
Fixpoint kexpr_bad (e : kexpr) : bool :=
  match e with
  | KBad => true
  | KLt a b | KLe a b | KGt a b | KGe a b | KEq a b | KNe a b | KAnd a b | KOr a b | KBitAnd a b => kexpr_bad a || kexpr_bad b
  | KNot a | KIsNaN a | KIsNull a | KCompVal a | KInSet a | KMatches a | KBitsetIsSet a => kexpr_bad a
  | KCallFn args => existsb kexpr_bad args
  | _ => false
  end.
Definition kernel_bad (k : kernel) : bool :=
  match k with
  | KGuarded _ e => kexpr_bad e
  | KGuardedIf _ c e => kexpr_bad c || kexpr_bad e
  | _ => false
  end.
Lemma kernels_all_recognised : forallb (fun nk => negb (kernel_bad (snd nk))) g_kernels = true.
Proof. vm_compute. reflexivity. Qed.

(* 3. every function named by a filter table is a recognised kernel *)
Definition table_kernels_exist (letter : N) (t : list (bytes * bytes)) : bool :=
  forallb (fun kv => match kernel_named g_kernels (kname letter (snd kv)) with Some _ => true | None => false end) t.
Lemma filter_tables_resolve :
  table_kernels_exist L_i t_i_filter1 && table_kernels_exist L_i t_i_filterN && table_kernels_exist L_i t_i_filter2
  && table_kernels_exist L_i t_i_filter0
  && table_kernels_exist L_f t_f_filter0 && table_kernels_exist L_f t_f_filter1 && table_kernels_exist L_f t_f_filter2
  && table_kernels_exist L_b t_b_filter1 && table_kernels_exist L_b t_b_filter2
  && table_kernels_exist L_s t_s_filter0 && table_kernels_exist L_s t_s_filter1 && table_kernels_exist L_s t_s_filterN
  && table_kernels_exist L_s t_s_filter2
  && table_kernels_exist L_e t_e_filter0 && table_kernels_exist L_e t_e_filter1 && table_kernels_exist L_e t_e_filter2 = true.
Proof. vm_compute. reflexivity. Qed.

(* 4. filter.Inverse: which comparator the shortcut of QFrame.filter substitutes for an inverted leaf.
      The order comparators are excluded by is_order_comparator (their listed inverse is not the complement on
      null/NaN); for the remaining entries the substitution must be a complement, which is proved for
      the int kernels below (eq/neq, isnull/isnotnull) and checked on every type by the frameops engine. *)
Lemma inverse_shortcut_entries :
  map fst (filter (fun kv => negb (is_order_comparator (fst kv))) t_filter_inverse)
  = [bs 1 0x3d; bs 2 0x696e; bs 9 0x69736e6f746e756c6c; bs 6 0x69736e756c6c; bs 6 0x6e6f7420696e]%N.
Proof. vm_compute. reflexivity. Qed.

(* ------------------------------------------------------------------ from the local characterisation to mask_or *)

Lemma local_to_mask_or (pt : nat -> outcome bool) : forall b index r,
  length index = length b ->
  Forall2 (fun (xp : bool * nat) y => y = true /\ fst xp = true \/ fst xp = false /\ pt (snd xp) = Ok y) (combine b index) r ->
  r = mask_or b (map (fun p => match pt p with Ok v => v | _ => false end) index).
Proof.
  induction b as [|x b IH]; intros [|p index] r Hlen H; simpl in *; try discriminate.
  - inversion H. reflexivity.
  - inversion H as [|? y ? r' Hh Ht]; subst. unfold mask_or. simpl. f_equal.
    + destruct Hh as [[-> Hx]|[Hx Hp]]; simpl in *; subst; [reflexivity|]. rewrite Hp. reflexivity.
    + apply IH; [lia|exact Ht].
Qed.

Lemma guarded_loop_realised env c e index b :
  length index = length b ->
  (forall p, In p index -> exists v, body_point env c e p = Ok v) ->
  guarded_loop env c e index b
  = Ok (mask_or b (map (fun p => match body_point env c e p with Ok v => v | _ => false end) index)).
Proof.
  intros Hlen Hpt.
  destruct (guarded_loop_total env c e b index Hlen Hpt) as [r Hr].
  rewrite Hr. f_equal.
  apply local_to_mask_or; [exact Hlen|].
  apply guarded_loop_local; assumption.
Qed.

(* ------------------------------------------------------------------ int column, constant argument *)

Definition int_const_point (cmp : bytes) (v k : Z) : option bool :=
  match cop_of cmp with
  | Some op => Some (cmp_int op v k)
  | None =>
      if bytes_eqb cmp name_any_bits then Some (0 <? Z.land v k)%Z
      else if bytes_eqb cmp name_all_bits then Some (Z.land v k =? k)%Z
      else None
  end.

(* for every comparator listed in the generated table for int columns with a constant:
   the per-leaf step ORs into the mask exactly the typed comparison of the statement *)
Definition int_const_entry_ok (kv : bytes * bytes) : Prop :=
  forall (d : list Z) (k : Z) (i : list nat) (b : list bool),
    length i = length b -> Forall (fun p => p < length d) i ->
    exists s, (forall v, int_const_point (fst kv) v k = Some (s v)) /\
    i_filter_builtin d i (fst kv) (RConst (AInt k)) b
    = Ok (mask_or b (map (fun p => s (nth p d 0%Z)) i)).

Lemma idx_nth (d : list Z) p : p < length d -> idx d p = Ok (nth p d 0%Z).
Proof.
  intro H. unfold idx. destruct (nth_error d p) eqn:E.
  - simpl. f_equal. symmetry. apply nth_error_nth. exact E.
  - apply nth_error_None in E. lia.
Qed.

Lemma is_gt_ltb a b : is_gt (Z.compare a b) = (b <? a)%Z.
Proof. rewrite Z.ltb_compare, (Z.compare_antisym a b). destruct (Z.compare a b); reflexivity. Qed.
Lemma is_eq_eqb a b : is_eq (Z.compare a b) = (a =? b)%Z.
Proof.
  destruct (Z.compare_spec a b) as [H|H|H]; simpl; symmetry;
    [apply Z.eqb_eq; exact H | apply Z.eqb_neq; lia | apply Z.eqb_neq; lia].
Qed.

Ltac reduce_closed :=
  repeat match goal with
         | |- context[cop_of ?c] => let r := eval vm_compute in (cop_of c) in change (cop_of c) with r
         | |- context[bytes_eqb ?c ?t] => let r := eval vm_compute in (bytes_eqb c t) in change (bytes_eqb c t) with r
         | |- context[assocb ?c ?t] => let r := eval vm_compute in (assocb c t) in change (assocb c t) with r
         | |- context[kernel_named ?g ?n] => let r := eval vm_compute in (kernel_named g n) in change (kernel_named g n) with r
         end; cbv beta iota.

Ltac point_at d p Hin :=
  unfold body_point; cbn [keval base_env k_cell k_const raw_kval obind];
  rewrite (idx_nth d p Hin); cbn [obind kcompare cmp3 as_bool].

Ltac solve_int_entry :=
  intros d k i b Hlen Hin; eexists; split;
  [ intro v; unfold int_const_point; cbn [fst snd]; reduce_closed; reflexivity
  | unfold i_filter_builtin, int_comp, run_tbl; cbn [fst snd]; reduce_closed; unfold run; reduce_closed;
    unfold run_kernel;
    rewrite guarded_loop_realised;
    [ f_equal; f_equal; apply map_ext_in; intros p Hp;
      rewrite Forall_forall in Hin; specialize (Hin p Hp); point_at d p Hin;
      unfold cmp_int; rewrite ?is_gt_ltb, ?is_eq_eqb;
      try (destruct (Z.compare (nth p d 0%Z) k); reflexivity); try reflexivity
    | exact Hlen
    | intros p Hp; rewrite Forall_forall in Hin; specialize (Hin p Hp); point_at d p Hin; eexists; reflexivity ] ].

(* the obligation, for EVERY entry of the table generated from internal/icolumn/filters.go *)
Theorem int_const_table_ok : Forall int_const_entry_ok t_i_filter1.
Proof.
  unfold t_i_filter1.
  repeat (constructor; [solve_int_entry|]).
  constructor.
Qed.

(* ------------------------------------------------------------------ leaves over an int column are realised *)

Section IntLeaves.
  Variable mt : matcher_table.
  Variable f : frame.
  Variable col : bytes.
  Variable d : list Z.
  Hypothesis Hcol : lookup_col f col = Some (ICol d).

  Definition int_leaf (cmp : bytes) (k : Z) : leaf := mkLeaf col (CmpName cmp) (AInt k) false.

  (* the row-wise meaning the statement gives to such a leaf *)
  Definition int_leaf_set (l : leaf) (p : nat) : bool :=
    match lcmp l, larg l with
    | CmpName cmp, AInt k =>
        match int_const_point cmp (nth p d 0%Z) k with Some r => r | None => false end
    | _, _ => false
    end.

  Lemma int_leaf_realised cmp fname k :
    In (cmp, fname) t_i_filter1 ->
    leaf_realised mt f int_leaf_set (fun p => p < length d) (int_leaf cmp k).
  Proof.
    intros Hin i b Hlen Hpos.
    pose proof int_const_table_ok as HT. rewrite Forall_forall in HT.
    destruct (HT _ Hin d k i b Hlen Hpos) as [s [Hs Hrun]].
    unfold filter_leaf, int_leaf. cbn [lcol larg linv lcmp].
    assert (Hl : lookup_col (with_ix f i) col = Some (ICol d)) by exact Hcol.
    rewrite Hl. cbn [obind]. unfold col_filter. cbn [fst] in Hrun. cbn [ix with_ix]. rewrite Hrun.
    f_equal. f_equal. apply map_ext. intro p. unfold int_leaf_set. cbn [lcmp larg].
    cbn [fst] in Hs. rewrite Hs. reflexivity.
  Qed.
End IntLeaves.

(* ------------------------------------------------------------------ non-vacuity example for Properties/C02.v *)

Definition exf : frame := mkFrame [([65%N], ICol [3; 1; 2; 5; 4; 7]%Z)] [4; 0; 5; 2; 1] false.
Definition exc : clause :=
  COr [CLeaf (int_leaf [65%N] (bs 1 0x3c) 2);
       CNot (CAnd [CLeaf (int_leaf [65%N] (bs 2 0x3e3d) 3); CLeaf (int_leaf [65%N] (bs 2 0x213d) 7)]);
       CLeaf (int_leaf [65%N] (bs 8 0x616c6c5f62697473) 4)].

Ltac in_table := unfold t_i_filter1; simpl In; solve [repeat (first [left; reflexivity | right])].

Lemma ex_premises :
  clause_ok [] exf (int_leaf_set [3; 1; 2; 5; 4; 7]%Z) (fun p => p < 6) exc
  /\ NoDup (ix exf) /\ Forall (fun p => p < 6) (ix exf)
  /\ clause_filter [] exc exf = Ok (with_ix exf [4; 5; 2; 1]).
Proof.
  assert (Hcol : lookup_col exf [65%N] = Some (ICol [3; 1; 2; 5; 4; 7]%Z)) by reflexivity.
  assert (Hleaf : forall cmp fname k, In (cmp, fname) t_i_filter1 ->
            clause_ok [] exf (int_leaf_set [3; 1; 2; 5; 4; 7]%Z) (fun p => p < 6) (CLeaf (int_leaf [65%N] cmp k))).
  { intros cmp fname k Hin. apply ok_leaf. exact (int_leaf_realised [] exf [65%N] _ Hcol cmp fname k Hin). }
  split; [|split; [|split]].
  - apply ok_or; [discriminate|].
    apply Forall_cons; [eapply Hleaf; in_table|].
    apply Forall_cons.
    + apply ok_not; [intros l H; discriminate|].
      apply ok_and; [discriminate|].
      apply Forall_cons; [eapply Hleaf; in_table|].
      apply Forall_cons; [eapply Hleaf; in_table|constructor].
    + apply Forall_cons; [eapply Hleaf; in_table|constructor].
  - simpl. repeat constructor; simpl; intuition lia.
  - simpl. repeat constructor; lia.
  - vm_compute. reflexivity.
Qed.
