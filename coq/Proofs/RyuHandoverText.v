(* Proofs/RyuHandoverText.v — the property oracle of the engine "ryu" (Model/Ryu.oracle_f) accepts the text the
   model writes, for EVERY bit pattern other than NaN:
   * parse_f reads the positional rendering of (m, e), m free of trailing zeros, back as exactly (neg, m, e);
   * a checker-accepted m has no trailing zero;
   * +-Inf and +-0 are written as the fixed texts. *)
From QF Require Import Base.Prelude Gen.GenConsts Gen.GenRyu Model.Ryu.
From QF Require Import Proofs.RyuArith Proofs.RyuAppendF Proofs.RyuNoPanic Proofs.RyuShortest
                       Proofs.RyuHandoverFinal.
Local Open Scope N_scope.

Definition all_digits (l : bytes) : Prop := Forall (fun c => is_digit c = true) l.

Lemma is_digit_low (d : N) : d < 10 -> is_digit (48 + d) = true.
Proof. intro H. unfold is_digit. apply andb_true_iff. split; apply N.leb_le; lia. Qed.

Lemma lowdigits_all_digits : forall n m, all_digits (lowdigits n m).
Proof.
  induction n as [|n IH]; intro m; [constructor|].
  cbn [lowdigits]. apply Forall_app. split; [apply IH|].
  constructor; [|constructor]. apply is_digit_low. apply N.mod_upper_bound. discriminate.
Qed.

Lemma repeat48_all_digits k : all_digits (repeat 48 k).
Proof. induction k as [|k IH]; [constructor|]. cbn [repeat]. constructor; [reflexivity|exact IH]. Qed.

Lemma span_digits_app (l rest : bytes) :
  all_digits l -> match rest with [] => True | c :: _ => is_digit c = false end ->
  span_digits (l ++ rest) = (l, rest).
Proof.
  intros Hl Hr. induction Hl as [|c l Hc Hl IH].
  - cbn [app]. destruct rest as [|c r]; [reflexivity|]. cbn [span_digits]. rewrite Hr. reflexivity.
  - cbn [app span_digits]. rewrite Hc, IH. reflexivity.
Qed.

Lemma span_digits_all (l : bytes) : all_digits l -> span_digits l = (l, []).
Proof. intro H. rewrite <- (app_nil_r l) at 1. apply span_digits_app; [exact H|exact I]. Qed.

(* ------------------------------------------------------------------ digit values *)

Definition dstep (acc c : N) : N := 10 * acc + (c - 48).

Lemma digits_value_fold l : digits_value l = fold_left dstep l 0.
Proof. reflexivity. Qed.

Lemma fold_lowdigits : forall n m acc,
  fold_left dstep (lowdigits n m) acc = acc * 10 ^ N.of_nat n + m mod 10 ^ N.of_nat n.
Proof.
  induction n as [|n IH]; intros m acc.
  - cbn [lowdigits fold_left]. change (10 ^ N.of_nat 0) with 1. rewrite N.mod_1_r. lia.
  - cbn [lowdigits]. rewrite fold_left_app, IH. cbn [fold_left]. unfold dstep at 1.
    rewrite Nat2N.inj_succ, N.pow_succ_r'.
    rewrite (N.mod_mul_r m 10 (10 ^ N.of_nat n)) by (try apply N.pow_nonzero; discriminate).
    lia.
Qed.

Lemma fold_zeros k : fold_left dstep (repeat 48 k) 0 = 0.
Proof. rewrite <- lowdigits_zero, fold_lowdigits. rewrite N.mod_0_l by (apply N.pow_nonzero; discriminate). lia. Qed.

Lemma digits_value_digits (m : N) : 0 < m -> digits_value (digits m) = m.
Proof.
  intro H. destruct (ndig_spec m H) as (_ & _ & L3).
  rewrite digits_value_fold. unfold digits. rewrite fold_lowdigits. rewrite N.mod_small by exact L3. lia.
Qed.

(* ------------------------------------------------------------------ stripping zeros *)

Lemma rev_repeat48 k : rev (repeat 48 k) = repeat 48 k.
Proof.
  induction k as [|k IH]; [reflexivity|]. cbn [repeat rev]. rewrite IH.
  clear IH. induction k as [|k IH]; [reflexivity|]. cbn [repeat app]. rewrite IH. reflexivity.
Qed.

Lemma drop_zeros_repeat k l c : drop_zeros (repeat 48 k ++ l) c = drop_zeros l (c + Z.of_nat k)%Z.
Proof.
  revert c. induction k as [|k IH]; intro c.
  - cbn [repeat app]. f_equal. lia.
  - cbn [repeat app drop_zeros]. change (48 =? 48) with true. cbv iota. rewrite IH. f_equal. lia.
Qed.

Lemma drop_zeros_stop d l c : d <> 48 -> drop_zeros (d :: l) c = (d :: l, c).
Proof. intro H. cbn [drop_zeros]. apply N.eqb_neq in H. rewrite H. reflexivity. Qed.

(* ------------------------------------------------------------------ parse_f on a well-formed text *)

Definition point_tail (fp : bytes) : bytes := match fp with [] => [] | _ :: _ => 46 :: fp end.

Lemma point_tail_ne (fp : bytes) : fp <> [] -> point_tail fp = 46 :: fp.
Proof. destruct fp; [congruence|reflexivity]. Qed.

Lemma parse_f_build (neg : bool) (ip fp : bytes) :
  ip <> [] -> all_digits ip -> all_digits fp ->
  parse_f ((if neg then [45] else []) ++ ip ++ point_tail fp)
  = let '(rs, z) := drop_zeros (rev (ip ++ fp)) 0%Z in
    Some (neg, digits_value (rev rs), (z - Z.of_nat (length fp))%Z).
Proof.
  intros Hne Hip Hfp. unfold parse_f.
  assert (HS : span_digits (ip ++ point_tail fp) = (ip, point_tail fp)).
  { apply span_digits_app; [exact Hip|]. destruct fp; [exact I|reflexivity]. }
  assert (HF : fp <> [] -> span_digits fp = (fp, [])) by (intros _; apply span_digits_all; exact Hfp).
  assert (TAIL : forall c0 ip0, ip = c0 :: ip0 ->
            (let '(ip', rest) := (ip, point_tail fp) in
             match ip' with
             | [] => None
             | _ :: _ =>
                 let ofp := match rest with
                            | [] => Some []
                            | c :: r => if c =? 46 then
                                          let '(fp', rest2) := span_digits r in
                                          match fp', rest2 with
                                          | _ :: _, [] => Some fp'
                                          | _, _ => None
                                          end
                                        else None
                            end in
                 match ofp with
                 | None => None
                 | Some fp' =>
                     let '(rev_sig, z) := drop_zeros (rev (ip' ++ fp')) 0%Z in
                     Some (neg, digits_value (rev rev_sig), (z - Z.of_nat (length fp'))%Z)
                 end
             end)
            = (let '(rs, z) := drop_zeros (rev (ip ++ fp)) 0%Z in
               Some (neg, digits_value (rev rs), (z - Z.of_nat (length fp))%Z))).
  { intros c0 ip0 Eip. rewrite Eip. cbv beta iota zeta.
    destruct fp as [|f0 fp0].
    - cbn [point_tail]. cbv beta iota zeta. reflexivity.
    - cbn [point_tail]. change (46 =? 46) with true. cbv beta iota zeta.
      rewrite (HF ltac:(discriminate)). cbv beta iota zeta. reflexivity. }
  destruct ip as [|c0 ip0]; [congruence|].
  specialize (TAIL c0 ip0 eq_refl).
  destruct neg.
  - cbn [app]. change (45 =? 45) with true. cbv beta iota zeta.
    change (c0 :: ip0 ++ point_tail fp) with ((c0 :: ip0) ++ point_tail fp). rewrite HS. exact TAIL.
  - cbn [app].
    assert (C45 : (c0 =? 45) = false).
    { inversion Hip as [|c' l' Hc Hl]; subst. unfold is_digit in Hc. apply andb_true_iff in Hc as [Hc _].
      apply N.leb_le in Hc. apply N.eqb_neq. lia. }
    rewrite C45. cbv beta iota zeta.
    change (c0 :: ip0 ++ point_tail fp) with ((c0 :: ip0) ++ point_tail fp). rewrite HS. exact TAIL.
Qed.

(* ------------------------------------------------------------------ the three layouts *)

Lemma digits_rev_last (m : N) :
  0 < m -> m mod 10 <> 0 -> exists d r, rev (digits m) = d :: r /\ d <> 48.
Proof.
  intros H0 H1. destruct (digits_last m H0 H1) as (r & d & E & Hd).
  exists d, (rev r). split; [rewrite E, rev_app_distr; reflexivity|lia].
Qed.

Theorem parse_render (neg : bool) (m : N) (e : Z) :
  0 < m -> m mod 10 <> 0 -> parse_f (render_f neg m e) = Some (neg, m, e).
Proof.
  intros H0 H1. destruct (ndig_spec m H0) as (L1 & L2 & L3).
  destruct (digits_rev_last m H0 H1) as (d & r & ER & Hd).
  pose proof (digits_value_digits m H0) as DV.
  assert (DA : all_digits (digits m)) by apply lowdigits_all_digits.
  assert (DN : digits m <> []).
  { intro K. pose proof (digits_length m) as DL. rewrite K in DL. cbn in DL. lia. }
  unfold render_f, positional. rewrite digits_length.
  destruct (0 <=? e)%Z eqn:E0.
  - (* XYZ000 *)
    apply Z.leb_le in E0.
    change (digits m ++ repeat 48 (Z.to_nat e)) with ((digits m ++ repeat 48 (Z.to_nat e)));
    replace (digits m ++ repeat 48 (Z.to_nat e))
      with ((digits m ++ repeat 48 (Z.to_nat e)) ++ point_tail []) by apply app_nil_r.
    rewrite parse_f_build.
    + rewrite app_nil_r, rev_app_distr, rev_repeat48, drop_zeros_repeat, ER, (drop_zeros_stop d r _ Hd).
      rewrite <- ER, rev_involutive, DV. cbn [length]. f_equal. f_equal. lia.
    + intro K. apply app_eq_nil in K as [K _]. contradiction.
    + apply Forall_app. split; [exact DA|apply repeat48_all_digits].
    + constructor.
  - apply Z.leb_gt in E0.
    destruct (Z.of_nat (ndig m) <=? - e)%Z eqn:E1.
    + (* 0.000XYZ *)
      apply Z.leb_le in E1.
      set (k := Z.to_nat (- e - Z.of_nat (ndig m))).
      set (fp := repeat 48 k ++ digits m).
      assert (FN : fp <> []).
      { unfold fp. intro K. apply app_eq_nil in K as [_ K]. contradiction. }
      change ([48; 46] ++ fp) with ([48] ++ 46 :: fp).
      rewrite <- (point_tail_ne fp FN).
      rewrite parse_f_build.
      * unfold fp. rewrite !rev_app_distr, rev_repeat48, ER. cbn [app].
        rewrite (drop_zeros_stop d _ _ Hd).
        assert (RV : d :: (r ++ repeat 48 k) ++ rev [48] = rev ([48] ++ repeat 48 k ++ digits m))
          by (rewrite !rev_app_distr, rev_repeat48, ER; reflexivity).
        rewrite RV, rev_involutive, digits_value_fold, app_assoc, fold_left_app.
        replace (fold_left dstep ([48] ++ repeat 48 k) 0) with 0
          by (cbn [app fold_left]; change (dstep 0 48) with 0; symmetry; apply fold_zeros).
        rewrite <- digits_value_fold, DV.
        rewrite app_length, repeat_length, digits_length. f_equal. f_equal. unfold k. lia.
      * discriminate.
      * constructor; [reflexivity|constructor].
      * unfold fp. apply Forall_app. split; [apply repeat48_all_digits|exact DA].
    + (* X.YZ *)
      apply Z.leb_gt in E1.
      set (p := Z.to_nat (- e)). set (a := Z.to_nat (Z.of_nat (ndig m) + e)).
      assert (HL : ndig m = (a + p)%nat) by (unfold a, p; lia).
      assert (ED : digits m = lowdigits a (m / 10 ^ N.of_nat p) ++ lowdigits p m).
      { unfold digits. rewrite HL. apply lowdigits_split. }
      set (ip := lowdigits a (m / 10 ^ N.of_nat p)) in *. set (fp := lowdigits p m) in *.
      assert (Lip : length ip = a) by apply lowdigits_length.
      assert (Lfp : length fp = p) by apply lowdigits_length.
      assert (FN : fp <> []).
      { intro K. rewrite K in Lfp. cbn in Lfp. unfold p in Lfp. lia. }
      assert (IN : ip <> []).
      { intro K. rewrite K in Lip. cbn in Lip. unfold a in Lip. lia. }
      rewrite ED.
      rewrite firstn_app, Lip, Nat.sub_diag, firstn_O, app_nil_r.
      rewrite firstn_all2 by (rewrite Lip; lia).
      rewrite skipn_app, Lip, Nat.sub_diag, skipn_O.
      rewrite skipn_all2 by (rewrite Lip; lia). cbn [app].
      change ([46] ++ fp) with (46 :: fp). rewrite <- (point_tail_ne fp FN).
      rewrite parse_f_build.
      * rewrite <- ED, ER, (drop_zeros_stop d r _ Hd), <- ER, rev_involutive, DV, Lfp.
        f_equal. f_equal. unfold p. lia.
      * exact IN.
      * apply lowdigits_all_digits.
      * apply lowdigits_all_digits.
Qed.

(* ------------------------------------------------------------------ accepted decimals have no trailing zero *)

Lemma shortest_b_no_trailing_zero (bits m : N) (k : Z) :
  shortest_b bits m k = true -> 0 < m /\ m mod 10 <> 0.
Proof.
  unfold shortest_b. destruct (decode_float bits) as [f|]; [|discriminate].
  intro H. repeat (apply andb_true_iff in H as [H ?]).
  apply N.ltb_lt in H. split; [exact H|]. intro Z.
  match goal with K : negb (in_interval _ _ _ (_ - m mod 10 * _)) = true |- _ => rename K into T0 end.
  match goal with K : in_interval _ _ _ (scale_dec k (f_e2 f) m) = true |- _ => rename K into D end.
  rewrite Z, N.mul_0_l, N.sub_0_r, D in T0. discriminate T0.
Qed.

(* ------------------------------------------------------------------ the oracle accepts the model's text *)

Lemma ryu_text_eq (bits : N) (t : bytes) :
  (exists sp, AppendFloat64f (fun _ => []) {| bdata := []; bspare := [] |} bits = Ok {| bdata := t; bspare := sp |}) ->
  ryu_text bits = t.
Proof. intros (sp & E). unfold ryu_text. rewrite E. reflexivity. Qed.

(* For EVERY bit pattern other than NaN the text written by the model satisfies the property oracle that the
   engine applies to the implementation's output: +-Inf / +-0 literally, otherwise the text is the canonical
   positional rendering of the (sign, m, e) it parses to, and (m, e) is accepted by the certificate checker. *)
Theorem oracle_f_accepts (bits : N) :
  bits < 2 ^ 64 ->
  ~ ((bits / 2 ^ 52) mod 2048 = 2047 /\ bits mod 2 ^ 52 <> 0) ->
  oracle_f bits (ryu_text bits) = true.
Proof.
  intros Hb Hnan. unfold oracle_f. change 4503599627370496 with (2 ^ 52). change 9223372036854775808 with (2 ^ 63).
  set (exp := (bits / 2 ^ 52) mod 2048) in *. set (mant := bits mod 2 ^ 52) in *.
  set (g0 := fun _ : nat => @nil N). set (b0 := {| bdata := []; bspare := [] |}).
  assert (SPEC : (exp =? 2047) || ((exp =? 0) && (mant =? 0)) = true ->
                 ryu_text bits = bdata (appendSpecialf g0 b0 (2 ^ 63 <=? bits) (exp =? 0) (mant =? 0))).
  { intro SP. unfold ryu_text, AppendFloat64f. fold g0 b0.
    replace (sub64 (shl64 1 c_mantBits64) 1) with (N.ones 52) by (vm_compute; reflexivity).
    replace (sub64 (shl64 1 c_expBits64) 1) with (N.ones 11) by (vm_compute; reflexivity).
    change c_mantBits64 with 52. change c_expBits64 with 11.
    rewrite !N.land_ones. rewrite (shr64_spec bits 52) by lia. rewrite (shr64_spec bits (52 + 11)) by lia.
    change (52 + 11) with 63. rewrite sign_bit63.
    change (2 ^ 11) with 2048. fold exp mant.
    replace (N.ones 11) with 2047 by (vm_compute; reflexivity).
    rewrite SP. reflexivity. }
  destruct (N.eqb_spec exp 2047) as [E1|E1].
  - (* infinities *)
    assert (M0 : mant = 0).
    { destruct (N.eq_dec mant 0) as [Z|Z]; [exact Z|]. exfalso. apply Hnan. split; assumption. }
    rewrite SPEC by reflexivity. rewrite M0, E1. change (0 =? 0) with true. change (2047 =? 0) with false.
    unfold appendSpecialf. cbn [negb]. destruct (2 ^ 63 <=? bits); cbn [andb]; apply bytes_eqb_refl.
  - destruct ((exp =? 0) && (mant =? 0)) eqn:Z.
    + (* zeros *)
      rewrite SPEC by reflexivity.
      apply andb_true_iff in Z as [Z1 Z2]. rewrite Z1, Z2.
      unfold appendSpecialf. cbn [negb]. destruct (2 ^ 63 <=? bits); reflexivity.
    + (* finite non-zero *)
      assert (F2 : ~ (exp = 0 /\ mant = 0)).
      { intros [A B]. rewrite A, B in Z. discriminate Z. }
      destruct (AppendFloat64f_shortest g0 b0 bits Hb E1 F2) as (m & e & sp & EA & SB).
      cbn [b0 bdata app] in EA.
      rewrite (ryu_text_eq bits (render_f (2 ^ 63 <=? bits) m e)) by (exists sp; exact EA).
      destruct (shortest_b_no_trailing_zero bits m e SB) as [P1 P2].
      rewrite (parse_render _ m e P1 P2).
      rewrite SB, bytes_eqb_refl. destruct (2 ^ 63 <=? bits); reflexivity.
Qed.

(* whatever the buffer: the appended text is the one the oracle accepts *)
Theorem AppendFloat64f_oracle (g : nat -> bytes) (b : buf) (bits : N) :
  bits < 2 ^ 64 ->
  ~ ((bits / 2 ^ 52) mod 2048 = 2047 /\ bits mod 2 ^ 52 <> 0) ->
  exists text sp,
    AppendFloat64f g b bits = Ok {| bdata := bdata b ++ text; bspare := sp |} /\
    oracle_f bits text = true.
Proof.
  intros Hb Hnan. destruct (AppendFloat64f_total g b bits Hb) as (sp & E).
  exists (ryu_text bits), sp. split; [exact E|]. apply oracle_f_accepts; assumption.
Qed.
