(* Proofs/ObserveProofs.v — property C09: Equals is exactly cell-wise equality of the logical tables (hence an
   equivalence), every observer (Len, typed views, ToCSV, ToJSON) describes the rows of [abs], a frame rebuilt
   with New from the observed values is Equal to the original, and the structural operations respect Equals. *)
From QF Require Import Base.Prelude Gen.GenConsts.
From QF Require Import Model.Utf8 Model.CsvSpec Model.CsvWrite Model.Json Model.Observe Proofs.JsonProofs.
(* Model.Frame is imported last: [frame], [col_len], [frame_len] mean the physical frame; the typed table of
   Model/CsvSpec.v is written CsvSpec.frame, CsvSpec.col_len, CsvWrite.frame_len *)
From QF Require Import Model.Frame Model.Filter Model.Ops Model.TableSpec.
From QF Require Import Proofs.EqualsProofs Proofs.EnumProofs Proofs.OpsProofs.
Local Open Scope nat_scope.

(* ------------------------------------------------------------------ generic list / omap facts *)

Lemma omap_len {A B} (g : A -> outcome B) : forall l r, omap g l = Ok r -> length r = length l.
Proof.
  induction l as [|x l IH]; intros r H; simpl in H.
  - inversion H. reflexivity.
  - destruct (g x) as [y| |]; simpl in H; try discriminate.
    destruct (omap g l) as [ys| |]; simpl in H; try discriminate.
    inversion H; subst. simpl. f_equal. apply IH. reflexivity.
Qed.

Lemma omap_cons_ok {A B} (g : A -> outcome B) x l r :
  omap g (x :: l) = Ok r -> exists y ys, g x = Ok y /\ omap g l = Ok ys /\ r = y :: ys.
Proof.
  simpl. destruct (g x) as [y| |]; simpl; try discriminate.
  destruct (omap g l) as [ys| |]; simpl; try discriminate.
  intro H. inversion H; subst. exists y, ys. auto.
Qed.

Lemma omap_ext_in {A B} (g h : A -> outcome B) (l : list A) :
  (forall x, In x l -> g x = h x) -> omap g l = omap h l.
Proof.
  induction l as [|x l IH]; intro H; simpl; [reflexivity|].
  rewrite (H x (or_introl eq_refl)), IH; [reflexivity|]. intros y Hy. apply H. right. exact Hy.
Qed.

Lemma omap_nth_error {A B} (g : A -> outcome B) : forall l r j a,
  omap g l = Ok r -> nth_error l j = Some a -> exists b, g a = Ok b /\ nth_error r j = Some b.
Proof.
  induction l as [|x l IH]; intros r j a H Hj; [destruct j; discriminate|].
  apply omap_cons_ok in H as (y & ys & Hy & Hys & ->).
  destruct j as [|j]; simpl in Hj.
  - inversion Hj; subst. exists y. auto.
  - apply (IH ys j a Hys Hj).
Qed.

Lemma omap_map {A B C} (g : B -> outcome C) (h : A -> B) l : omap g (map h l) = omap (fun x => g (h x)) l.
Proof. induction l as [|x l IH]; simpl; [reflexivity|]. rewrite IH. reflexivity. Qed.

Lemma omap_ok_map {A B} (h : A -> B) l : omap (fun x => Ok (h x)) l = Ok (map h l).
Proof. induction l as [|x l IH]; simpl; [reflexivity|]. rewrite IH. reflexivity. Qed.

Lemma list_eqb_len {A} (e : A -> A -> bool) : forall a b, list_eqb e a b = true -> length a = length b.
Proof.
  induction a as [|x a IH]; intros [|y b] H; simpl in *; try discriminate; [reflexivity|].
  apply andb_true_iff in H as [_ H]. f_equal. apply IH. exact H.
Qed.

Lemma list_eqb_Forall2 {A} (e : A -> A -> bool) : forall a b,
  list_eqb e a b = true <-> Forall2 (fun x y => e x y = true) a b.
Proof.
  induction a as [|x a IH]; intros [|y b]; simpl; split; intro H; try discriminate; try constructor;
    try (inversion H; fail).
  - apply andb_true_iff in H as [H _]. exact H.
  - apply andb_true_iff in H as [_ H]. apply IH. exact H.
  - inversion H; subst. apply andb_true_iff. split; [assumption|apply IH; assumption].
Qed.

Lemma ctype_eqb_eq a b : ctype_eqb a b = true <-> a = b.
Proof. destruct a, b; simpl; split; intro H; try discriminate; reflexivity. Qed.

Lemma ctype_eqb_refl a : ctype_eqb a a = true.
Proof. destruct a; reflexivity. Qed.

(* ------------------------------------------------------------------ the table, column by column *)

Definition col_types (cs : list (bytes * coldata)) : list ctype := map (fun nc => col_type (snd nc)) cs.

(* the rows of a column list read through an index (abs without the record) *)
Definition rows_of (cs : list (bytes * coldata)) (index : list nat) : outcome (list (list cell)) :=
  omap (fun p => omap (fun nc => cell_at (snd nc) p) cs) index.

Lemma abs_unfold f : abs f = do rows <- rows_of (cols f) (ix f); Ok (mkTable (col_names f) (col_types (cols f)) rows).
Proof. reflexivity. Qed.

Lemma abs_ok f t : abs f = Ok t ->
  rows_of (cols f) (ix f) = Ok (trows t) /\ tnames t = col_names f /\ ttypes t = col_types (cols f).
Proof.
  rewrite abs_unfold. destruct (rows_of (cols f) (ix f)) as [rows| |]; simpl; try discriminate.
  intro H. inversion H; subst. simpl. auto.
Qed.

Lemma abs_of_rows f rows : rows_of (cols f) (ix f) = Ok rows ->
  abs f = Ok (mkTable (col_names f) (col_types (cols f)) rows).
Proof. intro H. rewrite abs_unfold, H. reflexivity. Qed.

(* put a column in front of a list of rows *)
Fixpoint zipc (xs : list cell) (rs : list (list cell)) : list (list cell) :=
  match xs, rs with
  | x :: xs', r :: rs' => (x :: r) :: zipc xs' rs'
  | _, _ => []
  end.

Lemma rows_of_nil index : rows_of [] index = Ok (map (fun _ => []) index).
Proof. unfold rows_of. simpl. apply omap_ok_map. Qed.

Lemma rows_of_cons n c cs : forall index rows,
  rows_of ((n, c) :: cs) index = Ok rows ->
  exists xs rows', omap (cell_at c) index = Ok xs /\ rows_of cs index = Ok rows' /\ rows = zipc xs rows'.
Proof.
  unfold rows_of. induction index as [|p index IH]; intros rows H.
  - simpl in H. inversion H; subst. exists [], []. auto.
  - apply omap_cons_ok in H as (row & rows0 & Hrow & Hrows & ->).
    apply omap_cons_ok in Hrow as (x & r & Hx & Hr & ->). simpl in Hx.
    destruct (IH rows0 Hrows) as (xs & rows' & Hxs & Hrs & ->).
    exists (x :: xs), (r :: rows'). repeat split.
    + cbn [omap]. rewrite Hx. cbn [obind]. rewrite Hxs. reflexivity.
    + cbn [omap]. rewrite Hr. cbn [obind]. rewrite Hrs. reflexivity.
Qed.

Lemma rows_of_step cs p index :
  rows_of cs (p :: index)
  = do row <- omap (fun nc => cell_at (snd nc) p) cs; do rows <- rows_of cs index; Ok (row :: rows).
Proof. reflexivity. Qed.

Lemma row_step (n : bytes) c (cs : list (bytes * coldata)) p :
  omap (fun nc => cell_at (snd nc) p) ((n, c) :: cs)
  = do x <- cell_at c p; do r <- omap (fun nc => cell_at (snd nc) p) cs; Ok (x :: r).
Proof. reflexivity. Qed.

Lemma rows_of_cons_ok n c cs : forall index xs rows',
  omap (cell_at c) index = Ok xs -> rows_of cs index = Ok rows' ->
  rows_of ((n, c) :: cs) index = Ok (zipc xs rows').
Proof.
  induction index as [|p index IH]; intros xs rows' Hxs Hrs.
  - simpl in *. inversion Hxs; inversion Hrs; subst. reflexivity.
  - apply omap_cons_ok in Hxs as (x & xs0 & Hx & Hxs & ->).
    rewrite rows_of_step in Hrs.
    destruct (omap (fun nc => cell_at (snd nc) p) cs) as [r| |] eqn:Hr; simpl in Hrs; try discriminate.
    destruct (rows_of cs index) as [rs0| |] eqn:Hrs0; simpl in Hrs; try discriminate.
    inversion Hrs; subst.
    rewrite rows_of_step, row_step, Hx. cbn [obind]. rewrite Hr. cbn [obind].
    rewrite (IH xs0 rs0 Hxs eq_refl). reflexivity.
Qed.

Lemma rows_of_len cs index rows : rows_of cs index = Ok rows -> length rows = length index.
Proof. apply omap_len. Qed.

(* every row has one cell per column *)
Lemma rows_of_width cs index rows : rows_of cs index = Ok rows -> Forall (fun r => length r = length cs) rows.
Proof.
  unfold rows_of. revert rows. induction index as [|p index IH]; intros rows H.
  - simpl in H. inversion H. constructor.
  - apply omap_cons_ok in H as (row & rows0 & Hrow & Hrows & ->).
    constructor; [apply (omap_len _ _ _ Hrow)|apply IH; exact Hrows].
Qed.

(* column j of the rows is the j-th column read through the index *)
Lemma rows_of_column cs j n c : nth_error cs j = Some (n, c) -> forall index rows,
  rows_of cs index = Ok rows ->
  omap (cell_at c) index = Ok (map (fun r => nth j r (CInt 0)) rows).
Proof.
  intros Hj. unfold rows_of. induction index as [|p index IH]; intros rows H.
  - simpl in H. inversion H. reflexivity.
  - apply omap_cons_ok in H as (row & rows0 & Hrow & Hrows & ->).
    destruct (omap_nth_error _ _ _ _ _ Hrow Hj) as (x & Hx & Hnx). simpl in Hx.
    cbn [omap map]. rewrite Hx. cbn [obind]. rewrite (IH rows0 Hrows). cbn [obind].
    rewrite (nth_error_nth _ _ _ Hnx). reflexivity.
Qed.

(* ------------------------------------------------------------------ Equals = tequal of the two tables *)

Fixpoint equals_cols (fi gi : list nat) (a b : list (bytes * coldata)) : outcome bool :=
  match a, b with
  | (n, c) :: a', (m, o) :: b' =>
      if negb (bytes_eqb n m) then Ok false
      else do e <- col_equals c fi o gi; if e then equals_cols fi gi a' b' else Ok false
  | _, _ => Ok true
  end.

Lemma equals_unfold f g :
  equals f g = if negb (Nat.eqb (length (ix f)) (length (ix g))) then Ok false
               else if negb (Nat.eqb (length (cols f)) (length (cols g))) then Ok false
               else equals_cols (ix f) (ix g) (cols f) (cols g).
Proof.
  unfold equals.
  destruct (negb (Nat.eqb (length (ix f)) (length (ix g)))); [reflexivity|].
  destruct (negb (Nat.eqb (length (cols f)) (length (cols g)))); [reflexivity|].
  generalize (cols g) as b. generalize (cols f) as a.
  induction a as [|[n c] a IH]; intros [|[m o] b]; try reflexivity.
  cbn [equals_cols]. destruct (negb (bytes_eqb n m)); [reflexivity|].
  destruct (col_equals c (ix f) o (ix g)) as [[|]| |]; cbn [obind]; try reflexivity. apply IH.
Qed.

Lemma rows_eqb_zipc : forall xs ys r1 r2,
  length xs = length r1 -> length ys = length r2 ->
  list_eqb (list_eqb cell_eqb) (zipc xs r1) (zipc ys r2)
  = list_eqb cell_eqb xs ys && list_eqb (list_eqb cell_eqb) r1 r2.
Proof.
  induction xs as [|x xs IH]; intros [|y ys] [|a r1] [|b r2] H1 H2; simpl in *; try discriminate; try reflexivity.
  rewrite (IH ys r1 r2) by lia.
  destruct (cell_eqb x y), (list_eqb cell_eqb a b), (list_eqb cell_eqb xs ys); reflexivity.
Qed.

Lemma rows_eqb_empty {A B} (l1 : list A) (l2 : list B) : length l1 = length l2 ->
  list_eqb (list_eqb cell_eqb) (map (fun _ => []) l1) (map (fun _ => []) l2) = true.
Proof. revert l2. induction l1 as [|x l1 IH]; intros [|y l2] H; simpl in *; try discriminate; auto. Qed.

Lemma equals_cols_spec fi gi : length fi = length gi -> forall a b ra rb,
  length a = length b -> rows_of a fi = Ok ra -> rows_of b gi = Ok rb ->
  equals_cols fi gi a b
  = Ok (list_eqb bytes_eqb (map fst a) (map fst b) && list_eqb ctype_eqb (col_types a) (col_types b)
        && list_eqb (list_eqb cell_eqb) ra rb).
Proof.
  intro Hlen. induction a as [|[n c] a IH]; intros [|[m o] b] ra rb Hab Ha Hb; simpl in Hab; try discriminate.
  - rewrite rows_of_nil in Ha, Hb. inversion Ha; inversion Hb; subst.
    simpl. rewrite rows_eqb_empty by exact Hlen. reflexivity.
  - apply rows_of_cons in Ha as (xs & ra' & Hxs & Hra & ->).
    apply rows_of_cons in Hb as (ys & rb' & Hys & Hrb & ->).
    cbn [equals_cols map fst snd col_types list_eqb].
    destruct (bytes_eqb n m); simpl negb; cbv iota; [|reflexivity].
    rewrite (col_equals_spec c o fi gi xs ys Hlen Hxs Hys). cbn [obind].
    pose proof (omap_len _ _ _ Hxs) as L1. pose proof (omap_len _ _ _ Hys) as L2.
    pose proof (rows_of_len _ _ _ Hra) as L3. pose proof (rows_of_len _ _ _ Hrb) as L4.
    rewrite rows_eqb_zipc by lia.
    destruct (ctype_eqb (col_type c) (col_type o)); simpl; [|rewrite andb_false_r; reflexivity].
    destruct (list_eqb cell_eqb xs ys); simpl; [|rewrite !andb_false_r; reflexivity].
    rewrite (IH b ra' rb') by (auto; lia). reflexivity.
Qed.

(* THE CHARACTERISATION: on frames whose tables can be read, Equals answers exactly [tequal] of the two
   logical tables, whatever the physical layouts and row indexes are *)
Theorem equals_spec f g tf tg :
  abs f = Ok tf -> abs g = Ok tg -> equals f g = Ok (tequal tf tg).
Proof.
  intros Hf Hg.
  destruct (abs_ok f tf Hf) as (Rf & Nf & Tf). destruct (abs_ok g tg Hg) as (Rg & Ng & Tg).
  rewrite equals_unfold. unfold tequal. rewrite Nf, Ng, Tf, Tg.
  destruct (Nat.eqb (length (ix f)) (length (ix g))) eqn:E1; simpl negb; cbv iota.
  - destruct (Nat.eqb (length (cols f)) (length (cols g))) eqn:E2; simpl negb; cbv iota.
    + apply Nat.eqb_eq in E1, E2. apply (equals_cols_spec _ _ E1 _ _ _ _ E2 Rf Rg).
    + destruct (list_eqb bytes_eqb (col_names f) (col_names g)) eqn:E3; [|reflexivity].
      apply list_eqb_len in E3. unfold col_names in E3. rewrite !map_length in E3.
      apply Nat.eqb_neq in E2. contradiction.
  - destruct (list_eqb (list_eqb cell_eqb) (trows tf) (trows tg)) eqn:E3; [|rewrite andb_false_r; reflexivity].
    apply list_eqb_len in E3. rewrite (rows_of_len _ _ _ Rf), (rows_of_len _ _ _ Rg) in E3.
    apply Nat.eqb_neq in E1. contradiction.
Qed.

(* [tequal] spelled out *)
Definition cell_eq (x y : cell) : Prop := cell_eqb x y = true.

Theorem tequal_iff a b :
  tequal a b = true <->
  tnames a = tnames b /\ ttypes a = ttypes b /\ Forall2 (Forall2 cell_eq) (trows a) (trows b).
Proof.
  unfold tequal. rewrite !andb_true_iff.
  rewrite (list_eqb_spec bytes_eqb bytes_eqb_spec), (list_eqb_spec ctype_eqb ctype_eqb_eq).
  rewrite list_eqb_Forall2.
  assert (E : Forall2 (fun x y => list_eqb cell_eqb x y = true) (trows a) (trows b)
              <-> Forall2 (Forall2 cell_eq) (trows a) (trows b)).
  { split; intro H; induction H; constructor; auto; apply list_eqb_Forall2; assumption. }
  rewrite E. tauto.
Qed.

Lemma rows_eqb_refl rs : list_eqb (list_eqb cell_eqb) rs rs = true.
Proof. induction rs as [|r rs IH]; simpl; [reflexivity|]. rewrite list_eqb_cell_refl, IH. reflexivity. Qed.

Lemma rows_eqb_sym : forall r1 r2, list_eqb (list_eqb cell_eqb) r1 r2 = list_eqb (list_eqb cell_eqb) r2 r1.
Proof.
  induction r1 as [|x r1 IH]; intros [|y r2]; simpl; try reflexivity. rewrite list_eqb_cell_sym, IH. reflexivity.
Qed.

Lemma rows_eqb_trans : forall r1 r2 r3,
  list_eqb (list_eqb cell_eqb) r1 r2 = true -> list_eqb (list_eqb cell_eqb) r2 r3 = true ->
  list_eqb (list_eqb cell_eqb) r1 r3 = true.
Proof.
  induction r1 as [|x r1 IH]; intros [|y r2] [|z r3]; simpl; try discriminate; try reflexivity.
  intros H1 H2. apply andb_true_iff in H1 as [A1 B1]. apply andb_true_iff in H2 as [A2 B2].
  rewrite (list_eqb_cell_trans x y z A1 A2), (IH r2 r3 B1 B2). reflexivity.
Qed.

Lemma list_eqb_refl_of {A} (e : A -> A -> bool) : (forall x, e x x = true) -> forall l, list_eqb e l l = true.
Proof. intros He l. induction l as [|x l IH]; simpl; [reflexivity|]. rewrite He, IH. reflexivity. Qed.

Lemma tequal_refl a : tequal a a = true.
Proof.
  unfold tequal. rewrite (list_eqb_refl_of _ bytes_eqb_refl), (list_eqb_refl_of _ ctype_eqb_refl), rows_eqb_refl.
  reflexivity.
Qed.

Lemma bool_eq_iff (x y : bool) : (x = true <-> y = true) -> x = y.
Proof. destruct x, y; intros [H1 H2]; try reflexivity; [symmetry; apply H1; reflexivity|apply H2; reflexivity]. Qed.

Lemma tequal_sym a b : tequal a b = tequal b a.
Proof.
  unfold tequal. rewrite (rows_eqb_sym (trows a) (trows b)). f_equal. f_equal.
  - apply bool_eq_iff. rewrite !(list_eqb_spec bytes_eqb bytes_eqb_spec). split; congruence.
  - apply bool_eq_iff. rewrite !(list_eqb_spec ctype_eqb ctype_eqb_eq). split; congruence.
Qed.

Lemma tequal_trans a b c : tequal a b = true -> tequal b c = true -> tequal a c = true.
Proof.
  unfold tequal. rewrite !andb_true_iff. intros [[N1 T1] R1] [[N2 T2] R2].
  apply (list_eqb_spec bytes_eqb bytes_eqb_spec) in N1, N2. apply (list_eqb_spec ctype_eqb ctype_eqb_eq) in T1, T2.
  repeat split.
  - apply (list_eqb_spec bytes_eqb bytes_eqb_spec). congruence.
  - apply (list_eqb_spec ctype_eqb ctype_eqb_eq). congruence.
  - apply (rows_eqb_trans _ _ _ R1 R2).
Qed.

(* frame level: Equals is symmetric and transitive on frames whose tables can be read *)
Theorem equals_sym f g tf tg : abs f = Ok tf -> abs g = Ok tg -> equals f g = equals g f.
Proof. intros Hf Hg. rewrite (equals_spec f g tf tg Hf Hg), (equals_spec g f tg tf Hg Hf), tequal_sym. reflexivity. Qed.

Theorem equals_trans f g h tf tg th :
  abs f = Ok tf -> abs g = Ok tg -> abs h = Ok th ->
  equals f g = Ok true -> equals g h = Ok true -> equals f h = Ok true.
Proof.
  intros Hf Hg Hh. rewrite (equals_spec f g tf tg Hf Hg), (equals_spec g h tg th Hg Hh), (equals_spec f h tf th Hf Hh).
  intros H1 H2. injection H1 as E1. injection H2 as E2.
  f_equal. exact (tequal_trans tf tg th E1 E2).
Qed.

(* ------------------------------------------------------------------ well-formed frames can be read *)

Lemma idx_lt {A} (l : list A) p : p < length l -> exists x, idx l p = Ok x.
Proof.
  intro H. unfold idx. destruct (nth_error l p) as [x|] eqn:E; [exists x; reflexivity|].
  apply nth_error_None in E. lia.
Qed.

Lemma cell_at_wf c p : col_wf c = true -> p < col_len c -> exists x, cell_at c p = Ok x.
Proof.
  intros Hwf Hp. destruct c as [d|d|d|d|d vs st]; simpl in *;
    try (destruct (idx_lt d p Hp) as [x Hx]; rewrite Hx; simpl; eexists; reflexivity).
  unfold idx at 1. destruct (nth_error d p) as [r|] eqn:E; [|apply nth_error_None in E; lia].
  simpl. apply andb_true_iff in Hwf as [Hall _].
  rewrite forallb_forall in Hall. specialize (Hall r (nth_error_In _ _ E)).
  unfold enum_rank_ok in Hall. unfold enum_string.
  destruct (enum_is_null r); simpl in *; [eexists; reflexivity|].
  apply Nat.ltb_lt in Hall. destruct (idx_lt vs (N.to_nat r) Hall) as [s Hs]. rewrite Hs. simpl. eexists; reflexivity.
Qed.

Theorem wf_abs f : wf_frame f = true -> exists t, abs f = Ok t.
Proof.
  unfold wf_frame. intro H. apply andb_true_iff in H as [Hc Hi].
  rewrite forallb_forall in Hc, Hi.
  assert (Hrows : exists rows, rows_of (cols f) (ix f) = Ok rows).
  { unfold rows_of. revert Hi. generalize (ix f) as index.
    induction index as [|p index IH]; intro Hi; [exists []; reflexivity|].
    destruct IH as [rows Hrows]; [intros q Hq; apply Hi; right; exact Hq|].
    assert (Hp : p < phys_len f) by (apply Nat.ltb_lt; apply Hi; left; reflexivity).
    assert (Hrow : exists row, omap (fun nc : bytes * coldata => cell_at (snd nc) p) (cols f) = Ok row).
    { revert Hc. generalize (cols f) as cs. induction cs as [|nc cs IHc]; intro Hc; [exists []; reflexivity|].
      destruct IHc as [row Hrow]; [intros x Hx; apply Hc; right; exact Hx|].
      specialize (Hc nc (or_introl eq_refl)). apply andb_true_iff in Hc as [Hl Hw]. apply Nat.eqb_eq in Hl.
      destruct (cell_at_wf (snd nc) p Hw) as [x Hx]; [lia|].
      exists (x :: row). simpl. rewrite Hx. simpl. rewrite Hrow. reflexivity. }
    destruct Hrow as [row Hrow]. exists (row :: rows). simpl. rewrite Hrow. simpl. rewrite Hrows. reflexivity. }
  destruct Hrows as [rows Hrows]. eexists. apply abs_of_rows. exact Hrows.
Qed.

(* Equals(a, b) is true exactly when: same column names in the same order, same column types, pairwise
   equal cells *)
Theorem equals_iff f g tf tg :
  abs f = Ok tf -> abs g = Ok tg ->
  (equals f g = Ok true <->
   tnames tf = tnames tg /\ ttypes tf = ttypes tg /\ Forall2 (Forall2 cell_eq) (trows tf) (trows tg)).
Proof.
  intros Hf Hg. rewrite (equals_spec f g tf tg Hf Hg), <- tequal_iff.
  split; intro H; [injection H as H; exact H|rewrite H; reflexivity].
Qed.

Theorem equals_iff_wf f g :
  wf_frame f = true -> wf_frame g = true ->
  exists tf tg, abs f = Ok tf /\ abs g = Ok tg /\
    (equals f g = Ok true <->
     tnames tf = tnames tg /\ ttypes tf = ttypes tg /\ Forall2 (Forall2 cell_eq) (trows tf) (trows tg)).
Proof.
  intros Wf Wg. destruct (wf_abs f Wf) as [tf Hf]. destruct (wf_abs g Wg) as [tg Hg].
  exists tf, tg. split; [exact Hf|]. split; [exact Hg|]. apply equals_iff; assumption.
Qed.

(* on well-formed frames Equals never faults and is an equivalence relation *)
Theorem equals_total_wf f g : wf_frame f = true -> wf_frame g = true -> exists b, equals f g = Ok b.
Proof.
  intros Wf Wg. destruct (wf_abs f Wf) as [tf Hf]. destruct (wf_abs g Wg) as [tg Hg].
  eexists. apply (equals_spec f g tf tg Hf Hg).
Qed.

Theorem equals_refl_wf f : wf_frame f = true -> equals f f = Ok true.
Proof. intro Wf. destruct (wf_abs f Wf) as [tf Hf]. apply (equals_refl f tf Hf). Qed.

Theorem equals_sym_wf f g : wf_frame f = true -> wf_frame g = true -> equals f g = equals g f.
Proof.
  intros Wf Wg. destruct (wf_abs f Wf) as [tf Hf]. destruct (wf_abs g Wg) as [tg Hg].
  apply (equals_sym f g tf tg Hf Hg).
Qed.

Theorem equals_trans_wf f g h :
  wf_frame f = true -> wf_frame g = true -> wf_frame h = true ->
  equals f g = Ok true -> equals g h = Ok true -> equals f h = Ok true.
Proof.
  intros Wf Wg Wh. destruct (wf_abs f Wf) as [tf Hf]. destruct (wf_abs g Wg) as [tg Hg].
  destruct (wf_abs h Wh) as [th Hh]. apply (equals_trans f g h tf tg th Hf Hg Hh).
Qed.

(* ================================================================== the observers *)

(* ------------------------------------------------------------------ Len *)
Theorem len_spec f t : ferr f = false -> abs f = Ok t -> frame_len f = Z.of_nat (length (trows t)).
Proof.
  intros He Ht. destruct (abs_ok f t Ht) as (R & _ & _). unfold frame_len. rewrite He.
  rewrite (rows_of_len _ _ _ R). reflexivity.
Qed.

(* ------------------------------------------------------------------ the by-name map *)

Lemma lookup_from_nth name : forall cs pos acc q c,
  lookup_from name cs pos acc = Some (q, c) ->
  acc = Some (q, c) \/ (pos <= q /\ nth_error cs (q - pos) = Some (name, c)).
Proof.
  induction cs as [|[n c0] cs IH]; intros pos acc q c H; simpl in H; [left; exact H|].
  apply IH in H. destruct H as [H|[H1 H2]].
  - destruct (bytes_eqb n name) eqn:E; [|left; exact H].
    inversion H; subst. right. split; [lia|]. rewrite Nat.sub_diag. simpl.
    apply bytes_eqb_spec in E. subst. reflexivity.
  - right. split; [lia|]. replace (q - pos) with (S (q - S pos)) by lia. exact H2.
Qed.

Lemma lookup_nth f name q c : lookup f name = Some (q, c) -> nth_error (cols f) q = Some (name, c).
Proof.
  unfold lookup. intro H. apply lookup_from_nth in H as [H|[_ H]]; [discriminate|].
  rewrite Nat.sub_0_r in H. exact H.
Qed.

Lemma last_pos_lookup name : forall cs pos acc acc',
  acc = option_map fst acc' ->
  last_pos_from name (map fst cs) pos acc = option_map fst (lookup_from name cs pos acc').
Proof.
  induction cs as [|[n c] cs IH]; intros pos acc acc' H; simpl; [exact H|].
  apply IH. destruct (bytes_eqb n name); [reflexivity|exact H].
Qed.

Lemma tpos_lookup f t name : abs f = Ok t -> tpos t name = option_map fst (lookup f name).
Proof.
  intro Ht. destruct (abs_ok f t Ht) as (_ & N & _). unfold tpos, lookup. rewrite N. unfold col_names.
  apply last_pos_lookup. reflexivity.
Qed.

(* the column a name denotes in the table is the column the by-name map resolves to, read through the index *)
Lemma tcolumn_lookup f t name ty cells :
  abs f = Ok t -> tcolumn t name = Some (ty, cells) ->
  exists j c, lookup f name = Some (j, c) /\ col_type c = ty /\ omap (cell_at c) (ix f) = Ok cells
              /\ cells = map (fun r => nth j r (CInt 0)) (trows t).
Proof.
  intros Ht Hc. destruct (abs_ok f t Ht) as (R & N & T).
  unfold tcolumn in Hc. rewrite (tpos_lookup f t name Ht) in Hc.
  destruct (lookup f name) as [[j c]|] eqn:El; simpl in Hc; [|discriminate].
  inversion Hc; subst. clear Hc. exists j, c. split; [reflexivity|].
  pose proof (lookup_nth f name j c El) as Hn.
  split; [|split; [|reflexivity]].
  - rewrite T. unfold col_types. symmetry. apply nth_error_nth. rewrite nth_error_map, Hn. reflexivity.
  - apply (rows_of_column _ _ _ _ Hn _ _ R).
Qed.

(* ------------------------------------------------------------------ typed views *)

(* XView(name) of the right type succeeds; Slice returns exactly that column of the table, in row order *)
Theorem view_slice_spec f t name ty cells :
  abs f = Ok t -> tcolumn t name = Some (ty, cells) -> frame_view_slice f ty name = Ok cells.
Proof.
  intros Ht Hc. destruct (tcolumn_lookup f t name ty cells Ht Hc) as (j & c & El & Hty & Hcells & _).
  unfold frame_view_slice, get_view, lookup_col. rewrite El. simpl. rewrite Hty, ctype_eqb_refl. simpl.
  unfold view_slice. simpl. exact Hcells.
Qed.

Theorem view_len_spec f t name ty cells :
  abs f = Ok t -> tcolumn t name = Some (ty, cells) ->
  frame_view_len f ty name = Ok (Z.of_nat (length (trows t))) /\ length cells = length (trows t).
Proof.
  intros Ht Hc. destruct (tcolumn_lookup f t name ty cells Ht Hc) as (j & c & El & Hty & Hcells & Hmap).
  destruct (abs_ok f t Ht) as (R & _ & _).
  split.
  - unfold frame_view_len, get_view, lookup_col. rewrite El. simpl. rewrite Hty, ctype_eqb_refl. simpl.
    unfold view_len. simpl. rewrite (rows_of_len _ _ _ R). reflexivity.
  - rewrite Hmap, map_length. reflexivity.
Qed.

Lemma omap_idx {A B} (g : A -> outcome B) : forall l r i,
  omap g l = Ok r -> (do p <- idx l i; g p) = of_option (nth_error r i).
Proof.
  induction l as [|x l IH]; intros r i H.
  - simpl in H. inversion H. destruct i; reflexivity.
  - apply omap_cons_ok in H as (y & ys & Hy & Hys & ->).
    destruct i as [|i]; simpl; [exact Hy|]. apply (IH ys i Hys).
Qed.

(* ItemAt(i) is the i-th cell of that column; outside 0 <= i < Len it panics *)
Theorem view_item_spec f t name ty cells i :
  abs f = Ok t -> tcolumn t name = Some (ty, cells) ->
  frame_view_item f ty name i = if (i <? 0)%Z then Panic else of_option (nth_error cells (Z.to_nat i)).
Proof.
  intros Ht Hc. destruct (tcolumn_lookup f t name ty cells Ht Hc) as (j & c & El & Hty & Hcells & _).
  unfold frame_view_item, get_view, lookup_col. rewrite El. simpl. rewrite Hty, ctype_eqb_refl. simpl.
  unfold view_item. simpl. destruct (i <? 0)%Z; [reflexivity|].
  apply (omap_idx _ _ _ _ Hcells).
Qed.

(* a view of another type, or of an unknown name, is refused *)
Theorem view_wrong_type f t name ty cells ty' :
  abs f = Ok t -> tcolumn t name = Some (ty, cells) -> ty' <> ty -> get_view f ty' name = Fail.
Proof.
  intros Ht Hc Hne. destruct (tcolumn_lookup f t name ty cells Ht Hc) as (j & c & El & Hty & _).
  unfold get_view, lookup_col. rewrite El. simpl. rewrite Hty.
  destruct (ctype_eqb ty ty') eqn:E; [|reflexivity]. apply ctype_eqb_eq in E. congruence.
Qed.

Theorem view_unknown f t name ty : abs f = Ok t -> tcolumn t name = None -> get_view f ty name = Fail.
Proof.
  intros Ht Hc. unfold tcolumn in Hc. rewrite (tpos_lookup f t name Ht) in Hc.
  unfold get_view, lookup_col. destruct (lookup f name) as [[j c]|]; [discriminate|reflexivity].
Qed.

(* reading a view item by item (ItemAt(0) .. ItemAt(Len-1)) gives the same as Slice *)
Lemma omap_seq_nth {A B} (g : A -> outcome B) : forall l r,
  omap g l = Ok r -> forall k pre, length pre = k ->
  omap (fun j => do p <- idx (pre ++ l) j; g p) (seq k (length l)) = Ok r.
Proof.
  induction l as [|x l IH]; intros r H k pre Hk.
  - simpl in H. inversion H. reflexivity.
  - apply omap_cons_ok in H as (y & ys & Hy & Hys & ->).
    cbn [length seq omap]. unfold idx at 1. rewrite nth_error_app2 by lia.
    replace (k - length pre) with 0 by lia. cbn [nth_error of_option obind]. rewrite Hy. cbn [obind].
    specialize (IH ys Hys (S k) (pre ++ [x])). rewrite <- app_assoc in IH. cbn [app] in IH.
    rewrite IH by (rewrite app_length; simpl; lia). reflexivity.
Qed.

Theorem view_items_slice v r : view_slice v = Ok r -> view_items v = Ok r.
Proof.
  unfold view_slice, view_items. intro H.
  rewrite (omap_ext_in _ (fun j => do p <- idx ([] ++ v_index v) j; cell_at (v_col v) p)).
  - apply (omap_seq_nth _ _ _ H 0 []). reflexivity.
  - intros j _. unfold view_item. destruct (Z.of_nat j <? 0)%Z eqn:E; [lia|].
    rewrite Nat2Z.id. reflexivity.
Qed.

(* ------------------------------------------------------------------ the frame as read through the views *)

Lemma obind_assoc {A B C} (a : outcome A) (g : A -> outcome B) (h : B -> outcome C) :
  (do y <- (do x <- a; g x); h y) = (do x <- a; do y <- g x; h y).
Proof. destruct a; reflexivity. Qed.

Lemma omap_inj {A} (inj : A -> cell) (g : nat -> outcome A) : forall index cells,
  omap (fun p => do z <- g p; Ok (inj z)) index = Ok cells ->
  exists zs, cells = map inj zs /\ omap g index = Ok zs.
Proof.
  induction index as [|p index IH]; intros cells H.
  - simpl in H. inversion H. exists []. auto.
  - apply omap_cons_ok in H as (y & ys & Hy & Hys & ->).
    destruct (g p) as [z| |] eqn:Eg; simpl in Hy; try discriminate. inversion Hy; subst.
    destruct (IH ys Hys) as (zs & -> & Hzs). exists (z :: zs). split; [reflexivity|].
    simpl. rewrite Eg. simpl. rewrite Hzs. reflexivity.
Qed.

Lemma omap_prj_inj {A} (inj : A -> cell) (prj : cell -> outcome A) :
  (forall z, prj (inj z) = Ok z) -> forall zs, omap prj (map inj zs) = Ok zs.
Proof.
  intros H zs. induction zs as [|z zs IH]; simpl; [reflexivity|]. rewrite H. simpl. rewrite IH. reflexivity.
Qed.

(* what a column yields through an index, by column type *)
Lemma col_cells_shape c index cells :
  omap (cell_at c) index = Ok cells ->
  match col_type c with
  | TInt => exists zs, cells = map CInt zs
  | TFloat => exists zs, cells = map CFloat zs
  | TBool => exists zs, cells = map CBool zs
  | TString => exists zs, cells = map CStr zs
  | TEnum => exists zs, cells = map CEnum zs
  end.
Proof.
  destruct c as [d|d|d|d|d vs st]; simpl; intro H.
  - destruct (omap_inj CInt (idx d) index cells H) as (zs & -> & _). exists zs. reflexivity.
  - destruct (omap_inj CFloat (idx d) index cells H) as (zs & -> & _). exists zs. reflexivity.
  - destruct (omap_inj CBool (idx d) index cells H) as (zs & -> & _). exists zs. reflexivity.
  - destruct (omap_inj CStr (idx d) index cells H) as (zs & -> & _). exists zs. reflexivity.
  - rewrite (omap_ext_in _ (fun p => do s <- (do r <- idx d p; enum_string vs r); Ok (CEnum s))) in H
      by (intros p _; rewrite obind_assoc; reflexivity).
    destruct (omap_inj CEnum _ index cells H) as (zs & -> & _). exists zs. reflexivity.
Qed.

Section Serializers.
Variable ff : N -> bytes.     (* strconv.FormatFloat(x, 'f', -1, 64) *)
Variable af : N -> bytes.     (* ryu.AppendFloat64f *)

(* the Go slice of a typed view, as a typed column: never the impossible case, same length, and its CSV
   strings are the CSV strings of the cells *)
Lemma typed_column_spec c index cells :
  omap (cell_at c) index = Ok cells ->
  exists col, typed_column (col_type c) (enum_values c) cells = Ok col
              /\ col_strings ff col = map (csv_cell ff) cells /\ CsvSpec.col_len col = length cells.
Proof.
  intro H. pose proof (col_cells_shape c index cells H) as S.
  destruct (col_type c); destruct S as (zs & ->); unfold typed_column.
  - rewrite (omap_prj_inj CInt) by reflexivity. eexists. split; [reflexivity|].
    cbn [col_strings CsvSpec.col_len]. rewrite !map_map, map_length. split; reflexivity.
  - rewrite (omap_prj_inj CFloat) by reflexivity. eexists. split; [reflexivity|].
    cbn [col_strings CsvSpec.col_len]. rewrite !map_map, map_length. split; reflexivity.
  - rewrite (omap_prj_inj CBool) by reflexivity. eexists. split; [reflexivity|].
    cbn [col_strings CsvSpec.col_len]. rewrite !map_map, map_length. split; reflexivity.
  - rewrite (omap_prj_inj CStr) by reflexivity. eexists. split; [reflexivity|].
    cbn [col_strings CsvSpec.col_len]. rewrite !map_map, map_length. split; reflexivity.
  - rewrite (omap_prj_inj CEnum) by reflexivity. eexists. split; [reflexivity|].
    cbn [col_strings CsvSpec.col_len]. rewrite !map_map, map_length. split; reflexivity.
Qed.

(* unique names: the by-name map resolves every column's name to that column *)
Lemma lookup_from_notin name : forall cs pos acc, ~ In name (map fst cs) -> lookup_from name cs pos acc = acc.
Proof.
  induction cs as [|[n c] cs IH]; intros pos acc H; simpl; [reflexivity|].
  simpl in H. rewrite IH by tauto.
  destruct (bytes_eqb n name) eqn:E; [|reflexivity]. apply bytes_eqb_spec in E. tauto.
Qed.

Lemma lookup_from_nodup n c : forall cs pos acc,
  NoDup (map fst cs) -> In (n, c) cs -> option_map snd (lookup_from n cs pos acc) = Some c.
Proof.
  induction cs as [|[n0 c0] cs IH]; intros pos acc Hnd Hin; [destruct Hin|].
  simpl in Hnd. inversion Hnd as [|? ? Hnotin Hnd']; subst. simpl.
  destruct Hin as [Heq|Hin].
  - inversion Heq; subst. rewrite bytes_eqb_refl. rewrite lookup_from_notin by exact Hnotin. reflexivity.
  - apply IH; assumption.
Qed.

Lemma lookup_col_nodup f nc : NoDup (col_names f) -> In nc (cols f) -> lookup_col f (fst nc) = Some (snd nc).
Proof.
  intros Hnd Hin. destruct nc as [n c]. unfold lookup_col, lookup. apply lookup_from_nodup; assumption.
Qed.

Definition observe_one (f : frame) (nc : bytes * coldata) : outcome (bytes * CsvSpec.column) :=
  do c <- observe_named f (col_type (snd nc)) (fst nc); Ok (fst nc, c).

Lemma nth_error_zipc : forall xs rs i x r,
  nth_error xs i = Some x -> nth_error rs i = Some r -> nth_error (zipc xs rs) i = Some (x :: r).
Proof.
  induction xs as [|x0 xs IH]; intros [|r0 rs] [|i] x r Hx Hr; simpl in *; try discriminate.
  - inversion Hx; inversion Hr; subst. reflexivity.
  - apply IH; assumption.
Qed.

Lemma nth_error_zipc_inv : forall xs rs i row,
  nth_error (zipc xs rs) i = Some row ->
  exists x r, nth_error xs i = Some x /\ nth_error rs i = Some r /\ row = x :: r.
Proof.
  induction xs as [|x0 xs IH]; intros [|r0 rs] [|i] row H; simpl in *; try discriminate.
  - inversion H; subst. exists x0, r0. auto.
  - apply IH. exact H.
Qed.

(* the observed columns, and row i of their CSV strings = the CSV strings of row i of the table *)
Lemma observe_cols f : forall cs rows,
  (forall nc, In nc cs -> lookup_col f (fst nc) = Some (snd nc)) ->
  rows_of cs (ix f) = Ok rows ->
  exists obs, omap (observe_one f) cs = Ok obs /\ map fst obs = map fst cs
    /\ Forall (fun o => CsvSpec.col_len (snd o) = length (ix f)) obs
    /\ forall i r, nth_error rows i = Some r ->
         record_at (map (fun nc => col_strings ff (snd nc)) obs) i = Ok (map (csv_cell ff) r).
Proof.
  induction cs as [|[n c] cs IH]; intros rows Hlk Hrows.
  - rewrite rows_of_nil in Hrows. inversion Hrows; subst. exists []. repeat split; try constructor.
    intros i r Hr. rewrite nth_error_map in Hr. destruct (nth_error (ix f) i); inversion Hr. reflexivity.
  - apply rows_of_cons in Hrows as (xs & rows' & Hxs & Hrows' & ->).
    destruct (IH rows') as (obs & Hobs & Hnames & Hlens & Hrec);
      [intros nc Hin; apply Hlk; right; exact Hin|exact Hrows'|].
    destruct (typed_column_spec c (ix f) xs Hxs) as (col & Hcol & Hstr & Hlen).
    assert (Hone : observe_one f (n, c) = Ok (n, col)).
    { pose proof (Hlk (n, c) (or_introl eq_refl)) as Hl. cbn [fst snd] in Hl.
      unfold observe_one, observe_named, get_view. cbn [fst snd].
      rewrite Hl. rewrite ctype_eqb_refl. cbn [obind].
      rewrite (view_items_slice (mkView c (ix f)) xs Hxs). cbn [obind v_col]. rewrite Hcol. reflexivity. }
    exists ((n, col) :: obs). split; [|split; [|split]].
    + cbn [omap]. rewrite Hone. cbn [obind]. rewrite Hobs. reflexivity.
    + simpl. f_equal. exact Hnames.
    + constructor; [|exact Hlens]. simpl. rewrite Hlen. apply (omap_len _ _ _ Hxs).
    + intros i row Hrow. apply nth_error_zipc_inv in Hrow as (x & r & Hx & Hr & ->).
      unfold record_at. cbn [map omap snd]. rewrite Hstr. unfold idx at 1.
      rewrite nth_error_map, Hx. cbn [option_map of_option obind].
      specialize (Hrec i r Hr). unfold record_at in Hrec. rewrite Hrec. reflexivity.
Qed.

Lemma omap_seq_rows {A B} (G : nat -> outcome B) (h : A -> B) : forall (rows : list A) k,
  (forall i r, nth_error rows i = Some r -> G (k + i) = Ok (h r)) ->
  omap G (seq k (length rows)) = Ok (map h rows).
Proof.
  induction rows as [|r rows IH]; intros k H; [reflexivity|].
  cbn [length seq omap map]. specialize (H 0 r eq_refl) as H0. rewrite Nat.add_0_r in H0. rewrite H0. cbn [obind].
  rewrite (IH (S k)); [reflexivity|].
  intros i r' Hr'. replace (S k + i) with (k + S i) by lia. apply H. exact Hr'.
Qed.

(* ToCSV (no Columns option): the records handed to the csv.Writer are the header (if requested) and then,
   row by row in index order, the StringAt renderings of the cells of [abs f].
   Premises: unique column names (ToCSV resolves every column BY NAME) and no rows without columns. *)
Theorem to_csv_records_spec f t hdr :
  abs f = Ok t -> NoDup (col_names f) -> (cols f = [] -> ix f = []) ->
  frame_to_csv_records ff f (mkToConf hdr None)
  = Ok (if hdr then tnames t :: map (map (csv_cell ff)) (trows t) else map (map (csv_cell ff)) (trows t)).
Proof.
  intros Ht Hnd Hempty. destruct (abs_ok f t Ht) as (R & N & _).
  destruct (observe_cols f (cols f) (trows t)) as (obs & Hobs & Hnames & Hlens & Hrec);
    [intros nc Hin; apply lookup_col_nodup; assumption|exact R|].
  unfold frame_to_csv_records, observe_frame. fold (observe_one f). rewrite Hobs. cbn [obind].
  unfold to_csv_records, iter_cols. cbn [tc_columns tc_header obind].
  assert (Hn : CsvWrite.frame_len obs = length (trows t)).
  { rewrite (rows_of_len _ _ _ R). destruct obs as [|[n0 c0] obs'].
    - destruct (cols f) as [|nc cs] eqn:Ec; [rewrite Hempty by reflexivity; reflexivity|discriminate].
    - inversion Hlens; subst. simpl in *. assumption. }
  rewrite Hn. rewrite (omap_seq_rows _ (map (csv_cell ff)) (trows t) 0) by (intros i r Hr; apply Hrec; exact Hr).
  cbn [obind]. rewrite N. unfold col_names. rewrite <- Hnames. reflexivity.
Qed.

Theorem to_csv_spec f t hdr :
  abs f = Ok t -> NoDup (col_names f) -> (cols f = [] -> ix f = []) ->
  frame_to_csv ff f (mkToConf hdr None)
  = Ok (concat (map (writer_write 44 false)
                    (if hdr then tnames t :: map (map (csv_cell ff)) (trows t)
                     else map (map (csv_cell ff)) (trows t)))).
Proof.
  intros Ht Hnd Hempty. pose proof (to_csv_records_spec f t hdr Ht Hnd Hempty) as H.
  unfold frame_to_csv_records in H. unfold frame_to_csv.
  destruct (observe_frame f) as [o| |]; simpl in *; try discriminate.
  unfold to_csv. rewrite H. reflexivity.
Qed.

(* ------------------------------------------------------------------ ToJSON *)

Lemma omap_bind2 {A B C} (G : A -> outcome B) (H : A -> outcome C) (K : B -> outcome C) : forall l r,
  omap G l = Ok r -> (forall x y, G x = Ok y -> H x = K y) -> omap H l = omap K r.
Proof.
  induction l as [|x l IH]; intros r Hr Hx.
  - simpl in Hr. inversion Hr. reflexivity.
  - apply omap_cons_ok in Hr as (y & ys & Hy & Hys & ->). simpl. rewrite (Hx x y Hy), (IH ys Hys Hx). reflexivity.
Qed.

Lemma omap_bind {A B C} (g : A -> outcome B) (h : B -> outcome C) l r :
  omap g l = Ok r -> omap (fun x => do y <- g x; h y) l = omap h r.
Proof.
  intro H. apply (omap_bind2 g _ h l r H). intros x y Hy. rewrite Hy. reflexivity.
Qed.

(* the cells ToJSON renders are the AppendByteStringAt renderings of the rows of [abs f], in order *)
Lemma json_rows_spec f t : abs f = Ok t -> json_rows af f = omap (omap (json_cell af)) (trows t).
Proof.
  intro Ht. destruct (abs_ok f t Ht) as (R & _ & _). unfold json_rows. unfold rows_of in R.
  apply (omap_bind2 _ _ _ _ _ R). intros p row Hrow. apply (omap_bind _ _ _ _ Hrow).
Qed.

Lemma json_cell_ok c : exists b, json_cell af c = Ok b.
Proof.
  destruct c as [z|x|b|[s|]|[s|]]; simpl; try (eexists; reflexivity);
    destruct (escape_valid s) as (out & Ho & _); exists out; exact Ho.
Qed.

Lemma omap_total_Forall2 {A B} (g : A -> outcome B) : (forall x, exists y, g x = Ok y) ->
  forall l, exists r, omap g l = Ok r /\ Forall2 (fun x y => g x = Ok y) l r.
Proof.
  intros Hg l. induction l as [|x l (r & Hr & HF)]; [exists []; split; [reflexivity|constructor]|].
  destruct (Hg x) as [y Hy]. exists (y :: r). split; [simpl; rewrite Hy; simpl; rewrite Hr; reflexivity|].
  constructor; assumption.
Qed.

(* ToJSON never fails; it performs the Write calls "[", one object per row of [abs f] in row order, "]";
   every object lists the columns in column order, key = the quoted column name, value = the rendering of
   the cell *)
Theorem to_json_spec f t :
  abs f = Ok t ->
  exists qnames cells,
    omap quoted_bytes (tnames t) = Ok qnames
    /\ Forall2 (Forall2 (fun c b => json_cell af c = Ok b)) (trows t) cells
    /\ frame_to_json af f = Ok (doc_text qnames cells)
    /\ frame_to_json_writes af f
       = Ok ([[c_lbracket]]
             ++ map (fun ir => (if (0 <? fst ir)%nat then [c_comma] else []) ++ object_text qnames (snd ir))
                    (combine (seq 0 (length cells)) cells)
             ++ [[c_rbracket]]).
Proof.
  intro Ht. destruct (abs_ok f t Ht) as (_ & N & _).
  destruct (omap_total_Forall2 (omap (json_cell af))
              (fun row => match omap_total_Forall2 (json_cell af) json_cell_ok row with
                          | ex_intro _ r (conj Hr _) => ex_intro _ r Hr end) (trows t)) as (cells & Hcells & HF).
  destruct (to_json_shape (tnames t) cells) as (qn & Hq & _ & Hdoc).
  exists qn, cells. split; [exact Hq|]. split; [|split].
  - clear - HF. induction HF as [|row bs rows cells Hrow _ IH]; constructor; [|exact IH].
    clear - Hrow. revert bs Hrow. induction row as [|c row IH]; intros bs H.
    + simpl in H. inversion H. constructor.
    + apply omap_cons_ok in H as (b & bs' & Hb & Hbs & ->). constructor; [exact Hb|apply IH; exact Hbs].
  - unfold frame_to_json. rewrite (json_rows_spec f t Ht), Hcells. cbn [obind]. rewrite <- N. exact Hdoc.
  - unfold frame_to_json_writes. rewrite (json_rows_spec f t Ht), Hcells. cbn [obind]. rewrite <- N.
    unfold to_json_writes. rewrite Hq. cbn [obind]. rewrite tojson_rows_eq. reflexivity.
Qed.

End Serializers.

(* a well-formed frame without columns has no rows *)
Lemma wf_no_cols f : wf_frame f = true -> cols f = [] -> ix f = [].
Proof.
  unfold wf_frame, phys_len. intros H Hc. rewrite Hc in H. simpl in H.
  destruct (ix f) as [|p i]; [reflexivity|]. simpl in H. discriminate.
Qed.

(* ================================================================== New from the observed values *)

Definition nf_step (data : list (bytes * newdata)) (enums : list (bytes * list bytes))
  (st : list (bytes * coldata) * nat * list bytes) (n : bytes)
  : outcome (list (bytes * coldata) * nat * list bytes) :=
  let '(acc, first, used) := st in
  match assocb n data with
  | None => Panic
  | Some d =>
      let en := if is_string_data d && negb (existsb (bytes_eqb n) used) then assocb n enums else None in
      do c <- create_column d en;
      let used' := match en with Some _ => n :: used | None => used end in
      let first' := match acc with [] => col_len c | _ => first end in
      if Nat.eqb first' (col_len c) then Ok (acc ++ [(n, c)], first', used') else Fail
  end.

Lemma new_frame_unfold data order enums :
  new_frame data order enums =
  if negb (forallb (fun kv => check_name (fst kv)) data) then Ok (mkFrame [] [] true)
  else
    let order' := match order with [] => sort_names (map fst data) | _ => order end in
    if negb (Nat.eqb (length order') (length data)) then Ok (mkFrame [] [] true)
    else if negb (forallb (fun n => match assocb n data with Some _ => true | None => false end) order')
    then Ok (mkFrame [] [] true)
    else if negb (nodup_bytes order') then Ok (mkFrame [] [] true)
    else match ofold (nf_step data enums) order' ([], 0, []) with
         | Ok (cs, len, used) =>
             if negb (forallb (fun kv => existsb (bytes_eqb (fst kv)) used) enums) then Ok (mkFrame [] [] true)
             else Ok (mkFrame cs (seq 0 len) false)
         | Fail => Ok (mkFrame [] [] true)
         | Panic => Panic
         end.
Proof. reflexivity. Qed.

Lemma ofold_cons {A B} (g : B -> A -> outcome B) l x b : ofold g (x :: l) b = do b' <- g b x; ofold g l b'.
Proof.
  unfold ofold. simpl. destruct (g b x) as [b'| |]; simpl; [reflexivity| |];
    induction l as [|y l IH]; simpl; auto.
Qed.

Lemma assocb_nodup {A} n (d : A) : forall l, NoDup (map fst l) -> In (n, d) l -> assocb n l = Some d.
Proof.
  induction l as [|[n0 d0] l IH]; intros Hnd Hin; [destruct Hin|].
  simpl in Hnd. inversion Hnd as [|? ? Hnotin Hnd']; subst. simpl.
  destruct Hin as [Heq|Hin].
  - inversion Heq; subst. rewrite bytes_eqb_refl. reflexivity.
  - destruct (bytes_eqb n0 n) eqn:E; [|apply IH; assumption].
    apply bytes_eqb_spec in E. subst. exfalso. apply Hnotin. apply (in_map fst _ _ Hin).
Qed.

Lemma assocb_notin {A} n : forall (l : list (bytes * A)), ~ In n (map fst l) -> assocb n l = None.
Proof.
  induction l as [|[n0 d0] l IH]; intro H; [reflexivity|]. simpl in *.
  destruct (bytes_eqb n0 n) eqn:E; [apply bytes_eqb_spec in E; tauto|]. apply IH. tauto.
Qed.

Lemma existsb_bytes_false n l : ~ In n l -> existsb (bytes_eqb n) l = false.
Proof.
  intro H. destruct (existsb (bytes_eqb n) l) eqn:E; [|reflexivity].
  apply existsb_exists in E as (x & Hx & Hex). apply bytes_eqb_spec in Hex. subst. contradiction.
Qed.

Lemma existsb_bytes_true n l : In n l -> existsb (bytes_eqb n) l = true.
Proof. intro H. apply existsb_exists. exists n. split; [exact H|apply bytes_eqb_refl]. Qed.

(* reading a freshly built typed column through the identity index gives back the values *)
Lemma read_back {A} (inj : A -> cell) (zs : list A) :
  omap (fun p => do z <- idx zs p; Ok (inj z)) (seq 0 (length zs)) = Ok (map inj zs).
Proof.
  apply (omap_seq_rows (fun p => do z <- idx zs p; Ok (inj z)) inj zs 0).
  intros i r Hr. simpl. unfold idx. rewrite Hr. reflexivity.
Qed.

(* the enum factory accepts every list of cells whose strings are declared *)
Lemma enum_fold_ok strict vals : forall zs acc,
  (forall s, In (Some s) zs -> In s vals) ->
  exists acc', ofold (enum_step strict) zs (vals, acc) = Ok (vals, acc').
Proof.
  induction zs as [|z zs IH]; intros acc H; [exists acc; reflexivity|].
  rewrite ofold_cons. destruct z as [b|]; cbn [enum_step].
  - destruct (find_value_last vals b) as [rk|] eqn:E.
    + cbn [obind]. apply IH. intros s Hs. apply H. right. exact Hs.
    + exfalso. apply (find_value_last_none vals b E). apply H. left. reflexivity.
  - cbn [obind]. apply IH. intros s Hs. apply H. right. exact Hs.
Qed.

Lemma enum_new_ok zs vs :
  length vs <= 255 -> NoDup vs -> (forall s, In (Some s) zs -> In s vs) ->
  exists d vals strict, enum_new zs vs = Ok (ECol d vals strict).
Proof.
  intros Hl Hnd Hin. rewrite enum_new_unfold. change (N.to_nat c_maxCardinality) with 255.
  destruct (255 <? length vs) eqn:E; [apply Nat.ltb_lt in E; lia|].
  rewrite (proj2 (nodup_bytes_spec vs) Hnd). cbv zeta. cbn [negb].
  destruct (enum_fold_ok (negb (length vs =? 0)) vs zs [] Hin) as [acc' Hacc]. rewrite Hacc.
  cbn [obind fst snd]. eexists _, _, _. reflexivity.
Qed.

(* the strings an enum column yields are in its value table *)
Lemma enum_cells_declared d vs st : forall index zs,
  omap (cell_at (ECol d vs st)) index = Ok (map CEnum zs) -> forall s, In (Some s) zs -> In s vs.
Proof.
  induction index as [|p index IH]; intros zs H s Hs.
  - simpl in H. inversion H as [E]. destruct zs; [destruct Hs|discriminate].
  - apply omap_cons_ok in H as (y & ys & Hy & Hys & E). destruct zs as [|z zs]; [discriminate|].
    inversion E; subst. destruct Hs as [->|Hs]; [|apply (IH zs Hys s Hs)].
    simpl in Hy. destruct (idx d p) as [r| |]; simpl in Hy; try discriminate.
    unfold enum_string in Hy. destruct (enum_is_null r); simpl in Hy; [discriminate|].
    unfold idx in Hy. destruct (nth_error vs (N.to_nat r)) as [s0|] eqn:En; simpl in Hy; [|discriminate].
    inversion Hy; subst. apply (nth_error_In _ _ En).
Qed.

Definition enum_decl (c : coldata) : option (list bytes) :=
  match c with ECol _ vs _ => Some vs | _ => None end.

Definition is_string_col (c : coldata) : bool :=
  match col_type c with TString | TEnum => true | _ => false end.

(* one column: the data handed to New is accepted and the new column reads back, through the identity index,
   exactly the cells the view of the old column returned *)
Lemma rebuild_col c index xs :
  omap (cell_at c) index = Ok xs -> col_wf c = true -> enum_table_nodup c = true ->
  exists d c', newdata_of_cells (col_type c) xs = Ok d
    /\ is_string_data d = is_string_col c
    /\ create_column d (enum_decl c) = Ok c'
    /\ (is_string_col c = false -> forall en, create_column d en = Ok c')
    /\ col_type c' = col_type c /\ col_len c' = length xs
    /\ omap (cell_at c') (seq 0 (length xs)) = Ok xs.
Proof.
  intros H Hwf Hndt. pose proof (col_cells_shape c index xs H) as S.
  destruct c as [d0|d0|d0|d0|d0 vs st]; cbn [col_type] in S; destruct S as (zs & ->);
    unfold newdata_of_cells; cbn [col_type].
  - rewrite (omap_prj_inj CInt) by reflexivity. eexists _, (ICol zs). cbn [obind].
    repeat split; try reflexivity; rewrite map_length; [reflexivity|apply (read_back CInt zs)].
  - rewrite (omap_prj_inj CFloat) by reflexivity. eexists _, (FCol zs). cbn [obind].
    repeat split; try reflexivity; rewrite map_length; [reflexivity|apply (read_back CFloat zs)].
  - rewrite (omap_prj_inj CBool) by reflexivity. eexists _, (BCol zs). cbn [obind].
    repeat split; try reflexivity; rewrite map_length; [reflexivity|apply (read_back CBool zs)].
  - rewrite (omap_prj_inj CStr) by reflexivity. eexists _, (SCol zs). cbn [obind].
    repeat split; try reflexivity; try discriminate; rewrite map_length; [reflexivity|apply (read_back CStr zs)].
  - rewrite (omap_prj_inj CEnum) by reflexivity. cbn [obind enum_decl create_column].
    simpl in Hwf. apply andb_true_iff in Hwf as [_ Hl]. apply Nat.leb_le in Hl.
    change (N.to_nat c_maxCardinality) with 255 in Hl.
    cbn [enum_table_nodup] in Hndt. apply nodup_bytes_spec in Hndt.
    destruct (enum_new_ok zs vs Hl Hndt (enum_cells_declared d0 vs st index zs H)) as (d & vals & strict & Hnew).
    destruct (enum_new_decode zs vs d vals strict Hnew) as (_ & _ & _ & Hlen & Hread).
    exists (DStrPtrs zs), (ECol d vals strict). cbn [create_column enum_decl]. rewrite Hnew.
    repeat split; try reflexivity; try discriminate.
    + cbn [col_len]. rewrite map_length. exact Hlen.
    + rewrite map_length. apply (omap_seq_rows _ CEnum zs 0). intros i r Hr. apply (Hread i r Hr).
Qed.

Definition col_rebuilt (index : list nat) (c : coldata) (d : newdata) (c' : coldata) : Prop :=
  is_string_data d = is_string_col c
  /\ create_column d (enum_decl c) = Ok c'
  /\ (is_string_col c = false -> forall en, create_column d en = Ok c')
  /\ col_type c' = col_type c /\ col_len c' = length index
  /\ omap (cell_at c') (seq 0 (length index)) = omap (cell_at c) index.

Definition col_same (index : list nat) (nc nc' : bytes * coldata) : Prop :=
  fst nc' = fst nc /\ col_type (snd nc') = col_type (snd nc) /\ col_len (snd nc') = length index
  /\ omap (cell_at (snd nc')) (seq 0 (length index)) = omap (cell_at (snd nc)) index.

(* the data map built from the views *)
Definition rebuild_one (f : frame) (nc : bytes * coldata) : outcome (bytes * newdata) :=
  do cs0 <- frame_view_slice f (col_type (snd nc)) (fst nc);
  do d <- newdata_of_cells (col_type (snd nc)) cs0; Ok (fst nc, d).

Lemma rebuild_data_ok f :
  NoDup (col_names f) ->
  (forall nc, In nc (cols f) -> col_wf (snd nc) = true /\ enum_table_nodup (snd nc) = true
                                /\ exists xs, omap (cell_at (snd nc)) (ix f) = Ok xs) ->
  exists data, rebuild_data f = Ok data
    /\ Forall2 (fun nc kv => fst kv = fst nc /\ exists c', col_rebuilt (ix f) (snd nc) (snd kv) c') (cols f) data.
Proof.
  intros Hnd Hcols. unfold rebuild_data. fold (rebuild_one f).
  assert (G : forall cs, (forall nc, In nc cs -> In nc (cols f)) ->
            exists data,
              omap (rebuild_one f) cs = Ok data
              /\ Forall2 (fun nc kv => fst kv = fst nc /\ exists c', col_rebuilt (ix f) (snd nc) (snd kv) c') cs data).
  { induction cs as [|[n c] cs IH]; intro Hsub; [exists []; split; [reflexivity|constructor]|].
    destruct IH as (data & Hdata & HF); [intros nc Hin; apply Hsub; right; exact Hin|].
    pose proof (Hsub (n, c) (or_introl eq_refl)) as Hin.
    destruct (Hcols (n, c) Hin) as (Hwf & Hndt & xs & Hxs). cbn [snd] in Hwf, Hndt, Hxs.
    destruct (rebuild_col c (ix f) xs Hxs Hwf Hndt) as (d & c' & Hd & Hs & Hc & Hany & Hty & Hlen & Hread).
    assert (Hone : rebuild_one f (n, c) = Ok (n, d)).
    { unfold rebuild_one, frame_view_slice, get_view. cbn [fst snd].
      pose proof (lookup_col_nodup f (n, c) Hnd Hin) as Hl. cbn [fst snd] in Hl. rewrite Hl.
      rewrite ctype_eqb_refl. cbn [obind]. unfold view_slice. cbn [v_col v_index]. rewrite Hxs. cbn [obind].
      rewrite Hd. reflexivity. }
    exists ((n, d) :: data). split.
    - cbn [omap]. rewrite Hone. cbn [obind]. rewrite Hdata. reflexivity.
    - constructor; [|exact HF]. split; [reflexivity|]. exists c'. cbn [snd].
      pose proof (omap_len _ _ _ Hxs) as Lx.
      unfold col_rebuilt. rewrite <- Lx, Hxs. auto 10. }
  apply G. auto.
Qed.

Lemma Forall2_In_l {A B} (R : A -> B -> Prop) x : forall l l', Forall2 R l l' -> In x l -> exists y, In y l' /\ R x y.
Proof.
  induction 1 as [|a b l l' Hab _ IH]; intro Hin; [destruct Hin|].
  destruct Hin as [->|Hin]; [exists b; split; [left; reflexivity|exact Hab]|].
  destruct (IH Hin) as (y & Hy & Hr). exists y. split; [right; exact Hy|exact Hr].
Qed.

Lemma rebuild_enums_names f : forall u, In u (map fst (rebuild_enums f)) ->
  exists nc, In nc (cols f) /\ fst nc = u /\ enum_decl (snd nc) <> None.
Proof.
  unfold rebuild_enums. intros u Hu. apply in_map_iff in Hu as ([n vs] & <- & Hin).
  apply in_flat_map in Hin as ([n0 c0] & Hc & Hin). cbn [snd fst] in Hin.
  destruct c0; try contradiction. destruct Hin as [Heq|[]]. inversion Heq; subst.
  eexists. split; [exact Hc|]. split; [reflexivity|discriminate].
Qed.

Lemma rebuild_enums_assoc nm c : forall cs,
  NoDup (map fst cs) -> In (nm, c) cs ->
  assocb nm (flat_map (fun nc : bytes * coldata => match snd nc with ECol _ vs _ => [(fst nc, vs)] | _ => [] end) cs)
  = enum_decl c.
Proof.
  induction cs as [|[n0 c0] cs IH]; intros Hnd Hin; [destruct Hin|].
  simpl in Hnd. inversion Hnd as [|? ? Hnotin Hnd']; subst.
  cbn [flat_map fst snd]. destruct Hin as [Heq|Hin].
  - inversion Heq; subst.
    assert (Hrest : assocb nm (flat_map (fun nc : bytes * coldata =>
                       match snd nc with ECol _ vs _ => [(fst nc, vs)] | _ => [] end) cs) = None).
    { apply assocb_notin. intro Hu. apply in_map_iff in Hu as ([n vs] & Hn & Hu). cbn [fst] in Hn. subst n.
      apply in_flat_map in Hu as ([n1 c1] & Hc1 & Hu). cbn [fst snd] in Hu.
      destruct c1; try contradiction. destruct Hu as [Hu|[]]. inversion Hu; subst.
      apply Hnotin. apply (in_map fst _ _ Hc1). }
    destruct c; cbn [app enum_decl]; try exact Hrest. cbn [assocb]. rewrite bytes_eqb_refl. reflexivity.
  - assert (Hne : bytes_eqb n0 nm = false).
    { destruct (bytes_eqb n0 nm) eqn:E; [|reflexivity]. apply bytes_eqb_spec in E. subst.
      exfalso. apply Hnotin. apply (in_map fst _ _ Hin). }
    destruct c0; cbn [app]; try (apply IH; assumption). cbn [assocb]. rewrite Hne. apply IH; assumption.
Qed.

Lemma NoDup_app_head {A} (l1 : list A) x l2 : NoDup (l1 ++ x :: l2) -> ~ In x l1.
Proof. intro H. apply NoDup_remove_2 in H. intro Hx. apply H. apply in_or_app. left. exact Hx. Qed.

(* the column loop of New over the remaining columns *)
Lemma nf_loop f data :
  NoDup (col_names f) -> map fst data = col_names f ->
  Forall2 (fun nc kv => fst kv = fst nc /\ exists c', col_rebuilt (ix f) (snd nc) (snd kv) c') (cols f) data ->
  forall rest done acc first used,
    cols f = done ++ rest ->
    Forall2 (col_same (ix f)) done acc ->
    first = match acc with [] => 0 | _ => length (ix f) end ->
    (forall u, In u used -> In u (map fst done)) ->
    (forall nc, In nc done -> enum_decl (snd nc) <> None -> In (fst nc) used) ->
    exists acc' first' used',
      ofold (nf_step data (rebuild_enums f)) (map fst rest) (acc, first, used) = Ok (acc', first', used')
      /\ Forall2 (col_same (ix f)) (cols f) acc'
      /\ first' = match acc' with [] => 0 | _ => length (ix f) end
      /\ (forall nc, In nc (cols f) -> enum_decl (snd nc) <> None -> In (fst nc) used').
Proof.
  intros Hnd Hnames Hdata.
  induction rest as [|[nm c] rest IH]; intros done acc first used Hsplit Hacc Hfirst Hused1 Hused2.
  - rewrite app_nil_r in Hsplit. subst done. exists acc, first, used. auto.
  - cbn [map fst]. rewrite ofold_cons.
    assert (Hin : In (nm, c) (cols f)) by (rewrite Hsplit; apply in_or_app; right; left; reflexivity).
    destruct (Forall2_In_l _ (nm, c) _ _ Hdata Hin) as ([k d] & Hkd & Hk & c' & Hs & Hc & Hany & Hty & Hlen & Hread).
    cbn [fst snd] in *. subst k.
    assert (Hnd' : NoDup (map fst data)) by (rewrite Hnames; exact Hnd).
    unfold nf_step at 1. rewrite (assocb_nodup nm d data Hnd' Hkd).
    assert (Hnotdone : ~ In nm (map fst done)).
    { unfold col_names in Hnd. rewrite Hsplit, map_app in Hnd. cbn [map fst] in Hnd. apply (NoDup_app_head _ _ _ Hnd). }
    assert (Hen : create_column d (if is_string_data d && negb (existsb (bytes_eqb nm) used)
                                   then assocb nm (rebuild_enums f) else None) = Ok c'
                  /\ ((if is_string_data d && negb (existsb (bytes_eqb nm) used)
                       then assocb nm (rebuild_enums f) else None) = None -> enum_decl c = None)).
    { rewrite Hs. destruct (is_string_col c) eqn:Es.
      - rewrite existsb_bytes_false by (intro Hu; apply Hnotdone; apply Hused1; exact Hu). cbn [negb andb].
        unfold rebuild_enums. rewrite (rebuild_enums_assoc nm c (cols f) Hnd Hin). split; [exact Hc|auto].
      - cbn [andb]. split; [apply Hany; reflexivity|]. intros _.
        destruct c; try reflexivity. discriminate. }
    destruct Hen as [Hcreate Hnone]. rewrite Hcreate. cbn [obind]. cbv zeta.
    assert (Hfirst' : (match acc with [] => col_len c' | _ => first end) = length (ix f)).
    { destruct acc; [exact Hlen|exact Hfirst]. }
    rewrite Hfirst', Hlen, Nat.eqb_refl.
    apply (IH (done ++ [(nm, c)])).
    + rewrite <- app_assoc. exact Hsplit.
    + apply Forall2_app; [exact Hacc|]. constructor; [|constructor]. unfold col_same. cbn [fst snd]. auto.
    + destruct acc; reflexivity.
    + intros u Hu. rewrite map_app. apply in_or_app.
      destruct (if is_string_data d && negb (existsb (bytes_eqb nm) used) then assocb nm (rebuild_enums f) else None).
      * destruct Hu as [<-|Hu]; [right; left; reflexivity|left; apply Hused1; exact Hu].
      * left. apply Hused1. exact Hu.
    + intros nc Hnc Hdecl. apply in_app_or in Hnc as [Hnc|[<-|[]]].
      * specialize (Hused2 nc Hnc Hdecl).
        destruct (if is_string_data d && negb (existsb (bytes_eqb nm) used) then assocb nm (rebuild_enums f) else None);
          [right; exact Hused2|exact Hused2].
      * cbn [fst snd] in *.
        destruct (if is_string_data d && negb (existsb (bytes_eqb nm) used) then assocb nm (rebuild_enums f) else None);
          [left; reflexivity|]. exfalso. apply Hdecl. apply Hnone. reflexivity.
Qed.

Lemma map_const_len {A B C} (l1 : list A) (l2 : list B) (v : C) :
  length l1 = length l2 -> map (fun _ => v) l1 = map (fun _ => v) l2.
Proof. revert l2. induction l1 as [|x l1 IH]; intros [|y l2] H; simpl in *; try discriminate; [reflexivity|]. f_equal. apply IH. lia. Qed.

(* columns that read alike through their indexes give the same rows *)
Lemma rows_of_congr i i' : length i' = length i -> forall cs cs',
  Forall2 (fun nc nc' : bytes * coldata => omap (cell_at (snd nc')) i' = omap (cell_at (snd nc)) i) cs cs' ->
  forall rows, rows_of cs i = Ok rows -> rows_of cs' i' = Ok rows.
Proof.
  intros Hlen cs cs' HF. induction HF as [|[n c] [n' c'] cs cs' Hc _ IH]; intros rows Hrows.
  - rewrite rows_of_nil in *. rewrite (map_const_len i' i [] Hlen). exact Hrows.
  - apply rows_of_cons in Hrows as (xs & rows' & Hxs & Hrows' & ->). cbn [snd] in Hc.
    apply rows_of_cons_ok; [rewrite Hc; exact Hxs|apply IH; exact Hrows'].
Qed.

(* REBUILD: a frame built by New from what the typed views of [f] return (column order and enum value lists
   as in f) has exactly the table of f, hence is Equal to f (both ways) *)
Theorem rebuild_spec f t :
  wf_frame f = true -> abs f = Ok t -> NoDup (col_names f) -> forallb check_name (col_names f) = true ->
  enum_tables_nodup f = true ->
  exists g, rebuild f = Ok g /\ ferr g = false /\ ix g = seq 0 (length (trows t)) /\ abs g = Ok t
            /\ equals g f = Ok true /\ equals f g = Ok true.
Proof.
  intros Hwf Ht Hnd Hnames Hndt. destruct (abs_ok f t Ht) as (R & N & T).
  assert (Hcols : forall nc, In nc (cols f) ->
            col_wf (snd nc) = true /\ enum_table_nodup (snd nc) = true
            /\ exists xs, omap (cell_at (snd nc)) (ix f) = Ok xs).
  { intros nc Hin. split; [|split].
    - unfold wf_frame in Hwf. apply andb_true_iff in Hwf as [Hc _]. rewrite forallb_forall in Hc.
      specialize (Hc nc Hin). apply andb_true_iff in Hc as [_ Hc]. exact Hc.
    - unfold enum_tables_nodup in Hndt. rewrite forallb_forall in Hndt. apply (Hndt nc Hin).
    - destruct (In_nth_error _ _ Hin) as [j Hj]. destruct nc as [n c].
      eexists. apply (rows_of_column _ _ _ _ Hj _ _ R). }
  destruct (rebuild_data_ok f Hnd Hcols) as (data & Hdata & HF).
  assert (Hdn : map fst data = col_names f).
  { unfold col_names. clear - HF. induction HF as [|nc kv cs data [Hk _] _ IH]; [reflexivity|]. simpl. rewrite Hk, IH. reflexivity. }
  destruct (nf_loop f data Hnd Hdn HF (cols f) [] [] 0 []) as (acc & first & used & Hloop & Hsame & Hfirst & Hused);
    try reflexivity; try constructor; try (intros u []); try (intros nc []).
  assert (Hlen : first = length (ix f)).
  { rewrite Hfirst. destruct acc; [|reflexivity].
    inversion Hsame as [Hc|]; subst. symmetry. rewrite (wf_no_cols f Hwf); [reflexivity|congruence]. }
  clear Hfirst. subst first.
  set (g := mkFrame acc (seq 0 (length (ix f))) false).
  assert (Hg : rebuild f = Ok g).
  { unfold rebuild. rewrite Hdata. cbn [obind]. rewrite new_frame_unfold.
    replace (forallb (fun kv : bytes * newdata => check_name (fst kv)) data) with true
      by (rewrite <- forallb_map with (f := fst) (p := check_name) || idtac; symmetry;
          rewrite <- Hnames, <- Hdn; clear; induction data as [|kv data IH]; simpl; [reflexivity|rewrite IH; reflexivity]).
    cbn [negb]. cbv iota zeta.
    assert (Horder : match col_names f with [] => sort_names (map fst data) | _ => col_names f end = col_names f).
    { destruct (col_names f) eqn:E; [|reflexivity]. rewrite Hdn. reflexivity. }
    rewrite Horder. rewrite <- Hdn at 1. rewrite map_length, Nat.eqb_refl. cbn [negb]. cbv iota.
    replace (forallb (fun n => match assocb n data with Some _ => true | None => false end) (col_names f)) with true.
    2:{ symmetry. apply forallb_forall. intros n Hn. rewrite <- Hdn in Hn.
        apply in_map_iff in Hn as ([k d] & <- & Hkd). cbn [fst].
        rewrite (assocb_nodup k d data) by (rewrite ?Hdn; assumption). reflexivity. }
    cbn [negb]. cbv iota. rewrite (proj2 (nodup_bytes_spec (col_names f)) Hnd). cbn [negb]. cbv iota.
    unfold col_names at 1. rewrite Hloop.
    replace (forallb (fun kv : bytes * list bytes => existsb (bytes_eqb (fst kv)) used) (rebuild_enums f)) with true.
    2:{ symmetry. apply forallb_forall. intros kv Hkv. apply existsb_bytes_true.
        destruct (rebuild_enums_names f (fst kv) (in_map fst _ _ Hkv)) as (nc & Hnc & <- & Hdecl).
        apply (Hused nc Hnc Hdecl). }
    reflexivity. }
  assert (Habs : abs g = Ok t).
  { assert (Hrows : rows_of acc (seq 0 (length (ix f))) = Ok (trows t)).
    { apply (rows_of_congr (ix f) (seq 0 (length (ix f))) (seq_length _ _) (cols f) acc); [|exact R].
      clear - Hsame. induction Hsame as [|nc nc' cs acc (_ & _ & _ & H) _ IH]; constructor; [exact H|exact IH]. }
    rewrite (abs_of_rows g (trows t) Hrows). f_equal.
    assert (En : col_names g = col_names f).
    { unfold col_names. subst g. cbn [cols]. clear - Hsame.
      induction Hsame as [|nc nc' cs acc (H & _) _ IH]; [reflexivity|]. simpl. rewrite H, IH. reflexivity. }
    assert (Et : col_types (cols g) = col_types (cols f)).
    { unfold col_types. subst g. cbn [cols]. clear - Hsame.
      induction Hsame as [|nc nc' cs acc (_ & H & _) _ IH]; [reflexivity|]. simpl. rewrite H, IH. reflexivity. }
    rewrite En, Et, <- N, <- T. destruct t; reflexivity. }
  exists g. split; [exact Hg|]. split; [reflexivity|]. split; [|split; [exact Habs|]].
  - subst g. cbn [ix]. rewrite (rows_of_len _ _ _ R). reflexivity.
  - rewrite (equals_spec g f t t Habs Ht), (equals_spec f g t t Ht Habs), tequal_refl. auto.
Qed.

(* ================================================================== operations are functions of the table *)

Lemma abs_with_err f : abs (with_err f) = abs f.
Proof. reflexivity. Qed.

Lemma abs_with_ix f i rows :
  rows_of (cols f) i = Ok rows -> abs (with_ix f i) = Ok (mkTable (col_names f) (col_types (cols f)) rows).
Proof. intro H. apply (abs_of_rows (with_ix f i) rows). exact H. Qed.

Lemma omap_firstn' {A B} (g : A -> outcome B) : forall n l r,
  omap g l = Ok r -> omap g (firstn n l) = Ok (firstn n r).
Proof.
  induction n as [|n IH]; intros l r H; [reflexivity|].
  destruct l as [|x l]; [simpl in H; inversion H; reflexivity|].
  apply omap_cons_ok in H as (y & ys & Hy & Hys & ->). simpl. rewrite Hy. simpl. rewrite (IH l ys Hys). reflexivity.
Qed.

Lemma omap_skipn' {A B} (g : A -> outcome B) : forall n l r,
  omap g l = Ok r -> omap g (skipn n l) = Ok (skipn n r).
Proof.
  induction n as [|n IH]; intros l r H; [exact H|].
  destruct l as [|x l]; [simpl in H; inversion H; reflexivity|].
  apply omap_cons_ok in H as (y & ys & Hy & Hys & ->). simpl. apply IH. exact Hys.
Qed.

(* ------------------------------------------------------------------ Slice *)

Definition slice_bad (t : table) (a b : Z) : bool :=
  (a <? 0)%Z || (b <? a)%Z || (Z.of_nat (length (trows t)) <? b)%Z.

(* Slice as a function of the table: rejected arguments set Err and leave the table, accepted ones give
   rows a .. b-1 *)
Theorem slice_table f a b t :
  abs f = Ok t -> ferr f = false ->
  ferr (slice f a b) = slice_bad t a b
  /\ abs (slice f a b) = Ok (if slice_bad t a b then t else tslice t (Z.to_nat a) (Z.to_nat b)).
Proof.
  intros Ht He. destruct (abs_ok f t Ht) as (R & N & T). pose proof (rows_of_len _ _ _ R) as L.
  unfold slice, slice_bad. rewrite He, L.
  destruct (a <? 0)%Z eqn:E1; [split; [reflexivity|exact Ht]|].
  destruct (b <? a)%Z eqn:E2; [split; [reflexivity|exact Ht]|].
  destruct (Z.of_nat (length (ix f)) <? b)%Z eqn:E3; [split; [reflexivity|exact Ht]|].
  cbn [orb]. split; [exact He|].
  rewrite (abs_with_ix f _ (firstn (Z.to_nat (b - a)) (skipn (Z.to_nat a) (trows t)))).
  - unfold tslice. rewrite N, T. replace (Z.to_nat (b - a)) with (Z.to_nat b - Z.to_nat a) by lia. reflexivity.
  - apply omap_firstn'. apply omap_skipn'. exact R.
Qed.

(* CONGRUENCE: frames with the same table (and the same Err state) give results with the same table *)
Theorem slice_congr f g a b t :
  abs f = Ok t -> abs g = Ok t -> ferr f = ferr g ->
  ferr (slice f a b) = ferr (slice g a b) /\ abs (slice f a b) = abs (slice g a b).
Proof.
  intros Hf Hg He. destruct (ferr f) eqn:Ef.
  - unfold slice. rewrite Ef, <- He. rewrite Ef, Hf, Hg. auto.
  - destruct (slice_table f a b t Hf Ef) as [F1 F2]. destruct (slice_table g a b t Hg (eq_sym He)) as [G1 G2].
    rewrite F1, G1, F2, G2. auto.
Qed.

(* Slice respects Equals: Equal frames have Equal slices *)
Lemma rows_eqb_firstn n : forall r1 r2,
  list_eqb (list_eqb cell_eqb) r1 r2 = true ->
  list_eqb (list_eqb cell_eqb) (firstn n r1) (firstn n r2) = true.
Proof.
  induction n as [|n IH]; intros [|x r1] [|y r2] H; simpl in *; try discriminate; try reflexivity.
  apply andb_true_iff in H as [H1 H2]. rewrite H1, (IH r1 r2 H2). reflexivity.
Qed.

Lemma rows_eqb_skipn n : forall r1 r2,
  list_eqb (list_eqb cell_eqb) r1 r2 = true ->
  list_eqb (list_eqb cell_eqb) (skipn n r1) (skipn n r2) = true.
Proof.
  induction n as [|n IH]; intros [|x r1] [|y r2] H; simpl in *; try discriminate; try reflexivity; try exact H.
  apply andb_true_iff in H as [_ H2]. apply (IH r1 r2 H2).
Qed.

Theorem slice_equals f g a b tf tg :
  abs f = Ok tf -> abs g = Ok tg -> ferr f = false -> ferr g = false ->
  equals f g = Ok true ->
  ferr (slice f a b) = ferr (slice g a b) /\ equals (slice f a b) (slice g a b) = Ok true.
Proof.
  intros Hf Hg Ef Eg Heq. rewrite (equals_spec f g tf tg Hf Hg) in Heq. injection Heq as Heq.
  destruct (slice_table f a b tf Hf Ef) as [F1 F2]. destruct (slice_table g a b tg Hg Eg) as [G1 G2].
  assert (Hbad : slice_bad tf a b = slice_bad tg a b).
  { unfold slice_bad. unfold tequal in Heq. apply andb_true_iff in Heq as [_ Hr].
    rewrite (list_eqb_len _ _ _ Hr). reflexivity. }
  split; [rewrite F1, G1; exact Hbad|].
  rewrite (equals_spec _ _ _ _ F2 G2). rewrite <- Hbad. f_equal.
  destruct (slice_bad tf a b); [exact Heq|].
  unfold tequal in *. unfold tslice. cbn [tnames ttypes trows].
  apply andb_true_iff in Heq as [Hnt Hr]. rewrite Hnt. cbn [andb].
  apply rows_eqb_firstn. apply rows_eqb_skipn. exact Hr.
Qed.

(* ------------------------------------------------------------------ Select / Drop *)

Lemma zipc_map {A} (h1 : A -> cell) (h2 : A -> list cell) (l : list A) :
  zipc (map h1 l) (map h2 l) = map (fun x => h1 x :: h2 x) l.
Proof. induction l as [|x l IH]; simpl; [reflexivity|]. rewrite IH. reflexivity. Qed.

Definition select_cols (f : frame) (names : list bytes) : list (bytes * coldata) :=
  flat_map (fun n => match lookup_col f n with Some c => [(n, c)] | None => [] end) names.

Lemma select_positions f t : abs f = Ok t -> forall names,
  (forallb (contains f) names = false /\ tpositions t names = None)
  \/ (forallb (contains f) names = true /\ exists ps, tpositions t names = Some ps
      /\ map fst (select_cols f names) = names
      /\ col_types (select_cols f names) = map (fun p => nth p (ttypes t) TInt) ps
      /\ rows_of (select_cols f names) (ix f)
         = Ok (map (fun row => map (fun p => nth p row (CInt 0)) ps) (trows t))).
Proof.
  intro Ht. destruct (abs_ok f t Ht) as (R & N & T). pose proof (rows_of_len _ _ _ R) as L.
  induction names as [|n names IH].
  - right. split; [reflexivity|]. exists []. repeat split.
    cbn [select_cols flat_map]. rewrite rows_of_nil. f_equal. apply map_const_len. lia.
  - cbn [forallb tpositions]. rewrite (tpos_lookup f t n Ht).
    assert (Hc : contains f n = match lookup f n with Some _ => true | None => false end) by reflexivity.
    rewrite Hc. clear Hc.
    destruct (lookup f n) as [[j c]|] eqn:El; cbn [option_map fst]; [|left; split; reflexivity].
    destruct IH as [[H1 H2]|[H1 (ps & H2 & H3 & H4 & H5)]].
    + left. rewrite H1, H2. split; reflexivity.
    + right. rewrite H1, H2. split; [reflexivity|]. exists (j :: ps). split; [reflexivity|].
      pose proof (lookup_nth f n j c El) as Hn.
      assert (Hcs : select_cols f (n :: names) = (n, c) :: select_cols f names).
      { unfold select_cols. cbn [flat_map]. unfold lookup_col. rewrite El. reflexivity. }
      rewrite Hcs. cbn [map fst snd col_types]. split; [f_equal; exact H3|]. split.
      * fold (col_types (select_cols f names)). rewrite H4. f_equal.
        rewrite T. unfold col_types. symmetry. apply nth_error_nth. rewrite nth_error_map, Hn. reflexivity.
      * rewrite (rows_of_cons_ok n c _ (ix f) _ _ (rows_of_column _ _ _ _ Hn _ _ R) H5).
        rewrite zipc_map. reflexivity.
Qed.

(* Select as a function of the table (tselect of Model/TableSpec.v: None = some name unknown) *)
Theorem select_table f names t :
  abs f = Ok t -> ferr f = false ->
  match tselect t names with
  | None => ferr (select f names) = true /\ abs (select f names) = Ok t
  | Some t' => ferr (select f names) = false /\ abs (select f names) = Ok t'
  end.
Proof.
  intros Ht He. unfold select, tselect. rewrite He.
  destruct (select_positions f t Ht names) as [[H1 H2]|[H1 (ps & H2 & H3 & H4 & H5)]].
  - rewrite H1. cbn [negb]. destruct names as [|n names]; [discriminate|]. rewrite H2. split; [reflexivity|exact Ht].
  - rewrite H1. cbn [negb]. destruct names as [|n names]; [split; reflexivity|]. rewrite H2.
    split; [reflexivity|]. fold (select_cols f (n :: names)).
    rewrite (abs_of_rows (mkFrame (select_cols f (n :: names)) (ix f) false) _ H5).
    unfold col_names. cbn [cols]. rewrite H3, H4. reflexivity.
Qed.

Theorem select_congr f g names t :
  abs f = Ok t -> abs g = Ok t -> ferr f = ferr g ->
  ferr (select f names) = ferr (select g names) /\ abs (select f names) = abs (select g names).
Proof.
  intros Hf Hg He. destruct (ferr f) eqn:Ef.
  - unfold select. rewrite Ef, <- He. rewrite Ef, Hf, Hg. auto.
  - pose proof (select_table f names t Hf Ef) as F. pose proof (select_table g names t Hg (eq_sym He)) as G.
    destruct (tselect t names); destruct F as [F1 F2]; destruct G as [G1 G2]; rewrite F1, G1, F2, G2; auto.
Qed.

(* Drop = Select of the remaining names, a function of the table's name list *)
Theorem drop_congr f g names t :
  abs f = Ok t -> abs g = Ok t -> ferr f = ferr g ->
  ferr (drop f names) = ferr (drop g names) /\ abs (drop f names) = abs (drop g names).
Proof.
  intros Hf Hg He. unfold drop. rewrite <- He.
  destruct (ferr f) eqn:Ef; cbv iota; [split; [rewrite Ef; exact He|rewrite Hf, Hg; reflexivity]|].
  destruct names as [|n names]; cbv iota; [split; [rewrite Ef; exact He|rewrite Hf, Hg; reflexivity]|].
  destruct (abs_ok f t Hf) as (_ & Nf & _). destruct (abs_ok g t Hg) as (_ & Ng & _).
  rewrite <- Nf, <- Ng. apply (select_congr f g _ t Hf Hg). rewrite Ef. exact He.
Qed.

(* ------------------------------------------------------------------ setColumn / Copy *)

Lemma omap_app {A B} (g : A -> outcome B) : forall l1 l2 r1 r2,
  omap g l1 = Ok r1 -> omap g l2 = Ok r2 -> omap g (l1 ++ l2) = Ok (r1 ++ r2).
Proof.
  induction l1 as [|x l1 IH]; intros l2 r1 r2 H1 H2.
  - simpl in H1. inversion H1. exact H2.
  - apply omap_cons_ok in H1 as (y & ys & Hy & Hys & ->). simpl. rewrite Hy. simpl.
    rewrite (IH l2 ys r2 Hys H2). reflexivity.
Qed.

Lemma omap_set_nth {A B} (g : A -> outcome B) x y : g x = Ok y -> forall l r pos,
  omap g l = Ok r -> omap g (set_nth l pos x) = Ok (set_nth r pos y).
Proof.
  intro Hxy. induction l as [|a l IH]; intros r pos H.
  - simpl in H. inversion H. destruct pos; reflexivity.
  - apply omap_cons_ok in H as (b & bs & Hb & Hbs & ->).
    destruct pos as [|pos]; simpl.
    + rewrite Hxy. simpl. rewrite Hbs. reflexivity.
    + rewrite Hb. simpl. rewrite (IH bs pos Hbs). reflexivity.
Qed.

Lemma map_set_nth {A B} (h : A -> B) x : forall l pos, map h (set_nth l pos x) = set_nth (map h l) pos (h x).
Proof. induction l as [|a l IH]; intros [|pos]; simpl; try reflexivity. rewrite IH. reflexivity. Qed.

Lemma set_nth_same {A} (x : A) : forall l pos, nth_error l pos = Some x -> set_nth l pos x = l.
Proof.
  induction l as [|a l IH]; intros [|pos] H; simpl in *; try discriminate.
  - inversion H. reflexivity.
  - rewrite (IH pos H). reflexivity.
Qed.

(* rows after replacing / appending a column *)
Lemma rows_of_set_nth n c cs pos : forall index rows cells,
  rows_of cs index = Ok rows -> omap (cell_at c) index = Ok cells ->
  rows_of (set_nth cs pos (n, c)) index
  = Ok (map (fun rc => set_nth (fst rc) pos (snd rc)) (combine rows cells)).
Proof.
  induction index as [|p index IH]; intros rows cells Hr Hc.
  - simpl in Hr, Hc. inversion Hr; inversion Hc. reflexivity.
  - rewrite rows_of_step in Hr.
    destruct (omap (fun nc => cell_at (snd nc) p) cs) as [row| |] eqn:Hrow; simpl in Hr; try discriminate.
    destruct (rows_of cs index) as [rows0| |] eqn:Hrows0; simpl in Hr; try discriminate. inversion Hr; subst.
    apply omap_cons_ok in Hc as (x & xs & Hx & Hxs & ->).
    rewrite rows_of_step.
    rewrite (omap_set_nth (fun nc : bytes * coldata => cell_at (snd nc) p) (n, c) x Hx cs row pos Hrow). cbn [obind].
    rewrite (IH rows0 xs eq_refl Hxs). reflexivity.
Qed.

Lemma rows_of_app1 n c cs : forall index rows cells,
  rows_of cs index = Ok rows -> omap (cell_at c) index = Ok cells ->
  rows_of (cs ++ [(n, c)]) index = Ok (map (fun rc => fst rc ++ [snd rc]) (combine rows cells)).
Proof.
  induction index as [|p index IH]; intros rows cells Hr Hc.
  - simpl in Hr, Hc. inversion Hr; inversion Hc. reflexivity.
  - rewrite rows_of_step in Hr.
    destruct (omap (fun nc => cell_at (snd nc) p) cs) as [row| |] eqn:Hrow; simpl in Hr; try discriminate.
    destruct (rows_of cs index) as [rows0| |] eqn:Hrows0; simpl in Hr; try discriminate. inversion Hr; subst.
    apply omap_cons_ok in Hc as (x & xs & Hx & Hxs & ->).
    rewrite rows_of_step.
    rewrite (omap_app (fun nc : bytes * coldata => cell_at (snd nc) p) cs [(n, c)] row [x] Hrow)
      by (simpl; rewrite Hx; reflexivity).
    cbn [obind]. rewrite (IH rows0 xs eq_refl Hxs). reflexivity.
Qed.

(* setColumn with a legal name = tset_col of the table (replace in position, or append last) *)
Theorem set_column_table f name c t cells :
  abs f = Ok t -> omap (cell_at c) (ix f) = Ok cells -> check_name name = true ->
  ferr (set_column f name c) = ferr f
  /\ abs (set_column f name c) = Ok (tset_col t name (col_type c) cells).
Proof.
  intros Ht Hc Hn. destruct (abs_ok f t Ht) as (R & N & T).
  unfold set_column, tset_col. rewrite Hn. cbn [negb]. rewrite (tpos_lookup f t name Ht).
  destruct (lookup f name) as [[pos c0]|] eqn:El; cbn [option_map fst]; (split; [reflexivity|]).
  - pose proof (lookup_nth f name pos c0 El) as Hnth.
    rewrite (abs_of_rows (mkFrame (set_nth (cols f) pos (name, c)) (ix f) (ferr f)) _
               (rows_of_set_nth name c (cols f) pos (ix f) (trows t) cells R Hc)).
    unfold col_names, col_types. cbn [cols]. rewrite !map_set_nth. cbn [fst snd].
    rewrite (set_nth_same name (map fst (cols f)) pos) by (rewrite nth_error_map, Hnth; reflexivity).
    rewrite N, T. reflexivity.
  - rewrite (abs_of_rows (mkFrame (cols f ++ [(name, c)]) (ix f) (ferr f)) _
               (rows_of_app1 name c (cols f) (ix f) (trows t) cells R Hc)).
    unfold col_names, col_types. cbn [cols]. rewrite !map_app. cbn [map fst snd]. rewrite N, T. reflexivity.
Qed.

(* Copy(dst, src) at table level: None = Err (unknown source or illegal destination name) *)
Definition tcopy (t : table) (dst src : bytes) : option table :=
  match tcolumn t src with
  | None => None
  | Some (ty, cells) =>
      if bytes_eqb dst src then Some t
      else if check_name dst then Some (tset_col t dst ty cells) else None
  end.

Theorem copy_table f dst src t :
  abs f = Ok t -> ferr f = false ->
  match tcopy t dst src with
  | None => ferr (copy f dst src) = true /\ abs (copy f dst src) = Ok t
  | Some t' => ferr (copy f dst src) = false /\ abs (copy f dst src) = Ok t'
  end.
Proof.
  intros Ht He. unfold tcopy, copy. rewrite He.
  destruct (tcolumn t src) as [[ty cells]|] eqn:Ec.
  - destruct (tcolumn_lookup f t src ty cells Ht Ec) as (j & c & El & Hty & Hcells & _).
    unfold lookup_col. rewrite El. cbn [option_map snd].
    destruct (bytes_eqb dst src); [split; [exact He|exact Ht]|].
    destruct (check_name dst) eqn:Hn.
    + destruct (set_column_table f dst c t cells Ht Hcells Hn) as [S1 S2].
      rewrite S1, S2, Hty. split; [exact He|reflexivity].
    + unfold set_column. rewrite Hn. split; [reflexivity|exact Ht].
  - unfold tcolumn in Ec. rewrite (tpos_lookup f t src Ht) in Ec. unfold lookup_col.
    destruct (lookup f src) as [[j c]|]; [discriminate|]. split; [reflexivity|exact Ht].
Qed.

Theorem copy_congr f g dst src t :
  abs f = Ok t -> abs g = Ok t -> ferr f = ferr g ->
  ferr (copy f dst src) = ferr (copy g dst src) /\ abs (copy f dst src) = abs (copy g dst src).
Proof.
  intros Hf Hg He. destruct (ferr f) eqn:Ef.
  - unfold copy. rewrite Ef, <- He. rewrite Ef, Hf, Hg. auto.
  - pose proof (copy_table f dst src t Hf Ef) as F. pose proof (copy_table g dst src t Hg (eq_sym He)) as G.
    destruct (tcopy t dst src); destruct F as [F1 F2]; destruct G as [G1 G2]; rewrite F1, G1, F2, G2; auto.
Qed.

(* ------------------------------------------------------------------ Apply with a one argument function *)

(* Apply(Instruction{Fn: func(T) U, DstCol: dst, SrcCol1: src}) as a function of the table: the function's
   results on the cells of the source column, in row order, become column dst (tset_col).  On top of
   apply1_spec (Proofs/OpsProofs.v); needs a duplicate-free row index inside the physical range because the
   implementation writes the results by physical position. *)
Theorem apply1_table ut f tin tout tbl dst src t ty cells vals :
  abs f = Ok t -> ferr f = false -> wf_frame f = true -> NoDup (ix f) ->
  tcolumn t src = Some (ty, cells) -> ctype_eqb (ftype_of ty) tin = true -> tout <> TEnum ->
  check_name dst = true ->
  omap (tbl1 tbl) cells = Ok vals -> Forall (fun y => cell_type_ok tout y = true) vals ->
  exists g, apply1 ut f (F1 tin tout tbl) dst src = Ok g /\ ferr g = false
            /\ abs g = Ok (tset_col t dst tout vals).
Proof.
  intros Ht He Hwf Hnd Hc Hty Hte Hn Hvals Htyped.
  destruct (tcolumn_lookup f t src ty cells Ht Hc) as (j & c & El & Hct & Hcells & _).
  assert (Hl : lookup_col f src = Some c) by (unfold lookup_col; rewrite El; reflexivity).
  assert (Hft : ctype_eqb (col_ftype c) tin = true) by (unfold col_ftype; rewrite Hct; destruct ty; exact Hty).
  assert (Hin : Forall (fun p => p < col_len c) (ix f)).
  { unfold wf_frame in Hwf. apply andb_true_iff in Hwf as [Hcs Hix].
    rewrite forallb_forall in Hcs, Hix.
    specialize (Hcs (src, c) (nth_error_In _ _ (lookup_nth f src j c El))).
    apply andb_true_iff in Hcs as [Hlen _]. apply Nat.eqb_eq in Hlen. cbn [snd] in Hlen.
    apply Forall_forall. intros p Hp. specialize (Hix p Hp). apply Nat.ltb_lt in Hix. lia. }
  assert (Hv : omap (fun p => do x <- cell_at c p; tbl1 tbl x) (ix f) = Ok vals)
    by (rewrite (omap_bind _ _ _ _ Hcells); exact Hvals).
  destruct (apply1_spec ut f tin tout tbl dst src c vals He Hl Hft Hte Hnd Hin Hv Htyped)
    as (r & Happ & Hrt & _ & Hread & _).
  exists (set_column f dst r). split; [exact Happ|].
  destruct (set_column_table f dst r t vals Ht Hread Hn) as [S1 S2].
  split; [rewrite S1; exact He|]. rewrite S2, Hrt. reflexivity.
Qed.

Theorem apply1_congr ut f g tin tout tbl dst src t ty cells vals :
  abs f = Ok t -> abs g = Ok t -> ferr f = false -> ferr g = false ->
  wf_frame f = true -> wf_frame g = true -> NoDup (ix f) -> NoDup (ix g) ->
  tcolumn t src = Some (ty, cells) -> ctype_eqb (ftype_of ty) tin = true -> tout <> TEnum ->
  check_name dst = true ->
  omap (tbl1 tbl) cells = Ok vals -> Forall (fun y => cell_type_ok tout y = true) vals ->
  exists f' g', apply1 ut f (F1 tin tout tbl) dst src = Ok f' /\ apply1 ut g (F1 tin tout tbl) dst src = Ok g'
                /\ ferr f' = ferr g' /\ abs f' = abs g'.
Proof.
  intros Hf Hg Ef Eg Wf Wg Nf Ng Hc Hty Hte Hn Hvals Htyped.
  destruct (apply1_table ut f tin tout tbl dst src t ty cells vals Hf Ef Wf Nf Hc Hty Hte Hn Hvals Htyped)
    as (f' & F1 & F2 & F3).
  destruct (apply1_table ut g tin tout tbl dst src t ty cells vals Hg Eg Wg Ng Hc Hty Hte Hn Hvals Htyped)
    as (g' & G1 & G2 & G3).
  exists f', g'. rewrite F2, G2, F3, G3. auto.
Qed.
