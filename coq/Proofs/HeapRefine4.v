(* Proofs/HeapRefine4.v — refinement of the heap-level programs (Model/HeapOps.v) to the pure L0 model, fourth part
   (continues HeapRefine.v / HeapRefine2.v / HeapRefine3.v):
   1. Apply with a LIST of instructions (op_apply = the fold of Ops.apply), each step on the frame the previous one
      returned, an error frame passes through the rest of the chain unchanged; FilteredApply with a list;
   2. constants (the New*Const allocation of apply0, and the closure conversion of a constant when the index does
      not cover the column) and the built-in ToUpper on string and enum columns;
   3. leaves whose Column.Filter fails (unknown column, unknown argument column, unknown comparator / wrong
      argument type) inside batches of leaves and inside clause trees;
   4. Distinct.
   As in the earlier parts the heap level does not interpret cell values: the link between the oracle / the
   parameters of a heap instruction and the L0 tables is an explicit premise of every theorem. *)
From QF Require Import Base.Prelude Model.Heap Model.HeapOps Proofs.HeapProofs Proofs.HeapRefine Proofs.HeapRefine2
  Proofs.HeapRefine3.
From QF Require Model.Frame Model.Ops Model.Filter Gen.GenTables.
From QF Require Proofs.FilterProofs.

#[local] Arguments bind : simpl never.
#[local] Arguments bindO : simpl never.

(* ==================================================================== 1. Apply with a list of instructions *)
(* The induction is parametric in the relation SL that links ONE heap instruction to ONE L0 instruction on a given
   state (store, frame reference, its L0 reading); all it asks of SL (step_ok) is the single-step refinement. *)
Section ApplyChain.
  Variable env : fnid -> list val -> val.
  Variable dec : decoder.
  Variable ut : Ops.upper_table.

  Definition step_post (r0 : outcome Frame.frame) (t : nat) (st : store) (res : outcome qframe) (n' : nat) (st' : store)
    : Prop :=
    keeps st st' /\ store_fresh t n' st' /\
    match res with
    | Ok qf' => ref_ok dec st' qf' /\ exists f', r0 = Ok f' /\ abs1 dec st' qf' = Some f'
    | Panic => r0 = Panic
    | Fail => False
    end.

  Variable SL : store -> qframe -> Frame.frame -> instr -> Ops.instr -> Prop.

  Definition step_ok : Prop :=
    forall st qf f a i t n,
      ref_ok dec st qf -> abs1 dec st qf = Some f -> store_fresh t n st -> q_err qf = false ->
      SL st qf f a i ->
      exists res n' st', run env t (apply_instr a qf) n st = (res, n', st') /\
                         step_post (Ops.apply_instr ut f i) t st res n' st'.

  (* the premise of the chain theorem: the head instruction is linked on the current state, and the tail is linked on
     whatever state the head step returns; nothing is asked once the frame carries an error *)
  Inductive chain_link (t : nat) : nat -> store -> qframe -> Frame.frame -> list instr -> list Ops.instr -> Prop :=
  | CL_nil n st qf f : chain_link t n st qf f [] []
  | CL_err n st qf f hs is : q_err qf = true -> chain_link t n st qf f hs is
  | CL_cons n st qf f a i hs is :
      SL st qf f a i ->
      (forall qf' n' st' f', run env t (apply_instr a qf) n st = (Ok qf', n', st') ->
                             Ops.apply_instr ut f i = Ok f' -> abs1 dec st' qf' = Some f' ->
                             chain_link t n' st' qf' f' hs is) ->
      chain_link t n st qf f (a :: hs) (i :: is).

  Lemma apply_instr_err t a qf n st : q_err qf = true -> run env t (apply_instr a qf) n st = (Ok qf, n, st).
  Proof.
    intro H. unfold apply_instr. destruct (i_src1 a) as [s1|]; [destruct (i_src2 a) as [s2|]|];
      unfold apply0, apply1, apply2; rewrite H; reflexivity.
  Qed.

  Lemma op_apply_err t hs qf n st : q_err qf = true -> run env t (op_apply hs qf) n st = (Ok qf, n, st).
  Proof.
    intro H. unfold op_apply. induction hs as [|a hs IH]; [reflexivity|].
    cbn [for_eachO]. erewrite run_bindO_ok; [exact IH|apply apply_instr_err; exact H].
  Qed.

  Lemma l0_apply_instr_err f i : Frame.ferr f = true -> Ops.apply_instr ut f i = Ok f.
  Proof.
    intro H. unfold Ops.apply_instr, Ops.apply0, Ops.apply1, Ops.apply2. rewrite H.
    destruct (Ops.empty_name (Ops.isrc1 i)); [reflexivity|]. destruct (Ops.empty_name (Ops.isrc2 i)); reflexivity.
  Qed.

  Lemma l0_apply_err f is : Frame.ferr f = true -> Ops.apply ut f is = Ok f.
  Proof.
    intro H. unfold Ops.apply. induction is as [|i is IH]; [reflexivity|].
    rewrite ofold_cons, (l0_apply_instr_err f i H). exact IH.
  Qed.

  Lemma op_apply_cons t a hs qf n st :
    run env t (op_apply (a :: hs) qf) n st =
    let '(o, n', st') := run env t (apply_instr a qf) n st in
    match o with Ok q => run env t (op_apply hs q) n' st' | Fail => (Fail, n', st') | Panic => (Panic, n', st') end.
  Proof. unfold op_apply. cbn [for_eachO]. apply run_bindO_unfold. Qed.

  Hypothesis Hstep : step_ok.

  (* Apply(i1, ..., in) = the fold of Ops.apply_instr over the L0 instructions, panic for panic *)
  Theorem refines_apply_chain t hs is : forall n st qf f,
    ref_ok dec st qf -> abs1 dec st qf = Some f -> store_fresh t n st ->
    chain_link t n st qf f hs is ->
    exists res n' st', run env t (op_apply hs qf) n st = (res, n', st') /\
                       step_post (Ops.apply ut f is) t st res n' st'.
  Proof.
    intros n st qf f Hok Habs Hf Hch. revert Hok Habs Hf.
    induction Hch as [n st qf f|n st qf f hs is Herr|n st qf f a i hs is Hsl Hrest IH]; intros Hok Habs Hf.
    - exists (Ok qf), n, st. split; [reflexivity|]. split; [apply keeps_refl|]. split; [exact Hf|]. split; [exact Hok|].
      exists f. split; [reflexivity|exact Habs].
    - exists (Ok qf), n, st. split; [apply op_apply_err; exact Herr|]. split; [apply keeps_refl|]. split; [exact Hf|].
      split; [exact Hok|]. exists f. split; [|exact Habs].
      apply l0_apply_err. destruct (abs1_inv _ _ _ _ Habs) as (_ & _ & He). rewrite He. exact Herr.
    - destruct (q_err qf) eqn:Eerr.
      { exists (Ok qf), n, st. split; [apply op_apply_err; exact Eerr|]. split; [apply keeps_refl|]. split; [exact Hf|].
        split; [exact Hok|]. exists f. split; [|exact Habs].
        apply l0_apply_err. destruct (abs1_inv _ _ _ _ Habs) as (_ & _ & He). rewrite He. exact Eerr. }
      destruct (Hstep st qf f a i t n Hok Habs Hf Eerr Hsl) as (r1 & n1 & st1 & Hrun1 & Hk1 & Hf1 & Hr1).
      rewrite op_apply_cons, Hrun1. unfold Ops.apply. rewrite ofold_cons. fold (Ops.apply ut).
      destruct r1 as [q1| |].
      + destruct Hr1 as (Hok1 & f1 & Hl1 & Habs1). rewrite Hl1. cbn [obind].
        destruct (IH q1 n1 st1 f1 Hrun1 Hl1 Habs1 Hok1 Habs1 Hf1) as (res & n' & st' & Hrun & Hk & Hf' & Hres).
        exists res, n', st'. split; [exact Hrun|]. split; [eapply keeps_trans; eauto|]. split; [exact Hf'|exact Hres].
      + contradiction.
      + exists Panic, n1, st1. split; [reflexivity|]. split; [exact Hk1|]. split; [exact Hf1|]. rewrite Hr1. reflexivity.
  Qed.
End ApplyChain.

(* ==================================================================== 1b. the single steps proved so far *)
Section InstrLink.
  Variable env : fnid -> list val -> val.
  Variable dec : decoder.
  Variable ut : Ops.upper_table.
  Hypothesis Hdec : dec_apply_ok dec.

  (* the premises of refines_apply0 / refines_apply0_colname / refines_with_row_nums / refines_apply1 /
     refines_apply2, one constructor each, plus the instruction whose function has no usable type (apply0 /
     apply1 / apply2 answer with an error frame) *)
  Inductive instr_link (st : store) (qf : qframe) (f : Frame.frame) : instr -> Ops.instr -> Prop :=
  | IL_call0 a fn tout vals s2 :
      i_src1 a = None -> i_fn a = FnCall fn (ty_of tout) -> tout <> Frame.TEnum ->
      i_name_ok a = Ops.check_name (i_dst a) -> link0 env fn tout vals (Frame.ix f) ->
      instr_link st qf f a (Ops.mkInstr (Ops.F0Stream tout vals) (i_dst a) [] s2)
  | IL_colname a src s2 :
      i_src1 a = None -> i_fn a = FnColName src -> i_name_ok a = Ops.check_name (i_dst a) ->
      instr_link st qf f a (Ops.mkInstr (Ops.F0ColName src) (i_dst a) [] s2)
  | IL_rownum a s2 :
      i_src1 a = None -> i_fn a = FnRowNum -> i_name_ok a = Ops.check_name (i_dst a) ->
      instr_link st qf f a
        (Ops.mkInstr (Ops.F0Stream Frame.TInt (map (fun k => Frame.CInt (Z.of_nat k)) (seq 0 (length (Frame.ix f)))))
                     (i_dst a) [] s2)
  | IL_call1 a src fn tin tout tbl :
      i_src1 a = Some src -> i_src2 a = None -> src <> [] ->
      i_fn a = FnCall fn (ty_of tout) -> tout <> Frame.TEnum -> i_name_ok a = Ops.check_name (i_dst a) ->
      (forall c d, map_get (map_of st (q_map qf)) src = Some c -> Frame.lookup_col f src = Some d ->
                   Frame.col_ftype d = tin /\ link1 env st c d fn tout tbl (Frame.ix f)) ->
      instr_link st qf f a (Ops.mkInstr (Ops.F1 tin tout tbl) (i_dst a) src [])
  | IL_call2 a src1 src2 fn tout tbl :
      i_src1 a = Some src1 -> i_src2 a = Some src2 -> src1 <> [] -> src2 <> [] ->
      i_fn a = FnCall fn (ty_of tout) -> i_name_ok a = Ops.check_name (i_dst a) ->
      (forall c1 c2 d1 d2,
          map_get (map_of st (q_map qf)) src1 = Some c1 -> map_get (map_of st (q_map qf)) src2 = Some c2 ->
          Frame.lookup_col f src1 = Some d1 -> Frame.lookup_col f src2 = Some d2 ->
          Frame.col_type d1 = Frame.col_type d2 /\ Frame.col_ftype d1 = tout /\
          link2 env st c1 c2 d1 d2 fn tout tbl (Frame.ix f)) ->
      instr_link st qf f a (Ops.mkInstr (Ops.F2 tout tbl) (i_dst a) src1 src2)
  | IL_unknown a s1 s2 :
      i_fn a = FnBad ->
      match i_src1 a with None => s1 = [] | Some x => s1 = x /\ x <> [] end ->
      match i_src1 a, i_src2 a with Some _, Some y => s2 = y /\ y <> [] | Some _, None => s2 = [] | None, _ => True end ->
      instr_link st qf f a (Ops.mkInstr Ops.FOther (i_dst a) s1 s2).

  Lemma empty_name_false s : s <> [] -> Ops.empty_name s = false.
  Proof. destruct s; [congruence|reflexivity]. Qed.

  Lemma post_of {r0 t st res n' st'} :
    keeps st st' -> store_fresh t n' st' ->
    match res with
    | Ok qf' => ref_ok dec st' qf' /\ exists f', r0 = Ok f' /\ abs1 dec st' qf' = Some f'
    | Panic => r0 = Panic
    | Fail => False
    end -> step_post dec r0 t st res n' st'.
  Proof. intros; split; [assumption|split; assumption]. Qed.

  Lemma err_step t n st qf f (r0 : outcome Frame.frame) :
    ref_ok dec st qf -> abs1 dec st qf = Some f -> store_fresh t n st -> r0 = Ok (Frame.with_err f) ->
    step_post dec r0 t st (Ok (with_err qf)) n st.
  Proof.
    intros Hok Habs Hf ->. apply post_of; [apply keeps_refl|exact Hf|]. split; [apply with_err_ok; exact Hok|].
    exists (Frame.with_err f). split; [reflexivity|apply with_err_abs; exact Habs].
  Qed.

  Lemma col_apply2_other c1 c2 index : Ops.col_apply2 c1 c2 Ops.FOther index = Fail.
  Proof. unfold Ops.col_apply2. destruct (negb _); reflexivity. Qed.

  Theorem instr_link_step_ok : step_ok env dec ut instr_link.
  Proof.
    intros st qf f a i t n Hok Habs Hf Eerr Hl. destruct (abs1_inv _ _ _ _ Habs) as (Hc & Hi & He).
    destruct Hl as [a fn tout vals s2 Hs1 Hfn Ht Hname Hlk|a src s2 Hs1 Hfn Hname|a s2 Hs1 Hfn Hname
                   |a src fn tin tout tbl Hs1 Hs2 Hsrc Hfn Ht Hname Hlk
                   |a src1 src2 fn tout tbl Hs1 Hs2 Hn1 Hn2 Hfn Hname Hlk|a s1 s2 Hfn H1 H2];
      unfold apply_instr, Ops.apply_instr; cbn [Ops.isrc1 Ops.isrc2 Ops.ifn Ops.idst].
    - rewrite Hs1. cbn [Ops.empty_name length Nat.eqb].
      destruct (refines_apply0 env dec Hdec t n st qf f a fn tout vals Hok Habs Hf Hfn Ht Hname Hlk)
        as (res & n' & st' & Hrun & Hk & Hf' & Hres).
      exists res, n', st'. split; [exact Hrun|]. apply post_of; auto.
    - rewrite Hs1. cbn [Ops.empty_name length Nat.eqb].
      destruct (refines_apply0_colname env dec Hdec t n st qf f a src Hok Habs Hf Hfn Hname)
        as (qf' & n' & st' & Hrun & Hk & Hf' & Hok' & Hres).
      exists (Ok qf'), n', st'. split; [exact Hrun|]. apply post_of; auto.
    - rewrite Hs1. cbn [Ops.empty_name length Nat.eqb].
      destruct (refines_with_row_nums env dec (dec_int_of dec Hdec) (da_len _ Hdec) t n st qf f (i_name_ok a) (i_dst a)
                  Hok Habs Hf Hname) as (res & n' & st' & Hrun & Hk & Hf' & Hres).
      assert (E1 : run env t (op_with_row_nums (i_name_ok a) (i_dst a) qf) n st = run env t (apply0 a qf) n st).
      { unfold op_with_row_nums. rewrite op_apply_single. unfold apply_instr. cbn [i_src1 i_src2].
        unfold apply0. rewrite Hfn. reflexivity. }
      rewrite E1 in Hrun. exists res, n', st'. split; [exact Hrun|]. apply post_of; auto.
    - rewrite Hs1, Hs2, (empty_name_false _ Hsrc). cbn [Ops.empty_name length Nat.eqb].
      destruct (refines_apply1 env dec Hdec ut t n st qf f a src fn tin tout tbl Hok Habs Hf Hfn Ht Hname Hlk)
        as (res & n' & st' & Hrun & Hk & Hf' & Hres).
      exists res, n', st'. split; [exact Hrun|]. apply post_of; auto.
    - rewrite Hs1, Hs2, (empty_name_false _ Hn1), (empty_name_false _ Hn2).
      destruct (refines_apply2 env dec Hdec t n st qf f a src1 src2 fn tout tbl Hok Habs Hf Hfn Hname Hlk)
        as (res & n' & st' & Hrun & Hk & Hf' & Hres).
      exists res, n', st'. split; [exact Hrun|]. apply post_of; auto.
    - destruct (i_src1 a) as [x|] eqn:Es1.
      + destruct H1 as [-> Hx]. rewrite (empty_name_false _ Hx).
        pose proof (by_name_l0 dec st qf f x Hok Habs) as Hbx.
        destruct (i_src2 a) as [y|] eqn:Es2.
        * destruct H2 as [-> Hy]. rewrite (empty_name_false _ Hy).
          pose proof (by_name_l0 dec st qf f y Hok Habs) as Hby.
          exists (Ok (with_err qf)), n, st. split.
          { unfold apply2, by_name. rewrite Eerr. erewrite run_bind_eq; [|apply run_by_name_m].
            destruct (map_get (map_of st (q_map qf)) x); [|reflexivity].
            erewrite run_bind_eq; [|apply run_by_name_m].
            destruct (map_get (map_of st (q_map qf)) y); [|reflexivity]. rewrite Hfn. reflexivity. }
          apply (err_step t n st qf f _ Hok Habs Hf). unfold Ops.apply2. rewrite He, Eerr.
          destruct (Frame.lookup_col f x); [|reflexivity]. destruct (Frame.lookup_col f y); [|reflexivity].
          rewrite col_apply2_other. reflexivity.
        * subst s2. cbn [Ops.empty_name length Nat.eqb].
          exists (Ok (with_err qf)), n, st. split.
          { unfold apply1, by_name. rewrite Eerr. erewrite run_bind_eq; [|apply run_by_name_m].
            destruct (map_get (map_of st (q_map qf)) x); [|reflexivity]. rewrite Hfn. reflexivity. }
          apply (err_step t n st qf f _ Hok Habs Hf). unfold Ops.apply1. rewrite He, Eerr.
          destruct (Frame.lookup_col f x); reflexivity.
      + subst s1. cbn [Ops.empty_name length Nat.eqb].
        exists (Ok (with_err qf)), n, st. split.
        { unfold apply0. rewrite Eerr.
          erewrite run_bindO_ok; [|apply (first_col_len_spec env dec (dec_int_of dec Hdec) (da_len _ Hdec) t n st qf f Hok Habs)].
          rewrite Hfn. reflexivity. }
        apply (err_step t n st qf f _ Hok Habs Hf). unfold Ops.apply0. rewrite He, Eerr. reflexivity.
  Qed.

  (* Apply(i1, ..., in) over instructions with user functions, column names, the row counter *)
  Theorem refines_apply_list t hs is n st qf f :
    ref_ok dec st qf -> abs1 dec st qf = Some f -> store_fresh t n st ->
    chain_link env dec ut instr_link t n st qf f hs is ->
    exists res n' st',
      run env t (op_apply hs qf) n st = (res, n', st') /\ keeps st st' /\ store_fresh t n' st' /\
      match res with
      | Ok qf' => ref_ok dec st' qf' /\ exists f', Ops.apply ut f is = Ok f' /\ abs1 dec st' qf' = Some f'
      | Panic => Ops.apply ut f is = Panic
      | Fail => False
      end.
  Proof. exact (refines_apply_chain env dec ut instr_link instr_link_step_ok t hs is n st qf f). Qed.
End InstrLink.

(* ==================================================================== 1c. FilteredApply with a list of instructions *)
Section FilteredApplyChain.
  Variable env : fnid -> list val -> val.
  Variable dec : decoder.
  Variable mt : Filter.matcher_table.
  Variable ut : Ops.upper_table.
  Variable SL : store -> qframe -> Frame.frame -> instr -> Ops.instr -> Prop.
  Hypothesis Hstep : step_ok env dec ut SL.

  (* any refinement of the Filter step (in the shape of the conclusions of the theorems about op_filter) composed with
     the chain on the struct copy that carries the filtered index *)
  Theorem refines_filtered_apply_chain_gen t n st qf f c cl instrs is :
    ref_ok dec st qf -> abs1 dec st qf = Some f ->
    (exists rf n1 st1,
        run env t (op_filter c qf) n st = (rf, n1, st1) /\ keeps st st1 /\ store_fresh t n1 st1 /\
        match rf with
        | Ok fq => ref_ok dec st1 fq /\ exists ff, Filter.frame_filter mt f cl = Ok ff /\ abs1 dec st1 fq = Some ff
        | Panic => Filter.frame_filter mt f cl = Panic
        | Fail => False
        end) ->
    (forall fq ff n1 st1, run env t (op_filter c qf) n st = (Ok fq, n1, st1) ->
       keeps st st1 -> store_fresh t n1 st1 -> ref_ok dec st1 fq ->
       Filter.frame_filter mt f cl = Ok ff -> abs1 dec st1 fq = Some ff -> q_err fq = false ->
       chain_link env dec ut SL t n1 st1 (with_index qf (q_idx fq)) (Frame.with_ix f (Frame.ix ff)) instrs is) ->
    exists res n' st',
      run env t (op_filtered_apply c instrs qf) n st = (res, n', st') /\ keeps st st' /\
      match res with
      | Ok q' => ref_ok dec st' q' /\ exists r, Ops.filtered_apply mt ut f cl is = Ok r /\ abs1 dec st' q' = Some r
      | Panic => Ops.filtered_apply mt ut f cl is = Panic
      | Fail => False
      end.
  Proof.
    intros Hok Habs (rf & n1 & st1 & Hrun & Hk1 & Hf1 & Hrf) Hchain.
    apply (refines_filtered_apply env dec mt ut t n st qf f c cl instrs is rf n1 st1 Hok Habs Hrun Hk1 Hrf).
    intros fq ff -> Ha Hq. destruct Hrf as (Hokq & ff' & Hff & Ha'). rewrite Ha in Ha'. inversion Ha'; subst ff'.
    destruct (swap_index dec st1 qf fq f ff (ref_ok_keeps _ _ _ _ Hk1 Hok) Hokq) as [Hokc Habc].
    { rewrite (abs1_keeps _ _ _ _ Hk1 Hok). exact Habs. }
    { exact Ha. }
    destruct (refines_apply_chain env dec ut SL Hstep t instrs is n1 st1 _ _ Hokc Habc Hf1
                (Hchain fq ff n1 st1 Hrun Hk1 Hf1 Hokq Hff Ha Hq)) as (ra & n2 & st2 & Hrun2 & Hk2 & _ & Hra).
    exists ra, n2, st2. split; [exact Hrun2|]. split; [exact Hk2|exact Hra].
  Qed.

  (* with the Filter step refined by the clause-tree theorem of HeapRefine3 (promoted and second-mask leaves included) *)
  Theorem refines_filtered_apply_chain t n st qf f c cl instrs is :
    ref_ok dec st qf -> abs1 dec st qf = Some f -> store_fresh t n st ->
    nonneg (seg_of st (q_idx qf)) ->
    clause_rel2 env mt st (q_map qf) f c cl ->
    (forall fq ff n1 st1, run env t (op_filter c qf) n st = (Ok fq, n1, st1) ->
       keeps st st1 -> store_fresh t n1 st1 -> ref_ok dec st1 fq ->
       Filter.frame_filter mt f cl = Ok ff -> abs1 dec st1 fq = Some ff -> q_err fq = false ->
       chain_link env dec ut SL t n1 st1 (with_index qf (q_idx fq)) (Frame.with_ix f (Frame.ix ff)) instrs is) ->
    exists res n' st',
      run env t (op_filtered_apply c instrs qf) n st = (res, n', st') /\ keeps st st' /\
      match res with
      | Ok q' => ref_ok dec st' q' /\ exists r, Ops.filtered_apply mt ut f cl is = Ok r /\ abs1 dec st' q' = Some r
      | Panic => Ops.filtered_apply mt ut f cl is = Panic
      | Fail => False
      end.
  Proof.
    intros Hok Habs Hf Hnn Hrel Hchain.
    apply (refines_filtered_apply_chain_gen t n st qf f c cl instrs is Hok Habs); [|exact Hchain].
    exact (refines_clause_filter2 env dec mt t n st qf f c cl Hok Habs Hf Hnn Hrel).
  Qed.
End FilteredApplyChain.

(* ==================================================================== 2a. constants *)
(* apply0 with an int / float64 / bool / *string / string constant (qframe.go, apply0):
   - when the index covers the column (len(qf.index) == colLen) the column is built by New*Const: one fresh array
     of colLen cells, all holding the constant; the index is not read;
   - otherwise the constant is first converted to a closure `func() T { return t }` and takes the func() T path:
     zero everywhere, the constant at the rows of the index.  At the heap level this IS apply0 with a FnCall whose
     oracle answers the constant.
   The executed heap model (FnConst) carries no value: its array holds the zero value of the type.  [apply0_constv v]
   is the same program with the cell value v (equal to the executed one at v = zero_of rty, apply0_constv_zero). *)
Definition apply0_constv (v : val) (a : instr) (qf : qframe) : prog (outcome qframe) :=
  if q_err qf then Ret (Ok qf) else
  let? n := first_col_len qf in
  match i_fn a with
  | FnConst rty =>
      let* tmp := make_slice n n v in
      let* w := wrap_result rty tmp in
      set_column (i_name_ok a) (i_dst a) (fst w) (snd w) qf
  | _ => Ret (Ok (with_err qf))
  end.

Lemma apply0_constv_zero a rty qf : i_fn a = FnConst rty -> apply0_constv (zero_of rty) a qf = apply0 a qf.
Proof. intro H. unfold apply0_constv, apply0. rewrite H. reflexivity. Qed.

Lemma const_col_cv tout v n : tout <> Frame.TEnum -> Ops.const_col (cv tout v) n = Ok (res_col tout (repeat v n)).
Proof. intro Ht. destruct tout; try congruence; simpl; rewrite map_repeat; reflexivity. Qed.

Lemma const_type_cv tout v : tout <> Frame.TEnum -> Ops.const_type (cv tout v) = Some tout.
Proof. intro Ht. destruct tout; try congruence; reflexivity. Qed.

(* the L0 reading of the closure conversion *)
Lemma apply0_const_as_stream f c tout dst :
  Ops.const_type c = Some tout -> length (Frame.ix f) <> Frame.phys_len f ->
  Ops.apply0 f (Ops.F0Const c) dst = Ops.apply0 f (Ops.F0Stream tout (repeat c (length (Frame.ix f)))) dst.
Proof.
  intros Hc Hlen. unfold Ops.apply0. destruct (Frame.ferr f); [reflexivity|].
  apply Nat.eqb_neq in Hlen. rewrite Hlen, Hc.
  assert (Ht : Frame.ctype_eqb tout Frame.TEnum = false) by (destruct c; inversion Hc; reflexivity).
  rewrite Ht. reflexivity.
Qed.

Section Constants.
  Variable env : fnid -> list val -> val.
  Variable dec : decoder.
  Hypothesis Hdec : dec_apply_ok dec.

  (* New*Const: the index covers the column *)
  Theorem refines_apply0_constv t n st qf f a v tout :
    ref_ok dec st qf -> abs1 dec st qf = Some f -> store_fresh t n st ->
    i_fn a = FnConst (ty_of tout) -> tout <> Frame.TEnum -> i_name_ok a = Ops.check_name (i_dst a) ->
    length (Frame.ix f) = Frame.phys_len f ->
    exists qf' n' st',
      run env t (apply0_constv v a qf) n st = (Ok qf', n', st') /\ keeps st st' /\ store_fresh t n' st' /\
      ref_ok dec st' qf' /\
      exists f', Ops.apply0 f (Ops.F0Const (cv tout v)) (i_dst a) = Ok f' /\ abs1 dec st' qf' = Some f'.
  Proof.
    intros Hok Habs Hf Hfn Ht Hname Hlen. destruct (abs1_inv _ _ _ _ Habs) as (Hc & Hi & He).
    unfold apply0_constv, Ops.apply0. rewrite He. destruct (q_err qf) eqn:Eerr.
    { exists qf, n, st. split; [reflexivity|]. split; [apply keeps_refl|]. split; [exact Hf|]. split; [exact Hok|].
      exists f. auto. }
    erewrite run_bindO_ok; [|apply (first_col_len_spec env dec (dec_int_of dec Hdec) (da_len _ Hdec) t n st qf f Hok Habs)].
    rewrite Hfn. apply Nat.eqb_eq in Hlen. rewrite Hlen. rewrite (const_col_cv tout v _ Ht). cbn [obind].
    set (len := Frame.phys_len f). set (l := (t, n)). set (st1 := update st l (repeat v len)).
    assert (Hfr : lookup st l = None) by (apply Hf; lia).
    assert (Hk1 : keeps st st1) by (apply keeps_update; exact Hfr).
    assert (Hr1 : read_loc st1 l = repeat v len) by (unfold st1; apply read_update_same).
    assert (Hf1 : store_fresh t (S n) st1) by (apply fresh_update; exact Hf).
    destruct (wrap_result_spec env dec Hdec t (S n) st1 tout l len Ht Hf1)
      as (ty & parts & n2 & st2 & Hwrap & Hk2 & Hf2 & Hparts & Hd).
    { rewrite Hr1. apply repeat_length. }
    rewrite Hr1 in Hd.
    assert (Hk12 : keeps st st2) by (eapply keeps_trans; eauto).
    destruct (refines_set_column env dec t n2 st2 qf f (i_name_ok a) (i_dst a) ty parts (res_col tout (repeat v len)))
      as (qf' & n' & st' & Hrun & Hk' & Hf' & Hok' & Habs'); auto.
    { eapply ref_ok_keeps; eauto. }
    { rewrite (abs1_keeps _ _ _ _ Hk12 Hok). exact Habs. }
    exists qf', n', st'. split.
    { erewrite run_bind_eq; [|apply run_make]. fold l st1. erewrite run_bind_eq; [|exact Hwrap]. exact Hrun. }
    split; [eapply keeps_trans; eauto|]. split; [exact Hf'|]. split; [exact Hok'|].
    eexists. split; [reflexivity|exact Habs'].
  Qed.

  (* the executed heap instruction: the zero constant *)
  Theorem refines_apply0_const_zero t n st qf f a tout :
    ref_ok dec st qf -> abs1 dec st qf = Some f -> store_fresh t n st ->
    i_fn a = FnConst (ty_of tout) -> tout <> Frame.TEnum -> i_name_ok a = Ops.check_name (i_dst a) ->
    length (Frame.ix f) = Frame.phys_len f ->
    exists qf' n' st',
      run env t (apply0 a qf) n st = (Ok qf', n', st') /\ keeps st st' /\ store_fresh t n' st' /\
      ref_ok dec st' qf' /\
      exists f', Ops.apply0 f (Ops.F0Const (Ops.zero_cell tout)) (i_dst a) = Ok f' /\ abs1 dec st' qf' = Some f'.
  Proof.
    intros Hok Habs Hf Hfn Ht Hname Hlen.
    rewrite <- (apply0_constv_zero a _ qf Hfn), <- (cv_zero tout).
    apply refines_apply0_constv; assumption.
  Qed.

  (* the closure conversion: the index does not cover the column; the oracle of the closure answers the constant *)
  Theorem refines_apply0_const_closure t n st qf f a fn tout c :
    ref_ok dec st qf -> abs1 dec st qf = Some f -> store_fresh t n st ->
    i_fn a = FnCall fn (ty_of tout) -> tout <> Frame.TEnum -> i_name_ok a = Ops.check_name (i_dst a) ->
    cv tout (scalar (env fn [])) = c -> length (Frame.ix f) <> Frame.phys_len f ->
    exists res n' st',
      run env t (apply0 a qf) n st = (res, n', st') /\ keeps st st' /\ store_fresh t n' st' /\
      match res with
      | Ok qf' => ref_ok dec st' qf' /\
                  exists f', Ops.apply0 f (Ops.F0Const c) (i_dst a) = Ok f' /\ abs1 dec st' qf' = Some f'
      | Panic => Ops.apply0 f (Ops.F0Const c) (i_dst a) = Panic
      | Fail => False
      end.
  Proof.
    intros Hok Habs Hf Hfn Ht Hname Hc Hlen.
    assert (Hct : Ops.const_type c = Some tout) by (rewrite <- Hc; apply const_type_cv; exact Ht).
    rewrite (apply0_const_as_stream f c tout (i_dst a) Hct Hlen).
    apply (refines_apply0 env dec Hdec t n st qf f a fn tout _ Hok Habs Hf Hfn Ht Hname).
    intros k Hk. rewrite nth_error_repeat by exact Hk. rewrite Hc. reflexivity.
  Qed.
End Constants.

(* ==================================================================== 2b. built-in ToUpper on a string column *)
(* scolumn.toUpper allocates the pointer array, the byte array and the 1024-byte upper-casing buffer on every call;
   the loop over the index writes pointers[i], appends to the byte array (in place or into a larger fresh array) and
   lets strings.ToUpper write into / replace the buffer.  The heap level does not interpret the strings: how many
   bytes row i needs and what its upper-cased bytes are, are the parameters need / up of the instruction. *)
Section UpperHelpers.
  Variable env : fnid -> list val -> val.

  Lemma append_base t s v n st s' n' st' :
    run env t (slice_append s v) n st = (s', n', st') -> s_base s' = s_base s \/ s_base s' = (t, n).
  Proof.
    unfold slice_append. destruct (s_len s <? s_cap s).
    - simpl. intro H. inversion H; subst. left. reflexivity.
    - destruct (s_len s =? 0); simpl; intro H; inversion H; subst; right; reflexivity.
  Qed.

  Lemma seg_same st st' s : lookup st' (s_base s) = lookup st (s_base s) -> seg_of st' s = seg_of st s.
  Proof. intro H. unfold seg_of, read_loc. rewrite H. reflexivity. Qed.

  Lemma in_bounds_same st st' s : lookup st' (s_base s) = lookup st (s_base s) -> in_bounds st s -> in_bounds st' s.
  Proof. intros H [H1 H2]. split; [exact H1|]. unfold read_loc in *. rewrite H. exact H2. Qed.

  Lemma live_some st l : lookup st l <> None -> exists a, lookup st l = Some a.
  Proof. destruct (lookup st l) as [a|]; [eauto|congruence]. Qed.

  (* append(s, vs...) on an array the program owns *)
  Lemma append_list_own t st0 vs : forall s n st,
    keeps st0 st -> store_fresh t n st -> in_bounds st s -> lookup st0 (s_base s) = None -> lookup st (s_base s) <> None ->
    exists s' n' st', run env t (slice_append_list s vs) n st = (s', n', st') /\
      seg_of st' s' = seg_of st s ++ vs /\ in_bounds st' s' /\ keeps st0 st' /\ store_fresh t n' st' /\ n <= n' /\
      lookup st0 (s_base s') = None /\ lookup st' (s_base s') <> None /\
      (forall l, lookup st l <> None -> l <> s_base s -> l <> s_base s') /\
      (forall l a, lookup st l = Some a -> l <> s_base s -> lookup st' l = Some a).
  Proof.
    induction vs as [|v vs IH]; intros s n st Hk Hf Hb Hown Hlive.
    - exists s, n, st. split; [reflexivity|]. rewrite app_nil_r.
      split; [reflexivity|]. split; [exact Hb|]. split; [exact Hk|]. split; [exact Hf|]. split; [lia|].
      split; [exact Hown|]. split; [exact Hlive|]. split; [intros l _ H; exact H|intros l a H _; exact H].
    - cbn [slice_append_list].
      destruct (append_spec env t s v n st0 st Hk Hf Hb (or_intror Hown))
        as (s1 & n1 & st1 & Hrun1 & Hseg1 & Hb1 & Hlen1 & Hk1 & Hf1 & Hn1 & _ & Hfr1 & _).
      assert (Hbase1 : s_base s1 = s_base s \/ s_base s1 = (t, n)) by (eapply append_base; eauto).
      assert (Hfresh : lookup st (t, n) = None) by (apply Hf; lia).
      assert (Hown1 : lookup st0 (s_base s1) = None).
      { destruct Hbase1 as [E|E]; rewrite E; [exact Hown|exact (keeps_none _ _ _ Hk Hfresh)]. }
      assert (Hlive1 : lookup st1 (s_base s1) <> None).
      { destruct (in_bounds_live st1 s1 Hb1) as [a Ha]; [destruct Hb1; lia|congruence]. }
      destruct (IH s1 n1 st1 Hk1 Hf1 Hb1 Hown1 Hlive1)
        as (s' & n' & st' & Hrun & Hseg & Hb' & Hk' & Hf' & Hn' & Hown' & Hlive' & Hne' & Hfr').
      exists s', n', st'. split; [erewrite run_bind_eq; [exact Hrun|exact Hrun1]|].
      split; [rewrite Hseg, Hseg1, <- app_assoc; reflexivity|].
      split; [exact Hb'|]. split; [exact Hk'|]. split; [exact Hf'|]. split; [lia|]. split; [exact Hown'|].
      split; [exact Hlive'|]. split.
      + intros l Hl Hne. apply Hne'.
        * destruct (live_some st l Hl) as [a Ha]. rewrite (Hfr1 l a Ha Hne). discriminate.
        * destruct Hbase1 as [->| ->]; [exact Hne|]. intros ->. congruence.
      + intros l a Hl Hne. apply Hfr'; [apply Hfr1; auto|].
        destruct Hbase1 as [->| ->]; [exact Hne|]. intros ->. congruence.
  Qed.

  (* strings.ToUpper(&buf, s) on a buffer the program owns *)
  Lemma matcher_touch_frame t st0 buf need n st :
    keeps st0 st -> store_fresh t n st -> lookup st0 (s_base buf) = None -> lookup st (s_base buf) <> None ->
    exists buf' n' st', run env t (matcher_touch buf need) n st = (buf', n', st') /\
      keeps st0 st' /\ store_fresh t n' st' /\ n <= n' /\
      lookup st0 (s_base buf') = None /\ lookup st' (s_base buf') <> None /\
      (forall l, lookup st l <> None -> l <> s_base buf -> l <> s_base buf') /\
      (forall l a, lookup st l = Some a -> l <> s_base buf -> lookup st' l = Some a).
  Proof.
    intros Hk Hf Hown Hlive. unfold matcher_touch.
    destruct (need =? 0) eqn:E0.
    { exists buf, n, st. repeat split; auto. }
    apply Nat.eqb_neq in E0.
    destruct (need <=? s_len buf) eqn:E1.
    - apply Nat.leb_le in E1.
      erewrite run_bind_eq.
      2:{ rewrite run_slice_set. replace (0 <? s_len buf) with true by (symmetry; apply Nat.ltb_lt; lia). reflexivity. }
      eexists _, _, _. split; [reflexivity|]. split; [apply keeps_write; auto|]. split; [apply fresh_write; auto|].
      split; [lia|]. split; [exact Hown|]. split.
      { rewrite lookup_write_same. destruct (lookup st (s_base buf)); congruence. }
      split; [auto|]. intros l a Hl Hne. rewrite lookup_write_other; auto.
    - assert (Hfr : lookup st (t, n) = None) by (apply Hf; lia).
      erewrite run_bind_eq; [|apply run_make].
      erewrite run_bind_eq.
      2:{ rewrite run_slice_set. simpl s_len. replace (0 <? need) with true by (symmetry; apply Nat.ltb_lt; lia). reflexivity. }
      eexists _, _, _. split; [reflexivity|].
      assert (Hfr0 : lookup st0 (t, n) = None) by (eapply keeps_none; eauto).
      cbn [s_base s_off].
      split; [apply keeps_write; auto; eapply keeps_trans; [exact Hk|apply keeps_update; exact Hfr]|].
      split; [apply fresh_write, fresh_update; exact Hf|]. split; [lia|]. split; [exact Hfr0|]. split.
      { rewrite lookup_write_same, lookup_update_same. discriminate. }
      split; [intros l Hl _ ->; congruence|].
      intros l a Hl _. assert (Hne : l <> (t, n)) by (intros ->; congruence).
      rewrite lookup_write_other, lookup_update_other; auto.
  Qed.
End UpperHelpers.

(* what the loop of scolumn.toUpper leaves in the pointer array P and the byte array D *)
Fixpoint upper_pure (st0 : store) (c : col) (up : Z -> list val -> list Z) (ixs : list Z) (P D : list val)
  : outcome (list val * list val) :=
  match ixs with
  | [] => Ok (P, D)
  | i :: r =>
      match cell_val st0 c i with
      | Ok cell => upper_pure st0 c up r (set_nth P (row i) (VZ (Z.of_nat (length (up i cell))))) (D ++ map VZ (up i cell))
      | Fail => Fail
      | Panic => Panic
      end
  end.

Section UpperS.
  Variable env : fnid -> list val -> val.

  Lemma upper_s_loop t st0 lp len c need up :
    lookup st0 lp = None -> parts_in_bounds st0 c -> c_parts c <> [] -> col_len c = len ->
    forall ixs d sb n st parr,
      keeps st0 st -> store_fresh t n st ->
      lookup st lp = Some parr -> length parr = len ->
      in_bounds st d -> lookup st0 (s_base d) = None -> lookup st (s_base d) <> None ->
      lookup st0 (s_base sb) = None -> lookup st (s_base sb) <> None ->
      s_base d <> lp -> s_base sb <> lp -> s_base sb <> s_base d ->
      exists res n' st',
        run env t (for_eachO ixs
           (fun i (st : slice * slice) =>
              let? cell := col_cell c i in
              let* sb' := matcher_touch (snd st) (need i) in
              let u := up i cell in
              let? _ := slice_set (mkSlice lp 0 len len) (row i) (VZ (Z.of_nat (length u))) in
              let* d' := slice_append_list (fst st) (map VZ u) in
              Ret (Ok (d', sb'))) (d, sb)) n st = (res, n', st') /\
        keeps st0 st' /\ store_fresh t n' st' /\
        match res with
        | Ok (d', _) => exists parr', lookup st' lp = Some parr' /\ length parr' = len /\ in_bounds st' d' /\
                                       upper_pure st0 c up ixs parr (seg_of st d) = Ok (parr', seg_of st' d')
        | Panic => upper_pure st0 c up ixs parr (seg_of st d) = Panic
        | Fail => False
        end.
  Proof.
    intros Hlp Hpc Hne Hlen.
    induction ixs as [|i ixs IH]; intros d sb n st parr Hk Hf Hl Harr Hbd Hownd Hlived Hownb Hliveb Hdp Hbp Hbd'.
    - exists (Ok (d, sb)), n, st. split; [reflexivity|]. split; [exact Hk|]. split; [exact Hf|].
      exists parr. auto.
    - cbn [for_eachO upper_pure]. rewrite run_bindO_unfold. rewrite run_bindO_unfold, run_col_cell.
      rewrite (cell_val_keeps _ _ _ _ Hk Hpc).
      destruct (cell_val st0 c i) as [cell| |] eqn:Ecell.
      + pose proof (cell_val_ok_lt st0 c i cell Hne Ecell) as Hrow. rewrite Hlen in Hrow.
        cbn [snd fst].
        destruct (matcher_touch_frame env t st0 sb (need i) n st Hk Hf Hownb Hliveb)
          as (sb1 & n1 & st1 & Hmt & Hk1 & Hf1 & Hn1 & Hownb1 & Hliveb1 & Hneb1 & Hfrb1).
        rewrite run_bind, Hmt.
        rewrite run_bindO_unfold, run_slice_set. cbn [s_len s_base s_off].
        replace (row i <? len) with true by (symmetry; apply Nat.ltb_lt; exact Hrow).
        set (u := up i cell).
        set (st2 := write_loc st1 lp (0 + row i) (VZ (Z.of_nat (length u)))).
        assert (Hl1 : lookup st1 lp = Some parr) by (apply Hfrb1; auto).
        assert (Hl2 : lookup st2 lp = Some (set_nth parr (row i) (VZ (Z.of_nat (length u))))).
        { unfold st2. rewrite lookup_write_same, Hl1. reflexivity. }
        assert (Hk2 : keeps st0 st2) by (unfold st2; apply keeps_write; auto).
        assert (Hf2 : store_fresh t n1 st2) by (unfold st2; apply fresh_write; auto).
        destruct (live_some st (s_base d) Hlived) as [ad Had].
        assert (Hd1 : lookup st1 (s_base d) = Some ad) by (apply Hfrb1; auto).
        assert (Hd2 : lookup st2 (s_base d) = lookup st (s_base d)).
        { unfold st2. rewrite lookup_write_other by exact Hdp. rewrite Hd1, Had. reflexivity. }
        assert (Hbd2 : in_bounds st2 d) by (apply (in_bounds_same st st2 d Hd2 Hbd)).
        assert (Hlived2 : lookup st2 (s_base d) <> None) by (rewrite Hd2; exact Hlived).
        destruct (append_list_own env t st0 (map VZ u) d n1 st2 Hk2 Hf2 Hbd2 Hownd Hlived2)
          as (d3 & n3 & st3 & Happ & Hseg3 & Hbd3 & Hk3 & Hf3 & Hn3 & Hownd3 & Hlived3 & Hned3 & Hfr3).
        rewrite run_bind, Happ. cbn [run].
        assert (Hsb1p : s_base sb1 <> lp).
        { intro E. apply (Hneb1 lp); [rewrite Hl; discriminate|auto|auto]. }
        assert (Hsb1d : s_base sb1 <> s_base d).
        { intro E. apply (Hneb1 (s_base d)); [exact Hlived|auto|auto]. }
        assert (Hliveb2 : lookup st2 (s_base sb1) <> None).
        { unfold st2. rewrite lookup_write_other by exact Hsb1p. exact Hliveb1. }
        assert (Hl3 : lookup st3 lp = Some (set_nth parr (row i) (VZ (Z.of_nat (length u))))).
        { apply Hfr3; auto. }
        assert (Ha3 : length (set_nth parr (row i) (VZ (Z.of_nat (length u)))) = len).
        { rewrite set_nth_length. exact Harr. }
        assert (Hliveb3 : lookup st3 (s_base sb1) <> None).
        { destruct (live_some st2 (s_base sb1) Hliveb2) as [ab Hab]. rewrite (Hfr3 _ _ Hab Hsb1d). discriminate. }
        assert (Hd3p : s_base d3 <> lp).
        { intro E. apply (Hned3 lp); [rewrite Hl2; discriminate|auto|auto]. }
        assert (Hsb3d : s_base sb1 <> s_base d3).
        { apply (Hned3 (s_base sb1)); [exact Hliveb2|exact Hsb1d]. }
        destruct (IH d3 sb1 n3 st3 (set_nth parr (row i) (VZ (Z.of_nat (length u)))) Hk3 Hf3 Hl3 Ha3 Hbd3 Hownd3 Hlived3
                    Hownb1 Hliveb3 Hd3p Hsb1p Hsb3d) as (res & n' & st' & Hrun & Hk' & Hf' & Hres).
        exists res, n', st'. split; [exact Hrun|]. split; [exact Hk'|]. split; [exact Hf'|].
        rewrite Hseg3, (seg_same st st2 d Hd2) in Hres. exact Hres.
      + exfalso. exact (cell_val_not_fail _ _ _ Ecell).
      + exists Panic, n, st. split; [reflexivity|]. split; [exact Hk|]. split; [exact Hf|reflexivity].
  Qed.
End UpperS.

Lemma col_apply1_upper_s ut ds index :
  Ops.col_apply1 ut (Frame.SCol ds) (Ops.FBuiltin Ops.name_ToUpper) index = Ops.s_to_upper ut ds index.
Proof.
  cbn [Ops.col_apply1]. destruct (Filter.assocb Ops.name_ToUpper GenTables.t_s_apply) eqn:E; [|vm_compute in E; discriminate].
  assert (Eb : bytes_eqb Ops.name_ToUpper Ops.name_ToUpper = true) by (vm_compute; reflexivity).
  rewrite Eb. reflexivity.
Qed.

Lemma col_apply1_upper_e ut d vs b index :
  Ops.col_apply1 ut (Frame.ECol d vs b) (Ops.FBuiltin Ops.name_ToUpper) index = Ops.e_to_upper ut d vs.
Proof.
  cbn [Ops.col_apply1]. destruct (Filter.assocb Ops.name_ToUpper GenTables.t_e_apply) eqn:E; [|vm_compute in E; discriminate].
  assert (Eb : bytes_eqb Ops.name_ToUpper Ops.name_ToUpper = true) by (vm_compute; reflexivity).
  rewrite Eb. reflexivity.
Qed.

Section UpperSRefine.
  Variable env : fnid -> list val -> val.
  Variable dec : decoder.
  Hypothesis Hdec : dec_apply_ok dec.

  Lemma col_len_parts c : col_len c <> 0 -> c_parts c <> [].
  Proof. unfold col_len, col_data. destruct (c_parts c); [simpl; congruence|discriminate]. Qed.

  (* scolumn.toUpper on a non-empty column: three fresh arrays; the pointer and byte arrays hold upper_pure *)
  Lemma upper_s_spec t n st c need up qf :
    in_bounds st (q_idx qf) -> parts_in_bounds st c -> store_fresh t n st -> col_len c <> 0 ->
    exists res n' st',
      run env t (upper_s need up c qf) n st = (res, n', st') /\ keeps st st' /\ store_fresh t n' st' /\
      match res with
      | Ok w => fst w = ty_string /\ Forall (in_bounds st') (snd w) /\
                exists P D, map (seg_of st') (snd w) = [P; D] /\
                            upper_pure st c up (map as_z (seg_of st (q_idx qf))) (repeat (VZ 0) (col_len c)) [] = Ok (P, D)
      | Panic => upper_pure st c up (map as_z (seg_of st (q_idx qf))) (repeat (VZ 0) (col_len c)) [] = Panic
      | Fail => False
      end.
  Proof.
    intros Hix Hpc Hf Hlen0. unfold upper_s.
    replace (col_len c =? 0) with false by (symmetry; apply Nat.eqb_neq; exact Hlen0).
    set (len := col_len c).
    set (lp := (t, n)). set (ld := (t, S n)). set (lsb := (t, S (S n))).
    set (st1 := update st lp (repeat (VZ 0) len)).
    set (st2 := update st1 ld (repeat (VZ 0) len)).
    set (st3 := update st2 lsb (repeat (VZ 0) 16)).
    assert (Hfp : lookup st lp = None) by (apply Hf; lia).
    assert (Hfd : lookup st ld = None) by (apply Hf; lia).
    assert (Hfb : lookup st lsb = None) by (apply Hf; lia).
    assert (Npd : ld <> lp) by (intro E; inversion E; lia).
    assert (Npb : lsb <> lp) by (intro E; inversion E; lia).
    assert (Ndb : lsb <> ld) by (intro E; inversion E; lia).
    assert (Hk3 : keeps st st3).
    { assert (Hk1 : keeps st st1) by (apply keeps_update; exact Hfp).
      assert (Hk2 : keeps st1 st2).
      { apply keeps_update. unfold st1. rewrite lookup_update_other by exact Npd. exact Hfd. }
      assert (Hk23 : keeps st2 st3).
      { apply keeps_update. unfold st2, st1. rewrite !lookup_update_other by auto. exact Hfb. }
      exact (keeps_trans _ _ _ Hk1 (keeps_trans _ _ _ Hk2 Hk23)). }
    assert (Hf3 : store_fresh t (S (S (S n))) st3) by (unfold st3, st2, st1; repeat apply fresh_update; exact Hf).
    assert (Hl3 : lookup st3 lp = Some (repeat (VZ 0) len)).
    { unfold st3, st2, st1. rewrite !lookup_update_other by auto. apply lookup_update_same. }
    assert (Hd3 : lookup st3 ld = Some (repeat (VZ 0) len)).
    { unfold st3, st2. rewrite lookup_update_other by auto. apply lookup_update_same. }
    assert (Hb3 : lookup st3 lsb = Some (repeat (VZ 0) 16)) by (unfold st3; apply lookup_update_same).
    assert (Hbd : in_bounds st3 (mkSlice ld 0 0 len)).
    { split; cbn [s_len s_cap s_off s_base]; [lia|]. unfold read_loc. rewrite Hd3, repeat_length. lia. }
    destruct (upper_s_loop env t st lp len c need up Hfp Hpc (col_len_parts c Hlen0) eq_refl
                (map as_z (seg_of st (q_idx qf))) (mkSlice ld 0 0 len) (mkSlice lsb 0 16 16) (S (S (S n))) st3
                (repeat (VZ 0) len) Hk3 Hf3 Hl3 (repeat_length _ _) Hbd)
      as (res & n' & st' & Hloop & Hk' & Hf' & Hres); cbn [s_base]; auto; try congruence.
    rewrite empty_seg in Hres.
    exists (match res with Ok st => Ok (ty_string, [mkSlice lp 0 len len; fst st]) | Fail => Fail | Panic => Panic end), n', st'.
    split.
    { erewrite run_bind_eq; [|apply run_make]. fold lp st1.
      erewrite run_bind_eq; [|apply run_make]. fold ld st2.
      erewrite run_bind_eq; [|apply run_make]. fold lsb st3.
      erewrite run_bind_eq; [|apply run_read_zs]. rewrite (seg_keeps_eq _ _ _ Hk3 Hix).
      rewrite run_bindO_unfold. cbv zeta in Hloop |- *. rewrite Hloop. destruct res as [[d' sb']| |]; reflexivity. }
    split; [exact Hk'|]. split; [exact Hf'|].
    destruct res as [[d' sb']| |]; auto.
    destruct Hres as (parr' & Hl' & Ha' & Hbd' & Hup). cbn [fst snd]. split; [reflexivity|].
    assert (Hr : read_loc st' lp = parr') by (unfold read_loc; rewrite Hl'; reflexivity).
    assert (Hrl : length (read_loc st' lp) = len) by (rewrite Hr; exact Ha').
    split; [constructor; [apply full_in_bounds; exact Hrl|constructor; [exact Hbd'|constructor]]|].
    exists parr', (seg_of st' d'). split; [|exact Hup].
    cbn [map]. rewrite (full_seg st' lp len Hrl), Hr. reflexivity.
  Qed.

  (* THE LINK for the built-in ToUpper on a string column: the L0 column is a string column, and - unless it is
     empty - the decoder reads the pointer / byte arrays the heap program builds as the column Ops.s_to_upper
     computes from the upper-casing table, panic (an index entry beyond the column) for panic *)
  Definition upper_s_link (ut : Ops.upper_table) (st : store) (qf : qframe) (f : Frame.frame) (c : col) (d0 : Frame.coldata)
             (up : Z -> list val -> list Z) : Prop :=
    exists ds, d0 = Frame.SCol ds /\
      (ds <> [] ->
       match upper_pure st c up (map as_z (seg_of st (q_idx qf))) (repeat (VZ 0) (col_len c)) [] with
       | Ok (P, D) => exists d', dec ty_string [P; D] = Some d' /\ Ops.s_to_upper ut ds (Frame.ix f) = Ok d'
       | Panic => Ops.s_to_upper ut ds (Frame.ix f) = Panic
       | Fail => True
       end).

  Theorem refines_apply1_upper_s ut t n st qf f a src need up :
    ref_ok dec st qf -> abs1 dec st qf = Some f -> store_fresh t n st ->
    i_fn a = FnUpperS need up -> i_name_ok a = Ops.check_name (i_dst a) ->
    (forall c d0, map_get (map_of st (q_map qf)) src = Some c -> Frame.lookup_col f src = Some d0 ->
                  upper_s_link ut st qf f c d0 up) ->
    exists res n' st',
      run env t (apply1 a src qf) n st = (res, n', st') /\ keeps st st' /\ store_fresh t n' st' /\
      match res with
      | Ok qf' => ref_ok dec st' qf' /\
                  exists f', Ops.apply1 ut f (Ops.FBuiltin Ops.name_ToUpper) (i_dst a) src = Ok f' /\ abs1 dec st' qf' = Some f'
      | Panic => Ops.apply1 ut f (Ops.FBuiltin Ops.name_ToUpper) (i_dst a) src = Panic
      | Fail => False
      end.
  Proof.
    intros Hok Habs Hf Hfn Hname Hlink. destruct (abs1_inv _ _ _ _ Habs) as (Hc & Hi & He).
    unfold apply1. destruct (q_err qf) eqn:Eerr.
    { exists (Ok qf), n, st. split; [reflexivity|]. split; [apply keeps_refl|]. split; [exact Hf|]. split; [exact Hok|].
      exists f. split; [unfold Ops.apply1; rewrite He; reflexivity|exact Habs]. }
    unfold by_name. erewrite run_bind_eq; [|apply run_by_name_m].
    pose proof (by_name_l0 dec st qf f src Hok Habs) as Hbn.
    destruct (map_get (map_of st (q_map qf)) src) as [c|] eqn:Eg;
      destruct (Frame.lookup_col f src) as [d0|] eqn:El; try contradiction.
    2:{ exists (Ok (with_err qf)), n, st. split; [reflexivity|]. split; [apply keeps_refl|]. split; [exact Hf|].
        split; [apply with_err_ok; exact Hok|]. exists (Frame.with_err f).
        split; [unfold Ops.apply1; rewrite He, El; reflexivity|apply with_err_abs; exact Habs]. }
    destruct Hbn as [Hd Hpc]. destruct (Hlink c d0 eq_refl eq_refl) as (ds & -> & Hl).
    rewrite Hfn. unfold Ops.apply1. rewrite He, El, col_apply1_upper_s.
    pose proof (heap_col_len dec Hdec st c _ Hpc Hd) as Hcl. cbn [Frame.col_len] in Hcl.
    destruct (Nat.eq_dec (col_len c) 0) as [E0|E0].
    - (* empty column: the source column itself *)
      assert (Eds : ds = []) by (destruct ds; [reflexivity|simpl in Hcl; lia]). subst ds.
      destruct (refines_set_column env dec t n st qf f (i_name_ok a) (i_dst a) (c_ty c) (c_parts c) (Frame.SCol []))
        as (qf' & n' & st' & Hrun & Hk' & Hf' & Hok' & Habs'); auto.
      exists (Ok qf'), n', st'. split.
      { unfold upper_s. replace (col_len c =? 0) with true by (symmetry; apply Nat.eqb_eq; exact E0).
        erewrite run_bindO_ok; [|reflexivity]. exact Hrun. }
      split; [exact Hk'|]. split; [exact Hf'|]. split; [exact Hok'|].
      exists (Ops.set_column f (i_dst a) (Frame.SCol [])). split; [reflexivity|exact Habs'].
    - assert (Hds : ds <> []) by (intros ->; simpl in Hcl; lia). specialize (Hl Hds).
      destruct (upper_s_spec t n st c need up qf (ro_idx _ _ _ Hok) Hpc Hf E0)
        as (res & n1 & st1 & Hrun1 & Hk1 & Hf1 & Hres).
      destruct res as [w| |].
      + destruct Hres as (Hty & Hparts & P & D & Hseg & Hup). rewrite Hup in Hl.
        destruct Hl as (d' & Hd' & Hl0). rewrite Hl0.
        destruct (refines_set_column env dec t n1 st1 qf f (i_name_ok a) (i_dst a) (fst w) (snd w) d')
          as (qf' & n' & st' & Hrun & Hk' & Hf' & Hok' & Habs'); auto.
        { eapply ref_ok_keeps; eauto. }
        { rewrite (abs1_keeps _ _ _ _ Hk1 Hok). exact Habs. }
        { rewrite Hty, Hseg. exact Hd'. }
        exists (Ok qf'), n', st'. split; [erewrite run_bindO_ok; [exact Hrun|exact Hrun1]|].
        split; [eapply keeps_trans; eauto|]. split; [exact Hf'|]. split; [exact Hok'|].
        exists (Ops.set_column f (i_dst a) d'). split; [reflexivity|exact Habs'].
      + contradiction.
      + rewrite Hres in Hl. rewrite Hl.
        exists Panic, n1, st1. split; [erewrite run_bindO_panic; [reflexivity|exact Hrun1]|].
        split; [exact Hk1|]. split; [exact Hf1|reflexivity].
  Qed.
End UpperSRefine.

(* ==================================================================== 2c. built-in ToUpper on an enum column *)
(* ecolumn.toUpper rebuilds the value table (fresh newValues, fresh oldToNew) and SHARES the data array with the source
   column unless two values merge, in which case the data array is copied.  Whether values merge is the parameter
   [merged] of the instruction (the heap level does not interpret the strings). *)
Section UpperE.
  Variable env : fnid -> list val -> val.

  Lemma append_own t st0 v s n st :
    keeps st0 st -> store_fresh t n st -> in_bounds st s -> lookup st0 (s_base s) = None -> lookup st (s_base s) <> None ->
    exists s' n' st', run env t (slice_append s v) n st = (s', n', st') /\
      seg_of st' s' = seg_of st s ++ [v] /\ in_bounds st' s' /\ keeps st0 st' /\ store_fresh t n' st' /\ n <= n' /\
      lookup st0 (s_base s') = None /\ lookup st' (s_base s') <> None /\
      (forall l, lookup st l <> None -> l <> s_base s -> l <> s_base s') /\
      (forall l a, lookup st l = Some a -> l <> s_base s -> lookup st' l = Some a).
  Proof.
    intros Hk Hf Hb Hown Hlive.
    destruct (append_list_own env t st0 [v] s n st Hk Hf Hb Hown Hlive) as (s' & n' & st' & Hrun & Hrest).
    exists s', n', st'. split; [|exact Hrest].
    cbn [slice_append_list] in Hrun. rewrite run_bind in Hrun.
    destruct (run env t (slice_append s v) n st) as [[s1 n1] st1]. exact Hrun.
  Qed.

  Lemma upper_e_loop t st0 lo len :
    lookup st0 lo = None ->
    forall ivs d n st,
      keeps st0 st -> store_fresh t n st -> lookup st lo <> None -> Forall (fun iv : nat * val => fst iv < len) ivs ->
      in_bounds st d -> lookup st0 (s_base d) = None -> lookup st (s_base d) <> None -> s_base d <> lo ->
      exists d' n' st',
        run env t (for_eachO ivs
                     (fun iv nv => let? _ := slice_set (mkSlice lo 0 len len) (fst iv) (VZ 0) in
                                   lift (slice_append nv (scalar (snd iv)))) d) n st = (Ok d', n', st') /\
        keeps st0 st' /\ store_fresh t n' st' /\ in_bounds st' d' /\
        seg_of st' d' = seg_of st d ++ map (fun iv => scalar (snd iv)) ivs.
  Proof.
    intro Hlo. induction ivs as [|iv ivs IH]; intros d n st Hk Hf Hlive Hlt Hb Hown Hlived Hne.
    - exists d, n, st. split; [reflexivity|]. rewrite app_nil_r. auto.
    - inversion Hlt as [|? ? Hlt1 Hlt2]; subst. cbn [for_eachO map].
      rewrite run_bindO_unfold. rewrite run_bindO_unfold, run_slice_set. cbn [s_len s_base s_off].
      replace (fst iv <? len) with true by (symmetry; apply Nat.ltb_lt; exact Hlt1).
      set (st1 := write_loc st lo (0 + fst iv) (VZ 0)).
      assert (Hk1 : keeps st0 st1) by (unfold st1; apply keeps_write; auto).
      assert (Hf1 : store_fresh t n st1) by (unfold st1; apply fresh_write; auto).
      assert (Hd1 : lookup st1 (s_base d) = lookup st (s_base d)) by (unfold st1; apply lookup_write_other; exact Hne).
      assert (Hlive1 : lookup st1 lo <> None).
      { unfold st1. rewrite lookup_write_same. destruct (lookup st lo); congruence. }
      destruct (append_own t st0 (scalar (snd iv)) d n st1 Hk1 Hf1 (in_bounds_same st st1 d Hd1 Hb) Hown)
        as (d2 & n2 & st2 & Happ & Hseg2 & Hb2 & Hk2 & Hf2 & Hn2 & Hown2 & Hlived2 & Hne2 & Hfr2).
      { rewrite Hd1. exact Hlived. }
      rewrite (run_lift env t _ _ _ _ _ _ Happ).
      destruct (IH d2 n2 st2 Hk2 Hf2) as (d' & n' & st' & Hrun & Hk' & Hf' & Hb' & Hseg'); auto.
      { destruct (live_some st1 lo Hlive1) as [a Ha]. rewrite (Hfr2 lo a Ha); [discriminate|auto]. }
      { intro E. apply (Hne2 lo); auto. }
      exists d', n', st'. split; [exact Hrun|]. split; [exact Hk'|]. split; [exact Hf'|]. split; [exact Hb'|].
      rewrite Hseg', Hseg2, (seg_same st st1 d Hd1), <- app_assoc. reflexivity.
  Qed.

  Lemma combine_seq_lt {X} (l : list X) : forall k, Forall (fun iv : nat * X => fst iv < k + length l) (combine (seq k (length l)) l).
  Proof.
    induction l as [|x l IH]; intro k; simpl; constructor.
    - simpl. lia.
    - eapply Forall_impl; [|apply (IH (S k))]. intros iv H. simpl in H. lia.
  Qed.

  Lemma map_snd_combine_seq {X} (l : list X) : forall k, map snd (combine (seq k (length l)) l) = l.
  Proof. induction l as [|x l IH]; intro k; simpl; [reflexivity|]. f_equal. apply IH. Qed.

  Lemma upper_e_spec t n st c merged data values :
    c_parts c = [data; values] -> parts_in_bounds st c -> store_fresh t n st ->
    exists w n' st',
      run env t (upper_e merged c) n st = (Ok w, n', st') /\ keeps st st' /\ store_fresh t n' st' /\
      fst w = ty_enum /\ Forall (in_bounds st') (snd w) /\
      map (seg_of st') (snd w) =
      [if merged (seg_of st values) then map VZ (map as_z (seg_of st data)) else seg_of st data;
       map scalar (seg_of st values)].
  Proof.
    intros Hparts Hpc Hf. unfold upper_e. rewrite Hparts.
    unfold parts_in_bounds in Hpc. rewrite Hparts in Hpc.
    inversion Hpc as [|? ? Hbdata Hpc']; subst. inversion Hpc' as [|? ? Hbvals _]; subst.
    erewrite run_bind_eq; [|apply run_slice_read].
    set (vs := seg_of st values). set (len := length vs).
    set (lv := (t, n)). set (lo := (t, S n)).
    set (st1 := update st lv (repeat VNil len)).
    set (st2 := update st1 lo (repeat (VZ 0) len)).
    assert (Hfv : lookup st lv = None) by (apply Hf; lia).
    assert (Hfo : lookup st lo = None) by (apply Hf; lia).
    assert (Nvo : lo <> lv) by (intro E; inversion E; lia).
    assert (Hk1 : keeps st st1) by (apply keeps_update; exact Hfv).
    assert (Hk12 : keeps st1 st2).
    { apply keeps_update. unfold st1. rewrite lookup_update_other by exact Nvo. exact Hfo. }
    assert (Hk2 : keeps st st2) by (exact (keeps_trans _ _ _ Hk1 Hk12)).
    assert (Hf2 : store_fresh t (S (S n)) st2) by (unfold st2, st1; repeat apply fresh_update; exact Hf).
    assert (Hlv2 : lookup st2 lv = Some (repeat VNil len)).
    { unfold st2. rewrite lookup_update_other by auto. apply lookup_update_same. }
    assert (Hlo2 : lookup st2 lo = Some (repeat (VZ 0) len)) by (unfold st2; apply lookup_update_same).
    assert (Hbd : in_bounds st2 (mkSlice lv 0 0 len)).
    { split; cbn [s_len s_cap s_off s_base]; [lia|]. unfold read_loc. rewrite Hlv2, repeat_length. lia. }
    destruct (upper_e_loop t st lo len Hfo (combine (seq 0 len) vs) (mkSlice lv 0 0 len) (S (S n)) st2 Hk2 Hf2)
      as (d' & n3 & st3 & Hloop & Hk3 & Hf3 & Hb3 & Hseg3); cbn [s_base]; auto; try congruence.
    { apply (combine_seq_lt vs 0). }
    rewrite empty_seg in Hseg3. cbn [app] in Hseg3.
    assert (Hseg3' : seg_of st3 d' = map scalar vs).
    { rewrite Hseg3. rewrite <- (map_map snd scalar). unfold len. rewrite map_snd_combine_seq. reflexivity. }
    erewrite run_bind_eq; [|apply run_make]. fold lv st1.
    erewrite run_bind_eq; [|apply run_make]. fold lo st2.
    rewrite run_bindO_unfold, Hloop.
    destruct (merged vs) eqn:Em.
    - set (ln := (t, n3)). set (ds := map as_z (seg_of st3 data)).
      set (st4 := update st3 ln (map VZ ds)).
      assert (Hfn : lookup st3 ln = None) by (apply Hf3; lia).
      assert (Hk4 : keeps st3 st4) by (apply keeps_update; exact Hfn).
      assert (Eds : seg_of st3 data = seg_of st data) by (apply seg_keeps_eq; auto).
      eexists _, _, _. split.
      { erewrite run_bind_eq; [|apply run_read_zs]. fold ds.
        erewrite run_bind_eq; [|apply run_slice_lit]. reflexivity. }
      fold ln st4.
      split; [exact (keeps_trans _ _ _ Hk3 Hk4)|]. split; [apply fresh_update; exact Hf3|]. split; [reflexivity|].
      assert (Hr : read_loc st4 ln = map VZ ds) by (unfold st4; apply read_update_same).
      cbn [snd]. split.
      + constructor; [apply full_in_bounds; rewrite Hr; reflexivity|].
        constructor; [exact (in_bounds_keeps _ _ _ Hk4 Hb3)|constructor].
      + cbn [map]. rewrite (full_seg st4 ln _ (f_equal (@length _) Hr)), Hr.
        rewrite (seg_keeps_eq _ _ _ Hk4 Hb3), Hseg3'. unfold ds. rewrite Eds. reflexivity.
    - eexists _, _, _. split; [reflexivity|]. split; [exact Hk3|]. split; [exact Hf3|]. split; [reflexivity|].
      cbn [snd]. split.
      + constructor; [exact (in_bounds_keeps _ _ _ Hk3 Hbdata)|constructor; [exact Hb3|constructor]].
      + cbn [map]. rewrite (seg_keeps_eq _ _ _ Hk3 Hbdata), Hseg3'. reflexivity.
  Qed.
End UpperE.

Section UpperERefine.
  Variable env : fnid -> list val -> val.
  Variable dec : decoder.

  (* THE LINK for the built-in ToUpper on an enum column: the heap column has a rank array and a value array, the L0
     column is an enum column, and the decoder reads (the shared or copied rank array, the rebuilt value array) as the
     column Ops.e_to_upper computes from the upper-casing table *)
  Definition upper_e_link (ut : Ops.upper_table) (st : store) (c : col) (d0 : Frame.coldata) (merged : list val -> bool) : Prop :=
    exists data values dd vals b,
      c_parts c = [data; values] /\ d0 = Frame.ECol dd vals b /\
      exists d', dec ty_enum [if merged (seg_of st values) then map VZ (map as_z (seg_of st data)) else seg_of st data;
                              map scalar (seg_of st values)] = Some d' /\
                 Ops.e_to_upper ut dd vals = Ok d'.

  Theorem refines_apply1_upper_e ut t n st qf f a src merged :
    ref_ok dec st qf -> abs1 dec st qf = Some f -> store_fresh t n st ->
    i_fn a = FnUpperE merged -> i_name_ok a = Ops.check_name (i_dst a) ->
    (forall c d0, map_get (map_of st (q_map qf)) src = Some c -> Frame.lookup_col f src = Some d0 ->
                  upper_e_link ut st c d0 merged) ->
    exists qf' n' st',
      run env t (apply1 a src qf) n st = (Ok qf', n', st') /\ keeps st st' /\ store_fresh t n' st' /\
      ref_ok dec st' qf' /\
      exists f', Ops.apply1 ut f (Ops.FBuiltin Ops.name_ToUpper) (i_dst a) src = Ok f' /\ abs1 dec st' qf' = Some f'.
  Proof.
    intros Hok Habs Hf Hfn Hname Hlink. destruct (abs1_inv _ _ _ _ Habs) as (Hc & Hi & He).
    unfold apply1. destruct (q_err qf) eqn:Eerr.
    { exists qf, n, st. split; [reflexivity|]. split; [apply keeps_refl|]. split; [exact Hf|]. split; [exact Hok|].
      exists f. split; [unfold Ops.apply1; rewrite He; reflexivity|exact Habs]. }
    unfold by_name. erewrite run_bind_eq; [|apply run_by_name_m].
    pose proof (by_name_l0 dec st qf f src Hok Habs) as Hbn.
    destruct (map_get (map_of st (q_map qf)) src) as [c|] eqn:Eg;
      destruct (Frame.lookup_col f src) as [d0|] eqn:El; try contradiction.
    2:{ exists (with_err qf), n, st. split; [reflexivity|]. split; [apply keeps_refl|]. split; [exact Hf|].
        split; [apply with_err_ok; exact Hok|]. exists (Frame.with_err f).
        split; [unfold Ops.apply1; rewrite He, El; reflexivity|apply with_err_abs; exact Habs]. }
    destruct Hbn as [Hd Hpc].
    destruct (Hlink c d0 eq_refl eq_refl) as (data & values & dd & vals & b & Hparts & -> & d' & Hd' & Hl0).
    rewrite Hfn. unfold Ops.apply1. rewrite He, El, col_apply1_upper_e, Hl0.
    destruct (upper_e_spec env t n st c merged data values Hparts Hpc Hf)
      as (w & n1 & st1 & Hrun1 & Hk1 & Hf1 & Hty & Hpw & Hseg).
    destruct (refines_set_column env dec t n1 st1 qf f (i_name_ok a) (i_dst a) (fst w) (snd w) d')
      as (qf' & n' & st' & Hrun & Hk' & Hf' & Hok' & Habs'); auto.
    { eapply ref_ok_keeps; eauto. }
    { rewrite (abs1_keeps _ _ _ _ Hk1 Hok). exact Habs. }
    { rewrite Hty, Hseg. exact Hd'. }
    exists qf', n', st'. split; [erewrite run_bindO_ok; [exact Hrun|exact Hrun1]|].
    split; [eapply keeps_trans; eauto|]. split; [exact Hf'|]. split; [exact Hok'|].
    exists (Ops.set_column f (i_dst a) d'). split; [reflexivity|exact Habs'].
  Qed.
End UpperERefine.

(* ==================================================================== 2d. the extended single-step relation *)
Section InstrLink2.
  Variable env : fnid -> list val -> val.
  Variable dec : decoder.
  Variable ut : Ops.upper_table.
  Hypothesis Hdec : dec_apply_ok dec.

  (* instr_link, plus constants (New*Const of the zero value when the index covers the column; the closure conversion
     of any constant otherwise) and the built-in ToUpper on string and enum columns *)
  Inductive instr_link2 (st : store) (qf : qframe) (f : Frame.frame) : instr -> Ops.instr -> Prop :=
  | IL2_base a i : instr_link env st qf f a i -> instr_link2 st qf f a i
  | IL2_const_zero a tout s2 :
      i_src1 a = None -> i_fn a = FnConst (ty_of tout) -> tout <> Frame.TEnum ->
      i_name_ok a = Ops.check_name (i_dst a) -> length (Frame.ix f) = Frame.phys_len f ->
      instr_link2 st qf f a (Ops.mkInstr (Ops.F0Const (Ops.zero_cell tout)) (i_dst a) [] s2)
  | IL2_const_closure a fn tout c s2 :
      i_src1 a = None -> i_fn a = FnCall fn (ty_of tout) -> tout <> Frame.TEnum ->
      i_name_ok a = Ops.check_name (i_dst a) ->
      cv tout (scalar (env fn [])) = c -> length (Frame.ix f) <> Frame.phys_len f ->
      instr_link2 st qf f a (Ops.mkInstr (Ops.F0Const c) (i_dst a) [] s2)
  | IL2_upper_s a src need up :
      i_src1 a = Some src -> i_src2 a = None -> src <> [] ->
      i_fn a = FnUpperS need up -> i_name_ok a = Ops.check_name (i_dst a) ->
      (forall c d0, map_get (map_of st (q_map qf)) src = Some c -> Frame.lookup_col f src = Some d0 ->
                    upper_s_link dec ut st qf f c d0 up) ->
      instr_link2 st qf f a (Ops.mkInstr (Ops.FBuiltin Ops.name_ToUpper) (i_dst a) src [])
  | IL2_upper_e a src merged :
      i_src1 a = Some src -> i_src2 a = None -> src <> [] ->
      i_fn a = FnUpperE merged -> i_name_ok a = Ops.check_name (i_dst a) ->
      (forall c d0, map_get (map_of st (q_map qf)) src = Some c -> Frame.lookup_col f src = Some d0 ->
                    upper_e_link dec ut st c d0 merged) ->
      instr_link2 st qf f a (Ops.mkInstr (Ops.FBuiltin Ops.name_ToUpper) (i_dst a) src []).

  Theorem instr_link2_step_ok : step_ok env dec ut instr_link2.
  Proof.
    intros st qf f a i t n Hok Habs Hf Eerr Hl.
    destruct Hl as [a i Hb|a tout s2 Hs1 Hfn Ht Hname Hlen|a fn tout c s2 Hs1 Hfn Ht Hname Hc Hlen
                   |a src need up Hs1 Hs2 Hsrc Hfn Hname Hlk|a src merged Hs1 Hs2 Hsrc Hfn Hname Hlk].
    - exact (instr_link_step_ok env dec ut Hdec st qf f a i t n Hok Habs Hf Eerr Hb).
    - unfold apply_instr, Ops.apply_instr; cbn [Ops.isrc1 Ops.isrc2 Ops.ifn Ops.idst]. rewrite Hs1.
      cbn [Ops.empty_name length Nat.eqb].
      destruct (refines_apply0_const_zero env dec Hdec t n st qf f a tout Hok Habs Hf Hfn Ht Hname Hlen)
        as (qf' & n' & st' & Hrun & Hk & Hf' & Hok' & Hres).
      exists (Ok qf'), n', st'. split; [exact Hrun|]. apply (post_of dec); auto.
    - unfold apply_instr, Ops.apply_instr; cbn [Ops.isrc1 Ops.isrc2 Ops.ifn Ops.idst]. rewrite Hs1.
      cbn [Ops.empty_name length Nat.eqb].
      destruct (refines_apply0_const_closure env dec Hdec t n st qf f a fn tout c Hok Habs Hf Hfn Ht Hname Hc Hlen)
        as (res & n' & st' & Hrun & Hk & Hf' & Hres).
      exists res, n', st'. split; [exact Hrun|]. apply (post_of dec); auto.
    - unfold apply_instr, Ops.apply_instr; cbn [Ops.isrc1 Ops.isrc2 Ops.ifn Ops.idst].
      rewrite Hs1, Hs2, (empty_name_false _ Hsrc). cbn [Ops.empty_name length Nat.eqb].
      destruct (refines_apply1_upper_s env dec Hdec ut t n st qf f a src need up Hok Habs Hf Hfn Hname Hlk)
        as (res & n' & st' & Hrun & Hk & Hf' & Hres).
      exists res, n', st'. split; [exact Hrun|]. apply (post_of dec); auto.
    - unfold apply_instr, Ops.apply_instr; cbn [Ops.isrc1 Ops.isrc2 Ops.ifn Ops.idst].
      rewrite Hs1, Hs2, (empty_name_false _ Hsrc). cbn [Ops.empty_name length Nat.eqb].
      destruct (refines_apply1_upper_e env dec ut t n st qf f a src merged Hok Habs Hf Hfn Hname Hlk)
        as (qf' & n' & st' & Hrun & Hk & Hf' & Hok' & Hres).
      exists (Ok qf'), n', st'. split; [exact Hrun|]. apply (post_of dec); auto.
  Qed.
End InstrLink2.

(* ==================================================================== 3. leaves whose Column.Filter fails *)
(* QFrame.filter: `for _, f := range filters { s, ok := qf.columnsByName[f.Column]; if !ok { return qf.withErr } ...
   if err := s.Filter(...); err != nil { return qf.withErr } }`.  A leaf fails when its column is unknown, when its
   argument column is unknown, or when Column.Filter returns an error (unknown comparator, argument of the wrong
   type: the flag lf_bad of the heap leaf) - in the last case the promotions and the second mask have already been
   allocated.  The leaves before it in the batch have been evaluated (and may have panicked); the leaves after it
   are not looked at. *)
Section BadLeaves.
  Variable env : fnid -> list val -> val.
  Variable dec : decoder.
  Variable mt : Filter.matcher_table.

  Definition leaf_heap_bad (st0 : store) (m : option loc) (hl : leaf) : Prop :=
    map_get (map_of st0 m) (lf_col hl) = None \/
    (exists c, map_get (map_of st0 m) (lf_col hl) = Some c /\
       ((exists an, lf_arg hl = Some an /\ map_get (map_of st0 m) an = None) \/
        (lf_bad hl = true /\
         match lf_arg hl with None => True | Some an => exists a, map_get (map_of st0 m) an = Some a end))).

  (* L0 side: on every sub-index of the rows the leaf step of QFrame.filter answers with an error *)
  Definition l0_fails (f : Frame.frame) (l : Filter.leaf) : Prop :=
    forall i b, incl i (Frame.ix f) -> length i = length b ->
      Filter.filter_leaf mt (Frame.with_ix f i) l b = Fail.

  Definition leaf_link3 (st0 : store) (m : option loc) (f : Frame.frame) (hl : leaf) (l : Filter.leaf) : Prop :=
    leaf_link2 env mt st0 m f hl l \/ (leaf_heap_bad st0 m hl /\ l0_fails f l).

  Lemma leaf_link2_link3 st0 m f hl l : leaf_link2 env mt st0 m f hl l -> leaf_link3 st0 m f hl l.
  Proof. intro H. left. exact H. Qed.

  Lemma run_promote t c n st :
    run env t (promote c) n st =
    (mkCol (c_name c) (c_pos c) ty_float [mkSlice (t, n) 0 (length (seg_of st (col_data c))) (length (seg_of st (col_data c)))],
     S n, update st (t, n) (map VZ (map as_z (seg_of st (col_data c))))).
  Proof.
    unfold promote. erewrite run_bind_eq; [|apply run_read_zs]. erewrite run_bind_eq; [|apply run_slice_lit].
    rewrite !map_length. reflexivity.
  Qed.

  Lemma alloc_keeps t n st0 st a :
    keeps st0 st -> store_fresh t n st -> keeps st0 (update st (t, n) a) /\ store_fresh t (S n) (update st (t, n) a).
  Proof.
    intros Hk Hf. split; [|apply fresh_update; exact Hf].
    eapply keeps_trans; [exact Hk|]. apply keeps_update. apply Hf. lia.
  Qed.

  Lemma leaf_step_bad t st0 qf b hl n st :
    keeps st0 st -> store_fresh t n st -> map_of st (q_map qf) = map_of st0 (q_map qf) ->
    leaf_heap_bad st0 (q_map qf) hl ->
    exists n' st', run env t (leaf_step qf b hl) n st = (Fail, n', st') /\ keeps st0 st' /\ store_fresh t n' st'.
  Proof.
    intros Hk Hf Em Hbad. unfold leaf_step, by_name. erewrite run_bind_eq; [|apply run_by_name_m]. rewrite Em.
    destruct Hbad as [Hc|(c & Hc & Hrest)]; rewrite Hc.
    { exists n, st. auto. }
    destruct Hrest as [(an & Harg & Hna)|(Hb & Harg)].
    { rewrite Harg. erewrite run_bindO_fail; [exists n, st; auto|].
      erewrite run_bind_eq; [|apply run_by_name_m]. rewrite Em, Hna. reflexivity. }
    assert (Hargrun : exists argc,
               run env t (match lf_arg hl with
                          | None => Ret (Ok None)
                          | Some an => let* oa := by_name_m (q_map qf) an in
                                       Ret (match oa with None => Fail | Some a => Ok (Some a) end)
                          end) n st = (Ok argc, n, st)).
    { destruct (lf_arg hl) as [an|].
      - destruct Harg as (a & Ha). exists (Some a). erewrite run_bind_eq; [|apply run_by_name_m]. rewrite Em, Ha. reflexivity.
      - exists None. reflexivity. }
    destruct Hargrun as (argc & Hargrun). erewrite run_bindO_ok; [|exact Hargrun].
    (* the promotions: at most two fresh arrays *)
    assert (H1 : exists c' n1 st1, run env t (if (lf_promote hl =? 1)%N then promote c else Ret c) n st = (c', n1, st1) /\
                                   keeps st0 st1 /\ store_fresh t n1 st1).
    { destruct (lf_promote hl =? 1)%N.
      - rewrite run_promote. eexists _, _, _. split; [reflexivity|]. apply alloc_keeps; auto.
      - exists c, n, st. auto. }
    destruct H1 as (c' & n1 & st1 & Hrun1 & Hk1 & Hf1). erewrite run_bind_eq; [|exact Hrun1].
    assert (H2 : exists argc' n2 st2,
               run env t (match argc with
                          | Some a => if (lf_promote hl =? 2)%N then let* a' := promote a in Ret (Some a') else Ret (Some a)
                          | None => Ret None
                          end) n1 st1 = (argc', n2, st2) /\ keeps st0 st2 /\ store_fresh t n2 st2).
    { destruct argc as [a|]; [|exists None, n1, st1; auto].
      destruct (lf_promote hl =? 2)%N; [|exists (Some a), n1, st1; auto].
      erewrite run_bind_eq; [|apply run_promote]. eexists _, _, _. split; [reflexivity|]. apply alloc_keeps; auto. }
    destruct H2 as (argc' & n2 & st2 & Hrun2 & Hk2 & Hf2). erewrite run_bind_eq; [|exact Hrun2].
    destruct (lf_inverse hl && negb (lf_inv_builtin hl))%bool.
    - unfold new_bool. erewrite run_bind_eq; [|apply run_make].
      eexists _, _. split; [erewrite run_bindO_fail; [reflexivity|unfold col_filter; rewrite Hb; reflexivity]|].
      apply alloc_keeps; auto.
    - exists n2, st2. split; [unfold col_filter; rewrite Hb; reflexivity|auto].
  Qed.

  Lemma leaf_heap_bad_keeps st0 st m hl :
    keeps st0 st -> (forall l, m = Some l -> lookup st0 l <> None) -> leaf_heap_bad st0 m hl -> leaf_heap_bad st m hl.
  Proof. intros Hk Hlive H. unfold leaf_heap_bad. rewrite (map_of_keeps' _ _ _ Hk Hlive). exact H. Qed.

  Lemma leaf_links3_keeps st0 st m f hls ls :
    keeps st0 st -> Forall (fun e => parts_in_bounds st0 (snd e)) (map_of st0 m) ->
    (forall l, m = Some l -> lookup st0 l <> None) ->
    Forall2 (leaf_link3 st0 m f) hls ls -> Forall2 (leaf_link3 st m f) hls ls.
  Proof.
    intros Hk Hmp Hlive HF. induction HF as [|hl l hls ls H HF IH]; constructor; [|exact IH].
    destruct H as [(P & Hh & Hl0)|[Hb Hl0]].
    - left. exists P. split; [|exact Hl0]. eapply leaf_heap_ok2_keeps; eauto.
    - right. split; [|exact Hl0]. eapply leaf_heap_bad_keeps; eauto.
  Qed.

  (* the loop over a batch: the mask after the leaves, or the error of the first failing leaf *)
  Lemma leaves_loop3 t st0 qf lb len f i0 :
    lookup st0 lb = None -> in_bounds st0 (q_idx qf) -> s_len (q_idx qf) = len ->
    Forall (fun e => parts_in_bounds st0 (snd e)) (map_of st0 (q_map qf)) ->
    (forall l, q_map qf = Some l -> lookup st0 l <> None) ->
    abs_ix st0 (q_idx qf) = i0 -> incl i0 (Frame.ix f) ->
    forall hls ls, Forall2 (leaf_link3 st0 (q_map qf) f) hls ls ->
    forall n st arr0, keeps st0 st -> store_fresh t n st -> lookup st lb = Some arr0 -> length arr0 = len ->
    exists res n' st',
      run env t (for_eachO hls (fun hl (_ : unit) => leaf_step qf (mkSlice lb 0 len len) hl) tt) n st = (res, n', st') /\
      keeps st0 st' /\ store_fresh t n' st' /\
      match res with
      | Ok _ => exists arr', lookup st' lb = Some arr' /\ length arr' = len /\
                             Filter.ofold (fun b l => Filter.filter_leaf mt (Frame.with_ix f i0) l b) ls (map as_b arr0)
                             = Ok (map as_b arr')
      | Fail => Filter.ofold (fun b l => Filter.filter_leaf mt (Frame.with_ix f i0) l b) ls (map as_b arr0) = Fail
      | Panic => False
      end.
  Proof.
    intros Hlb Hix Hlen Hmp Hlive Hi0 Hincl hls ls HF.
    assert (Hli : length i0 = len) by (rewrite <- Hi0, (abs_ix_length _ _ Hix); exact Hlen).
    induction HF as [|hl l hls ls H HF IH]; intros n st arr0 Hk Hf Hl Harr.
    - simpl. exists (Ok tt), n, st. split; [reflexivity|]. split; [exact Hk|]. split; [exact Hf|].
      exists arr0. auto.
    - destruct H as [(P & Hh & Hl0)|[Hb Hl0]].
      + destruct (leaf_step_spec2 env t st0 qf lb len hl P n st arr0 (Frame.ix f) Hlb Hix Hlen Hmp Hlive)
          as (n1 & st1 & arr1 & Hrun1 & Hk1 & Hf1 & Hn1 & Hl1 & Ha1 & Hm1); auto.
        { rewrite Hi0. exact Hincl. }
        destruct (IH n1 st1 arr1 Hk1 Hf1 Hl1 Ha1) as (res & n' & st' & Hrun & Hk' & Hf' & Hres).
        exists res, n', st'. split; [cbn [for_eachO]; erewrite run_bindO_ok; [exact Hrun|exact Hrun1]|].
        split; [exact Hk'|]. split; [exact Hf'|].
        rewrite ofold_cons. rewrite (Hl0 i0 (map as_b arr0) Hincl) by (rewrite map_length; lia).
        cbn [obind]. rewrite Hi0 in Hm1. rewrite <- Hm1. exact Hres.
      + destruct (leaf_step_bad t st0 qf (mkSlice lb 0 len len) hl n st Hk Hf) as (n1 & st1 & Hrun1 & Hk1 & Hf1).
        { apply map_of_keeps'; auto. }
        { exact Hb. }
        exists Fail, n1, st1. split; [cbn [for_eachO]; erewrite run_bindO_fail; [reflexivity|exact Hrun1]|].
        split; [exact Hk1|]. split; [exact Hf1|].
        rewrite ofold_cons. rewrite (Hl0 i0 (map as_b arr0) Hincl) by (rewrite map_length; lia). reflexivity.
  Qed.

  (* QFrame.filter over a batch that may contain failing leaves *)
  Theorem refines_filter_leaves3 t n st qf f i0 hls ls :
    ref_ok dec st qf -> abs1 dec st qf = Some (Frame.with_ix f i0) -> incl i0 (Frame.ix f) ->
    store_fresh t n st ->
    Forall2 (leaf_link3 st (q_map qf) f) hls ls ->
    exists res n' st',
      run env t (qf_filter hls qf) n st = (res, n', st') /\ keeps st st' /\ store_fresh t n' st' /\
      match res with
      | Ok qf' => ref_ok dec st' qf' /\ q_map qf' = q_map qf /\
                  (nonneg (seg_of st (q_idx qf)) -> nonneg (seg_of st' (q_idx qf'))) /\
                  exists f', Filter.filter_leaves mt (Frame.with_ix f i0) ls = Ok f' /\ abs1 dec st' qf' = Some f'
      | Panic => Filter.filter_leaves mt (Frame.with_ix f i0) ls = Panic
      | Fail => False
      end.
  Proof.
    intros Hok Habs Hincl Hf HF. destruct (abs1_inv _ _ _ _ Habs) as (Hc & Hi & He). simpl in Hi, He.
    unfold qf_filter, Filter.filter_leaves. cbn [Frame.ferr Frame.with_ix Frame.ix]. rewrite He.
    destruct (q_err qf) eqn:Eerr.
    { exists (Ok qf), n, st. split; [reflexivity|]. split; [apply keeps_refl|]. split; [exact Hf|]. split; [exact Hok|].
      split; [reflexivity|]. split; [auto|]. eexists. split; [reflexivity|]. exact Habs. }
    set (len := s_len (q_idx qf)). set (lb := (t, n)).
    set (st1 := update st lb (repeat (VB false) len)).
    assert (Hfr : lookup st lb = None) by (apply Hf; lia).
    assert (Hk1 : keeps st st1) by (apply keeps_update; exact Hfr).
    destruct (leaves_loop3 t st qf lb len f i0 Hfr (ro_idx _ _ _ Hok) eq_refl (ro_mparts _ _ _ Hok) (ro_mlive _ _ _ Hok)
                (eq_sym Hi) Hincl hls ls HF (S n) st1 (repeat (VB false) len) Hk1 (fresh_update _ _ _ _ Hf))
      as (r2 & n2 & st2 & Hloop & Hk2 & Hf2 & Hr2).
    { unfold st1. apply lookup_update_same. }
    { apply repeat_length. }
    assert (Hinit : map as_b (repeat (VB false) len) = map (fun _ : nat => false) i0).
    { rewrite map_repeat, map_false_repeat. f_equal. simpl. rewrite Hi. symmetry. apply (abs_ix_length _ _ (ro_idx _ _ _ Hok)). }
    rewrite Hinit in Hr2.
    destruct r2 as [u| |]; [| |contradiction].
    - destruct Hr2 as (arr2 & Hl2 & Ha2 & Hfold). rewrite Hfold.
      assert (Hrd2 : read_loc st2 lb = arr2) by (unfold read_loc; rewrite Hl2; reflexivity).
      assert (Hlen2 : length (read_loc st2 lb) = len) by (rewrite Hrd2; exact Ha2).
      destruct (refines_filter_index env dec t n2 st2 qf (Frame.with_ix f i0) (mkSlice lb 0 len len))
        as (res & n' & st' & Hrun & Hk' & Hf' & Hres).
      { eapply ref_ok_keeps; eauto. }
      { rewrite (abs1_keeps _ _ _ _ Hk2 Hok). exact Habs. }
      { exact Hf2. }
      { apply full_in_bounds. exact Hlen2. }
      rewrite (full_seg _ _ _ Hlen2), Hrd2 in Hres. cbn [Frame.ix Frame.with_ix] in Hres.
      exists res, n', st'. split; [|split; [eapply keeps_trans; eauto|split; [exact Hf'|]]].
      + unfold new_bool. erewrite run_bind_eq; [|apply run_make]. fold len lb st1.
        erewrite run_bind_eq; [|exact Hloop]. cbv iota. exact Hrun.
      + destruct res as [qf'| |]; auto.
        * destruct Hres as (Hok' & i & Hif & Habs'). split; [exact Hok'|].
          assert (Hextra : q_map qf' = q_map qf /\ (nonneg (seg_of st (q_idx qf)) -> nonneg (seg_of st' (q_idx qf')))).
          { rewrite run_bindO_unfold in Hrun.
            destruct (run env t (index_filter (q_idx qf) (mkSlice lb 0 len len)) n2 st2) as [[o n3] st3] eqn:Eif.
            destruct o as [r| |]; inversion Hrun; subst. split; [reflexivity|]. intro Hnn.
            apply index_filter_nn in Eif; [exact Eif|exact Hf2|eapply in_bounds_keeps; [exact Hk2|apply (ro_idx _ _ _ Hok)]|].
            rewrite (seg_keeps_eq _ _ _ Hk2 (ro_idx _ _ _ Hok)). exact Hnn. }
          destruct Hextra as [Hm' Hnn']. split; [exact Hm'|]. split; [exact Hnn'|].
          rewrite Hif. cbn [obind]. eexists. split; [reflexivity|]. exact Habs'.
        * rewrite Hres. reflexivity.
    - (* a leaf failed: qf.withErr *)
      rewrite Hr2.
      exists (Ok (with_err qf)), n2, st2. split.
      { unfold new_bool. erewrite run_bind_eq; [|apply run_make]. fold len lb st1.
        erewrite run_bind_eq; [|exact Hloop]. reflexivity. }
      split; [exact Hk2|]. split; [exact Hf2|].
      split; [apply with_err_ok; eapply ref_ok_keeps; eauto|]. split; [reflexivity|].
      split; [intro Hnn; cbn [q_idx with_err]; rewrite (seg_keeps_eq _ _ _ Hk2 (ro_idx _ _ _ Hok)); exact Hnn|].
      eexists. split; [reflexivity|]. apply with_err_abs. rewrite (abs1_keeps _ _ _ _ Hk2 Hok). exact Habs.
  Qed.

  Lemma leaves_ok_link3 st0 m f :
    Forall (fun e => parts_in_bounds st0 (snd e)) (map_of st0 m) -> (forall l, m = Some l -> lookup st0 l <> None) ->
    leaves_ok env dec mt st0 m f (leaf_link3 st0 m f).
  Proof.
    intros Hmp Hlive hls ls HF t n st qf i0 (K & M & R & A & C & I & N) He Hf. simpl in I.
    assert (HF' : Forall2 (leaf_link3 st (q_map qf) f) hls ls).
    { rewrite M. eapply leaf_links3_keeps; eauto. }
    destruct (refines_filter_leaves3 t n st qf f i0 hls ls R A I Hf HF') as (res & n' & st' & Hrun & Hk & Hf' & Hres).
    exists res, n', st'. split; [exact Hrun|]. split; [exact Hk|]. split; [exact Hf'|].
    destruct res as [q'| |]; auto.
    destruct Hres as (Hok' & Hm' & Hnn' & f' & Hfl & Ha').
    destruct (filter_leaves_sub _ _ _ _ Hfl) as [Cf If]. simpl in Cf, If.
    exists f'. split; [exact Hfl|]. split; [eapply keeps_trans; eauto|]. split; [congruence|]. split; [exact Hok'|].
    split; [exact Ha'|]. split; [exact Cf|]. split; [eapply incl_tran; eauto|exact (Hnn' N)].
  Qed.

  (* clause trees over linked leaves, failing ones included *)
  Definition clause_rel3 (st : store) (m : option loc) (f : Frame.frame) : clause -> Filter.clause -> Prop :=
    crel (leaf_link3 st m f).

  Lemma clause_rel2_rel3 st m f c cl : clause_rel2 env mt st m f c cl -> clause_rel3 st m f c cl.
  Proof. apply crel_mono. apply leaf_link2_link3. Qed.

  Theorem refines_clause_filter3 t n st qf f c cl :
    ref_ok dec st qf -> abs1 dec st qf = Some f -> store_fresh t n st ->
    nonneg (seg_of st (q_idx qf)) ->
    clause_rel3 st (q_map qf) f c cl ->
    exists res n' st',
      run env t (op_filter c qf) n st = (res, n', st') /\ keeps st st' /\ store_fresh t n' st' /\
      match res with
      | Ok qf' => ref_ok dec st' qf' /\ exists f', Filter.frame_filter mt f cl = Ok f' /\ abs1 dec st' qf' = Some f'
      | Panic => Filter.frame_filter mt f cl = Panic
      | Fail => False
      end.
  Proof.
    intros Hok Habs Hf Hnn Hrel. destruct (abs1_inv _ _ _ _ Habs) as (_ & _ & He).
    destruct (q_err qf) eqn:Eerr.
    { unfold op_filter, Filter.frame_filter. rewrite He, Eerr.
      exists (Ok qf), n, st. split; [reflexivity|]. split; [apply keeps_refl|]. split; [exact Hf|]. split; [exact Hok|].
      exists f. auto. }
    apply (op_filter_refines env dec mt st (q_map qf) f (leaf_link3 st (q_map qf) f) He
             (leaves_ok_link3 st (q_map qf) f (ro_mparts _ _ _ Hok) (ro_mlive _ _ _ Hok))); auto.
  Qed.
End BadLeaves.

(* FilteredApply: any clause tree with failing leaves, then a chain of instructions *)
Section FilteredApplyChain3.
  Variable env : fnid -> list val -> val.
  Variable dec : decoder.
  Variable mt : Filter.matcher_table.
  Variable ut : Ops.upper_table.
  Variable SL : store -> qframe -> Frame.frame -> instr -> Ops.instr -> Prop.
  Hypothesis Hstep : step_ok env dec ut SL.

  Theorem refines_filtered_apply_chain3 t n st qf f c cl instrs is :
    ref_ok dec st qf -> abs1 dec st qf = Some f -> store_fresh t n st ->
    nonneg (seg_of st (q_idx qf)) ->
    clause_rel3 env mt st (q_map qf) f c cl ->
    (forall fq ff n1 st1, run env t (op_filter c qf) n st = (Ok fq, n1, st1) ->
       keeps st st1 -> store_fresh t n1 st1 -> ref_ok dec st1 fq ->
       Filter.frame_filter mt f cl = Ok ff -> abs1 dec st1 fq = Some ff -> q_err fq = false ->
       chain_link env dec ut SL t n1 st1 (with_index qf (q_idx fq)) (Frame.with_ix f (Frame.ix ff)) instrs is) ->
    exists res n' st',
      run env t (op_filtered_apply c instrs qf) n st = (res, n', st') /\ keeps st st' /\
      match res with
      | Ok q' => ref_ok dec st' q' /\ exists r, Ops.filtered_apply mt ut f cl is = Ok r /\ abs1 dec st' q' = Some r
      | Panic => Ops.filtered_apply mt ut f cl is = Panic
      | Fail => False
      end.
  Proof.
    intros Hok Habs Hf Hnn Hrel Hchain.
    apply (refines_filtered_apply_chain_gen env dec mt ut SL Hstep t n st qf f c cl instrs is Hok Habs); [|exact Hchain].
    exact (refines_clause_filter3 env dec mt t n st qf f c cl Hok Habs Hf Hnn Hrel).
  Qed.
End FilteredApplyChain3.

(* ==================================================================== 4. Distinct: the hash table *)
(* grouper.Distinct allocates its table (and every larger table it grows into) and its result index on every call.
   The heap program (probe / table_place / grow_table / insert_entry / group_index / grouper_distinct of
   Model/HeapOps.v) is simulated step by step by the L0 table of Model/Grouper.v: an entry array reads as the
   list of slots, the hash and the key equality of the heap run (parameters gp of the operation) are linked to the
   hash and equality of the L0 table on the rows of the index. *)
From QF Require Model.Grouper Model.Aggregate.
From QF Require Proofs.GrouperProofs.

Lemma zmod_pos (e : Z) (n : nat) (k : N) :
  (0 <= e)%Z -> N.of_nat n = (2 ^ k)%N ->
  N.of_nat (Z.to_nat (e mod Z.of_nat (Nat.max n 1))) = (Z.to_N e mod 2 ^ k)%N /\
  Z.to_nat (e mod Z.of_nat (Nat.max n 1)) < n.
Proof.
  intros He Hn. pose proof (GrouperProofs.pow2_pos k) as Hp.
  assert (Hn0 : 0 < n) by lia. replace (Nat.max n 1) with n by lia.
  assert (Hm : (0 < Z.of_nat n)%Z) by lia.
  pose proof (Z.mod_pos_bound e (Z.of_nat n) Hm) as Hb.
  split; [|lia].
  apply N2Z.inj. rewrite nat_N_Z, Z2Nat.id by lia. rewrite N2Z.inj_mod, Z2N.id by lia.
  rewrite <- Hn, nat_N_Z. reflexivity.
Qed.

Lemma next_pos (pos n : nat) (k : N) :
  N.of_nat n = (2 ^ k)%N -> pos < n ->
  N.of_nat (if S pos <? n then S pos else 0) = N.land (N.of_nat pos + 1) (2 ^ k - 1) /\
  (if S pos <? n then S pos else 0) < n.
Proof.
  intros Hn Hp. rewrite GrouperProofs.land_mask, <- Hn.
  destruct (S pos <? n) eqn:E.
  - apply Nat.ltb_lt in E. split; [|exact E]. rewrite N.mod_small by lia. lia.
  - apply Nat.ltb_ge in E. assert (S pos = n) by lia. split; [|lia].
    replace (N.of_nat pos + 1)%N with (N.of_nat n) by lia. rewrite N.mod_same by lia. reflexivity.
Qed.

Lemma zeqb_to_N (a : Z) (b : N) : (0 <= a)%Z -> (a =? Z.of_N b)%Z = (Z.to_N a =? b)%N.
Proof.
  intro Ha. destruct (a =? Z.of_N b)%Z eqn:E1; destruct (Z.to_N a =? b)%N eqn:E2; auto.
  - apply Z.eqb_eq in E1. apply N.eqb_neq in E2. exfalso. apply E2. subst a. apply N2Z.id.
  - apply Z.eqb_neq in E1. apply N.eqb_eq in E2. exfalso. apply E1. subst b. rewrite Z2N.id; auto.
Qed.

Lemma log2_nat_N (x : nat) : 0 < x -> N.log2 (N.of_nat x) = N.of_nat (Nat.log2 x).
Proof.
  intro Hx. apply N.log2_unique; [lia|].
  destruct (Nat.log2_spec x Hx) as [H1 H2].
  rewrite <- Nat2N.inj_succ. change 2%N with (N.of_nat 2). rewrite <- !Nat2N.inj_pow. lia.
Qed.

(* calculateInitialSizeExp / newTable: the size of the first table *)
Lemma initial_size_pow (n : nat) :
  N.of_nat (initial_size n) = (2 ^ Grouper.calculate_initial_size_exp (N.of_nat n))%N.
Proof.
  unfold initial_size, Grouper.calculate_initial_size_exp.
  change GenConsts.c_grouper_fit_div with (N.of_nat 4). change GenConsts.c_grouper_min_exp with 3%N.
  rewrite <- Nat2N.inj_div.
  destruct (n / 4 =? 0) eqn:E.
  - apply Nat.eqb_eq in E. rewrite E. reflexivity.
  - apply Nat.eqb_neq in E. assert (Hx : 0 < n / 4) by lia.
    rewrite N.size_log2 by lia. rewrite (log2_nat_N _ Hx).
    set (l := Nat.log2 (n / 4)).
    rewrite Nat2N.inj_max, Nat2N.inj_pow, Nat2N.inj_add. change (N.of_nat 2) with 2%N. change (N.of_nat 1) with 1%N.
    change (N.of_nat 8) with (2 ^ 3)%N. rewrite <- N.add_1_r.
    destruct (N.max_spec (N.of_nat l + 1) 3) as [[H1 H2]|[H1 H2]]; rewrite H2.
    + apply N.max_l. apply N.pow_le_mono_r; lia.
    + apply N.max_r. apply N.pow_le_mono_r; lia.
Qed.

Lemma load_test (lfn lfd gc : N) (len cnt : nat) :
  (lfn * N.of_nat len = gc * lfd)%N -> (0 < lfd)%N -> 0 < len -> N.of_nat cnt = gc ->
  (len <? 2 * cnt) = (1 * lfd <? lfn * 2)%N.
Proof.
  intros Hlf Hd Hlen Hc.
  destruct (len <? 2 * cnt) eqn:E1; destruct (1 * lfd <? lfn * 2)%N eqn:E2; auto.
  - apply Nat.ltb_lt in E1. apply N.ltb_ge in E2. exfalso. nia.
  - apply Nat.ltb_ge in E1. apply N.ltb_lt in E2. exfalso. nia.
Qed.

Lemma run_for_eachO_app env {X S} t (a b : list X) (F : X -> S -> prog (outcome S)) : forall (s : S) n st,
  run env t (for_eachO (a ++ b) F s) n st =
  let '(o, n', st') := run env t (for_eachO a F s) n st in
  match o with Ok s' => run env t (for_eachO b F s') n' st' | Fail => (Fail, n', st') | Panic => (Panic, n', st') end.
Proof.
  induction a as [|x a IH]; intros s n st; [reflexivity|].
  cbn [app for_eachO]. rewrite !run_bindO_unfold.
  destruct (run env t (F x s) n st) as [[[s1| |] n1] st1]; [apply IH|reflexivity|reflexivity].
Qed.

Section TableSim.
  Variable env : fnid -> list val -> val.
  Variable t : nat.
  Variable st0 : store.               (* the store in which grouper.Distinct starts *)
  Variable cols : list col.           (* the key columns *)
  Variable gp : gparams.              (* hash and key equality of the heap run *)
  Variable eqb : nat -> nat -> bool.  (* ... of the L0 table *)
  Variable hash : nat -> N.
  Variable ixs : list Z.              (* the rows of the index *)
  Hypothesis Hcols : Forall (parts_in_bounds st0) cols.
  Hypothesis Hcells : forall i, In i ixs -> exists ci, cells_val st0 cols i = Ok ci.
  Hypothesis Hhash : forall i ci, In i ixs -> cells_val st0 cols i = Ok ci ->
                                  gp_hash gp i ci = Z.of_N (Grouper.u32 (hash (row i))).
  Hypothesis Heq : forall i j ci cj, In i ixs -> In j ixs ->
                                     cells_val st0 cols i = Ok ci -> cells_val st0 cols j = Ok cj ->
                                     gp_eq gp i j ci cj = eqb (row i) (row j).

  (* an entry of the heap table read as a slot of the L0 table (Distinct does not collect the group members) *)
  Definition abs_slot (v : val) : option (Grouper.entry nat) :=
    match v with
    | VEnt None h first true => Some (Grouper.mkEntry (Z.to_N h) (row first) [])
    | _ => None
    end.
  Definition slot_ok (v : val) : Prop :=
    v = empty_entry \/ exists h first, v = VEnt None h first true /\ (0 <= h)%Z /\ In first ixs.

  Lemma nth_slot_ok arr p v : Forall slot_ok arr -> nth_error arr p = Some v -> slot_ok v.
  Proof. intros H Hn. rewrite Forall_forall in H. apply H. eapply nth_error_In; eauto. Qed.

  (* the probing loop of insertEntry *)
  Lemma probe_sim le len k arr i ci hN :
    N.of_nat len = (2 ^ k)%N -> length arr = len -> Forall slot_ok arr ->
    In i ixs -> cells_val st0 cols i = Ok ci ->
    forall fuel pos coll n st, keeps st0 st -> lookup st le = Some arr -> pos < len ->
      run env t (probe gp cols (mkSlice le 0 len len) i ci (Z.of_N hN) pos fuel) n st =
      (match Grouper.probe (fun e => if (Grouper.ehash e =? hN)%N then eqb (row i) (Grouper.first e) else false)
                           fuel (map abs_slot arr) (2 ^ k - 1)%N (N.of_nat pos) coll with
       | Ok pc => match nth_error arr (fst pc) with Some v => Ok (fst pc, v) | None => Panic end
       | Fail => Fail
       | Panic => Panic
       end, n, st).
  Proof.
    intros Hpow Hlen Hok Hi Hci. induction fuel as [|fuel IH]; intros pos coll n st Hk Hl Hp; [reflexivity|].
    cbn [probe Grouper.probe]. rewrite run_bindO_unfold, run_slice_get.
    unfold get_val. cbn [s_len s_base s_off]. replace (pos <? len) with true by (symmetry; apply Nat.ltb_lt; exact Hp).
    unfold read_loc. rewrite Hl. cbn [Nat.add].
    destruct (nth_error arr pos) as [v|] eqn:Ev; [|apply nth_error_None in Ev; lia].
    unfold idx at 1. rewrite Ev. cbn [of_option].
    rewrite Nat2N.id. unfold idx. rewrite nth_error_map, Ev. cbn [option_map of_option obind].
    destruct (nth_slot_ok arr pos v Hok Ev) as [->|(eh & first & -> & Heh & Hfirst)].
    - cbn [empty_entry negb abs_slot fst]. rewrite Ev. reflexivity.
    - cbn [negb abs_slot Grouper.ehash Grouper.first].
      destruct (Hcells first Hfirst) as [cf Hcf].
      rewrite run_bindO_unfold, run_cols_cell, (cells_val_keeps _ _ _ _ Hk Hcols), Hcf.
      rewrite (Heq i first ci cf Hi Hfirst Hci Hcf), (zeqb_to_N eh hN Heh).
      destruct (Z.to_N eh =? hN)%N; cbn [andb].
      + destruct (eqb (row i) (row first)).
        * cbn [fst]. rewrite Ev. reflexivity.
        * destruct (next_pos pos len k Hpow Hp) as [Enp Hnp]. rewrite <- Enp. apply IH; auto.
      + destruct (next_pos pos len k Hpow Hp) as [Enp Hnp]. rewrite <- Enp. apply IH; auto.
  Qed.

  Lemma probe_pos_lt (stop : Grouper.entry nat -> bool) (es : list (option (Grouper.entry nat))) mask :
    forall fuel pos coll pc, Grouper.probe stop fuel es mask pos coll = Ok pc -> fst pc < length es.
  Proof.
    induction fuel as [|fuel IH]; intros pos coll pc H; [discriminate|].
    cbn [Grouper.probe] in H. unfold idx in H.
    destruct (nth_error es (N.to_nat pos)) as [s|] eqn:E; [|discriminate]. cbn [of_option obind] in H.
    assert (Hlt : N.to_nat pos < length es) by (apply nth_error_Some; congruence).
    destruct s as [e|].
    - destruct (stop e); [inversion H; subst; exact Hlt|eapply IH; eauto].
    - inversion H; subst. exact Hlt.
  Qed.

  Lemma probe_not_fail (stop : Grouper.entry nat -> bool) (es : list (option (Grouper.entry nat))) mask :
    forall fuel pos coll, Grouper.probe stop fuel es mask pos coll <> Fail.
  Proof.
    induction fuel as [|fuel IH]; intros pos coll; [discriminate|].
    cbn [Grouper.probe]. unfold idx. destruct (nth_error es (N.to_nat pos)) as [[e|]|]; cbn [of_option obind]; try discriminate.
    destruct (stop e); [discriminate|apply IH].
  Qed.

  (* the relocation loop of grow *)
  Lemma place_sim le n k e :
    N.of_nat n = (2 ^ k)%N ->
    forall fuel arr pos coll nn st, length arr = n -> Forall slot_ok arr -> lookup st le = Some arr -> pos < n ->
      run env t (table_place (mkSlice le 0 n n) n e pos fuel) nn st =
      match Grouper.probe (fun _ => false) fuel (map abs_slot arr) (2 ^ k - 1)%N (N.of_nat pos) coll with
      | Ok pc => (Ok tt, nn, write_loc st le (fst pc) e)
      | Fail => (Fail, nn, st)
      | Panic => (Panic, nn, st)
      end.
  Proof.
    intros Hpow. induction fuel as [|fuel IH]; intros arr pos coll nn st Hlen Hok Hl Hp; [reflexivity|].
    cbn [table_place Grouper.probe]. rewrite run_bindO_unfold, run_slice_get.
    unfold get_val. cbn [s_len s_base s_off]. replace (pos <? n) with true by (symmetry; apply Nat.ltb_lt; exact Hp).
    unfold read_loc. rewrite Hl. cbn [Nat.add].
    destruct (nth_error arr pos) as [v|] eqn:Ev; [|apply nth_error_None in Ev; lia].
    unfold idx at 1. rewrite Ev. cbn [of_option].
    rewrite Nat2N.id. unfold idx. rewrite nth_error_map, Ev. cbn [option_map of_option obind].
    destruct (nth_slot_ok arr pos v Hok Ev) as [->|(eh & first & -> & Heh & Hfirst)].
    - cbn [empty_entry abs_slot fst]. rewrite run_slice_set. cbn [s_len s_base s_off].
      replace (pos <? n) with true by (symmetry; apply Nat.ltb_lt; exact Hp). reflexivity.
    - cbn [abs_slot]. destruct (next_pos pos n k Hpow Hp) as [Enp Hnp]. rewrite <- Enp. apply IH; auto.
  Qed.

  Lemma fold_grow_panic fuel mask es :
    fold_left (@Grouper.grow_step nat fuel mask) es Panic = Panic.
  Proof. induction es as [|s es IH]; [reflexivity|]. exact IH. Qed.

  Lemma abs_slot_hash v : slot_ok v -> exists eh, (0 <= eh)%Z /\ Grouper.slot_hash (abs_slot v) = Z.to_N eh /\
                                          match v with VEnt _ h _ _ => h = eh | _ => False end.
  Proof.
    intros [->|(eh & first & -> & Heh & _)].
    - exists 0%Z. split; [lia|]. split; reflexivity.
    - exists eh. split; [exact Heh|]. split; reflexivity.
  Qed.

  Lemma grow_loop le' n k :
    N.of_nat n = (2 ^ k)%N -> lookup st0 le' = None ->
    forall es arr' coll nn st,
      Forall slot_ok es -> length arr' = n -> Forall slot_ok arr' -> keeps st0 st -> store_fresh t nn st ->
      lookup st le' = Some arr' ->
      exists res st',
        run env t (for_eachO es
                     (fun e (_ : unit) =>
                        match e with
                        | VEnt ix eh first occ => table_place (mkSlice le' 0 n n) n e (Z.to_nat (eh mod Z.of_nat (Nat.max n 1))) n
                        | _ => Ret Panic
                        end) tt) nn st = (res, nn, st') /\
        keeps st0 st' /\ store_fresh t nn st' /\
        match fold_left (Grouper.grow_step n (2 ^ k - 1)%N) (map abs_slot es) (Ok (map abs_slot arr', coll)) with
        | Ok nc => res = Ok tt /\ exists arr'', lookup st' le' = Some arr'' /\ length arr'' = n /\ Forall slot_ok arr'' /\
                                               map abs_slot arr'' = fst nc
        | Panic => res = Panic
        | Fail => False
        end.
  Proof.
    intros Hpow Hown. induction es as [|e es IH]; intros arr' coll nn st Hes Hlen Hok Hk Hf Hl.
    - exists (Ok tt), st. split; [reflexivity|]. split; [exact Hk|]. split; [exact Hf|]. cbn [map fold_left].
      split; [reflexivity|]. exists arr'. auto.
    - pose proof (Forall_inv Hes) as He. pose proof (Forall_inv_tail Hes) as Hes'. cbn [for_eachO map fold_left].
      destruct (abs_slot_hash e He) as (eh & Heh & Hsh & Hv).
      destruct e as [| | | | | |ix h first occ|]; try contradiction. subst h.
      destruct (zmod_pos eh n k Heh Hpow) as [Epos Hpos].
      unfold Grouper.grow_step at 2. cbn [obind fst snd].
      rewrite Hsh, GrouperProofs.land_mask, <- Epos.
      rewrite run_bindO_unfold.
      rewrite (place_sim le' n k (VEnt ix eh first occ) Hpow n arr' _ coll nn st Hlen Hok Hl Hpos).
      destruct (Grouper.probe (fun _ => false) n (map abs_slot arr') (2 ^ k - 1)%N
                              (N.of_nat (Z.to_nat (eh mod Z.of_nat (Nat.max n 1)))) coll) as [pc| |] eqn:Epr.
      + cbn [obind].
        assert (Hplt : fst pc < n).
        { pose proof (probe_pos_lt _ _ _ _ _ _ _ Epr) as H. rewrite map_length, Hlen in H. exact H. }
        set (st1 := write_loc st le' (fst pc) (VEnt ix eh first occ)).
        assert (Hl1 : lookup st1 le' = Some (set_nth arr' (fst pc) (VEnt ix eh first occ))).
        { unfold st1. rewrite lookup_write_same, Hl. reflexivity. }
        destruct (IH (set_nth arr' (fst pc) (VEnt ix eh first occ)) (snd pc) nn st1 Hes')
          as (res & st' & Hrun & Hk' & Hf' & Hres).
        { rewrite set_nth_length. exact Hlen. }
        { apply Forall_forall. intros x Hx. apply In_nth_error in Hx. destruct Hx as [q Hq].
          destruct (Nat.eq_dec q (fst pc)) as [->|Hne].
          - rewrite nth_error_set_nth_eq in Hq by (rewrite Hlen; exact Hplt). injection Hq as Hx. rewrite <- Hx. exact He.
          - rewrite nth_error_set_nth_neq in Hq by (intro E; apply Hne; symmetry; exact E). exact (nth_slot_ok arr' q x Hok Hq). }
        { unfold st1. apply keeps_write; auto. }
        { unfold st1. apply fresh_write; auto. }
        { exact Hl1. }
        exists res, st'. split; [exact Hrun|]. split; [exact Hk'|]. split; [exact Hf'|].
        rewrite set_nth_map in Hres. exact Hres.
      + exfalso. exact (probe_not_fail _ _ _ _ _ _ Epr).
      + cbn [obind]. rewrite fold_grow_panic. exists Panic, st. auto.
  Qed.
  (* ---- table.grow *)
  Lemma grow_table_sim le len k arr T n st :
    N.of_nat len = (2 ^ k)%N -> (2 * N.of_nat len < 2 ^ 32)%N ->
    lookup st le = Some arr -> length arr = len -> Forall slot_ok arr -> map abs_slot arr = Grouper.entries T ->
    keeps st0 st -> store_fresh t n st ->
    exists res st',
      run env t (grow_table (mkSlice le 0 len len)) n st = (res, S n, st') /\ keeps st0 st' /\ store_fresh t (S n) st' /\
      match Grouper.grow T with
      | Ok T' => res = Ok (mkSlice (t, n) 0 (2 * len) (2 * len)) /\
                 exists arr', lookup st' (t, n) = Some arr' /\ length arr' = 2 * len /\ Forall slot_ok arr' /\
                              map abs_slot arr' = Grouper.entries T' /\
                              Grouper.group_count T' = Grouper.group_count T /\
                              Grouper.lf_num T' = Grouper.lf_num T /\ Grouper.lf_den T' = (Grouper.lf_den T * 2)%N
      | Panic => res = Panic
      | Fail => False
      end.
  Proof.
    intros Hpow Hbound Hl Hlen Hok Habs Hk Hf.
    pose proof (GrouperProofs.pow2_pos k) as Hp2.
    set (le' := (t, n)). set (n2 := 2 * len).
    set (st1 := update st le' (repeat empty_entry n2)).
    assert (Hfr : lookup st le' = None) by (apply Hf; lia).
    assert (Hfr0 : lookup st0 le' = None) by (exact (keeps_none _ _ _ Hk Hfr)).
    assert (Hne : le <> le') by (intros ->; congruence).
    assert (Hk1 : keeps st0 st1) by (eapply keeps_trans; [exact Hk|apply keeps_update; exact Hfr]).
    assert (Hf1 : store_fresh t (S n) st1) by (apply fresh_update; exact Hf).
    assert (Hl1 : lookup st1 le' = Some (repeat empty_entry n2)) by (unfold st1; apply lookup_update_same).
    assert (Hrd : read_loc st1 le = arr).
    { unfold st1, read_loc. rewrite lookup_update_other by exact Hne. rewrite Hl. reflexivity. }
    assert (Hpow2 : N.of_nat n2 = (2 ^ (k + 1))%N).
    { unfold n2. rewrite N.add_1_r, N.pow_succ_r', <- Hpow. lia. }
    assert (Hlen_e : length (Grouper.entries T) = len) by (rewrite <- Habs, map_length; exact Hlen).
    destruct (grow_loop le' n2 (k + 1) Hpow2 Hfr0 arr (repeat empty_entry n2) (Grouper.reloc_coll T) (S n) st1 Hok
                (repeat_length _ _)) as (res & st' & Hrun & Hk' & Hf' & Hres); auto.
    { apply Forall_forall. intros x Hx. apply repeat_spec in Hx. left. exact Hx. }
    exists (match res with Ok _ => Ok (mkSlice le' 0 n2 n2) | Fail => Fail | Panic => Panic end), st'.
    split.
    { unfold grow_table. cbn [s_len]. fold n2.
      erewrite run_bind_eq; [|apply run_make]. fold le' st1.
      erewrite run_bind_eq; [|apply run_slice_read].
      rewrite (full_seg st1 le len) by (rewrite Hrd; exact Hlen). rewrite Hrd.
      rewrite run_bindO_unfold, Hrun. destruct res; reflexivity. }
    split; [exact Hk'|]. split; [exact Hf'|].
    unfold Grouper.grow. rewrite Hlen_e. change GenConsts.c_growthFactor with 2%N.
    assert (Enl : Grouper.u32 (2 * N.of_nat len) = N.of_nat n2).
    { unfold Grouper.u32. rewrite N.mod_small by exact Hbound. unfold n2. lia. }
    rewrite Enl, Nat2N.id.
    assert (Emask : Grouper.u32 (N.of_nat n2 + (2 ^ 32 - 1)) = (2 ^ (k + 1) - 1)%N).
    { rewrite GrouperProofs.u32_pred; [rewrite Hpow2; reflexivity|rewrite Hpow2; pose proof (GrouperProofs.pow2_pos (k + 1)); lia|].
      unfold n2. lia. }
    rewrite Emask. rewrite map_repeat in Hres. cbn [abs_slot empty_entry] in Hres. rewrite Habs in Hres.
    destruct (fold_left (Grouper.grow_step n2 (2 ^ (k + 1) - 1)%N) (Grouper.entries T)
                        (Ok (repeat None n2, Grouper.reloc_coll T))) as [nc| |]; cbn [obind].
    - destruct Hres as (-> & arr'' & Hl'' & Hlen'' & Hok'' & Habs''). split; [reflexivity|].
      exists arr''. cbn [Grouper.entries Grouper.group_count Grouper.lf_num Grouper.lf_den]. auto 10.
    - contradiction.
    - subst res. reflexivity.
  Qed.

  (* ---- the invariant that ties a heap table to an L0 table *)
  Record tab_inv (st : store) (le : loc) (len : nat) (k : N) (arr : list val) (cnt : nat) (T : Grouper.table nat) : Prop := {
    ti_pow : N.of_nat len = (2 ^ k)%N;
    ti_arr : lookup st le = Some arr;
    ti_len : length arr = len;
    ti_own : lookup st0 le = None;
    ti_ok : Forall slot_ok arr;
    ti_abs : map abs_slot arr = Grouper.entries T;
    ti_cnt : N.of_nat cnt = Grouper.group_count T;
    ti_lf : (Grouper.lf_num T * N.of_nat len = Grouper.group_count T * Grouper.lf_den T)%N;
    ti_den : (0 < Grouper.lf_den T)%N }.

  Definition tab_rel (st : store) (g : gtable) (T : Grouper.table nat) : Prop :=
    exists le len k arr, gt_entries g = mkSlice le 0 len len /\ tab_inv st le len k arr (gt_count g) T.

  Hypothesis Hsize : (4 * N.of_nat (length ixs) < 2 ^ 32)%N.

  (* ---- table.insertEntry after the growth test *)
  Definition h1_insert_core (ents : slice) (cnt : nat) (i : Z) : prog (outcome gtable) :=
    let? ci := cols_cell cols i in
    let h := gp_hash gp i ci in
    let n := s_len ents in
    let? slot := probe gp cols ents i ci h (Z.to_nat (h mod Z.of_nat (Nat.max n 1))) n in
    match snd slot with
    | VEnt ix eh first occ =>
        if negb occ then
          let? _ := slice_set ents (fst slot) (VEnt ix h i true) in
          Ret (Ok (mkGT ents (S cnt)))
        else Ret (Ok (mkGT ents cnt))
    | _ => Ret Panic
    end.

  Lemma h1_insert_split i g :
    insert_entry gp cols false i g =
    (let? ents := (if (s_len (gt_entries g) <? 2 * gt_count g)%nat
                   then grow_table (gt_entries g) else Ret (Ok (gt_entries g))) in
     h1_insert_core ents (gt_count g) i).
  Proof. reflexivity. Qed.

  Definition l0_insert_core (T : Grouper.table nat) (i : nat) : outcome (Grouper.table nat) :=
    let h := Grouper.u32 (hash i) in
    let len := length (Grouper.entries T) in
    let mask := N.pred (N.of_nat len) in
    do pc <- Grouper.probe (fun e => if (Grouper.ehash e =? h)%N then eqb i (Grouper.first e) else false)
                           len (Grouper.entries T) mask (N.land h mask) (Grouper.insert_coll T);
    let pos := fst pc in
    do s <- idx (Grouper.entries T) pos;
    match s with
    | None =>
        let gc := Grouper.u32 (Grouper.group_count T + 1) in
        Ok (Grouper.mkTable (set_nth (Grouper.entries T) pos (Some (Grouper.mkEntry h i []))) gc (N.of_nat len) gc
                            (Grouper.reloc_count T) (Grouper.reloc_coll T) (snd pc))
    | Some e =>
        Ok (Grouper.mkTable (Grouper.entries T) (Grouper.lf_num T) (Grouper.lf_den T) (Grouper.group_count T)
                            (Grouper.reloc_count T) (Grouper.reloc_coll T) (snd pc))
    end.

  Lemma l0_insert_split T0 i :
    Grouper.insert_entry eqb hash false T0 i =
    (do T <- (if (GenConsts.c_maxLoadFactor_num * Grouper.lf_den T0 <? Grouper.lf_num T0 * GenConsts.c_maxLoadFactor_den)%N
              then Grouper.grow T0 else Ok T0);
     l0_insert_core T i).
  Proof. reflexivity. Qed.

  Lemma insert_core_sim le len k arr cnt T i n st :
    tab_inv st le len k arr cnt T -> In i ixs -> keeps st0 st -> store_fresh t n st -> cnt < length ixs ->
    exists res st',
      run env t (h1_insert_core (mkSlice le 0 len len) cnt i) n st = (res, n, st') /\
      keeps st0 st' /\ store_fresh t n st' /\
      match l0_insert_core T (row i) with
      | Ok T' => exists cnt' arr', res = Ok (mkGT (mkSlice le 0 len len) cnt') /\ tab_inv st' le len k arr' cnt' T' /\ cnt' <= S cnt
      | Panic => res = Panic
      | Fail => False
      end.
  Proof.
    intros [Hpow Hl Hlen Hown Hok Habs Hcnt Hlf Hden] Hi Hk Hf Hlt.
    pose proof (GrouperProofs.pow2_pos k) as Hp2.
    destruct (Hcells i Hi) as [ci Hci].
    unfold h1_insert_core, l0_insert_core. cbn [s_len].
    rewrite run_bindO_unfold, run_cols_cell, (cells_val_keeps _ _ _ _ Hk Hcols), Hci.
    rewrite (Hhash i ci Hi Hci).
    set (hN := Grouper.u32 (hash (row i))).
    assert (Hlen_e : length (Grouper.entries T) = len) by (rewrite <- Habs, map_length; exact Hlen).
    rewrite Hlen_e.
    assert (Emask : N.pred (N.of_nat len) = (2 ^ k - 1)%N) by (rewrite Hpow; symmetry; apply N.sub_1_r).
    rewrite Emask, GrouperProofs.land_mask.
    destruct (zmod_pos (Z.of_N hN) len k (N2Z.is_nonneg hN) Hpow) as [Epos Hpos]. rewrite N2Z.id in Epos.
    rewrite <- Epos, <- Habs.
    rewrite run_bindO_unfold.
    rewrite (probe_sim le len k arr i ci hN Hpow Hlen Hok Hi Hci len _ (Grouper.insert_coll T) n st Hk Hl Hpos).
    destruct (Grouper.probe (fun e => if (Grouper.ehash e =? hN)%N then eqb (row i) (Grouper.first e) else false)
                            len (map abs_slot arr) (2 ^ k - 1)%N
                            (N.of_nat (Z.to_nat (Z.of_N hN mod Z.of_nat (Nat.max len 1)))) (Grouper.insert_coll T))
      as [pc| |] eqn:Epr; cbn [obind].
    - assert (Hplt : fst pc < len).
      { pose proof (probe_pos_lt _ _ _ _ _ _ _ Epr) as H. rewrite map_length, Hlen in H. exact H. }
      destruct (nth_error arr (fst pc)) as [v|] eqn:Ev; [|apply nth_error_None in Ev; rewrite Hlen in Ev; exfalso; apply (Nat.lt_irrefl len); eapply Nat.le_lt_trans; eauto].
      unfold idx. rewrite nth_error_map, Ev. cbn [option_map of_option obind snd fst].
      destruct (nth_slot_ok arr (fst pc) v Hok Ev) as [->|(eh & first & -> & Heh & Hfirst)].
      + (* a new group *)
        cbn [empty_entry negb abs_slot].
        rewrite run_bindO_unfold, run_slice_set. cbn [s_len s_base s_off Nat.add].
        replace (fst pc <? len) with true by (symmetry; apply Nat.ltb_lt; exact Hplt).
        set (e' := VEnt None (Z.of_N hN) i true).
        set (st1 := write_loc st le (fst pc) e').
        exists (Ok (mkGT (mkSlice le 0 len len) (S cnt))), st1.
        split; [reflexivity|]. split; [unfold st1; apply keeps_write; auto|]. split; [unfold st1; apply fresh_write; auto|].
        exists (S cnt), (set_nth arr (fst pc) e'). split; [reflexivity|]. split; [|apply Nat.le_refl].
        assert (Egc : Grouper.u32 (Grouper.group_count T + 1) = N.of_nat (S cnt)).
        { unfold Grouper.u32. rewrite <- Hcnt. rewrite N.mod_small; [rewrite Nat2N.inj_succ; apply N.add_1_r|].
          clear - Hlt Hsize. lia. }
        constructor; cbn [Grouper.entries Grouper.group_count Grouper.lf_num Grouper.lf_den].
        * exact Hpow.
        * unfold st1. rewrite lookup_write_same, Hl. reflexivity.
        * rewrite set_nth_length. exact Hlen.
        * exact Hown.
        * apply Forall_forall. intros x Hx. apply In_nth_error in Hx. destruct Hx as [q Hq].
          destruct (Nat.eq_dec q (fst pc)) as [->|Hne].
          -- rewrite nth_error_set_nth_eq in Hq by (rewrite Hlen; exact Hplt). injection Hq as Hx. rewrite <- Hx.
             right. exists (Z.of_N hN), i. split; [reflexivity|]. split; [apply N2Z.is_nonneg|exact Hi].
          -- rewrite nth_error_set_nth_neq in Hq by (intro E; apply Hne; symmetry; exact E). exact (nth_slot_ok arr q x Hok Hq).
        * rewrite set_nth_map. unfold e'. cbn [abs_slot]. rewrite N2Z.id. reflexivity.
        * symmetry. exact Egc.
        * rewrite Egc. reflexivity.
        * rewrite Hpow. exact Hp2.
      + (* an existing group: nothing is written *)
        cbn [negb abs_slot].
        exists (Ok (mkGT (mkSlice le 0 len len) cnt)), st.
        split; [reflexivity|]. split; [exact Hk|]. split; [exact Hf|].
        exists cnt, arr. split; [reflexivity|]. split; [|apply Nat.le_succ_diag_r].
        constructor; cbn [Grouper.entries Grouper.group_count Grouper.lf_num Grouper.lf_den]; auto.
    - exfalso. exact (probe_not_fail _ _ _ _ _ _ Epr).
    - exists Panic, st. auto.
  Qed.
  (* ---- table.insertEntry *)
  Lemma insert_sim i g T n st :
    tab_rel st g T -> In i ixs -> keeps st0 st -> store_fresh t n st -> gt_count g < length ixs ->
    exists res n' st',
      run env t (insert_entry gp cols false i g) n st = (res, n', st') /\ keeps st0 st' /\ store_fresh t n' st' /\
      match Grouper.insert_entry eqb hash false T (row i) with
      | Ok T' => exists g', res = Ok g' /\ tab_rel st' g' T' /\ gt_count g' <= S (gt_count g)
      | Panic => res = Panic
      | Fail => False
      end.
  Proof.
    intros (le & len & k & arr & Hents & Hinv) Hi Hk Hf Hlt.
    pose proof Hinv as [Hpow Hl Hlen Hown Hok Habs Hcnt Hlf Hden].
    pose proof (GrouperProofs.pow2_pos k) as Hp2.
    rewrite h1_insert_split, l0_insert_split, Hents. cbn [s_len].
    change GenConsts.c_maxLoadFactor_num with 1%N. change GenConsts.c_maxLoadFactor_den with 2%N.
    assert (Hlen0 : 0 < len) by (clear - Hpow Hp2; lia).
    rewrite <- (load_test (Grouper.lf_num T) (Grouper.lf_den T) (Grouper.group_count T) len (gt_count g) Hlf Hden Hlen0 Hcnt).
    destruct (len <? 2 * gt_count g) eqn:Etest.
    - apply Nat.ltb_lt in Etest.
      assert (Hbound : (2 * N.of_nat len < 2 ^ 32)%N) by (clear - Etest Hlt Hsize; lia).
      destruct (grow_table_sim le len k arr T n st Hpow Hbound Hl Hlen Hok Habs Hk Hf)
        as (r1 & st1 & Hrun1 & Hk1 & Hf1 & Hr1).
      rewrite run_bindO_unfold, Hrun1.
      destruct (Grouper.grow T) as [T1| |]; cbn [obind].
      + destruct Hr1 as (-> & arr1 & Hl1 & Hlen1 & Hok1 & Habs1 & Hgc1 & Hn1 & Hd1).
        assert (Hinv1 : tab_inv st1 (t, n) (2 * len) (k + 1) arr1 (gt_count g) T1).
        { constructor; auto.
          - rewrite N.add_1_r, N.pow_succ_r', <- Hpow. clear. lia.
          - apply (keeps_none _ _ _ Hk). apply Hf. apply Nat.le_refl.
          - rewrite Hgc1. exact Hcnt.
          - rewrite Hgc1, Hn1, Hd1. clear - Hlf. nia.
          - rewrite Hd1. clear - Hden. lia. }
        destruct (insert_core_sim (t, n) (2 * len) (k + 1) arr1 (gt_count g) T1 i (S n) st1 Hinv1 Hi Hk1 Hf1 Hlt)
          as (res & st' & Hrun & Hk' & Hf' & Hres).
        exists res, (S n), st'. split; [exact Hrun|]. split; [exact Hk'|]. split; [exact Hf'|].
        destruct (l0_insert_core T1 (row i)) as [T'| |]; auto.
        destruct Hres as (cnt' & arr' & -> & Hinv' & Hle).
        eexists. split; [reflexivity|]. split; [|exact Hle].
        exists (t, n), (2 * len), (k + 1)%N, arr'. split; [reflexivity|exact Hinv'].
      + contradiction.
      + subst r1. exists Panic, (S n), st1. auto.
    - cbn [obind]. erewrite run_bindO_ok; [|reflexivity].
      destruct (insert_core_sim le len k arr (gt_count g) T i n st Hinv Hi Hk Hf Hlt) as (res & st' & Hrun & Hk' & Hf' & Hres).
      exists res, n, st'. split; [exact Hrun|]. split; [exact Hk'|]. split; [exact Hf'|].
      destruct (l0_insert_core T (row i)) as [T'| |]; auto.
      destruct Hres as (cnt' & arr' & -> & Hinv' & Hle).
      eexists. split; [reflexivity|]. split; [|exact Hle].
      exists le, len, k, arr'. split; [reflexivity|exact Hinv'].
  Qed.

  (* ---- groupIndex: the loop over the index *)
  Lemma insert_all_sim : forall rest g T n st,
    incl rest ixs -> tab_rel st g T -> keeps st0 st -> store_fresh t n st -> gt_count g + length rest <= length ixs ->
    exists res n' st',
      run env t (for_eachO rest (fun i tb => insert_entry gp cols false i tb) g) n st = (res, n', st') /\
      keeps st0 st' /\ store_fresh t n' st' /\
      match Grouper.insert_all eqb hash false T (map row rest) with
      | Ok T' => exists g', res = Ok g' /\ tab_rel st' g' T' /\ gt_count g' <= gt_count g + length rest
      | Panic => res = Panic
      | Fail => False
      end.
  Proof.
    induction rest as [|i rest IH]; intros g T n st Hincl Hrel Hk Hf Hbudget.
    - exists (Ok g), n, st. split; [reflexivity|]. split; [exact Hk|]. split; [exact Hf|]. exists g.
      split; [reflexivity|]. split; [exact Hrel|]. cbn [length]. rewrite Nat.add_0_r. apply Nat.le_refl.
    - cbn [for_eachO map Grouper.insert_all]. cbn [length] in Hbudget.
      destruct (insert_sim i g T n st Hrel (Hincl i (or_introl eq_refl)) Hk Hf) as (r1 & n1 & st1 & Hrun1 & Hk1 & Hf1 & Hr1).
      { clear - Hbudget. lia. }
      rewrite run_bindO_unfold, Hrun1.
      destruct (Grouper.insert_entry eqb hash false T (row i)) as [T1| |]; cbn [obind].
      + destruct Hr1 as (g1 & -> & Hrel1 & Hle1).
        destruct (IH g1 T1 n1 st1) as (res & n' & st' & Hrun & Hk' & Hf' & Hres); auto.
        * intros x Hx. apply Hincl. right. exact Hx.
        * clear - Hbudget Hle1. lia.
        * exists res, n', st'. split; [exact Hrun|]. split; [exact Hk'|]. split; [exact Hf'|].
          destruct (Grouper.insert_all eqb hash false T1 (map row rest)) as [T'| |]; auto.
          destruct Hres as (g' & Eg & Hrel' & Hle'). exists g'. split; [exact Eg|]. split; [exact Hrel'|].
          cbn [length]. clear - Hle1 Hle'. lia.
      + contradiction.
      + subst r1. exists Panic, n1, st1. auto.
  Qed.

  (* ---- the result index of Distinct: firstPos of every occupied slot, in slot order *)
  Definition first_vals (arr : list val) : list val :=
    flat_map (fun e => match e with VEnt _ _ first true => [VZ first] | _ => [] end) arr.

  Lemma first_vals_abs arr : Forall slot_ok arr ->
    map (fun v => row (as_z v)) (first_vals arr) = map Grouper.first (Grouper.occ (map abs_slot arr)).
  Proof.
    induction 1 as [|v arr Hv _ IH]; [reflexivity|].
    unfold first_vals, Grouper.occ in *. cbn [flat_map map]. rewrite !map_app, IH. f_equal.
    destruct Hv as [->|(eh & first & -> & _ & _)]; reflexivity.
  Qed.

  Lemma collect_loop : forall es r n st,
    keeps st0 st -> store_fresh t n st -> in_bounds st r -> lookup st0 (s_base r) = None -> lookup st (s_base r) <> None ->
    exists r' n' st',
      run env t (for_each es (fun e r => match e with
                                         | VEnt _ _ first true => slice_append r (VZ first)
                                         | _ => Ret r
                                         end) r) n st = (r', n', st') /\
      keeps st0 st' /\ store_fresh t n' st' /\ in_bounds st' r' /\
      seg_of st' r' = seg_of st r ++ first_vals es.
  Proof.
    induction es as [|e es IH]; intros r n st Hk Hf Hb Hown Hlive.
    - exists r, n, st. split; [reflexivity|]. unfold first_vals. cbn [flat_map]. rewrite app_nil_r. auto.
    - cbn [for_each].
      assert (Hskip : first_vals (e :: es) = first_vals es ->
                      run env t (match e with VEnt _ _ first true => slice_append r (VZ first) | _ => Ret r end) n st = (r, n, st) ->
                      exists r' n' st',
                        run env t (let* s' := match e with VEnt _ _ first true => slice_append r (VZ first) | _ => Ret r end in
                                   for_each es (fun e r => match e with VEnt _ _ first true => slice_append r (VZ first) | _ => Ret r end) s') n st
                        = (r', n', st') /\ keeps st0 st' /\ store_fresh t n' st' /\ in_bounds st' r' /\
                        seg_of st' r' = seg_of st r ++ first_vals (e :: es)).
      { intros E1 E2. rewrite E1. destruct (IH r n st Hk Hf Hb Hown Hlive) as (r' & n' & st' & Hrun & Hrest).
        exists r', n', st'. split; [erewrite run_bind_eq; [exact Hrun|exact E2]|exact Hrest]. }
      destruct e as [| | | | | |ixo eh first occ|]; try (apply Hskip; reflexivity).
      destruct occ; [|apply Hskip; reflexivity].
      destruct (append_own env t st0 (VZ first) r n st Hk Hf Hb Hown Hlive)
        as (r1 & n1 & st1 & Happ & Hseg1 & Hb1 & Hk1 & Hf1 & _ & Hown1 & Hlive1 & _).
      destruct (IH r1 n1 st1 Hk1 Hf1 Hb1 Hown1 Hlive1) as (r' & n' & st' & Hrun & Hk' & Hf' & Hb' & Hseg').
      exists r', n', st'. split; [erewrite run_bind_eq; [exact Hrun|exact Happ]|].
      split; [exact Hk'|]. split; [exact Hf'|]. split; [exact Hb'|].
      rewrite Hseg', Hseg1, <- app_assoc. reflexivity.
  Qed.
  (* ---- groupIndex and grouper.Distinct *)
  Theorem refines_grouper_distinct ix n st :
    in_bounds st0 ix -> map as_z (seg_of st0 ix) = ixs -> keeps st0 st -> store_fresh t n st ->
    exists res n' st',
      run env t (grouper_distinct gp cols ix) n st = (res, n', st') /\ keeps st0 st' /\ store_fresh t n' st' /\
      match Grouper.distinct_ids eqb hash (map row ixs) with
      | Ok d => exists nix, res = Ok nix /\ in_bounds st' nix /\ abs_ix st' nix = d
      | Panic => res = Panic
      | Fail => False
      end.
  Proof.
    intros Hix Hixs Hk Hf.
    assert (Hlen_ix : s_len ix = length ixs) by (rewrite <- Hixs, map_length; symmetry; apply seg_length; exact Hix).
    set (e := Grouper.calculate_initial_size_exp (N.of_nat (length ixs))).
    set (sz := initial_size (length ixs)).
    assert (Hsz : N.of_nat sz = (2 ^ e)%N) by (apply initial_size_pow).
    set (le := (t, n)). set (st1 := update st le (repeat empty_entry sz)).
    assert (Hfr : lookup st le = None) by (apply Hf; apply Nat.le_refl).
    assert (Hk1 : keeps st0 st1) by (eapply keeps_trans; [exact Hk|apply keeps_update; exact Hfr]).
    assert (Hf1 : store_fresh t (S n) st1) by (apply fresh_update; exact Hf).
    assert (Hrel : tab_rel st1 (mkGT (mkSlice le 0 sz sz) 0) (Grouper.new_table e)).
    { exists le, sz, e, (repeat empty_entry sz). split; [reflexivity|].
      constructor; cbn [Grouper.new_table Grouper.entries Grouper.group_count Grouper.lf_num Grouper.lf_den gt_count].
      - exact Hsz.
      - unfold st1. apply lookup_update_same.
      - apply repeat_length.
      - exact (keeps_none _ _ _ Hk Hfr).
      - apply Forall_forall. intros x Hx. apply repeat_spec in Hx. left. exact Hx.
      - rewrite map_repeat. cbn [abs_slot empty_entry]. rewrite <- Hsz, Nat2N.id. reflexivity.
      - reflexivity.
      - reflexivity.
      - reflexivity. }
    destruct (insert_all_sim ixs (mkGT (mkSlice le 0 sz sz) 0) (Grouper.new_table e) (S n) st1 (incl_refl _) Hrel Hk1 Hf1)
      as (r2 & n2 & st2 & Hrun2 & Hk2 & Hf2 & Hr2).
    { cbn [gt_count]. apply Nat.le_refl. }
    assert (Hgi : run env t (group_index gp cols false ix) n st = (r2, n2, st2)).
    { unfold group_index. rewrite Hlen_ix. fold sz.
      erewrite run_bind_eq; [|apply run_make]. fold le st1.
      erewrite run_bind_eq; [|apply run_read_zs].
      rewrite (seg_keeps_eq _ _ _ Hk1 Hix), Hixs. exact Hrun2. }
    unfold grouper_distinct. rewrite run_bindO_unfold, Hgi.
    unfold Grouper.distinct_ids, Grouper.distinct_ids_gen, Grouper.group_index. rewrite map_length. fold e.
    destruct (Grouper.insert_all eqb hash false (Grouper.new_table e) (map row ixs)) as [T'| |]; cbn [obind].
    - destruct Hr2 as (g' & -> & (le' & len' & k' & arr' & Hents' & Hinv') & _).
      destruct Hinv' as [Hpow' Hl' Hlen' Hown' Hok' Habs' Hcnt' _ _].
      set (lr := (t, n2)). set (st3 := update st2 lr (repeat (VZ 0) (gt_count g'))).
      assert (Hfr2 : lookup st2 lr = None) by (apply Hf2; apply Nat.le_refl).
      assert (Hk3 : keeps st0 st3) by (eapply keeps_trans; [exact Hk2|apply keeps_update; exact Hfr2]).
      assert (Hf3 : store_fresh t (S n2) st3) by (apply fresh_update; exact Hf2).
      assert (Hlr3 : lookup st3 lr = Some (repeat (VZ 0) (gt_count g'))) by (unfold st3; apply lookup_update_same).
      assert (Hne : le' <> lr) by (intros ->; congruence).
      assert (Hrd : read_loc st3 le' = arr').
      { unfold st3, read_loc. rewrite lookup_update_other by exact Hne. rewrite Hl'. reflexivity. }
      destruct (collect_loop arr' (mkSlice lr 0 0 (gt_count g')) (S n2) st3 Hk3 Hf3)
        as (r' & n' & st' & Hrun & Hk' & Hf' & Hb' & Hseg').
      { split; cbn [s_len s_cap s_off s_base]; [lia|]. unfold read_loc. rewrite Hlr3, repeat_length. lia. }
      { exact (keeps_none _ _ _ Hk2 Hfr2). }
      { cbn [s_base]. rewrite Hlr3. discriminate. }
      exists (Ok r'), n', st'. split.
      { erewrite run_bind_eq; [|apply run_make]. fold lr st3.
        erewrite run_bind_eq; [|apply run_slice_read]. rewrite Hents'.
        rewrite (full_seg st3 le' len') by (rewrite Hrd; exact Hlen'). rewrite Hrd.
        apply run_lift. exact Hrun. }
      split; [exact Hk'|]. split; [exact Hf'|].
      exists r'. split; [reflexivity|]. split; [exact Hb'|].
      unfold abs_ix. rewrite Hseg', empty_seg. cbn [app]. rewrite (first_vals_abs arr' Hok'), Habs'. reflexivity.
    - contradiction.
    - subst r2. exists Panic, n2, st2. auto.
  Qed.
  (* ---- a row of the index outside a key column: insertEntry panics when it hashes the row *)
  Lemma insert_oob i g T n st :
    tab_rel st g T -> cells_val st0 cols i = Panic -> keeps st0 st -> store_fresh t n st -> gt_count g <= length ixs ->
    exists n' st', run env t (insert_entry gp cols false i g) n st = (Panic, n', st') /\ keeps st0 st' /\ store_fresh t n' st'.
  Proof.
    intros (le & len & k & arr & Hents & Hinv) Hci Hk Hf Hle.
    pose proof Hinv as [Hpow Hl Hlen Hown Hok Habs Hcnt Hlf Hden].
    rewrite h1_insert_split, Hents. cbn [s_len].
    assert (Hcore : forall ents n1 st1, keeps st0 st1 -> run env t (h1_insert_core ents (gt_count g) i) n1 st1 = (Panic, n1, st1)).
    { intros ents n1 st1 Hk1. unfold h1_insert_core.
      rewrite run_bindO_unfold, run_cols_cell, (cells_val_keeps _ _ _ _ Hk1 Hcols), Hci. reflexivity. }
    destruct (len <? 2 * gt_count g) eqn:Etest.
    - apply Nat.ltb_lt in Etest.
      assert (Hbound : (2 * N.of_nat len < 2 ^ 32)%N) by (clear - Etest Hle Hsize; lia).
      destruct (grow_table_sim le len k arr T n st Hpow Hbound Hl Hlen Hok Habs Hk Hf) as (r1 & st1 & Hrun1 & Hk1 & Hf1 & Hr1).
      rewrite run_bindO_unfold, Hrun1.
      destruct (Grouper.grow T) as [T1| |].
      + destruct Hr1 as (-> & _). rewrite (Hcore _ _ _ Hk1). exists (S n), st1. auto.
      + contradiction.
      + subst r1. exists (S n), st1. auto.
    - erewrite run_bindO_ok; [|reflexivity]. rewrite (Hcore _ _ _ Hk). exists n, st. auto.
  Qed.
  Lemma grouper_distinct_oob bad rest ix n st :
    cells_val st0 cols bad = Panic ->
    in_bounds st0 ix -> map as_z (seg_of st0 ix) = ixs ++ bad :: rest -> keeps st0 st -> store_fresh t n st ->
    exists n' st', run env t (grouper_distinct gp cols ix) n st = (Panic, n', st') /\ keeps st0 st' /\ store_fresh t n' st'.
  Proof.
    intros Hbad Hix Hixs Hk Hf.
    set (sz := initial_size (s_len ix)).
    set (e := Grouper.calculate_initial_size_exp (N.of_nat (s_len ix))).
    assert (Hsz : N.of_nat sz = (2 ^ e)%N) by (apply initial_size_pow).
    set (le := (t, n)). set (st1 := update st le (repeat empty_entry sz)).
    assert (Hfr : lookup st le = None) by (apply Hf; apply Nat.le_refl).
    assert (Hk1 : keeps st0 st1) by (eapply keeps_trans; [exact Hk|apply keeps_update; exact Hfr]).
    assert (Hf1 : store_fresh t (S n) st1) by (apply fresh_update; exact Hf).
    assert (Hrel : tab_rel st1 (mkGT (mkSlice le 0 sz sz) 0) (Grouper.new_table e)).
    { exists le, sz, e, (repeat empty_entry sz). split; [reflexivity|].
      constructor; cbn [Grouper.new_table Grouper.entries Grouper.group_count Grouper.lf_num Grouper.lf_den gt_count].
      - exact Hsz.
      - unfold st1. apply lookup_update_same.
      - apply repeat_length.
      - exact (keeps_none _ _ _ Hk Hfr).
      - apply Forall_forall. intros x Hx. apply repeat_spec in Hx. left. exact Hx.
      - rewrite map_repeat. cbn [abs_slot empty_entry]. rewrite <- Hsz, Nat2N.id. reflexivity.
      - reflexivity.
      - reflexivity.
      - reflexivity. }
    destruct (insert_all_sim ixs (mkGT (mkSlice le 0 sz sz) 0) (Grouper.new_table e) (S n) st1 (incl_refl _) Hrel Hk1 Hf1)
      as (r2 & n2 & st2 & Hrun2 & Hk2 & Hf2 & Hr2).
    { cbn [gt_count]. apply Nat.le_refl. }
    assert (Hloop : exists n' st', run env t (for_eachO (ixs ++ bad :: rest) (fun i tb => insert_entry gp cols false i tb)
                                                (mkGT (mkSlice le 0 sz sz) 0)) (S n) st1 = (Panic, n', st') /\
                                   keeps st0 st' /\ store_fresh t n' st').
    { rewrite run_for_eachO_app, Hrun2.
      destruct (Grouper.insert_all eqb hash false (Grouper.new_table e) (map row ixs)) as [T'| |].
      - destruct Hr2 as (g' & -> & Hrel' & Hcnt'). cbn [gt_count Nat.add] in Hcnt'.
        destruct (insert_oob bad g' T' n2 st2 Hrel' Hbad Hk2 Hf2 Hcnt') as (n3 & st3 & Hrun3 & Hk3 & Hf3).
        cbn [for_eachO]. rewrite run_bindO_unfold, Hrun3. exists n3, st3. auto.
      - contradiction.
      - subst r2. exists n2, st2. auto. }
    destruct Hloop as (n' & st' & Hrun & Hk' & Hf').
    exists n', st'. split; [|auto].
    unfold grouper_distinct. erewrite run_bindO_panic; [reflexivity|].
    unfold group_index. fold sz.
    erewrite run_bind_eq; [|apply run_make]. fold le st1.
    erewrite run_bind_eq; [|apply run_read_zs].
    rewrite (seg_keeps_eq _ _ _ Hk1 Hix), Hixs. exact Hrun.
  Qed.
End TableSim.

(* ==================================================================== 4b. QFrame.Distinct *)
Section DistinctRefine.
  Variable env : fnid -> list val -> val.
  Variable dec : decoder.

  Lemma has_key_contains st qf f nm :
    ref_ok dec st qf -> abs1 dec st qf = Some f -> has_key (map_of st (q_map qf)) nm = Frame.contains f nm.
  Proof.
    intros Hok Habs. pose proof (by_name_l0 dec st qf f nm Hok Habs) as H.
    unfold has_key, Frame.contains. unfold Frame.lookup_col in H.
    destruct (map_get (map_of st (q_map qf)) nm); destruct (Frame.lookup f nm); simpl in H; auto; contradiction.
  Qed.

  (* the key columns are looked up in the by-name map: every name resolves on both sides or on neither *)
  Lemma lookup_named t st qf f n :
    ref_ok dec st qf -> abs1 dec st qf = Some f ->
    forall names acc,
    exists r, run env t (for_eachO names (fun nm acc => let* oc := by_name_m (q_map qf) nm in
                                             Ret (match oc with None => Fail | Some c => Ok (acc ++ [c]) end)) acc) n st = (r, n, st) /\
              match Aggregate.named_cols f names with
              | Ok ks => exists cs, r = Ok (acc ++ cs)
              | Panic => r = Fail
              | Fail => False
              end.
  Proof.
    intros Hok Habs. induction names as [|nm names IH]; intros acc.
    - exists (Ok acc). split; [reflexivity|]. exists []. rewrite app_nil_r. reflexivity.
    - cbn [for_eachO]. unfold Aggregate.named_cols. cbn [omap]. fold (Aggregate.named_cols f names).
      pose proof (by_name_l0 dec st qf f nm Hok Habs) as Hb.
      assert (Hrun : run env t (let* oc := by_name_m (q_map qf) nm in
                                Ret (match oc with None => Fail | Some c => Ok (acc ++ [c]) end)) n st
                     = (match map_get (map_of st (q_map qf)) nm with None => Fail | Some c => Ok (acc ++ [c]) end, n, st)).
      { erewrite run_bind_eq; [|apply run_by_name_m]. reflexivity. }
      destruct (map_get (map_of st (q_map qf)) nm) as [c|]; destruct (Frame.lookup_col f nm) as [d|]; try contradiction.
      + destruct (IH (acc ++ [c])) as (r & Hr & Hres). exists r. split; [erewrite run_bindO_ok; [exact Hr|exact Hrun]|].
        cbn [of_option obind]. destruct (Aggregate.named_cols f names) as [ks| |]; cbn [obind]; auto.
        destruct Hres as [cs ->]. exists (c :: cs). rewrite <- app_assoc. reflexivity.
      + exists Fail. split; [erewrite run_bindO_fail; [reflexivity|exact Hrun]|]. reflexivity.
  Qed.

  (* QFrame.Distinct, parametric in the L0 reading [dst] of grouper.Distinct: the premise is the refinement of the
     table for the key columns the names resolve to *)
  Theorem refines_distinct_with dst gp t n st qf f names :
    ref_ok dec st qf -> abs1 dec st qf = Some f -> store_fresh t n st ->
    (forall cols kcols,
        run env t (lookup_cols (q_map qf) (match names with [] => Frame.col_names f | _ => names end)) n st = (Ok cols, n, st) ->
        Aggregate.named_cols f (match names with [] => Frame.col_names f | _ => names end) = Ok kcols ->
        Forall (parts_in_bounds st) cols ->
        exists res n' st',
          run env t (grouper_distinct gp cols (q_idx qf)) n st = (res, n', st') /\ keeps st st' /\ store_fresh t n' st' /\
          match dst kcols (Frame.ix f) with
          | Ok d => exists nix, res = Ok nix /\ in_bounds st' nix /\ abs_ix st' nix = d
          | Panic => res = Panic
          | Fail => False
          end) ->
    exists res n' st',
      run env t (op_distinct gp names qf) n st = (res, n', st') /\ keeps st st' /\ store_fresh t n' st' /\
      match res with
      | Ok qf' => ref_ok dec st' qf' /\ exists f', Aggregate.distinct_with dst f names = Ok f' /\ abs1 dec st' qf' = Some f'
      | Panic => Aggregate.distinct_with dst f names = Panic
      | Fail => False
      end.
  Proof.
    intros Hok Habs Hf Htab. destruct (abs1_inv _ _ _ _ Habs) as (Hc & Hi & He).
    unfold op_distinct, Aggregate.distinct_with. rewrite He.
    destruct (q_err qf) eqn:Eerr.
    { exists (Ok qf), n, st. split; [reflexivity|]. split; [apply keeps_refl|]. split; [exact Hf|]. split; [exact Hok|].
      exists f. auto. }
    pose proof (abs_ix_length _ _ (ro_idx _ _ _ Hok)) as Hlen. rewrite <- Hi in Hlen.
    destruct (s_len (q_idx qf) =? 0) eqn:E0.
    { apply Nat.eqb_eq in E0. destruct (Frame.ix f) as [|p r] eqn:Eix; [|simpl in Hlen; lia].
      exists (Ok qf), n, st. split; [reflexivity|]. split; [apply keeps_refl|]. split; [exact Hf|]. split; [exact Hok|].
      exists f. auto. }
    apply Nat.eqb_neq in E0. destruct (Frame.ix f) as [|p r] eqn:Eix; [simpl in Hlen; lia|].
    erewrite run_bind_eq; [|apply run_check_columns].
    assert (Echk : forallb (has_key (map_of st (q_map qf))) names = forallb (Frame.contains f) names).
    { clear - Hok Habs. induction names as [|nm names IH]; [reflexivity|]. cbn [forallb]. rewrite IH, (has_key_contains st qf f nm Hok Habs). reflexivity. }
    rewrite Echk. destruct (forallb (Frame.contains f) names); cbn [negb].
    2:{ exists (Ok (with_err qf)), n, st. split; [reflexivity|]. split; [apply keeps_refl|]. split; [exact Hf|].
        split; [apply with_err_ok; exact Hok|]. exists (Frame.with_err f). split; [reflexivity|apply with_err_abs; exact Habs]. }
    assert (Eall : run env t (columns_or_all names qf) n st = (match names with [] => Frame.col_names f | _ => names end, n, st)).
    { destruct names as [|n0 nr]; [|reflexivity]. cbn [columns_or_all].
      erewrite run_bind_eq; [|apply run_read_cols]. unfold Frame.col_names.
      rewrite (abs_cols_names dec st _ _ Hc). reflexivity. }
    erewrite run_bind_eq; [|exact Eall].
    set (names' := match names with [] => Frame.col_names f | _ => names end) in *.
    replace (match names with [] => Frame.col_names f | _ :: _ => names end) with names' by (unfold names'; destruct names; reflexivity).
    destruct (lookup_named t st qf f n Hok Habs names' []) as (r1 & Hr1 & Hres1). fold (lookup_cols (q_map qf) names') in Hr1.
    erewrite run_bind_eq; [|exact Hr1].
    destruct (Aggregate.named_cols f names') as [kcols| |] eqn:Enc; cbn [obind].
    - destruct Hres1 as [cols ->]. cbn [app] in Hr1.
      assert (Hparts : Forall (parts_in_bounds st) cols).
      { destruct (lookup_cols_run env t (q_map qf) names' n st) as (r' & Hr' & Hlc). rewrite Hr1 in Hr'. inversion Hr'; subst r'.
        specialize (Hlc cols eq_refl). pose proof (ro_mparts _ _ _ Hok) as Hm. rewrite Forall_forall in Hm, Hlc.
        apply Forall_forall. intros c Hcin. destruct (Hlc c Hcin) as [k Hk]. apply (Hm (k, c) Hk). }
      destruct (Htab cols kcols Hr1 eq_refl Hparts) as (res & n' & st' & Hrun & Hk' & Hf' & Hres).
      cbn [app]. rewrite run_bindO_unfold, Hrun.
      destruct (dst kcols (p :: r)) as [d| |]; cbn [obind].
      + destruct Hres as (nix & -> & Hbn & Hd).
        exists (Ok (with_index qf nix)), n', st'. split; [reflexivity|]. split; [exact Hk'|]. split; [exact Hf'|].
        split; [apply with_index_ok; [eapply ref_ok_keeps; eauto|exact Hbn]|].
        exists (Frame.with_ix f d). split; [reflexivity|].
        rewrite (with_index_abs dec st' qf f nix); [rewrite Hd; reflexivity|].
        rewrite (abs1_keeps _ _ _ _ Hk' Hok). exact Habs.
      + contradiction.
      + subst res. exists Panic, n', st'. auto.
    - contradiction.
    - subst r1. exists Panic, n, st. split; [reflexivity|]. split; [apply keeps_refl|]. split; [exact Hf|reflexivity].
  Qed.

  (* THE LINK between the hash / key equality of the heap run and the L0 table over the key cells of Model/Aggregate.v,
     for the rows of the index: every row has its key cells on both sides (a row outside a key column panics on
     both sides but is not covered), the hash the heap run uses is the uint32 cast of the L0 hash, the equality is the
     L0 key equality *)
  Definition key_link (st : store) (cols : list col) (kcols : list Frame.coldata) (gp : gparams)
             (eqb : nat -> nat -> bool) (hash : nat -> N) (ixs : list Z) : Prop :=
    (forall i, In i ixs -> exists ci, cells_val st cols i = Ok ci) /\
    (forall i ci, In i ixs -> cells_val st cols i = Ok ci -> gp_hash gp i ci = Z.of_N (Grouper.u32 (hash (row i)))) /\
    (forall i j ci cj, In i ixs -> In j ixs -> cells_val st cols i = Ok ci -> cells_val st cols j = Ok cj ->
                       gp_eq gp i j ci cj = eqb (row i) (row j)) /\
    (exists ks, omap (Aggregate.key_row kcols) (map row ixs) = Ok ks).

  Theorem refines_distinct memhash rnd nulleq gp t n st qf f names :
    ref_ok dec st qf -> abs1 dec st qf = Some f -> store_fresh t n st ->
    (4 * N.of_nat (length (Frame.ix f)) < 2 ^ 32)%N ->
    (forall cols kcols,
        run env t (lookup_cols (q_map qf) (match names with [] => Frame.col_names f | _ => names end)) n st = (Ok cols, n, st) ->
        Aggregate.named_cols f (match names with [] => Frame.col_names f | _ => names end) = Ok kcols ->
        key_link st cols kcols gp (Aggregate.key_eqb nulleq kcols) (Aggregate.key_hash memhash rnd nulleq kcols)
                 (map as_z (seg_of st (q_idx qf)))) ->
    exists res n' st',
      run env t (op_distinct gp names qf) n st = (res, n', st') /\ keeps st st' /\ store_fresh t n' st' /\
      match res with
      | Ok qf' => ref_ok dec st' qf' /\ exists f', Aggregate.distinct memhash rnd nulleq f names = Ok f' /\ abs1 dec st' qf' = Some f'
      | Panic => Aggregate.distinct memhash rnd nulleq f names = Panic
      | Fail => False
      end.
  Proof.
    intros Hok Habs Hf Hsize Hlink. destruct (abs1_inv _ _ _ _ Habs) as (Hc & Hi & He).
    apply (refines_distinct_with (Aggregate.table_distinct memhash rnd nulleq) gp t n st qf f names Hok Habs Hf).
    intros cols kcols Hcols Hkcols Hparts.
    destruct (Hlink cols kcols Hcols Hkcols) as (Hcells & Hhash & Heq & ks & Hks).
    assert (Eix : Frame.ix f = map row (map as_z (seg_of st (q_idx qf)))).
    { rewrite Hi. unfold abs_ix. rewrite map_map. reflexivity. }
    unfold Aggregate.table_distinct. rewrite Eix, Hks. cbn [obind].
    apply (refines_grouper_distinct env t st cols gp (Aggregate.key_eqb nulleq kcols) (Aggregate.key_hash memhash rnd nulleq kcols)
             (map as_z (seg_of st (q_idx qf))) Hparts Hcells Hhash Heq).
    - rewrite map_length. rewrite Eix, !map_length in Hsize. exact Hsize.
    - apply (ro_idx _ _ _ Hok).
    - reflexivity.
    - apply keeps_refl.
    - exact Hf.
  Qed.
End DistinctRefine.

(* ==================================================================== 5. GroupBy: the hash table that collects the groups *)
(* As Distinct, but an occupied slot also owns the index slice of its group: nil while the group has one member,
   index.Int{firstPos, i} (a fresh array) from the second member on, then append (in place or into a larger fresh
   array).  A slot of the heap table therefore reads as an L0 slot THROUGH THE STORE; the group slices live in
   arrays the call allocated, pairwise different and different from the table arrays. *)
Lemma set_nth_twice' {X} (l : list X) : forall i v w, set_nth (set_nth l i v) i w = set_nth l i w.
Proof. induction l as [|x l IH]; intros [|i] v w; cbn [set_nth]; try reflexivity. rewrite IH. reflexivity. Qed.

Section TableSimG.
  Variable env : fnid -> list val -> val.
  Variable t : nat.
  Variable st0 : store.
  Variable cols : list col.
  Variable gp : gparams.
  Variable eqb : nat -> nat -> bool.
  Variable hash : nat -> N.
  Variable ixs : list Z.
  Hypothesis Hcols : Forall (parts_in_bounds st0) cols.
  Hypothesis Hcells : forall i, In i ixs -> exists ci, cells_val st0 cols i = Ok ci.
  Hypothesis Hhash : forall i ci, In i ixs -> cells_val st0 cols i = Ok ci ->
                                  gp_hash gp i ci = Z.of_N (Grouper.u32 (hash (row i))).
  Hypothesis Heq : forall i j ci cj, In i ixs -> In j ixs ->
                                     cells_val st0 cols i = Ok ci -> cells_val st0 cols j = Ok cj ->
                                     gp_eq gp i j ci cj = eqb (row i) (row j).

  Definition ent_slice (v : val) : list slice := match v with VEnt (Some s) _ _ _ => [s] | _ => [] end.
  Definition ent_slices (arr : list val) : list slice := flat_map ent_slice arr.
  Definition abs_ixo (st : store) (ixo : option slice) : list nat :=
    match ixo with Some s => abs_ix st s | None => [] end.
  Definition abs_slot_g (st : store) (v : val) : option (Grouper.entry nat) :=
    match v with
    | VEnt ixo h first true => Some (Grouper.mkEntry (Z.to_N h) (row first) (abs_ixo st ixo))
    | _ => None
    end.
  Definition slice_good (st : store) (s : slice) : Prop :=
    in_bounds st s /\ 0 < s_len s /\ lookup st0 (s_base s) = None.
  Definition slot_ok_g (st : store) (v : val) : Prop :=
    v = empty_entry \/
    exists ixo h first, v = VEnt ixo h first true /\ (0 <= h)%Z /\ In first ixs /\
                        match ixo with Some s => slice_good st s | None => True end.

  Lemma nth_slot_ok_g st arr p v : Forall (slot_ok_g st) arr -> nth_error arr p = Some v -> slot_ok_g st v.
  Proof. intros H Hn. rewrite Forall_forall in H. apply H. eapply nth_error_In; eauto. Qed.

  Lemma slice_good_live st s : slice_good st s -> lookup st (s_base s) <> None.
  Proof.
    intros (Hb & Hl & _). destruct (in_bounds_live st s Hb) as [a Ha]; [destruct Hb; lia|congruence].
  Qed.

  (* a slot reads the same in two stores that agree on the array of its group slice *)
  Lemma abs_slot_g_same st st' v :
    (forall s, In s (ent_slice v) -> lookup st' (s_base s) = lookup st (s_base s)) -> abs_slot_g st' v = abs_slot_g st v.
  Proof.
    intro H. destruct v as [| | | | | |ixo h first occ|]; try reflexivity. destruct occ; [|reflexivity].
    destruct ixo as [s|]; [|reflexivity]. cbn [abs_slot_g abs_ixo]. unfold abs_ix.
    rewrite (seg_same st st' s); [reflexivity|]. apply H. left. reflexivity.
  Qed.

  Lemma slot_ok_g_same st st' v :
    (forall s, In s (ent_slice v) -> lookup st' (s_base s) = lookup st (s_base s)) -> slot_ok_g st v -> slot_ok_g st' v.
  Proof.
    intros H [->|(ixo & h & first & -> & Hh & Hf & Hs)]; [left; reflexivity|].
    right. exists ixo, h, first. split; [reflexivity|]. split; [exact Hh|]. split; [exact Hf|].
    destruct ixo as [s|]; [|exact I]. destruct Hs as (Hb & Hl & Ho).
    split; [|split; [exact Hl|exact Ho]]. apply (in_bounds_same st st' s); [|exact Hb]. apply H. left. reflexivity.
  Qed.

  Lemma in_ent_slices arr v s : In v arr -> In s (ent_slice v) -> In s (ent_slices arr).
  Proof. intros Hv Hs. unfold ent_slices. apply in_flat_map. exists v. auto. Qed.

  Lemma map_abs_same st st' arr :
    (forall s, In s (ent_slices arr) -> lookup st' (s_base s) = lookup st (s_base s)) ->
    map (abs_slot_g st') arr = map (abs_slot_g st) arr.
  Proof.
    intro H. apply map_ext_in. intros v Hv. apply abs_slot_g_same. intros s Hs. apply H. eapply in_ent_slices; eauto.
  Qed.

  Lemma Forall_ok_same st st' arr :
    (forall s, In s (ent_slices arr) -> lookup st' (s_base s) = lookup st (s_base s)) ->
    Forall (slot_ok_g st) arr -> Forall (slot_ok_g st') arr.
  Proof.
    intros H Hok. apply Forall_forall. intros v Hv. rewrite Forall_forall in Hok.
    apply (slot_ok_g_same st st' v); [|apply Hok; exact Hv]. intros s Hs. apply H. eapply in_ent_slices; eauto.
  Qed.

  (* the probing loop of insertEntry *)
  Lemma probe_sim_g le len k arr i ci hN :
    N.of_nat len = (2 ^ k)%N -> length arr = len ->
    In i ixs -> cells_val st0 cols i = Ok ci ->
    forall fuel pos coll n st, keeps st0 st -> Forall (slot_ok_g st) arr -> lookup st le = Some arr -> pos < len ->
      run env t (probe gp cols (mkSlice le 0 len len) i ci (Z.of_N hN) pos fuel) n st =
      (match Grouper.probe (fun e => if (Grouper.ehash e =? hN)%N then eqb (row i) (Grouper.first e) else false)
                           fuel (map (abs_slot_g st) arr) (2 ^ k - 1)%N (N.of_nat pos) coll with
       | Ok pc => match nth_error arr (fst pc) with Some v => Ok (fst pc, v) | None => Panic end
       | Fail => Fail
       | Panic => Panic
       end, n, st).
  Proof.
    intros Hpow Hlen Hi Hci. induction fuel as [|fuel IH]; intros pos coll n st Hk Hok Hl Hp; [reflexivity|].
    cbn [probe Grouper.probe]. rewrite run_bindO_unfold, run_slice_get.
    unfold get_val. cbn [s_len s_base s_off]. replace (pos <? len) with true by (symmetry; apply Nat.ltb_lt; exact Hp).
    unfold read_loc. rewrite Hl. cbn [Nat.add].
    destruct (nth_error arr pos) as [v|] eqn:Ev; [|apply nth_error_None in Ev; lia].
    unfold idx at 1. rewrite Ev. cbn [of_option].
    rewrite Nat2N.id. unfold idx. rewrite nth_error_map, Ev. cbn [option_map of_option obind].
    destruct (nth_slot_ok_g st arr pos v Hok Ev) as [->|(ixo & eh & first & -> & Heh & Hfirst & _)].
    - cbn [empty_entry negb abs_slot_g fst]. rewrite Ev. reflexivity.
    - cbn [negb abs_slot_g Grouper.ehash Grouper.first].
      destruct (Hcells first Hfirst) as [cf Hcf].
      rewrite run_bindO_unfold, run_cols_cell, (cells_val_keeps _ _ _ _ Hk Hcols), Hcf.
      rewrite (Heq i first ci cf Hi Hfirst Hci Hcf), (zeqb_to_N eh hN Heh).
      destruct (Z.to_N eh =? hN)%N; cbn [andb].
      + destruct (eqb (row i) (row first)).
        * cbn [fst]. rewrite Ev. reflexivity.
        * destruct (next_pos pos len k Hpow Hp) as [Enp Hnp]. rewrite <- Enp. apply IH; auto.
      + destruct (next_pos pos len k Hpow Hp) as [Enp Hnp]. rewrite <- Enp. apply IH; auto.
  Qed.

  (* the relocation loop of grow; [stb] is the store the slots are read in (it agrees with the running store on
     every group slice: only the new table array is written) *)
  Lemma place_sim_g stb le n k e :
    N.of_nat n = (2 ^ k)%N ->
    forall fuel arr pos coll nn st, length arr = n -> Forall (slot_ok_g stb) arr -> lookup st le = Some arr -> pos < n ->
      run env t (table_place (mkSlice le 0 n n) n e pos fuel) nn st =
      match Grouper.probe (fun _ => false) fuel (map (abs_slot_g stb) arr) (2 ^ k - 1)%N (N.of_nat pos) coll with
      | Ok pc => (Ok tt, nn, write_loc st le (fst pc) e)
      | Fail => (Fail, nn, st)
      | Panic => (Panic, nn, st)
      end.
  Proof.
    intros Hpow. induction fuel as [|fuel IH]; intros arr pos coll nn st Hlen Hok Hl Hp; [reflexivity|].
    cbn [table_place Grouper.probe]. rewrite run_bindO_unfold, run_slice_get.
    unfold get_val. cbn [s_len s_base s_off]. replace (pos <? n) with true by (symmetry; apply Nat.ltb_lt; exact Hp).
    unfold read_loc. rewrite Hl. cbn [Nat.add].
    destruct (nth_error arr pos) as [v|] eqn:Ev; [|apply nth_error_None in Ev; lia].
    unfold idx at 1. rewrite Ev. cbn [of_option].
    rewrite Nat2N.id. unfold idx. rewrite nth_error_map, Ev. cbn [option_map of_option obind].
    destruct (nth_slot_ok_g stb arr pos v Hok Ev) as [->|(ixo & eh & first & -> & Heh & Hfirst & _)].
    - cbn [empty_entry abs_slot_g fst]. rewrite run_slice_set. cbn [s_len s_base s_off].
      replace (pos <? n) with true by (symmetry; apply Nat.ltb_lt; exact Hp). reflexivity.
    - cbn [abs_slot_g]. destruct (next_pos pos n k Hpow Hp) as [Enp Hnp]. rewrite <- Enp. apply IH; auto.
  Qed.
  Lemma ent_slices_good st arr s : Forall (slot_ok_g st) arr -> In s (ent_slices arr) -> slice_good st s.
  Proof.
    intros Hok Hin. unfold ent_slices in Hin. apply in_flat_map in Hin. destruct Hin as (v & Hv & Hs).
    rewrite Forall_forall in Hok. destruct (Hok v Hv) as [->|(ixo & h & first & -> & _ & _ & Hg)]; [contradiction|].
    destruct ixo as [s'|]; [|contradiction]. destruct Hs as [<-|[]]. exact Hg.
  Qed.

  Lemma ent_slices_set_empty arr e : forall p,
    nth_error arr p = Some empty_entry -> Permutation (ent_slices (set_nth arr p e)) (ent_slice e ++ ent_slices arr).
  Proof.
    induction arr as [|x arr IH]; intros p Hp; [destruct p; discriminate|].
    destruct p as [|p]; cbn [set_nth].
    - cbn [nth_error] in Hp. injection Hp as ->. unfold ent_slices. cbn [flat_map ent_slice empty_entry app]. apply Permutation_refl.
    - cbn [nth_error] in Hp. unfold ent_slices in *. cbn [flat_map].
      eapply perm_trans; [apply Permutation_app_head; apply (IH p Hp)|]. apply Permutation_app_swap_app.
  Qed.

  Lemma probe_false_none (es : list (option (Grouper.entry nat))) mask :
    forall fuel pos coll pc, Grouper.probe (fun _ => false) fuel es mask pos coll = Ok pc -> nth_error es (fst pc) = Some None.
  Proof.
    induction fuel as [|fuel IH]; intros pos coll pc H; [discriminate|].
    cbn [Grouper.probe] in H. unfold idx in H.
    destruct (nth_error es (N.to_nat pos)) as [s|] eqn:E; [|discriminate]. cbn [of_option obind] in H.
    destruct s as [e|]; [eapply IH; eauto|]. inversion H; subst. exact E.
  Qed.

  Lemma abs_none_empty st v : slot_ok_g st v -> abs_slot_g st v = None -> v = empty_entry.
  Proof. intros [->|(ixo & h & first & -> & _)] H; [reflexivity|discriminate]. Qed.

  Lemma abs_slot_hash_g st v : slot_ok_g st v ->
    exists eh, (0 <= eh)%Z /\ Grouper.slot_hash (abs_slot_g st v) = Z.to_N eh /\
               match v with VEnt _ h _ _ => h = eh | _ => False end.
  Proof.
    intros [->|(ixo & eh & first & -> & Heh & _)].
    - exists 0%Z. split; [lia|]. split; reflexivity.
    - exists eh. split; [exact Heh|]. split; reflexivity.
  Qed.

  Lemma grow_loop_g stb le' n k :
    N.of_nat n = (2 ^ k)%N -> lookup st0 le' = None ->
    forall es arr' coll nn st,
      Forall (slot_ok_g stb) es -> length arr' = n -> Forall (slot_ok_g stb) arr' -> keeps st0 st -> store_fresh t nn st ->
      lookup st le' = Some arr' -> (forall l, l <> le' -> lookup st l = lookup stb l) ->
      exists res st',
        run env t (for_eachO es
                     (fun e (_ : unit) =>
                        match e with
                        | VEnt ix eh first occ => table_place (mkSlice le' 0 n n) n e (Z.to_nat (eh mod Z.of_nat (Nat.max n 1))) n
                        | _ => Ret Panic
                        end) tt) nn st = (res, nn, st') /\
        keeps st0 st' /\ store_fresh t nn st' /\ (forall l, l <> le' -> lookup st' l = lookup stb l) /\
        match fold_left (Grouper.grow_step n (2 ^ k - 1)%N) (map (abs_slot_g stb) es) (Ok (map (abs_slot_g stb) arr', coll)) with
        | Ok nc => res = Ok tt /\ exists arr'', lookup st' le' = Some arr'' /\ length arr'' = n /\ Forall (slot_ok_g stb) arr'' /\
                                               map (abs_slot_g stb) arr'' = fst nc /\
                                               Permutation (ent_slices arr'') (ent_slices arr' ++ ent_slices es)
        | Panic => res = Panic
        | Fail => False
        end.
  Proof.
    intros Hpow Hown. induction es as [|e es IH]; intros arr' coll nn st Hes Hlen Hok Hk Hf Hl Hagree.
    - exists (Ok tt), st. split; [reflexivity|]. split; [exact Hk|]. split; [exact Hf|]. split; [exact Hagree|].
      cbn [map fold_left]. split; [reflexivity|]. exists arr'. unfold ent_slices at 3. cbn [flat_map]. rewrite app_nil_r. auto 6.
    - pose proof (Forall_inv Hes) as He. pose proof (Forall_inv_tail Hes) as Hes'. cbn [for_eachO map fold_left].
      destruct (abs_slot_hash_g stb e He) as (eh & Heh & Hsh & Hv).
      destruct e as [| | | | | |ix h first occ|]; try contradiction. subst h.
      destruct (zmod_pos eh n k Heh Hpow) as [Epos Hpos].
      unfold Grouper.grow_step at 2. cbn [obind fst snd].
      rewrite Hsh, GrouperProofs.land_mask, <- Epos.
      rewrite run_bindO_unfold.
      rewrite (place_sim_g stb le' n k (VEnt ix eh first occ) Hpow n arr' _ coll nn st Hlen Hok Hl Hpos).
      destruct (Grouper.probe (fun _ => false) n (map (abs_slot_g stb) arr') (2 ^ k - 1)%N
                              (N.of_nat (Z.to_nat (eh mod Z.of_nat (Nat.max n 1)))) coll) as [pc| |] eqn:Epr.
      + cbn [obind].
        assert (Hplt : fst pc < n).
        { pose proof (probe_pos_lt _ _ _ _ _ _ _ Epr) as H. rewrite map_length, Hlen in H. exact H. }
        assert (Hempty : nth_error arr' (fst pc) = Some empty_entry).
        { pose proof (probe_false_none _ _ _ _ _ _ Epr) as H. rewrite nth_error_map in H.
          destruct (nth_error arr' (fst pc)) as [v|] eqn:Ev; [|discriminate]. cbn [option_map] in H. injection H as H.
          rewrite (abs_none_empty stb v (nth_slot_ok_g stb arr' _ v Hok Ev) H). reflexivity. }
        set (e := VEnt ix eh first occ) in *.
        set (st1 := write_loc st le' (fst pc) e).
        assert (Hl1 : lookup st1 le' = Some (set_nth arr' (fst pc) e)).
        { unfold st1. rewrite lookup_write_same, Hl. reflexivity. }
        destruct (IH (set_nth arr' (fst pc) e) (snd pc) nn st1 Hes') as (res & st' & Hrun & Hk' & Hf' & Hag' & Hres).
        { rewrite set_nth_length. exact Hlen. }
        { apply Forall_forall. intros x Hx. apply In_nth_error in Hx. destruct Hx as [q Hq].
          destruct (Nat.eq_dec q (fst pc)) as [->|Hne].
          - rewrite nth_error_set_nth_eq in Hq by (rewrite Hlen; exact Hplt). injection Hq as Hx. rewrite <- Hx. exact He.
          - rewrite nth_error_set_nth_neq in Hq by (intro E; apply Hne; symmetry; exact E). exact (nth_slot_ok_g stb arr' q x Hok Hq). }
        { unfold st1. apply keeps_write; auto. }
        { unfold st1. apply fresh_write; auto. }
        { exact Hl1. }
        { intros l Hne. unfold st1. rewrite lookup_write_other by exact Hne. apply Hagree. exact Hne. }
        exists res, st'. split; [exact Hrun|]. split; [exact Hk'|]. split; [exact Hf'|]. split; [exact Hag'|].
        rewrite set_nth_map in Hres.
        destruct (fold_left (Grouper.grow_step n (2 ^ k - 1)%N) (map (abs_slot_g stb) es)
                            (Ok (set_nth (map (abs_slot_g stb) arr') (fst pc) (abs_slot_g stb e), snd pc))) as [nc| |]; auto.
        destruct Hres as (-> & arr'' & Hl'' & Hlen'' & Hok'' & Habs'' & Hperm). split; [reflexivity|].
        exists arr''. split; [exact Hl''|]. split; [exact Hlen''|]. split; [exact Hok''|]. split; [exact Habs''|].
        eapply perm_trans; [exact Hperm|].
        eapply perm_trans; [apply Permutation_app_tail; apply (ent_slices_set_empty arr' e _ Hempty)|].
        rewrite <- app_assoc. unfold ent_slices at 4. cbn [flat_map]. apply Permutation_app_swap_app.
      + exfalso. exact (probe_not_fail _ _ _ _ _ _ Epr).
      + cbn [obind]. rewrite fold_grow_panic. exists Panic, st. auto.
  Qed.
  (* ---- the part of the invariant that speaks about one table array *)
  Definition arr_inv (st : store) (le : loc) (len : nat) (arr : list val) (es : list (option (Grouper.entry nat))) : Prop :=
    lookup st le = Some arr /\ length arr = len /\ Forall (slot_ok_g st) arr /\ map (abs_slot_g st) arr = es /\
    NoDup (map s_base (ent_slices arr)) /\ Forall (fun s => s_base s <> le) (ent_slices arr).

  Lemma ent_slice_cases v : ent_slice v = [] \/ exists s, ent_slice v = [s].
  Proof. destruct v as [| | | | | |[s|] h f o|]; auto. right. exists s. reflexivity. Qed.

  Lemma ent_slices_remove arr : forall p v,
    nth_error arr p = Some v -> Permutation (ent_slices arr) (ent_slice v ++ ent_slices (set_nth arr p empty_entry)).
  Proof.
    induction arr as [|x arr IH]; intros p v Hp; [destruct p; discriminate|].
    destruct p as [|p]; cbn [set_nth nth_error] in *.
    - injection Hp as ->. unfold ent_slices. cbn [flat_map ent_slice empty_entry app]. apply Permutation_refl.
    - unfold ent_slices in *. cbn [flat_map].
      eapply perm_trans; [apply Permutation_app_head; apply (IH p v Hp)|]. apply Permutation_app_swap_app.
  Qed.

  Lemma nth_set_empty arr p : p < length arr -> nth_error (set_nth arr p empty_entry) p = Some empty_entry.
  Proof. intro H. apply nth_error_set_nth_eq. exact H. Qed.

  Lemma arr_inv_update st st2 le len arr es pos v newv :
    arr_inv st le len arr es -> nth_error arr pos = Some v ->
    (forall s, In s (ent_slices (set_nth arr pos empty_entry)) -> lookup st2 (s_base s) = lookup st (s_base s)) ->
    lookup st2 le = Some (set_nth arr pos newv) -> slot_ok_g st2 newv ->
    (forall s, In s (ent_slice newv) ->
               s_base s <> le /\ ~ In (s_base s) (map s_base (ent_slices (set_nth arr pos empty_entry)))) ->
    arr_inv st2 le len (set_nth arr pos newv) (set_nth es pos (abs_slot_g st2 newv)).
  Proof.
    intros (Hl & Hlen & Hok & Habs & Hnd & Hsep) Hv Hsame Hl2 Hnew Hfresh.
    set (rest := set_nth arr pos empty_entry) in *.
    assert (Hpos : pos < length arr) by (apply nth_error_Some; congruence).
    assert (Hperm : Permutation (ent_slices arr) (ent_slice v ++ ent_slices rest)) by (apply ent_slices_remove; exact Hv).
    assert (Hrest_ok : Forall (slot_ok_g st) rest).
    { apply Forall_forall. intros x Hx. apply In_nth_error in Hx. destruct Hx as [q Hq]. unfold rest in Hq.
      destruct (Nat.eq_dec q pos) as [->|Hne].
      - rewrite nth_error_set_nth_eq in Hq by exact Hpos. injection Hq as <-. left. reflexivity.
      - rewrite nth_error_set_nth_neq in Hq by (intro E; apply Hne; symmetry; exact E). exact (nth_slot_ok_g st arr q x Hok Hq). }
    assert (Hnd_rest : NoDup (map s_base (ent_slices rest))).
    { pose proof (Permutation_NoDup (Permutation_map s_base Hperm) Hnd) as H. rewrite map_app in H.
      destruct (ent_slice_cases v) as [E|[s E]]; rewrite E in H; cbn [map app] in H; [exact H|]. inversion H; assumption. }
    assert (Hsep_rest : Forall (fun s => s_base s <> le) (ent_slices rest)).
    { apply Forall_forall. intros s Hs. rewrite Forall_forall in Hsep. apply Hsep.
      apply (Permutation_in s (Permutation_sym Hperm)). apply in_or_app. right. exact Hs. }
    assert (Enew : set_nth arr pos newv = set_nth rest pos newv) by (unfold rest; rewrite set_nth_twice'; reflexivity).
    assert (Hperm2 : Permutation (ent_slices (set_nth arr pos newv)) (ent_slice newv ++ ent_slices rest)).
    { rewrite Enew. apply ent_slices_set_empty. unfold rest. apply nth_set_empty. exact Hpos. }
    split; [exact Hl2|]. split; [rewrite set_nth_length; exact Hlen|]. split; [|split; [|split]].
    - rewrite Enew. apply Forall_forall. intros x Hx. apply In_nth_error in Hx. destruct Hx as [q Hq].
      assert (Hpos' : pos < length rest) by (unfold rest; rewrite set_nth_length; exact Hpos).
      destruct (Nat.eq_dec q pos) as [->|Hne].
      + rewrite nth_error_set_nth_eq in Hq by exact Hpos'. injection Hq as <-. exact Hnew.
      + rewrite nth_error_set_nth_neq in Hq by (intro E; apply Hne; symmetry; exact E).
        apply (slot_ok_g_same st st2 x); [|exact (nth_slot_ok_g st rest q x Hrest_ok Hq)].
        intros s Hs. apply Hsame. eapply in_ent_slices; [eapply nth_error_In; exact Hq|exact Hs].
    - rewrite Enew, set_nth_map, (map_abs_same st st2 rest Hsame). unfold rest. rewrite set_nth_map, set_nth_twice', Habs.
      reflexivity.
    - apply (Permutation_NoDup (Permutation_map s_base (Permutation_sym Hperm2))). rewrite map_app.
      destruct (ent_slice_cases newv) as [E|[s E]]; rewrite E; cbn [map app]; [exact Hnd_rest|].
      constructor; [|exact Hnd_rest]. apply (Hfresh s). rewrite E. left. reflexivity.
    - apply Forall_forall. intros s Hs. apply (Permutation_in s Hperm2) in Hs. apply in_app_or in Hs. destruct Hs as [Hs|Hs].
      + apply (Hfresh s Hs).
      + rewrite Forall_forall in Hsep_rest. apply Hsep_rest. exact Hs.
  Qed.

  Lemma slices_not_fresh st arr l : Forall (slot_ok_g st) arr -> lookup st l = None ->
    forall s, In s (ent_slices arr) -> s_base s <> l.
  Proof.
    intros Hok Hl s Hs E. pose proof (slice_good_live st s (ent_slices_good st arr s Hok Hs)) as H. rewrite E in H. congruence.
  Qed.

  (* ---- table.grow *)
  Lemma grow_table_sim_g le len k arr T n st :
    N.of_nat len = (2 ^ k)%N -> (2 * N.of_nat len < 2 ^ 32)%N ->
    arr_inv st le len arr (Grouper.entries T) -> keeps st0 st -> store_fresh t n st ->
    exists res st',
      run env t (grow_table (mkSlice le 0 len len)) n st = (res, S n, st') /\ keeps st0 st' /\ store_fresh t (S n) st' /\
      match Grouper.grow T with
      | Ok T' => res = Ok (mkSlice (t, n) 0 (2 * len) (2 * len)) /\
                 exists arr', arr_inv st' (t, n) (2 * len) arr' (Grouper.entries T') /\
                              Grouper.group_count T' = Grouper.group_count T /\
                              Grouper.lf_num T' = Grouper.lf_num T /\ Grouper.lf_den T' = (Grouper.lf_den T * 2)%N
      | Panic => res = Panic
      | Fail => False
      end.
  Proof.
    intros Hpow Hbound (Hl & Hlen & Hok & Habs & Hnd & Hsep) Hk Hf.
    pose proof (GrouperProofs.pow2_pos k) as Hp2.
    set (le' := (t, n)). set (n2 := 2 * len).
    set (st1 := update st le' (repeat empty_entry n2)).
    assert (Hfr : lookup st le' = None) by (apply Hf; apply Nat.le_refl).
    assert (Hfr0 : lookup st0 le' = None) by (exact (keeps_none _ _ _ Hk Hfr)).
    assert (Hne : le <> le') by (intros ->; congruence).
    assert (Hk1 : keeps st0 st1) by (eapply keeps_trans; [exact Hk|apply keeps_update; exact Hfr]).
    assert (Hf1 : store_fresh t (S n) st1) by (apply fresh_update; exact Hf).
    assert (Hl1 : lookup st1 le' = Some (repeat empty_entry n2)) by (unfold st1; apply lookup_update_same).
    assert (Hrd : read_loc st1 le = arr).
    { unfold st1, read_loc. rewrite lookup_update_other by exact Hne. rewrite Hl. reflexivity. }
    assert (Hpow2 : N.of_nat n2 = (2 ^ (k + 1))%N).
    { unfold n2. rewrite N.add_1_r, N.pow_succ_r', <- Hpow. clear. lia. }
    assert (Hlen_e : length (Grouper.entries T) = len) by (rewrite <- Habs, map_length; exact Hlen).
    assert (Hsame1 : forall s, In s (ent_slices arr) -> lookup st1 (s_base s) = lookup st (s_base s)).
    { intros s Hs. unfold st1. apply lookup_update_other. exact (slices_not_fresh st arr le' Hok Hfr s Hs). }
    assert (Hok1 : Forall (slot_ok_g st1) arr) by (exact (Forall_ok_same st st1 arr Hsame1 Hok)).
    assert (Habs1 : map (abs_slot_g st1) arr = Grouper.entries T) by (rewrite (map_abs_same st st1 arr Hsame1); exact Habs).
    destruct (grow_loop_g st1 le' n2 (k + 1) Hpow2 Hfr0 arr (repeat empty_entry n2) (Grouper.reloc_coll T) (S n) st1 Hok1
                (repeat_length _ _)) as (res & st' & Hrun & Hk' & Hf' & Hag' & Hres); auto.
    { apply Forall_forall. intros x Hx. apply repeat_spec in Hx. left. exact Hx. }
    exists (match res with Ok _ => Ok (mkSlice le' 0 n2 n2) | Fail => Fail | Panic => Panic end), st'.
    split.
    { unfold grow_table. cbn [s_len]. fold n2.
      erewrite run_bind_eq; [|apply run_make]. fold le' st1.
      erewrite run_bind_eq; [|apply run_slice_read].
      rewrite (full_seg st1 le len) by (rewrite Hrd; exact Hlen). rewrite Hrd.
      rewrite run_bindO_unfold, Hrun. destruct res; reflexivity. }
    split; [exact Hk'|]. split; [exact Hf'|].
    unfold Grouper.grow. rewrite Hlen_e. change GenConsts.c_growthFactor with 2%N.
    assert (Enl : Grouper.u32 (2 * N.of_nat len) = N.of_nat n2).
    { unfold Grouper.u32. rewrite N.mod_small by exact Hbound. unfold n2. clear. lia. }
    rewrite Enl, Nat2N.id.
    assert (Emask : Grouper.u32 (N.of_nat n2 + (2 ^ 32 - 1)) = (2 ^ (k + 1) - 1)%N).
    { rewrite GrouperProofs.u32_pred; [rewrite Hpow2; reflexivity|rewrite Hpow2; pose proof (GrouperProofs.pow2_pos (k + 1)) as Hq; clear - Hq; lia|].
      unfold n2. clear - Hbound. lia. }
    rewrite Emask. rewrite map_repeat in Hres. cbn [abs_slot_g empty_entry] in Hres. rewrite Habs1 in Hres.
    destruct (fold_left (Grouper.grow_step n2 (2 ^ (k + 1) - 1)%N) (Grouper.entries T)
                        (Ok (repeat None n2, Grouper.reloc_coll T))) as [nc| |]; cbn [obind].
    - destruct Hres as (-> & arr'' & Hl'' & Hlen'' & Hok'' & Habs'' & Hperm). split; [reflexivity|].
      assert (Ees : ent_slices (repeat empty_entry n2) = []).
      { clear. induction n2 as [|m IH]; [reflexivity|]. exact IH. }
      rewrite Ees in Hperm. cbn [app] in Hperm.
      assert (Hsame' : forall s, In s (ent_slices arr'') -> lookup st' (s_base s) = lookup st1 (s_base s)).
      { intros s Hs. apply Hag'. apply (slices_not_fresh st arr le' Hok Hfr). exact (Permutation_in s Hperm Hs). }
      exists arr''. cbn [Grouper.entries Grouper.group_count Grouper.lf_num Grouper.lf_den]. split; [|auto].
      split; [exact Hl''|]. split; [exact Hlen''|]. split; [exact (Forall_ok_same st1 st' arr'' Hsame' Hok'')|].
      split; [rewrite (map_abs_same st1 st' arr'' Hsame'); exact Habs''|].
      split; [exact (Permutation_NoDup (Permutation_map s_base (Permutation_sym Hperm)) Hnd)|].
      apply Forall_forall. intros s Hs. apply (slices_not_fresh st arr le' Hok Hfr). exact (Permutation_in s Hperm Hs).
    - contradiction.
    - subst res. reflexivity.
  Qed.
  (* ---- the invariant that ties a heap table to an L0 table *)
  Record tab_inv_g (st : store) (le : loc) (len : nat) (k : N) (arr : list val) (cnt : nat) (T : Grouper.table nat) : Prop := {
    tg_pow : N.of_nat len = (2 ^ k)%N;
    tg_own : lookup st0 le = None;
    tg_arr : arr_inv st le len arr (Grouper.entries T);
    tg_cnt : N.of_nat cnt = Grouper.group_count T;
    tg_lf : (Grouper.lf_num T * N.of_nat len = Grouper.group_count T * Grouper.lf_den T)%N;
    tg_den : (0 < Grouper.lf_den T)%N }.

  Definition tab_rel_g (st : store) (g : gtable) (T : Grouper.table nat) : Prop :=
    exists le len k arr, gt_entries g = mkSlice le 0 len len /\ tab_inv_g st le len k arr (gt_count g) T.

  Hypothesis Hsize : (4 * N.of_nat (length ixs) < 2 ^ 32)%N.

  Definition h1_insert_core_g (ents : slice) (cnt : nat) (i : Z) : prog (outcome gtable) :=
    let? ci := cols_cell cols i in
    let h := gp_hash gp i ci in
    let n := s_len ents in
    let? slot := probe gp cols ents i ci h (Z.to_nat (h mod Z.of_nat (Nat.max n 1))) n in
    match snd slot with
    | VEnt ix eh first occ =>
        if negb occ then
          let? _ := slice_set ents (fst slot) (VEnt ix h i true) in
          Ret (Ok (mkGT ents (S cnt)))
        else match ix with
             | None => let* s := slice_lit [VZ first; VZ i] in
                       let? _ := slice_set ents (fst slot) (VEnt (Some s) eh first occ) in
                       Ret (Ok (mkGT ents cnt))
             | Some s => let* s' := slice_append s (VZ i) in
                         let? _ := slice_set ents (fst slot) (VEnt (Some s') eh first occ) in
                         Ret (Ok (mkGT ents cnt))
             end
    | _ => Ret Panic
    end.

  Lemma h1_insert_split_g i g :
    insert_entry gp cols true i g =
    (let? ents := (if (s_len (gt_entries g) <? 2 * gt_count g)%nat
                   then grow_table (gt_entries g) else Ret (Ok (gt_entries g))) in
     h1_insert_core_g ents (gt_count g) i).
  Proof. reflexivity. Qed.

  Definition l0_insert_core_g (T : Grouper.table nat) (i : nat) : outcome (Grouper.table nat) :=
    let h := Grouper.u32 (hash i) in
    let len := length (Grouper.entries T) in
    let mask := N.pred (N.of_nat len) in
    do pc <- Grouper.probe (fun e => if (Grouper.ehash e =? h)%N then eqb i (Grouper.first e) else false)
                           len (Grouper.entries T) mask (N.land h mask) (Grouper.insert_coll T);
    let pos := fst pc in
    do s <- idx (Grouper.entries T) pos;
    match s with
    | None =>
        let gc := Grouper.u32 (Grouper.group_count T + 1) in
        Ok (Grouper.mkTable (set_nth (Grouper.entries T) pos (Some (Grouper.mkEntry h i []))) gc (N.of_nat len) gc
                            (Grouper.reloc_count T) (Grouper.reloc_coll T) (snd pc))
    | Some e =>
        let ix' := match Grouper.ix e with [] => [Grouper.first e; i] | _ :: _ => Grouper.ix e ++ [i] end in
        Ok (Grouper.mkTable (set_nth (Grouper.entries T) pos (Some (Grouper.mkEntry (Grouper.ehash e) (Grouper.first e) ix')))
                            (Grouper.lf_num T) (Grouper.lf_den T) (Grouper.group_count T)
                            (Grouper.reloc_count T) (Grouper.reloc_coll T) (snd pc))
    end.

  Lemma l0_insert_split_g T0 i :
    Grouper.insert_entry eqb hash true T0 i =
    (do T <- (if (GenConsts.c_maxLoadFactor_num * Grouper.lf_den T0 <? Grouper.lf_num T0 * GenConsts.c_maxLoadFactor_den)%N
              then Grouper.grow T0 else Ok T0);
     l0_insert_core_g T i).
  Proof. reflexivity. Qed.

  Lemma rest_sub arr p v s :
    nth_error arr p = Some v -> In s (ent_slices (set_nth arr p empty_entry)) -> In s (ent_slices arr).
  Proof.
    intros Hv Hs. apply (Permutation_in s (Permutation_sym (ent_slices_remove arr p v Hv))). apply in_or_app. right. exact Hs.
  Qed.

  Lemma insert_core_sim_g le len k arr cnt T i n st :
    tab_inv_g st le len k arr cnt T -> In i ixs -> keeps st0 st -> store_fresh t n st -> cnt < length ixs ->
    exists res n' st',
      run env t (h1_insert_core_g (mkSlice le 0 len len) cnt i) n st = (res, n', st') /\
      keeps st0 st' /\ store_fresh t n' st' /\
      match l0_insert_core_g T (row i) with
      | Ok T' => exists cnt' arr', res = Ok (mkGT (mkSlice le 0 len len) cnt') /\ tab_inv_g st' le len k arr' cnt' T' /\ cnt' <= S cnt
      | Panic => res = Panic
      | Fail => False
      end.
  Proof.
    intros [Hpow Hown Harr Hcnt Hlf Hden] Hi Hk Hf Hlt.
    pose proof Harr as (Hl & Hlen & Hok & Habs & Hnd & Hsep).
    pose proof (GrouperProofs.pow2_pos k) as Hp2.
    destruct (Hcells i Hi) as [ci Hci].
    unfold h1_insert_core_g, l0_insert_core_g. cbn [s_len].
    rewrite run_bindO_unfold, run_cols_cell, (cells_val_keeps _ _ _ _ Hk Hcols), Hci.
    rewrite (Hhash i ci Hi Hci).
    set (hN := Grouper.u32 (hash (row i))).
    assert (Hlen_e : length (Grouper.entries T) = len) by (rewrite <- Habs, map_length; exact Hlen).
    rewrite Hlen_e.
    assert (Emask : N.pred (N.of_nat len) = (2 ^ k - 1)%N) by (rewrite Hpow; symmetry; apply N.sub_1_r).
    rewrite Emask, GrouperProofs.land_mask.
    destruct (zmod_pos (Z.of_N hN) len k (N2Z.is_nonneg hN) Hpow) as [Epos Hpos]. rewrite N2Z.id in Epos.
    rewrite <- Epos, <- Habs.
    rewrite run_bindO_unfold.
    rewrite (probe_sim_g le len k arr i ci hN Hpow Hlen Hi Hci len _ (Grouper.insert_coll T) n st Hk Hok Hl Hpos).
    destruct (Grouper.probe (fun e => if (Grouper.ehash e =? hN)%N then eqb (row i) (Grouper.first e) else false)
                            len (map (abs_slot_g st) arr) (2 ^ k - 1)%N
                            (N.of_nat (Z.to_nat (Z.of_N hN mod Z.of_nat (Nat.max len 1)))) (Grouper.insert_coll T))
      as [pc| |] eqn:Epr; cbn [obind].
    2:{ exfalso. exact (probe_not_fail _ _ _ _ _ _ Epr). }
    2:{ exists Panic, n, st. auto. }
    assert (Hplt : fst pc < len).
    { pose proof (probe_pos_lt _ _ _ _ _ _ _ Epr) as H. rewrite map_length, Hlen in H. exact H. }
    destruct (nth_error arr (fst pc)) as [v|] eqn:Ev;
      [|apply nth_error_None in Ev; rewrite Hlen in Ev; exfalso; apply (Nat.lt_irrefl len); eapply Nat.le_lt_trans; eauto].
    unfold idx. rewrite nth_error_map, Ev. cbn [option_map of_option obind snd fst].
    set (pos := fst pc) in *.
    assert (Hrest_sep : forall s, In s (ent_slices (set_nth arr pos empty_entry)) -> s_base s <> le).
    { intros s Hs. rewrite Forall_forall in Hsep. apply Hsep. exact (rest_sub arr pos v s Ev Hs). }
    assert (Hle_live : lookup st le <> None) by (rewrite Hl; discriminate).
    destruct (nth_slot_ok_g st arr pos v Hok Ev) as [->|(ixo & eh & first & -> & Heh & Hfirst & Hgood)].
    - (* a new group *)
      cbn [empty_entry negb abs_slot_g].
      rewrite run_bindO_unfold, run_slice_set. cbn [s_len s_base s_off Nat.add].
      replace (pos <? len) with true by (symmetry; apply Nat.ltb_lt; exact Hplt).
      set (e' := VEnt None (Z.of_N hN) i true).
      set (st1 := write_loc st le pos e').
      exists (Ok (mkGT (mkSlice le 0 len len) (S cnt))), n, st1.
      split; [reflexivity|]. split; [unfold st1; apply keeps_write; auto|]. split; [unfold st1; apply fresh_write; auto|].
      exists (S cnt), (set_nth arr pos e'). split; [reflexivity|]. split; [|apply Nat.le_refl].
      assert (Egc : Grouper.u32 (Grouper.group_count T + 1) = N.of_nat (S cnt)).
      { unfold Grouper.u32. rewrite <- Hcnt. rewrite N.mod_small; [rewrite Nat2N.inj_succ; apply N.add_1_r|].
        clear - Hlt Hsize. lia. }
      constructor; cbn [Grouper.entries Grouper.group_count Grouper.lf_num Grouper.lf_den]; [exact Hpow|exact Hown| | | |].
      + assert (E : Some (Grouper.mkEntry hN (row i) []) = abs_slot_g st1 e') by (unfold e'; cbn [abs_slot_g abs_ixo]; rewrite N2Z.id; reflexivity).
        rewrite Habs, E. apply (arr_inv_update st st1 le len arr (Grouper.entries T) pos empty_entry e' Harr Ev).
        * intros s Hs. unfold st1. apply lookup_write_other. exact (Hrest_sep s Hs).
        * unfold st1. rewrite lookup_write_same, Hl. reflexivity.
        * right. exists None, (Z.of_N hN), i. split; [reflexivity|]. split; [apply N2Z.is_nonneg|]. split; [exact Hi|exact I].
        * intros s [].
      + symmetry. exact Egc.
      + rewrite Egc. reflexivity.
      + rewrite Hpow. exact Hp2.
    - (* an existing group gains a member *)
      cbn [negb abs_slot_g Grouper.ehash Grouper.first Grouper.ix].
      destruct ixo as [s|].
      + (* append to the group's slice *)
        destruct Hgood as (Hbs & Hls & Hos).
        assert (Hs_in : In s (ent_slices arr)) by (eapply in_ent_slices; [eapply nth_error_In; exact Ev|left; reflexivity]).
        assert (Hs_le : s_base s <> le) by (rewrite Forall_forall in Hsep; exact (Hsep s Hs_in)).
        destruct (append_own env t st0 (VZ i) s n st Hk Hf Hbs Hos (slice_good_live st s (conj Hbs (conj Hls Hos))))
          as (s' & n1 & st1 & Happ & Hseg1 & Hb1 & Hk1 & Hf1 & Hn1 & Hown1 & Hlive1 & Hne1 & Hfr1).
        erewrite run_bind_eq; [|exact Happ].
        rewrite run_bindO_unfold, run_slice_set. cbn [s_len s_base s_off Nat.add].
        replace (pos <? len) with true by (symmetry; apply Nat.ltb_lt; exact Hplt).
        set (newv := VEnt (Some s') eh first true).
        set (st2 := write_loc st1 le pos newv).
        assert (Hl1 : lookup st1 le = Some arr) by (apply Hfr1; [exact Hl|intro E; apply Hs_le; symmetry; exact E]).
        assert (Hs'_le : s_base s' <> le) by (intro E; apply (Hne1 le Hle_live); [intro E2; apply Hs_le; symmetry; exact E2|symmetry; exact E]).
        assert (Hbase_rest : forall s2, In s2 (ent_slices (set_nth arr pos empty_entry)) -> s_base s2 <> s_base s).
        { intros s2 Hs2 E.
          pose proof (Permutation_NoDup (Permutation_map s_base (ent_slices_remove arr pos _ Ev)) Hnd) as H.
          cbn [ent_slice app map] in H. inversion H as [|? ? Hnin _]; subst. apply Hnin. rewrite <- E. apply in_map. exact Hs2. }
        assert (Hrest_good : forall s2, In s2 (ent_slices (set_nth arr pos empty_entry)) -> lookup st (s_base s2) <> None).
        { intros s2 Hs2. apply slice_good_live. apply (ent_slices_good st arr s2 Hok). exact (rest_sub arr pos _ s2 Ev Hs2). }
        assert (Hseglen : 0 < s_len s').
        { pose proof (seg_length st1 s' Hb1) as H. rewrite Hseg1, app_length in H. cbn [length] in H. clear - H. lia. }
        exists (Ok (mkGT (mkSlice le 0 len len) cnt)), n1, st2.
        split; [reflexivity|]. split; [unfold st2; apply keeps_write; auto|]. split; [unfold st2; apply fresh_write; auto|].
        exists cnt, (set_nth arr pos newv). split; [reflexivity|]. split; [|apply Nat.le_succ_diag_r].
        assert (Eabs : abs_slot_g st2 newv =
                       Some (Grouper.mkEntry (Z.to_N eh) (row first)
                               (match abs_ixo st (Some s) with [] => [row first; row i] | _ :: _ => abs_ixo st (Some s) ++ [row i] end))).
        { unfold newv. cbn [abs_slot_g abs_ixo]. f_equal. f_equal.
          assert (E2 : abs_ix st2 s' = abs_ix st s ++ [row i]).
          { unfold abs_ix. rewrite (seg_same st1 st2 s') by (unfold st2; apply lookup_write_other; exact Hs'_le).
            rewrite Hseg1, map_app. reflexivity. }
          rewrite E2. destruct (abs_ix st s) as [|p0 r0] eqn:Ea; [|reflexivity].
          exfalso. pose proof (abs_ix_length st s Hbs) as H. rewrite Ea in H. cbn [length] in H. clear - H Hls. lia. }
        constructor; cbn [Grouper.entries Grouper.group_count Grouper.lf_num Grouper.lf_den]; [exact Hpow|exact Hown| |exact Hcnt|exact Hlf|exact Hden].
        rewrite Habs, <- Eabs. apply (arr_inv_update st st2 le len arr (Grouper.entries T) pos _ newv Harr Ev).
        * intros s2 Hs2. unfold st2. rewrite lookup_write_other by exact (Hrest_sep s2 Hs2).
          destruct (live_some st (s_base s2) (Hrest_good s2 Hs2)) as [a Ha]. rewrite Ha. apply Hfr1; [exact Ha|exact (Hbase_rest s2 Hs2)].
        * unfold st2. rewrite lookup_write_same, Hl1. reflexivity.
        * right. exists (Some s'), eh, first. split; [reflexivity|]. split; [exact Heh|]. split; [exact Hfirst|].
          split; [|split; [exact Hseglen|exact Hown1]].
          apply (in_bounds_same st1 st2 s'); [unfold st2; apply lookup_write_other; exact Hs'_le|exact Hb1].
        * intros s2 [<-|[]]. split; [exact Hs'_le|]. intro Hin. apply in_map_iff in Hin. destruct Hin as (s3 & E3 & Hs3).
          apply (Hne1 (s_base s3) (Hrest_good s3 Hs3) (Hbase_rest s3 Hs3)). exact E3.
      + (* the second member: index.Int{firstPos, i} *)
        erewrite run_bind_eq; [|apply run_slice_lit]. cbn [length].
        rewrite run_bindO_unfold, run_slice_set. cbn [s_len s_base s_off Nat.add].
        replace (pos <? len) with true by (symmetry; apply Nat.ltb_lt; exact Hplt).
        set (ls := (t, n)). set (s := mkSlice ls 0 2 2).
        set (st1 := update st ls [VZ first; VZ i]).
        set (newv := VEnt (Some s) eh first true).
        set (st2 := write_loc st1 le pos newv).
        assert (Hfr : lookup st ls = None) by (apply Hf; apply Nat.le_refl).
        assert (Hls_le : ls <> le) by (intros E; rewrite E in Hfr; congruence).
        assert (Hl1 : lookup st1 le = Some arr).
        { unfold st1. rewrite lookup_update_other by (intro E; apply Hls_le; symmetry; exact E). exact Hl. }
        assert (Hk1 : keeps st0 st1) by (eapply keeps_trans; [exact Hk|apply keeps_update; exact Hfr]).
        assert (Hrd : read_loc st2 ls = [VZ first; VZ i]).
        { unfold st2, read_loc. rewrite lookup_write_other by exact Hls_le. unfold st1. rewrite lookup_update_same. reflexivity. }
        exists (Ok (mkGT (mkSlice le 0 len len) cnt)), (S n), st2.
        split; [reflexivity|]. split; [unfold st2; apply keeps_write; auto|].
        split; [unfold st2; apply fresh_write; unfold st1; apply fresh_update; exact Hf|].
        exists cnt, (set_nth arr pos newv). split; [reflexivity|]. split; [|apply Nat.le_succ_diag_r].
        assert (Eabs : abs_slot_g st2 newv = Some (Grouper.mkEntry (Z.to_N eh) (row first) [row first; row i])).
        { unfold newv. cbn [abs_slot_g abs_ixo]. unfold abs_ix, seg_of, slice_seg. cbn [s_base s_off s_len s]. rewrite Hrd. reflexivity. }
        constructor; cbn [Grouper.entries Grouper.group_count Grouper.lf_num Grouper.lf_den abs_ixo]; [exact Hpow|exact Hown| |exact Hcnt|exact Hlf|exact Hden].
        rewrite Habs, <- Eabs. apply (arr_inv_update st st2 le len arr (Grouper.entries T) pos _ newv Harr Ev).
        * intros s2 Hs2. unfold st2. rewrite lookup_write_other by exact (Hrest_sep s2 Hs2).
          unfold st1. apply lookup_update_other.
          apply (slices_not_fresh st arr ls Hok Hfr). exact (rest_sub arr pos _ s2 Ev Hs2).
        * unfold st2. rewrite lookup_write_same, Hl1. reflexivity.
        * right. exists (Some s), eh, first. split; [reflexivity|]. split; [exact Heh|]. split; [exact Hfirst|].
          split; [|split; [cbn [s_len s]; lia|exact (keeps_none _ _ _ Hk Hfr)]].
          split; cbn [s_len s_cap s_off s_base s]; [lia|]. rewrite Hrd. cbn [length]. lia.
        * intros s2 [<-|[]]. cbn [s_base s]. split; [exact Hls_le|]. intro Hin. apply in_map_iff in Hin.
          destruct Hin as (s3 & E3 & Hs3).
          apply (slices_not_fresh st arr ls Hok Hfr s3 (rest_sub arr pos _ s3 Ev Hs3)). exact E3.
  Qed.
  (* ---- table.insertEntry *)
  Lemma insert_sim_g i g T n st :
    tab_rel_g st g T -> In i ixs -> keeps st0 st -> store_fresh t n st -> gt_count g < length ixs ->
    exists res n' st',
      run env t (insert_entry gp cols true i g) n st = (res, n', st') /\ keeps st0 st' /\ store_fresh t n' st' /\
      match Grouper.insert_entry eqb hash true T (row i) with
      | Ok T' => exists g', res = Ok g' /\ tab_rel_g st' g' T' /\ gt_count g' <= S (gt_count g)
      | Panic => res = Panic
      | Fail => False
      end.
  Proof.
    intros (le & len & k & arr & Hents & Hinv) Hi Hk Hf Hlt.
    pose proof Hinv as [Hpow Hown Harr Hcnt Hlf Hden].
    pose proof (GrouperProofs.pow2_pos k) as Hp2.
    rewrite h1_insert_split_g, l0_insert_split_g, Hents. cbn [s_len].
    change GenConsts.c_maxLoadFactor_num with 1%N. change GenConsts.c_maxLoadFactor_den with 2%N.
    assert (Hlen0 : 0 < len) by (clear - Hpow Hp2; lia).
    rewrite <- (load_test (Grouper.lf_num T) (Grouper.lf_den T) (Grouper.group_count T) len (gt_count g) Hlf Hden Hlen0 Hcnt).
    destruct (len <? 2 * gt_count g) eqn:Etest.
    - apply Nat.ltb_lt in Etest.
      assert (Hbound : (2 * N.of_nat len < 2 ^ 32)%N) by (clear - Etest Hlt Hsize; lia).
      destruct (grow_table_sim_g le len k arr T n st Hpow Hbound Harr Hk Hf) as (r1 & st1 & Hrun1 & Hk1 & Hf1 & Hr1).
      rewrite run_bindO_unfold, Hrun1.
      destruct (Grouper.grow T) as [T1| |]; cbn [obind].
      + destruct Hr1 as (-> & arr1 & Harr1 & Hgc1 & Hn1 & Hd1).
        assert (Hinv1 : tab_inv_g st1 (t, n) (2 * len) (k + 1) arr1 (gt_count g) T1).
        { constructor.
          - rewrite N.add_1_r, N.pow_succ_r', <- Hpow. clear. lia.
          - apply (keeps_none _ _ _ Hk). apply Hf. apply Nat.le_refl.
          - exact Harr1.
          - rewrite Hgc1. exact Hcnt.
          - rewrite Hgc1, Hn1, Hd1. clear - Hlf. nia.
          - rewrite Hd1. clear - Hden. lia. }
        destruct (insert_core_sim_g (t, n) (2 * len) (k + 1) arr1 (gt_count g) T1 i (S n) st1 Hinv1 Hi Hk1 Hf1 Hlt)
          as (res & n' & st' & Hrun & Hk' & Hf' & Hres).
        exists res, n', st'. split; [exact Hrun|]. split; [exact Hk'|]. split; [exact Hf'|].
        destruct (l0_insert_core_g T1 (row i)) as [T'| |]; auto.
        destruct Hres as (cnt' & arr' & -> & Hinv' & Hle).
        eexists. split; [reflexivity|]. split; [|exact Hle].
        exists (t, n), (2 * len), (k + 1)%N, arr'. split; [reflexivity|exact Hinv'].
      + contradiction.
      + subst r1. exists Panic, (S n), st1. auto.
    - cbn [obind]. erewrite run_bindO_ok; [|reflexivity].
      destruct (insert_core_sim_g le len k arr (gt_count g) T i n st Hinv Hi Hk Hf Hlt) as (res & n' & st' & Hrun & Hk' & Hf' & Hres).
      exists res, n', st'. split; [exact Hrun|]. split; [exact Hk'|]. split; [exact Hf'|].
      destruct (l0_insert_core_g T (row i)) as [T'| |]; auto.
      destruct Hres as (cnt' & arr' & -> & Hinv' & Hle).
      eexists. split; [reflexivity|]. split; [|exact Hle].
      exists le, len, k, arr'. split; [reflexivity|exact Hinv'].
  Qed.

  Lemma insert_all_sim_g : forall rest g T n st,
    incl rest ixs -> tab_rel_g st g T -> keeps st0 st -> store_fresh t n st -> gt_count g + length rest <= length ixs ->
    exists res n' st',
      run env t (for_eachO rest (fun i tb => insert_entry gp cols true i tb) g) n st = (res, n', st') /\
      keeps st0 st' /\ store_fresh t n' st' /\
      match Grouper.insert_all eqb hash true T (map row rest) with
      | Ok T' => exists g', res = Ok g' /\ tab_rel_g st' g' T' /\ gt_count g' <= gt_count g + length rest
      | Panic => res = Panic
      | Fail => False
      end.
  Proof.
    induction rest as [|i rest IH]; intros g T n st Hincl Hrel Hk Hf Hbudget.
    - exists (Ok g), n, st. split; [reflexivity|]. split; [exact Hk|]. split; [exact Hf|]. exists g.
      split; [reflexivity|]. split; [exact Hrel|]. cbn [length]. rewrite Nat.add_0_r. apply Nat.le_refl.
    - cbn [for_eachO map Grouper.insert_all]. cbn [length] in Hbudget.
      destruct (insert_sim_g i g T n st Hrel (Hincl i (or_introl eq_refl)) Hk Hf) as (r1 & n1 & st1 & Hrun1 & Hk1 & Hf1 & Hr1).
      { clear - Hbudget. lia. }
      rewrite run_bindO_unfold, Hrun1.
      destruct (Grouper.insert_entry eqb hash true T (row i)) as [T1| |]; cbn [obind].
      + destruct Hr1 as (g1 & -> & Hrel1 & Hle1).
        destruct (IH g1 T1 n1 st1) as (res & n' & st' & Hrun & Hk' & Hf' & Hres); auto.
        * intros x Hx. apply Hincl. right. exact Hx.
        * clear - Hbudget Hle1. lia.
        * exists res, n', st'. split; [exact Hrun|]. split; [exact Hk'|]. split; [exact Hf'|].
          destruct (Grouper.insert_all eqb hash true T1 (map row rest)) as [T'| |]; auto.
          destruct Hres as (g' & Eg & Hrel' & Hle'). exists g'. split; [exact Eg|]. split; [exact Hrel'|].
          cbn [length]. clear - Hle1 Hle'. lia.
      + contradiction.
      + subst r1. exists Panic, n1, st1. auto.
  Qed.

  (* ---- the result of GroupBy: one index slice per occupied slot, in slot order; a group with one member gets a
     fresh one-element slice, a larger group the slice its slot owns *)
  Definition members_g (st : store) (v : val) : list (list nat) :=
    match abs_slot_g st v with Some e => [Grouper.members e] | None => [] end.

  (* the state of the collecting loop: [stb] is the store after the table was built, r the result slice (allocated
     later, owned), acc the group slices collected so far (alive, none of them in r's array) *)
  Definition coll_inv (stb st : store) (n : nat) (r : slice) (acc : list slice) : Prop :=
    keeps st0 st /\ store_fresh t n st /\ keeps stb st /\ lookup stb (s_base r) = None /\
    in_bounds st r /\ lookup st0 (s_base r) = None /\ lookup st (s_base r) <> None /\
    map as_slice (seg_of st r) = acc /\
    Forall (fun s2 => in_bounds st s2 /\ lookup st (s_base s2) <> None /\ s_base s2 <> s_base r) acc.

  Lemma append_group stb r s n1 st1 acc :
    coll_inv stb st1 n1 r acc -> in_bounds st1 s -> lookup st1 (s_base s) <> None -> s_base s <> s_base r ->
    exists r2 n2 st2,
      run env t (slice_append r (VSl s)) n1 st1 = (r2, n2, st2) /\ coll_inv stb st2 n2 r2 (acc ++ [s]) /\
      map (abs_ix st2) (acc ++ [s]) = map (abs_ix st1) acc ++ [abs_ix st1 s].
  Proof.
    intros (Hk1 & Hf1 & Hkb & Hnew & Hb1 & Hown & Hlive1 & Hacc & Hfa) Hbs Hslive Hsne.
    destruct (append_own env t st0 (VSl s) r n1 st1 Hk1 Hf1 Hb1 Hown Hlive1)
      as (r2 & n2 & st2 & Happ & Hseg2 & Hb2 & Hk2 & Hf2 & _ & Hown2 & Hlive2 & Hne2 & Hfr2).
    assert (Hkeep : forall s2, in_bounds st1 s2 -> lookup st1 (s_base s2) <> None -> s_base s2 <> s_base r ->
                               (in_bounds st2 s2 /\ lookup st2 (s_base s2) <> None /\ s_base s2 <> s_base r2) /\
                               seg_of st2 s2 = seg_of st1 s2).
    { intros s2 Hb' Hl' Hne'. destruct (live_some st1 (s_base s2) Hl') as [a Ha].
      assert (E : lookup st2 (s_base s2) = lookup st1 (s_base s2)) by (rewrite Ha; apply Hfr2; auto).
      split; [|exact (seg_same st1 st2 s2 E)].
      split; [exact (in_bounds_same st1 st2 s2 E Hb')|]. split; [rewrite E; exact Hl'|].
      apply (Hne2 (s_base s2) Hl' Hne'). }
    exists r2, n2, st2. split; [exact Happ|]. split.
    - split; [exact Hk2|]. split; [exact Hf2|]. split.
      { intros l a Hl. apply Hfr2; [apply Hkb; exact Hl|]. intros ->. congruence. }
      split.
      { destruct (lookup stb (s_base r2)) as [a|] eqn:E; [|reflexivity]. exfalso.
        assert (Hl1 : lookup st1 (s_base r2) <> None) by (rewrite (Hkb _ _ E); discriminate).
        destruct (loc_dec (s_base r2) (s_base r)) as [E2|E2]; [rewrite E2 in E; congruence|].
        exact (Hne2 (s_base r2) Hl1 E2 eq_refl). }
      split; [exact Hb2|]. split; [exact Hown2|]. split; [exact Hlive2|]. split.
      { rewrite Hseg2, map_app, Hacc. reflexivity. }
      apply Forall_app. split.
      + apply Forall_forall. intros s2 Hs2. rewrite Forall_forall in Hfa. destruct (Hfa s2 Hs2) as (A & B & C).
        apply (Hkeep s2 A B C).
      + constructor; [|constructor]. apply (Hkeep s Hbs Hslive Hsne).
    - rewrite map_app. cbn [map]. f_equal.
      + apply map_ext_in. intros s2 Hs2. rewrite Forall_forall in Hfa. destruct (Hfa s2 Hs2) as (A & B & C).
        unfold abs_ix. rewrite (proj2 (Hkeep s2 A B C)). reflexivity.
      + unfold abs_ix. rewrite (proj2 (Hkeep s Hbs Hslive Hsne)). reflexivity.
  Qed.

  Lemma collect_loop_g stb : forall es r n st acc,
    Forall (slot_ok_g stb) es -> coll_inv stb st n r acc ->
    exists r' n' st' acc',
      run env t (for_each es (fun e r => match e with
                                         | VEnt None _ first true => let* s := slice_lit [VZ first] in slice_append r (VSl s)
                                         | VEnt (Some s) _ _ true => slice_append r (VSl s)
                                         | _ => Ret r
                                         end) r) n st = (r', n', st') /\
      coll_inv stb st' n' r' acc' /\
      map (abs_ix st') acc' = map (abs_ix st) acc ++ flat_map (members_g stb) es.
  Proof.
    induction es as [|e es IH]; intros r n st acc Hes Hinv.
    - exists r, n, st, acc. split; [reflexivity|]. split; [exact Hinv|]. cbn [flat_map]. rewrite app_nil_r. reflexivity.
    - pose proof (Forall_inv Hes) as He. pose proof (Forall_inv_tail Hes) as Hes'. cbn [for_each flat_map].
      destruct He as [->|(ixo & h & first & -> & Hh & Hfirst & Hgood)].
      + (* an unoccupied slot *)
        cbn [empty_entry]. erewrite run_bind_eq; [|reflexivity].
        destruct (IH r n st acc Hes' Hinv) as (r' & n' & st' & acc' & Hrun & Hinv' & Hmap).
        exists r', n', st', acc'. split; [exact Hrun|]. split; [exact Hinv'|]. exact Hmap.
      + pose proof Hinv as (Hk & Hf & Hkb & Hnew & Hb & Hown & Hlive & Hacc & Hfa).
        destruct ixo as [s|].
        * (* the slice the slot owns *)
          destruct Hgood as (Hbs & Hls & Hos).
          pose proof (slice_good_live stb s (conj Hbs (conj Hls Hos))) as Hlb.
          destruct (live_some stb (s_base s) Hlb) as [a Ha].
          assert (E : lookup st (s_base s) = lookup stb (s_base s)) by (rewrite Ha; apply Hkb; exact Ha).
          assert (Hsne : s_base s <> s_base r) by (intro E2; rewrite E2 in Ha; congruence).
          destruct (append_group stb r s n st acc Hinv (in_bounds_same stb st s E Hbs)) as (r2 & n2 & st2 & Happ & Hinv2 & Hmap2).
          { rewrite E. exact Hlb. }
          { exact Hsne. }
          erewrite run_bind_eq; [|exact Happ].
          destruct (IH r2 n2 st2 (acc ++ [s]) Hes' Hinv2) as (r' & n' & st' & acc' & Hrun & Hinv' & Hmap).
          exists r', n', st', acc'. split; [exact Hrun|]. split; [exact Hinv'|].
          rewrite Hmap, Hmap2, <- app_assoc. f_equal. cbn [app]. f_equal.
          unfold members_g. cbn [abs_slot_g abs_ixo]. unfold Grouper.members. cbn [Grouper.ix Grouper.first].
          assert (Eab : abs_ix st s = abs_ix stb s) by (unfold abs_ix; rewrite (seg_same stb st s E); reflexivity).
          rewrite Eab. destruct (abs_ix stb s) as [|p0 r0] eqn:Ea; [|reflexivity].
          exfalso. pose proof (abs_ix_length stb s Hbs) as H. rewrite Ea in H. cbn [length] in H. clear - H Hls. lia.
        * (* a group with one member: index.Int{firstPos} *)
          set (ls := (t, n)). set (s := mkSlice ls 0 1 1). set (st1 := update st ls [VZ first]).
          assert (Hfr : lookup st ls = None) by (apply Hf; apply Nat.le_refl).
          assert (Hls_r : ls <> s_base r) by (intro E; rewrite <- E in Hlive; congruence).
          assert (Hsame : forall l, l <> ls -> lookup st1 l = lookup st l) by (intros l Hl; unfold st1; apply lookup_update_other; exact Hl).
          assert (Hinv1 : coll_inv stb st1 (S n) r acc).
          { split; [eapply keeps_trans; [exact Hk|apply keeps_update; exact Hfr]|]. split; [apply fresh_update; exact Hf|].
            split; [eapply keeps_trans; [exact Hkb|apply keeps_update; exact Hfr]|]. split; [exact Hnew|].
            assert (Er : lookup st1 (s_base r) = lookup st (s_base r)) by (apply Hsame; intro E; apply Hls_r; symmetry; exact E).
            split; [exact (in_bounds_same st st1 r Er Hb)|]. split; [exact Hown|]. split; [rewrite Er; exact Hlive|].
            split; [rewrite (seg_same st st1 r Er); exact Hacc|].
            apply Forall_forall. intros s2 Hs2. rewrite Forall_forall in Hfa. destruct (Hfa s2 Hs2) as (A & B & C).
            assert (E2 : lookup st1 (s_base s2) = lookup st (s_base s2)) by (apply Hsame; intro E; rewrite E in B; congruence).
            split; [exact (in_bounds_same st st1 s2 E2 A)|]. split; [rewrite E2; exact B|exact C]. }
          assert (Hrd : read_loc st1 ls = [VZ first]) by (unfold st1; apply read_update_same).
          destruct (append_group stb r s (S n) st1 acc Hinv1) as (r2 & n2 & st2 & Happ & Hinv2 & Hmap2).
          { split; cbn [s_len s_cap s_off s_base s]; [lia|]. rewrite Hrd. cbn [length]. lia. }
          { cbn [s_base s]. unfold st1. rewrite lookup_update_same. discriminate. }
          { exact Hls_r. }
          erewrite run_bind_eq.
          2:{ erewrite run_bind_eq; [|apply run_slice_lit]. cbn [length]. fold ls st1 s. exact Happ. }
          destruct (IH r2 n2 st2 (acc ++ [s]) Hes' Hinv2) as (r' & n' & st' & acc' & Hrun & Hinv' & Hmap).
          exists r', n', st', acc'. split; [exact Hrun|]. split; [exact Hinv'|].
          rewrite Hmap, Hmap2, <- app_assoc. f_equal.
          { apply map_ext_in. intros s2 Hs2. rewrite Forall_forall in Hfa. destruct (Hfa s2 Hs2) as (A & B & C).
            unfold abs_ix. rewrite (seg_same st st1 s2); [reflexivity|]. apply Hsame. intro E. rewrite E in B. congruence. }
          cbn [app]. f_equal.
          unfold members_g. cbn [abs_slot_g abs_ixo]. unfold Grouper.members. cbn [Grouper.ix Grouper.first].
          unfold abs_ix, seg_of, slice_seg. cbn [s_base s_off s_len s]. rewrite Hrd. reflexivity.
  Qed.
  Lemma ent_slices_repeat_empty n : ent_slices (repeat empty_entry n) = [].
  Proof. induction n as [|m IH]; [reflexivity|]. exact IH. Qed.

  Lemma members_occ st arr : flat_map (members_g st) arr = map Grouper.members (Grouper.occ (map (abs_slot_g st) arr)).
  Proof.
    unfold Grouper.occ. induction arr as [|v arr IH]; [reflexivity|]. cbn [flat_map map]. rewrite map_app, IH. f_equal.
    unfold members_g. destruct (abs_slot_g st v); reflexivity.
  Qed.

  (* ---- groupIndex and grouper.GroupBy *)
  Theorem refines_grouper_group_by ix n st :
    in_bounds st0 ix -> map as_z (seg_of st0 ix) = ixs -> keeps st0 st -> store_fresh t n st ->
    exists res n' st',
      run env t (grouper_group_by gp cols ix) n st = (res, n', st') /\ keeps st0 st' /\ store_fresh t n' st' /\
      match Grouper.group_ids eqb hash (map row ixs) with
      | Ok gs => exists ind, res = Ok ind /\ in_bounds st' ind /\
                             Forall (in_bounds st') (map as_slice (seg_of st' ind)) /\
                             map (abs_ix st') (map as_slice (seg_of st' ind)) = gs
      | Panic => res = Panic
      | Fail => False
      end.
  Proof.
    intros Hix Hixs Hk Hf.
    assert (Hlen_ix : s_len ix = length ixs) by (rewrite <- Hixs, map_length; symmetry; apply seg_length; exact Hix).
    set (e := Grouper.calculate_initial_size_exp (N.of_nat (length ixs))).
    set (sz := initial_size (length ixs)).
    assert (Hsz : N.of_nat sz = (2 ^ e)%N) by (apply initial_size_pow).
    set (le := (t, n)). set (st1 := update st le (repeat empty_entry sz)).
    assert (Hfr : lookup st le = None) by (apply Hf; apply Nat.le_refl).
    assert (Hk1 : keeps st0 st1) by (eapply keeps_trans; [exact Hk|apply keeps_update; exact Hfr]).
    assert (Hf1 : store_fresh t (S n) st1) by (apply fresh_update; exact Hf).
    assert (Hrel : tab_rel_g st1 (mkGT (mkSlice le 0 sz sz) 0) (Grouper.new_table e)).
    { exists le, sz, e, (repeat empty_entry sz). split; [reflexivity|].
      constructor; cbn [Grouper.new_table Grouper.entries Grouper.group_count Grouper.lf_num Grouper.lf_den gt_count].
      - exact Hsz.
      - exact (keeps_none _ _ _ Hk Hfr).
      - split; [unfold st1; apply lookup_update_same|]. split; [apply repeat_length|]. split.
        { apply Forall_forall. intros x Hx. apply repeat_spec in Hx. left. exact Hx. }
        split; [rewrite map_repeat; cbn [abs_slot_g empty_entry]; rewrite <- Hsz, Nat2N.id; reflexivity|].
        rewrite ent_slices_repeat_empty. split; constructor.
      - reflexivity.
      - reflexivity.
      - reflexivity. }
    destruct (insert_all_sim_g ixs (mkGT (mkSlice le 0 sz sz) 0) (Grouper.new_table e) (S n) st1 (incl_refl _) Hrel Hk1 Hf1)
      as (r2 & n2 & st2 & Hrun2 & Hk2 & Hf2 & Hr2).
    { cbn [gt_count]. apply Nat.le_refl. }
    assert (Hgi : run env t (group_index gp cols true ix) n st = (r2, n2, st2)).
    { unfold group_index. rewrite Hlen_ix. fold sz.
      erewrite run_bind_eq; [|apply run_make]. fold le st1.
      erewrite run_bind_eq; [|apply run_read_zs].
      rewrite (seg_keeps_eq _ _ _ Hk1 Hix), Hixs. exact Hrun2. }
    unfold grouper_group_by. rewrite run_bindO_unfold, Hgi.
    unfold Grouper.group_ids, Grouper.group_ids_gen, Grouper.group_index. rewrite map_length. fold e.
    destruct (Grouper.insert_all eqb hash true (Grouper.new_table e) (map row ixs)) as [T'| |]; cbn [obind].
    - destruct Hr2 as (g' & -> & (le' & len' & k' & arr' & Hents' & Hinv') & _).
      destruct Hinv' as [Hpow' Hown' (Hl' & Hlen' & Hok' & Habs' & _ & _) Hcnt' _ _].
      set (lr := (t, n2)). set (st3 := update st2 lr (repeat (VSl nil_slice) (gt_count g'))).
      assert (Hfr2 : lookup st2 lr = None) by (apply Hf2; apply Nat.le_refl).
      assert (Hlr3 : lookup st3 lr = Some (repeat (VSl nil_slice) (gt_count g'))) by (unfold st3; apply lookup_update_same).
      assert (Hne : le' <> lr) by (intros ->; congruence).
      assert (Hrd : read_loc st3 le' = arr').
      { unfold st3, read_loc. rewrite lookup_update_other by exact Hne. rewrite Hl'. reflexivity. }
      assert (Hinv3 : coll_inv st2 st3 (S n2) (mkSlice lr 0 0 (gt_count g')) []).
      { split; [eapply keeps_trans; [exact Hk2|apply keeps_update; exact Hfr2]|]. split; [apply fresh_update; exact Hf2|].
        split; [apply keeps_update; exact Hfr2|]. split; [exact Hfr2|]. split.
        { split; cbn [s_len s_cap s_off s_base]; [lia|]. unfold read_loc. rewrite Hlr3, repeat_length. lia. }
        split; [exact (keeps_none _ _ _ Hk2 Hfr2)|]. split; [cbn [s_base]; rewrite Hlr3; discriminate|].
        split; [rewrite empty_seg; reflexivity|constructor]. }
      destruct (collect_loop_g st2 arr' (mkSlice lr 0 0 (gt_count g')) (S n2) st3 [] Hok' Hinv3)
        as (r' & n' & st' & acc' & Hrun & Hinv' & Hmap).
      destruct Hinv' as (Hk' & Hf' & _ & _ & Hb' & _ & _ & Hacc' & Hfa').
      exists (Ok r'), n', st'. split.
      { erewrite run_bind_eq; [|apply run_make]. fold lr st3.
        erewrite run_bind_eq; [|apply run_slice_read]. rewrite Hents'.
        rewrite (full_seg st3 le' len') by (rewrite Hrd; exact Hlen'). rewrite Hrd.
        apply run_lift. exact Hrun. }
      split; [exact Hk'|]. split; [exact Hf'|].
      exists r'. split; [reflexivity|]. split; [exact Hb'|]. rewrite Hacc'. split.
      + eapply Forall_impl; [|exact Hfa']. intros s2 (A & _). exact A.
      + rewrite Hmap. cbn [map app]. rewrite members_occ, Habs'. reflexivity.
    - contradiction.
    - subst r2. exists Panic, n2, st2. auto.
  Qed.
  Lemma insert_oob_g i g T n st :
    tab_rel_g st g T -> cells_val st0 cols i = Panic -> keeps st0 st -> store_fresh t n st -> gt_count g <= length ixs ->
    exists n' st', run env t (insert_entry gp cols true i g) n st = (Panic, n', st') /\ keeps st0 st' /\ store_fresh t n' st'.
  Proof.
    intros (le & len & k & arr & Hents & Hinv) Hci Hk Hf Hle.
    pose proof Hinv as [Hpow Hown Harr Hcnt Hlf Hden].
    rewrite h1_insert_split_g, Hents. cbn [s_len].
    assert (Hcore : forall ents n1 st1, keeps st0 st1 -> run env t (h1_insert_core_g ents (gt_count g) i) n1 st1 = (Panic, n1, st1)).
    { intros ents n1 st1 Hk1. unfold h1_insert_core_g.
      rewrite run_bindO_unfold, run_cols_cell, (cells_val_keeps _ _ _ _ Hk1 Hcols), Hci. reflexivity. }
    destruct (len <? 2 * gt_count g) eqn:Etest.
    - apply Nat.ltb_lt in Etest.
      assert (Hbound : (2 * N.of_nat len < 2 ^ 32)%N) by (clear - Etest Hle Hsize; lia).
      destruct (grow_table_sim_g le len k arr T n st Hpow Hbound Harr Hk Hf) as (r1 & st1 & Hrun1 & Hk1 & Hf1 & Hr1).
      rewrite run_bindO_unfold, Hrun1.
      destruct (Grouper.grow T) as [T1| |].
      + destruct Hr1 as (-> & _). rewrite (Hcore _ _ _ Hk1). exists (S n), st1. auto.
      + contradiction.
      + subst r1. exists (S n), st1. auto.
    - erewrite run_bindO_ok; [|reflexivity]. rewrite (Hcore _ _ _ Hk). exists n, st. auto.
  Qed.
  Lemma grouper_group_by_oob bad rest ix n st :
    cells_val st0 cols bad = Panic ->
    in_bounds st0 ix -> map as_z (seg_of st0 ix) = ixs ++ bad :: rest -> keeps st0 st -> store_fresh t n st ->
    exists n' st', run env t (grouper_group_by gp cols ix) n st = (Panic, n', st') /\ keeps st0 st' /\ store_fresh t n' st'.
  Proof.
    intros Hbad Hix Hixs Hk Hf.
    set (sz := initial_size (s_len ix)).
    set (e := Grouper.calculate_initial_size_exp (N.of_nat (s_len ix))).
    assert (Hsz : N.of_nat sz = (2 ^ e)%N) by (apply initial_size_pow).
    set (le := (t, n)). set (st1 := update st le (repeat empty_entry sz)).
    assert (Hfr : lookup st le = None) by (apply Hf; apply Nat.le_refl).
    assert (Hk1 : keeps st0 st1) by (eapply keeps_trans; [exact Hk|apply keeps_update; exact Hfr]).
    assert (Hf1 : store_fresh t (S n) st1) by (apply fresh_update; exact Hf).
    assert (Hrel : tab_rel_g st1 (mkGT (mkSlice le 0 sz sz) 0) (Grouper.new_table e)).
    { exists le, sz, e, (repeat empty_entry sz). split; [reflexivity|].
      constructor; cbn [Grouper.new_table Grouper.entries Grouper.group_count Grouper.lf_num Grouper.lf_den gt_count].
      - exact Hsz.
      - exact (keeps_none _ _ _ Hk Hfr).
      - split; [unfold st1; apply lookup_update_same|]. split; [apply repeat_length|]. split.
        { apply Forall_forall. intros x Hx. apply repeat_spec in Hx. left. exact Hx. }
        split; [rewrite map_repeat; cbn [abs_slot_g empty_entry]; rewrite <- Hsz, Nat2N.id; reflexivity|].
        rewrite ent_slices_repeat_empty. split; constructor.
      - reflexivity.
      - reflexivity.
      - reflexivity. }
    destruct (insert_all_sim_g ixs (mkGT (mkSlice le 0 sz sz) 0) (Grouper.new_table e) (S n) st1 (incl_refl _) Hrel Hk1 Hf1)
      as (r2 & n2 & st2 & Hrun2 & Hk2 & Hf2 & Hr2).
    { cbn [gt_count]. apply Nat.le_refl. }
    assert (Hloop : exists n' st', run env t (for_eachO (ixs ++ bad :: rest) (fun i tb => insert_entry gp cols true i tb)
                                                (mkGT (mkSlice le 0 sz sz) 0)) (S n) st1 = (Panic, n', st') /\
                                   keeps st0 st' /\ store_fresh t n' st').
    { rewrite run_for_eachO_app, Hrun2.
      destruct (Grouper.insert_all eqb hash true (Grouper.new_table e) (map row ixs)) as [T'| |].
      - destruct Hr2 as (g' & -> & Hrel' & Hcnt'). cbn [gt_count Nat.add] in Hcnt'.
        destruct (insert_oob_g bad g' T' n2 st2 Hrel' Hbad Hk2 Hf2 Hcnt') as (n3 & st3 & Hrun3 & Hk3 & Hf3).
        cbn [for_eachO]. rewrite run_bindO_unfold, Hrun3. exists n3, st3. auto.
      - contradiction.
      - subst r2. exists n2, st2. auto. }
    destruct Hloop as (n' & st' & Hrun & Hk' & Hf').
    exists n', st'. split; [|auto].
    unfold grouper_group_by. erewrite run_bindO_panic; [reflexivity|].
    unfold group_index. fold sz.
    erewrite run_bind_eq; [|apply run_make]. fold le st1.
    erewrite run_bind_eq; [|apply run_read_zs].
    rewrite (seg_keeps_eq _ _ _ Hk1 Hix), Hixs. exact Hrun.
  Qed.
End TableSimG.

(* ==================================================================== 5b. QFrame.GroupBy *)
Section GroupByRefine.
  Variable env : fnid -> list val -> val.
  Variable dec : decoder.

  Definition err_g : grouper := mkG nil_slice [] nil_slice None true.

  Lemma err_g_ok st : grouper_ok dec st err_g /\ abs_g dec st err_g = Some Aggregate.err_grouper.
  Proof.
    split.
    - constructor; [apply (zero_frame_ok dec)|apply nil_in_bounds|constructor].
    - reflexivity.
  Qed.

  (* the grouper shares the headers and the by-name map of the frame *)
  Lemma g_of_frame st qf f ind names :
    ref_ok dec st qf -> abs1 dec st qf = Some f -> q_err qf = false ->
    in_bounds st ind -> Forall (in_bounds st) (map as_slice (seg_of st ind)) ->
    grouper_ok dec st (mkG ind names (q_cols qf) (q_map qf) false) /\
    abs_g dec st (mkG ind names (q_cols qf) (q_map qf) false)
    = Some (Aggregate.mkGrouper (Frame.cols f) names (map (abs_ix st) (map as_slice (seg_of st ind))) false).
  Proof.
    intros Hok Habs Herr Hind Hgroups.
    assert (Eb : g_base (mkG ind names (q_cols qf) (q_map qf) false) = with_index qf nil_slice).
    { unfold g_base, with_index. cbn [g_cols g_map]. rewrite Herr. reflexivity. }
    split.
    - constructor; [rewrite Eb; apply with_index_ok; [exact Hok|apply nil_in_bounds]|exact Hind|exact Hgroups].
    - unfold abs_g. rewrite Eb, (with_index_abs dec st qf f nil_slice Habs). reflexivity.
  Qed.

  (* QFrame.GroupBy, parametric in the L0 reading [grp] of grouper.GroupBy *)
  Theorem refines_group_by_with grp gp t n st qf f names :
    ref_ok dec st qf -> abs1 dec st qf = Some f -> store_fresh t n st ->
    (forall cols kcols,
        run env t (lookup_cols (q_map qf) names) n st = (Ok cols, n, st) ->
        Aggregate.named_cols f names = Ok kcols ->
        Forall (parts_in_bounds st) cols ->
        exists res n' st',
          run env t (grouper_group_by gp cols (q_idx qf)) n st = (res, n', st') /\ keeps st st' /\ store_fresh t n' st' /\
          match grp kcols (Frame.ix f) with
          | Ok gs => exists ind, res = Ok ind /\ in_bounds st' ind /\
                                 Forall (in_bounds st') (map as_slice (seg_of st' ind)) /\
                                 map (abs_ix st') (map as_slice (seg_of st' ind)) = gs
          | Panic => res = Panic
          | Fail => False
          end) ->
    exists res n' st',
      run env t (op_group_by gp names qf) n st = (res, n', st') /\ keeps st st' /\ store_fresh t n' st' /\
      match res with
      | Ok g => grouper_ok dec st' g /\ exists G, Aggregate.group_by_with grp f names = Ok G /\ abs_g dec st' g = Some G
      | Panic => Aggregate.group_by_with grp f names = Panic
      | Fail => False
      end.
  Proof.
    intros Hok Habs Hf Htab. destruct (abs1_inv _ _ _ _ Habs) as (Hc & Hi & He).
    unfold op_group_by, Aggregate.group_by_with. rewrite He. fold err_g.
    destruct (q_err qf) eqn:Eerr.
    { exists (Ok err_g), n, st. split; [reflexivity|]. split; [apply keeps_refl|]. split; [exact Hf|].
      destruct (err_g_ok st) as [A B]. split; [exact A|]. eexists. split; [reflexivity|exact B]. }
    erewrite run_bind_eq; [|apply run_check_columns].
    assert (Echk : forallb (has_key (map_of st (q_map qf))) names = forallb (Frame.contains f) names).
    { clear - Hok Habs. induction names as [|nm names IH]; [reflexivity|]. cbn [forallb]. rewrite IH, (has_key_contains dec st qf f nm Hok Habs). reflexivity. }
    rewrite Echk. destruct (forallb (Frame.contains f) names); cbn [negb].
    2:{ exists (Ok err_g), n, st. split; [reflexivity|]. split; [apply keeps_refl|]. split; [exact Hf|].
        destruct (err_g_ok st) as [A B]. split; [exact A|]. eexists. split; [reflexivity|exact B]. }
    pose proof (abs_ix_length _ _ (ro_idx _ _ _ Hok)) as Hlen. rewrite <- Hi in Hlen.
    destruct (s_len (q_idx qf) =? 0) eqn:E0.
    { apply Nat.eqb_eq in E0. destruct (Frame.ix f) as [|p r] eqn:Eix; [|simpl in Hlen; lia].
      exists (Ok (mkG nil_slice names (q_cols qf) (q_map qf) false)), n, st.
      split; [reflexivity|]. split; [apply keeps_refl|]. split; [exact Hf|].
      destruct (g_of_frame st qf f nil_slice names Hok Habs Eerr (nil_in_bounds st)) as [A B]; [constructor|].
      split; [exact A|]. eexists. split; [reflexivity|]. rewrite B. reflexivity. }
    apply Nat.eqb_neq in E0. destruct (Frame.ix f) as [|p r] eqn:Eix; [simpl in Hlen; lia|].
    destruct names as [|n0 nr].
    - (* one group: the index itself, shared *)
      set (ls := (t, n)). set (st1 := update st ls [VSl (q_idx qf)]).
      assert (Hfr : lookup st ls = None) by (apply Hf; apply Nat.le_refl).
      assert (Hk1 : keeps st st1) by (apply keeps_update; exact Hfr).
      assert (Hrd : read_loc st1 ls = [VSl (q_idx qf)]) by (unfold st1; apply read_update_same).
      exists (Ok (mkG (mkSlice ls 0 1 1) [] (q_cols qf) (q_map qf) false)), (S n), st1.
      split; [erewrite run_bind_eq; [|apply run_slice_lit]; reflexivity|].
      split; [exact Hk1|]. split; [apply fresh_update; exact Hf|].
      assert (Hseg : seg_of st1 (mkSlice ls 0 1 1) = [VSl (q_idx qf)]).
      { unfold seg_of, slice_seg. cbn [s_base s_off s_len]. rewrite Hrd. reflexivity. }
      destruct (g_of_frame st1 qf f (mkSlice ls 0 1 1) [] (ref_ok_keeps _ _ _ _ Hk1 Hok)) as [A B].
      { rewrite (abs1_keeps _ _ _ _ Hk1 Hok). exact Habs. }
      { exact Eerr. }
      { split; cbn [s_len s_cap s_off s_base]; [lia|]. rewrite Hrd. cbn [length]. lia. }
      { rewrite Hseg. cbn [map as_slice]. constructor; [|constructor]. exact (in_bounds_keeps _ _ _ Hk1 (ro_idx _ _ _ Hok)). }
      split; [exact A|]. eexists. split; [reflexivity|]. rewrite B, Hseg. cbn [map as_slice].
      unfold abs_ix. rewrite (seg_keeps_eq _ _ _ Hk1 (ro_idx _ _ _ Hok)). fold (abs_ix st (q_idx qf)). rewrite <- Hi. reflexivity.
    - set (names := n0 :: nr) in *.
      destruct (lookup_named env dec t st qf f n Hok Habs names []) as (r1 & Hr1 & Hres1). fold (lookup_cols (q_map qf) names) in Hr1.
      erewrite run_bind_eq; [|exact Hr1].
      destruct (Aggregate.named_cols f names) as [kcols| |] eqn:Enc; cbn [obind].
      + destruct Hres1 as [cols ->]. cbn [app] in Hr1.
        assert (Hparts : Forall (parts_in_bounds st) cols).
        { destruct (lookup_cols_run env t (q_map qf) names n st) as (r' & Hr' & Hlc). rewrite Hr1 in Hr'. inversion Hr'; subst r'.
          specialize (Hlc cols eq_refl). pose proof (ro_mparts _ _ _ Hok) as Hm. rewrite Forall_forall in Hm, Hlc.
          apply Forall_forall. intros c Hcin. destruct (Hlc c Hcin) as [k Hk]. apply (Hm (k, c) Hk). }
        destruct (Htab cols kcols Hr1 eq_refl Hparts) as (res & n' & st' & Hrun & Hk' & Hf' & Hres).
        cbn [app]. rewrite run_bindO_unfold, Hrun.
        destruct (grp kcols (p :: r)) as [gs| |]; cbn [obind].
        * destruct Hres as (ind & -> & Hbi & Hbg & Hgs).
          exists (Ok (mkG ind names (q_cols qf) (q_map qf) false)), n', st'. split; [reflexivity|]. split; [exact Hk'|]. split; [exact Hf'|].
          destruct (g_of_frame st' qf f ind names (ref_ok_keeps _ _ _ _ Hk' Hok)) as [A B]; auto.
          { rewrite (abs1_keeps _ _ _ _ Hk' Hok). exact Habs. }
          split; [exact A|]. eexists. split; [reflexivity|]. rewrite B, Hgs. reflexivity.
        * contradiction.
        * subst res. exists Panic, n', st'. auto.
      + contradiction.
      + subst r1. exists Panic, n, st. split; [reflexivity|]. split; [apply keeps_refl|]. split; [exact Hf|reflexivity].
  Qed.

  Theorem refines_group_by memhash rnd nulleq gp t n st qf f names :
    ref_ok dec st qf -> abs1 dec st qf = Some f -> store_fresh t n st ->
    (4 * N.of_nat (length (Frame.ix f)) < 2 ^ 32)%N ->
    (forall cols kcols,
        run env t (lookup_cols (q_map qf) names) n st = (Ok cols, n, st) ->
        Aggregate.named_cols f names = Ok kcols ->
        key_link st cols kcols gp (Aggregate.key_eqb nulleq kcols) (Aggregate.key_hash memhash rnd nulleq kcols)
                 (map as_z (seg_of st (q_idx qf)))) ->
    exists res n' st',
      run env t (op_group_by gp names qf) n st = (res, n', st') /\ keeps st st' /\ store_fresh t n' st' /\
      match res with
      | Ok g => grouper_ok dec st' g /\
                exists G, Aggregate.group_by memhash rnd nulleq f names = Ok G /\ abs_g dec st' g = Some G
      | Panic => Aggregate.group_by memhash rnd nulleq f names = Panic
      | Fail => False
      end.
  Proof.
    intros Hok Habs Hf Hsize Hlink. destruct (abs1_inv _ _ _ _ Habs) as (Hc & Hi & He).
    apply (refines_group_by_with (Aggregate.table_group memhash rnd nulleq) gp t n st qf f names Hok Habs Hf).
    intros cols kcols Hcols Hkcols Hparts.
    destruct (Hlink cols kcols Hcols Hkcols) as (Hcells & Hhash & Heq & ks & Hks).
    assert (Eix : Frame.ix f = map row (map as_z (seg_of st (q_idx qf)))).
    { rewrite Hi. unfold abs_ix. rewrite map_map. reflexivity. }
    unfold Aggregate.table_group. rewrite Eix, Hks. cbn [obind].
    apply (refines_grouper_group_by env t st cols gp (Aggregate.key_eqb nulleq kcols) (Aggregate.key_hash memhash rnd nulleq kcols)
             (map as_z (seg_of st (q_idx qf))) Hparts Hcells Hhash Heq).
    - rewrite map_length. rewrite Eix, !map_length in Hsize. exact Hsize.
    - apply (ro_idx _ _ _ Hok).
    - reflexivity.
    - apply keeps_refl.
    - exact Hf.
  Qed.
End GroupByRefine.

(* ==================================================================== 5c. a row of the index outside a key column *)
(* Distinct and GroupBy hash the rows of the index in order; a row outside a key column panics when it is hashed (the
   rows before it have been inserted, the table may have grown).  The L0 model tests all rows first. *)
Section OobRefine.
  Variable env : fnid -> list val -> val.
  Variable dec : decoder.

  Definition key_link_oob (st : store) (cols : list col) (kcols : list Frame.coldata) (gp : gparams)
             (eqb : nat -> nat -> bool) (hash : nat -> N) (ixs : list Z) : Prop :=
    exists pre bad rest,
      ixs = pre ++ bad :: rest /\
      (forall i, In i pre -> exists ci, cells_val st cols i = Ok ci) /\
      (forall i ci, In i pre -> cells_val st cols i = Ok ci -> gp_hash gp i ci = Z.of_N (Grouper.u32 (hash (row i)))) /\
      (forall i j ci cj, In i pre -> In j pre -> cells_val st cols i = Ok ci -> cells_val st cols j = Ok cj ->
                         gp_eq gp i j ci cj = eqb (row i) (row j)) /\
      cells_val st cols bad = Panic /\
      omap (Aggregate.key_row kcols) (map row ixs) = Panic.

  Theorem refines_distinct_oob memhash rnd nulleq gp t n st qf f names :
    ref_ok dec st qf -> abs1 dec st qf = Some f -> store_fresh t n st ->
    (4 * N.of_nat (length (Frame.ix f)) < 2 ^ 32)%N ->
    (forall cols kcols,
        run env t (lookup_cols (q_map qf) (match names with [] => Frame.col_names f | _ => names end)) n st = (Ok cols, n, st) ->
        Aggregate.named_cols f (match names with [] => Frame.col_names f | _ => names end) = Ok kcols ->
        key_link_oob st cols kcols gp (Aggregate.key_eqb nulleq kcols) (Aggregate.key_hash memhash rnd nulleq kcols)
                     (map as_z (seg_of st (q_idx qf)))) ->
    exists res n' st',
      run env t (op_distinct gp names qf) n st = (res, n', st') /\ keeps st st' /\ store_fresh t n' st' /\
      match res with
      | Ok qf' => ref_ok dec st' qf' /\ exists f', Aggregate.distinct memhash rnd nulleq f names = Ok f' /\ abs1 dec st' qf' = Some f'
      | Panic => Aggregate.distinct memhash rnd nulleq f names = Panic
      | Fail => False
      end.
  Proof.
    intros Hok Habs Hf Hsize Hlink. destruct (abs1_inv _ _ _ _ Habs) as (Hc & Hi & He).
    apply (refines_distinct_with env dec (Aggregate.table_distinct memhash rnd nulleq) gp t n st qf f names Hok Habs Hf).
    intros cols kcols Hcols Hkcols Hparts.
    destruct (Hlink cols kcols Hcols Hkcols) as (pre & bad & rest & Eixs & Hcells & Hhash & Heq & Hbad & Hks).
    assert (Eix : Frame.ix f = map row (map as_z (seg_of st (q_idx qf)))).
    { rewrite Hi. unfold abs_ix. rewrite map_map. reflexivity. }
    unfold Aggregate.table_distinct. rewrite Eix, Hks. cbn [obind].
    assert (Hsz : (4 * N.of_nat (length pre) < 2 ^ 32)%N).
    { rewrite Eix, !map_length, <- (map_length as_z), Eixs, app_length in Hsize. clear - Hsize. lia. }
    destruct (grouper_distinct_oob env t st cols gp (Aggregate.key_eqb nulleq kcols) (Aggregate.key_hash memhash rnd nulleq kcols)
                pre Hparts Hcells Hhash Heq Hsz bad rest (q_idx qf) n st Hbad (ro_idx _ _ _ Hok) Eixs (keeps_refl _) Hf)
      as (n' & st' & Hrun & Hk' & Hf').
    exists Panic, n', st'. auto.
  Qed.

  Theorem refines_group_by_oob memhash rnd nulleq gp t n st qf f names :
    ref_ok dec st qf -> abs1 dec st qf = Some f -> store_fresh t n st ->
    (4 * N.of_nat (length (Frame.ix f)) < 2 ^ 32)%N ->
    (forall cols kcols,
        run env t (lookup_cols (q_map qf) names) n st = (Ok cols, n, st) ->
        Aggregate.named_cols f names = Ok kcols ->
        key_link_oob st cols kcols gp (Aggregate.key_eqb nulleq kcols) (Aggregate.key_hash memhash rnd nulleq kcols)
                     (map as_z (seg_of st (q_idx qf)))) ->
    exists res n' st',
      run env t (op_group_by gp names qf) n st = (res, n', st') /\ keeps st st' /\ store_fresh t n' st' /\
      match res with
      | Ok g => grouper_ok dec st' g /\
                exists G, Aggregate.group_by memhash rnd nulleq f names = Ok G /\ abs_g dec st' g = Some G
      | Panic => Aggregate.group_by memhash rnd nulleq f names = Panic
      | Fail => False
      end.
  Proof.
    intros Hok Habs Hf Hsize Hlink. destruct (abs1_inv _ _ _ _ Habs) as (Hc & Hi & He).
    apply (refines_group_by_with env dec (Aggregate.table_group memhash rnd nulleq) gp t n st qf f names Hok Habs Hf).
    intros cols kcols Hcols Hkcols Hparts.
    destruct (Hlink cols kcols Hcols Hkcols) as (pre & bad & rest & Eixs & Hcells & Hhash & Heq & Hbad & Hks).
    assert (Eix : Frame.ix f = map row (map as_z (seg_of st (q_idx qf)))).
    { rewrite Hi. unfold abs_ix. rewrite map_map. reflexivity. }
    unfold Aggregate.table_group. rewrite Eix, Hks. cbn [obind].
    assert (Hsz : (4 * N.of_nat (length pre) < 2 ^ 32)%N).
    { rewrite Eix, !map_length, <- (map_length as_z), Eixs, app_length in Hsize. clear - Hsize. lia. }
    destruct (grouper_group_by_oob env t st cols gp (Aggregate.key_eqb nulleq kcols) (Aggregate.key_hash memhash rnd nulleq kcols)
                pre Hparts Hcells Hhash Heq Hsz bad rest (q_idx qf) n st Hbad (ro_idx _ _ _ Hok) Eixs (keeps_refl _) Hf)
      as (n' & st' & Hrun & Hk' & Hf').
    exists Panic, n', st'. auto.
  Qed.
End OobRefine.

(* ==================================================================== 6. Aggregate: the loops over the groups *)
(* Column.Aggregate with the reusable buffer of subsetWithBuf, Column.Subset for the key columns and the
   firstElementIx loop of Grouper.Aggregate: what the arrays they allocate hold afterwards (the assembly of the
   result frame - header slice and by-name map built from scratch - is not refined here). *)
Section AggLoops.
  Variable env : fnid -> list val -> val.

  (* append on a slice the program owns or that has no capacity (nil) *)
  Lemma append_own' t st0 v s n st :
    keeps st0 st -> store_fresh t n st -> in_bounds st s -> own_in st0 s ->
    exists s' n' st', run env t (slice_append s v) n st = (s', n', st') /\
      seg_of st' s' = seg_of st s ++ [v] /\ in_bounds st' s' /\ keeps st0 st' /\ store_fresh t n' st' /\ n <= n' /\
      lookup st0 (s_base s') = None /\ lookup st' (s_base s') <> None /\ 0 < s_cap s' /\
      (forall l, lookup st l <> None -> l <> s_base s -> l <> s_base s') /\
      (forall l a, lookup st l = Some a -> l <> s_base s -> lookup st' l = Some a) /\
      (forall l a, lookup st l = Some a -> exists a', lookup st' l = Some a' /\ length a' = length a).
  Proof.
    intros Hk Hf Hb Hown.
    destruct (append_spec env t s v n st0 st Hk Hf Hb Hown)
      as (s1 & n1 & st1 & Hrun1 & Hseg1 & Hb1 & Hlen1 & Hk1 & Hf1 & Hn1 & Hown1 & Hfr1 & _).
    assert (Hbase1 : s_base s1 = s_base s \/ s_base s1 = (t, n)) by (eapply append_base; eauto).
    assert (Hfresh : lookup st (t, n) = None) by (apply Hf; apply Nat.le_refl).
    assert (Hcap : 0 < s_cap s1) by (destruct Hb1; lia).
    exists s1, n1, st1. split; [exact Hrun1|]. split; [exact Hseg1|]. split; [exact Hb1|]. split; [exact Hk1|].
    split; [exact Hf1|]. split; [exact Hn1|].
    split; [destruct Hown1 as [H|H]; [lia|exact H]|].
    split; [destruct (in_bounds_live st1 s1 Hb1 Hcap) as [a Ha]; congruence|]. split; [exact Hcap|].
    split; [intros l Hl Hne; destruct Hbase1 as [E|E]; rewrite E; [exact Hne|intros ->; congruence]|].
    split; [exact Hfr1|].
    intros l a Hl. destruct (loc_dec l (s_base s)) as [->|Hne]; [|exists a; split; [apply Hfr1; auto|reflexivity]].
    (* the array of s itself: written in place (same length) or left alone *)
    unfold slice_append in Hrun1. destruct (s_len s <? s_cap s).
    - simpl in Hrun1. inversion Hrun1; subst. rewrite lookup_write_same, Hl. eexists. split; [reflexivity|apply set_nth_length].
    - assert (E : st1 = update st (t, n) (read_loc st1 (t, n)) \/ True) by (right; exact I).
      destruct (s_len s =? 0); simpl in Hrun1; inversion Hrun1; subst;
        (exists a; split; [|reflexivity]; rewrite lookup_update_other; [exact Hl|intros E2; rewrite E2 in Hl; congruence]).
  Qed.

  (* the values Column.Aggregate hands to the aggregation function for one group *)
  Definition agg_vals_h (st0 : store) (c : col) (gix : list Z) : outcome (list val) :=
    omap (fun i => do x <- cell_val st0 c i; Ok (scalar (hd VNil x))) gix.

  Lemma subset_loop t st0 c : parts_in_bounds st0 c ->
    forall gix b n st, keeps st0 st -> store_fresh t n st -> in_bounds st b -> own_in st0 b ->
    exists res n' st',
      run env t (for_eachO gix (fun i b => let? x := col_cell c i in lift (slice_append b (scalar (hd VNil x)))) b) n st
      = (res, n', st') /\ keeps st0 st' /\ store_fresh t n' st' /\ n <= n' /\
      (forall l a, lookup st l = Some a -> l <> s_base b -> lookup st' l = Some a) /\
      (forall l a, lookup st l = Some a -> exists a', lookup st' l = Some a' /\ length a' = length a) /\
      (forall l, lookup st l <> None -> l <> s_base b ->
                 match res with Ok b' => l <> s_base b' | _ => True end) /\
      match agg_vals_h st0 c gix with
      | Ok vs => exists b', res = Ok b' /\ in_bounds st' b' /\ seg_of st' b' = seg_of st b ++ vs /\ own_in st0 b'
      | Panic => res = Panic
      | Fail => False
      end.
  Proof.
    intros Hpc. induction gix as [|i gix IH]; intros b n st Hk Hf Hb Hown.
    - exists (Ok b), n, st. split; [reflexivity|]. split; [exact Hk|]. split; [exact Hf|]. split; [apply Nat.le_refl|].
      split; [auto|]. split; [intros l a Hl; exists a; auto|]. split; [auto|].
      exists b. rewrite app_nil_r. auto.
    - cbn [for_eachO agg_vals_h omap]. fold (agg_vals_h st0 c gix).
      rewrite run_bindO_unfold. rewrite run_bindO_unfold, run_col_cell, (cell_val_keeps _ _ _ _ Hk Hpc).
      destruct (cell_val st0 c i) as [x| |] eqn:Ex; cbn [obind].
      + destruct (append_own' t st0 (scalar (hd VNil x)) b n st Hk Hf Hb Hown)
          as (b1 & n1 & st1 & Happ & Hseg1 & Hb1 & Hk1 & Hf1 & Hn1 & Hown1 & Hlive1 & Hcap1 & Hne1 & Hfr1 & Hlen1).
        rewrite (run_lift env t _ _ _ _ _ _ Happ).
        destruct (IH b1 n1 st1 Hk1 Hf1 Hb1 (or_intror Hown1)) as (res & n' & st' & Hrun & Hk' & Hf' & Hn' & Hfr' & Hlen' & Hne' & Hres).
        exists res, n', st'. split; [exact Hrun|]. split; [exact Hk'|]. split; [exact Hf'|]. split; [lia|].
        split.
        { intros l a Hl Hne. apply Hfr'; [apply Hfr1; auto|]. apply Hne1; [rewrite Hl; discriminate|exact Hne]. }
        split.
        { intros l a Hl. destruct (Hlen1 l a Hl) as (a1 & Ha1 & El1). destruct (Hlen' l a1 Ha1) as (a2 & Ha2 & El2).
          exists a2. split; [exact Ha2|congruence]. }
        split.
        { intros l Hl Hne. apply Hne'.
          - destruct (live_some st l Hl) as [a Ha]. rewrite (Hfr1 l a Ha Hne). discriminate.
          - apply Hne1; auto. }
        destruct (agg_vals_h st0 c gix) as [vs| |]; cbn [obind]; auto.
        destruct Hres as (b' & -> & Hb' & Hseg' & Hown'). exists b'. split; [reflexivity|]. split; [exact Hb'|].
        split; [rewrite Hseg', Hseg1, <- app_assoc; reflexivity|exact Hown'].
      + exfalso. exact (cell_val_not_fail _ _ _ Ex).
      + exists Panic, n, st. split; [reflexivity|]. split; [exact Hk|]. split; [exact Hf|]. split; [apply Nat.le_refl|].
        split; [auto|]. split; [intros l a Hl; exists a; auto|]. split; [auto|reflexivity].
  Qed.
  Lemma in_bounds_len st st' s :
    (forall a, lookup st (s_base s) = Some a -> exists a', lookup st' (s_base s) = Some a' /\ length a' = length a) ->
    lookup st (s_base s) <> None -> in_bounds st s -> in_bounds st' s.
  Proof.
    intros H Hl [H1 H2]. destruct (live_some st (s_base s) Hl) as [a Ha]. destruct (H a Ha) as (a' & Ha' & El).
    split; [exact H1|]. unfold read_loc in *. rewrite Ha in H2. rewrite Ha', El. exact H2.
  Qed.

  Lemma seg_len0 st l o c : seg_of st (mkSlice l o 0 c) = [].
  Proof. reflexivity. Qed.

  (* what Column.Aggregate appends to its result array: fn applied to the values of every group, in group order *)
  Definition agg_pure (st0 : store) (c : col) (fn : fnid) (gs : list slice) : outcome (list val) :=
    omap (fun g => do vs <- agg_vals_h st0 c (map as_z (seg_of st0 g)); Ok (scalar (env fn vs))) gs.

  (* the reusable buffer: nil, or an array the call allocated, alive, different from the result array *)
  Definition buf_ok (st0 st : store) (d buf : slice) : Prop :=
    buf = nil_slice \/
    (in_bounds st buf /\ 0 < s_cap buf /\ lookup st0 (s_base buf) = None /\ lookup st (s_base buf) <> None /\ s_base buf <> s_base d).

  Lemma agg_outer_loop t st0 c fn : parts_in_bounds st0 c ->
    forall gs d buf n st,
      Forall (in_bounds st0) gs -> keeps st0 st -> store_fresh t n st ->
      in_bounds st d -> lookup st0 (s_base d) = None -> lookup st (s_base d) <> None -> buf_ok st0 st d buf ->
      exists res n' st',
        run env t (for_eachO gs
           (fun g (st : slice * slice) =>
              let '(d, buf) := st in
              let* buf1 := (if (s_cap buf <? s_len g)%nat then make_slice 0 (s_len g) (VZ 0) else Ret buf) in
              let b0 := mkSlice (s_base buf1) (s_off buf1) 0 (s_cap buf1) in
              let* gix := read_zs g in
              let? sub := for_eachO gix (fun i b => let? x := col_cell c i in
                                                    lift (slice_append b (scalar (hd VNil x)))) b0 in
              let* vs := slice_read sub in
              let* d' := Call fn vs (fun v => slice_append d v) in
              Ret (Ok (d', buf1))) (d, buf)) n st = (res, n', st') /\
        keeps st0 st' /\ store_fresh t n' st' /\
        match agg_pure st0 c fn gs with
        | Ok vals => exists d' buf', res = Ok (d', buf') /\ in_bounds st' d' /\ seg_of st' d' = seg_of st d ++ vals /\
                                     lookup st0 (s_base d') = None
        | Panic => res = Panic
        | Fail => False
        end.
  Proof.
    intros Hpc. induction gs as [|g gs IH]; intros d buf n st Hgs Hk Hf Hbd Hownd Hlived Hbuf.
    - exists (Ok (d, buf)), n, st. split; [reflexivity|]. split; [exact Hk|]. split; [exact Hf|].
      exists d, buf. rewrite app_nil_r. auto.
    - pose proof (Forall_inv Hgs) as Hg. pose proof (Forall_inv_tail Hgs) as Hgs'.
      cbn [for_eachO agg_pure omap]. fold (agg_pure st0 c fn gs).
      (* the buffer for this group *)
      assert (Hb1 : exists buf1 n1 st1,
                 run env t (if (s_cap buf <? s_len g)%nat then make_slice 0 (s_len g) (VZ 0) else Ret buf) n st = (buf1, n1, st1) /\
                 keeps st0 st1 /\ store_fresh t n1 st1 /\ keeps st st1 /\
                 in_bounds st1 d /\ lookup st1 (s_base d) <> None /\ seg_of st1 d = seg_of st d /\
                 s_len g <= s_cap buf1 /\ buf_ok st0 st1 d buf1).
      { destruct (s_cap buf <? s_len g) eqn:E.
        - apply Nat.ltb_lt in E. set (lb := (t, n)). set (st1 := update st lb (repeat (VZ 0) (s_len g))).
          assert (Hfr : lookup st lb = None) by (apply Hf; apply Nat.le_refl).
          assert (Hk1 : keeps st st1) by (apply keeps_update; exact Hfr).
          assert (Hne : s_base d <> lb) by (intro E2; rewrite E2 in Hlived; congruence).
          assert (Ed : lookup st1 (s_base d) = lookup st (s_base d)) by (unfold st1; apply lookup_update_other; exact Hne).
          exists (mkSlice lb 0 0 (s_len g)), (S n), st1. split; [reflexivity|].
          split; [eapply keeps_trans; eauto|]. split; [apply fresh_update; exact Hf|]. split; [exact Hk1|].
          split; [exact (in_bounds_same st st1 d Ed Hbd)|]. split; [rewrite Ed; exact Hlived|].
          split; [exact (seg_same st st1 d Ed)|]. split; [cbn [s_cap]; apply Nat.le_refl|].
          right. cbn [s_base s_cap]. split.
          { split; cbn [s_len s_cap s_off s_base]; [lia|]. unfold st1. rewrite read_update_same, repeat_length. lia. }
          split; [lia|]. split; [exact (keeps_none _ _ _ Hk Hfr)|]. split; [unfold st1; rewrite lookup_update_same; discriminate|].
          intro E2. apply Hne. symmetry. exact E2.
        - apply Nat.ltb_ge in E. exists buf, n, st. split; [reflexivity|]. split; [exact Hk|]. split; [exact Hf|].
          split; [apply keeps_refl|]. auto 8. }
      destruct Hb1 as (buf1 & n1 & st1 & Hrunb & Hk1 & Hf1 & Hk01 & Hbd1 & Hlived1 & Hsegd1 & Hcap1 & Hbuf1).
      rewrite run_bindO_unfold. destruct (s_cap buf <? s_len g) eqn:Etest.
      all: try (erewrite run_bind_eq; [|exact Hrunb]).
      all: cbv zeta.
      all: erewrite run_bind_eq; [|apply run_read_zs].
      all: rewrite (seg_keeps_eq _ _ _ Hk1 Hg).
      all: set (b0 := mkSlice (s_base buf1) (s_off buf1) 0 (s_cap buf1)).
      all: assert (Hb0 : in_bounds st1 b0 /\ own_in st0 b0)
        by (destruct Hbuf1 as [->|((Hc1 & Hc2) & _ & Ho & _)];
            [split; [apply nil_in_bounds|left; reflexivity]
            |split; [split; cbn [s_len s_cap s_off s_base b0]; [lia|exact Hc2]|right; exact Ho]]).
      all: destruct Hb0 as [Hb0 Hown0].
      all: destruct (subset_loop t st0 c Hpc (map as_z (seg_of st0 g)) b0 n1 st1 Hk1 Hf1 Hb0 Hown0)
        as (rs & n2 & st2 & Hruns & Hk2 & Hf2 & Hn2 & Hfr2 & Hlen2 & Hne2 & Hres2).
      all: rewrite run_bindO_unfold, Hruns.
      all: destruct (agg_vals_h st0 c (map as_z (seg_of st0 g))) as [vs| |] eqn:Evs; cbn [obind];
        [|contradiction|subst rs; exists Panic, n2, st2; auto].
      all: destruct Hres2 as (sub & -> & Hbsub & Hsegsub & _).
      all: erewrite run_bind_eq; [|apply run_slice_read].
      all: rewrite Hsegsub; unfold b0 at 1; rewrite seg_len0; cbn [app].
      all: cbn [run].
      (* the result array is untouched by the subset loop *)
      all: assert (Hd2 : in_bounds st2 d /\ lookup st2 (s_base d) <> None /\ seg_of st2 d = seg_of st1 d /\
                         (buf1 = nil_slice \/ (in_bounds st2 buf1 /\ lookup st2 (s_base buf1) <> None)))
        by (destruct Hbuf1 as [->|(Hc1 & Hc0 & Ho & Hl & Hne)];
            [ (* nil buffer: the group is empty, nothing ran *)
              assert (Eg : seg_of st0 g = []) by (destruct (seg_of st0 g) eqn:Es; [reflexivity|];
                pose proof (seg_length st0 g Hg) as Hsl; rewrite Es in Hsl; cbn [length s_cap nil_slice] in Hsl, Hcap1; lia);
              rewrite Eg in Hruns; cbn [map for_eachO run] in Hruns; inversion Hruns; subst; auto
            | destruct (live_some st1 (s_base d) Hlived1) as [ad Had];
              assert (Ed : lookup st2 (s_base d) = lookup st1 (s_base d))
                by (rewrite Had; apply Hfr2; [exact Had|cbn [s_base b0]; intro E2; apply Hne; symmetry; exact E2]);
              split; [exact (in_bounds_same st1 st2 d Ed Hbd1)|]; split; [rewrite Ed; exact Hlived1|];
              split; [exact (seg_same st1 st2 d Ed)|]; right;
              split; [apply (in_bounds_len st1 st2 buf1); [intros a Ha; exact (Hlen2 _ a Ha)|exact Hl|exact Hc1]
                     |destruct (live_some st1 (s_base buf1) Hl) as [ab Hab]; destruct (Hlen2 _ ab Hab) as (a' & Ha' & _); rewrite Ha'; discriminate]]).
      all: destruct Hd2 as (Hbd2 & Hlived2 & Hsegd2 & Hbuf2).
      all: destruct (append_own env t st0 (scalar (env fn vs)) d n2 st2 Hk2 Hf2 Hbd2 Hownd Hlived2)
        as (d3 & n3 & st3 & Happ & Hseg3 & Hbd3 & Hk3 & Hf3 & Hn3 & Hownd3 & Hlived3 & Hne3 & Hfr3).
      all: rewrite run_bind; cbn [run]; rewrite Happ.
      all: assert (Hbuf3 : buf_ok st0 st3 d3 buf1)
        by (destruct Hbuf1 as [->|(Hc1 & Hc0 & Ho & Hl & Hne)]; [left; reflexivity|];
            destruct Hbuf2 as [->|(Hb2 & Hl2)]; [left; reflexivity|];
            right; destruct (live_some st2 (s_base buf1) Hl2) as [ab Hab];
            assert (Eb : lookup st3 (s_base buf1) = lookup st2 (s_base buf1)) by (rewrite Hab; apply Hfr3; [exact Hab|exact Hne]);
            split; [exact (in_bounds_same st2 st3 buf1 Eb Hb2)|]; split; [exact Hc0|]; split; [exact Ho|];
            split; [rewrite Eb; exact Hl2|]; apply (Hne3 (s_base buf1) Hl2 Hne)).
      all: destruct (IH d3 buf1 n3 st3 Hgs' Hk3 Hf3 Hbd3 Hownd3 Hlived3 Hbuf3) as (res & n' & st' & Hrun & Hk' & Hf' & Hres).
      all: exists res, n', st'; split; [exact Hrun|]; split; [exact Hk'|]; split; [exact Hf'|].
      all: destruct (agg_pure st0 c fn gs) as [vals| |]; cbn [obind]; auto.
      all: destruct Hres as (d' & buf' & -> & Hbd' & Hseg' & Hown').
      all: exists d', buf'; split; [reflexivity|]; split; [exact Hbd'|]; split; [|exact Hown'].
      all: rewrite Hseg', Hseg3, Hsegd2, Hsegd1, <- app_assoc; reflexivity.
  Qed.
  (* Column.Aggregate: the result array and every buffer are allocations of the call *)
  Theorem col_aggregate_spec t n st c fn rty gs :
    parts_in_bounds st c -> Forall (in_bounds st) gs -> store_fresh t n st ->
    exists res n' st',
      run env t (col_aggregate c fn rty gs) n st = (res, n', st') /\ keeps st st' /\ store_fresh t n' st' /\
      match agg_pure st c fn gs with
      | Ok vals => exists d, res = Ok d /\ in_bounds st' d /\ seg_of st' d = vals
      | Panic => res = Panic
      | Fail => False
      end.
  Proof.
    intros Hpc Hgs Hf.
    set (ld := (t, n)). set (st1 := update st ld (repeat (zero_of rty) (length gs))).
    assert (Hfr : lookup st ld = None) by (apply Hf; apply Nat.le_refl).
    assert (Hk1 : keeps st st1) by (apply keeps_update; exact Hfr).
    destruct (agg_outer_loop t st c fn Hpc gs (mkSlice ld 0 0 (length gs)) nil_slice (S n) st1 Hgs Hk1 (fresh_update _ _ _ _ Hf))
      as (res & n' & st' & Hrun & Hk' & Hf' & Hres).
    { split; cbn [s_len s_cap s_off s_base]; [lia|]. unfold st1. rewrite read_update_same, repeat_length. lia. }
    { exact Hfr. }
    { cbn [s_base]. unfold st1. rewrite lookup_update_same. discriminate. }
    { left. reflexivity. }
    exists (match res with Ok sd => Ok (fst sd) | Fail => Fail | Panic => Panic end), n', st'. split.
    { unfold col_aggregate. erewrite run_bind_eq; [|apply run_make]. fold ld st1.
      rewrite run_bindO_unfold. cbv zeta in Hrun |- *. rewrite Hrun. destruct res as [[d' b']| |]; reflexivity. }
    split; [exact Hk'|]. split; [exact Hf'|].
    destruct (agg_pure st c fn gs) as [vals| |]; auto.
    - destruct Hres as (d' & buf' & -> & Hb' & Hseg' & _). exists d'. rewrite seg_len0 in Hseg'. auto.
    - subst res. reflexivity.
  Qed.

  (* Column.Subset(index): fresh data (string: fresh pointers and a fresh copy of the byte array; enum: the value
     table is shared) *)
  Lemma subset_cells_run t c : forall ixs acc n st,
    run env t (for_eachO ixs (fun i acc => let? x := col_cell c i in Ret (Ok (acc ++ [scalar (hd VNil x)]))) acc) n st =
    (match agg_vals_h st c ixs with Ok vs => Ok (acc ++ vs) | Fail => Fail | Panic => Panic end, n, st).
  Proof.
    induction ixs as [|i ixs IH]; intros acc n st.
    - cbn [for_eachO agg_vals_h omap run]. rewrite app_nil_r. reflexivity.
    - cbn [for_eachO agg_vals_h omap]. fold (agg_vals_h st c ixs).
      rewrite run_bindO_unfold. rewrite run_bindO_unfold, run_col_cell.
      destruct (cell_val st c i) as [x| |]; cbn [obind run]; try reflexivity.
      rewrite IH. destruct (agg_vals_h st c ixs); cbn [obind]; try reflexivity. rewrite <- app_assoc. reflexivity.
  Qed.

  Theorem col_subset_spec t n st c ix :
    parts_in_bounds st c -> in_bounds st ix -> store_fresh t n st ->
    exists res n' st',
      run env t (col_subset c ix) n st = (res, n', st') /\ keeps st st' /\ store_fresh t n' st' /\
      match agg_vals_h st c (map as_z (seg_of st ix)) with
      | Ok cells =>
          exists c', res = Ok c' /\ c_name c' = c_name c /\ c_pos c' = c_pos c /\ c_ty c' = c_ty c /\
                     Forall (in_bounds st') (c_parts c') /\
                     map (seg_of st') (c_parts c') =
                     cells :: match c_parts c with
                              | [_; p2] => [if (c_ty c =? ty_string)%N then map san_z (seg_of st p2) else seg_of st p2]
                              | _ => []
                              end
      | Panic => res = Panic
      | Fail => False
      end.
  Proof.
    intros Hpc Hix Hf. unfold col_subset.
    erewrite run_bind_eq; [|apply run_read_zs].
    rewrite run_bindO_unfold, subset_cells_run.
    destruct (agg_vals_h st c (map as_z (seg_of st ix))) as [cells| |] eqn:Ec; cbn [app].
    2:{ exfalso. clear - Ec. revert Ec. generalize (map as_z (seg_of st ix)). induction l as [|i l IH]; [discriminate|].
        cbn [agg_vals_h omap]. fold (agg_vals_h st c l). pose proof (cell_val_not_fail st c i) as H.
        destruct (cell_val st c i); cbn [obind]; try congruence. destruct (agg_vals_h st c l); cbn [obind]; try discriminate.
        intros _. apply IH. reflexivity. }
    2:{ exists Panic, n, st. split; [reflexivity|]. split; [apply keeps_refl|]. split; [exact Hf|reflexivity]. }
    set (ld := (t, n)). set (st1 := update st ld cells).
    assert (Hfr : lookup st ld = None) by (apply Hf; apply Nat.le_refl).
    assert (Hk1 : keeps st st1) by (apply keeps_update; exact Hfr).
    assert (Hf1 : store_fresh t (S n) st1) by (apply fresh_update; exact Hf).
    assert (Hrd : read_loc st1 ld = cells) by (unfold st1; apply read_update_same).
    assert (Hbd : in_bounds st1 (mkSlice ld 0 (length cells) (length cells))) by (apply full_in_bounds; rewrite Hrd; reflexivity).
    assert (Hsd : seg_of st1 (mkSlice ld 0 (length cells) (length cells)) = cells).
    { rewrite (full_seg st1 ld _ (f_equal (@length _) Hrd)). exact Hrd. }
    erewrite run_bind_eq; [|apply run_slice_lit]. fold ld st1.
    unfold parts_in_bounds in Hpc.
    destruct (c_parts c) as [|p1 [|p2 [|p3 pr]]] eqn:Ep.
    - eexists _, _, _. split; [reflexivity|]. split; [exact Hk1|]. split; [exact Hf1|].
      eexists. split; [reflexivity|]. cbn [c_name c_pos c_ty c_parts map]. rewrite Hsd. auto 8.
    - eexists _, _, _. split; [reflexivity|]. split; [exact Hk1|]. split; [exact Hf1|].
      eexists. split; [reflexivity|]. cbn [c_name c_pos c_ty c_parts map]. rewrite Hsd. auto 8.
    - pose proof (Forall_inv (Forall_inv_tail Hpc)) as Hp2.
      destruct (c_ty c =? ty_string)%N eqn:Ety.
      + erewrite run_bind_eq; [|apply run_slice_read].
        erewrite run_bind_eq; [|apply run_slice_lit].
        set (lb := (t, S n)). set (blob := map san_z (seg_of st1 p2)). set (st2 := update st1 lb blob).
        assert (Hfr1 : lookup st1 lb = None) by (apply Hf1; apply Nat.le_refl).
        assert (Hk2 : keeps st1 st2) by (apply keeps_update; exact Hfr1).
        assert (Hrb : read_loc st2 lb = blob) by (unfold st2; apply read_update_same).
        eexists _, _, _. split; [reflexivity|]. fold lb st2.
        split; [exact (keeps_trans _ _ _ Hk1 Hk2)|]. split; [apply fresh_update; exact Hf1|].
        eexists. split; [reflexivity|]. cbn [c_name c_pos c_ty c_parts map]. split; [reflexivity|]. split; [reflexivity|].
        split; [reflexivity|]. split.
        * constructor; [exact (in_bounds_keeps _ _ _ Hk2 Hbd)|]. constructor; [|constructor].
          apply full_in_bounds. rewrite Hrb. reflexivity.
        * rewrite (seg_keeps_eq _ _ _ Hk2 Hbd), Hsd.
          rewrite (full_seg st2 lb _ (f_equal (@length _) Hrb)), Hrb. unfold blob.
          rewrite (seg_keeps_eq _ _ _ Hk1 Hp2). reflexivity.
      + eexists _, _, _. split; [reflexivity|]. split; [exact Hk1|]. split; [exact Hf1|].
        eexists. split; [reflexivity|]. cbn [c_name c_pos c_ty c_parts map]. split; [reflexivity|]. split; [reflexivity|].
        split; [reflexivity|]. split.
        * constructor; [exact Hbd|]. constructor; [exact (in_bounds_keeps _ _ _ Hk1 Hp2)|constructor].
        * rewrite Hsd, (seg_keeps_eq _ _ _ Hk1 Hp2). reflexivity.
    - eexists _, _, _. split; [reflexivity|]. split; [exact Hk1|]. split; [exact Hf1|].
      eexists. split; [reflexivity|]. cbn [c_name c_pos c_ty c_parts map]. rewrite Hsd. auto 8.
  Qed.
End AggLoops.

(* ==================================================================== 7. Eval: the sequence of operations it executes *)
(* Expression execution (eval.go) is a sequence of single-instruction Applies on temporary columns, Drops of
   temporaries and error exits, followed by Copy(dst, col) and possibly Drop(col): the heap program op_eval runs such
   a sequence.  Model/Eval.v runs the same vocabulary (Ops.apply with one instruction, Ops.drop, with_err, Ops.copy)
   while it walks the expression.  Here: op_eval of a step list refines the fold of the corresponding L0 steps.  (That
   Eval.eval of an expression IS such a fold - the temporary names depend on the intermediate frames - is not shown.) *)
Inductive l0step := L0Apply (i : Ops.instr) | L0Drop (names : list bytes) | L0Err.

Definition l0_run_step (ut : Ops.upper_table) (f : Frame.frame) (s : l0step) : outcome Frame.frame :=
  match s with
  | L0Apply i => Ops.apply ut f [i]
  | L0Drop names => Ok (Ops.drop f names)
  | L0Err => Ok (if Frame.ferr f then f else Frame.with_err f)
  end.

Definition l0_eval_steps (ut : Ops.upper_table) (f : Frame.frame) (steps : list l0step) (dst colname : bytes) (drop_tmp : bool)
  : outcome Frame.frame :=
  if Frame.ferr f then Ok f
  else do r <- Filter.ofold (l0_run_step ut) steps f;
       let r2 := Ops.copy r dst colname in
       Ok (if drop_tmp then Ops.drop r2 [colname] else r2).

Section EvalSteps.
  Variable env : fnid -> list val -> val.
  Variable dec : decoder.
  Variable ut : Ops.upper_table.
  Variable SL : store -> qframe -> Frame.frame -> instr -> Ops.instr -> Prop.
  Hypothesis Hstep : step_ok env dec ut SL.

  Definition h_run_step (st : estep) (cur : qframe) : prog (outcome qframe) :=
    match st with
    | EApply a => op_apply [a] cur
    | EDrop names => op_drop names cur
    | EErr => Ret (Ok (if q_err cur then cur else with_err cur))
    end.

  (* the steps are linked one after the other, each on the state the previous one returned *)
  Inductive esteps_link (t : nat) : nat -> store -> qframe -> Frame.frame -> list estep -> list l0step -> Prop :=
  | EL_nil n st qf f : esteps_link t n st qf f [] []
  | EL_apply n st qf f a i hs ls :
      (q_err qf = false -> SL st qf f a i) ->
      (forall qf' n' st' f', run env t (op_apply [a] qf) n st = (Ok qf', n', st') ->
                             Ops.apply ut f [i] = Ok f' -> abs1 dec st' qf' = Some f' ->
                             esteps_link t n' st' qf' f' hs ls) ->
      esteps_link t n st qf f (EApply a :: hs) (L0Apply i :: ls)
  | EL_drop n st qf f names hs ls :
      (forall qf' n' st', run env t (op_drop names qf) n st = (Ok qf', n', st') ->
                          abs1 dec st' qf' = Some (Ops.drop f names) ->
                          esteps_link t n' st' qf' (Ops.drop f names) hs ls) ->
      esteps_link t n st qf f (EDrop names :: hs) (L0Drop names :: ls)
  | EL_err n st qf f hs ls :
      esteps_link t n st (if q_err qf then qf else with_err qf) (if Frame.ferr f then f else Frame.with_err f) hs ls ->
      esteps_link t n st qf f (EErr :: hs) (L0Err :: ls).

  Lemma esteps_refine t hs ls : forall n st qf f,
    ref_ok dec st qf -> abs1 dec st qf = Some f -> store_fresh t n st ->
    esteps_link t n st qf f hs ls ->
    exists res n' st',
      run env t (for_eachO hs h_run_step qf) n st = (res, n', st') /\
      step_post dec (Filter.ofold (l0_run_step ut) ls f) t st res n' st'.
  Proof.
    intros n st qf f Hok Habs Hf Hl. revert Hok Habs Hf.
    induction Hl as [n st qf f|n st qf f a i hs ls Hsl Hrest IH|n st qf f names hs ls Hrest IH|n st qf f hs ls Hrest IH];
      intros Hok Habs Hf.
    - exists (Ok qf), n, st. split; [reflexivity|]. split; [apply keeps_refl|]. split; [exact Hf|]. split; [exact Hok|].
      exists f. split; [reflexivity|exact Habs].
    - cbn [for_eachO h_run_step]. rewrite ofold_cons. cbn [l0_run_step].
      assert (H1 : exists r1 n1 st1, run env t (op_apply [a] qf) n st = (r1, n1, st1) /\
                                     step_post dec (Ops.apply ut f [i]) t st r1 n1 st1).
      { destruct (q_err qf) eqn:Eerr.
        - exists (Ok qf), n, st. split; [apply op_apply_err; exact Eerr|]. split; [apply keeps_refl|]. split; [exact Hf|].
          split; [exact Hok|]. exists f. split; [|exact Habs]. apply l0_apply_err.
          destruct (abs1_inv _ _ _ _ Habs) as (_ & _ & He). rewrite He. exact Eerr.
        - destruct (Hstep st qf f a i t n Hok Habs Hf Eerr (Hsl eq_refl)) as (r1 & n1 & st1 & Hrun1 & Hp1).
          exists r1, n1, st1. split; [rewrite op_apply_single; exact Hrun1|].
          unfold Ops.apply. rewrite ofold_cons. unfold Filter.ofold. cbn [fold_left].
          destruct Hp1 as (A & B & C). split; [exact A|]. split; [exact B|].
          destruct r1 as [q1| |]; auto.
          + destruct C as (C1 & f1 & C2 & C3). split; [exact C1|]. exists f1. rewrite C2. auto.
          + rewrite C. reflexivity. }
      destruct H1 as (r1 & n1 & st1 & Hrun1 & Hk1 & Hf1 & Hr1).
      rewrite run_bindO_unfold, Hrun1.
      destruct r1 as [q1| |].
      + destruct Hr1 as (Hok1 & f1 & Hl1 & Habs1). rewrite Hl1. cbn [obind].
        destruct (IH q1 n1 st1 f1 Hrun1 Hl1 Habs1 Hok1 Habs1 Hf1) as (res & n' & st' & Hrun & Hk & Hf' & Hres).
        exists res, n', st'. split; [exact Hrun|]. split; [eapply keeps_trans; eauto|]. split; [exact Hf'|exact Hres].
      + contradiction.
      + exists Panic, n1, st1. split; [reflexivity|]. split; [exact Hk1|]. split; [exact Hf1|]. rewrite Hr1. reflexivity.
    - cbn [for_eachO h_run_step]. rewrite ofold_cons. cbn [l0_run_step obind].
      destruct (refines_drop env dec t n st qf f names Hok Habs Hf) as (q1 & n1 & st1 & Hrun1 & Hk1 & Hf1 & Hok1 & Habs1).
      rewrite run_bindO_unfold, Hrun1.
      destruct (IH q1 n1 st1 Hrun1 Habs1 Hok1 Habs1 Hf1) as (res & n' & st' & Hrun & Hk & Hf' & Hres).
      exists res, n', st'. split; [exact Hrun|]. split; [eapply keeps_trans; eauto|]. split; [exact Hf'|exact Hres].
    - cbn [for_eachO h_run_step]. rewrite ofold_cons. cbn [l0_run_step obind].
      rewrite run_bindO_unfold. cbn [run].
      destruct (abs1_inv _ _ _ _ Habs) as (_ & _ & He).
      apply IH; [| |exact Hf].
      + destruct (q_err qf); [exact Hok|apply with_err_ok; exact Hok].
      + rewrite He. destruct (q_err qf); [exact Habs|apply with_err_abs; exact Habs].
  Qed.

  Theorem refines_eval_steps t n st qf f steps ls name_ok dst colname drop_tmp :
    ref_ok dec st qf -> abs1 dec st qf = Some f -> store_fresh t n st ->
    name_ok = Ops.check_name dst ->
    esteps_link t n st qf f steps ls ->
    exists res n' st',
      run env t (op_eval steps name_ok dst colname drop_tmp qf) n st = (res, n', st') /\
      step_post dec (l0_eval_steps ut f ls dst colname drop_tmp) t st res n' st'.
  Proof.
    intros Hok Habs Hf Hname Hl. destruct (abs1_inv _ _ _ _ Habs) as (_ & _ & He).
    unfold op_eval, l0_eval_steps. rewrite He.
    destruct (q_err qf) eqn:Eerr.
    { exists (Ok qf), n, st. split; [reflexivity|]. split; [apply keeps_refl|]. split; [exact Hf|]. split; [exact Hok|].
      exists f. auto. }
    destruct (esteps_refine t steps ls n st qf f Hok Habs Hf Hl) as (r1 & n1 & st1 & Hrun1 & Hk1 & Hf1 & Hr1).
    fold h_run_step in Hrun1.
    rewrite run_bindO_unfold. change (for_eachO steps _ qf) with (for_eachO steps h_run_step qf). rewrite Hrun1.
    destruct r1 as [q1| |].
    - destruct Hr1 as (Hok1 & f1 & Hl1 & Habs1). rewrite Hl1. cbn [obind].
      destruct (refines_copy env dec t n1 st1 q1 f1 name_ok dst colname Hok1 Habs1 Hf1 Hname)
        as (q2 & n2 & st2 & Hrun2 & Hk2 & Hf2 & Hok2 & Habs2).
      rewrite run_bindO_unfold, Hrun2.
      destruct drop_tmp.
      + destruct (refines_drop env dec t n2 st2 q2 _ [colname] Hok2 Habs2 Hf2) as (q3 & n3 & st3 & Hrun3 & Hk3 & Hf3 & Hok3 & Habs3).
        exists (Ok q3), n3, st3. split; [exact Hrun3|].
        split; [eapply keeps_trans; [exact Hk1|eapply keeps_trans; eauto]|]. split; [exact Hf3|]. split; [exact Hok3|].
        eexists. split; [reflexivity|exact Habs3].
      + exists (Ok q2), n2, st2. split; [reflexivity|]. split; [eapply keeps_trans; eauto|]. split; [exact Hf2|]. split; [exact Hok2|].
        eexists. split; [reflexivity|exact Habs2].
    - contradiction.
    - exists Panic, n1, st1. split; [reflexivity|]. split; [exact Hk1|]. split; [exact Hf1|]. rewrite Hr1. reflexivity.
  Qed.
End EvalSteps.

(* ==================================================================== 7b. Eval.eval is such a sequence *)
(* [compile] is Model/Eval.v's [execute] instrumented with the L0 steps it performs; compile_ok: whenever it succeeds
   it returns what execute returns, and folding the steps over the frame gives the same frame. *)
From QF Require Model.Eval.

Lemma ofold_app {A B} (g : B -> A -> outcome B) (a b : list A) x :
  Filter.ofold g (a ++ b) x = do y <- Filter.ofold g a x; Filter.ofold g b y.
Proof.
  revert x. induction a as [|h a IH]; intro x; [reflexivity|].
  cbn [app]. rewrite !ofold_cons. destruct (g x h) as [y| |]; cbn [obind]; [apply IH|reflexivity|reflexivity].
Qed.

Section Compile.
  Variable ut : Ops.upper_table.
  Variable cx : Eval.ctx.

  Definition cres := (list l0step * Frame.frame * bytes)%type.

  Definition c_const (f : Frame.frame) (v : Frame.cell) : outcome cres :=
    if Frame.ferr f then Ok ([], f, [])
    else do name <- Eval.temp_col_name f Eval.p_const;
         let i := Ops.mkInstr (Ops.F0Const v) name [] [] in
         do r <- Ops.apply ut f [i];
         Ok ([L0Apply i], r, name).

  Definition c_getfn (two : bool) (f : Frame.frame) (col op : bytes) : list l0step * Frame.frame * option Ops.afn :=
    if Frame.ferr f then ([], f, None)
    else match Frame.lookup_col f col with
         | None => ([L0Err], Frame.with_err f, None)
         | Some c => match Eval.get_func cx (Frame.col_ftype c) two op with
                     | Some fn => ([], f, Some fn)
                     | None => ([L0Err], Frame.with_err f, None)
                     end
         end.

  Definition c_unary (f : Frame.frame) (op col : bytes) : outcome cres :=
    let '(s0, f', fn) := c_getfn false f col op in
    if Frame.ferr f' then Ok (s0, f', [])
    else match fn with
         | None => Panic
         | Some g =>
             do name <- Eval.temp_col_name f' Eval.p_unary;
             let i := Ops.mkInstr g name col [] in
             do r <- Ops.apply ut f' [i];
             Ok (s0 ++ [L0Apply i], r, name)
         end.

  Definition c_colcol (f : Frame.frame) (op c1 c2 : bytes) : outcome cres :=
    let '(s0, f', fn) := c_getfn true f c1 op in
    if Frame.ferr f' then Ok (s0, f', [])
    else match fn with
         | None => Panic
         | Some g =>
             do name <- Eval.temp_col_name f' Eval.p_colcol;
             let i := Ops.mkInstr g name c1 c2 in
             do r <- Ops.apply ut f' [i];
             Ok (s0 ++ [L0Apply i], r, name)
         end.

  Fixpoint compile (e : Eval.expr) (f : Frame.frame) {struct e} : outcome cres :=
    match e with
    | Eval.XCol n => Ok ([], f, n)
    | Eval.XConst v => c_const f v
    | Eval.XUnary op col => c_unary f op col
    | Eval.XColConst op col v constFirst =>
        if Frame.ferr f then Ok ([], f, [])
        else
          do rc <- c_const f v;
          let '(s1, r, cname) := rc in
          do rr <- (if constFirst then c_colcol r op cname col else c_colcol r op col cname);
          let '(s2, r', name) := rr in
          Ok (s1 ++ s2 ++ [L0Drop [cname]], Ops.drop r' [cname], name)
    | Eval.XColCol op c1 c2 => c_colcol f op c1 c2
    | Eval.XExpr1 op e1 =>
        do r1 <- compile e1 f;
        let '(s1, r, tmp) := r1 in
        do rr <- c_unary r op tmp;
        let '(s2, r', name) := rr in
        Ok (if Frame.contains f tmp then (s1 ++ s2, r', name) else (s1 ++ s2 ++ [L0Drop [tmp]], Ops.drop r' [tmp], name))
    | Eval.XExpr2 op l r =>
        do rl <- compile l f;
        let '(sl, fl, lname) := rl in
        do rr <- compile r fl;
        let '(sr, fr, rname) := rr in
        do rc <- c_colcol fr op lname rname;
        let '(sc, f', name) := rc in
        Ok (sl ++ sr ++ sc ++ [L0Drop (filter (fun n => negb (Frame.contains f n)) [lname; rname])],
            Eval.drop_unless_original f f' [lname; rname], name)
    | Eval.XError => if Frame.ferr f then Ok ([], f, []) else Ok ([L0Err], Frame.with_err f, [])
    end.

  Notation fold := (Filter.ofold (l0_run_step ut)).

  Lemma fold_one s f : fold [s] f = l0_run_step ut f s.
  Proof. unfold Filter.ofold. cbn [fold_left obind]. destruct (l0_run_step ut f s); reflexivity. Qed.

  Lemma c_const_ok f v s r name :
    c_const f v = Ok (s, r, name) -> Eval.exec_const ut f v = Ok (r, name) /\ fold s f = Ok r.
  Proof.
    unfold c_const, Eval.exec_const. destruct (Frame.ferr f); [intro H; inversion H; subst; auto|].
    destruct (Eval.temp_col_name f Eval.p_const) as [nm| |]; cbn [obind]; try discriminate.
    destruct (Ops.apply ut f [Ops.mkInstr (Ops.F0Const v) nm [] []]) as [r0| |] eqn:E; cbn [obind]; try discriminate.
    intro H. inversion H; subst. split; [reflexivity|]. rewrite fold_one. exact E.
  Qed.

  Lemma c_getfn_ok two f col op :
    let '(s0, f', fn) := c_getfn two f col op in
    Eval.get_fn cx two f col op = (f', fn) /\ fold s0 f = Ok f'.
  Proof.
    unfold c_getfn, Eval.get_fn. destruct (Frame.ferr f) eqn:Ef; [auto|].
    destruct (Frame.lookup_col f col) as [c|].
    - destruct (Eval.get_func cx (Frame.col_ftype c) two op); [auto|]. split; [reflexivity|].
      rewrite fold_one. cbn [l0_run_step]. rewrite Ef. reflexivity.
    - split; [reflexivity|]. rewrite fold_one. cbn [l0_run_step]. rewrite Ef. reflexivity.
  Qed.

  Lemma c_unary_ok f op col s r name :
    c_unary f op col = Ok (s, r, name) -> Eval.exec_unary ut cx f op col = Ok (r, name) /\ fold s f = Ok r.
  Proof.
    unfold c_unary, Eval.exec_unary. pose proof (c_getfn_ok false f col op) as Hg.
    destruct (c_getfn false f col op) as [[s0 f'] fn]. destruct Hg as [Eg Hf0]. rewrite Eg.
    destruct (Frame.ferr f'); [intro H; inversion H; subst; auto|].
    destruct fn as [g|]; [|discriminate].
    destruct (Eval.temp_col_name f' Eval.p_unary) as [nm| |]; cbn [obind]; try discriminate.
    destruct (Ops.apply ut f' [Ops.mkInstr g nm col []]) as [r0| |] eqn:E; cbn [obind]; try discriminate.
    intro H. inversion H; subst. split; [reflexivity|]. rewrite ofold_app, Hf0. cbn [obind]. rewrite fold_one. exact E.
  Qed.

  Lemma c_colcol_ok f op c1 c2 s r name :
    c_colcol f op c1 c2 = Ok (s, r, name) -> Eval.exec_colcol ut cx f op c1 c2 = Ok (r, name) /\ fold s f = Ok r.
  Proof.
    unfold c_colcol, Eval.exec_colcol. pose proof (c_getfn_ok true f c1 op) as Hg.
    destruct (c_getfn true f c1 op) as [[s0 f'] fn]. destruct Hg as [Eg Hf0]. rewrite Eg.
    destruct (Frame.ferr f'); [intro H; inversion H; subst; auto|].
    destruct fn as [g|]; [|discriminate].
    destruct (Eval.temp_col_name f' Eval.p_colcol) as [nm| |]; cbn [obind]; try discriminate.
    destruct (Ops.apply ut f' [Ops.mkInstr g nm c1 c2]) as [r0| |] eqn:E; cbn [obind]; try discriminate.
    intro H. inversion H; subst. split; [reflexivity|]. rewrite ofold_app, Hf0. cbn [obind]. rewrite fold_one. exact E.
  Qed.

  Lemma compile_ok e : forall f s r name,
    compile e f = Ok (s, r, name) -> Eval.execute ut cx e f = Ok (r, name) /\ fold s f = Ok r.
  Proof.
    induction e as [n|v|op col|op col v cf|op c1 c2|op e1 IH1|op l IHl r0 IHr|]; intros f s r name; cbn [compile Eval.execute].
    - intro H. inversion H; subst. auto.
    - apply c_const_ok.
    - apply c_unary_ok.
    - destruct (Frame.ferr f); [intro H; inversion H; subst; auto|].
      destruct (c_const f v) as [[[s1 r1] cname]| |] eqn:E1; cbn [obind]; try discriminate.
      destruct (c_const_ok _ _ _ _ _ E1) as [X1 F1]. rewrite X1. cbn [obind].
      destruct cf.
      + destruct (c_colcol r1 op cname col) as [[[s2 r2] nm]| |] eqn:E2; cbn [obind]; try discriminate.
        destruct (c_colcol_ok _ _ _ _ _ _ _ E2) as [X2 F2]. rewrite X2. cbn [obind].
        intro H. inversion H; subst. split; [reflexivity|].
        rewrite ofold_app, F1. cbn [obind]. rewrite ofold_app, F2. cbn [obind]. rewrite fold_one. reflexivity.
      + destruct (c_colcol r1 op col cname) as [[[s2 r2] nm]| |] eqn:E2; cbn [obind]; try discriminate.
        destruct (c_colcol_ok _ _ _ _ _ _ _ E2) as [X2 F2]. rewrite X2. cbn [obind].
        intro H. inversion H; subst. split; [reflexivity|].
        rewrite ofold_app, F1. cbn [obind]. rewrite ofold_app, F2. cbn [obind]. rewrite fold_one. reflexivity.
    - apply c_colcol_ok.
    - destruct (compile e1 f) as [[[s1 r1] tmp]| |] eqn:E1; cbn [obind]; try discriminate.
      destruct (IH1 _ _ _ _ E1) as [X1 F1]. rewrite X1. cbn [obind].
      destruct (c_unary r1 op tmp) as [[[s2 r2] nm]| |] eqn:E2; cbn [obind]; try discriminate.
      destruct (c_unary_ok _ _ _ _ _ _ E2) as [X2 F2]. rewrite X2. cbn [obind].
      destruct (Frame.contains f tmp); intro H; inversion H; subst; (split; [reflexivity|]).
      + rewrite ofold_app, F1. cbn [obind]. exact F2.
      + rewrite ofold_app, F1. cbn [obind]. rewrite ofold_app, F2. cbn [obind]. rewrite fold_one. reflexivity.
    - destruct (compile l f) as [[[sl fl] lname]| |] eqn:El; cbn [obind]; try discriminate.
      destruct (IHl _ _ _ _ El) as [Xl Fl]. rewrite Xl. cbn [obind].
      destruct (compile r0 fl) as [[[sr fr] rname]| |] eqn:Er; cbn [obind]; try discriminate.
      destruct (IHr _ _ _ _ Er) as [Xr Fr]. rewrite Xr. cbn [obind].
      destruct (c_colcol fr op lname rname) as [[[sc f'] nm]| |] eqn:Ec; cbn [obind]; try discriminate.
      destruct (c_colcol_ok _ _ _ _ _ _ _ Ec) as [Xc Fc]. rewrite Xc. cbn [obind].
      intro H. inversion H; subst. split; [reflexivity|].
      rewrite ofold_app, Fl. cbn [obind]. rewrite ofold_app, Fr. cbn [obind]. rewrite ofold_app, Fc. cbn [obind].
      rewrite fold_one. reflexivity.
    - destruct (Frame.ferr f) eqn:Ef; intro H; inversion H; subst; (split; [reflexivity|]); [reflexivity|].
      rewrite fold_one. cbn [l0_run_step]. rewrite Ef. reflexivity.
  Qed.

  (* QFrame.Eval of an expression = the fold of its steps, then Copy and possibly Drop *)
  Theorem eval_as_steps f dst e s r name :
    compile e f = Ok (s, r, name) ->
    Eval.eval ut cx f dst e =
    l0_eval_steps ut f s dst name (negb (bytes_eqb name dst) && negb (Frame.contains f name)).
  Proof.
    intro H. destruct (compile_ok e f s r name H) as [X F].
    unfold Eval.eval, l0_eval_steps. destruct (Frame.ferr f); [reflexivity|].
    rewrite X, F. reflexivity.
  Qed.
End Compile.

(* QFrame.Eval end to end: the heap program for the steps the expression executes refines Model/Eval.v's eval *)
Section EvalRefine.
  Variable env : fnid -> list val -> val.
  Variable dec : decoder.
  Variable ut : Ops.upper_table.
  Variable cx : Eval.ctx.
  Variable SL : store -> qframe -> Frame.frame -> instr -> Ops.instr -> Prop.
  Hypothesis Hstep : step_ok env dec ut SL.

  Theorem refines_eval t n st qf f e dst hs ls r name name_ok :
    ref_ok dec st qf -> abs1 dec st qf = Some f -> store_fresh t n st ->
    compile ut cx e f = Ok (ls, r, name) ->
    name_ok = Ops.check_name dst ->
    esteps_link env dec ut SL t n st qf f hs ls ->
    exists res n' st',
      run env t (op_eval hs name_ok dst name (negb (bytes_eqb name dst) && negb (Frame.contains f name)) qf) n st = (res, n', st') /\
      step_post dec (Eval.eval ut cx f dst e) t st res n' st'.
  Proof.
    intros Hok Habs Hf Hc Hname Hl. rewrite (eval_as_steps ut cx f dst e ls r name Hc).
    apply (refines_eval_steps env dec ut SL Hstep t n st qf f hs ls name_ok dst name _ Hok Habs Hf Hname Hl).
  Qed.
End EvalRefine.

(* ==================================================================== non-vacuity *)
From QF Require Import Proofs.ConcProofs.

Module ChainExamples.
  Import HeapExamples RefineExamples ApplyExamples.
  Definition nB : bytes := [66%N].
  Definition nC : bytes := [67%N].
  (* B := fn(A); C := fn(B): the second instruction reads the column the first one made *)
  Definition aB : instr := mkInstr (FnCall 1%N 0%N) nC (Some nB) None true.
  Definition tblB : list (Frame.cell * Frame.cell) :=
    [(Frame.CInt 31, Frame.CInt 32); (Frame.CInt 11, Frame.CInt 12); (Frame.CInt 6, Frame.CInt 7); (Frame.CInt 21, Frame.CInt 22)].
  Definition i1 : Ops.instr := Ops.mkInstr (Ops.F1 Frame.TInt Frame.TInt tblA) nB nA [].
  Definition i2 : Ops.instr := Ops.mkInstr (Ops.F1 Frame.TInt Frame.TInt tblB) nC nB [].
  (* an instruction on a column that does not exist: the error frame passes through the rest of the chain *)
  Definition nZ : bytes := [90%N].
  Definition aZ : instr := mkInstr (FnCall 1%N 0%N) nC (Some nZ) None true.
  Definition iZ : Ops.instr := Ops.mkInstr (Ops.F1 Frame.TInt Frame.TInt tblA) nC nZ [].

  Example chain_link_12 : chain_link env0 dec_std [] (instr_link env0) 1 0 st0 qf0 f0 [a1; aB] [i1; i2].
  Proof.
    apply CL_cons.
    - apply (IL_call1 env0 st0 qf0 f0 a1 nA 1%N Frame.TInt Frame.TInt tblA); try reflexivity; try discriminate.
      apply apply1_premises.
    - intros qf' n' st' f' Hrun Hl0 Habs. vm_compute in Hrun. inversion Hrun; subst qf' n' st'. clear Hrun.
      vm_compute in Hl0. inversion Hl0; subst f'. clear Hl0 Habs.
      apply CL_cons.
      + apply (IL_call1 env0 _ _ _ aB nB 1%N Frame.TInt Frame.TInt tblB); try reflexivity; try discriminate.
        intros c d Hc Hd. vm_compute in Hc, Hd. inversion Hc; inversion Hd; subst. split; [reflexivity|].
        intros p Hin cell Hcell. simpl in Hin.
        destruct Hin as [<-|[<-|[<-|[<-|[]]]]]; vm_compute in Hcell; inversion Hcell; subst; eexists; split; reflexivity.
      + intros. apply CL_nil.
  Qed.

  Example chain_link_err : chain_link env0 dec_std [] (instr_link env0) 1 0 st0 qf0 f0 [aZ; a1; aB] [iZ; i1; i2].
  Proof.
    apply CL_cons.
    - apply (IL_call1 env0 st0 qf0 f0 aZ nZ 1%N Frame.TInt Frame.TInt tblA); try reflexivity; try discriminate.
    - intros qf' n' st' f' Hrun _ _. vm_compute in Hrun. inversion Hrun; subst. apply CL_err. reflexivity.
  Qed.

  Example chain_example :
    (let '(r, _, st') := run env0 1 (op_apply [a1; aB] qf0) 0 st0 in
     match r with Ok q => option_map Ok (abs1 dec_std st' q) | _ => None end) = Some (Ops.apply [] f0 [i1; i2]) /\
    Ops.apply [] f0 [i1; i2]
    = Ok (Frame.mkFrame [(nA, dA); (nB, Frame.ICol [31; 11; 6; 21]%Z); (nC, Frame.ICol [32; 12; 7; 22]%Z)] [0; 1; 3; 2] false).
  Proof. split; vm_compute; reflexivity. Qed.

  Example chain_err_example :
    (let '(r, _, st') := run env0 1 (op_apply [aZ; a1; aB] qf0) 0 st0 in
     match r with Ok q => option_map Ok (abs1 dec_std st' q) | _ => None end) = Some (Ops.apply [] f0 [iZ; i1; i2]) /\
    Ops.apply [] f0 [iZ; i1; i2] = Ok (Frame.with_err f0).
  Proof. split; vm_compute; reflexivity. Qed.

  (* FilteredApply (Filter hc1, then the two instructions on the surviving rows [1; 3; 2]) *)
  Definition tblB' : list (Frame.cell * Frame.cell) :=
    [(Frame.CInt 0, Frame.CInt 1); (Frame.CInt 11, Frame.CInt 12); (Frame.CInt 6, Frame.CInt 7); (Frame.CInt 21, Frame.CInt 22)].
  Definition i2' : Ops.instr := Ops.mkInstr (Ops.F1 Frame.TInt Frame.TInt tblB') nC nB [].

  Example filtered_chain_premise :
    forall fq ff n1 st1, run env0 1 (op_filter ClauseExamples.hc1 qf0) 0 st0 = (Ok fq, n1, st1) ->
      keeps st0 st1 -> store_fresh 1 n1 st1 -> ref_ok dec_std st1 fq ->
      Filter.frame_filter [] f0 ClauseExamples.c1 = Ok ff -> abs1 dec_std st1 fq = Some ff -> q_err fq = false ->
      chain_link env0 dec_std [] (instr_link env0) 1 n1 st1 (with_index qf0 (q_idx fq)) (Frame.with_ix f0 (Frame.ix ff))
                 [a1; aB] [i1; i2'].
  Proof.
    intros fq ff n1 st1 Hrun _ _ _ Hff _ _. vm_compute in Hff. inversion Hff; subst ff. clear Hff.
    vm_compute in Hrun. inversion Hrun; subst fq n1 st1. clear Hrun.
    apply CL_cons.
    - apply (IL_call1 env0 _ _ _ a1 nA 1%N Frame.TInt Frame.TInt tblA); try reflexivity; try discriminate.
      intros c d Hc Hd. vm_compute in Hc, Hd. inversion Hc; inversion Hd; subst. split; [reflexivity|].
      intros p Hin cell Hcell. simpl in Hin.
      destruct Hin as [<-|[<-|[<-|[]]]]; vm_compute in Hcell; inversion Hcell; subst; eexists; split; reflexivity.
    - intros qf' n' st' f' Hrun Hl0 Habs. vm_compute in Hrun. inversion Hrun; subst qf' n' st'. clear Hrun.
      vm_compute in Hl0. inversion Hl0; subst f'. clear Hl0 Habs.
      apply CL_cons.
      + apply (IL_call1 env0 _ _ _ aB nB 1%N Frame.TInt Frame.TInt tblB'); try reflexivity; try discriminate.
        intros c d Hc Hd. vm_compute in Hc, Hd. inversion Hc; inversion Hd; subst. split; [reflexivity|].
        intros p Hin cell Hcell. simpl in Hin.
        destruct Hin as [<-|[<-|[<-|[]]]]; vm_compute in Hcell; inversion Hcell; subst; eexists; split; reflexivity.
      + intros. apply CL_nil.
  Qed.

  Example filtered_chain_example :
    (let '(r, _, st') := run env0 1 (op_filtered_apply ClauseExamples.hc1 [a1; aB] qf0) 0 st0 in
     match r with Ok q => option_map Ok (abs1 dec_std st' q) | _ => None end)
    = Some (Ops.filtered_apply [] [] f0 ClauseExamples.c1 [i1; i2']) /\
    Ops.filtered_apply [] [] f0 ClauseExamples.c1 [i1; i2']
    = Ok (Frame.mkFrame [(nA, dA); (nB, Frame.ICol [0; 11; 6; 21]%Z); (nC, Frame.ICol [0; 12; 7; 22]%Z)] [0; 1; 3; 2] false).
  Proof. split; vm_compute; reflexivity. Qed.
End ChainExamples.

Module ConstExamples.
  Import HeapExamples RefineExamples ApplyExamples.
  Definition nB : bytes := [66%N].
  (* New*Const: the index of qf0 covers its 4 rows *)
  Definition aK : instr := mkInstr (FnConst 0%N) nB None None true.
  (* the closure conversion: the slice [0, 3) of qf0 has 3 of the 4 rows; env0 answers 7 on the empty argument list *)
  Definition aC : instr := mkInstr (FnCall 1%N 0%N) nB None None true.
  Definition fs : Frame.frame := Frame.with_ix f0 [0; 1; 3].

  Example const_zero_premises :
    ref_ok dec_std st0 qf0 /\ abs1 dec_std st0 qf0 = Some f0 /\ store_fresh 1 0 st0 /\
    i_fn aK = FnConst (ty_of Frame.TInt) /\ Frame.TInt <> Frame.TEnum /\ i_name_ok aK = Ops.check_name (i_dst aK) /\
    length (Frame.ix f0) = Frame.phys_len f0.
  Proof.
    split; [exact ref_ok_example|]. split; [exact abs1_example|]. split; [exact fresh_example|].
    split; [reflexivity|]. split; [discriminate|]. split; reflexivity.
  Qed.

  Example const_zero_example :
    (let '(r, _, st') := run env0 1 (apply0 aK qf0) 0 st0 in
     match r with Ok q => option_map Ok (abs1 dec_std st' q) | _ => None end)
    = Some (Ops.apply0 f0 (Ops.F0Const (Frame.CInt 0)) nB) /\
    Ops.apply0 f0 (Ops.F0Const (Frame.CInt 0)) nB
    = Ok (Frame.mkFrame [(nA, dA); (nB, Frame.ICol [0; 0; 0; 0]%Z)] [0; 1; 3; 2] false).
  Proof. split; vm_compute; reflexivity. Qed.

  (* the value-carrying variant with the constant 7 *)
  Example constv_example :
    (let '(r, _, st') := run env0 1 (apply0_constv (VZ 7) aK qf0) 0 st0 in
     match r with Ok q => option_map Ok (abs1 dec_std st' q) | _ => None end)
    = Some (Ops.apply0 f0 (Ops.F0Const (Frame.CInt 7)) nB) /\
    Ops.apply0 f0 (Ops.F0Const (Frame.CInt 7)) nB
    = Ok (Frame.mkFrame [(nA, dA); (nB, Frame.ICol [7; 7; 7; 7]%Z)] [0; 1; 3; 2] false).
  Proof. split; vm_compute; reflexivity. Qed.

  Example const_closure_premises :
    ref_ok dec_std st0 sl0 /\ abs1 dec_std st0 sl0 = Some fs /\
    i_fn aC = FnCall 1%N (ty_of Frame.TInt) /\ Frame.TInt <> Frame.TEnum /\ i_name_ok aC = Ops.check_name (i_dst aC) /\
    cv Frame.TInt (scalar (env0 1%N [])) = Frame.CInt 7 /\ length (Frame.ix fs) <> Frame.phys_len fs.
  Proof.
    split; [apply ref_ok_b_sound; vm_compute; reflexivity|]. split; [vm_compute; reflexivity|].
    split; [reflexivity|]. split; [discriminate|]. split; [reflexivity|]. split; [reflexivity|]. vm_compute. lia.
  Qed.

  Example const_closure_example :
    (let '(r, _, st') := run env0 1 (apply0 aC sl0) 0 st0 in
     match r with Ok q => option_map Ok (abs1 dec_std st' q) | _ => None end)
    = Some (Ops.apply0 fs (Ops.F0Const (Frame.CInt 7)) nB) /\
    Ops.apply0 fs (Ops.F0Const (Frame.CInt 7)) nB
    = Ok (Frame.mkFrame [(nA, dA); (nB, Frame.ICol [7; 7; 0; 7]%Z)] [0; 1; 3] false).
  Proof. split; vm_compute; reflexivity. Qed.
End ConstExamples.

Module UpperExamples.
  Import HeapExamples.
  Definition nS : bytes := [83%N].
  Definition nU : bytes := [85%N].
  (* a string column S = ["ab"; "c"] (pointer array = lengths, byte array) *)
  Definition cS := mkCol nS 0 3 [mkSlice (0, 3) 0 2 2; mkSlice (0, 4) 0 3 3].
  Definition stS : store :=
    [((0, 0), [VZ 0; VZ 1]);
     ((0, 1), [VCol cS]);
     ((0, 2), [VMap [(nS, cS)]]);
     ((0, 3), [VZ 2; VZ 1]);
     ((0, 4), [VZ 97; VZ 98; VZ 99])].
  Definition qfS := mkQF (mkSlice (0, 1) 0 1 1) (Some (0, 2)) (mkSlice (0, 0) 0 2 2) false.
  Definition fS : Frame.frame := Frame.mkFrame [(nS, Frame.SCol [Some [97%N; 98%N]; Some [99%N]])] [0; 1] false.
  Definition upS (i : Z) (_ : list val) : list Z := if (i =? 0)%Z then [65; 66]%Z else [67]%Z.
  Definition needS (_ : Z) : nat := 2.
  Definition utS : Ops.upper_table := [([97%N; 98%N], [65%N; 66%N]); ([99%N], [67%N])].
  Definition aU : instr := mkInstr (FnUpperS needS upS) nU (Some nS) None true.

  Example upper_s_premises :
    ref_ok dec_std stS qfS /\ abs1 dec_std stS qfS = Some fS /\ store_fresh 1 0 stS /\
    i_fn aU = FnUpperS needS upS /\ i_name_ok aU = Ops.check_name (i_dst aU) /\
    (forall c d0, map_get (map_of stS (q_map qfS)) nS = Some c -> Frame.lookup_col fS nS = Some d0 ->
                  upper_s_link dec_std utS stS qfS fS c d0 upS).
  Proof.
    split; [apply ref_ok_b_sound; vm_compute; reflexivity|]. split; [vm_compute; reflexivity|].
    split; [intros k _; reflexivity|]. split; [reflexivity|]. split; [reflexivity|].
    intros c d0 Hc Hd. vm_compute in Hc, Hd. inversion Hc; inversion Hd; subst.
    eexists. split; [reflexivity|]. intros _. vm_compute. eexists. split; reflexivity.
  Qed.

  Example upper_s_example :
    (let '(r, _, st') := run env0 1 (apply1 aU nS qfS) 0 stS in
     match r with Ok q => option_map Ok (abs1 dec_std st' q) | _ => None end)
    = Some (Ops.apply1 utS fS (Ops.FBuiltin Ops.name_ToUpper) nU nS) /\
    Ops.apply1 utS fS (Ops.FBuiltin Ops.name_ToUpper) nU nS
    = Ok (Frame.mkFrame [(nS, Frame.SCol [Some [97%N; 98%N]; Some [99%N]]);
                         (nU, Frame.SCol [Some [65%N; 66%N]; Some [67%N]])] [0; 1] false).
  Proof. split; vm_compute; reflexivity. Qed.

  (* the upper-casing buffer, the pointer array and the byte array are allocations of the call: the run makes 6
     allocations (these three, one growth of the byte array, header copy, map copy) and leaves every old array as it was *)
  Example upper_s_allocations :
    let '(_, n', st') := run env0 1 (apply1 aU nS qfS) 0 stS in
    (n', map (lookup st') [(0, 0); (0, 1); (0, 2); (0, 3); (0, 4)]) = (6, map (lookup stS) [(0, 0); (0, 1); (0, 2); (0, 3); (0, 4)]).
  Proof. vm_compute. reflexivity. Qed.

  (* an enum column E = ranks [0; 1] over the values ["A"; "B"] *)
  Definition nE : bytes := [69%N].
  Definition cE := mkCol nE 0 4 [mkSlice (0, 3) 0 2 2; mkSlice (0, 4) 0 2 2].
  Definition stE : store :=
    [((0, 0), [VZ 0; VZ 1]);
     ((0, 1), [VCol cE]);
     ((0, 2), [VMap [(nE, cE)]]);
     ((0, 3), [VZ 0; VZ 1]);
     ((0, 4), [VStr [65%N]; VStr [66%N]])].
  Definition qfE := mkQF (mkSlice (0, 1) 0 1 1) (Some (0, 2)) (mkSlice (0, 0) 0 2 2) false.
  Definition fE : Frame.frame := Frame.mkFrame [(nE, Frame.ECol [0%N; 1%N] [[65%N]; [66%N]] false)] [0; 1] false.
  Definition utE : Ops.upper_table := [([65%N], [65%N]); ([66%N], [66%N])].
  Definition aE : instr := mkInstr (FnUpperE (fun _ => false)) nU (Some nE) None true.

  Example upper_e_premises :
    ref_ok dec_std stE qfE /\ abs1 dec_std stE qfE = Some fE /\ store_fresh 1 0 stE /\
    i_fn aE = FnUpperE (fun _ => false) /\ i_name_ok aE = Ops.check_name (i_dst aE) /\
    (forall c d0, map_get (map_of stE (q_map qfE)) nE = Some c -> Frame.lookup_col fE nE = Some d0 ->
                  upper_e_link dec_std utE stE c d0 (fun _ => false)).
  Proof.
    split; [apply ref_ok_b_sound; vm_compute; reflexivity|]. split; [vm_compute; reflexivity|].
    split; [intros k _; reflexivity|]. split; [reflexivity|]. split; [reflexivity|].
    intros c d0 Hc Hd. vm_compute in Hc, Hd. inversion Hc; inversion Hd; subst.
    eexists _, _, _, _, _. split; [reflexivity|]. split; [reflexivity|]. eexists. split; vm_compute; reflexivity.
  Qed.

  (* the rank array of the result IS the rank array of the source column (shared), the value table is fresh *)
  Example upper_e_example :
    (let '(r, _, st') := run env0 1 (apply1 aE nE qfE) 0 stE in
     match r with Ok q => option_map Ok (abs1 dec_std st' q) | _ => None end)
    = Some (Ops.apply1 utE fE (Ops.FBuiltin Ops.name_ToUpper) nU nE) /\
    (let '(r, _, st') := run env0 1 (apply1 aE nE qfE) 0 stE in
     match r with Ok q => map (fun c => map s_base (c_parts c)) (hdr_of st' (q_cols q)) | _ => [] end)
    = [[(0, 3); (0, 4)]; [(0, 3); (1, 0)]].
  Proof. split; vm_compute; reflexivity. Qed.
End UpperExamples.

Module BadLeafExamples.
  Import HeapExamples RefineExamples FilterExamples.
  Definition nZ : bytes := [90%N].
  (* a leaf on a column that does not exist, and a leaf on column A whose comparator Column.Filter rejects *)
  Definition lfZ : leaf :=
    mkLeaf nZ None false false 0%N false false (fun _ => 0) None (fun _ _ _ => false) (fun _ _ _ => false).
  Definition lfBad : leaf :=
    mkLeaf nA None false false 0%N true false (fun _ => 0) None (fun _ _ _ => false) (fun _ _ _ => false).
  Definition lZ : Filter.leaf := Filter.mkLeaf nZ (Filter.CmpName n_lt) (Filter.AInt 25) false.
  Definition lBad : Filter.leaf := Filter.mkLeaf nA Filter.CmpOther (Filter.AInt 25) false.

  Example lfZ_link : leaf_link3 env0 [] st0 (q_map qf0) f0 lfZ lZ.
  Proof. right. split; [left; reflexivity|]. intros i b _ _. reflexivity. Qed.
  Example lfZ_not_link : leaf_link3 env0 [] st0 (q_map qf0) f0 (toggle lfZ) (Filter.invert_leaf lZ).
  Proof. right. split; [left; reflexivity|]. intros i b _ _. reflexivity. Qed.
  Example lfBad_link : leaf_link3 env0 [] st0 (q_map qf0) f0 lfBad lBad.
  Proof.
    right. split; [right; exists cA; split; [reflexivity|]; right; split; [reflexivity|exact I]|].
    intros i b _ _. reflexivity.
  Qed.
  Example lfA_link3 : leaf_link3 env0 [] st0 (q_map qf0) f0 lfA l0A.
  Proof. left. apply leaf_link_link2. exact lfA_link. Qed.

  Example batch_links : Forall2 (leaf_link3 env0 [] st0 (q_map qf0) f0) [lfA; lfBad; lfA] [l0A; lBad; l0A].
  Proof. constructor; [exact lfA_link3|]. constructor; [exact lfBad_link|]. constructor; [exact lfA_link3|constructor]. Qed.

  Example batch_example :
    (let '(r, _, st') := run env0 1 (qf_filter [lfA; lfBad; lfA] qf0) 0 st0 in
     match r with Ok q => option_map Ok (abs1 dec_std st' q) | _ => None end)
    = Some (Filter.filter_leaves [] f0 [l0A; lBad; l0A]) /\
    Filter.filter_leaves [] f0 [l0A; lBad; l0A] = Ok (Frame.with_err f0).
  Proof. split; vm_compute; reflexivity. Qed.

  (* A < 25 AND (A < 25 OR Z < 25): the Or batch fails on the narrowed frame; NOT (Z < 25): the toggled leaf fails *)
  Definition hc5 : clause := CAnd false [CLeaf lfA; COr false [CLeaf lfA; CLeaf lfZ]].
  Definition c5 : Filter.clause := Filter.CAnd [Filter.CLeaf l0A; Filter.COr [Filter.CLeaf l0A; Filter.CLeaf lZ]].
  Definition hc6 : clause := COr false [CNot false (CLeaf lfZ); CLeaf lfA].
  Definition c6 : Filter.clause := Filter.COr [Filter.CNot (Filter.CLeaf lZ); Filter.CLeaf l0A].

  Example clause_rel3_5 : clause_rel3 env0 [] st0 (q_map qf0) f0 hc5 c5.
  Proof.
    apply (GR_and _ [CLeaf lfA; COr false [CLeaf lfA; CLeaf lfZ]] [Filter.CLeaf l0A; Filter.COr [Filter.CLeaf l0A; Filter.CLeaf lZ]]).
    constructor; [constructor; exact lfA_link3|]. constructor; [|constructor].
    apply (GR_or _ [CLeaf lfA; CLeaf lfZ] [Filter.CLeaf l0A; Filter.CLeaf lZ]).
    constructor; [constructor; exact lfA_link3|]. constructor; [constructor; exact lfZ_link|constructor].
  Qed.
  Example clause_rel3_6 : clause_rel3 env0 [] st0 (q_map qf0) f0 hc6 c6.
  Proof.
    apply (GR_or _ [CNot false (CLeaf lfZ); CLeaf lfA] [Filter.CNot (Filter.CLeaf lZ); Filter.CLeaf l0A]).
    constructor; [apply GR_not_leaf; exact lfZ_not_link|]. constructor; [constructor; exact lfA_link3|constructor].
  Qed.

  Example clause_example_5 :
    (let '(r, _, st') := run env0 1 (op_filter hc5 qf0) 0 st0 in
     match r with Ok q => option_map Ok (abs1 dec_std st' q) | _ => None end) = Some (Filter.frame_filter [] f0 c5) /\
    Filter.frame_filter [] f0 c5 = Ok (Frame.with_err (Frame.with_ix f0 [1; 3; 2])).
  Proof. split; vm_compute; reflexivity. Qed.
  Example clause_example_6 :
    (let '(r, _, st') := run env0 1 (op_filter hc6 qf0) 0 st0 in
     match r with Ok q => option_map Ok (abs1 dec_std st' q) | _ => None end) = Some (Filter.frame_filter [] f0 c6) /\
    Filter.frame_filter [] f0 c6 = Ok (Frame.with_err f0).
  Proof. split; vm_compute; reflexivity. Qed.

  (* FilteredApply with a failing clause: the error frame is returned, no instruction runs *)
  Example filtered_bad_example :
    (let '(r, n', st') := run env0 1 (op_filtered_apply hc6 [ApplyExamples.a1] qf0) 0 st0 in
     match r with Ok q => option_map Ok (abs1 dec_std st' q) | _ => None end)
    = Some (Ops.filtered_apply [] [] f0 c6 [ChainExamples.i1]) /\
    Ops.filtered_apply [] [] f0 c6 [ChainExamples.i1] = Ok (Frame.with_err f0).
  Proof. split; vm_compute; reflexivity. Qed.
End BadLeafExamples.

Module DistinctExamples.
  Import HeapExamples.
  (* column A = [30; 10; 30; 5; 10] under the identity index: Distinct keeps one row per value, in slot order of the
     8-slot table (hash = the low byte of the value: slots 2, 5, 6) *)
  Definition cD := mkCol nA 0 0 [mkSlice (0, 3) 0 5 5].
  Definition stD : store :=
    [((0, 0), [VZ 0; VZ 1; VZ 2; VZ 3; VZ 4]);
     ((0, 1), [VCol cD]);
     ((0, 2), [VMap [(nA, cD)]]);
     ((0, 3), [VZ 30; VZ 10; VZ 30; VZ 5; VZ 10])].
  Definition qfD := mkQF (mkSlice (0, 1) 0 1 1) (Some (0, 2)) (mkSlice (0, 0) 0 5 5) false.
  Definition fD : Frame.frame := Frame.mkFrame [(nA, Frame.ICol [30; 10; 30; 5; 10]%Z)] [0; 1; 2; 3; 4] false.
  Definition gpD : gparams :=
    mkGP (fun _ c => match c with [VZ x :: _] => x | _ => 0%Z end)
         (fun _ _ a b => match a, b with [VZ x :: _], [VZ y :: _] => (x =? y)%Z | _, _ => false end).
  Definition memhashD (b : bytes) (_ : N) : N := hd 0%N b.
  Definition rndD (_ _ : nat) : N := 0%N.

  Example distinct_premises :
    ref_ok dec_std stD qfD /\ abs1 dec_std stD qfD = Some fD /\ store_fresh 1 0 stD /\
    (4 * N.of_nat (length (Frame.ix fD)) < 2 ^ 32)%N /\
    (forall cols kcols,
        run env0 1 (lookup_cols (q_map qfD) [nA]) 0 stD = (Ok cols, 0, stD) ->
        Aggregate.named_cols fD [nA] = Ok kcols ->
        key_link stD cols kcols gpD (Aggregate.key_eqb false kcols) (Aggregate.key_hash memhashD rndD false kcols)
                 (map as_z (seg_of stD (q_idx qfD)))).
  Proof.
    split; [apply ref_ok_b_sound; vm_compute; reflexivity|]. split; [vm_compute; reflexivity|].
    split; [intros k _; reflexivity|]. split; [vm_compute; reflexivity|].
    intros cols kcols Hc Hk. vm_compute in Hc, Hk. inversion Hc; inversion Hk; subst cols kcols. clear Hc Hk.
    change (map as_z (seg_of stD (q_idx qfD))) with [0; 1; 2; 3; 4]%Z.
    split; [|split; [|split]].
    - intros i Hin. simpl in Hin. destruct Hin as [<-|[<-|[<-|[<-|[<-|[]]]]]]; eexists; vm_compute; reflexivity.
    - intros i ci Hin Hci. simpl in Hin.
      destruct Hin as [<-|[<-|[<-|[<-|[<-|[]]]]]]; vm_compute in Hci; inversion Hci; subst ci; vm_compute; reflexivity.
    - intros i j ci cj Hi Hj Hci Hcj. simpl in Hi, Hj.
      destruct Hi as [<-|[<-|[<-|[<-|[<-|[]]]]]]; vm_compute in Hci; inversion Hci; subst ci;
        destruct Hj as [<-|[<-|[<-|[<-|[<-|[]]]]]]; vm_compute in Hcj; inversion Hcj; subst cj; vm_compute; reflexivity.
    - eexists. vm_compute. reflexivity.
  Qed.

  Example distinct_example :
    (let '(r, _, st') := run env0 1 (op_distinct gpD [nA] qfD) 0 stD in
     match r with Ok q => option_map Ok (abs1 dec_std st' q) | _ => None end)
    = Some (Aggregate.distinct memhashD rndD false fD [nA]) /\
    Aggregate.distinct memhashD rndD false fD [nA] = Ok (Frame.with_ix fD [1; 3; 0]).
  Proof. split; vm_compute; reflexivity. Qed.

  (* the table and the result index are allocations of the call (2 of them here: no growth), old arrays untouched *)
  Example distinct_allocations :
    let '(_, n', st') := run env0 1 (op_distinct gpD [nA] qfD) 0 stD in
    (n', map (lookup st') [(0, 0); (0, 1); (0, 2); (0, 3)]) = (2, map (lookup stD) [(0, 0); (0, 1); (0, 2); (0, 3)]).
  Proof. vm_compute. reflexivity. Qed.
End DistinctExamples.

Module GroupByExamples.
  Import HeapExamples DistinctExamples.
  (* GroupBy on the same frame: groups in slot order 10 -> rows [1; 4], 5 -> [3], 30 -> [0; 2] *)
  Example group_by_premises :
    ref_ok dec_std stD qfD /\ abs1 dec_std stD qfD = Some fD /\ store_fresh 1 0 stD /\
    (4 * N.of_nat (length (Frame.ix fD)) < 2 ^ 32)%N /\
    (forall cols kcols,
        run env0 1 (lookup_cols (q_map qfD) [nA]) 0 stD = (Ok cols, 0, stD) ->
        Aggregate.named_cols fD [nA] = Ok kcols ->
        key_link stD cols kcols gpD (Aggregate.key_eqb false kcols) (Aggregate.key_hash memhashD rndD false kcols)
                 (map as_z (seg_of stD (q_idx qfD)))).
  Proof. exact distinct_premises. Qed.

  Example group_by_example :
    (let '(r, _, st') := run env0 1 (op_group_by gpD [nA] qfD) 0 stD in
     match r with Ok g => option_map Ok (abs_g dec_std st' g) | _ => None end)
    = Some (Aggregate.group_by memhashD rndD false fD [nA]) /\
    Aggregate.group_by memhashD rndD false fD [nA]
    = Ok (Aggregate.mkGrouper [(nA, Frame.ICol [30; 10; 30; 5; 10]%Z)] [nA] [[1; 4]; [3]; [0; 2]] false).
  Proof. split; vm_compute; reflexivity. Qed.

  (* no key column: one group that SHARES the index of the frame *)
  Example group_by_all_example :
    (let '(r, _, st') := run env0 1 (op_group_by gpD [] qfD) 0 stD in
     match r with Ok g => Some (abs_g dec_std st' g, map s_base (groups_of st' g)) | _ => None end)
    = Some (match Aggregate.group_by memhashD rndD false fD [] with Ok G => Some G | _ => None end, [s_base (q_idx qfD)]).
  Proof. vm_compute. reflexivity. Qed.
End GroupByExamples.

Module OobExamples.
  Import HeapExamples DistinctExamples.
  (* the index [0; 1; 7; 3] names a row outside the 5-row column A *)
  Definition stO : store :=
    [((0, 0), [VZ 0; VZ 1; VZ 7; VZ 3]);
     ((0, 1), [VCol cD]);
     ((0, 2), [VMap [(nA, cD)]]);
     ((0, 3), [VZ 30; VZ 10; VZ 30; VZ 5; VZ 10])].
  Definition qfO := mkQF (mkSlice (0, 1) 0 1 1) (Some (0, 2)) (mkSlice (0, 0) 0 4 4) false.
  Definition fO : Frame.frame := Frame.mkFrame [(nA, Frame.ICol [30; 10; 30; 5; 10]%Z)] [0; 1; 7; 3] false.

  Example oob_premises :
    ref_ok dec_std stO qfO /\ abs1 dec_std stO qfO = Some fO /\ store_fresh 1 0 stO /\
    (4 * N.of_nat (length (Frame.ix fO)) < 2 ^ 32)%N /\
    (forall cols kcols,
        run env0 1 (lookup_cols (q_map qfO) [nA]) 0 stO = (Ok cols, 0, stO) ->
        Aggregate.named_cols fO [nA] = Ok kcols ->
        key_link_oob stO cols kcols gpD (Aggregate.key_eqb false kcols) (Aggregate.key_hash memhashD rndD false kcols)
                     (map as_z (seg_of stO (q_idx qfO)))).
  Proof.
    split; [apply ref_ok_b_sound; vm_compute; reflexivity|]. split; [vm_compute; reflexivity|].
    split; [intros k _; reflexivity|]. split; [vm_compute; reflexivity|].
    intros cols kcols Hc Hk. vm_compute in Hc, Hk. inversion Hc; inversion Hk; subst cols kcols. clear Hc Hk.
    exists [0; 1]%Z, 7%Z, [3%Z]. split; [reflexivity|]. split; [|split; [|split; [|split]]].
    - intros i Hin. simpl in Hin. destruct Hin as [<-|[<-|[]]]; eexists; vm_compute; reflexivity.
    - intros i ci Hin Hci. simpl in Hin.
      destruct Hin as [<-|[<-|[]]]; vm_compute in Hci; inversion Hci; subst ci; vm_compute; reflexivity.
    - intros i j ci cj Hi Hj Hci Hcj. simpl in Hi, Hj.
      destruct Hi as [<-|[<-|[]]]; vm_compute in Hci; inversion Hci; subst ci;
        destruct Hj as [<-|[<-|[]]]; vm_compute in Hcj; inversion Hcj; subst cj; vm_compute; reflexivity.
    - vm_compute. reflexivity.
    - vm_compute. reflexivity.
  Qed.

  Example oob_example :
    fst (fst (run env0 1 (op_distinct gpD [nA] qfO) 0 stO)) = Panic /\ Aggregate.distinct memhashD rndD false fO [nA] = Panic /\
    fst (fst (run env0 1 (op_group_by gpD [nA] qfO) 0 stO)) = Panic /\ Aggregate.group_by memhashD rndD false fO [nA] = Panic.
  Proof. repeat split; vm_compute; reflexivity. Qed.
End OobExamples.

Module GrowthExamples.
  Import HeapExamples DistinctExamples.
  (* 12 rows, 7 different values: the 8-slot table grows to 16 slots at the sixth group; groups gain members before
     and after the move *)
  Definition cG := mkCol nA 0 0 [mkSlice (0, 3) 0 12 12].
  Definition stG : store :=
    [((0, 0), map (fun k => VZ (Z.of_nat k)) (seq 0 12));
     ((0, 1), [VCol cG]);
     ((0, 2), [VMap [(nA, cG)]]);
     ((0, 3), map VZ [1; 2; 1; 3; 4; 2; 5; 6; 1; 7; 6; 9]%Z)].
  Definition qfG := mkQF (mkSlice (0, 1) 0 1 1) (Some (0, 2)) (mkSlice (0, 0) 0 12 12) false.
  Definition fG : Frame.frame :=
    Frame.mkFrame [(nA, Frame.ICol [1; 2; 1; 3; 4; 2; 5; 6; 1; 7; 6; 9]%Z)] (seq 0 12) false.

  Example growth_example :
    abs1 dec_std stG qfG = Some fG /\
    (let '(r, _, st') := run env0 1 (op_distinct gpD [nA] qfG) 0 stG in
     match r with Ok q => option_map Ok (abs1 dec_std st' q) | _ => None end)
    = Some (Aggregate.distinct memhashD rndD false fG [nA]) /\
    Aggregate.distinct memhashD rndD false fG [nA] = Ok (Frame.with_ix fG [0; 1; 3; 4; 6; 7; 9; 11]) /\
    (let '(r, _, st') := run env0 1 (op_group_by gpD [nA] qfG) 0 stG in
     match r with Ok g => option_map Ok (abs_g dec_std st' g) | _ => None end)
    = Some (Aggregate.group_by memhashD rndD false fG [nA]) /\
    Aggregate.group_by memhashD rndD false fG [nA]
    = Ok (Aggregate.mkGrouper [(nA, Frame.ICol [1; 2; 1; 3; 4; 2; 5; 6; 1; 7; 6; 9]%Z)] [nA]
                              [[0; 2; 8]; [1; 5]; [3]; [4]; [6]; [7; 10]; [9]; [11]] false) /\
    (* allocations of the Distinct run: first table, second table, result index *)
    snd (fst (run env0 1 (op_distinct gpD [nA] qfG) 0 stG)) = 3.
  Proof. repeat split; vm_compute; reflexivity. Qed.
End GrowthExamples.

Module AggLoopExamples.
  Import HeapExamples DistinctExamples.
  (* two groups over column A = [30; 10; 30; 5; 10]: rows [0; 1] and rows [3; 4]; the callback of env0 answers the
     first value + 1.  The second group fits the buffer allocated for the first: 2 allocations (result, buffer) *)
  Definition g1 : slice := mkSlice (0, 0) 0 2 5.
  Definition g2 : slice := mkSlice (0, 0) 3 2 2.
  Example col_aggregate_premises :
    parts_in_bounds stD cD /\ Forall (in_bounds stD) [g1; g2] /\ store_fresh 1 0 stD /\
    agg_pure env0 stD cD 1%N [g1; g2] = Ok [VZ 31; VZ 6].
  Proof.
    split; [repeat constructor|]. split; [repeat constructor; simpl; lia|]. split; [intros k _; reflexivity|].
    vm_compute. reflexivity.
  Qed.
  Example col_aggregate_example :
    (let '(r, n', st') := run env0 1 (col_aggregate cD 1%N 0%N [g1; g2]) 0 stD in
     (match r with Ok d => Some (seg_of st' d) | _ => None end, n', map (lookup st') [(0, 0); (0, 3)]))
    = (Some [VZ 31; VZ 6], 2, map (lookup stD) [(0, 0); (0, 3)]).
  Proof. vm_compute. reflexivity. Qed.
  Example col_subset_example :
    agg_vals_h stD cD (map as_z (seg_of stD (mkSlice (0, 0) 1 3 4))) = Ok [VZ 10; VZ 30; VZ 5] /\
    (let '(r, n', st') := run env0 1 (col_subset cD (mkSlice (0, 0) 1 3 4)) 0 stD in
     (match r with Ok c' => Some (map (seg_of st') (c_parts c')) | _ => None end, n'))
    = (Some [[VZ 10; VZ 30; VZ 5]], 1).
  Proof. split; vm_compute; reflexivity. Qed.
End AggLoopExamples.

Module EvalExamples.
  Import HeapExamples RefineExamples ApplyExamples ChainExamples.
  (* D := fn(fn(A)) as Eval runs it: temp B := fn(A); temp C := fn(B); drop B; copy C to D; drop C *)
  Definition nD : bytes := [68%N].
  Definition hsteps : list estep := [EApply a1; EApply aB; EDrop [nB]].
  Definition lsteps : list l0step := [L0Apply i1; L0Apply i2; L0Drop [nB]].

  Example esteps_link_example :
    esteps_link env0 dec_std [] (instr_link env0) 1 0 st0 qf0 f0 hsteps lsteps.
  Proof.
    apply EL_apply.
    - intros _. apply (IL_call1 env0 st0 qf0 f0 a1 nA 1%N Frame.TInt Frame.TInt tblA); try reflexivity; try discriminate.
      apply apply1_premises.
    - intros qf' n' st' f' Hrun Hl0 Habs. vm_compute in Hrun. inversion Hrun; subst qf' n' st'. clear Hrun.
      vm_compute in Hl0. inversion Hl0; subst f'. clear Hl0 Habs.
      apply EL_apply.
      + intros _. apply (IL_call1 env0 _ _ _ aB nB 1%N Frame.TInt Frame.TInt tblB); try reflexivity; try discriminate.
        intros c d Hc Hd. vm_compute in Hc, Hd. inversion Hc; inversion Hd; subst. split; [reflexivity|].
        intros p Hin cell Hcell. simpl in Hin.
        destruct Hin as [<-|[<-|[<-|[<-|[]]]]]; vm_compute in Hcell; inversion Hcell; subst; eexists; split; reflexivity.
      + intros. apply EL_drop. intros. apply EL_nil.
  Qed.

  Example eval_steps_example :
    (let '(r, _, st') := run env0 1 (op_eval hsteps true nD nC true qf0) 0 st0 in
     match r with Ok q => option_map Ok (abs1 dec_std st' q) | _ => None end)
    = Some (l0_eval_steps [] f0 lsteps nD nC true) /\
    l0_eval_steps [] f0 lsteps nD nC true
    = Ok (Frame.mkFrame [(nA, dA); (nD, Frame.ICol [32; 12; 7; 22]%Z)] [0; 1; 3; 2] false).
  Proof. split; vm_compute; reflexivity. Qed.
End EvalExamples.

Module EvalExamples2.
  Import HeapExamples RefineExamples ApplyExamples ChainExamples.
  (* Eval("D", Expr("f", Expr("f", ColumnName("A")))) with f = x + 1 in the context *)
  Definition opf : bytes := [102%N].
  Definition tblAB : list (Frame.cell * Frame.cell) := tblA ++ tblB.
  Definition cxf : Eval.ctx := [((Frame.TInt, false, opf), Ops.F1 Frame.TInt Frame.TInt tblAB)].
  Definition ex : Eval.expr := (Eval.XExpr1 opf (Eval.XUnary opf nA)).
  Definition tmp0 : bytes := (Eval.p_unary ++ Eval.temp_suffix ++ Eval.itoa 0).
  Definition tmp1 : bytes := (Eval.p_unary ++ Eval.temp_suffix ++ Eval.itoa 1).
  Definition nD : bytes := [68%N].
  Definition b1 : instr := mkInstr (FnCall 1%N 0%N) tmp0 (Some nA) None true.
  Definition b2 : instr := mkInstr (FnCall 1%N 0%N) tmp1 (Some tmp0) None true.
  Definition hs : list estep := [EApply b1; EApply b2; EDrop [tmp0]].
  Definition j1 : Ops.instr := Ops.mkInstr (Ops.F1 Frame.TInt Frame.TInt tblAB) tmp0 nA [].
  Definition j2 : Ops.instr := Ops.mkInstr (Ops.F1 Frame.TInt Frame.TInt tblAB) tmp1 tmp0 [].
  Definition ls : list l0step := [L0Apply j1; L0Apply j2; L0Drop [tmp0]].
  Definition rD : Frame.frame := Frame.mkFrame [(nA, dA); (tmp1, Frame.ICol [32; 12; 7; 22]%Z)] [0; 1; 3; 2] false.

  Example compile_example : compile [] cxf ex f0 = Ok (ls, rD, tmp1).
  Proof. vm_compute. reflexivity. Qed.

  Example esteps_link_example : esteps_link env0 dec_std [] (instr_link env0) 1 0 st0 qf0 f0 hs ls.
  Proof.
    apply EL_apply.
    - intros _. apply (IL_call1 env0 st0 qf0 f0 b1 nA 1%N Frame.TInt Frame.TInt tblAB); try reflexivity; try discriminate.
      intros c d Hc Hd. vm_compute in Hc, Hd. inversion Hc; inversion Hd; subst. split; [reflexivity|].
      intros p Hin cell Hcell. simpl in Hin.
      destruct Hin as [<-|[<-|[<-|[<-|[]]]]]; vm_compute in Hcell; inversion Hcell; subst; eexists; split; reflexivity.
    - intros qf' n' st' f' Hrun Hl0 Habs. vm_compute in Hrun. inversion Hrun; subst qf' n' st'. clear Hrun.
      vm_compute in Hl0. inversion Hl0; subst f'. clear Hl0 Habs.
      apply EL_apply.
      + intros _. apply (IL_call1 env0 _ _ _ b2 tmp0 1%N Frame.TInt Frame.TInt tblAB); try reflexivity; try discriminate.
        intros c d Hc Hd. vm_compute in Hc, Hd. inversion Hc; inversion Hd; subst. split; [reflexivity|].
        intros p Hin cell Hcell. simpl in Hin.
        destruct Hin as [<-|[<-|[<-|[<-|[]]]]]; vm_compute in Hcell; inversion Hcell; subst; eexists; split; reflexivity.
      + intros. apply EL_drop. intros. apply EL_nil.
  Qed.

  Example eval_example :
    (let '(r, _, st') := run env0 1 (op_eval hs true nD tmp1 (negb (bytes_eqb tmp1 nD) && negb (Frame.contains f0 tmp1)) qf0) 0 st0 in
     match r with Ok q => option_map Ok (abs1 dec_std st' q) | _ => None end)
    = Some (Eval.eval [] cxf f0 nD ex) /\
    Eval.eval [] cxf f0 nD ex = Ok (Frame.mkFrame [(nA, dA); (nD, Frame.ICol [32; 12; 7; 22]%Z)] [0; 1; 3; 2] false).
  Proof. split; vm_compute; reflexivity. Qed.
End EvalExamples2.
