(* Proofs/GenIoJsonProofs.v — tie T1 for the JSON reader: every definition of Gen/GenIoJson.v (the statement by
   statement translation of internal/io/json.go and of ReadJSON of qframe.go, made by tools/qf2coq/iojson.go) is
   equal to the hand-written model of Model/JsonRead.v (fill, records_to_data, read_json_records, read_json: the
   functions the strings engine executes through Corr/StringsCorr.v).

   THE REPRESENTATION.  The model's decoded value gval (GNil | GBool | GFloat | GStr) is the generated gj_any
   through any_of (the constructors gj_any_int and gj_any_other are never produced: encoding/json stores every
   number as float64, and the Coq reader accepts flat records only).  A record (Go map) is the model's
   association list with the values mapped (rec_of, never the nil map).  The Go results (value, error) are read
   through the views fill_view / data_view: a non-nil error is Fail, and the slice / map beside it is dropped
   (the callers drop it too); the outcome Fail itself, which no generated function produces, is shown as Panic, so
   that an equation  view (generated) = Fail  says that the Go function RETURNED an error.  The result map of jsonRecordsToData is the model's association list in the
   order of the first record, PROVIDED the first record has no key twice (what a Go map guarantees; every record
   decode_record builds is such a list: decode_record_nodup).

   No generated function takes fuel (range loops only), so there is no fuel relation to state. *)
From QF Require Import Base.Prelude Model.Utf8 Model.Json Model.Frame Model.Filter Model.Ops Model.JsonRead.
From QF Require Import Proofs.EnumProofs Proofs.JsonDocProofs Gen.GenIoJson.
Local Open Scope Z_scope.

(* ------------------------------------------------------------------ representation *)

Definition any_of (v : gval) : gj_any :=
  match v with
  | GNil => gj_any_nil
  | GBool b => gj_any_bool b
  | GFloat f => gj_any_float64 f
  | GStr s => gj_any_string s
  end.

Definition ent_of (kv : bytes * gval) : bytes * gj_any := (fst kv, any_of (snd kv)).
Definition rec_of (r : grecord) : option (list (bytes * gj_any)) := Some (map ent_of r).
Definition recs_of (rs : list grecord) : list (option (list (bytes * gj_any))) := map rec_of rs.

(* the Go results (error, slice) of the fill functions / (map, error) of jsonRecordsToData as the model sees them *)
Definition fill_view {A} (o : outcome (gj_error * list A)) : outcome (list A) :=
  match o with
  | Ok (gj_nil, c) => Ok c
  | Ok (gj_err, _) => Fail
  | Fail => Panic
  | Panic => Panic
  end.

Definition data_view {D} (o : outcome (D * gj_error)) : outcome D :=
  match o with
  | Ok (d, gj_nil) => Ok d
  | Ok (_, gj_err) => Fail
  | Fail => Panic
  | Panic => Panic
  end.

Lemma lookup_rep (name : bytes) : forall r : grecord,
  gj_map_lookup (rec_of r) name = option_map any_of (map_get name r).
Proof.
  unfold rec_of, map_get. cbn [gj_map_lookup].
  induction r as [|[k v] r IH]; [reflexivity|].
  cbn [map ent_of fst snd gj_assoc_lookup assocb].
  destruct (bytes_eqb k name); [reflexivity|exact IH].
Qed.

Lemma index_rep : forall (rs1 rs2 : list grecord) (r : grecord),
  gj_list_index (recs_of (rs1 ++ r :: rs2)) (Z.of_nat (length rs1)) = Ok (rec_of r).
Proof.
  intros rs1 rs2 r. unfold gj_list_index.
  destruct (Z.of_nat (length rs1) <? 0) eqn:E; [lia|].
  rewrite Nat2Z.id. unfold idx, recs_of. rewrite map_app. cbn [map].
  rewrite nth_error_app2 by (rewrite map_length; lia).
  rewrite map_length, Nat.sub_diag. reflexivity.
Qed.

Lemma index_rep_out : forall (rs : list grecord),
  gj_list_index (recs_of rs) (Z.of_nat (length rs)) = Panic.
Proof.
  intros rs. unfold gj_list_index.
  destruct (Z.of_nat (length rs) <? 0) eqn:E; [lia|].
  rewrite Nat2Z.id. unfold idx, recs_of.
  assert (H : nth_error (map rec_of rs) (length rs) = None) by (apply nth_error_None; rewrite map_length; lia).
  rewrite H. reflexivity.
Qed.

Lemma set_rep {A} : forall (done rest : list A) (a0 a : A),
  gj_list_set (done ++ a0 :: rest) (Z.of_nat (length done)) a = Ok ((done ++ [a]) ++ rest).
Proof.
  intros done rest a0 a. unfold gj_list_set.
  destruct (Z.of_nat (length done) <? 0) eqn:E; [lia|].
  rewrite Nat2Z.id.
  assert (L : (length done <? length (done ++ a0 :: rest))%nat = true).
  { apply Nat.ltb_lt. rewrite app_length. cbn [length]. lia. }
  rewrite L. f_equal. rewrite <- app_assoc. cbn [app].
  clear. induction done as [|x d IH]; [reflexivity|]. cbn [app length set_nth]. f_equal. exact IH.
Qed.

(* ------------------------------------------------------------------ the four fill functions *)

(* the common shape of the four generated loops: proj is the type assertion / type switch *)
Section GFill.
Context {A : Type} (proj : gj_any -> option A).

Fixpoint gfill_loop {B} (l : list B) (i : Z) (col : list A) (recs : list (option (list (bytes * gj_any))))
         (name : bytes) : outcome (gj_flow (gj_error * list A) (list A)) :=
  match l with
  | [] => Ok (gj_fall col)
  | _ :: l' =>
      do r <- gj_list_index recs i;
      match gj_map_lookup r name with
      | None => Ok (gj_ret (gj_err, col))
      | Some v =>
          match proj v with
          | None => Ok (gj_ret (gj_err, col))
          | Some a => do c <- gj_list_set col i a; gfill_loop l' (i + 1) c recs name
          end
      end
  end.

Definition gfill {B} (l : list B) (col : list A) recs name : outcome (gj_error * list A) :=
  do t <- gfill_loop l 0 col recs name;
  match t with gj_fall c => Ok (gj_nil, c) | gj_ret r => Ok r end.

Context (projm : gval -> option A) (Hproj : forall v, proj (any_of v) = projm v).

(* the loop view: the slice when it ran to the end, Fail when it returned with a non-nil error *)
Definition flow_view (o : outcome (gj_flow (gj_error * list A) (list A))) : outcome (list A) :=
  match o with
  | Ok (gj_fall c) => Ok c
  | Ok (gj_ret (gj_err, _)) => Fail
  | Ok (gj_ret (gj_nil, c)) => Ok c
  | Fail => Panic
  | Panic => Panic
  end.

Lemma gfill_loop_spec {B} (name : bytes) : forall (l : list B) (done rest : list A) (rs1 rs2 : list grecord),
  length done = length rs1 -> length rest = length l -> (length l <= length rs2)%nat ->
  flow_view (gfill_loop l (Z.of_nat (length done)) (done ++ rest) (recs_of (rs1 ++ rs2)) name)
  = do c <- fill projm (firstn (length l) rs2) name; Ok (done ++ c).
Proof.
  induction l as [|b l IH]; intros done rest rs1 rs2 Hd Hr Hl.
  - destruct rest; [|discriminate]. cbn [gfill_loop flow_view length firstn fill omap obind]. reflexivity.
  - destruct rest as [|a0 rest]; [discriminate|]. destruct rs2 as [|r rs2]; [cbn [length] in Hl; lia|].
    cbn [gfill_loop length firstn]. rewrite Hd, index_rep. cbn [obind].
    rewrite lookup_rep. unfold fill. cbn [omap].
    destruct (map_get name r) as [v|]; cbn [option_map obind]; [|reflexivity].
    rewrite Hproj. destruct (projm v) as [a|]; cbn [obind]; [|reflexivity].
    rewrite <- Hd, set_rep. cbn [obind].
    replace (Z.of_nat (length done) + 1) with (Z.of_nat (length (done ++ [a])))
      by (rewrite app_length; cbn [length]; lia).
    replace (rs1 ++ r :: rs2) with ((rs1 ++ [r]) ++ rs2) by (rewrite <- app_assoc; reflexivity).
    rewrite IH.
    + unfold fill.
      destruct (omap _ (firstn (length l) rs2)) as [c| |]; cbn [obind]; try reflexivity.
      rewrite <- app_assoc. reflexivity.
    + rewrite !app_length. cbn [length]. lia.
    + cbn [length] in Hr. lia.
    + cbn [length] in Hl. lia.
Qed.

(* col longer than the records: records[i] panics once the records are used up, unless a record failed before *)
Lemma gfill_loop_short {B} (name : bytes) : forall (rs2 : list grecord) (l : list B) (done rest : list A) (rs1 : list grecord),
  length done = length rs1 -> length rest = length l -> (length rs2 < length l)%nat ->
  flow_view (gfill_loop l (Z.of_nat (length done)) (done ++ rest) (recs_of (rs1 ++ rs2)) name)
  = do c <- fill projm rs2 name; Panic.
Proof.
  induction rs2 as [|r rs2 IH]; intros l done rest rs1 Hd Hr Hl.
  - destruct l as [|b l]; [cbn [length] in Hl; lia|]. cbn [gfill_loop].
    rewrite app_nil_r, Hd, index_rep_out. reflexivity.
  - destruct l as [|b l]; [cbn [length] in Hl; lia|]. destruct rest as [|a0 rest]; [discriminate|].
    cbn [gfill_loop]. rewrite Hd, index_rep. cbn [obind].
    rewrite lookup_rep. unfold fill. cbn [omap].
    destruct (map_get name r) as [v|]; cbn [option_map obind]; [|reflexivity].
    rewrite Hproj. destruct (projm v) as [a|]; cbn [obind]; [|reflexivity].
    rewrite <- Hd, set_rep. cbn [obind].
    replace (Z.of_nat (length done) + 1) with (Z.of_nat (length (done ++ [a])))
      by (rewrite app_length; cbn [length]; lia).
    replace (rs1 ++ r :: rs2) with ((rs1 ++ [r]) ++ rs2) by (rewrite <- app_assoc; reflexivity).
    rewrite IH.
    + unfold fill. destruct (omap _ rs2) as [c| |]; reflexivity.
    + rewrite !app_length. cbn [length]. lia.
    + cbn [length] in Hr. lia.
    + cbn [length] in Hl. lia.
Qed.

Lemma fill_view_gfill {B} (l : list B) col recs name :
  fill_view (gfill l col recs name) = flow_view (gfill_loop l 0 col recs name).
Proof.
  unfold gfill. destruct (gfill_loop l 0 col recs name) as [[c|[[|] c]]| |]; reflexivity.
Qed.

(* col no longer than the records: the first len(col) records are read *)
Lemma gfill_spec (col : list A) (rs : list grecord) (name : bytes) :
  (length col <= length rs)%nat ->
  fill_view (gfill col col (recs_of rs) name) = fill projm (firstn (length col) rs) name.
Proof.
  intro H. rewrite fill_view_gfill.
  pose proof (gfill_loop_spec name col [] col [] rs eq_refl eq_refl H) as E.
  cbn [length app Z.of_nat] in E. rewrite E.
  destruct (fill projm (firstn (length col) rs) name); reflexivity.
Qed.

Lemma gfill_spec_eq (col : list A) (rs : list grecord) (name : bytes) :
  length col = length rs ->
  fill_view (gfill col col (recs_of rs) name) = fill projm rs name.
Proof.
  intro H. rewrite gfill_spec by lia. rewrite H, firstn_all. reflexivity.
Qed.

Lemma gfill_spec_short (col : list A) (rs : list grecord) (name : bytes) :
  (length rs < length col)%nat ->
  fill_view (gfill col col (recs_of rs) name) = do c <- fill projm rs name; Panic.
Proof.
  intro H. rewrite fill_view_gfill.
  pose proof (gfill_loop_short name rs col [] col [] eq_refl eq_refl H) as E.
  cbn [length app Z.of_nat] in E. exact E.
Qed.

End GFill.

(* the type assertions of the four functions *)
Definition proj_int (v : gj_any) : option Z := match v with gj_any_int z => Some z | _ => None end.
Definition proj_float (v : gj_any) : option N := match v with gj_any_float64 f => Some f | _ => None end.
Definition proj_bool (v : gj_any) : option bool := match v with gj_any_bool b => Some b | _ => None end.
Definition proj_strptr (v : gj_any) : option (option bytes) :=
  match v with gj_any_string s => Some (Some s) | gj_any_nil => Some None | _ => None end.
(* ints never arrive: the model has no counterpart of fillInts, its fill with this projection always fails *)
Definition as_int (v : gval) : option Z := None.

Lemma proj_int_rep v : proj_int (any_of v) = as_int v. Proof. destruct v; reflexivity. Qed.
Lemma proj_float_rep v : proj_float (any_of v) = as_float v. Proof. destruct v; reflexivity. Qed.
Lemma proj_bool_rep v : proj_bool (any_of v) = as_bool v. Proof. destruct v; reflexivity. Qed.
Lemma proj_strptr_rep v : proj_strptr (any_of v) = as_strptr v. Proof. destruct v; reflexivity. Qed.

(* the generated loops are the common loop, for ALL arguments (no representation needed) *)
Ltac loop_eq IH :=
  cbn [gfill_loop];
  match goal with |- context [gj_list_index ?r ?i] => destruct (gj_list_index r i) as [rc| |]; cbn [obind]; try reflexivity end;
  match goal with |- context [gj_map_lookup ?r ?n] => destruct (gj_map_lookup r n) as [v|]; cbn [gj_opt_or gj_opt_isnil negb]; try reflexivity end.

Lemma fillInts_loop_eq : forall l i col recs name,
  gj_fillInts_loop1 l i col recs name = gfill_loop proj_int l i col recs name.
Proof.
  induction l as [|b l IH]; intros i col recs name; [reflexivity|].
  cbn [gj_fillInts_loop1]. loop_eq IH.
  destruct v; cbn [gj_assert_int proj_int negb]; try reflexivity.
  destruct (gj_list_set col i z); cbn [obind]; try reflexivity. apply IH.
Qed.

Lemma fillFloats_loop_eq : forall l i col recs name,
  gj_fillFloats_loop1 l i col recs name = gfill_loop proj_float l i col recs name.
Proof.
  induction l as [|b l IH]; intros i col recs name; [reflexivity|].
  cbn [gj_fillFloats_loop1]. loop_eq IH.
  destruct v; cbn [gj_assert_float64 proj_float negb]; try reflexivity.
  destruct (gj_list_set col i f); cbn [obind]; try reflexivity. apply IH.
Qed.

Lemma fillBools_loop_eq : forall l i col recs name,
  gj_fillBools_loop1 l i col recs name = gfill_loop proj_bool l i col recs name.
Proof.
  induction l as [|b l IH]; intros i col recs name; [reflexivity|].
  cbn [gj_fillBools_loop1]. loop_eq IH.
  destruct v as [|b0| | | |]; cbn [gj_assert_bool proj_bool negb]; try reflexivity.
  destruct (gj_list_set col i b0); cbn [obind]; try reflexivity. apply IH.
Qed.

Lemma fillStrings_loop_eq : forall l i col recs name,
  gj_fillStrings_loop1 l i col recs name = gfill_loop proj_strptr l i col recs name.
Proof.
  induction l as [|b l IH]; intros i col recs name; [reflexivity|].
  cbn [gj_fillStrings_loop1]. loop_eq IH.
  destruct v; cbn [proj_strptr]; try reflexivity.
  - destruct (gj_list_set col i None); cbn [obind]; try reflexivity. apply IH.
  - destruct (gj_list_set col i (Some s)); cbn [obind]; try reflexivity. apply IH.
Qed.

Lemma fillInts_eq col recs name : gj_fillInts col recs name = gfill proj_int col col recs name.
Proof. unfold gj_fillInts, gfill. rewrite fillInts_loop_eq. reflexivity. Qed.
Lemma fillFloats_eq col recs name : gj_fillFloats col recs name = gfill proj_float col col recs name.
Proof. unfold gj_fillFloats, gfill. rewrite fillFloats_loop_eq. reflexivity. Qed.
Lemma fillBools_eq col recs name : gj_fillBools col recs name = gfill proj_bool col col recs name.
Proof. unfold gj_fillBools, gfill. rewrite fillBools_loop_eq. reflexivity. Qed.
Lemma fillStrings_eq col recs name : gj_fillStrings col recs name = gfill proj_strptr col col recs name.
Proof. unfold gj_fillStrings, gfill. rewrite fillStrings_loop_eq. reflexivity. Qed.

(* fillX(col, records, colName) = fill as_X (the first len(col) records) colName *)
Theorem fillInts_model col rs name : (length col <= length rs)%nat ->
  fill_view (gj_fillInts col (recs_of rs) name) = fill as_int (firstn (length col) rs) name.
Proof. intro H. rewrite fillInts_eq. exact (gfill_spec proj_int as_int proj_int_rep col rs name H). Qed.
Theorem fillFloats_model col rs name : (length col <= length rs)%nat ->
  fill_view (gj_fillFloats col (recs_of rs) name) = fill as_float (firstn (length col) rs) name.
Proof. intro H. rewrite fillFloats_eq. exact (gfill_spec proj_float as_float proj_float_rep col rs name H). Qed.
Theorem fillBools_model col rs name : (length col <= length rs)%nat ->
  fill_view (gj_fillBools col (recs_of rs) name) = fill as_bool (firstn (length col) rs) name.
Proof. intro H. rewrite fillBools_eq. exact (gfill_spec proj_bool as_bool proj_bool_rep col rs name H). Qed.
Theorem fillStrings_model col rs name : (length col <= length rs)%nat ->
  fill_view (gj_fillStrings col (recs_of rs) name) = fill as_strptr (firstn (length col) rs) name.
Proof. intro H. rewrite fillStrings_eq. exact (gfill_spec proj_strptr as_strptr proj_strptr_rep col rs name H). Qed.

(* a slice longer than the records: Go panics (index out of range) unless a record is rejected first *)
Theorem fillFloats_short col rs name : (length rs < length col)%nat ->
  fill_view (gj_fillFloats col (recs_of rs) name) = do c <- fill as_float rs name; Panic.
Proof. intro H. rewrite fillFloats_eq. exact (gfill_spec_short proj_float as_float proj_float_rep col rs name H). Qed.
Theorem fillBools_short col rs name : (length rs < length col)%nat ->
  fill_view (gj_fillBools col (recs_of rs) name) = do c <- fill as_bool rs name; Panic.
Proof. intro H. rewrite fillBools_eq. exact (gfill_spec_short proj_bool as_bool proj_bool_rep col rs name H). Qed.
Theorem fillStrings_short col rs name : (length rs < length col)%nat ->
  fill_view (gj_fillStrings col (recs_of rs) name) = do c <- fill as_strptr rs name; Panic.
Proof. intro H. rewrite fillStrings_eq. exact (gfill_spec_short proj_strptr as_strptr proj_strptr_rep col rs name H). Qed.

(* ------------------------------------------------------------------ jsonRecordsToData *)

(* the column the model makes of one entry of the first record (the function records_to_data maps over it) *)
Definition col_of (rs : list grecord) (kv : bytes * gval) : outcome (bytes * newdata) :=
  let name := fst kv in
  match snd kv with
  | GFloat _ => do c <- fill as_float rs name; Ok (name, DFloats c)
  | GBool _ => do c <- fill as_bool rs name; Ok (name, DBools c)
  | GNil | GStr _ => do c <- fill as_strptr rs name; Ok (name, DStrPtrs c)
  end.

Lemma records_to_data_unfold (rs : list grecord) :
  records_to_data rs = match rs with [] => Ok [] | r0 :: _ => omap (col_of rs) r0 end.
Proof. reflexivity. Qed.

Lemma assoc_set_fresh {V} (k : bytes) (v : V) : forall m, ~ In k (map fst m) -> gj_assoc_set m k v = m ++ [(k, v)].
Proof.
  induction m as [|[k' v'] m IH]; intro H; [reflexivity|]. cbn [gj_assoc_set].
  destruct (bytes_eqb k' k) eqn:E.
  - apply bytes_eqb_spec in E. subst. exfalso. apply H. left. reflexivity.
  - cbn [app]. rewrite IH; [reflexivity|]. intro X. apply H. right. exact X.
Qed.

Lemma make_rep {T} (z : T) (rs : list grecord) :
  gj_make z (Z.of_nat (length (recs_of rs))) = Ok (repeat z (length rs)).
Proof.
  unfold gj_make, recs_of. rewrite map_length.
  destruct (Z.of_nat (length rs) <? 0) eqn:E; [lia|]. rewrite Nat2Z.id. reflexivity.
Qed.

Definition dmap := option (list (bytes * newdata)).

Definition dloop_view (o : outcome (gj_flow (dmap * gj_error) dmap)) : outcome dmap :=
  match o with
  | Ok (gj_fall r) => Ok r
  | Ok (gj_ret (d, gj_nil)) => Ok d
  | Ok (gj_ret (_, gj_err)) => Fail
  | Fail => Panic
  | Panic => Panic
  end.

(* one column: make, fill, the error test and the store, for each of the three column types that can arrive *)
Ltac one_column Hfill rs name acc Hfresh :=
  rewrite make_rep; cbn [obind];
  let E := fresh "E" in
  match goal with |- context [?f (repeat ?z (length rs)) (recs_of rs) name] =>
    pose proof (Hfill (repeat z (length rs)) rs name) as E;
    rewrite repeat_length, firstn_all in E; specialize (E (Nat.le_refl _));
    destruct (f (repeat z (length rs)) (recs_of rs) name) as [[[|] c]| |]; cbn [fill_view] in E; rewrite <- E;
    cbn [obind gj_error_isnil negb dloop_view]; try reflexivity
  end;
  unfold gj_map_set; cbn [obind]; rewrite (assoc_set_fresh name _ acc Hfresh).

Lemma records_loop_spec (rs : list grecord) : forall (l : list (bytes * gval)) (acc : list (bytes * newdata)),
  NoDup (map fst l) -> (forall k, In k (map fst l) -> ~ In k (map fst acc)) ->
  dloop_view (gj_jsonRecordsToData_loop1 (map ent_of l) (recs_of rs) (Some acc))
  = do ds <- omap (col_of rs) l; Ok (Some (acc ++ ds)).
Proof.
  induction l as [|[name v] l IH]; intros acc Hnd Hdis.
  - cbn [map gj_jsonRecordsToData_loop1 dloop_view omap obind]. rewrite app_nil_r. reflexivity.
  - cbn [map fst] in Hnd. inversion Hnd as [|? ? Hnot Hnd']; subst.
    assert (Hfresh : ~ In name (map fst acc)) by (apply Hdis; left; reflexivity).
    assert (Hnext : forall d k, In k (map fst l) -> ~ In k (map fst (acc ++ [(name, d)]))).
    { intros d k Hk X. rewrite map_app in X. apply in_app_or in X. destruct X as [X|X].
      - exact (Hdis k (or_intror Hk) X).
      - cbn [map fst In] in X. destruct X as [X|[]]. subst. exact (Hnot Hk). }
    cbn [map ent_of fst snd gj_jsonRecordsToData_loop1 omap]. unfold col_of at 1. cbn [fst snd].
    destruct v as [|b|f|s]; cbn [any_of].
    + one_column fillStrings_model rs name acc Hfresh.
      rewrite (IH _ Hnd' (Hnext _)). destruct (omap (col_of rs) l); cbn [obind]; try reflexivity.
      rewrite <- app_assoc. reflexivity.
    + one_column fillBools_model rs name acc Hfresh.
      rewrite (IH _ Hnd' (Hnext _)). destruct (omap (col_of rs) l); cbn [obind]; try reflexivity.
      rewrite <- app_assoc. reflexivity.
    + one_column fillFloats_model rs name acc Hfresh.
      rewrite (IH _ Hnd' (Hnext _)). destruct (omap (col_of rs) l); cbn [obind]; try reflexivity.
      rewrite <- app_assoc. reflexivity.
    + one_column fillStrings_model rs name acc Hfresh.
      rewrite (IH _ Hnd' (Hnext _)). destruct (omap (col_of rs) l); cbn [obind]; try reflexivity.
      rewrite <- app_assoc. reflexivity.
Qed.

(* jsonRecordsToData(records) = records_to_data, for records whose first one has no key twice *)
Theorem jsonRecordsToData_model (rs : list grecord) :
  NoDup (map fst (hd [] rs)) ->
  data_view (gj_jsonRecordsToData (recs_of rs)) = do d <- records_to_data rs; Ok (Some d).
Proof.
  intro Hnd. rewrite records_to_data_unfold. unfold gj_jsonRecordsToData.
  destruct rs as [|r0 rs']; [reflexivity|].
  assert (E0 : (Z.of_nat (length (recs_of (r0 :: rs'))) =? 0) = false) by (cbn [recs_of map length]; lia).
  rewrite E0.
  pose proof (index_rep [] rs' r0) as EI. cbn [length app Z.of_nat] in EI. rewrite EI. cbn [obind].
  unfold rec_of at 1. cbn [gj_map_entries hd] in *.
  pose proof (records_loop_spec (r0 :: rs') r0 [] Hnd (fun _ _ X => X)) as EL. cbn [app] in EL.
  destruct (gj_jsonRecordsToData_loop1 (map ent_of r0) (recs_of (r0 :: rs')) (Some []))
    as [[d|[d [|]]]| |]; cbn [dloop_view] in EL; rewrite <- EL; reflexivity.
Qed.

(* what other decoded values do: an int column is filled by fillInts, anything else is an error *)
Lemma jsonRecordsToData_other name rest recs :
  data_view (gj_jsonRecordsToData (Some ((name, gj_any_other) :: rest) :: recs)) = Fail.
Proof.
  unfold gj_jsonRecordsToData. cbn [length]. 
  destruct (Z.of_nat (S (length recs)) =? 0) eqn:E; [lia|].
  unfold gj_list_index, idx. cbn. reflexivity.
Qed.

(* ------------------------------------------------------------------ decoded records have no key twice *)

Lemma map_set_keys (k : bytes) (v : gval) : forall m : grecord,
  map fst (map_set k v m) = if existsb (bytes_eqb k) (map fst m) then map fst m else map fst m ++ [k].
Proof.
  induction m as [|[k' v'] m IH]; [reflexivity|]. cbn [map_set map fst existsb].
  destruct (bytes_eqb k' k) eqn:E.
  - apply bytes_eqb_spec in E. subst. rewrite bytes_eqb_refl. reflexivity.
  - assert (E' : bytes_eqb k k' = false).
    { destruct (bytes_eqb k k') eqn:X; [|reflexivity]. apply bytes_eqb_spec in X. subst.
      rewrite bytes_eqb_refl in E. discriminate. }
    rewrite E'. cbn [orb map fst]. rewrite IH. destruct (existsb (bytes_eqb k) (map fst m)); reflexivity.
Qed.

Lemma map_set_nodup (k : bytes) (v : gval) (m : grecord) : NoDup (map fst m) -> NoDup (map fst (map_set k v m)).
Proof.
  intro H. rewrite map_set_keys. destruct (existsb (bytes_eqb k) (map fst m)) eqn:E; [exact H|].
  assert (Hn : ~ In k (map fst m)).
  { intro X. assert (T : existsb (bytes_eqb k) (map fst m) = true).
    { apply existsb_exists. exists k. split; [exact X|apply bytes_eqb_refl]. }
    rewrite T in E. discriminate. }
  clear E. induction (map fst m) as [|x l IH]; cbn [app].
  - constructor; [intros []|constructor].
  - inversion H as [|? ? Hx Hl]; subst. constructor.
    + intro X. apply in_app_or in X. destruct X as [X|[X|[]]]; [exact (Hx X)|].
      subst. apply Hn. left. reflexivity.
    + apply IH; [exact Hl|]. intro X. apply Hn. right. exact X.
Qed.

Section Decode.
Variable parse_float : bytes -> option N.

Lemma ofold_not_ok {A B} (f : B -> A -> outcome B) : forall (l : list A) (x : outcome B) (r : B),
  fold_left (fun acc y => do a <- acc; f a y) l x = Ok r -> exists a, x = Ok a.
Proof.
  induction l as [|y l IH]; intros x r H; cbn [fold_left] in H.
  - exists r. exact H.
  - destruct (IH _ _ H) as [a Ha]. destruct x as [a0| |]; cbn [obind] in Ha; try discriminate. exists a0. reflexivity.
Qed.

Lemma decode_record_acc_nodup : forall (ms : list jmember) (acc r : grecord),
  NoDup (map fst acc) ->
  ofold (fun m kv => do v <- decode_value parse_float (snd kv); Ok (map_set (go_string (fst kv)) v m)) ms acc = Ok r ->
  NoDup (map fst r).
Proof.
  unfold ofold. induction ms as [|kv ms IH]; intros acc r Hacc H; cbn [fold_left] in H.
  - inversion H; subst. exact Hacc.
  - destruct (ofold_not_ok _ _ _ _ H) as [a Ha]. rewrite Ha in H. cbn [obind] in Ha.
    destruct (decode_value parse_float (snd kv)) as [v| |]; cbn [obind] in Ha; try discriminate.
    inversion Ha; subst. exact (IH _ _ (map_set_nodup _ _ _ Hacc) H).
Qed.

(* every record encoding/json's model builds is a Go map: no key twice *)
Lemma decode_record_nodup (ms : list jmember) (r : grecord) :
  decode_record parse_float ms = Ok r -> NoDup (map fst r).
Proof. unfold decode_record. apply decode_record_acc_nodup. constructor. Qed.

Lemma decode_records_nodup : forall (objs : list (list jmember)) (rs : list grecord),
  omap (decode_record parse_float) objs = Ok rs -> Forall (fun r => NoDup (map fst r)) rs.
Proof.
  induction objs as [|o objs IH]; intros rs H; cbn [omap] in H.
  - inversion H. constructor.
  - destruct (decode_record parse_float o) as [r| |] eqn:Er; cbn [obind] in H; try discriminate.
    destruct (omap (decode_record parse_float) objs) as [rs'| |]; cbn [obind] in H; try discriminate.
    inversion H; subst. constructor; [exact (decode_record_nodup o r Er)|exact (IH rs' eq_refl)].
Qed.

(* decode_value answers Ok or Fail only, so the decoding of a document never panics in the model *)
Lemma decode_record_no_panic : forall (ms : list jmember), decode_record parse_float ms <> Panic.
Proof.
  intro ms. unfold decode_record, ofold. generalize (@nil (bytes * gval)).
  assert (G : forall (l : list jmember) (x : outcome grecord), x <> Panic ->
            fold_left (fun acc kv => do m <- acc; do v <- decode_value parse_float (snd kv); Ok (map_set (go_string (fst kv)) v m)) l x <> Panic).
  { induction l as [|kv l IH]; intros x Hx; [exact Hx|]. cbn [fold_left]. apply IH.
    destruct x as [m| |]; cbn [obind]; [|discriminate|congruence].
    destruct (snd kv) as [|b|text|cps]; cbn [decode_value obind]; try discriminate.
    destruct (parse_float text); cbn [obind]; discriminate. }
  intro g. apply G. discriminate.
Qed.

Lemma decode_records_no_panic : forall (objs : list (list jmember)), omap (decode_record parse_float) objs <> Panic.
Proof.
  induction objs as [|o objs IH]; [discriminate|]. cbn [omap].
  pose proof (decode_record_no_panic o) as Ho.
  destruct (decode_record parse_float o) as [r| |]; cbn [obind]; [|discriminate|congruence].
  destruct (omap (decode_record parse_float) objs) as [rs| |]; cbn [obind]; [discriminate|discriminate|congruence].
Qed.

(* ------------------------------------------------------------------ UnmarshalJSON, ReadJSON *)

(* THE BOUNDARY, as Model/JsonRead.v has it.  The reader holds an array of flat records as the Coq JSON reader
   delivers it (parse_doc); json.NewDecoder keeps it; Decode(&records) answers the records decode_record builds
   (numbers through parse_float, later duplicate keys overwriting) or an error and the records untouched. *)
Definition m_NewDecoder (objs : list (list jmember)) : list (list jmember) := objs.
Definition m_Decode (objs : list (list jmember)) (old : list (option (list (bytes * gj_any))))
  : gj_error * list (list jmember) * list (option (list (bytes * gj_any))) :=
  match omap (decode_record parse_float) objs with
  | Ok rs => (gj_nil, objs, recs_of rs)
  | _ => (gj_err, objs, old)
  end.
(* the same boundary on the bytes of the document; a document the Coq reader does not accept is an error *)
Definition m_NewDecoder_doc (doc : bytes) : bytes := doc.
Definition m_Decode_doc (doc : bytes) (old : list (option (list (bytes * gj_any))))
  : gj_error * bytes * list (option (list (bytes * gj_any))) :=
  match parse_doc doc with
  | Some objs => let '(e, _, rs) := m_Decode objs old in (e, doc, rs)
  | None => (gj_err, doc, old)
  end.
(* qframe.New with the configuration ColumnOrder(order...), Enums(enums), and QFrame{Err: err} *)
Definition m_New (d : dmap) (conf : list bytes * list (bytes * list bytes)) : outcome frame :=
  match d with Some data => new_frame data (fst conf) (snd conf) | None => Panic end.
Definition m_Err (e : gj_error) : frame := err_frame.

(* UnmarshalJSON(reader) = decode every record, then records_to_data *)
Theorem UnmarshalJSON_model (objs : list (list jmember)) :
  data_view (gj_UnmarshalJSON m_NewDecoder m_Decode objs)
  = do rs <- omap (decode_record parse_float) objs; do d <- records_to_data rs; Ok (Some d).
Proof.
  unfold gj_UnmarshalJSON, m_NewDecoder, m_Decode.
  pose proof (decode_records_no_panic objs) as HP.
  destruct (omap (decode_record parse_float) objs) as [rs| |] eqn:E; cbn [gj_error_isnil negb obind data_view];
    [|reflexivity|congruence].
  assert (Hnd : NoDup (map fst (hd [] rs))).
  { pose proof (decode_records_nodup objs rs E) as F. destruct rs as [|r rs']; [constructor|].
    inversion F; assumption. }
  rewrite <- (jsonRecordsToData_model rs Hnd).
  destruct (gj_jsonRecordsToData (recs_of rs)) as [[d [|]]| |]; reflexivity.
Qed.

End Decode.

(* ReadJSON for ANY boundary: the error test and the call of New *)
Lemma ReadJSON_unfold {Rd Dec Q CF : Type} (nd : Rd -> Dec) dc (qnew : dmap -> CF -> outcome Q) (qerr : gj_error -> Q) r conf :
  gj_ReadJSON nd dc qnew qerr r conf
  = do x <- gj_UnmarshalJSON nd dc r;
    match snd x with gj_nil => qnew (fst x) conf | gj_err => Ok (qerr gj_err) end.
Proof.
  unfold gj_ReadJSON. destruct (gj_UnmarshalJSON nd dc r) as [[d [|]]| |]; cbn [obind fst snd gj_error_isnil negb]; try reflexivity.
  destruct (qnew d conf); reflexivity.
Qed.

Lemma omap_no_panic {A B} (f : A -> outcome B) : (forall x, f x <> Panic) -> forall l, omap f l <> Panic.
Proof.
  intros Hf. induction l as [|x l IH]; [discriminate|]. cbn [omap].
  pose proof (Hf x) as Hx. destruct (f x); cbn [obind]; [|discriminate|congruence].
  destruct (omap f l); cbn [obind]; [discriminate|discriminate|congruence].
Qed.

Lemma fill_no_panic {A} (pr : gval -> option A) rs name : fill pr rs name <> Panic.
Proof.
  unfold fill. apply omap_no_panic. intro r. destruct (map_get name r) as [v|]; [|discriminate].
  destruct (pr v); discriminate.
Qed.

Lemma records_to_data_no_panic rs : records_to_data rs <> Panic.
Proof.
  rewrite records_to_data_unfold. destruct rs as [|r0 rs']; [discriminate|].
  apply omap_no_panic. intros [name v]. unfold col_of. cbn [fst snd].
  destruct v;
    match goal with |- context [fill ?p ?r ?n] => pose proof (fill_no_panic p r n) as H; destruct (fill p r n) end;
    cbn [obind]; congruence.
Qed.

(* ReadJSON(reader, ColumnOrder(order...), Enums(enums)) = read_json_records *)
Theorem ReadJSON_model parse_float (objs : list (list jmember)) (order : list bytes) (enums : list (bytes * list bytes)) :
  gj_ReadJSON m_NewDecoder (m_Decode parse_float) m_New m_Err objs (order, enums)
  = read_json_records parse_float objs order enums.
Proof.
  rewrite ReadJSON_unfold. pose proof (UnmarshalJSON_model parse_float objs) as E.
  pose proof (decode_records_no_panic parse_float objs) as P1.
  unfold read_json_records.
  destruct (omap (decode_record parse_float) objs) as [rs| |]; cbn [obind] in E; [| |congruence].
  - pose proof (records_to_data_no_panic rs) as P2.
    destruct (records_to_data rs) as [d| |]; cbn [obind] in E; [| |congruence];
      destruct (gj_UnmarshalJSON m_NewDecoder (m_Decode parse_float) objs) as [[d' [|]]| |];
      cbn [data_view] in E; try discriminate; cbn [obind fst snd m_Err]; try reflexivity.
    inversion E; subst. reflexivity.
  - destruct (gj_UnmarshalJSON m_NewDecoder (m_Decode parse_float) objs) as [[d' [|]]| |];
      cbn [data_view] in E; try discriminate; reflexivity.
Qed.

Lemma UnmarshalJSON_doc parse_float (doc : bytes) (objs : list (list jmember)) :
  parse_doc doc = Some objs ->
  gj_UnmarshalJSON m_NewDecoder_doc (m_Decode_doc parse_float) doc
  = gj_UnmarshalJSON m_NewDecoder (m_Decode parse_float) objs.
Proof.
  intro H. unfold gj_UnmarshalJSON, m_NewDecoder_doc, m_Decode_doc, m_NewDecoder. rewrite H.
  destruct (m_Decode parse_float objs []) as [[e o] rs]. reflexivity.
Qed.

(* the same on the bytes of a document the Coq reader accepts = read_json *)
Theorem ReadJSON_doc_model parse_float (doc : bytes) (order : list bytes) (enums : list (bytes * list bytes)) :
  parse_doc doc <> None ->
  gj_ReadJSON m_NewDecoder_doc (m_Decode_doc parse_float) m_New m_Err doc (order, enums)
  = read_json parse_float doc order enums.
Proof.
  intro H. unfold read_json. destruct (parse_doc doc) as [objs|] eqn:E; [|congruence].
  rewrite <- ReadJSON_model. unfold gj_ReadJSON. rewrite (UnmarshalJSON_doc parse_float doc objs E). reflexivity.
Qed.

(* a document outside the reader's domain: the translated ReadJSON answers the error frame (the model says Fail:
   outside its domain) *)
Lemma ReadJSON_doc_rejected parse_float (doc : bytes) conf :
  parse_doc doc = None ->
  gj_ReadJSON m_NewDecoder_doc (m_Decode_doc parse_float) m_New m_Err doc conf = Ok err_frame.
Proof.
  intro H. unfold gj_ReadJSON, gj_UnmarshalJSON, m_NewDecoder_doc, m_Decode_doc. rewrite H. reflexivity.
Qed.

(* ------------------------------------------------------------------ the round trip on the translated text *)

(* C14_readback (Proofs/JsonDocProofs.v readback) with the translated ReadJSON in the place of read_json *)
Theorem readback_translated (parse_float : bytes -> option N) (int_to_float : Z -> N) (f : frame) (t : table) :
  ferr f = false -> wf_frame f = true -> abs f = Ok t ->
  cols f <> [] -> ix f <> [] ->
  NoDup (col_names f) -> Forall name_ok (col_names f) ->
  enum_tables_nodup f = true ->
  Forall (Forall (rb_ok parse_float int_to_float)) (trows t) ->
  exists out f',
    frame_to_json f = Ok out /\
    gj_ReadJSON m_NewDecoder_doc (m_Decode_doc parse_float) m_New m_Err out (col_names f, enum_conf (cols f)) = Ok f' /\
    ferr f' = false /\
    abs f' = Ok (mkTable (tnames t) (map rb_type (ttypes t)) (map (map (rb_cell int_to_float)) (trows t))).
Proof.
  intros H1 H2 H3 H4 H5 H6 H7 H8 H9.
  destruct (readback parse_float int_to_float f t H1 H2 H3 H4 H5 H6 H7 H8 H9) as (out & f' & A & B & C & D).
  exists out, f'. split; [exact A|]. split; [|split; [exact C|exact D]].
  rewrite ReadJSON_doc_model; [exact B|].
  intro X. unfold read_json in B. rewrite X in B. discriminate.
Qed.
