(* Proofs/SortKeyProofs.v — the five concrete column types of Corr/SortCorr.v: the value order of
   every type is a strict weak order on its non-null rows, hence Sorter.Less as modelled ([model_lt],
   used for the exact replay) IS the order worded by the property ([spec_lt], used by the oracle),
   and it is a strict weak order. *)
From QF Require Import Base.Prelude Model.Sort Proofs.SortProofs Corr.SortCorr.

Lemma bytes_cmp_antisym : forall a b, bytes_cmp b a = CompOpp (bytes_cmp a b).
Proof.
  induction a as [|x a IH]; intros [|y b]; cbn; auto.
  rewrite (N.compare_antisym x y). destruct (N.compare x y); cbn; auto.
Qed.

Lemma bytes_cmp_ge_trans : forall a b c,
  bytes_cmp a b <> Lt -> bytes_cmp b c <> Lt -> bytes_cmp a c <> Lt.
Proof.
  induction a as [|x a IH]; intros [|y b] [|z c]; cbn; try congruence.
  destruct (N.compare_spec x y), (N.compare_spec y z), (N.compare_spec x z);
    subst; try congruence; try lia; eauto.
Qed.

Definition bytes_lt (x y : bytes) : bool := match bytes_cmp x y with Lt => true | _ => false end.

Lemma bytes_lt_asym x y : bytes_lt x y = true -> bytes_lt y x = false.
Proof.
  unfold bytes_lt. rewrite (bytes_cmp_antisym x y). destruct (bytes_cmp x y); cbn; congruence.
Qed.

Lemma bytes_lt_negtrans x y z : bytes_lt x y = false -> bytes_lt y z = false -> bytes_lt x z = false.
Proof.
  unfold bytes_lt. intros H1 H2.
  assert (A : bytes_cmp x y <> Lt) by (destruct (bytes_cmp x y); congruence).
  assert (B : bytes_cmp y z <> Lt) by (destruct (bytes_cmp y z); congruence).
  (* x >= y >= z in the reversed reading: use the transitivity of "not Lt" on (z, y, x) *)
  destruct (bytes_cmp x z) eqn:E; auto.
  exfalso.
  assert (A' : bytes_cmp y x <> Gt) by (rewrite (bytes_cmp_antisym x y); destruct (bytes_cmp x y); cbn; congruence).
  assert (B' : bytes_cmp z y <> Gt) by (rewrite (bytes_cmp_antisym y z); destruct (bytes_cmp y z); cbn; congruence).
  pose proof (bytes_cmp_ge_trans x y z A B). congruence.
Qed.

Lemma key_vlt_swo (k : keydata) : strict_weak_order_on (nonnull (key_isnull k)) (key_vlt k).
Proof.
  apply swo_of_asym_negtrans; destruct k as [v|v|v|v|v]; unfold nonnull, key_isnull, key_vlt, f_lt.
  - intros a b _ _ H. lia.
  - intros a b Pa Pb H. rewrite negb_true_iff in Pa, Pb. rewrite Pa, Pb in *. cbn in *. lia.
  - intros a b _ _ H. destruct (nthd v false a), (nthd v false b); cbn in *; congruence.
  - intros a b Pa Pb. destruct (nthd v None a), (nthd v None b); try discriminate.
    apply bytes_lt_asym.
  - intros a b Pa Pb. destruct (nthd v None a), (nthd v None b); try discriminate. lia.
  - intros a b c _ _ _ H1 H2. lia.
  - intros a b c Pa Pb Pc. rewrite negb_true_iff in Pa, Pb, Pc. rewrite Pa, Pb, Pc. cbn. lia.
  - intros a b c _ _ _. destruct (nthd v false a), (nthd v false b), (nthd v false c); cbn; congruence.
  - intros a b c Pa Pb Pc. destruct (nthd v None a), (nthd v None b), (nthd v None c); try discriminate.
    apply bytes_lt_negtrans.
  - intros a b c Pa Pb Pc. destruct (nthd v None a), (nthd v None b), (nthd v None c); try discriminate.
    lia.
Qed.

Lemma key_compare_spec (ks : keyspec) x y :
  cmp3 (key_compare ks x y) = cmp_of_lt (key_spec ks) x y.
Proof.
  destruct ks as [k [rev nl]]. unfold key_compare, key_spec.
  pose proof (swo_asym _ _ (key_vlt_swo k)) as A.
  destruct k as [v|v|v|v|v].
  - rewrite compare_rows_int_eq. apply compare_rows_spec, A.
  - rewrite compare_rows_float_eq; [apply compare_rows_spec, A|].
    intros a b [H|H]; cbn [key_vlt key_isnull] in *; unfold f_lt; rewrite H; cbn;
      rewrite ?andb_false_r; reflexivity.
  - rewrite compare_rows_bool_eq. apply compare_rows_spec, A.
  - apply compare_rows_spec, A.
  - apply compare_rows_spec, A.
Qed.

(* the comparison that drives the exact replay is the order worded by the property *)
Theorem model_lt_spec (keys : list keyspec) a b : model_lt keys a b = spec_lt keys a b.
Proof.
  unfold model_lt, spec_lt. apply less_keys_lex.
  induction keys as [|k keys IH]; cbn [map]; constructor; auto.
  intros x y. apply key_compare_spec.
Qed.

(* and it is a strict weak order for every choice of columns, Reverse and NullLast *)
Theorem spec_lt_swo (keys : list keyspec) : strict_weak_order (spec_lt keys).
Proof.
  unfold spec_lt. apply lex_lt_spec_swo.
  induction keys as [|[k [rev nl]] keys IH]; cbn [map]; constructor; auto.
  apply key_lt_spec_swo, key_vlt_swo.
Qed.

Theorem model_lt_swo (keys : list keyspec) : strict_weak_order (model_lt keys).
Proof.
  destruct (spec_lt_swo keys) as [I T C]. split.
  - intros a Pa. rewrite model_lt_spec. auto.
  - intros a b c Pa Pb Pc. rewrite !model_lt_spec. eauto.
  - intros a b c Pa Pb Pc. rewrite !model_lt_spec. eauto.
Qed.
