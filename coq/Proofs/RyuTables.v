(* Proofs/RyuTables.v — the tables and the multiply-shift logarithm formulas of internal/ryu.
   All statements here are over finite domains whose bounds appear in the statements; they are proved by
   evaluation (vm_compute) of boolean sweeps that are then lifted to the logical statements. *)
From QF Require Import Base.Prelude Gen.GenConsts Gen.GenRyu Model.Ryu.
Local Open Scope N_scope.

(* ------------------------------------------------------------------ the 128-bit multiplier tables *)

Definition val128 (p : N * N) : N := snd p * 2 ^ 64 + fst p.

(* top c_pow5NumBits64 (= 121) bits of 5^i: floor(5^i / 2^(bitlen - 121)), or 5^i * 2^(121 - bitlen) *)
Definition pow5split_spec (i : N) : N :=
  let p := 5 ^ i in
  let b := N.size p in
  if c_pow5NumBits64 <=? b then p / 2 ^ (b - c_pow5NumBits64) else p * 2 ^ (c_pow5NumBits64 - b).

(* floor(2^(bitlen(5^q) - 1 + 122) / 5^q) + 1 *)
Definition pow5inv_spec (q : N) : N :=
  2 ^ (N.size (5 ^ q) - 1 + c_pow5InvNumBits64) / 5 ^ q + 1.

Definition word_ok (p : N * N) : bool := (fst p <? 2 ^ 64) && (snd p <? 2 ^ 64).

Lemma pow5Split64_values :
  map val128 g_pow5Split64 = map (fun i => pow5split_spec (N.of_nat i)) (seq 0 326).
Proof. vm_cast_no_check (eq_refl (map val128 g_pow5Split64)). Qed.

Lemma pow5InvSplit64_values :
  map val128 g_pow5InvSplit64 = map (fun q => pow5inv_spec (N.of_nat q)) (seq 0 292).
Proof. vm_cast_no_check (eq_refl (map val128 g_pow5InvSplit64)). Qed.

Lemma tables_words : forallb word_ok (g_pow5Split64 ++ g_pow5InvSplit64) = true.
Proof. vm_compute. reflexivity. Qed.

Lemma powersOf10_values : g_powersOf10 = map (fun i => 10 ^ N.of_nat i) (seq 0 18).
Proof. vm_compute. reflexivity. Qed.

Lemma nth_error_map_seq {A} (f : nat -> A) (n i : nat) :
  (i < n)%nat -> nth_error (map f (seq 0 n)) i = Some (f i).
Proof.
  intro H. rewrite nth_error_map.
  assert (E : nth_error (seq 0 n) i = Some (0 + i)%nat).
  { rewrite (nth_error_nth' _ 0%nat) by (rewrite seq_length; exact H). rewrite seq_nth by exact H. reflexivity. }
  rewrite E. reflexivity.
Qed.

Lemma table_entry (tab : list (N * N)) (spec : N -> N) (n : nat) :
  map val128 tab = map (fun i => spec (N.of_nat i)) (seq 0 n) ->
  forallb word_ok tab = true ->
  forall i, (i < n)%nat ->
  exists lo hi, nth_error tab i = Some (lo, hi) /\ lo < 2 ^ 64 /\ hi < 2 ^ 64 /\
                hi * 2 ^ 64 + lo = spec (N.of_nat i).
Proof.
  intros Hmap Hw i Hi.
  pose proof (nth_error_map_seq (fun i => spec (N.of_nat i)) n i Hi) as E.
  rewrite <- Hmap, nth_error_map in E.
  destruct (nth_error tab i) as [[lo hi]|] eqn:En; [|discriminate].
  exists lo, hi. split; [reflexivity|].
  rewrite forallb_forall in Hw. specialize (Hw (lo, hi) (nth_error_In _ _ En)).
  unfold word_ok in Hw; cbn [fst snd] in Hw. apply andb_true_iff in Hw as [H1 H2].
  apply N.ltb_lt in H1, H2. cbn in E. injection E as E. unfold val128 in E; cbn [fst snd] in E.
  auto.
Qed.

Theorem ryu_tables_ok :
  length g_pow5Split64 = 326%nat /\ length g_pow5InvSplit64 = 292%nat /\
  (forall i, (i < 326)%nat ->
     exists lo hi, nth_error g_pow5Split64 i = Some (lo, hi) /\ lo < 2 ^ 64 /\ hi < 2 ^ 64 /\
                   hi * 2 ^ 64 + lo = pow5split_spec (N.of_nat i)) /\
  (forall q, (q < 292)%nat ->
     exists lo hi, nth_error g_pow5InvSplit64 q = Some (lo, hi) /\ lo < 2 ^ 64 /\ hi < 2 ^ 64 /\
                   hi * 2 ^ 64 + lo = pow5inv_spec (N.of_nat q)) /\
  g_powersOf10 = map (fun i => 10 ^ N.of_nat i) (seq 0 18).
Proof.
  pose proof tables_words as W. rewrite forallb_app in W. apply andb_true_iff in W as [W1 W2].
  split; [reflexivity|]. split; [reflexivity|].
  split; [exact (table_entry _ _ _ pow5Split64_values W1)|].
  split; [exact (table_entry _ _ _ pow5InvSplit64_values W2)|].
  exact powersOf10_values.
Qed.

(* ------------------------------------------------------------------ log10Pow2, log10Pow5 *)

(* sweep with running powers: p = base^e, t = 10^r where r is the previous result *)
Fixpoint sweep_log (f : Z -> outcome N) (base : N) (n : nat) (e p r t : N) : bool :=
  match n with
  | O => true
  | S n' =>
      match f (Z.of_N e) with
      | Ok r' =>
          let t' := if r' =? r then t else 10 * t in
          ((r' =? r) || (r' =? r + 1)) && (t' <=? p) && (p <? 10 * t')
          && sweep_log f base n' (e + 1) (base * p) r' t'
      | _ => false
      end
  end.

Lemma sweep_log_sound f base : forall n e p r t,
  sweep_log f base n e p r t = true -> p = base ^ e -> t = 10 ^ r ->
  forall j, (j < n)%nat ->
  exists r', f (Z.of_N (e + N.of_nat j)) = Ok r' /\
             10 ^ r' <= base ^ (e + N.of_nat j) /\ base ^ (e + N.of_nat j) < 10 ^ (r' + 1).
Proof.
  induction n as [|n IH]; intros e p r t H Hp Ht j Hj; [lia|].
  cbn [sweep_log] in H.
  destruct (f (Z.of_N e)) as [r'| |] eqn:Ef; try discriminate.
  apply andb_true_iff in H as [H H4]. apply andb_true_iff in H as [H H3].
  apply andb_true_iff in H as [H1 H2].
  apply N.leb_le in H2. apply N.ltb_lt in H3.
  assert (Ht' : (if r' =? r then t else 10 * t) = 10 ^ r').
  { destruct (r' =? r) eqn:Er.
    - apply N.eqb_eq in Er. subst. reflexivity.
    - cbn in H1. apply N.eqb_eq in H1. subst r' t. rewrite N.pow_add_r, N.pow_1_r. lia. }
  rewrite Ht' in *.
  destruct j as [|j].
  - exists r'. replace (e + N.of_nat 0) with e by lia. rewrite <- Hp.
    split; [exact Ef|]. split; [exact H2|]. rewrite N.pow_add_r, N.pow_1_r. lia.
  - replace (e + N.of_nat (S j)) with ((e + 1) + N.of_nat j) by lia.
    apply (IH (e + 1) (base * p) r' (10 ^ r')); try assumption; try reflexivity; try lia.
    subst p. rewrite N.pow_add_r, N.pow_1_r. lia.
Qed.

Lemma log10Pow2_sweep : sweep_log log10Pow2 2 1651 0 1 0 1 = true.
Proof. vm_cast_no_check (eq_refl true). Qed.

Lemma log10Pow5_sweep : sweep_log log10Pow5 5 2621 0 1 0 1 = true.
Proof. vm_cast_no_check (eq_refl true). Qed.

(* log10Pow2 e = floor(log10(2^e)) on the whole asserted domain 0..1650 *)
Theorem log10Pow2_ok (e : N) :
  e <= 1650 -> exists r, log10Pow2 (Z.of_N e) = Ok r /\ 10 ^ r <= 2 ^ e /\ 2 ^ e < 10 ^ (r + 1).
Proof.
  intro H.
  destruct (sweep_log_sound _ _ _ _ _ _ _ log10Pow2_sweep eq_refl eq_refl (N.to_nat e)) as [r Hr]; [lia|].
  rewrite N2Nat.id in Hr. exists r. exact Hr.
Qed.

(* log10Pow5 e = floor(log10(5^e)) on the whole asserted domain 0..2620 *)
Theorem log10Pow5_ok (e : N) :
  e <= 2620 -> exists r, log10Pow5 (Z.of_N e) = Ok r /\ 10 ^ r <= 5 ^ e /\ 5 ^ e < 10 ^ (r + 1).
Proof.
  intro H.
  destruct (sweep_log_sound _ _ _ _ _ _ _ log10Pow5_sweep eq_refl eq_refl (N.to_nat e)) as [r Hr]; [lia|].
  rewrite N2Nat.id in Hr. exists r. exact Hr.
Qed.

(* outside the asserted domain the functions panic *)
Lemma log10Pow2_domain (e : Z) : (e < 0 \/ 1650 < e)%Z -> log10Pow2 e = Panic.
Proof.
  intro H. unfold log10Pow2, assert_. change (Z.of_N c_l10p2_min) with 0%Z. change (Z.of_N c_l10p2_max) with 1650%Z.
  destruct (0 <=? e)%Z eqn:E1; [|reflexivity]. destruct (e <=? 1650)%Z eqn:E2; [|reflexivity]. lia.
Qed.

(* ------------------------------------------------------------------ pow5Bits *)

Fixpoint sweep_p5b (n : nat) (e p : N) : bool :=
  match n with
  | O => true
  | S n' =>
      match pow5Bits (Z.of_N e) with
      | Ok b => (b =? Z.of_N (N.size p))%Z && sweep_p5b n' (e + 1) (5 * p)
      | _ => false
      end
  end.

Lemma sweep_p5b_sound : forall n e p,
  sweep_p5b n e p = true -> p = 5 ^ e ->
  forall j, (j < n)%nat -> pow5Bits (Z.of_N (e + N.of_nat j)) = Ok (Z.of_N (N.size (5 ^ (e + N.of_nat j)))).
Proof.
  induction n as [|n IH]; intros e p H Hp j Hj; [lia|].
  cbn [sweep_p5b] in H.
  destruct (pow5Bits (Z.of_N e)) as [b| |] eqn:Eb; try discriminate.
  apply andb_true_iff in H as [H1 H2]. apply Z.eqb_eq in H1.
  destruct j as [|j].
  - replace (e + N.of_nat 0) with e by lia. rewrite Eb, H1, Hp. reflexivity.
  - replace (e + N.of_nat (S j)) with ((e + 1) + N.of_nat j) by lia.
    apply (IH (e + 1) (5 * p)); try assumption; try lia.
    subst p. rewrite N.pow_add_r, N.pow_1_r. lia.
Qed.

Lemma pow5Bits_sweep : sweep_p5b 3529 0 1 = true.
Proof. vm_cast_no_check (eq_refl true). Qed.

(* pow5Bits e = bit length of 5^e = ceil(log2(5^e)) for e > 0 (5^e is not a power of two) and 1 for e = 0,
   on the whole asserted domain 0..3528 *)
Theorem pow5Bits_ok (e : N) :
  e <= 3528 ->
  exists b, pow5Bits (Z.of_N e) = Ok (Z.of_N b) /\ 1 <= b /\ 2 ^ (b - 1) <= 5 ^ e /\ 5 ^ e < 2 ^ b.
Proof.
  intro H.
  pose proof (sweep_p5b_sound _ _ _ pow5Bits_sweep eq_refl (N.to_nat e)) as S.
  rewrite N2Nat.id in S. exists (N.size (5 ^ e)). split; [apply S; lia|].
  assert (P : 5 ^ e <> 0) by (apply N.pow_nonzero; lia).
  assert (P1 : 1 <= N.size (5 ^ e)).
  { destruct (5 ^ e) as [|q] eqn:E; [congruence|]. cbn. lia. }
  split; [exact P1|]. split.
  - pose proof (N.size_le (5 ^ e)) as L.
    destruct (5 ^ e) as [|q] eqn:E; [congruence|].
    replace (N.size (N.pos q)) with (N.succ (N.size (N.pos q) - 1)) in L by lia.
    rewrite N.pow_succ_r' in L. lia.
  - apply N.size_gt.
Qed.

Theorem pow5Bits_zero : pow5Bits 0 = Ok 1%Z.
Proof. reflexivity. Qed.
